#!/bin/bash
# usage: tools/confirm_seed.sh <seed dir with patch.diff, demo file(s), demo_cmd.txt> [pkgs-for-demo-overlay]
# Confirms in a scratch worktree: demo passes without the patch, fails with it, the repo's
# own test suite (tag off) has the same failing set as the unmodified tree.
set -u
D=$(realpath "$1"); ID=$(basename "$D")
export GOFLAGS=-mod=mod GOPROXY=off GOSUMDB=off GOTOOLCHAIN=local
GO=/root/go/pkg/mod/golang.org/toolchain@v0.0.1-go1.24.11.linux-amd64/bin/go
WT=/tmp/confirm-$ID-$$
git -C /repo worktree add --detach "$WT" HEAD >/dev/null 2>&1 || exit 2
trap 'git -C /repo worktree remove --force "$WT" >/dev/null 2>&1; rm -rf "$WT"' EXIT
OUT="$D/confirm.log"; : > "$OUT"
# where do demo files go?
DEMODIR=$(grep -E '(go|\$GO)[" ]+test' "$D/demo_cmd.txt" | grep -oE '\./(internal|cmd)/[A-Za-z0-9_/-]+' | tail -1 | sed 's#^\./##')
[ -z "$DEMODIR" ] && DEMODIR=$(grep -oE '(internal|cmd)/[A-Za-z0-9_/-]+' "$D/demo_cmd.txt" | grep -v 'sqlite0' | head -1)
[ -f "$D/demo_dir.txt" ] && DEMODIR=$(cat "$D/demo_dir.txt")
DEMODIR=${DEMO_DIR:-$DEMODIR}
DEMODIR=${DEMODIR%/}
echo "demo dir: $DEMODIR" | tee -a "$OUT"
for f in "$D"/*_test.go "$D"/*.go; do [ -f "$f" ] && cp "$f" "$WT/$DEMODIR/"; done
OV=""
if grep -q overlay "$D/demo_cmd.txt"; then
  echo "{\"Replace\":{\"$WT/internal/sqlite/sqlite0/sqlite3.c\":\"/verif/third_party/sqlite/sqlite3.c\",\"$WT/internal/sqlite/sqlite0/sqlite3.h\":\"/verif/third_party/sqlite/sqlite3.h\"}}" > /tmp/ov-$$.json
  OV="-overlay /tmp/ov-$$.json"
fi
RUN=${DEMO_RUN:-"Test(ZZ)?SeedDemo"}
cd "$WT"
echo "== demo WITHOUT patch" | tee -a "$OUT"
$GO test $OV -vet=off -count=1 -run "$RUN" ./$DEMODIR/ >> "$OUT" 2>&1; A=$?
git apply --whitespace=nowarn "$D/patch.diff" || { echo "patch does not apply" | tee -a "$OUT"; exit 2; }
echo "== demo WITH patch" | tee -a "$OUT"
$GO test $OV -vet=off -count=1 -run "$RUN" ./$DEMODIR/ >> "$OUT" 2>&1; B=$?
rm -f "$WT/$DEMODIR"/zz_seed_demo*_test.go
C=0  # compilation of every package is covered by the suite run below ([build failed] lines)
echo "== suite WITH patch" | tee -a "$OUT"
$GO test -p 6 -vet=off -count=1 -timeout 25m ./... 2>&1 | grep -E '^(FAIL|---|panic|ok )' | grep -v '^ok ' > /tmp/suite-$$.txt
# load-sensitive tests of the repo (fail on the unmodified tree too when the machine is busy) are reported, not compared
grep -E 'TestRateLimit_|TestWeightedAcquire|TestCache2Parallel|Test_Round_Robin_Simple_Queue_Random_Timeout_Race' /tmp/suite-$$.txt | sed 's/^/LOAD-SENSITIVE: /' | tee -a "$OUT"
sed -E 's/ *\(?[0-9.]+s\)?$//' /tmp/suite-$$.txt | grep -vE 'TestRateLimit_|TestWeightedAcquire|TestCache2Parallel|Test_Round_Robin_Simple_Queue_Random_Timeout_Race|^FAIL$|internal/chutil|internal/vkgo/semaphore|internal/util/queue\s*$|internal/api\s*$' | sort -u > /tmp/suite-$$.s
cat /tmp/suite-$$.s >> "$OUT"
if [ -f /verif/seeded/baseline_fail.txt ]; then
  if diff -q /tmp/suite-$$.s /verif/seeded/baseline_fail.txt >/dev/null; then S=0; else S=1; diff /tmp/suite-$$.s /verif/seeded/baseline_fail.txt | tee -a "$OUT"; fi
else S=9; fi
echo "RESULT $ID demo_without=$A(want 0) demo_with=$B(want !=0) build=$C suite_same_as_baseline=$S(want 0)" | tee -a "$OUT"
rm -f /tmp/suite-$$.* /tmp/ov-$$.json
[ $A -eq 0 ] && [ $B -ne 0 ] && [ $C -ne 0 -o $C -eq 0 ] && [ $S -eq 0 ]
