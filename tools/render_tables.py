#!/usr/bin/env python3
"""Renders the findings table and the seeded-change table into DESIGN.md between
<!-- BEGIN:findings --> / <!-- END:findings --> and <!-- BEGIN:seeded --> / <!-- END:seeded -->."""
import json, os, re, glob
V = os.path.dirname(os.path.dirname(os.path.abspath(__file__)))
kf = json.load(open(os.path.join(V, "known_findings.json")))
def esc(s): return s.replace("|", "\\|").replace("\n", " ")
rows = ["| property | key | status | what fails |", "|---|---|---|---|"]
# C27 reductions are many: collapse
c27 = [e for e in kf if e["key"].startswith("C27/reduction")]
for e in kf:
    if e in c27: continue
    st = "fixed in %s" % e.get("commit", "?") if e["status"] == "fixed" else "known"
    rows.append("| %s | `%s` | %s | %s |" % (e["property"], esc(e["key"]), st, esc(e["what"])[:420]))
if c27:
    fam = {}
    for e in c27:
        k = "/".join(e["key"].split("/")[:4])
        fam.setdefault(k, []).append(e["key"].split("/")[-1])
    for k, ds in sorted(fam.items()):
        rows.append("| C27 | `%s/{%s}` | known | reduction rule changes the result for these digests (one key per digest; %d keys) |" % (k, ",".join(sorted(ds)), len(ds)))
findings = "\n".join(rows)
# seeded
res = {}
try: res = json.load(open(os.path.join(V, "seeded", "RESULTS.json")))
except Exception: pass
srows = ["| seeded change | property | what was changed | needs to manifest | confirmed on HEAD | quick check |", "|---|---|---|---|---|---|"]
for d in sorted(glob.glob(os.path.join(V, "seeded", "C*-*"))):
    sid = os.path.basename(d)
    try: m = json.load(open(os.path.join(d, "meta.json")))
    except Exception: m = {}
    r = res.get(sid, {})
    conf = m.get("confirmed")
    if not conf:
        try:
            last = [l for l in open(os.path.join(d, "confirm.log")) if l.startswith("RESULT")][-1]
            ok = "demo_without=0(" in last and "demo_with=0(" not in last and "suite_same_as_baseline=0(" in last
            conf = "yes" if ok else "see confirm.log"
        except Exception:
            conf = "not yet"
    m["confirmed"] = conf
    verdicts = []
    for k, v in sorted(r.items()):
        if isinstance(v, dict) and "caught" in v:
            keys = sorted(set(re.findall(r"key=(\S+)", " ".join(v.get("lines", [])))))
            verdicts.append("%s: %s%s" % (k, "CAUGHT" if v["caught"] else "missed", (" (" + ", ".join(keys[:3]) + ")") if v["caught"] and keys else ""))
    srows.append("| %s | %s | %s | %s | %s | %s |" % (sid, m.get("property", sid[:3]), esc(str(m.get("summary", "")))[:300], esc(str(m.get("needs_to_manifest", "")))[:200], esc(str(m.get("confirmed", "?"))), esc("; ".join(verdicts))))
seeded = "\n".join(srows)
p = os.path.join(V, "DESIGN.md")
s = open(p).read()
for name, body in (("findings", findings), ("seeded", seeded)):
    b, e = "<!-- BEGIN:%s -->" % name, "<!-- END:%s -->" % name
    if b in s and e in s:
        s = s[:s.index(b) + len(b)] + "\n" + body + "\n" + s[s.index(e):]
open(p, "w").write(s)
print("rendered", len(rows) - 2, "findings rows,", len(srows) - 2, "seeded rows")
