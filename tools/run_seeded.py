#!/usr/bin/env python3
"""Runs checks against seeded breaking changes kept in /verif/seeded/<id>/ (patch.diff, meta.json).

  tools/run_seeded.py [<seed-id> ...] [--tier quick|thorough] [--dir /verif/seeded] [--checks C01,C02]

Each patch is applied in a scratch git worktree of /repo under /tmp (removed afterwards) and
the check(s) of the property named in meta.json run with VERIF_REPO=<worktree>.  /repo itself
is never touched.  Results are appended to <dir>/RESULTS.json.
"""
import json, os, subprocess, sys, shutil, time

V = os.path.dirname(os.path.dirname(os.path.abspath(__file__)))


def main():
    args = sys.argv[1:]
    tier, d, ids, checks = "quick", os.path.join(V, "seeded"), [], None
    resp_override = None
    i = 0
    while i < len(args):
        if args[i] == "--tier":
            tier = args[i + 1]; i += 1
        elif args[i] == "--dir":
            d = args[i + 1]; i += 1
        elif args[i] == "--results":
            resp_override = args[i + 1]; i += 1
        elif args[i] == "--checks":
            checks = args[i + 1].split(","); i += 1
        else:
            ids.append(args[i])
        i += 1
    if not ids:
        ids = sorted(x for x in os.listdir(d) if os.path.isfile(os.path.join(d, x, "patch.diff")))
    resp = resp_override or os.path.join(d, "RESULTS.json")
    try:
        results = json.load(open(resp))
    except Exception:
        results = {}
    rc_all = 0
    for sid in ids:
        sd = os.path.join(d, sid)
        meta = {}
        try:
            meta = json.load(open(os.path.join(sd, "meta.json")))
        except Exception:
            pass
        props = checks or [meta.get("property") or sid.split("-")[0]]
        wt = "/tmp/seedrun-%s-%d" % (sid, os.getpid())
        subprocess.run(["git", "-C", "/repo", "worktree", "add", "--detach", wt, "HEAD"], check=True, capture_output=True)
        try:
            p = subprocess.run(["git", "-C", wt, "apply", "--whitespace=nowarn", os.path.join(sd, "patch.diff")], capture_output=True, text=True)
            if p.returncode != 0:
                print("%s: patch does not apply: %s" % (sid, p.stderr.strip()[:300]))
                results[sid] = {"error": "patch does not apply"}
                rc_all = 2
                continue
            for prop in props:
                t0 = time.time()
                env = dict(os.environ, VERIF_REPO=wt)
                q = subprocess.run([os.path.join(V, "check"), prop, "--tier", tier], cwd=V, env=env, capture_output=True, text=True)
                lines = [l for l in q.stdout.splitlines() if l.startswith(("VIOLATION", "INCONCLUSIVE", "BUILD-FAILED", "HELD", "VIOLATED", "KNOWN-FINDING"))]
                caught = q.returncode == 1 and any(l.startswith("VIOLATION") for l in lines)
                print("%s %s tier=%s: %s (rc=%d, %.0fs)" % (sid, prop, tier, "CAUGHT" if caught else "MISSED", q.returncode, time.time() - t0))
                for l in lines[:6]:
                    print("    " + l[:240])
                results.setdefault(sid, {})[prop + "/" + tier] = {"caught": caught, "rc": q.returncode, "lines": lines[:8], "wall_s": round(time.time() - t0)}
        finally:
            subprocess.run(["git", "-C", "/repo", "worktree", "remove", "--force", wt], capture_output=True)
            shutil.rmtree(wt, ignore_errors=True)
            import hashlib
            shutil.rmtree(os.path.join(V, '.build', 'alt-' + hashlib.sha1(os.path.realpath(wt).encode()).hexdigest()[:8]), ignore_errors=True)
        json.dump(results, open(resp, "w"), indent=1, sort_keys=True)
    return rc_all


if __name__ == "__main__":
    sys.exit(main())
