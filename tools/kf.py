#!/usr/bin/env python3
"""known_findings.json helper.
  tools/kf.py add <property> <key> <status known|fixed> <what> [commit]
  tools/kf.py import <file.json> [--status known]   (list of entries)
Keeps the file sorted; a 'fixed' entry gets the record line 'fixed: property=<id> <commit> <what failed>'.
"""
import json, sys, os
P = os.path.join(os.path.dirname(os.path.dirname(os.path.abspath(__file__))), "known_findings.json")
def load():
    try: return json.load(open(P))
    except Exception: return []
def save(l):
    l.sort(key=lambda e: (e["property"], e["status"], e["key"]))
    json.dump(l, open(P, "w"), indent=1, ensure_ascii=False); open(P, "a").write("\n")
def put(l, e):
    l[:] = [x for x in l if not (x["property"] == e["property"] and x["key"] == e["key"])]
    if e["status"] == "fixed":
        e["record"] = "fixed: property=%s %s %s" % (e["property"], e.get("commit", "?"), e["what"])
    l.append(e)
a = sys.argv[1:]
l = load()
if a[0] == "add":
    e = {"property": a[1], "key": a[2], "status": a[3], "what": a[4]}
    if len(a) > 5: e["commit"] = a[5]
    put(l, e)
elif a[0] == "import":
    for e in json.load(open(a[1])):
        put(l, e)
save(l)
print(len(l), "entries")
