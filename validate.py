#!/usr/bin/env python3
# usage: python3-vt validate.py   (jsonschema lives in the tooling venv)
import json, glob, sys, jsonschema
ok = True
jsonschema.validate(json.load(open('/verif/MANIFEST.json')), json.load(open('/root/.vp/MANIFEST.schema.json')))
es = json.load(open('/root/.vp/EVIDENCE.schema.json'))
m = json.load(open('/verif/MANIFEST.json'))
for f in sorted(c['evidence_file'] for c in m['checks']):
    try:
        jsonschema.validate(json.load(open(f)), es)
    except Exception as e:
        ok = False
        print("INVALID", f, str(e)[:300])
print("valid" if ok else "problems")
sys.exit(0 if ok else 1)
