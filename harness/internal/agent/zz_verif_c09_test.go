//go:build verif

package agent

// C09 — Agent disk cache survives restarts and crashes without corruption.
//
// Crash-free part: random histories of PutBucket / GetBucket / EraseBucket / ReadNextTailBucket /
// TotalFileSize / Close+reopen over 1-4 shards run in lockstep with a reference model of the files
// (records, erase marks, which file is written / read / waiting, which records the running process
// knows).  Every result, the reported sizes and the directory listing are compared with the model.
//
// Crash part (fault enumeration): at the end of every history the state on disk is taken as the
// moment of a crash and the last write is torn at enumerated byte offsets:
//   * a final PutBucket (header 20 bytes, then body): the file ends after k bytes of the record,
//     k = 0 .. 20+len (quick tier: every header byte, sampled body bytes, the complete record);
//   * a final EraseBucket (4-byte magic overwrite): k = 0 .. 4 bytes of the new magic landed;
//   * (fault beyond the statement's tearing, for the "never corrupted data" clause) one flipped
//     byte inside the body of a live record.
// The torn directory is materialised in a scratch directory, reopened with the real code and read
// back completely.  Oracle: exactly the records that were put and not erased, in write order, with
// identical bytes; only the record of the torn write may be missing (or, for a torn erase, present);
// a flipped body must be reported as an error, never returned; sizes match the directory.

import (
	"bytes"
	"encoding/binary"
	"fmt"
	"os"
	"path/filepath"
	"sort"
	"strconv"
	"strings"
	"testing"

	"github.com/VKCOM/statshouse/internal/zzverif/verifkit"
)

type c09Rec struct {
	uid    int
	sec    uint32
	data   []byte
	file   *c09File
	off    int64
	erased bool
	id     int64 // id handed out by the running process, 0 = not known to it
}

type c09File struct {
	recs    []*c09Rec
	size    int64
	removed bool
	known   int
	writing bool
	reading bool
	junk    bool // not written by the cache: holds no record, the reader must drop it
	seq     int
}

type c09Shard struct {
	files   []*c09File // creation order, including removed ones
	writing *c09File
	reading *c09File
	readIdx int
	waiting []*c09File
	byID    map[int64]*c09Rec
}

func (s *c09Shard) maybeRemove(f *c09File) {
	if !f.writing && !f.reading && f.known == 0 {
		f.removed = true
	}
}

func (s *c09Shard) existing() []*c09File {
	var out []*c09File
	for _, f := range s.files {
		if !f.removed {
			out = append(out, f)
		}
	}
	return out
}

func (s *c09Shard) live() []*c09Rec {
	var out []*c09Rec
	for _, f := range s.existing() {
		for _, r := range f.recs {
			if !r.erased {
				out = append(out, r)
			}
		}
	}
	return out
}

func (s *c09Shard) sizes() (total, unsent int64) {
	for _, f := range s.existing() {
		total += f.size
	}
	for _, r := range s.byID {
		unsent += headerSize + int64(len(r.data))
	}
	for _, f := range s.waiting {
		unsent += f.size
	}
	if s.reading != nil {
		pos := s.reading.size
		if s.readIdx < len(s.reading.recs) {
			pos = s.reading.recs[s.readIdx].off
		}
		unsent += s.reading.size - pos
	}
	return
}

// the model's next tail record (advances the model exactly like the reader does)
func (s *c09Shard) nextTail() *c09Rec {
	for {
		if s.reading == nil {
			if len(s.waiting) == 0 {
				return nil
			}
			s.reading = s.waiting[0]
			s.waiting = s.waiting[1:]
			s.reading.reading = true
			s.readIdx = 0
		}
		if s.readIdx >= len(s.reading.recs) {
			f := s.reading
			f.reading = false
			s.reading = nil
			s.maybeRemove(f)
			continue
		}
		r := s.reading.recs[s.readIdx]
		s.readIdx++
		if r.erased {
			continue
		}
		return r
	}
}

func (s *c09Shard) restart() {
	for _, r := range s.byID {
		r.id = 0
	}
	s.byID = map[int64]*c09Rec{}
	s.writing, s.reading, s.readIdx = nil, nil, 0
	s.waiting = nil
	for _, f := range s.existing() {
		f.known, f.writing, f.reading = 0, false, false
		s.waiting = append(s.waiting, f)
	}
}

type c09Hist struct {
	r      *verifkit.Run
	w      *verifkit.Worker
	idx    int
	dir    string
	nsh    int
	d      *DiskBucketStorage
	sh     []*c09Shard
	uid    int
	log    []string
	failed bool
	junk       int
	mayRefuse  bool // the next put may be refused by the cache (boundary sizes)
	refused    bool
	crashDirty bool   // scratch crash directory must be rebuilt from nothing
	crashPrev  string // file that carried the previous fault
	puts, erases, restarts, tailReads, rotations int
}

func (h *c09Hist) logf(f string, a ...any) {
	if len(h.log) < 600 {
		h.log = append(h.log, fmt.Sprintf(f, a...))
	}
}

func (h *c09Hist) bad(key, what string, extra map[string]any) {
	h.failed = true
	m := map[string]any{"history": h.idx, "shards": h.nsh, "log": h.log}
	for k, v := range extra {
		m[k] = v
	}
	h.r.Violation("C09/"+key, what, m)
}

func c09Logf(string, ...interface{}) {}

func c09ListDir(dir string) (names []string, sizes []int64) {
	des, _ := os.ReadDir(dir)
	for _, de := range des {
		if de.IsDir() {
			continue
		}
		st, err := os.Stat(filepath.Join(dir, de.Name()))
		if err != nil {
			continue
		}
		names = append(names, de.Name())
		sizes = append(sizes, st.Size())
	}
	return // os.ReadDir sorts by name
}

func (h *c09Hist) shardDir(sh int) string { return filepath.Join(h.dir, strconv.Itoa(sh)) }

func (h *c09Hist) checkDisk(sh int, when string) bool {
	_, sizes := c09ListDir(h.shardDir(sh))
	var want []int64
	for _, f := range h.sh[sh].existing() {
		want = append(want, f.size)
	}
	if fmt.Sprint(sizes) != fmt.Sprint(want) {
		key := "files/unexpected-set"
		if len(sizes) > len(want) {
			key = "files/not-deleted"
		} else if len(sizes) < len(want) {
			key = "files/deleted-early"
		}
		h.bad(key, "files in the shard directory differ from the model ("+when+")", map[string]any{"shard": sh, "sizes_on_disk": sizes, "sizes_expected": want})
		return false
	}
	return true
}

func (h *c09Hist) checkSizes(sh int, when string) {
	total, unsent := h.d.TotalFileSize(sh)
	wt, wu := h.sh[sh].sizes()
	if total != wt {
		h.bad("size/total", fmt.Sprintf("TotalFileSize total=%d, files hold %d (%s)", total, wt, when), map[string]any{"shard": sh})
	}
	if unsent != wu {
		h.bad("size/unsent", fmt.Sprintf("TotalFileSize unsent=%d, live known + unread bytes = %d (%s)", unsent, wu, when), map[string]any{"shard": sh})
	}
}

func (h *c09Hist) payload(n int) []byte {
	h.uid++
	b := []byte(fmt.Sprintf("uid:%d:", h.uid))
	rnd := h.w.Rnd
	for len(b) < n {
		b = append(b, byte(rnd.IntN(256)))
	}
	if n < len(b) && n >= 0 && rnd.IntN(4) == 0 { // also really short / empty bodies (uid is tracked by the model anyway)
		b = b[:n]
	}
	return b
}

func (h *c09Hist) put(sh int, data []byte, sec uint32) *c09Rec {
	s := h.sh[sh]
	id, err := h.d.PutBucket(sh, sec, data)
	if err != nil && h.mayRefuse {
		h.refused = true // a put the cache is entitled to refuse (size limit): it must leave no trace, checked by the caller
		return nil
	}
	if err != nil || id == 0 {
		h.bad("put/error", fmt.Sprintf("PutBucket failed: %v", err), map[string]any{"shard": sh})
		return nil
	}
	if s.writing != nil && s.writing.size+headerSize+int64(len(data)) > fileRotateSize {
		f := s.writing
		f.writing = false
		s.writing = nil
		s.maybeRemove(f)
		h.rotations++
	}
	if s.writing == nil {
		s.writing = &c09File{writing: true, seq: len(s.files)}
		s.files = append(s.files, s.writing)
	}
	rec := &c09Rec{uid: h.uid, sec: sec, data: data, file: s.writing, off: s.writing.size, id: id}
	s.writing.recs = append(s.writing.recs, rec)
	s.writing.size += headerSize + int64(len(data))
	s.writing.known++
	if _, dup := s.byID[id]; dup {
		h.bad("put/duplicate-id", "PutBucket returned an id that is still in use", map[string]any{"shard": sh, "id": id})
	}
	s.byID[id] = rec
	h.puts++
	return rec
}

func (h *c09Hist) erase(sh int, rec *c09Rec) {
	s := h.sh[sh]
	if err := h.d.EraseBucket(sh, rec.id); err != nil {
		h.bad("erase/error", err.Error(), map[string]any{"shard": sh})
	}
	delete(s.byID, rec.id)
	rec.id = 0
	rec.erased = true
	rec.file.known--
	s.maybeRemove(rec.file)
	h.erases++
}

func (h *c09Hist) anyKnown(sh int) *c09Rec {
	s := h.sh[sh]
	if len(s.byID) == 0 {
		return nil
	}
	ids := make([]int64, 0, len(s.byID))
	for id := range s.byID {
		ids = append(ids, id)
	}
	sort.Slice(ids, func(i, j int) bool { return ids[i] < ids[j] })
	return s.byID[ids[h.w.Rnd.IntN(len(ids))]]
}

func (h *c09Hist) open() bool {
	d, err := MakeDiskBucketStorage(h.dir, h.nsh, c09Logf)
	if err != nil {
		h.bad("open/error", err.Error(), nil)
		return false
	}
	h.d = d
	return true
}

func (h *c09Hist) step() {
	rnd := h.w.Rnd
	sh := rnd.IntN(h.nsh)
	s := h.sh[sh]
	switch op := rnd.IntN(20); {
	case op < 7:
		n := rnd.IntN(200)
		switch rnd.IntN(12) {
		case 0:
			n = 0
		case 1:
			n = 1 + rnd.IntN(4)
		case 2:
			n = 3000 + rnd.IntN(3000)
		}
		sec := uint32(1_700_000_000 + rnd.IntN(100))
		if rnd.IntN(20) == 0 {
			sec = []uint32{0, 1, 0xFFFFFFFF, magicGoodBucket, magicDeletedBucket}[rnd.IntN(5)]
		}
		data := h.payload(n)
		if rec := h.put(sh, data, sec); rec != nil {
			h.logf("put sh=%d uid=%d sec=%d len=%d id=%d", sh, rec.uid, sec, len(data), rec.id)
		}
	case op < 10:
		if rec := h.anyKnown(sh); rec != nil {
			h.logf("erase sh=%d uid=%d id=%d", sh, rec.uid, rec.id)
			h.erase(sh, rec)
		} else if err := h.d.EraseBucket(sh, int64(1000000+rnd.IntN(1000))); err != nil {
			h.bad("erase/unknown-id-error", err.Error(), map[string]any{"shard": sh})
		}
	case op < 12:
		if rec := h.anyKnown(sh); rec != nil {
			var scratch []byte
			if rnd.IntN(2) == 0 {
				scratch = make([]byte, 0, rnd.IntN(400))
			}
			got, err := h.d.GetBucket(sh, rec.id, rec.sec, &scratch)
			if err != nil {
				h.bad("get/error", err.Error(), map[string]any{"shard": sh, "uid": rec.uid})
			} else if !bytes.Equal(got, rec.data) {
				h.bad("get/bytes-differ", "GetBucket returned other bytes than were put", map[string]any{"shard": sh, "uid": rec.uid, "got": fmt.Sprintf("%x", got), "want": fmt.Sprintf("%x", rec.data)})
			}
			if rnd.IntN(4) == 0 { // wrong second must be refused and must not change anything
				if _, err := h.d.GetBucket(sh, rec.id, rec.sec+1, &scratch); err == nil {
					h.bad("get/wrong-second-accepted", "GetBucket with another second returned data", map[string]any{"shard": sh, "uid": rec.uid})
				}
			}
		} else {
			var scratch []byte
			if _, err := h.d.GetBucket(sh, 424242, 1, &scratch); err == nil {
				h.bad("get/unknown-id-accepted", "GetBucket for an unknown id returned data", map[string]any{"shard": sh})
			}
		}
	case op < 15:
		want := s.nextTail()
		sec, id := h.d.ReadNextTailBucket(sh)
		h.tailReads++
		switch {
		case want == nil && id != 0:
			h.bad("tail/extra", fmt.Sprintf("tail reader returned second %d although nothing unread is left", sec), map[string]any{"shard": sh})
		case want != nil && id == 0:
			h.bad("tail/ended-early", fmt.Sprintf("tail reader ended, uid %d (second %d) was not returned", want.uid, want.sec), map[string]any{"shard": sh})
		case want != nil:
			if sec != want.sec {
				h.bad("tail/order", fmt.Sprintf("tail reader returned second %d, next in write order is uid %d second %d", sec, want.uid, want.sec), map[string]any{"shard": sh})
			}
			if _, dup := s.byID[id]; dup {
				h.bad("tail/duplicate-id", "tail reader returned an id that is still in use", map[string]any{"shard": sh, "id": id})
			}
			want.id = id
			s.byID[id] = want
			want.file.known++
			h.logf("tail sh=%d uid=%d id=%d", sh, want.uid, id)
		default:
			h.logf("tail sh=%d end", sh)
		}
	case op < 17:
		h.checkSizes(sh, "during history")
		h.checkDisk(sh, "during history")
	default:
		if err := h.d.Close(); err != nil {
			h.bad("close/error", err.Error(), nil)
		}
		if rnd.IntN(6) == 0 { // something that is not a cache file appears in a shard directory while the agent is down
			jsh := rnd.IntN(h.nsh)
			js := h.sh[jsh]
			var content []byte
			switch rnd.IntN(6) {
			case 0: // empty file
			case 1:
				content = bytes.Repeat([]byte{0xAA}, 1+rnd.IntN(19))
			case 2:
				content = bytes.Repeat([]byte{0xAA}, 20+rnd.IntN(100))
			case 3: // a good header that announces more bytes than the file has
				content = make([]byte, headerSize+5)
				binary.LittleEndian.PutUint32(content[0:], magicGoodBucket)
				binary.LittleEndian.PutUint64(content[8:], 1000)
			case 4: // a deleted header with a negative size
				content = make([]byte, headerSize)
				binary.LittleEndian.PutUint32(content[0:], magicDeletedBucket)
				binary.LittleEndian.PutUint64(content[8:], 1<<63+5)
			default: // legacy layout: a directory
				_ = os.MkdirAll(filepath.Join(h.shardDir(jsh), "1700000000"), 0o755)
				content = nil
				jsh = -1
			}
			if jsh >= 0 {
				h.junk++
				nJunk := 0
				for _, f := range js.files {
					if f.junk {
						nJunk++
					}
				}
				if err := os.WriteFile(filepath.Join(h.shardDir(jsh), fmt.Sprintf("00000000_%06d.junk", h.junk)), content, 0o644); err == nil {
					jf := &c09File{size: int64(len(content)), junk: true, seq: -h.junk}
					js.files = append(js.files[:nJunk:nJunk], append([]*c09File{jf}, js.files[nJunk:]...)...)
					h.logf("junk file sh=%d len=%d", jsh, len(content))
				}
			}
		}
		for _, s := range h.sh {
			s.restart()
		}
		h.restarts++
		h.logf("restart")
		h.d = nil
		if !h.open() {
			return
		}
		for i := 0; i < h.nsh; i++ {
			h.checkSizes(i, "right after reopen")
		}
	}
}

// ---------------------------------------------------------------------------------------------
// crash part

type c09Snapshot struct { // files of every shard directory, by name
	names [][]string
	data  [][][]byte
}

func (h *c09Hist) snapshot() c09Snapshot {
	var sn c09Snapshot
	for sh := 0; sh < h.nsh; sh++ {
		names, _ := c09ListDir(h.shardDir(sh))
		var datas [][]byte
		for _, n := range names {
			b, err := os.ReadFile(filepath.Join(h.shardDir(sh), n))
			if err != nil {
				h.r.Inconclusive("cannot read cache file for snapshot: " + err.Error())
			}
			datas = append(datas, b)
		}
		sn.names = append(sn.names, names)
		sn.data = append(sn.data, datas)
	}
	return sn
}

type c09Expect struct {
	recs     []*c09Rec // must be returned, in this order (per shard)
	optional *c09Rec   // the record of the torn write: may be absent (put) or present (erase)
	corrupt  *c09Rec   // body was flipped: must be reported as an error by GetBucket
}

type c09Fault struct {
	kind  string // put | erase | bitflip
	cut   int
	total int
	shard int
}

// materialise snapshot sn (with one file replaced / added) in dir and read everything back
func c09Recover(h *c09Hist, dir string, sn c09Snapshot, flt c09Fault, fileIdx int, newName string, content []byte, exp []c09Expect) {
	r, w := h.r, h.w
	// The scratch directory is re-used between the cuts of one history: reading back never changes
	// file contents (except after a failed checksum, see dirtyAll), it only deletes files, so only
	// missing files, the file of the previous fault and the file of this fault are rewritten.
	if h.crashDirty {
		_ = os.RemoveAll(dir)
		h.crashDirty = false
		h.crashPrev = ""
	}
	for sh := 0; sh < h.nsh; sh++ {
		sd := filepath.Join(dir, strconv.Itoa(sh))
		onDisk := map[string]int64{}
		if names, sizes := c09ListDir(sd); names != nil {
			for i, n := range names {
				onDisk[n] = sizes[i]
			}
		} else if err := os.MkdirAll(sd, 0o755); err != nil {
			r.Inconclusive("mkdir: " + err.Error())
			return
		}
		want := map[string]bool{}
		for i, n := range sn.names[sh] {
			b := sn.data[sh][i]
			faulted := sh == flt.shard && i == fileIdx
			if faulted {
				b = content
			}
			want[n] = true
			p := filepath.Join(sd, n)
			if sz, ok := onDisk[n]; ok && sz == int64(len(b)) && !faulted && p != h.crashPrev {
				continue
			}
			if err := os.WriteFile(p, b, 0o644); err != nil {
				r.Inconclusive("write: " + err.Error())
				return
			}
		}
		if sh == flt.shard && fileIdx == len(sn.names[sh]) {
			want[newName] = true
			if err := os.WriteFile(filepath.Join(sd, newName), content, 0o644); err != nil {
				r.Inconclusive("write: " + err.Error())
				return
			}
		}
		for n := range onDisk {
			if !want[n] {
				_ = os.Remove(filepath.Join(sd, n))
			}
		}
	}
	if fileIdx < len(sn.names[flt.shard]) {
		h.crashPrev = filepath.Join(dir, strconv.Itoa(flt.shard), sn.names[flt.shard][fileIdx])
	} else {
		h.crashPrev = filepath.Join(dir, strconv.Itoa(flt.shard), newName)
	}
	if flt.kind == "bitflip" {
		h.crashDirty = true // the failed GetBucket overwrites a magic
	}
	wit := func(extra map[string]any) map[string]any {
		m := map[string]any{"history": h.idx, "fault": flt.kind, "cut_bytes_landed": flt.cut, "of": flt.total, "fault_shard": flt.shard, "log": h.log}
		for k, v := range extra {
			m[k] = v
		}
		return m
	}
	cls := "torn-" + flt.kind
	if flt.kind == "bitflip" {
		cls = "bitflip-body"
	}
	viol := func(clause, what string, extra map[string]any) {
		key := "C09/" + cls + "/" + clause
		r.Violation(key, what, wit(extra))
	}
	var d *DiskBucketStorage
	var err error
	if r.Guard("C09/"+cls+"/panic-on-reopen", func() any { return wit(nil) }, func() {
		d, err = MakeDiskBucketStorage(dir, h.nsh, c09Logf)
	}) {
		h.crashDirty = true
		return
	}
	if err != nil {
		viol("reopen-error", err.Error(), nil)
		return
	}
	defer d.Close()
	nontrivial := false
	for sh := 0; sh < h.nsh; sh++ {
		e := exp[sh]
		type got struct {
			sec  uint32
			id   int64
			data []byte
			err  error
		}
		var gs []got
		panicked := r.Guard("C09/"+cls+"/panic-on-read", func() any { return wit(map[string]any{"shard": sh}) }, func() {
			for i := 0; i < len(e.recs)+8; i++ {
				sec, id := d.ReadNextTailBucket(sh)
				if id == 0 {
					break
				}
				var scratch []byte
				b, err := d.GetBucket(sh, id, sec, &scratch)
				gs = append(gs, got{sec, id, append([]byte(nil), b...), err})
			}
		})
		if panicked {
			h.crashDirty = true
			continue
		}
		// align what was read with what must be there: every returned record is matched, in order, to the next
		// expected record with the same second and the same bytes; expected records that are jumped over are missing
		var missing, extra []string
		knownBytes := int64(0)
		lostAfterTornInSameFile := true
		miss := func(want *c09Rec) {
			if want == e.optional {
				return
			}
			missing = append(missing, fmt.Sprintf("uid %d (second %d, file #%d, offset %d)", want.uid, want.sec, want.file.seq, want.off))
			if !(e.optional != nil && want.file == e.optional.file && want.off > e.optional.off) {
				lostAfterTornInSameFile = false
			}
		}
		wi := 0
		for _, g := range gs {
			j, how := -1, ""
			for x := wi; x < len(e.recs) && j < 0; x++ {
				want := e.recs[x]
				switch {
				case g.sec != want.sec:
				case want == e.corrupt:
					j, how = x, "corrupt"
				case g.err == nil && bytes.Equal(g.data, want.data):
					j, how = x, "ok"
				case g.err != nil:
					j, how = x, "error"
				}
			}
			if j < 0 {
				extra = append(extra, fmt.Sprintf("second %d len %d err %v bytes %x", g.sec, len(g.data), g.err, g.data[:min(len(g.data), 24)]))
				continue
			}
			for x := wi; x < j; x++ {
				miss(e.recs[x])
			}
			wi = j + 1
			want := e.recs[j]
			switch how {
			case "corrupt": // the reader may hand out the id, GetBucket must refuse the bytes (and erases the record)
				if g.err == nil {
					viol("corrupted-bytes-returned", "GetBucket returned a body that does not match its checksum", map[string]any{"shard": sh, "uid": want.uid,
						"got": fmt.Sprintf("%x", g.data), "put": fmt.Sprintf("%x", want.data)})
				}
			case "error":
				viol("get-error", fmt.Sprintf("intact record uid %d cannot be read: %v", want.uid, g.err), map[string]any{"shard": sh})
			default:
				knownBytes += headerSize + int64(len(want.data))
			}
		}
		for x := wi; x < len(e.recs); x++ {
			miss(e.recs[x])
		}
		if len(missing) != 0 {
			clause := "intact-seconds-lost"
			if flt.kind == "erase" && sh == flt.shard && flt.cut > 0 && flt.cut < flt.total && lostAfterTornInSameFile && len(extra) == 0 {
				// 3 of the 4 bytes of the new magic landed: the record header is neither "good" nor "deleted",
				// the reader distrusts the rest of the file
				clause = "partial-magic/later-seconds-of-file-lost"
			}
			viol(clause, fmt.Sprintf("%d record(s) that were put and not erased are not returned after reopening: %s", len(missing), strings.Join(missing, "; ")), map[string]any{"shard": sh, "extra": extra})
		}
		if len(extra) != 0 {
			viol("unexpected-seconds-returned", "tail reader returned records that are erased, torn or unknown: "+strings.Join(extra, "; "), map[string]any{"shard": sh})
		}
		if len(missing) == 0 && len(extra) == 0 {
			// everything was read: sizes must match the directory
			total, unsent := d.TotalFileSize(sh)
			_, sizes := c09ListDir(filepath.Join(dir, strconv.Itoa(sh)))
			var sum int64
			for _, s := range sizes {
				sum += s
			}
			if total != sum {
				viol("size-total", fmt.Sprintf("TotalFileSize total=%d, directory holds %d bytes", total, sum), map[string]any{"shard": sh})
			}
			if unsent != knownBytes {
				viol("size-unsent", fmt.Sprintf("TotalFileSize unsent=%d after reading everything, live records hold %d bytes", unsent, knownBytes), map[string]any{"shard": sh})
			}
		}
		if len(e.recs) >= 2 {
			nontrivial = true
		}
	}
	w.Case(nontrivial, fmt.Sprintf("%d/%s/%d", h.idx, flt.kind, flt.cut))
	w.Count("crash_cases."+flt.kind, 1)
}

func c09RunHistory(r *verifkit.Run, w *verifkit.Worker, idx int, scratch string, cutSeen map[string]struct{}, big bool) {
	rnd := w.Rnd
	h := &c09Hist{r: r, w: w, idx: idx, nsh: 1 + rnd.IntN(4)}
	h.dir = filepath.Join(scratch, "live")
	_ = os.RemoveAll(h.dir)
	if err := os.MkdirAll(h.dir, 0o755); err != nil {
		r.Inconclusive("mkdir: " + err.Error())
		return
	}
	for i := 0; i < h.nsh; i++ {
		h.sh = append(h.sh, &c09Shard{byID: map[int64]*c09Rec{}})
	}
	if !h.open() {
		return
	}
	steps := 5 + rnd.IntN(90)
	for st := 0; st < steps && !h.failed && h.d != nil; st++ {
		h.step()
	}
	if big && !h.failed { // rotation by size: two bodies that do not fit into one 50 MiB file
		for k := 0; k < 2; k++ {
			data := h.payload(26<<20 + rnd.IntN(1000))
			h.put(0, data, 1_700_000_000)
			h.logf("put big len=%d", len(data))
		}
		if rec := h.anyKnown(0); rec != nil && rnd.IntN(2) == 0 {
			h.erase(0, rec)
		}
		h.checkSizes(0, "after size rotation")
		h.checkDisk(0, "after size rotation")
	}
	if h.failed || h.d == nil {
		if h.d != nil {
			h.d.Close()
		}
		return
	}
	for sh := 0; sh < h.nsh; sh++ {
		h.checkSizes(sh, "end of history")
		h.checkDisk(sh, "end of history")
	}
	w.Case(h.restarts > 0 && h.erases > 0 && h.puts >= 5, "hist/"+strings.Join(h.log, ";"))
	w.Count("ops.put", int64(h.puts))
	w.Count("ops.erase", int64(h.erases))
	w.Count("ops.restart", int64(h.restarts))
	w.Count("ops.tail_read", int64(h.tailReads))
	w.Count("ops.rotation_by_size", int64(h.rotations))
	if r.WantSample() {
		lg := h.log
		if len(lg) > 40 {
			lg = lg[:40]
		}
		r.Sample(map[string]any{"history": idx, "shards": h.nsh, "log_head": lg})
	}
	if big || h.failed {
		h.d.Close()
		return
	}

	// ---- the moment of the crash: everything the process wrote so far is on disk
	expectAll := func() []c09Expect {
		out := make([]c09Expect, h.nsh)
		for sh := range out {
			out[sh].recs = h.sh[sh].live()
		}
		return out
	}
	crashDir := filepath.Join(scratch, "crash")
	h.crashDirty = true
	fsh := rnd.IntN(h.nsh)
	mark := func(kind string, k int) {
		cutSeen[kind+":"+strconv.Itoa(k)] = struct{}{}
	}

	// (1) torn final erase of a record the process knows
	if rec := h.anyKnown(fsh); rec != nil {
		sn := h.snapshot()
		fi := -1
		for i, f := range h.sh[fsh].existing() {
			if f == rec.file {
				fi = i
			}
		}
		if fi >= 0 && fi < len(sn.data[fsh]) && rec.off+4 <= int64(len(sn.data[fsh][fi])) {
			var magic [4]byte
			binary.LittleEndian.PutUint32(magic[:], magicDeletedBucket)
			for k := 0; k <= 4; k++ {
				content := append([]byte(nil), sn.data[fsh][fi]...)
				copy(content[rec.off:], magic[:k])
				exp := expectAll()
				exp[fsh].optional = rec
				c09Recover(h, crashDir, sn, c09Fault{"erase", k, 4, fsh}, fi, "", content, exp)
				mark("erase", k)
			}
		}
	}

	// (2) one flipped byte in the body of a live record
	if lv := h.sh[fsh].live(); len(lv) != 0 {
		rec := lv[rnd.IntN(len(lv))]
		if len(rec.data) > 0 {
			sn := h.snapshot()
			fi := -1
			for i, f := range h.sh[fsh].existing() {
				if f == rec.file {
					fi = i
				}
			}
			if fi >= 0 {
				content := append([]byte(nil), sn.data[fsh][fi]...)
				pos := rec.off + headerSize + int64(rnd.IntN(len(rec.data)))
				content[pos] ^= byte(1 << rnd.IntN(8))
				exp := expectAll()
				exp[fsh].corrupt = rec
				c09Recover(h, crashDir, sn, c09Fault{"bitflip", int(pos - rec.off), int(headerSize) + len(rec.data), fsh}, fi, "", content, exp)
			}
		}
	}

	// (3) torn final put: do the put for real, then cut its bytes
	{
		sn := h.snapshot()
		s := h.sh[fsh]
		n := rnd.IntN(260)
		if rnd.IntN(10) == 0 {
			n = 0
		}
		data := h.payload(n)
		hadWriting := s.writing != nil
		rec := h.put(fsh, data, uint32(1_700_000_000+rnd.IntN(100)))
		if rec != nil {
			names, _ := c09ListDir(h.shardDir(fsh))
			fi, newName := -1, ""
			if hadWriting {
				for i, f := range s.existing() {
					if f == rec.file {
						fi = i
					}
				}
			} else { // the put created a file: it is the name the snapshot does not have
				old := map[string]bool{}
				for _, n := range sn.names[fsh] {
					old[n] = true
				}
				for _, n := range names {
					if !old[n] {
						newName = n
					}
				}
				fi = len(sn.names[fsh])
				if len(names) == 0 || newName != names[len(names)-1] {
					h.bad("files/new-file-not-last", "file created by a put does not sort after the older files", map[string]any{"names": names})
					fi = -1
				}
			}
			if fi >= 0 {
				full, err := os.ReadFile(filepath.Join(h.shardDir(fsh), names[fi]))
				total := int(headerSize) + len(data)
				if err == nil && int64(len(full)) == rec.off+int64(total) {
					cuts := map[int]bool{}
					if r.Thorough() {
						for k := 0; k <= total; k++ {
							cuts[k] = true
						}
					} else {
						for k := 0; k <= int(headerSize) && k <= total; k++ {
							cuts[k] = true
						}
						cuts[total] = true
						for j := 0; j < 24 && total > int(headerSize); j++ {
							cuts[int(headerSize)+rnd.IntN(total-int(headerSize))] = true
						}
					}
					ks := make([]int, 0, len(cuts))
					for k := range cuts {
						ks = append(ks, k)
					}
					sort.Ints(ks)
					for _, k := range ks {
						exp := expectAll() // includes rec (it is live in the model)
						if k < total {
							exp[fsh].optional = rec
							// a torn record must never come back
							var keep []*c09Rec
							for _, x := range exp[fsh].recs {
								if x != rec {
									keep = append(keep, x)
								}
							}
							exp[fsh].recs = keep
							exp[fsh].optional = nil
						}
						c09Recover(h, crashDir, sn, c09Fault{"put", k, total, fsh}, fi, newName, full[:rec.off+int64(k)], exp)
						if k <= int(headerSize) {
							mark("put-header", k)
						} else {
							mark("put-body", k)
						}
					}
				} else {
					h.bad("put/file-size", "file size after a put is not offset + header + body", map[string]any{"len": len(full), "off": rec.off, "total": total, "err": fmt.Sprint(err)})
				}
			}
		}
	}
	h.d.Close()
}

// c09BoundarySizes: payload sizes at and around every size limit of the cache (largest chunk the reader accepts,
// file rotation size), in terms of the package constants.
func c09BoundarySizes() []int {
	return []int{maxChunkSize, maxChunkSize + 1, fileRotateSize - 1, fileRotateSize, fileRotateSize + 1, maxChunkSize - 1, fileRotateSize + headerSize, fileRotateSize - headerSize/2}
}

// One boundary case: small record, the giant, small record, restart, read everything back, erase everything.
// The cache may refuse the giant; then it must leave no trace.  If PutBucket succeeds the record must be
// returned byte-identical by GetBucket in the same run and by the tail reader after the restart.
func c09RunBoundary(r *verifkit.Run, w *verifkit.Worker, idx int, scratch string, size int) {
	h := &c09Hist{r: r, w: w, idx: idx, nsh: 1}
	h.dir = filepath.Join(scratch, "boundary")
	_ = os.RemoveAll(h.dir)
	defer os.RemoveAll(h.dir)
	if err := os.MkdirAll(h.dir, 0o755); err != nil {
		r.Inconclusive("mkdir: " + err.Error())
		return
	}
	h.sh = []*c09Shard{{byID: map[int64]*c09Rec{}}}
	if !h.open() {
		return
	}
	defer func() {
		if h.d != nil {
			h.d.Close()
		}
	}()
	h.logf("boundary case: payload %d bytes (maxChunkSize %+d, fileRotateSize %+d)", size, size-maxChunkSize, size-fileRotateSize)
	if w.Rnd.IntN(2) == 0 { // the giant is either the first record of its file or forces a rotation
		if rec := h.put(0, h.payload(10+w.Rnd.IntN(100)), 1_700_000_001); rec != nil {
			h.logf("put uid=%d len=%d", rec.uid, len(rec.data))
		}
	}
	h.uid++
	giant := make([]byte, size)
	copy(giant, fmt.Sprintf("uid:%d:", h.uid))
	for i := 16; i < len(giant); i++ {
		giant[i] = byte(i*31 + i>>11 + h.uid)
	}
	h.mayRefuse = true
	rec := h.put(0, giant, 1_700_000_002)
	h.mayRefuse = false
	switch {
	case h.failed:
		return
	case h.refused:
		h.logf("giant refused")
		w.Count("boundary.put_refused", 1)
	case rec != nil:
		h.logf("giant accepted id=%d", rec.id)
		w.Count("boundary.put_accepted", 1)
		var scratchPad []byte
		got, err := h.d.GetBucket(0, rec.id, rec.sec, &scratchPad)
		if err != nil {
			h.bad("get/error", "boundary-size record cannot be read in the same run: "+err.Error(), map[string]any{"size": size})
		} else if !bytes.Equal(got, giant) {
			h.bad("get/bytes-differ", "boundary-size record read back with other bytes in the same run", map[string]any{"size": size})
		}
	}
	// accepted or refused: sizes and directory must agree with the model (refused = no trace)
	h.checkSizes(0, "after boundary-size put")
	h.checkDisk(0, "after boundary-size put")
	if rec2 := h.put(0, h.payload(10+w.Rnd.IntN(100)), 1_700_000_003); rec2 != nil {
		h.logf("put uid=%d len=%d", rec2.uid, len(rec2.data))
	}
	h.checkSizes(0, "after the put that follows the boundary-size put")
	h.checkDisk(0, "after the put that follows the boundary-size put")
	if h.failed {
		return
	}
	// restart and read everything back through the tail reader
	if err := h.d.Close(); err != nil {
		h.bad("close/error", err.Error(), nil)
	}
	h.d = nil
	h.sh[0].restart()
	h.logf("restart")
	if !h.open() {
		return
	}
	h.checkSizes(0, "right after reopen")
	for i := 0; i < 8 && !h.failed; i++ {
		want := h.sh[0].nextTail()
		sec, id := h.d.ReadNextTailBucket(0)
		if want == nil {
			if id != 0 {
				h.bad("tail/extra", fmt.Sprintf("tail reader returned second %d although nothing unread is left", sec), map[string]any{"size": size})
			}
			break
		}
		if id == 0 {
			h.bad("tail/ended-early", fmt.Sprintf("after a restart the tail reader ended, uid %d (second %d, %d bytes) was put successfully, never erased and is not returned", want.uid, want.sec, len(want.data)), map[string]any{"size": size})
			break
		}
		if sec != want.sec {
			h.bad("tail/order", fmt.Sprintf("tail reader returned second %d, next in write order is uid %d second %d (%d bytes)", sec, want.uid, want.sec, len(want.data)), map[string]any{"size": size})
			break
		}
		want.id = id
		h.sh[0].byID[id] = want
		want.file.known++
		var scratchPad []byte
		got, err := h.d.GetBucket(0, id, sec, &scratchPad)
		if err != nil {
			h.bad("get/error", fmt.Sprintf("uid %d (%d bytes) cannot be read after the restart: %v", want.uid, len(want.data), err), map[string]any{"size": size})
		} else if !bytes.Equal(got, want.data) {
			h.bad("get/bytes-differ", fmt.Sprintf("uid %d (%d bytes) read back with other bytes after the restart", want.uid, len(want.data)), map[string]any{"size": size})
		}
	}
	if h.failed {
		return
	}
	h.checkSizes(0, "after reading everything back")
	h.checkDisk(0, "after reading everything back")
	for len(h.sh[0].byID) != 0 && !h.failed {
		h.erase(0, h.anyKnown(0))
	}
	h.checkSizes(0, "after erasing everything")
	h.checkDisk(0, "after erasing everything")
	w.Case(true, fmt.Sprintf("boundary/%d/%v", size, h.refused))
	w.Count("boundary.cases", 1)
}

func TestVerifC09(t *testing.T) {
	r := verifkit.Start(t, "C09", "agent")
	defer r.Finish()
	r.SetRule("crash-free case = one history of 5-95 operations (put 35%, erase 15%, get 10%, tail read 15%, size+directory check 10%, restart 15%) over 1-4 shards, non-trivial if it has a restart, an erase and >= 5 puts. Crash case = (history, fault, cut): the end state of a history with the last write torn after k bytes - final erase k=0..4, final put k=0..20+len (quick: every header byte + 24 sampled body offsets + complete), one flipped body byte - reopened and read back; non-trivial if a shard must return >= 2 records. Boundary case = one payload size at/around a size limit of the cache (maxChunkSize-1..+1, fileRotateSize-10..+20): put (may be refused, then no trace), get, put, restart, full read back, erase all. distinct = distinct (history, fault, cut).")
	r.Assume("a torn write is modelled as a prefix of the bytes of one WriteAt sequence (header then body; the 4 magic bytes of an erase) reaching the file; everything written earlier is on disk")
	nHist := r.N(300, 3000)
	workers := 8
	if r.Thorough() {
		workers = 16
	}
	seen := make([]map[string]struct{}, workers)
	r.Parallel(workers, "histories", func(w *verifkit.Worker) {
		scratch := r.MkTmp(fmt.Sprintf("c09-w%d-", w.Index))
		defer os.RemoveAll(scratch)
		seen[w.Index] = map[string]struct{}{}
		// boundary-size class: one giant per worker (quick: 8 sizes once, thorough: each twice); no cut enumeration for them
		if bs := c09BoundarySizes(); true {
			c09RunBoundary(r, w, -1-w.Index, scratch, bs[w.Index%len(bs)])
		}
		for i := 0; i < nHist/workers; i++ {
			big := r.Thorough() && w.Index < 4 && i == 7
			c09RunHistory(r, w, w.Index*1000000+i, scratch, seen[w.Index], big)
		}
	})
	all := map[string]struct{}{}
	for _, m := range seen {
		for k := range m {
			all[k] = struct{}{}
		}
	}
	r.SetCounter("cut_offsets.distinct", int64(len(all)))
	hdr := 0
	for k := range all {
		if strings.HasPrefix(k, "put-header:") {
			hdr++
		}
	}
	r.SetCounter("cut_offsets.put_header_bytes_covered(of 21)", int64(hdr))
	if hdr < 21 {
		r.Inconclusive(fmt.Sprintf("only %d of the 21 header cut offsets were exercised", hdr))
	}
}
