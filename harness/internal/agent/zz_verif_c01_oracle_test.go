//go:build verif

package agent

// C01 — event log (accepted markers, snapshots of what the agent still holds) and the
// offline oracle evaluated when the fault-free drain ends.

import (
	"fmt"
	"math"
	"os"
	"sort"
	"strings"
	"sync"

	"github.com/VKCOM/statshouse/internal/format"
)

const (
	c01ExpectInsert       = "insert"        // inside every window: must reach a completed INSERT
	c01ExpectDropAgent    = "drop-agent"    // older than the agent's historic window: agent throws it out and counts it
	c01ExpectRejectOld    = "reject-old"    // older than the aggregators' historic window: answered with discard and counted
	c01ExpectRejectFuture = "reject-future" // too far in the future: answered with discard and counted

	c01ExpectInsertOrReject = "insert-or-reject-old" // at the edge of the aggregators' window: inserted, or explicitly answered as out of window
	c01ExpectRejectBad      = "reject-undecodable"   // the aggregator cannot decode it: explicit discard
)

type c01Marker struct {
	ID     int     `json:"id"`
	TS     uint32  `json:"ts"`   // timestamp given to the agent
	Slot   uint32  `json:"slot"` // second of the agent bucket that took it (0: not observed)
	Count  float64 `json:"count"`
	AtMs   int64   `json:"at_ms"`
	Gen    int     `json:"agent_generation"`
	Class  string  `json:"class"`
	Expect string  `json:"expect"`
}

type c01Seen struct {
	FirstMs    int64 `json:"first_ms"`
	LastSQMs   int64 `json:"last_in_superqueue_ms"`
	LastHistMs int64 `json:"last_in_historic_queue_ms"`
	LastDiskMs int64 `json:"last_on_disk_ms"`
	Hist       bool  `json:"was_in_historic_queue"`
	Disk       bool  `json:"was_on_disk"`
	AtShutdown bool  `json:"on_disk_at_agent_shutdown"`
}

type c01Obs struct {
	sc *c01Scenario

	mu       sync.Mutex
	nextId   int
	markers  []*c01Marker
	byID     map[int]*c01Marker
	seen     map[uint32]*c01Seen
	final    map[uint32]string // second -> where the agent holds it in the last snapshot
	lastDisk map[uint32]bool
	counters map[string]int64
	failures []string
	snaps    int

	probes []*c01Probe

	healedMs int64
	drainMs  int64
	endMs    int64
	extended bool

	stalls     int // times the drain loop of the harness was not scheduled for > c01StallGap
	maxStallMs int64
	starved    bool // the last such stall is less than c01QuietAfterStall before the end: missing rows cannot be judged
}

type c01Probe struct {
	id       int
	atMs     int64
	accepted bool
}

func (o *c01Obs) addProbe(id int, atMs int64, accepted bool) {
	o.mu.Lock()
	o.probes = append(o.probes, &c01Probe{id, atMs, accepted})
	o.mu.Unlock()
}

const (
	c01ProbeLatencyMs = 25000 // normal end-to-end latency is 6–9 s
	c01LostQuietMs    = 5000  // "held nowhere" must be true for this long before the end
)

// probeHealth: of the probe rows fed early enough to be judged, how many reached a
// completed INSERT within c01ProbeLatencyMs.
func (o *c01Obs) probeHealth(ins []*c01Insert) (ok, total int, healthy bool) {
	first := map[int]int64{}
	for _, in := range ins {
		if !in.Complete {
			continue
		}
		for id := range in.Markers {
			if _, seen := first[id]; !seen {
				first[id] = in.AtMs
			}
		}
	}
	for _, p := range o.probes {
		// judged window: the 20 s before the last moment a probe could still arrive in time; the
		// first seconds after healing are excluded (replicas may still be marked dead by the agent)
		if p.atMs > o.endMs-c01ProbeLatencyMs || p.atMs < o.endMs-c01ProbeLatencyMs-20000 {
			continue
		}
		total++
		if at, seen := first[p.id]; p.accepted && seen && at-p.atMs <= c01ProbeLatencyMs {
			ok++
		}
	}
	return ok, total, total >= 10 && ok*5 >= total*4
}

func c01NewObs(sc *c01Scenario) *c01Obs {
	return &c01Obs{sc: sc, byID: map[int]*c01Marker{}, seen: map[uint32]*c01Seen{}, counters: map[string]int64{}, nextId: 1000}
}

func (o *c01Obs) nextID() int {
	o.mu.Lock()
	defer o.mu.Unlock()
	o.nextId++
	return o.nextId
}

func (o *c01Obs) accept(m *c01Marker) {
	o.mu.Lock()
	o.markers = append(o.markers, m)
	o.byID[m.ID] = m
	o.mu.Unlock()
}

func (o *c01Obs) count(k string, d int64) {
	o.mu.Lock()
	o.counters[k] += d
	o.mu.Unlock()
}

func (o *c01Obs) fail(s string) {
	o.mu.Lock()
	o.failures = append(o.failures, s)
	o.mu.Unlock()
}

func (o *c01Obs) see(sec uint32, now int64) *c01Seen {
	s := o.seen[sec]
	if s == nil {
		s = &c01Seen{FirstMs: now, LastSQMs: -1, LastHistMs: -1, LastDiskMs: -1}
		o.seen[sec] = s
	}
	return s
}

// snapshot reads, under the agent's own locks, which seconds the agent still holds:
// un-flushed SuperQueue slots with markers, the historic queue and the disk cache index.
// In-flight recent sends are invisible (kept in a local variable of goSendRecent), which
// is why a miss at one snapshot is only diagnostic.
func (o *c01Obs) snapshot(e *c01Env, a *Agent, kind string) {
	now := e.ms()
	type sqm struct {
		id   int
		slot uint32
	}
	var sq []sqm
	var hist []uint32
	var disk []uint32
	for _, sh := range a.Shards {
		sh.mu.Lock()
		for idx, b := range sh.SuperQueue {
			for _, it := range b.MultiItems {
				if it.Key.Metric == c01MarkerMetric {
					sq = append(sq, sqm{int(it.Key.Tags[1]), c01SlotTime(sh.SendTime, idx)})
				}
			}
		}
		for _, cbd := range sh.historicBucketsToSend {
			hist = append(hist, cbd.time)
		}
		sh.mu.Unlock()
	}
	if d := a.diskBucketCache; d != nil {
		for _, s := range d.shards {
			s.mu.Lock()
			for _, b := range s.knownBuckets {
				disk = append(disk, b.time)
			}
			s.mu.Unlock()
		}
	}
	dead := 0
	for _, sr := range a.ShardReplicas {
		if !sr.alive.Load() {
			dead++
		}
	}
	o.mu.Lock()
	defer o.mu.Unlock()
	o.snaps++
	if dead > 0 {
		o.counters["agent.snapshots_with_replica_marked_dead"]++
	}
	if dead > 1 {
		o.counters["agent.snapshots_with_two_or_more_replicas_marked_dead"]++
	}
	final := map[uint32]string{}
	for _, m := range sq {
		if mk := o.byID[m.id]; mk != nil && mk.Slot == 0 {
			mk.Slot = m.slot
		}
		o.see(m.slot, now).LastSQMs = now
		final[m.slot] = "superqueue"
	}
	ld := map[uint32]bool{}
	for _, t := range disk {
		s := o.see(t, now)
		s.LastDiskMs, s.Disk = now, true
		if kind == "shutdown" {
			s.AtShutdown = true
		}
		final[t] = "disk-only"
		ld[t] = true
	}
	for _, t := range hist {
		s := o.see(t, now)
		s.LastHistMs, s.Hist = now, true
		final[t] = "historic-queue"
	}
	o.final = final
	o.lastDisk = ld
}

// ---- derived views

type c01Appearance struct {
	Seq      int     `json:"insert_seq"`
	Replica  int     `json:"replica"`
	AtMs     int64   `json:"at_ms"`
	Outcome  string  `json:"outcome"`
	Complete bool    `json:"complete"`
	Count    float64 `json:"count"`
}

type c01Tally struct {
	rowCounts map[int][]float64 // marker id -> count of every row seen in a completed insert
	got       map[int]float64   // marker id -> Σcount over completed inserts
	nComplete map[int]int
	nFailed   map[int]int
	builtin   map[[2]int32]float64
}

func c01TallyInserts(ins []*c01Insert) *c01Tally {
	t := &c01Tally{rowCounts: map[int][]float64{}, got: map[int]float64{}, nComplete: map[int]int{}, nFailed: map[int]int{}, builtin: map[[2]int32]float64{}}
	for _, in := range ins {
		for id, c := range in.Markers {
			if in.Complete {
				t.got[id] += c
				t.rowCounts[id] = append(t.rowCounts[id], c)
				t.nComplete[id]++
			} else {
				t.nFailed[id]++
			}
		}
		if in.Complete {
			for k, c := range in.Builtin {
				t.builtin[k] += c
			}
		}
	}
	return t
}

func (e *c01Env) allAgents() []*Agent {
	as := append([]*Agent(nil), e.oldAgents...)
	if e.agent != nil {
		as = append(as, e.agent)
	}
	return as
}

func (e *c01Env) agentDropped() (n int64) {
	for _, a := range e.allAgents() {
		for _, sh := range a.Shards {
			n += sh.HistoricOutOfWindowDropped.Load()
		}
	}
	return n
}

type c01RejectState struct {
	nDrop, nOld, nFuture, nBad    int // nOld includes window-edge seconds that were not inserted
	dropped                       int64
	repliesOld, repliesFuture     int64 // explicit rejection replies the agent received (old: on arrival + stale)
	repliesBad                    int64
	cntOld, cntFuture, lateRecent float64 // aggregator drop counters that reached ClickHouse (evidence only)
}

func (o *c01Obs) rejectState(e *c01Env, t *c01Tally) (rs c01RejectState) {
	for _, m := range o.markers {
		switch m.Expect {
		case c01ExpectDropAgent:
			rs.nDrop++
		case c01ExpectRejectOld:
			rs.nOld++
		case c01ExpectRejectFuture:
			rs.nFuture++
		case c01ExpectRejectBad:
			rs.nBad++
		case c01ExpectInsertOrReject:
			if t.got[m.ID] < m.Count-1e-9 {
				rs.nOld++
			}
		}
	}
	te := format.BuiltinMetricMetaTimingErrors.MetricID
	rs.dropped = e.agentDropped()
	rs.repliesOld, rs.repliesFuture = e.repliesOld.Load()+e.repliesStale.Load(), e.repliesFuture.Load()
	rs.repliesBad = e.repliesBad.Load()
	rs.cntOld = t.builtin[[2]int32{te, format.TagValueIDTimingLongWindowThrownAggregator}]
	rs.cntFuture = t.builtin[[2]int32{te, format.TagValueIDTimingFutureBucketHistoric}]
	rs.lateRecent = t.builtin[[2]int32{te, format.TagValueIDTimingLateRecent}]
	return rs
}

// pending is what the drain still waits for: markers that must be inserted and are not
// yet, and rejection-scenario seconds whose drop is not yet visible in the counters.
func (o *c01Obs) pending(e *c01Env) int {
	t := c01TallyInserts(e.ch.log())
	e.agentMu.RLock()
	defer e.agentMu.RUnlock()
	o.mu.Lock()
	defer o.mu.Unlock()
	n := 0
	for _, m := range o.markers {
		if m.Expect == c01ExpectInsert && t.got[m.ID] < m.Count-1e-9 {
			n++
		}
	}
	rs := o.rejectState(e, t)
	if rs.dropped < int64(rs.nDrop) {
		n += rs.nDrop - int(rs.dropped)
	}
	if rs.repliesOld < int64(rs.nOld) {
		n += rs.nOld - int(rs.repliesOld)
	}
	if rs.repliesFuture < int64(rs.nFuture) {
		n += rs.nFuture - int(rs.repliesFuture)
	}
	if rs.repliesBad < int64(rs.nBad) {
		n += rs.nBad - int(rs.repliesBad)
	}
	return n
}

func c01Cap(n, c int) int {
	if n > c {
		return c
	}
	return n
}

type c01ReplicaStats struct {
	Gen                                                                        int
	Replica                                                                    int
	Alive                                                                      bool
	RecentSuccess, RecentKeep, RecentFailed, HistSuccess, HistKeep, HistFailed int64
}

func (e *c01Env) replicaStats() (out []c01ReplicaStats) {
	for g, a := range e.allAgents() {
		for _, sr := range a.ShardReplicas {
			out = append(out, c01ReplicaStats{g, sr.ShardReplicaNum, sr.alive.Load(),
				sr.stats.recentSendSuccess.Load(), sr.stats.recentSendKeep.Load(), sr.stats.recentSendFailed.Load(),
				sr.stats.historicSendSuccess.Load(), sr.stats.historicSendKeep.Load(), sr.stats.historicSendFailed.Load()})
		}
	}
	return out
}

// c01Judge evaluates the oracle; returns true when it reported a violation.
func c01Judge(e *c01Env) (violated bool) {
	r, o, sc := e.r, e.obs, e.sc
	ins := e.ch.log()
	t := c01TallyInserts(ins)
	e.agentMu.RLock()
	defer e.agentMu.RUnlock()
	o.mu.Lock()
	defer o.mu.Unlock()

	e.statMu.Lock()
	kills, replStarts, startFails := e.kills, e.replStarts, len(e.startFails)
	e.statMu.Unlock()
	finalGen := e.gen
	stats := e.replicaStats()
	rs := o.rejectState(e, t)
	outcomes := map[string]int{}
	var shape []string
	failedWithMarkers := 0
	for _, in := range ins {
		outcomes[in.Outcome]++
		shape = append(shape, fmt.Sprintf("%d%s", in.Replica, in.Outcome))
		if !in.Complete && len(in.Markers) != 0 {
			failedWithMarkers++
		}
	}
	r.Shape(sc.Profile + ":" + strings.Join(shape, ","))

	appearances := func(id int) (out []c01Appearance) {
		for _, in := range ins {
			if c, ok := in.Markers[id]; ok {
				out = append(out, c01Appearance{in.Seq, in.Replica, in.AtMs, in.Outcome, in.Complete, c})
			}
		}
		return out
	}
	witness := func(m *c01Marker) map[string]any {
		w := map[string]any{
			"scenario": sc, "marker": m, "appearances_in_insert_bodies": appearances(m.ID),
			"agent_replica_stats": stats, "agent_out_of_window_dropped": rs.dropped,
			"insert_outcomes": outcomes, "healed_at_ms": o.healedMs, "drain_ms": o.drainMs, "drain_extended": o.extended,
			"agent_restarts": e.restarts, "replica_kills": kills, "t0_unix": e.t0.Unix(),
		}
		if m.Slot != 0 {
			w["second_last_seen_in_agent"] = o.seen[m.Slot]
			w["second_held_by_agent_at_end"] = o.final[m.Slot]
			w["second_replica"] = m.Slot % 3
		}
		var held []string
		for s, where := range o.final {
			held = append(held, fmt.Sprintf("%d:%s", s, where))
		}
		sort.Strings(held)
		if len(held) > 40 {
			held = held[:40]
		}
		w["agent_holds_at_end"] = held
		w["harness_log_tail"] = c01Tail(e.dir+"/harness.log", 40)
		for k := 0; k < 3; k++ {
			w[fmt.Sprintf("agg%d_log_tail", k+1)] = c01Tail(e.aggLog(k), 12)
		}
		return w
	}

	// SF = 1 is assumed: a row whose count is not an integer multiple of what was fed has been
	// sampled by the agent or the aggregator (kept rows are scaled by SF, others are dropped on purpose)
	sampledRows := 0
	for _, m := range o.markers {
		for _, c := range t.rowCounts[m.ID] {
			if q := c / m.Count; math.Abs(q-math.Round(q)) > 1e-6 || q < 0.5 {
				sampledRows++
			}
		}
	}
	if sampledRows > 0 {
		r.Inconclusive(fmt.Sprintf("scenario %s: %d marker rows arrived scaled by a sampling factor: budgets were exceeded, rows may have been dropped by sampling (by design) and missing rows cannot be judged", sc.Name, sampledRows))
	}
	missingStarved := 0
	probesOK, probesTotal, healthy := o.probeHealth(ins)
	stuckUnhealthy := 0
	var once, dup int64
	for _, m := range o.markers {
		got, nc, nf := t.got[m.ID], t.nComplete[m.ID], t.nFailed[m.ID]
		seen := o.seen[m.Slot]
		if seen == nil {
			seen = &c01Seen{}
		}
		carried := m.Gen < finalGen && seen.AtShutdown // the second was left on disk by an exiting agent
		switch m.Expect {
		case c01ExpectInsert:
			ok := got >= m.Count-1e-9
			if !ok && o.starved {
				missingStarved++
				r.NotJudged("row-missing-while-harness-process-was-frozen", 1)
				continue
			}
			if !ok && sampledRows > 0 {
				r.NotJudged("row-missing-while-sampling-was-active", 1)
				continue
			}
			nontrivial := nf > 0 || nc > 1 || seen.Hist || seen.Disk || m.Class != "traffic" || carried
			r.Case(nontrivial, fmt.Sprintf("%s|%s|r%d|f%d|c%d|h%v|d%v|s%v|%v", sc.Profile, m.Class, m.Slot%3, c01Cap(nf, 2), c01Cap(nc, 3), seen.Hist, seen.Disk, seen.AtShutdown, ok))
			if ok {
				if nc > 1 {
					dup++
				} else {
					once++
				}
				if nontrivial {
					r.Sample(map[string]any{"scenario": sc.Name, "marker": m, "appearances": appearances(m.ID), "seen_in_agent": seen})
				}
				continue
			}
			where := o.final[m.Slot]
			lastHeld := max(seen.LastSQMs, seen.LastHistMs, seen.LastDiskMs)
			heldRecently := m.Slot != 0 && (where != "" || (lastHeld >= 0 && o.endMs-lastHeld < c01LostQuietMs))
			var key, what string
			switch {
			case heldRecently:
				// the agent still has the second: the bounded-time clause.  It is a verdict only
				// when fresh rows demonstrably flowed with normal latency during the drain
				if where == "" {
					where = "in-flight"
				}
				if !healthy {
					stuckUnhealthy++
					r.NotJudged("second-still-held-while-pipeline-not-back-to-normal-latency", 1)
					continue
				}
				key = fmt.Sprintf("C01/delivery/stuck/%s/%s", m.Class, where)
				what = fmt.Sprintf("accepted second still held by the agent (%s) and in no completed INSERT %d ms after faults stopped, while %d of %d probe rows fed during the drain were inserted within %d ms",
					where, o.drainMs, probesOK, probesTotal, c01ProbeLatencyMs)
			case nf > 0:
				key = fmt.Sprintf("C01/delivery/lost/%s/only-in-failed-insert", m.Class)
				what = "accepted second is held nowhere in the agent any more and reached ClickHouse only in INSERTs that failed: it was acknowledged without a successful insert"
			default:
				key = fmt.Sprintf("C01/delivery/lost/%s/never-in-an-insert", m.Class)
				what = "accepted second is held nowhere in the agent any more and never appeared in any INSERT body"
			}
			if carried {
				key += "+agent-restart"
			}
			violated = true
			r.Violation(key, fmt.Sprintf("scenario %s: %s (marker %d, second %d)", sc.Name, what, m.ID, m.Slot), witness(m))
		default: // rejection scenario: must never be needed in an INSERT, but its drop must be counted
			if m.Expect == c01ExpectInsertOrReject && got >= m.Count-1e-9 {
				r.Case(true, fmt.Sprintf("%s|%s|inserted|c%d", sc.Profile, m.Class, c01Cap(nc, 3)))
				once++
				continue
			}
			if got > 0 {
				r.NotJudged("rejectable-second-was-inserted", 1)
				continue
			}
			var counted bool
			var have, want float64
			switch m.Expect {
			case c01ExpectDropAgent:
				// every second outside the agent's window is thrown out exactly once and counted
				have, want = float64(rs.dropped), float64(rs.nDrop)
				counted = rs.dropped == int64(rs.nDrop)
			case c01ExpectRejectOld:
				// the aggregator's explicit rejection reply (it travels with the discard flag)
				have, want = float64(rs.repliesOld), float64(rs.nOld)
				counted = have >= want
			case c01ExpectRejectFuture:
				have, want = float64(rs.repliesFuture), float64(rs.nFuture)
				counted = have >= want
			case c01ExpectInsertOrReject:
				have, want = float64(rs.repliesOld), float64(rs.nOld)
				counted = have >= want
			case c01ExpectRejectBad:
				have, want = float64(rs.repliesBad), float64(rs.nBad)
				counted = have >= want
			}
			if !counted && (o.lastDisk[m.Slot] || o.final[m.Slot] != "") && !healthy {
				r.NotJudged("rejectable-second-still-held-while-pipeline-not-back-to-normal-latency", 1)
				continue
			}
			r.Case(true, fmt.Sprintf("%s|%s|counted=%v|disk=%v", sc.Profile, m.Class, counted, o.lastDisk[m.Slot]))
			if o.lastDisk[m.Slot] {
				o.counters["reject.still_on_disk_at_end"]++
			}
			if !counted {
				violated = true
				w := witness(m)
				w["counter_have"], w["counter_want"] = have, want
				r.Violation(fmt.Sprintf("C01/reject/uncounted/%s", m.Class),
					fmt.Sprintf("scenario %s: a second outside the window was not inserted, but no explicit rejection accounts for it (have %v, want %v)", sc.Name, have, want), w)
			}
		}
	}
	// aggregator-side drop counters travel as built-in rows of the replica's own agent; they are
	// lost with a SIGKILLed replica or refused by an overloaded one, so they are evidence only
	if short := float64(rs.nOld) - rs.cntOld; short > 0 {
		r.NotJudged("aggregator-out-of-window-counter-row-not-seen-in-clickhouse", int64(short))
	}
	if short := float64(rs.nFuture) - rs.cntFuture; short > 0 {
		r.NotJudged("aggregator-future-bucket-counter-row-not-seen-in-clickhouse", int64(short))
	}
	if o.stalls > 0 {
		r.Count("drain.harness_stalls", int64(o.stalls))
		r.MaxCounter("drain.harness_stall_ms.max", o.maxStallMs)
	}
	if missingStarved > 0 {
		r.Inconclusive(fmt.Sprintf("scenario %s: %d accepted rows are in no completed INSERT, but the test process itself was frozen (%d stalls of the 250 ms drain loop, longest %d ms, the last one less than %v before the end): in-flight sends are invisible and their deadlines did not fire, not decided",
			sc.Name, missingStarved, o.stalls, o.maxStallMs, c01QuietAfterStall))
	}
	if stuckUnhealthy > 0 {
		r.Inconclusive(fmt.Sprintf("scenario %s: %d accepted rows are still held by the agent %d ms after faults stopped, but only %d of %d probe rows fed during the drain were inserted within %d ms: machine overloaded or pipeline wedged, the bounded-delivery clause was not decided",
			sc.Name, stuckUnhealthy, o.drainMs, probesOK, probesTotal, c01ProbeLatencyMs))
	}

	// ---- evidence
	p := func(k string) string { return k }
	r.Count(p("markers.accepted"), int64(len(o.markers)))
	r.Count(p("markers.inserted_once"), once)
	r.Count(p("markers.inserted_more_than_once"), dup)
	r.Count(p("scenarios"), 1)
	r.Count(p("scenario."+sc.Profile), 1)
	for k, v := range outcomes {
		r.Count("ch.insert."+k, int64(v))
	}
	r.Count("ch.insert_failed_with_markers", int64(failedWithMarkers))
	e.ch.mu.Lock()
	r.Count("ch.other_requests", int64(e.ch.other))
	for k, v := range e.ch.effective {
		r.Count("fault.ch."+string(k), int64(v))
	}
	decodeErrs := append([]string(nil), e.ch.decodeErrors...)
	e.ch.mu.Unlock()
	var keep, histKeep, cuts int64
	for _, s := range stats {
		histKeep += s.HistKeep
		r.Count("agent.recent_send_success", s.RecentSuccess)
		r.Count("agent.recent_send_keep", s.RecentKeep)
		r.Count("agent.recent_send_failed", s.RecentFailed)
		r.Count("agent.historic_send_success", s.HistSuccess)
		r.Count("agent.historic_send_keep", s.HistKeep)
		r.Count("agent.historic_send_failed", s.HistFailed)
		keep += s.RecentKeep + s.HistKeep
	}
	for k := 0; k < 3; k++ {
		acc, c, sw, dl := e.prox[k].stats()
		r.Count("proxy.accepted", int64(acc))
		r.Count("proxy.cuts", int64(c))
		r.Count("proxy.response_bytes_swallowed", sw)
		r.Count("proxy.request_bytes_delayed", dl)
		cuts += int64(c)
	}
	for k, v := range o.counters {
		r.Count(k, v)
	}
	r.Count("replica.kills", int64(kills))
	r.Count("replica.starts", int64(replStarts))
	r.Count("replica.start_retries", int64(startFails))
	r.Count("agent.restarts", int64(e.restarts))
	r.Count("agent.seconds_found_on_disk_at_start", int64(len(e.replayed)))
	r.Count("agent.out_of_window_dropped", rs.dropped)
	r.Count("agent.reply.beyond_historic_window", rs.repliesOld)
	r.Count("agent.reply.too_far_in_future", rs.repliesFuture)
	r.Count("agent.reply.stale_before_historic_window", e.repliesStale.Load())
	r.Count("agent.reply.undecodable", rs.repliesBad)
	r.Count("probe.rows", int64(probesTotal))
	r.Count("probe.rows_inserted_in_time", int64(probesOK))
	r.Count("agg.counter.out_of_window", int64(rs.cntOld))
	r.Count("agg.counter.future_historic", int64(rs.cntFuture))
	r.Count("agg.counter.late_recent", int64(rs.lateRecent))
	r.Count("snapshots", int64(o.snaps))
	var sh, sd int64
	for _, s := range o.seen {
		if s.Hist {
			sh++
		}
		if s.Disk {
			sd++
		}
	}
	r.Count("seconds.seen_in_historic_queue", sh)
	r.Count("seconds.seen_on_disk", sd)
	r.MaxCounter("drain_ms.max", o.drainMs)
	r.MaxCounter("drain_ms.max."+sc.Profile, o.drainMs)
	if o.extended {
		r.Count("drain.extended_beyond_D", 1)
	}
	full := int64(0)
	for k := 0; k < 3; k++ {
		if b, err := os.ReadFile(e.aggLog(k)); err == nil {
			full += int64(strings.Count(string(b), "insert conveyor is full"))
		}
	}
	r.Count("agg.conveyor_full_messages", full)

	// ---- was the scenario what it claims to be?
	effect := map[string]bool{
		"failed-insert": failedWithMarkers > 0,
		"cut":           cuts > 0,
		"kill":          kills > 0,
		"keep":          keep > 0,
		"agent-restart": e.restarts > 0,
		"late-recent":   rs.lateRecent > 0 || keep > 0,
		"conveyor-full": full > 0,
		"historic-keep": histKeep > 0, // a historic send answered without discard and without RPC error
	}
	for _, m := range sc.Mandatory {
		if effect[m] {
			r.Count("effect."+m, 1)
			continue
		}
		r.Count("effect_missing."+m, 1)
		// the quick schedules must exercise the core fault classes (a schedule that never reaches the
		// mutated path catches nothing); in the thorough tier a class that did not fire is only counted
		if strings.HasPrefix(sc.Profile, "q-") && (m == "failed-insert" || m == "cut" || m == "kill" || m == "agent-restart" || m == "historic-keep") {
			r.Inconclusive(fmt.Sprintf("scenario %s: fault class %q of the schedule never took effect", sc.Name, m))
		}
	}
	for _, f := range o.failures {
		r.Inconclusive(fmt.Sprintf("scenario %s: %s", sc.Name, f))
	}
	if len(decodeErrs) != 0 {
		r.Inconclusive(fmt.Sprintf("scenario %s: %d INSERT bodies could not be decoded by the independent reader, first: %s", sc.Name, len(decodeErrs), decodeErrs[0]))
	}
	if len(o.markers) == 0 {
		r.Inconclusive(fmt.Sprintf("scenario %s: no marker was accepted", sc.Name))
	}
	return violated
}
