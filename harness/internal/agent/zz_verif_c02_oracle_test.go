//go:build verif

package agent

import (
	"encoding/binary"
	"fmt"
	"math"
	"sort"
	"strings"

	"github.com/hrissan/tdigest"

	"github.com/VKCOM/statshouse/internal/data_model"
	"github.com/VKCOM/statshouse/internal/data_model/gen2/tlstatshouse"
	"github.com/VKCOM/statshouse/internal/format"
	"github.com/VKCOM/statshouse/internal/zzverif/verifkit"
)

// c02MV is a deep, comparable copy of a data_model.MultiValue.
type c02MV struct {
	Count          float64
	ValueSet       bool
	Min, Max       float64
	Sum, SumSq     float64
	MaxHost        data_model.TagUnion
	MinHost        data_model.TagUnion
	MaxCounterHost data_model.TagUnion
	HLLSkip        int
	HLL            []uint32 // sorted hash set
	HLLErr         string
	HasDigest      bool
	Centroids      [][2]float64 // mean, weight
}

func c02Snap(v *data_model.MultiValue) c02MV {
	s := c02MV{
		Count: v.Value.Count(), ValueSet: v.Value.ValueSet, Min: v.Value.ValueMin, Max: v.Value.ValueMax,
		Sum: v.Value.ValueSum, SumSq: v.Value.ValueSumSquare,
		MaxHost: v.Value.MaxHostTag, MinHost: v.Value.MinHostTag, MaxCounterHost: v.Value.MaxCounterHostTag,
	}
	if v.HLL.ItemsCount() != 0 {
		b := v.HLL.MarshallAppend(nil)
		s.HLLSkip = int(b[0])
		n, k := binary.Uvarint(b[1:])
		b = b[1+k:]
		if k <= 0 || uint64(len(b)) != 4*n {
			s.HLLErr = fmt.Sprintf("marshalled uniques: %d items announced, %d bytes follow", n, len(b))
		} else {
			s.HLL = make([]uint32, n)
			for i := range s.HLL {
				s.HLL[i] = binary.LittleEndian.Uint32(b[4*i:])
			}
			sort.Slice(s.HLL, func(i, j int) bool { return s.HLL[i] < s.HLL[j] })
		}
	}
	if v.ValueTDigest != nil {
		s.HasDigest = true
		for _, c := range v.ValueTDigest.Centroids() {
			s.Centroids = append(s.Centroids, [2]float64{c.Mean, c.Weight})
		}
	}
	return s
}

func c02Near(a, b float64) bool {
	return a == b || math.Abs(a-b) <= 1e-9*math.Max(math.Abs(a), math.Abs(b))
}

// what the aggregator must hold after merging the row into a fresh item
func c02Expect(a c02MV, sf float64, sender data_model.TagUnion, hasPerc bool, mp func(data_model.TagUnion) data_model.TagUnion) c02MV {
	var e c02MV
	cou := a.Count * sf
	if !(cou > 0) {
		return e
	}
	host := func(h data_model.TagUnion) data_model.TagUnion {
		if h.Empty() {
			return sender
		}
		return mp(h)
	}
	e.Count = cou
	e.MaxCounterHost = host(a.MaxCounterHost)
	e.HLLSkip, e.HLL = a.HLLSkip, a.HLL
	if !a.ValueSet {
		return e
	}
	e.ValueSet = true
	e.Min, e.Max, e.Sum, e.SumSq = a.Min, a.Max, a.Sum*sf, a.SumSq*sf
	e.MaxHost, e.MinHost = host(a.MaxHost), host(a.MinHost)
	if hasPerc {
		ref := tdigest.NewWithCompression(data_model.AggregatorPercentileCompression)
		if a.HasDigest && len(a.Centroids) != 0 {
			for _, c := range a.Centroids {
				m, wt := float32(c[0]), float32(c[1]*sf)
				if wt == 0 {
					continue
				}
				ref.Add(float64(m), float64(wt))
			}
		} else {
			ref.Add(a.Min, cou) // all values identical: one implicit centroid
		}
		e.HasDigest = true
		for _, c := range ref.Centroids() {
			e.Centroids = append(e.Centroids, [2]float64{c.Mean, c.Weight})
		}
	}
	return e
}

func c02EqU32(a, b []uint32) bool {
	if len(a) != len(b) {
		return false
	}
	for i := range a {
		if a[i] != b[i] {
			return false
		}
	}
	return true
}

// returns the names of the clauses that differ
func c02Diff(e, g c02MV) (bad []string) {
	if !c02Near(e.Count, g.Count) {
		bad = append(bad, "count")
	}
	if e.MaxCounterHost != g.MaxCounterHost {
		bad = append(bad, "maxcounterhost")
	}
	if e.ValueSet != g.ValueSet {
		bad = append(bad, "valueset")
	}
	if e.ValueSet && g.ValueSet {
		if e.Min != g.Min {
			bad = append(bad, "min")
		}
		if e.Max != g.Max {
			bad = append(bad, "max")
		}
		if !c02Near(e.Sum, g.Sum) {
			bad = append(bad, "sum")
		}
		if !c02Near(e.SumSq, g.SumSq) {
			bad = append(bad, "sumsq")
		}
		if e.MinHost != g.MinHost {
			bad = append(bad, "minhost")
		}
		if e.MaxHost != g.MaxHost {
			bad = append(bad, "maxhost")
		}
	}
	if e.HLLSkip != g.HLLSkip || !c02EqU32(e.HLL, g.HLL) || g.HLLErr != "" {
		bad = append(bad, "uniques")
	}
	if e.HasDigest != g.HasDigest {
		bad = append(bad, "digest-presence")
	} else if len(e.Centroids) != len(g.Centroids) {
		bad = append(bad, "centroids")
	} else {
		for i := range e.Centroids {
			if e.Centroids[i] != g.Centroids[i] {
				bad = append(bad, "centroids")
				break
			}
		}
	}
	return bad
}

func c02Abstract(a c02MV, sf float64) string {
	return fmt.Sprintf("%v/%v/%v/%v/%v/%v/h%v%v%v/u%d/c%d/sf%v", a.Count, a.ValueSet, a.Min, a.Max, a.Sum, a.SumSq,
		!a.MaxHost.Empty(), !a.MinHost.Empty(), !a.MaxCounterHost.Empty(), len(a.HLL), len(a.Centroids), sf)
}

// c02Keys splits the differing clauses into independent root-cause groups, one stable key each.
func c02Keys2(a, e, g c02MV, bad []string) map[string][]string {
	out := map[string][]string{}
	cl := "no-value"
	if a.ValueSet {
		cl = "min!=max"
		if a.Min == a.Max {
			cl = "min==max"
		}
	}
	var val []string
	for _, b := range bad {
		switch b {
		case "count":
			out["count/"+cl] = []string{b}
		case "valueset", "min", "max", "sum", "sumsq":
			val = append(val, b)
		case "minhost", "maxhost", "maxcounterhost":
			var ah, gh data_model.TagUnion
			switch b {
			case "minhost":
				ah, gh = a.MinHost, g.MinHost
			case "maxhost":
				ah, gh = a.MaxHost, g.MaxHost
			default:
				ah, gh = a.MaxCounterHost, g.MaxCounterHost
			}
			why := "differs"
			if b != "maxhost" && ah.Empty() && a.ValueSet && !a.MaxHost.Empty() && gh == e.MaxHost {
				// the event that set this attribution had no host tag (= the sending agent), another event of the row had one
				why = "absent-on-agent-defaulted-to-maxhost"
			}
			out["host/"+b+"-"+why] = []string{b}
		case "uniques":
			k := "uniques/plain"
			if a.HLLSkip != 0 {
				k = "uniques/thinned"
			}
			out[k] = []string{b}
		default: // digest-presence, centroids
			k := "centroids/implicit"
			if a.HasDigest {
				k = "centroids/explicit"
			}
			out[k+"/"+b] = []string{b}
		}
	}
	if len(val) != 0 {
		k := strings.Join(val, "-") + "/" + cl
		if cl == "min==max" && (len(val) == 2 && val[0] == "sum" && val[1] == "sumsq" || len(val) == 1 && (val[0] == "sum" || val[0] == "sumsq")) &&
			c02Near(g.Sum, g.Min*g.Count) && c02Near(g.SumSq, g.Min*g.Min*g.Count) {
			// the compact encoding omits max/sum/sumsq when min == max and the receiver re-derives them from min and count
			k = "sum-sumsq-rederived/min==max"
		}
		out[k] = val
	}
	return out
}

func c02TLValue(v *tlstatshouse.MultiValueBytes, mask uint32) map[string]any {
	m := map[string]any{"fields_mask": fmt.Sprintf("%#x", mask), "counter": v.Counter, "counter_eq_1": v.IsSetCounterEq1(mask), "value_set": v.IsSetValueSet(mask),
		"min": v.ValueMin, "max_set": v.IsSetValueMax(mask), "max": v.ValueMax, "sum": v.ValueSum, "sumsq": v.ValueSumSquare,
		"uniques_bytes": len(v.Uniques), "centroids": len(v.Centroids), "implicit_centroid": v.IsSetImplicitCentroid(mask)}
	if v.IsSetMaxHostTag(mask) {
		m["max_host_tag"] = v.MaxHostTag
	}
	if v.IsSetMaxHostStag(mask) {
		m["max_host_stag"] = string(v.MaxHostStag)
	}
	if v.IsSetMinHostTag(mask) {
		m["min_host_tag"] = v.MinHostTag
	}
	if v.IsSetMinHostStag(mask) {
		m["min_host_stag"] = string(v.MinHostStag)
	}
	if v.IsSetMaxCounterHostTag(mask) {
		m["max_counter_host_tag"] = v.MaxCounterHostTag
	}
	if v.IsSetMaxCounterHostStag(mask) {
		m["max_counter_host_stag"] = string(v.MaxCounterHostStag)
	}
	return m
}

func c02Finite(xs ...float64) bool {
	for _, x := range xs {
		if math.IsNaN(x) || math.IsInf(x, 0) {
			return false
		}
	}
	return true
}

// c02CheckRow judges one transferred row: src is the agent's row (after sampling), ti the decoded TL row.
func c02CheckRow(r *verifkit.Run, w *verifkit.Worker, rd *c02Round, src *data_model.MultiItem, ti *tlstatshouse.MultiItemBytes, bucketTime uint32) {
	sf := src.SF
	hasPerc := src.MetricMeta != nil && src.MetricMeta.HasPercentiles
	mapU := func(h data_model.TagUnion) data_model.TagUnion {
		if h.I != 0 {
			return data_model.TagUnion{I: h.I}
		}
		if id, ok := c02AggMap(rd.aggMap, []byte(h.S)); ok {
			return data_model.TagUnion{I: id}
		}
		return h
	}
	// ---- agent-side snapshot (before the receive path mutates the TL struct in place)
	aTail := c02Snap(&src.Tail)
	aTop := map[data_model.TagUnion]c02MV{}
	for k, v := range src.Top {
		aTop[k] = c02Snap(v)
	}
	tlTail := c02TLValue(&ti.Tail, ti.FieldsMask)
	tlTops := map[string]any{}
	for i := range ti.Top {
		tlTops[fmt.Sprintf("%d/%q", ti.Top[i].Tag, ti.Top[i].Stag)] = c02TLValue(&ti.Top[i].Value, ti.Top[i].FieldsMask)
	}
	witness := func(extra map[string]any) map[string]any {
		m := map[string]any{"round": rd.desc, "metric": src.Key.Metric, "has_percentiles": hasPerc, "sf": sf, "bucket_time": bucketTime,
			"agent_key_ts": src.Key.Timestamp, "agent_tail": aTail, "tl_tail": tlTail, "tl_tops": tlTops, "sender_host": rd.sender,
			"repro": "data_model.MultiValue with the agent_* aggregates -> MultiValueToTL(meta, &item, sf, &mask, nil) -> WriteTL1/ReadTL1 -> fresh MultiValue.MergeWithTL2(rng, &item, mask, senderHost, AggregatorPercentileCompression)"}
		for _, s := range rd.series {
			if s.meta.MetricID == src.Key.Metric && c02TagsEq(s, src) {
				m["series_events(ts relative to now)"] = s.ops
			}
		}
		for k, v := range extra {
			m[k] = v
		}
		return m
	}

	// ---- aggregate sizes the receiver refuses on purpose (statement is silent): not judged
	tooBig := func(a c02MV) bool {
		if !c02Finite(a.Count*sf, a.Sum*sf, a.SumSq*sf) || a.Count*sf > math.MaxFloat32 {
			return true
		}
		if a.ValueSet && (math.Abs(a.Sum*sf) > math.MaxFloat32 || math.Abs(a.Min*a.Count*sf) > math.MaxFloat32) {
			return true
		}
		return false
	}
	if tooBig(aTail) {
		r.NotJudged("aggregate_exceeds_receiver_validation(MaxFloat32)", 1)
		return
	}
	for _, a := range aTop {
		if tooBig(a) {
			r.NotJudged("aggregate_exceeds_receiver_validation(MaxFloat32)", 1)
			return
		}
	}
	if len(src.Top) > data_model.AggregatorStringTopCapacity {
		r.NotJudged("more_top_entries_than_aggregator_capacity", 1)
		return
	}

	// ---- receive path: the calls handleSendSourceBucket makes for one row
	k, warn := data_model.KeyFromStatshouseMultiItem(ti, bucketTime)
	for i, str := range ti.Skeys {
		if i >= format.MaxTags {
			break
		}
		if len(str) != 0 && !format.ValidStringValueBytes(str) {
			r.Violation("C02/key/stag-rejected", "a string tag sent by the agent is rejected by the aggregator's validation (row dropped)", witness(map[string]any{"stag": string(str), "index": i}))
			return
		}
		if m, ok := c02AggMap(rd.aggMap, str); ok && len(str) != 0 {
			k.Tags[i] = m
		} else {
			k.STags[i] = string(str)
		}
	}
	mapHosts := func(v *tlstatshouse.MultiValueBytes, mask *uint32) bool {
		if v.IsSetMaxHostStag(*mask) {
			if !format.ValidStringValueBytes(v.MaxHostStag) {
				return false
			}
			if m, ok := c02AggMap(rd.aggMap, v.MaxHostStag); ok {
				v.SetMaxHostTag(m, mask)
				v.ClearMaxHostStag(mask)
			}
		}
		if v.IsSetMaxCounterHostStag(*mask) {
			if !format.ValidStringValueBytes(v.MaxCounterHostStag) {
				return false
			}
			if m, ok := c02AggMap(rd.aggMap, v.MaxCounterHostStag); ok {
				v.SetMaxCounterHostTag(m, mask)
				v.ClearMaxCounterHostStag(mask)
			}
		}
		if v.IsSetMinHostStag(*mask) {
			if !format.ValidStringValueBytes(v.MinHostStag) {
				return false
			}
			if m, ok := c02AggMap(rd.aggMap, v.MinHostStag); ok {
				v.SetMinHostTag(m, mask)
				v.ClearMinHostStag(mask)
			}
		}
		return true
	}
	okHosts := mapHosts(&ti.Tail, &ti.FieldsMask)
	for i := range ti.Top {
		ptb := &ti.Top[i]
		if len(ptb.Stag) != 0 && !format.ValidStringValueBytes(ptb.Stag) {
			okHosts = false
		}
		if m, ok := c02AggMap(rd.aggMap, ptb.Stag); ok && len(ptb.Stag) != 0 {
			ptb.Tag = m
			ptb.Stag = ptb.Stag[:0]
		}
		okHosts = mapHosts(&ptb.Value, &ptb.FieldsMask) && okHosts
	}
	if !okHosts {
		r.Violation("C02/key/host-or-top-stag-rejected", "a host or top string sent by the agent is rejected by the aggregator's validation (row dropped)", witness(nil))
		return
	}
	var keyBytes []byte
	keyBytes, _ = k.XXHash(keyBytes)
	var aggMap data_model.MultiItemMap
	mi, created := aggMap.GetOrCreateMultiItem(&k, nil, keyBytes)
	if !created {
		r.Violation("C02/harness/fresh-item", "fresh map returned an existing item", nil)
		return
	}
	ingErr := mi.MergeWithTLMultiItem(rd.recvRng, data_model.AggregatorStringTopCapacity, ti, rd.sender)
	if ingErr != 0 {
		r.Violation(fmt.Sprintf("C02/ingestion-error/%d", ingErr), "aggregator refuses a row the agent built from valid events", witness(map[string]any{"ingestion_error": ingErr}))
		return
	}

	// ---- oracle: key
	var ek data_model.Key
	ek.Metric = src.Key.Metric
	for i := 0; i < format.MaxTags; i++ {
		ek.Tags[i] = src.Key.Tags[i]
		if s := src.Key.STags[i]; s != "" {
			if id, ok := c02AggMap(rd.aggMap, []byte(s)); ok {
				ek.Tags[i] = id
			} else {
				ek.STags[i] = s
			}
		}
	}
	ek.Timestamp = src.Key.Timestamp
	clamp := ""
	if int64(ek.Timestamp) > int64(bucketTime) { // documented clamp (never expected from an agent)
		ek.Timestamp, clamp = bucketTime, "future"
	} else if int64(ek.Timestamp) < int64(bucketTime)-data_model.BelieveTimestampWindow { // documented clamp
		ek.Timestamp, clamp = bucketTime, "past"
	}
	if clamp != "" {
		w.Count("key.timestamp_clamped_"+clamp, 1)
		if (clamp == "future") != (warn == format.TagValueIDSrcIngestionStatusWarnTimestampClampedFutureAgg) ||
			(clamp == "past") != (warn == format.TagValueIDSrcIngestionStatusWarnTimestampClampedPast) {
			r.Violation("C02/key/clamp-warning", "clamped timestamp without the matching ingestion warning", witness(map[string]any{"warning": warn, "clamp": clamp}))
		}
	} else if warn != 0 {
		r.Violation("C02/key/spurious-clamp-warning", "ingestion warning for a timestamp inside the window", witness(map[string]any{"warning": warn}))
	}
	if ti.IsSetT() {
		w.Count("key.explicit_timestamp", 1)
	}
	if k != ek {
		what := "tags"
		switch {
		case k.Metric != ek.Metric:
			what = "metric"
		case k.Timestamp != ek.Timestamp:
			what = "timestamp"
		case k.Tags == ek.Tags:
			what = "stags"
		}
		r.Violation("C02/key/"+what, "reconstructed key differs from the agent's key", witness(map[string]any{
			"got": c02KeyString(k.Metric, k.Tags[:], k.STags[:], k.Timestamp), "want": c02KeyString(ek.Metric, ek.Tags[:], ek.STags[:], ek.Timestamp)}))
	}

	// ---- oracle: top keys
	eTop := map[data_model.TagUnion]c02MV{}
	collide := false
	for tk, a := range aTop {
		mk := mapU(tk)
		if _, dup := eTop[mk]; dup {
			collide = true
		}
		eTop[mk] = c02Expect(a, sf, rd.sender, hasPerc, mapU)
	}
	if collide {
		r.NotJudged("two_top_keys_map_to_one_aggregator_key", 1)
		return
	}
	var missing, extra []string
	for tk := range eTop {
		if _, ok := mi.Top[tk]; !ok {
			missing = append(missing, fmt.Sprintf("%d/%q", tk.I, tk.S))
		}
	}
	for tk := range mi.Top {
		if _, ok := eTop[tk]; !ok {
			extra = append(extra, fmt.Sprintf("%d/%q", tk.I, tk.S))
		}
	}
	if len(missing)+len(extra) != 0 {
		sort.Strings(missing)
		sort.Strings(extra)
		r.Violation("C02/top-keys/set-differs", "string-top keys of the reconstructed row differ from the agent's", witness(map[string]any{"missing": missing, "extra": extra}))
	}

	// ---- oracle: aggregates of the tail and of every top entry
	judge := func(where string, a c02MV, got *data_model.MultiValue) {
		e := c02Expect(a, sf, rd.sender, hasPerc, mapU)
		g := c02Snap(got)
		if a.HLLErr != "" {
			r.Violation("C02/uniques/agent-marshal", "agent-side uniques do not marshal consistently", witness(map[string]any{"where": where, "agent_err": a.HLLErr}))
			return
		}
		bad := c02Diff(e, g)
		if len(bad) == 0 {
			return
		}
		for key, fields := range c02Keys2(a, e, g, bad) {
			r.Violation("C02/"+key, "reconstructed aggregates differ from agent's aggregates * SF: "+strings.Join(fields, ","),
				witness(map[string]any{"where": where, "agent": a, "want": e, "got": g}))
		}
	}
	judge("tail", aTail, &mi.Tail)
	for tk, a := range aTop {
		if got := mi.Top[mapU(tk)]; got != nil {
			judge(fmt.Sprintf("top %d/%q", tk.I, tk.S), a, got)
		}
	}

	// ---- accounting
	nontrivial := aTail.ValueSet || len(aTail.HLL) != 0 || len(aTop) != 0 || sf != 1 || ti.IsSetT()
	if src.Key.Metric > 0 {
		var ab strings.Builder
		ab.WriteString(c02KeyString(src.Key.Metric, src.Key.Tags[:], src.Key.STags[:], 0))
		fmt.Fprintf(&ab, "|T%v|%s", ti.IsSetT(), c02Abstract(aTail, sf))
		tks := make([]string, 0, len(aTop))
		for tk, a := range aTop {
			tks = append(tks, fmt.Sprintf("%d/%s=%s", tk.I, tk.S, c02Abstract(a, sf)))
		}
		sort.Strings(tks)
		ab.WriteString(strings.Join(tks, ";"))
		w.Case(nontrivial, ab.String())
		if r.WantSample() {
			r.Sample(map[string]any{"round": rd.desc, "metric": src.Key.Metric, "sf": sf, "explicit_ts": ti.IsSetT(), "agent_tail": aTail, "tl_tail": tlTail, "top_entries": len(aTop)})
		}
	} else {
		w.Count("rows.builtin_judged", 1)
	}
	if sf != 1 {
		w.Count("rows.sf_gt_1", 1)
	}
	if len(aTop) != 0 {
		w.Count("rows.with_top", 1)
		w.Count("top_entries", int64(len(aTop)))
	}
	cls := func(a c02MV) {
		switch {
		case !a.ValueSet && a.Count > 0:
			w.Count("values.counter_only", 1)
		case a.ValueSet && a.Min == a.Max:
			w.Count("values.min==max", 1)
			if !c02Near(a.Sum, a.Min*a.Count) {
				w.Count("values.min==max_sum!=min*count", 1)
			}
		case a.ValueSet:
			w.Count("values.min!=max", 1)
		}
		if len(a.HLL) != 0 {
			w.Count("values.with_uniques", 1)
			if a.HLLSkip != 0 {
				w.Count("values.uniques_thinned(>65536)", 1)
			}
		}
		if a.HasDigest {
			w.Count("values.with_centroids", 1)
		} else if hasPerc && a.ValueSet {
			w.Count("values.implicit_centroid", 1)
		}
		if !a.MaxHost.Empty() || !a.MinHost.Empty() || !a.MaxCounterHost.Empty() {
			w.Count("values.with_host", 1)
		}
	}
	cls(aTail)
	for _, a := range aTop {
		cls(a)
	}
}

func c02TagsEq(s *c02Series, src *data_model.MultiItem) bool {
	for i := 0; i < format.StringTopTagIndexV3; i++ {
		if s.tags[i] != src.Key.Tags[i] || s.stags[i] != src.Key.STags[i] {
			return false
		}
	}
	return true
}
