//go:build verif

package agent

// C08 — Agent places every accepted event in exactly one correct send second.
//
// Workload: two real agents (A: mapping cache knows every string, B: cache empty or partial and
// tags sent in another order) with 1-3 shards each, built like Test_AgentQueue, driven on a
// *virtual* clock: random interleavings of events (Agent.Map -> Agent.ApplyMetric; timestamps
// -200..+10 s around the clock or 0; resolutions 1..60; counter / value / unique events;
// fixed / by-metric / by-tags-hash sharding; one metric with a secondary shard that starts at a
// configured timestamp) with goFlushIteration(t) calls whose clock steps are 0..400 s (pauses,
// jumps, several flushes per second) and with a consumer of BucketsToPreprocess that is fast,
// slow or stalled.  The history ends with StopReceivingIncomingData (+ a few events that must
// vanish or be delivered) and a full flush of the ring.
//
// Every event carries a raw tag (group id) and a counter 4^k (k = index inside its group), so the
// count of a delivered row decodes into "which events are inside, how many times".
//
// Oracle (per agent, per shard the event is routed to):
//   exactly-once, bucket.Time >= clamp(ts), row.Timestamp == floor(clamp(ts)/r)*r,
//   missing only if (CurrentTime - SendTime > ring slack) or stop flag, read under the shard lock
//   right before the single-threaded call, or secondary shard before its start timestamp;
//   A and B deliver every non-late event in the same second.

import (
	"fmt"
	"math"
	"sort"
	"strconv"
	"strings"
	"sync"
	"testing"
	"time"

	"pgregory.net/rand"

	"github.com/VKCOM/statshouse/internal/data_model"
	"github.com/VKCOM/statshouse/internal/data_model/gen2/tl"
	"github.com/VKCOM/statshouse/internal/data_model/gen2/tlstatshouse"
	"github.com/VKCOM/statshouse/internal/format"
	"github.com/VKCOM/statshouse/internal/pcache"
	"github.com/VKCOM/statshouse/internal/zzverif/verifkit"
)

// seconds the receive cursor may run ahead of the send cursor before the ring (128 slots, 120 of
// them needed to spread a 60 s resolution, 3 for future timestamps) would wrap: 5
const c08RingSlack = superQueueLen - superQueueFutureSlots - 120

var c08Strings = []string{"alpha", "beta", "gamma", "delta", "eps", "жук", "node-17", "x"}

type c08Event struct {
	idx     int
	group   int32 // raw tag value
	digit   int   // counter = 4^digit
	meta    *format.MetricMetaValue
	ts      uint32 // as sent (0 = not set)
	kind    int    // through Agent.Map+ApplyMetric: 0 counter 1 value 2 unique; direct helpers (built-in metric path): 3 AddCounter 4 AddValueCounter 5 MergeItemValue 6 AddCounterS
	nowTs   bool   // ts == 0 reaches the shard as 0 ("now" = the shard's current time) instead of being replaced by the receive time
	a, b    string
	host    string
	top     string
	clockMs int64
	// per agent
	pre [2][]c08ShardState // state of every shard right before the call
	tgt [2][2]int          // shard1, shard2 (-1 = none)
}

type c08ShardState struct {
	cur, send uint32
	stopped   bool
}

type c08Delivery struct {
	shard      int
	bucketTime uint32
	rowTs      uint32
	mult       int
	inTail     bool // the row's count sits in the tail (no string-top entry)
}

type c08Agent struct {
	agent     *Agent
	delivered map[[2]int][]c08Delivery // (event idx, shard) -> deliveries
	buckets   int
	lastTime  []uint32
	corrupt   []string
	statusOK  map[[2]int]float64 // (shard, metric id) -> sum of delivered "ingestion status ok" counters
}

func c08Metas(nShards int, t0 uint32, rnd interface{ IntN(int) int }) []*format.MetricMetaValue {
	var out []*format.MetricMetaValue
	for i, res := range []int{1, 1, 2, 5, 15, 60, 60, 1, 30, 10} {
		m := &format.MetricMetaValue{
			MetricID: int32(100 + i), Name: fmt.Sprintf("c08_metric_%d", i), Resolution: res, Kind: format.MetricKindCounter,
			Tags: []format.MetricMetaTag{{}, {Name: "gid", RawKind: "int"}, {Name: "a"}, {Name: "b"}},
		}
		switch i % 3 {
		case 0:
			m.ShardStrategy = format.ShardFixed
			m.ShardNum = uint32(rnd.IntN(nShards))
		case 1:
			m.ShardStrategy = format.ShardByMetricID
		default:
			m.ShardStrategy = format.ShardByTagsHash
		}
		if i == 7 || i == 5 || i == 1 { // secondary shard: started long ago / starts in the middle of the history / not yet
			m.ShardFixedKey2 = uint32(1 + rnd.IntN(nShards))
			switch rnd.IntN(4) {
			case 0:
				m.ShardFixedKey2Timestamp = t0 - 100000
			case 1:
				m.ShardFixedKey2Timestamp = t0 + 1000000
			default:
				m.ShardFixedKey2Timestamp = t0 + uint32(rnd.IntN(40)) - 10
			}
		}
		if i == 9 {
			m.Kind = format.MetricKindValuePercentiles
		}
		if err := m.RestoreCachedInfo(); err != nil {
			panic(err)
		}
		out = append(out, m)
	}
	return out
}

func c08NewAgent(nShards int, t0 uint32, seed uint64, cache map[string]int32) *c08Agent {
	cfg := DefaultConfig()
	a := &Agent{
		config:                                 cfg,
		logF:                                   func(string, ...any) {},
		mappingsCache:                          pcache.NewMappingsCache(data_model.NewChunkedStorageNop(), 1<<20, 86400),
		componentTag:                           format.TagValueIDComponentAgent,
		shardByMetricCount:                     uint32(nShards),
		beforeFlushTime:                        t0,
		startTimestamp:                         t0,
		heartBeatEventType:                     format.TagValueIDHeartbeatEventStart,
		builtinMetricMetaUsageCPU:              *format.BuiltinMetricMetaUsageCPU,
		builtinMetricMetaUsageMemory:           *format.BuiltinMetricMetaUsageMemory,
		builtinMetricMetaHeartbeatVersion:      *format.BuiltinMetricMetaHeartbeatVersion,
		builtinMetricMetaHeartbeatVersionAgent: *format.BuiltinMetricMetaHeartbeatVersionAgent,
	}
	var pairs []pcache.MappingPair
	for s, v := range cache {
		pairs = append(pairs, pcache.MappingPair{Str: s, Value: v})
	}
	sort.Slice(pairs, func(i, j int) bool { return pairs[i].Str < pairs[j].Str })
	a.mappingsCache.AddValues(t0, pairs)
	for i := 0; i < nShards; i++ {
		sh := &Shard{
			agent: a, ShardNum: i, ShardKey: int32(i) + 1, config: cfg, rng: rand.New(seed + uint64(i)),
			CurrentTime: t0, SendTime: t0 - 2,
			BucketsToPreprocess:  make(chan *data_model.MetricsBucket, 1),
			metricBudgetsFromAgg: data_model.NewExpDecay(time.Minute),
		}
		sh.hardwareMetricResolutionResolved.Store(int32(format.HardwareMetricResolution))
		sh.hardwareSlowMetricResolutionResolved.Store(int32(format.HardwareSlowMetricResolution))
		for j := 0; j < superQueueLen; j++ {
			sh.SuperQueue[j] = &data_model.MetricsBucket{}
		}
		sh.cond = sync.NewCond(&sh.mu)
		a.Shards = append(a.Shards, sh)
	}
	a.initBuiltInMetrics()
	return &c08Agent{agent: a, delivered: map[[2]int][]c08Delivery{}, lastTime: make([]uint32, nShards), statusOK: map[[2]int]float64{}}
}

type c08History struct {
	r       *verifkit.Run
	w       *verifkit.Worker
	nShards int
	t0      uint32
	metas   []*format.MetricMetaValue
	ag      [2]*c08Agent
	events  []*c08Event
	byGroup map[int32][]*c08Event
	clock   time.Time
	log     []string
	sawJump, sawGap, sawStall bool
	nextGroup                 int32
}

// emit registers the event in a (new or existing) group, sends it to both agents and logs it
func (h *c08History) emit(ev *c08Event, mayJoin bool) {
	rnd := h.w.Rnd
	now := uint32(h.clock.Unix())
	// join an existing group (same series, merges into rows) or start a new one
	joined := false
	if mayJoin && len(h.events) != 0 && rnd.IntN(3) == 0 {
		o := h.events[rnd.IntN(len(h.events))]
		if g := h.byGroup[o.group]; len(g) < 20 {
			ev.group, ev.meta, ev.a, ev.b, ev.host, ev.top = o.group, o.meta, o.a, o.b, o.host, o.top
			ev.digit = len(g)
			if rnd.IntN(2) == 0 {
				ev.ts = o.ts
			}
			joined = true
		}
	}
	if !joined {
		ev.group = h.nextGroup
		h.nextGroup++
		if rnd.IntN(2) == 0 {
			ev.a = c08Strings[rnd.IntN(len(c08Strings))]
		}
		if rnd.IntN(2) == 0 {
			ev.b = c08Strings[rnd.IntN(len(c08Strings))]
		}
		if rnd.IntN(5) == 0 {
			ev.host = c08Strings[rnd.IntN(len(c08Strings))]
		}
		if rnd.IntN(5) == 0 {
			ev.top = c08Strings[rnd.IntN(len(c08Strings))]
		}
	}
	h.byGroup[ev.group] = append(h.byGroup[ev.group], ev)
	h.events = append(h.events, ev)
	h.send(ev)
	h.logf("ev%d g=%d d=%d m=%d r=%d ts=%+d kind=%d", ev.idx, ev.group, ev.digit, ev.meta.MetricID, ev.meta.EffectiveResolution, int64(ev.ts)-int64(now), ev.kind)
	h.w.Count("events.sent", 1)
}

// stallCycles is the systematic "consumer stall" shape: the flusher keeps ticking once per second while
// BucketsToPreprocess is not drained for 0..12 s (the send cursor falls behind the clock second by second),
// events keep arriving during the stall - mostly low-resolution metrics, future timestamps, timestamps that are
// exact multiples of the resolution - and the stall is placed so that a multiple of 60 comes up inside it.
func (h *c08History) stallCycles() {
	rnd := h.w.Rnd
	var lowRes []*format.MetricMetaValue
	for _, m := range h.metas {
		if m.EffectiveResolution >= 15 {
			lowRes = append(lowRes, m)
		}
	}
	tick := func(consumer int, events int, hostile bool) {
		h.clock = h.clock.Add(time.Second)
		h.flush(consumer)
		h.logf("flush +1s consumer=%d", consumer)
		h.w.Count("flush_iterations", 2)
		now := uint32(h.clock.Unix())
		for e := 0; e < events; e++ {
			meta := h.metas[rnd.IntN(len(h.metas))]
			if hostile && rnd.IntN(10) < 7 {
				meta = lowRes[rnd.IntN(len(lowRes))]
			}
			res := uint32(meta.EffectiveResolution)
			ev := &c08Event{idx: len(h.events), meta: meta, kind: c08Kind(rnd), nowTs: rnd.IntN(2) == 0, clockMs: h.clock.UnixMilli()}
			switch p := rnd.IntN(20); {
			case p < 7:
				ev.ts = now + 1 + uint32(rnd.IntN(10))
			case p < 12:
				ev.ts = (now+uint32(rnd.IntN(8)))/res*res + uint32(rnd.IntN(2))*res
			case p < 14:
				ev.ts = now - uint32(rnd.IntN(200))
			case p < 16:
				ev.ts = now
			case p < 18:
				ev.ts = 0
			default:
				ev.ts = now - uint32(rnd.IntN(4))
			}
			h.emit(ev, rnd.IntN(4) == 0)
		}
		if rnd.IntN(4) == 0 { // a second flush iteration inside the same second
			h.clock = h.clock.Add(time.Duration(100+rnd.IntN(400)) * time.Millisecond)
			h.flush(consumer)
			h.clock = h.clock.Truncate(time.Second).Add(time.Duration(rnd.IntN(100)) * time.Millisecond)
		}
	}
	for cycle := 1 + rnd.IntN(4); cycle > 0; cycle-- {
		stall := rnd.IntN(13)
		// approach: normal operation until the stall would contain (or be just before) a multiple of 60
		startAt := uint32(60-rnd.IntN(stall+5)) % 60
		for guard := 0; guard < 64 && uint32(h.clock.Unix())%60 != startAt; guard++ {
			tick(0, rnd.IntN(2), false)
		}
		h.logf("stall %ds", stall)
		h.w.Count("stalls", 1)
		h.w.Count(fmt.Sprintf("stalls.len_%02d", stall), 1)
		for sec := 0; sec < stall; sec++ {
			tick(2, 6+rnd.IntN(20), true)
		}
		h.sawStall = true
		for rec := 2 + rnd.IntN(8); rec > 0; rec-- { // recovery
			tick(rnd.IntN(2), rnd.IntN(6), true)
		}
	}
}

func (h *c08History) logf(f string, a ...any) {
	if len(h.log) < 4000 {
		h.log = append(h.log, fmt.Sprintf(f, a...))
	}
}

// take everything the shard has queued for the preprocessor (at most one bucket) and record it
func (h *c08History) drain(ai int, shard int) bool {
	ag := h.ag[ai]
	sh := ag.agent.Shards[shard]
	select {
	case b := <-sh.BucketsToPreprocess:
		ag.buckets++
		for _, item := range b.MultiItems {
			if item.Key.Metric == format.BuiltinMetricIDIngestionStatus && item.Key.Tags[2] == format.TagValueIDSrcIngestionStatusOKCached {
				// one "ok" status event (timestamp 0 = now) accompanies every event applied through ApplyMetric, on each of its shards
				ag.statusOK[[2]int{shard, int(item.Key.Tags[1])}] += item.Tail.Value.Count()
				continue
			}
			if item.Key.Metric < 100 || item.Key.Metric >= 100+int32(len(h.metas)) {
				continue // self-metrics of the agent
			}
			gid := item.Key.Tags[1]
			evs := h.byGroup[gid]
			total := item.Tail.Value.Count()
			for _, v := range item.Top {
				total += v.Value.Count()
			}
			c := total
			if c != math.Trunc(c) || c < 1 || c >= math.Pow(4, float64(len(evs))) || evs == nil {
				ag.corrupt = append(ag.corrupt, fmt.Sprintf("shard %d bucket %d row gid=%d ts=%d count=%v", shard, b.Time, gid, item.Key.Timestamp, c))
				continue
			}
			n := int64(c)
			for k := 0; n != 0; k++ {
				if d := int(n % 4); d != 0 {
					key := [2]int{evs[k].idx, shard}
					ag.delivered[key] = append(ag.delivered[key], c08Delivery{shard: shard, bucketTime: b.Time, rowTs: item.Key.Timestamp, mult: d, inTail: item.Tail.Value.Count() > 0})
				}
				n /= 4
			}
		}
		if b.Time <= ag.lastTime[shard] {
			h.w.Count("buckets.time_not_increasing(info)", 1)
		}
		ag.lastTime[shard] = b.Time
		return true
	default:
		return false
	}
}

func (h *c08History) states(ai int) []c08ShardState {
	out := make([]c08ShardState, h.nShards)
	for i, sh := range h.ag[ai].agent.Shards {
		sh.mu.Lock()
		out[i] = c08ShardState{cur: sh.CurrentTime, send: sh.SendTime, stopped: sh.stopReceivingIncomingData}
		sh.mu.Unlock()
	}
	return out
}

func (h *c08History) send(ev *c08Event) {
	for ai := 0; ai < 2; ai++ {
		ag := h.ag[ai].agent
		if ev.kind >= 3 { // the helpers built-in metrics and the aggregator use: no mapping, timestamp 0 means "now"
			tags := []int32{0, ev.group}
			cnt := math.Pow(4, float64(ev.digit))
			kc := data_model.Key{Timestamp: ev.ts, Metric: ev.meta.MetricID}
			copy(kc.Tags[:], tags)
			var stags []string
			if ev.kind == 6 {
				stags = []string{2: ev.a, 3: ev.b}
				for i, st := range stags { // what Agent.fillKey does
					if st != "" {
						if v, ok := ag.mappingsCache.GetValue(ev.ts, st); ok {
							kc.Tags[i] = v
						} else {
							kc.STags[i] = st
						}
					}
				}
			}
			s1, _, s2 := ag.shard(&kc, ev.meta, nil)
			ev.tgt[ai] = [2]int{s1.ShardNum, -1}
			if s2 != nil {
				ev.tgt[ai][1] = s2.ShardNum
			}
			ev.pre[ai] = h.states(ai)
			switch ev.kind {
			case 3:
				ag.AddCounter(ev.ts, ev.meta, tags, cnt)
			case 4:
				ag.AddValueCounter(ev.ts, ev.meta, tags, float64(ev.idx%5), cnt)
			case 5:
				iv := data_model.SimpleItemCounter(cnt, data_model.TagUnion{})
				if ev.idx%2 == 0 {
					iv = data_model.SimpleItemValue(float64(ev.idx%9), cnt, data_model.TagUnion{})
				}
				ag.MergeItemValue(ev.ts, ev.meta, tags, &iv)
			default:
				ag.AddCounterS(ev.ts, ev.meta, tags, stags, cnt)
			}
			continue
		}
		tags := []tl.DictFieldStringStringBytes{
			{Key: []byte("gid"), Value: []byte(strconv.Itoa(int(ev.group)))},
		}
		if ev.a != "" {
			tags = append(tags, tl.DictFieldStringStringBytes{Key: []byte("a"), Value: []byte(ev.a)})
		}
		if ev.b != "" {
			tags = append(tags, tl.DictFieldStringStringBytes{Key: []byte("3"), Value: []byte(ev.b)})
		}
		if ev.host != "" {
			tags = append(tags, tl.DictFieldStringStringBytes{Key: []byte("_h"), Value: []byte(ev.host)})
		}
		if ev.top != "" {
			tags = append(tags, tl.DictFieldStringStringBytes{Key: []byte("_s"), Value: []byte(ev.top)})
		}
		if ai == 1 { // other tag order, canonical instead of custom names
			for i, j := 0, len(tags)-1; i < j; i, j = i+1, j-1 {
				tags[i], tags[j] = tags[j], tags[i]
			}
			for i := range tags {
				switch string(tags[i].Key) {
				case "gid":
					tags[i].Key = []byte("1")
				case "a":
					tags[i].Key = []byte("2")
				case "3":
					tags[i].Key = []byte("b")
				}
			}
		}
		m := tlstatshouse.MetricBytes{Name: []byte(ev.meta.Name), Tags: tags, Ts: ev.ts}
		cnt := math.Pow(4, float64(ev.digit))
		switch ev.kind {
		case 0:
			m.Counter = cnt
		case 1:
			m.Counter = cnt
			m.Value = []float64{float64(ev.idx % 7)}
		default:
			m.Counter = cnt
			m.Unique = []int64{int64(ev.idx)}
		}
		var hd data_model.MappedMetricHeader
		hd.ReceiveTime = h.clock
		if m.Ts != 0 {
			hd.Key.Timestamp = m.Ts
		} else if !ev.nowTs {
			hd.Key.Timestamp = uint32(h.clock.Unix())
		}
		hd.MetricMeta = ev.meta
		hd.Key.Metric = ev.meta.MetricID
		var scratch []byte
		ag.Map(data_model.HandlerArgs{MetricBytes: &m, Scratch: &scratch}, &hd, nil)
		if hd.IngestionStatus != 0 {
			h.r.Violation("C08/harness/event-rejected", "generated event was rejected by mapping", map[string]any{"status": hd.IngestionStatus, "event": fmt.Sprintf("%+v", ev)})
			continue
		}
		// routing (deterministic, pure): which shards will be asked
		kc := hd.Key
		s1, ok1, s2 := ag.shard(&kc, ev.meta, nil)
		ev.tgt[ai] = [2]int{-1, -1}
		if ok1 {
			ev.tgt[ai][0] = s1.ShardNum
		}
		if s2 != nil {
			ev.tgt[ai][1] = s2.ShardNum
		}
		ev.pre[ai] = h.states(ai)
		ag.ApplyMetric(&m, &hd, &scratch)
	}
}

func (h *c08History) flush(consumer int) {
	for ai := 0; ai < 2; ai++ {
		ag := h.ag[ai]
		ag.agent.goFlushIteration(h.clock)
		switch consumer {
		case 0: // fast consumer: takes buckets as fast as the flusher retries
			for it := 0; it < 600; it++ {
				any := false
				for s := 0; s < h.nShards; s++ {
					any = h.drain(ai, s) || any
				}
				if !any {
					break
				}
				ag.agent.goFlushIteration(h.clock)
			}
		case 1: // slow consumer: one bucket per flush iteration
			for s := 0; s < h.nShards; s++ {
				h.drain(ai, s)
			}
		default: // stalled
		}
	}
}

func TestVerifC08(t *testing.T) {
	r := verifkit.Start(t, "C08", "agent")
	defer r.Finish()
	r.SetRule("one case = one history: 2 agents (mapping cache full vs empty/partial, tag order and tag names differ) x 1-3 shards, 60-400 steps of {event, flush iteration with clock step 0..400 s, consumer step}, 10 metrics (resolutions 1,2,5,10,15,30,60; fixed/by-metric/by-tags-hash sharding; three with a secondary shard whose start is long ago / mid-history / in the future; 1/4 of the events go through the direct helpers AddCounter, AddValueCounter, MergeItemValue, AddCounterS; events and the accompanying status events also arrive with timestamp 0 = now), shutdown + full flush at the end; every 5th history starts with 1-4 systematic consumer stalls of 0..12 s (flusher ticking each second, events of mostly low-resolution metrics with future and resolution-aligned timestamps arriving during the stall, a multiple of 60 placed inside the stall). Non-trivial = the history delivered >= 10 events and contained a late event, a low-resolution event and (a clock jump > 125 s or a receive-queue gap or a stalled consumer); distinct = distinct operation log.")
	if c08RingSlack != 5 {
		r.Assume(fmt.Sprintf("ring slack derived from the package constants is %d (5 at the pinned commit)", c08RingSlack))
	}
	n := r.N(1600, 80000)
	workers := 8
	if r.Thorough() {
		workers = 16
	}
	r.Parallel(workers, "histories", func(w *verifkit.Worker) {
		for i := 0; i < n/workers; i++ {
			c08RunHistory(r, w, w.Index*10000000+i)
		}
	})
}

func c08RunHistory(r *verifkit.Run, w *verifkit.Worker, idx int) {
	rnd := w.Rnd
	h := &c08History{r: r, w: w, nShards: 1 + rnd.IntN(3), byGroup: map[int32][]*c08Event{}}
	h.t0 = uint32(1_700_000_000 + rnd.IntN(1<<22))
	h.clock = time.Unix(int64(h.t0), int64(rnd.IntN(1000))*1e6)
	h.metas = c08Metas(h.nShards, h.t0, rnd)
	full := map[string]int32{}
	for i, s := range c08Strings {
		full[s] = int32(1000 + i)
	}
	partial := map[string]int32{}
	if rnd.IntN(2) == 0 {
		for i, s := range c08Strings {
			if rnd.IntN(2) == 0 {
				partial[s] = int32(1000 + i)
			}
		}
	}
	seed := rnd.Uint64()
	h.ag[0] = c08NewAgent(h.nShards, h.t0, seed, full)
	h.ag[1] = c08NewAgent(h.nShards, h.t0, seed+17, partial)
	h.logf("shards=%d t0=%d partial=%d", h.nShards, h.t0, len(partial))

	steps := 60 + rnd.IntN(340)
	h.nextGroup = 1
	if rnd.IntN(5) == 0 { // systematic consumer-stall shape, then a short generic tail
		h.logf("profile=stall")
		h.stallCycles()
		steps = 10 + rnd.IntN(40)
	}
	stopAt := steps - rnd.IntN(12)
	consumerMode := rnd.IntN(4) // 0 mostly fast, 1 mostly slow, 2 mixed, 3 with stalls
	profile := rnd.IntN(10)     // 0-2 calm (normal operation), 3-6 mixed (rare jumps), 7-9 hostile
	if profile < 3 {
		consumerMode = 0
	}
	h.logf("profile=%d consumerMode=%d", profile, consumerMode)
	for st := 0; st < steps; st++ {
		if st == stopAt {
			for ai := 0; ai < 2; ai++ {
				for _, sh := range h.ag[ai].agent.Shards {
					sh.StopReceivingIncomingData()
				}
			}
			h.logf("stop")
		}
		switch op := rnd.IntN(10); {
		case op < 6: // event
			ev := &c08Event{idx: len(h.events), meta: h.metas[rnd.IntN(len(h.metas))], kind: c08Kind(rnd), nowTs: rnd.IntN(2) == 0, clockMs: h.clock.UnixMilli()}
			now := uint32(h.clock.Unix())
			switch rnd.IntN(11) {
			case 0:
				ev.ts = 0
			case 1, 2, 3:
				ev.ts = now
			case 4:
				ev.ts = now - 1 - uint32(rnd.IntN(3))
			case 5:
				ev.ts = now + 1 + uint32(rnd.IntN(10))
			case 6:
				ev.ts = now - uint32(rnd.IntN(200))
			case 7:
				ev.ts = now - uint32(rnd.IntN(8))
			case 8:
				ev.ts = now - 59 - uint32(rnd.IntN(70))
			case 9: // exact multiple of the metric's resolution around now (rounds to itself)
				res := uint32(ev.meta.EffectiveResolution)
				ev.ts = (now+uint32(rnd.IntN(8)))/res*res + uint32(rnd.IntN(2))*res
			default:
				ev.ts = now + uint32(rnd.IntN(14)) - 7
			}
			h.emit(ev, true)
		case op < 9: // flush iteration after a clock step
			var d time.Duration
			pick := rnd.IntN(16)
			if profile < 3 && pick >= 10 || profile < 7 && pick >= 12 && rnd.IntN(10) != 0 {
				pick = 1 + rnd.IntN(9)
			}
			switch pick {
			case 0:
				d = 0
			case 1, 2, 3:
				d = 100 * time.Millisecond
			case 4, 5:
				d = time.Duration(200+rnd.IntN(700)) * time.Millisecond
			case 6, 7, 8:
				d = time.Second
			case 9:
				d = data_model.AgentWindow
			case 10, 11:
				d = time.Duration(2+rnd.IntN(5)) * time.Second
			case 12:
				d = time.Duration(6+rnd.IntN(60)) * time.Second
			case 13:
				d = time.Duration(120+rnd.IntN(20)) * time.Second
			case 14:
				d = time.Duration(250+rnd.IntN(200)) * time.Second
			default:
				d = time.Duration(rnd.IntN(3000)) * time.Millisecond
			}
			if d > 125*time.Second {
				h.sawJump = true
			}
			h.clock = h.clock.Add(d)
			consumer := 0
			switch consumerMode {
			case 1:
				consumer = 1
			case 2:
				consumer = rnd.IntN(2)
			case 3:
				consumer = rnd.IntN(3)
			}
			if consumer == 2 {
				h.sawStall = true
			}
			h.flush(consumer)
			h.logf("flush +%v consumer=%d", d, consumer)
			w.Count("flush_iterations", 2)
		default: // consumer step
			for ai := 0; ai < 2; ai++ {
				for s := 0; s < h.nShards; s++ {
					h.drain(ai, s)
				}
			}
			h.logf("consume")
		}
	}
	// shutdown: flush the whole ring like Agent.FlushAllData does
	for ai := 0; ai < 2; ai++ {
		for s := 0; s < h.nShards; s++ {
			h.drain(ai, s)
		}
		for i := 0; i < superQueueLen; i++ {
			for s, sh := range h.ag[ai].agent.Shards {
				sh.FlushAllDataSingleStep(false)
				h.drain(ai, s)
			}
		}
	}
	c08Judge(h, idx)
}

func c08Kind(rnd interface{ IntN(int) int }) int {
	if rnd.IntN(4) == 0 {
		return 3 + rnd.IntN(4)
	}
	return rnd.IntN(3)
}

func c08Clamp(ts uint32, clockUnix uint32, cur uint32) uint32 {
	if ts == 0 {
		ts = clockUnix // what the receiver (cmd/statshouse worker) puts in for events without a timestamp
	}
	if ts > cur+superQueueFutureSlots {
		ts = cur + superQueueFutureSlots
	}
	return ts
}

func c08Judge(h *c08History, idx int) {
	r, w := h.r, h.w
	wit := func(ev *c08Event, ai int, extra map[string]any) map[string]any {
		m := map[string]any{"history": idx, "agent": []string{"A(cache full)", "B(cache empty/partial, tags reordered)"}[ai], "log": h.log}
		if ev != nil {
			m["event"] = fmt.Sprintf("ev%d group=%d digit=%d metric=%d res=%d ts=%d kind=%d a=%q b=%q shard2=%d@%d", ev.idx, ev.group, ev.digit, ev.meta.MetricID,
				ev.meta.EffectiveResolution, ev.ts, ev.kind, ev.a, ev.b, ev.meta.ShardFixedKey2, ev.meta.ShardFixedKey2Timestamp)
			m["shard_states_before_call"] = fmt.Sprintf("%+v", ev.pre[ai])
			m["targets"] = ev.tgt[ai]
		}
		for k, v := range extra {
			m[k] = v
		}
		return m
	}
	delivered, late, lowres := 0, 0, 0
	type place struct {
		ok     bool
		second uint32
	}
	inWindow := make([][2]place, len(h.events))
	for ai := 0; ai < 2; ai++ {
		ag := h.ag[ai]
		for _, c := range ag.corrupt {
			r.Violation("C08/row-count/not-a-sum-of-accepted-events", "a delivered row's count is not a sum of distinct accepted events of its series", wit(nil, ai, map[string]any{"row": c}))
		}
		for _, ev := range h.events {
			res := uint32(ev.meta.EffectiveResolution)
			clockUnix := uint32(ev.clockMs / 1000)
			for which := 0; which < 2; which++ {
				shard := ev.tgt[ai][which]
				if shard < 0 {
					continue
				}
				pre := ev.pre[ai][shard]
				base := clockUnix
				if ev.kind >= 3 || ev.nowTs {
					base = pre.cur // no explicit timestamp = stamped with the agent's current time
				}
				cl := c08Clamp(ev.ts, base, pre.cur)
				rounded := cl / res * res
				gap := int64(pre.cur)-int64(pre.send) > c08RingSlack
				if gap {
					h.sawGap = true
				}
				beforeStart := which == 1 && rounded < ev.meta.ShardFixedKey2Timestamp
				dropAllowed := gap || pre.stopped || beforeStart
				ds := ag.delivered[[2]int{ev.idx, shard}]
				total := 0
				for _, d := range ds {
					total += d.mult
				}
				cls := fmt.Sprintf("res%s/%s", map[bool]string{true: "1", false: "N"}[res == 1], []string{"primary", "secondary"}[which])
				w.Count("events.judged", 1)
				switch {
				case total == 0 && !dropAllowed:
					r.Violation("C08/lost/"+cls, "accepted event was never delivered to sending (no gap, not stopped, not before the secondary shard's start)", wit(ev, ai, map[string]any{"shard": shard, "clamped_ts": cl}))
					continue
				case total == 0:
					switch {
					case pre.stopped:
						w.Count("events.dropped_after_stop", 1)
					case gap:
						w.Count("events.dropped_in_gap", 1)
					default:
						w.Count("events.dropped_before_secondary_start", 1)
					}
					continue
				case total > 1:
					r.Violation("C08/duplicate/"+cls, fmt.Sprintf("event delivered %d times", total), wit(ev, ai, map[string]any{"shard": shard, "deliveries": fmt.Sprintf("%+v", ds)}))
					continue
				}
				if dropAllowed {
					// the statement allows the drop, it does not demand it
					r.NotJudged("delivered_although_drop_was_allowed", 1)
					if beforeStart && !gap && !pre.stopped {
						w.Count("events.delivered_before_secondary_start(info)", 1)
					}
				}
				d := ds[0]
				delivered++
				if ev.top != "" { // outside this property, recorded only: does the string-top value survive on each shard?
					if d.inTail {
						w.Count(fmt.Sprintf("info.string_top_value_in_tail.%s", []string{"primary", "secondary"}[which]), 1)
					} else {
						w.Count(fmt.Sprintf("info.string_top_value_kept.%s", []string{"primary", "secondary"}[which]), 1)
					}
				}
				if d.bucketTime < cl {
					r.Violation("C08/bucket-before-timestamp/"+cls, fmt.Sprintf("event with clamped timestamp %d delivered in bucket %d", cl, d.bucketTime), wit(ev, ai, map[string]any{"shard": shard, "delivery": fmt.Sprintf("%+v", d)}))
				}
				if d.rowTs != rounded {
					key := "C08/row-timestamp/not-rounded-down"
					if res == 1 || d.rowTs%res == 0 {
						key = "C08/row-timestamp/not-the-clamped-timestamp"
					}
					r.Violation(key, fmt.Sprintf("row timestamp %d, expected floor(clamp(ts)=%d / %d)*%d = %d", d.rowTs, cl, res, res, rounded), wit(ev, ai, map[string]any{"shard": shard, "delivery": fmt.Sprintf("%+v", d)}))
				}
				if d.rowTs > d.bucketTime {
					r.Violation("C08/row-timestamp/after-bucket", "row timestamp is later than the bucket it is sent in", wit(ev, ai, map[string]any{"shard": shard, "delivery": fmt.Sprintf("%+v", d)}))
				}
				// non-late rows sit in [rounded, rounded] (r == 1) or [rounded+r, rounded+2r) (r > 1); a late row is moved by whole multiples of r
				lo, hi := rounded, rounded
				if res > 1 {
					lo, hi = rounded+res, rounded+2*res-1
					lowres++
				}
				if d.bucketTime >= lo && d.bucketTime <= hi {
					if which == 0 {
						inWindow[ev.idx][ai] = place{true, d.bucketTime}
					}
				} else {
					late++
					w.Count("events.late", 1)
				}
			}
		}
	}
	// "ingestion status ok" events (timestamp 0 = now) that ApplyMetric adds on the primary and the secondary shard
	for ai := 0; ai < 2; ai++ {
		must, may := map[[2]int]float64{}, map[[2]int]float64{}
		for _, ev := range h.events {
			if ev.kind >= 3 {
				continue
			}
			for which := 0; which < 2; which++ {
				shard := ev.tgt[ai][which]
				if shard < 0 {
					continue
				}
				pre := ev.pre[ai][shard]
				k := [2]int{shard, int(ev.meta.MetricID)}
				gap := int64(pre.cur)-int64(pre.send) > c08RingSlack
				if gap || pre.stopped || which == 1 && pre.cur < ev.meta.ShardFixedKey2Timestamp {
					may[k]++
				} else {
					must[k]++
				}
			}
		}
		for k, mu := range must {
			got := h.ag[ai].statusOK[k]
			meta := h.metas[k[1]-100]
			cls := "primary"
			if meta.ShardFixedKey2 > 0 && int(meta.ShardFixedKey2)-1 == k[0] {
				cls = "secondary"
			}
			w.Count("status_events.judged", int64(mu+may[k]))
			if got < mu {
				r.Violation("C08/lost/status-event-without-timestamp/"+cls, fmt.Sprintf("%v of %v accepted status events (timestamp 0 = now) of metric %d were never delivered on shard %d", mu-got, mu, k[1], k[0]),
					wit(nil, ai, map[string]any{"shard": k[0], "metric": k[1], "shard2": meta.ShardFixedKey2, "shard2_timestamp": meta.ShardFixedKey2Timestamp, "t0": h.t0, "delivered": got, "must": mu, "may": may[k]}))
			} else if got > mu+may[k] {
				r.Violation("C08/duplicate/status-event-without-timestamp/"+cls, fmt.Sprintf("%v status events delivered, at most %v were sent", got, mu+may[k]), wit(nil, ai, map[string]any{"shard": k[0], "metric": k[1]}))
			}
		}
	}
	for _, ev := range h.events {
		a, b := inWindow[ev.idx][0], inWindow[ev.idx][1]
		if a.ok && b.ok {
			w.Count("events.cross_agent_compared", 1)
			if a.second != b.second {
				r.Violation("C08/cross-agent/send-second-depends-on-cache-or-tag-order", fmt.Sprintf("same non-late event sent in second %d by agent A and %d by agent B", a.second, b.second), wit(ev, 0, nil))
			}
		} else if a.ok != b.ok {
			w.Count("events.late_on_one_agent_only(info)", 1)
		}
	}
	w.Count("events.delivered", int64(delivered))
	w.Count("buckets.delivered", int64(h.ag[0].buckets+h.ag[1].buckets))
	if h.sawJump {
		w.Count("histories.with_clock_jump", 1)
	}
	if h.sawGap {
		w.Count("histories.with_gap", 1)
	}
	nontrivial := delivered >= 10 && late > 0 && lowres > 0 && (h.sawJump || h.sawGap || h.sawStall)
	w.Case(nontrivial, strings.Join(h.log, ";"))
	if r.WantSample() {
		lg := h.log
		if len(lg) > 60 {
			lg = lg[:60]
		}
		r.Sample(map[string]any{"history": idx, "events": len(h.events), "delivered": delivered, "late": late, "log_head": lg})
	}
}
