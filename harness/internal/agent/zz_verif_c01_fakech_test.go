//go:build verif

package agent

// C01 — fake ClickHouse: one HTTP listener per aggregator replica (so that a request
// identifies its sender), an independent RowBinary reader of statshouse_v3_incoming
// bodies, and a fault plan that is armed by the scenario schedule.

import (
	"encoding/binary"
	"fmt"
	"io"
	"math"
	"net"
	"net/http"
	"strings"
	"sync"
	"time"
)

const c01MarkerMetric = 777

// ---- independent RowBinary reader (written from the table description, not from the
// aggregator's append* functions): index_type u8, metric i32, time u32, 48×(tag u32,
// stag string), count,max_count,min,max,sum,sumsquare f64, percentiles (uvarint n, n×(f32,f32)),
// uniq_state (u8 skip degree, uvarint n, n×u32), 3×argMinMax state (i32 len|-1, bytes, u8 has, [f32]).

type c01Row struct {
	metric int32
	time   uint32
	tag1   uint32
	tag2   uint32
	count  float64
}

type c01Reader struct {
	b   []byte
	pos int
	err error
}

func (r *c01Reader) n(k int) []byte {
	if r.err != nil || k < 0 || r.pos+k > len(r.b) {
		if r.err == nil {
			r.err = fmt.Errorf("short read of %d bytes at %d/%d", k, r.pos, len(r.b))
		}
		return make([]byte, max(k, 0))
	}
	o := r.b[r.pos : r.pos+k]
	r.pos += k
	return o
}
func (r *c01Reader) u32() uint32  { return binary.LittleEndian.Uint32(r.n(4)) }
func (r *c01Reader) f64() float64 { return math.Float64frombits(binary.LittleEndian.Uint64(r.n(8))) }
func (r *c01Reader) uv() int {
	if r.err != nil {
		return 0
	}
	v, k := binary.Uvarint(r.b[r.pos:])
	if k <= 0 || v > uint64(len(r.b)) {
		r.err = fmt.Errorf("bad uvarint at %d", r.pos)
		return 0
	}
	r.pos += k
	return int(v)
}

func c01ParseBody(b []byte) (rows []c01Row, err error) {
	r := &c01Reader{b: b}
	for r.pos < len(b) && r.err == nil {
		var row c01Row
		if it := r.n(1)[0]; it != 0 {
			return rows, fmt.Errorf("index_type %d at %d", it, r.pos)
		}
		row.metric = int32(r.u32())
		row.time = r.u32()
		for i := 0; i < 48; i++ {
			v := r.u32()
			r.n(r.uv())
			if i == 1 {
				row.tag1 = v
			}
			if i == 2 {
				row.tag2 = v
			}
		}
		row.count = r.f64()
		r.n(5 * 8)
		r.n(8 * r.uv()) // centroids
		r.n(1)          // uniq skip degree
		r.n(4 * r.uv()) // uniq items
		for h := 0; h < 3; h++ {
			if l := r.u32(); l != 0xffffffff {
				r.n(int(l))
			}
			if r.n(1)[0] != 0 {
				r.n(4)
			}
		}
		if r.err != nil {
			return rows, r.err
		}
		rows = append(rows, row)
	}
	return rows, r.err
}

// ---- fault plan

type c01ChFaultKind string

const (
	c01Ch500Before  c01ChFaultKind = "500-before" // status 500 without reading the body
	c01Ch500After   c01ChFaultKind = "500-after"  // body read, status 500 (nothing inserted)
	c01ChLostAfter  c01ChFaultKind = "lost-after" // body read (insert happened), connection closed without a response
	c01ChDelay      c01ChFaultKind = "delay"      // body read, answer 200 after a delay
	c01ChKillMid    c01ChFaultKind = "kill-mid"   // half of the body read, sender SIGKILLed (insert did not happen)
	c01ChKillAfter  c01ChFaultKind = "kill-after" // body read (insert happened), sender SIGKILLed before the response
	c01ChCutAfter   c01ChFaultKind = "cut-after"  // body read (insert happened), agent<->replica connections cut, then 200
	c01ChOutcome200 c01ChFaultKind = "200"
)

type c01ChArm struct {
	kind    c01ChFaultKind
	replica int // 0..2, -1 = any
	left    int
	delay   time.Duration
	hook    func(replica int) // kill / cut hooks, called synchronously
}

type c01Insert struct {
	Seq      int                  `json:"seq"`
	Replica  int                  `json:"replica"`
	AtMs     int64                `json:"at_ms"`
	Outcome  string               `json:"outcome"`
	Complete bool                 `json:"complete"` // rows are durable in the model ClickHouse
	Rows     int                  `json:"rows"`
	Bytes    int                  `json:"bytes"`
	Markers  map[int]float64      `json:"-"`
	Builtin  map[[2]int32]float64 `json:"-"` // (metric, tag1) -> Σcount of selected built-in rows
}

type c01FakeCH struct {
	t0           time.Time
	mu           sync.Mutex
	seq          int
	inserts      []*c01Insert
	arms         []*c01ChArm
	healed       bool
	other        int // non-v3 requests
	decodeErrors []string
	effective    map[c01ChFaultKind]int
	lns          []net.Listener
	srvs         []*http.Server
	addrs        []string
	watchBuiltin map[int32]bool
}

func c01NewFakeCH(watchBuiltin map[int32]bool) (*c01FakeCH, error) {
	ch := &c01FakeCH{t0: time.Now(), effective: map[c01ChFaultKind]int{}, watchBuiltin: watchBuiltin}
	for i := 0; i < 3; i++ {
		ln, err := net.Listen("tcp4", "127.0.0.1:0")
		if err != nil {
			ch.Close()
			return nil, err
		}
		replica := i
		srv := &http.Server{Handler: http.HandlerFunc(func(w http.ResponseWriter, r *http.Request) { ch.handle(replica, w, r) })}
		ch.lns = append(ch.lns, ln)
		ch.srvs = append(ch.srvs, srv)
		ch.addrs = append(ch.addrs, ln.Addr().String())
		go func() { _ = srv.Serve(ln) }()
	}
	return ch, nil
}

func (ch *c01FakeCH) Close() {
	for _, s := range ch.srvs {
		_ = s.Close()
	}
	for _, l := range ch.lns {
		_ = l.Close()
	}
}

func (ch *c01FakeCH) arm(a *c01ChArm) {
	ch.mu.Lock()
	ch.arms = append(ch.arms, a)
	ch.mu.Unlock()
}

func (ch *c01FakeCH) heal() {
	ch.mu.Lock()
	ch.healed = true
	ch.arms = nil
	ch.mu.Unlock()
}

// take picks the first armed fault for this replica.  needMarkers: faults that are only
// meaningful on a body carrying marker rows stay armed until such a body arrives.
func (ch *c01FakeCH) take(replica int, pre bool, hasMarkers bool) *c01ChArm {
	ch.mu.Lock()
	defer ch.mu.Unlock()
	if ch.healed {
		return nil
	}
	for i, a := range ch.arms {
		if a.replica >= 0 && a.replica != replica {
			continue
		}
		isPre := a.kind == c01Ch500Before || a.kind == c01ChKillMid
		if isPre != pre {
			continue
		}
		if !pre && !hasMarkers {
			continue
		}
		a.left--
		if a.left <= 0 {
			ch.arms = append(ch.arms[:i:i], ch.arms[i+1:]...)
		}
		ch.effective[a.kind]++
		return a
	}
	return nil
}

func (ch *c01FakeCH) record(in *c01Insert) {
	ch.mu.Lock()
	ch.seq++
	in.Seq = ch.seq
	in.AtMs = time.Since(ch.t0).Milliseconds()
	ch.inserts = append(ch.inserts, in)
	ch.mu.Unlock()
}

func (ch *c01FakeCH) handle(replica int, w http.ResponseWriter, r *http.Request) {
	if !strings.Contains(r.URL.RawQuery, "statshouse_v3_incoming") {
		_, _ = io.Copy(io.Discard, r.Body)
		ch.mu.Lock()
		ch.other++
		ch.mu.Unlock()
		w.WriteHeader(200)
		return
	}
	in := &c01Insert{Replica: replica}
	if a := ch.take(replica, true, false); a != nil {
		switch a.kind {
		case c01Ch500Before:
			in.Outcome = string(a.kind)
			ch.record(in)
			w.Header().Set("Connection", "close")
			w.Header().Set("X-ClickHouse-Exception-Code", "241")
			w.WriteHeader(500)
			_, _ = w.Write([]byte("Code: 241. DB::Exception: verif fault before reading the body"))
			return
		case c01ChKillMid:
			half := make([]byte, r.ContentLength/2)
			n, _ := io.ReadFull(r.Body, half)
			if a.hook != nil {
				a.hook(replica)
			}
			rest, err := io.ReadAll(r.Body)
			in.Bytes = n + len(rest)
			if err == nil && r.ContentLength >= 0 && int64(in.Bytes) == r.ContentLength {
				// the whole body was already in flight when the sender died: a real
				// ClickHouse would complete this insert
				ch.finish(in, append(half[:n], rest...), string(a.kind)+"+complete", true)
			} else {
				in.Outcome = string(a.kind)
				ch.record(in)
			}
			c01HijackClose(w)
			return
		}
	}
	body, err := io.ReadAll(r.Body)
	in.Bytes = len(body)
	if err != nil || (r.ContentLength >= 0 && int64(len(body)) != r.ContentLength) {
		in.Outcome = "aborted-body"
		ch.record(in)
		c01HijackClose(w)
		return
	}
	rows, perr := c01ParseBody(body)
	if perr != nil {
		ch.mu.Lock()
		ch.decodeErrors = append(ch.decodeErrors, fmt.Sprintf("replica %d body %d bytes, %d rows ok: %v", replica, len(body), len(rows), perr))
		ch.mu.Unlock()
	}
	ch.fill(in, rows)
	a := ch.take(replica, false, len(in.Markers) != 0)
	if a == nil {
		in.Outcome, in.Complete = "200", true
		ch.record(in)
		w.WriteHeader(200)
		return
	}
	in.Outcome = string(a.kind)
	switch a.kind {
	case c01Ch500After:
		ch.record(in)
		w.Header().Set("X-ClickHouse-Exception-Code", "252")
		w.WriteHeader(500)
		_, _ = w.Write([]byte("Code: 252. DB::Exception: verif fault after reading the body"))
	case c01ChLostAfter:
		in.Complete = true
		ch.record(in)
		c01HijackClose(w)
	case c01ChDelay:
		in.Complete = true
		ch.record(in)
		time.Sleep(a.delay)
		w.WriteHeader(200)
	case c01ChKillAfter:
		in.Complete = true
		ch.record(in)
		if a.hook != nil {
			a.hook(replica)
		}
		c01HijackClose(w)
	case c01ChCutAfter:
		in.Complete = true
		ch.record(in)
		if a.hook != nil {
			a.hook(replica)
		}
		w.WriteHeader(200)
	default:
		in.Complete = true
		ch.record(in)
		w.WriteHeader(200)
	}
}

func (ch *c01FakeCH) finish(in *c01Insert, body []byte, outcome string, complete bool) {
	rows, perr := c01ParseBody(body)
	if perr != nil {
		ch.mu.Lock()
		ch.decodeErrors = append(ch.decodeErrors, fmt.Sprintf("replica %d body %d bytes: %v", in.Replica, len(body), perr))
		ch.mu.Unlock()
	}
	ch.fill(in, rows)
	in.Outcome, in.Complete = outcome, complete
	ch.record(in)
}

func (ch *c01FakeCH) fill(in *c01Insert, rows []c01Row) {
	in.Rows = len(rows)
	for _, row := range rows {
		if row.metric == c01MarkerMetric {
			if in.Markers == nil {
				in.Markers = map[int]float64{}
			}
			in.Markers[int(row.tag1)] += row.count
		} else if ch.watchBuiltin[row.metric] {
			if in.Builtin == nil {
				in.Builtin = map[[2]int32]float64{}
			}
			in.Builtin[[2]int32{row.metric, int32(row.tag1)}] += row.count
		}
	}
}

func c01HijackClose(w http.ResponseWriter) {
	if hj, ok := w.(http.Hijacker); ok {
		if c, _, err := hj.Hijack(); err == nil {
			if tc, ok := c.(*net.TCPConn); ok {
				_ = tc.SetLinger(0)
			}
			_ = c.Close()
			return
		}
	}
	panic(http.ErrAbortHandler)
}

// snapshot of the insert log (pointers are immutable after record)
func (ch *c01FakeCH) log() []*c01Insert {
	ch.mu.Lock()
	defer ch.mu.Unlock()
	return append([]*c01Insert(nil), ch.inserts...)
}
