//go:build verif

package agent

// C01 — accepted metric data is never silently lost between agent and storage.
// Engine pipeline-e2e: in-process real agent → three cutting/delaying TCP proxies →
// three real statshouse-agg child processes → fault-scheduling fake ClickHouse.
// See DESIGN.md §6 C01.  Files: …_c01_fakech_test.go (model ClickHouse + RowBinary
// reader), …_c01_proxy_test.go (TCP proxy), …_c01_oracle_test.go (event log + oracle).

import (
	"fmt"
	"math/rand/v2"
	"net"
	"os"
	"os/exec"
	"path/filepath"
	"runtime"
	"runtime/debug"
	"sort"
	"strings"
	"sync"
	"sync/atomic"
	"syscall"
	"testing"
	"time"

	"github.com/VKCOM/statshouse/internal/compress"
	"github.com/VKCOM/statshouse/internal/data_model"
	"github.com/VKCOM/statshouse/internal/data_model/gen2/tlstatshouse"
	"github.com/VKCOM/statshouse/internal/format"
	"github.com/VKCOM/statshouse/internal/pcache"
	"github.com/VKCOM/statshouse/internal/zzverif/verifkit"
)

const (
	c01DrainD       = 60 * time.Second // bounded-delivery deadline after healing (DESIGN §6 C01)
	c01DrainGrace   = 60 * time.Second // extension granted only while inserts still make progress
	c01ProgressSpan = 20 * time.Second

	c01StallGap        = 3 * time.Second  // the 250 ms drain loop was not scheduled for this long: the process was frozen
	c01QuietAfterStall = 35 * time.Second // > MaxConveyorDelay (24 s deadline of an in-flight recent send) of normally scheduled time
	c01Cluster         = "verif"
)

// ---------------------------------------------------------------------------------
// child processes: started from one goroutine locked to its OS thread (Pdeathsig is
// bound to the creating thread), registered globally and killed on every exit path.

type c01Child struct {
	cmd    *exec.Cmd
	exited chan struct{}
}

var (
	c01SpawnOnce sync.Once
	c01SpawnCh   chan func()
	c01ChildMu   sync.Mutex
	c01Children  = map[*c01Child]struct{}{}
	c01PortMu    sync.Mutex
	c01PortsUsed = map[int]bool{}
)

func c01Spawn(cmd *exec.Cmd) (*c01Child, error) {
	c01SpawnOnce.Do(func() {
		c01SpawnCh = make(chan func())
		go func() {
			runtime.LockOSThread() // never unlocked: the thread lives as long as the process
			for f := range c01SpawnCh {
				f()
			}
		}()
	})
	cmd.SysProcAttr = &syscall.SysProcAttr{Pdeathsig: syscall.SIGKILL}
	cmd.Env = os.Environ() // GORACE log_path etc. are inherited
	errCh := make(chan error, 1)
	c01SpawnCh <- func() { errCh <- cmd.Start() }
	if err := <-errCh; err != nil {
		return nil, err
	}
	c := &c01Child{cmd: cmd, exited: make(chan struct{})}
	c01ChildMu.Lock()
	c01Children[c] = struct{}{}
	c01ChildMu.Unlock()
	go func() {
		_ = cmd.Wait()
		close(c.exited)
		c01ChildMu.Lock()
		delete(c01Children, c)
		c01ChildMu.Unlock()
	}()
	return c, nil
}

func (c *c01Child) kill() {
	_ = c.cmd.Process.Kill()
	<-c.exited
}

func (c *c01Child) alive() bool {
	select {
	case <-c.exited:
		return false
	default:
		return true
	}
}

func c01KillAllChildren() {
	c01ChildMu.Lock()
	cs := make([]*c01Child, 0, len(c01Children))
	for c := range c01Children {
		cs = append(cs, c)
	}
	c01ChildMu.Unlock()
	for _, c := range cs {
		_ = c.cmd.Process.Kill()
	}
	for _, c := range cs {
		select {
		case <-c.exited:
		case <-time.After(10 * time.Second):
		}
	}
}

// real aggregator ports must stay re-bindable while a replica is down, so they are
// taken below the ephemeral range (an outgoing connection of any process could
// otherwise grab the port of a killed replica); proxies and ClickHouse use :0.
func c01FreePort() (int, error) {
	c01PortMu.Lock()
	defer c01PortMu.Unlock()
	for try := 0; try < 2000; try++ {
		p := 20000 + rand.IntN(12000)
		if c01PortsUsed[p] {
			continue
		}
		ln, err := net.Listen("tcp4", fmt.Sprintf("127.0.0.1:%d", p))
		if err != nil {
			continue
		}
		_ = ln.Close()
		c01PortsUsed[p] = true
		return p, nil
	}
	return 0, fmt.Errorf("no free port found")
}

// ---------------------------------------------------------------------------------
// scenario description and fault schedule (pure function of the seed)

type c01Action struct {
	AtMs    int64  `json:"at_ms"`
	Kind    string `json:"kind"`
	Replica int    `json:"replica"` // 0..2, -1 any
	DurMs   int64  `json:"dur_ms,omitempty"`
	N       int    `json:"n,omitempty"`
}

type c01Scenario struct {
	Name       string   `json:"name"`
	Profile    string   `json:"profile"`
	TrafficSec int      `json:"traffic_sec"`
	Reject     bool     `json:"reject_preseed"`
	AggFlags   []string `json:"agg_flags,omitempty"`
	SaveFirst  bool     `json:"save_seconds_immediately,omitempty"` // agent config: save every second to disk before the first send

	LivenessSuccesses int         `json:"liveness_success,omitempty"` // agent config --liveness-success (default 3 of 5)
	Actions           []c01Action `json:"actions"`
	Mandatory         []string    `json:"-"` // effectiveness classes that must have fired
}

func c01Ms(rnd *rand.Rand, loSec, hiSec float64) int64 {
	return int64((loSec + rnd.Float64()*(hiSec-loSec)) * 1000)
}

// second index i (since t0, t0%3==0) belongs to replica i%3; its recent insert happens
// at about i+6 s.  c01SecondOf picks a second of replica k inside [lo,hi).
func c01SecondOf(rnd *rand.Rand, k, lo, hi int) int {
	for try := 0; try < 100; try++ {
		i := lo + rnd.IntN(max(1, hi-lo))
		if i%3 == k {
			return i
		}
	}
	return lo + (k-lo%3+3)%3
}

func c01BuildScenario(rnd *rand.Rand, profile string, idx int) *c01Scenario {
	sc := &c01Scenario{Name: fmt.Sprintf("%s#%d", profile, idx), Profile: profile}
	add := func(at int64, kind string, replica int, dur int64, n int) {
		sc.Actions = append(sc.Actions, c01Action{AtMs: at, Kind: kind, Replica: replica, DurMs: dur, N: n})
	}
	perm := rnd.Perm(3)
	switch profile {
	case "q-mix", "r-mix":
		sc.TrafficSec = 25
		if profile == "r-mix" {
			sc.TrafficSec = 30
		}
		add(c01Ms(rnd, 2, 6), "ch500a", -1, 0, 1+rnd.IntN(2))
		add(c01Ms(rnd, 6, 9), "swallow", perm[0], c01Ms(rnd, 6.5, 8), 0)
		add(c01Ms(rnd, 8, 14), "kill", perm[1], c01Ms(rnd, 2, 5), 0)
		add(c01Ms(rnd, 5, 12), "pxdelay", perm[2], c01Ms(rnd, 7, 8.5), 0)
		add(c01Ms(rnd, 12, 18), "chlost", -1, 0, 1)
		if rnd.IntN(2) == 0 {
			add(c01Ms(rnd, 14, 20), "ch500b", -1, 0, 1)
		} else {
			add(c01Ms(rnd, 15, 21), "cut", rnd.IntN(3), 0, 0)
		}
		sc.Mandatory = []string{"failed-insert", "cut", "kill", "keep"}
	case "q-restart", "t-restart", "r-restart":
		sc.TrafficSec = 25
		sc.Reject = true
		add(c01Ms(rnd, 1, 4), "ch500a", -1, 0, 1)
		add(c01Ms(rnd, 3, 8), "cut", rnd.IntN(3), 0, 0)
		add(c01Ms(rnd, 9, 13), "agent-restart", -1, 0, 0)
		add(c01Ms(rnd, 14, 17), "chkillafter", perm[0], c01Ms(rnd, 2, 4), 1)
		sc.SaveFirst = profile == "r-restart"
		if profile == "t-restart" {
			sc.TrafficSec = 50
			add(c01Ms(rnd, 30, 36), "agent-restart", -1, 0, 0)
			add(c01Ms(rnd, 24, 30), "swallow", perm[1], c01Ms(rnd, 6.5, 8), 0)
			add(c01Ms(rnd, 38, 44), "chlost", -1, 0, 1)
		}
		sc.Mandatory = []string{"failed-insert", "cut", "kill", "agent-restart"}
	case "t-mix":
		sc.TrafficSec = 45
		sc.SaveFirst = idx%2 == 1
		kinds := []string{"ch500b", "ch500a", "chlost", "chdelay", "chkillmid", "chkillafter", "chcutafter", "cut", "swallow", "pxdelay", "pxdown", "kill", "sigint"}
		for n := 0; n < 10; n++ {
			k := kinds[rnd.IntN(len(kinds))]
			at := c01Ms(rnd, 2, float64(sc.TrafficSec-6))
			rep := rnd.IntN(3)
			switch k {
			case "ch500b", "ch500a", "chlost":
				add(at, k, rep-rnd.IntN(2)*(rep+1), 0, 1+rnd.IntN(2)) // targeted or any (-1)
			case "chdelay":
				add(at, k, -1, c01Ms(rnd, 1, 4), 1+rnd.IntN(2))
			case "chkillmid", "chkillafter":
				add(at, k, rep, c01Ms(rnd, 1, 6), 1)
			case "chcutafter":
				add(at, k, rep, 0, 1)
			case "cut":
				add(at, k, rep, 0, 0)
			case "swallow":
				add(at, k, rep, c01Ms(rnd, 2, 8), 0)
			case "pxdelay":
				add(at, k, rep, c01Ms(rnd, 5.5, 9), 0)
			case "pxdown":
				add(at, k, rep, c01Ms(rnd, 3, 8), 0)
			case "kill":
				add(at, k, rep, c01Ms(rnd, 1, 8), 0)
			case "sigint":
				add(at, k, rep, c01Ms(rnd, 0.5, 3), 0)
			}
		}
		add(c01Ms(rnd, 3, 10), "ch500a", -1, 0, 1)
		sc.Mandatory = []string{"failed-insert"}
	case "t-ch":
		sc.TrafficSec = 45
		// every ClickHouse fault kind once per replica, spread over the run
		slots := rnd.Perm(12)
		for ki, k := range []string{"ch500b", "ch500a", "chlost", "chdelay"} {
			for rep := 0; rep < 3; rep++ {
				at := int64(2000 + slots[ki*3+rep]*3000 + rnd.IntN(2500))
				dur := int64(0)
				if k == "chdelay" {
					dur = c01Ms(rnd, 2, 4)
				}
				add(at, k, rep, dur, 1)
			}
		}
		add(c01Ms(rnd, 10, 30), "cut", rnd.IntN(3), 0, 0)
		sc.Mandatory = []string{"failed-insert", "cut"}
	case "t-proxy":
		sc.TrafficSec = 45
		for rep := 0; rep < 3; rep++ {
			i := c01SecondOf(rnd, rep, 2+rep*9, 10+rep*9)
			add(int64(i+3)*1000+int64(rnd.IntN(900)), "cut", rep, 0, 0)             // request pending in the bucket, window not closed yet
			add(int64(20+rep*6)*1000+int64(rnd.IntN(900)), "chcutafter", rep, 0, 1) // insert done, response cannot reach the agent
		}
		add(c01Ms(rnd, 4, 10), "swallow", perm[0], c01Ms(rnd, 6.5, 8), 0)
		add(c01Ms(rnd, 26, 32), "swallow", perm[1], c01Ms(rnd, 2, 4), 0)
		add(c01Ms(rnd, 12, 18), "pxdown", perm[2], c01Ms(rnd, 5, 7), 0)
		add(c01Ms(rnd, 30, 36), "pxdelay", perm[0], c01Ms(rnd, 7, 8.5), 0)
		add(c01Ms(rnd, 2, 8), "ch500a", -1, 0, 1)
		sc.Mandatory = []string{"failed-insert", "cut", "keep"}
	case "t-kill":
		sc.TrafficSec = 50
		for rep := 0; rep < 3; rep++ {
			r1, r2, r3 := perm[rep], perm[(rep+1)%3], perm[(rep+2)%3]
			i := c01SecondOf(rnd, r1, 2+rep*14, 8+rep*14)
			add(int64(i+3)*1000+int64(rnd.IntN(900)), "kill", r1, c01Ms(rnd, 1, 4), 0) // before the short window closes
			add(int64(8+rep*14)*1000, "chkillmid", r2, c01Ms(rnd, 1, 4), 1)            // during the insert
			add(int64(11+rep*14)*1000, "chkillafter", r3, c01Ms(rnd, 1, 4), 1)         // after the insert, before the response
		}
		add(c01Ms(rnd, 20, 24), "kill", rnd.IntN(3), c01Ms(rnd, 14, 17), 0) // long outage: spare failover
		add(c01Ms(rnd, 4, 8), "sigint", perm[2], c01Ms(rnd, 0.5, 2), 0)     // graceful shutdown: requests received meanwhile are never answered
		add(c01Ms(rnd, 0.5, 2), "ch500a", -1, 0, 1)
		sc.Mandatory = []string{"failed-insert", "kill"}
	case "t-late", "r-late":
		sc.TrafficSec = 42
		for rep := 0; rep < 3; rep++ {
			add(int64(4+rep*12)*1000+int64(rnd.IntN(2000)), "pxdelay", perm[rep], c01Ms(rnd, 7, 9), 0)
		}
		add(c01Ms(rnd, 20, 26), "swallow", rnd.IntN(3), c01Ms(rnd, 6.5, 8), 0)
		add(c01Ms(rnd, 2, 30), "ch500a", -1, 0, 1)
		sc.Mandatory = []string{"failed-insert", "keep", "late-recent"}
	case "q-full":
		// Deterministic "keep to a historic request" (aggregator goTicker, conveyor full).  Every replica has
		// one inserter, kept busy from its first marker INSERT (≈ k+6 s) for 3×7 s by a slow ClickHouse, so every
		// bucket whose short window closes meanwhile is answered with keep.  Two sources of historic requests
		// that are still inside the short window (they are put into the recent bucket):
		// (a) a graceful agent shutdown: after DisableNewSends every new second goes straight to the historic
		//     conveyor (≈ i+2.3 s) while the agent waits for its recent senders;
		// (b) second i (replica i%3) is sent at ≈ i+2.3…3.4 s; cutting the replica's connections at i+4.2 s fails
		//     that recent send, the historic re-send (retried after 1 s) arrives before the tick i+6 s.
		// The agent runs with --liveness-success=1 so that failed recent sends do not make it route around a replica.
		sc.TrafficSec = 25
		sc.AggFlags = []string{"--recent-inserters=1"}
		sc.LivenessSuccesses = 1
		for k := 0; k < 3; k++ {
			add(int64(300+rnd.IntN(400)), "chdelay", k, 7000, 3)
			for i := k + 12; i <= k+18; i += 3 {
				add(int64(i)*1000+4200+int64(rnd.IntN(200)), "cut", k, 0, 0)
			}
		}
		add(c01Ms(rnd, 9.2, 10.2), "agent-restart", -1, 0, 0)
		sc.Mandatory = []string{"cut", "keep", "conveyor-full", "historic-keep", "agent-restart"}
	case "t-full", "r-full":
		sc.TrafficSec = 42
		sc.AggFlags = []string{"--recent-inserters=1"}
		for rep := 0; rep < 3; rep++ {
			at := int64(4+rep*12)*1000 + int64(rnd.IntN(2000))
			add(at, "chdelay", perm[rep], c01Ms(rnd, 7, 9), 2)
			// connections cut while the only inserter is busy: the recent send fails at once, the historic
			// re-send lands in the still-recent bucket and meets the full conveyor (keep to a historic request)
			for _, d := range []int64{4000, 7500, 11000} {
				add(at+d+int64(rnd.IntN(800)), "cut", perm[rep], 0, 0)
			}
		}
		add(c01Ms(rnd, 2, 30), "ch500a", -1, 0, 1)
		sc.Mandatory = []string{"failed-insert", "keep", "conveyor-full"}
	default:
		panic("unknown profile " + profile)
	}
	sort.SliceStable(sc.Actions, func(i, j int) bool { return sc.Actions[i].AtMs < sc.Actions[j].AtMs })
	return sc
}

// ---------------------------------------------------------------------------------
// environment of one scenario

type c01StubMeta struct {
	m map[int32]*format.MetricMetaValue
}

func (s c01StubMeta) GetMetaMetric(id int32) *format.MetricMetaValue     { return s.m[id] }
func (s c01StubMeta) GetMetaMetricByName(string) *format.MetricMetaValue { return nil }
func (s c01StubMeta) GetGroup(int32) *format.MetricsGroup                { return nil }
func (s c01StubMeta) GetNamespace(int32) *format.NamespaceMeta           { return nil }
func (s c01StubMeta) GetNamespaceByName(string) *format.NamespaceMeta    { return nil }
func (s c01StubMeta) GetGroupByName(string) *format.MetricsGroup         { return nil }

type c01Env struct {
	r      *verifkit.Run
	sc     *c01Scenario
	aggBin string
	dir    string
	t0     time.Time // start of traffic, unix second divisible by 3
	ch     *c01FakeCH
	prox   [3]*c01Proxy
	real   [3]string
	meta   *format.MetricMetaValue
	logMu  sync.Mutex
	logF   *os.File

	replMu     [3]sync.Mutex // one per replica: guards procs[k], stopping[k] and a start in progress
	statMu     sync.Mutex    // guards kills, replStarts, startFails
	procs      [3]*c01Child
	stopping   [3]*c01Child // replicas in graceful shutdown
	kills      int
	replStarts int
	startFails []string
	healedRepl atomic.Bool
	bgWG       sync.WaitGroup // undo goroutines (restart replica, proxy up, end swallow)

	agentMu   sync.RWMutex // write-locked while the agent is being replaced
	agent     *Agent
	gen       int
	oldAgents []*Agent
	restarts  int
	restartWG sync.WaitGroup
	replayed  []uint32 // seconds the new agent found on disk after a restart

	obs *c01Obs

	repliesOld    atomic.Int64 // "discarded historic bucket beyond historic window" replies seen by the agent
	repliesFuture atomic.Int64 // "bucket time is too far in the future" replies seen by the agent
	repliesStale  atomic.Int64 // "discarded historic bucket with timestamp before historic window"
	repliesBad    atomic.Int64 // "failed to deserialize ..." replies

	done chan struct{}
}

func (e *c01Env) ms() int64 { return time.Since(e.t0).Milliseconds() }

func (e *c01Env) logf(f string, a ...any) {
	e.logMu.Lock()
	if e.logF != nil {
		fmt.Fprintf(e.logF, "%s "+f+"\n", append([]any{time.Now().Format("15:04:05.000")}, a...)...)
	}
	e.logMu.Unlock()
}

// agentLog is the agent's logF: besides keeping the text it counts the explicit
// rejection replies of the aggregators (the warning text travels with the discard reply).
func (e *c01Env) agentLog(f string, a ...interface{}) {
	msg := fmt.Sprintf(f, a...)
	switch {
	case strings.Contains(msg, "beyond historic window"): // rejected on arrival (handleSendSourceBucket)
		e.repliesOld.Add(1)
	case strings.Contains(msg, "before historic window"): // became stale while waiting for the insert (goInsert)
		e.repliesStale.Add(1)
	case strings.Contains(msg, "too far in the future"):
		e.repliesFuture.Add(1)
	case strings.Contains(msg, "failed to deserialize"):
		e.repliesBad.Add(1)
	}
	e.logf("agent: %s", msg)
}

func (e *c01Env) aggDir(k int) string { return filepath.Join(e.dir, fmt.Sprintf("agg%d", k+1)) }
func (e *c01Env) aggLog(k int) string { return filepath.Join(e.dir, fmt.Sprintf("agg%d.log", k+1)) }

// the aggregator boots offline only if its mapping cache already maps its host name;
// written through the real pcache saver before every start (the file may have been torn
// by the SIGKILL of the previous incarnation).
func (e *c01Env) seedMappings(k int) error {
	dir := e.aggDir(k)
	if err := os.MkdirAll(dir, 0o777); err != nil {
		return err
	}
	p := filepath.Join(dir, fmt.Sprintf("mappings-%s.cache", c01Cluster))
	_ = os.Remove(p)
	fp, err := os.OpenFile(p, os.O_CREATE|os.O_RDWR, 0o666)
	if err != nil {
		return err
	}
	defer fp.Close()
	mc, _ := pcache.LoadMappingsCacheFile(fp, 1<<30, 86400*7)
	mc.AddValues(uint32(time.Now().Unix()), []pcache.MappingPair{{Str: fmt.Sprintf("verifagg%d", k+1), Value: int32(1001 + k)}})
	if _, err := mc.Save(); err != nil {
		return err
	}
	return nil
}

func (e *c01Env) startReplicaLocked(k int) error {
	if e.procs[k] != nil && e.procs[k].alive() {
		return nil
	}
	var lastErr error
	for attempt := 0; attempt < 3; attempt++ {
		if err := e.seedMappings(k); err != nil {
			return err
		}
		proxAddrs := []string{e.prox[0].addr(), e.prox[1].addr(), e.prox[2].addr()}
		args := []string{
			"--agg-addr=" + strings.Join(e.real[:], ","),
			fmt.Sprintf("--local-replica=%d", k+1),
			"--cluster=" + c01Cluster,
			"--cluster-shards-addrs=" + strings.Join(proxAddrs, ","), // what agents are told to connect to
			"--kh=" + e.ch.addrs[k],
			"--deny-old-agents=false",
			// SF = 1 is an assumption of the oracle (every marker row must be found literally): budgets far
			// above the traffic, also when a backlog makes one INSERT carry many historic seconds
			"--min-insert-budget=2000000000",
			"--disable-receive-sample-budget=true",
			"--metadata-addr", "127.0.0.1:1",
			"--cache-dir=" + e.aggDir(k),
			fmt.Sprintf("--hostname=verifagg%d", k+1),
			"-u", "root", "-g", "root",
		}
		args = append(args, e.sc.AggFlags...)
		cmd := exec.Command(e.aggBin, args...)
		lf, err := os.OpenFile(e.aggLog(k), os.O_CREATE|os.O_APPEND|os.O_WRONLY, 0o644)
		if err != nil {
			return err
		}
		fmt.Fprintf(lf, "==== verif start replica %d attempt %d at %d ms\n", k+1, attempt, e.ms())
		cmd.Stdout, cmd.Stderr = lf, lf
		c, err := c01Spawn(cmd)
		_ = lf.Close()
		if err != nil {
			return err
		}
		// wait until it listens
		deadline := time.Now().Add(180 * time.Second) // the machine is shared: start-up of 3×N processes can be very slow
		up := false
		for time.Now().Before(deadline) && c.alive() {
			conn, err := net.DialTimeout("tcp4", e.real[k], 500*time.Millisecond)
			if err == nil {
				_ = conn.Close()
				up = true
				break
			}
			time.Sleep(100 * time.Millisecond)
		}
		if up {
			e.procs[k] = c
			e.statMu.Lock()
			e.replStarts++
			e.statMu.Unlock()
			e.logf("replica %d up (pid %d)", k+1, c.cmd.Process.Pid)
			return nil
		}
		if c.alive() {
			c.kill()
		}
		lastErr = fmt.Errorf("replica %d did not come up (attempt %d): %s", k+1, attempt, c01Tail(e.aggLog(k), 5))
		e.statMu.Lock()
		e.startFails = append(e.startFails, lastErr.Error())
		e.statMu.Unlock()
		time.Sleep(500 * time.Millisecond)
	}
	return lastErr
}

func c01Tail(path string, n int) string {
	b, err := os.ReadFile(path)
	if err != nil {
		return err.Error()
	}
	if len(b) > 64<<10 {
		b = b[len(b)-64<<10:]
	}
	lines := strings.Split(strings.TrimRight(string(b), "\n"), "\n")
	if len(lines) > n {
		lines = lines[len(lines)-n:]
	}
	return strings.Join(lines, "\n")
}

// killReplica SIGKILLs replica k now (synchronously) and restarts it after restartAfter
// unless the scenario was healed in the meantime (heal starts everything itself).
func (e *c01Env) killReplica(k int, restartAfter time.Duration, why string) {
	if !e.replMu[k].TryLock() { // being (re)started right now: the schedule never waits for that
		e.obs.count("fault.skipped.replica_was_starting", 1)
		return
	}
	c := e.procs[k]
	if c == nil || !c.alive() {
		e.replMu[k].Unlock()
		e.obs.count("fault.skipped.replica_was_down", 1)
		return
	}
	e.procs[k] = nil
	e.replMu[k].Unlock()
	e.statMu.Lock()
	e.kills++
	e.statMu.Unlock()
	c.kill()
	e.logf("replica %d killed (%s), restart in %v", k+1, why, restartAfter)
	e.obs.count("fault.kill."+why, 1)
	e.bgWG.Add(1)
	go func() {
		defer e.bgWG.Done()
		select {
		case <-time.After(restartAfter):
		case <-e.done:
			return
		}
		e.replMu[k].Lock()
		defer e.replMu[k].Unlock()
		if e.healedRepl.Load() {
			return
		}
		if err := e.startReplicaLocked(k); err != nil {
			e.logf("restart of replica %d failed: %v", k+1, err)
		}
	}()
}

// stopReplica asks replica k to shut down gracefully (SIGINT: DisableNewInsert,
// WaitInsertsFinish, RPC shutdown — long-polls received meanwhile are never answered) and
// restarts it restartAfter after it exited.
func (e *c01Env) stopReplica(k int, restartAfter time.Duration) {
	if !e.replMu[k].TryLock() {
		e.obs.count("fault.skipped.replica_was_starting", 1)
		return
	}
	c := e.procs[k]
	if c == nil || !c.alive() {
		e.replMu[k].Unlock()
		e.obs.count("fault.skipped.replica_was_down", 1)
		return
	}
	e.procs[k] = nil
	e.stopping[k] = c
	e.replMu[k].Unlock()
	_ = c.cmd.Process.Signal(syscall.SIGINT)
	e.obs.count("fault.sigint", 1)
	e.logf("replica %d: SIGINT, restart %v after exit", k+1, restartAfter)
	e.bgWG.Add(1)
	go func() {
		defer e.bgWG.Done()
		select {
		case <-c.exited:
			e.obs.count("fault.sigint.exited_gracefully", 1)
		case <-time.After(75 * time.Second):
			c.kill()
		case <-e.done:
			c.kill()
			return
		}
		e.logf("replica %d exited after SIGINT", k+1)
		select {
		case <-time.After(restartAfter):
		case <-e.done:
			return
		}
		e.replMu[k].Lock()
		defer e.replMu[k].Unlock()
		if e.stopping[k] == c {
			e.stopping[k] = nil
		}
		if e.healedRepl.Load() {
			return
		}
		if err := e.startReplicaLocked(k); err != nil {
			e.logf("restart of replica %d failed: %v", k+1, err)
		}
	}()
}

func (e *c01Env) newAgent() (*Agent, error) {
	cfg := DefaultConfig()
	cfg.Cluster = c01Cluster
	cfg.AggregatorAddresses = []string{e.prox[0].addr(), e.prox[1].addr(), e.prox[2].addr()}
	cfg.HistoricWindow = data_model.MaxHistoricWindow // 48 h: wider than the aggregators' 24 h (rejection scenario)
	cfg.SaveSecondsImmediately = e.sc.SaveFirst
	cfg.SampleBudget = 10 << 20 // SF = 1: far above the traffic
	if e.sc.LivenessSuccesses > 0 {
		cfg.LivenessResponsesWindowSuccesses = e.sc.LivenessSuccesses
	}
	agentDir := filepath.Join(e.dir, "agent")
	if err := os.MkdirAll(agentDir, 0o777); err != nil {
		return nil, err
	}
	mc := pcache.NewMappingsCache(data_model.NewChunkedStorageNop(), 1<<20, 86400)
	type res struct {
		a   *Agent
		err error
	}
	ch := make(chan res, 1)
	go func() {
		var a *Agent
		var err error
		// run.lock is a flock: a child of a parallel scenario that is between fork and exec
		// still shares the just-closed lock file of the previous owner for a moment
		for try := 0; try < 100; try++ {
			a, err = MakeAgent("tcp4", agentDir, "", nil, cfg, "verifagent-"+e.sc.Profile, format.TagValueIDComponentAgent,
				c01StubMeta{map[int32]*format.MetricMetaValue{c01MarkerMetric: e.meta}}, mc, nil, nil,
				e.agentLog, nil, nil, nil)
			if err == nil || !strings.Contains(err.Error(), "another instance of statshouse is already running") {
				break
			}
			time.Sleep(100 * time.Millisecond)
		}
		ch <- res{a, err}
	}()
	select {
	case r := <-ch:
		return r.a, r.err
	case <-time.After(120 * time.Second):
		return nil, fmt.Errorf("MakeAgent did not return within 120 s (no aggregator reachable for autoconfiguration)")
	}
}

// neutralize emulates the exit of the agent process for an in-process agent whose
// goroutines cannot be stopped (Agent.Close is a TODO): its RPC client is closed so that
// nothing can be sent any more, and its disk cache is closed (releases run.lock) under
// the shard locks so that left-over goroutines find it empty.
func (e *c01Env) neutralize(a *Agent) {
	_ = a.rpcClientConfig.Close()
	for _, sr := range a.ShardReplicas {
		c := sr.client()
		if c.Client != a.rpcClientConfig {
			_ = c.Client.Close()
		}
	}
	if d := a.diskBucketCache; d != nil {
		for _, s := range d.shards {
			s.mu.Lock()
			s.Close()
			s.mu.Unlock()
		}
		_ = d.lockFile.Close()
	}
}

// restartAgent is the shutdown sequence of cmd/statshouse followed by a new MakeAgent on
// the same cache directory.
func (e *c01Env) restartAgent() {
	e.agentMu.RLock()
	a := e.agent
	e.agentMu.RUnlock()
	e.logf("agent restart: 1. DisableNewSends")
	a.DisableNewSends()
	e.logf("agent restart: 2. WaitRecentSenders")
	a.WaitRecentSenders(time.Second * data_model.InsertDelay)
	e.agentMu.Lock() // receivers closed: no AddCounter and no snapshot from here on
	defer e.agentMu.Unlock()
	e.logf("agent restart: 3. ShutdownFlusher")
	a.ShutdownFlusher()
	a.WaitFlusher()
	n := a.FlushAllData()
	a.WaitPreprocessor()
	e.logf("agent restart: preprocessor done, %d non-empty buckets flushed", n)
	e.obs.snapshot(e, a, "shutdown") // what the exiting process leaves behind
	e.neutralize(a)
	e.oldAgents = append(e.oldAgents, a)
	na, err := e.newAgent()
	if err != nil {
		e.obs.fail("agent restart failed: " + err.Error())
		e.agent = nil
		return
	}
	for _, sh := range na.Shards {
		sh.mu.Lock()
		for _, cbd := range sh.historicBucketsToSend {
			e.replayed = append(e.replayed, cbd.time)
		}
		sh.mu.Unlock()
	}
	e.agent = na
	e.gen++
	e.restarts++
	na.Run(0, 0, 0)
	e.logf("agent restart: new agent running, %d seconds read from the disk cache so far", len(e.replayed))
}

// ---------------------------------------------------------------------------------
// pre-seeded disk cache of the rejection scenario

func c01MarkerBucket(id int, count float64, tm uint32) []byte {
	var k data_model.Key
	k.Metric = c01MarkerMetric
	k.Tags[1] = int32(id)
	item := k.TLMultiItemFromKey(tm)
	var mv data_model.MultiValue
	mv.AddCounter(nil, count)
	_ = mv.MultiValueToTL(&format.MetricMetaValue{}, &item.Tail, 1, &item.FieldsMask, nil)
	var sb tlstatshouse.SourceBucket3
	sb.Metrics = append(sb.Metrics, item)
	return compress.CompressAndFrame(sb.WriteTL1Boxed(nil))
}

func (e *c01Env) preseedRejects(rnd *rand.Rand) error {
	agentDir := filepath.Join(e.dir, "agent")
	if err := os.MkdirAll(agentDir, 0o777); err != nil {
		return err
	}
	d, err := MakeDiskBucketStorage(agentDir, 1, func(f string, a ...interface{}) { e.logf("preseed: "+f, a...) })
	if err != nil {
		return err
	}
	now := uint32(time.Now().Unix())
	type spec struct {
		class  string
		expect string
		tm     uint32
	}
	var specs []spec
	for i := 0; i < 3; i++ {
		j := uint32(rnd.IntN(1000))
		specs = append(specs,
			spec{"old-agent-window", c01ExpectDropAgent, now - data_model.MaxHistoricWindow - 600 - j*7},                    // older than the agent's 48 h window
			spec{"old-agg-window", c01ExpectRejectOld, now - 24*3600 - 900 - j*11},                                          // inside the agent's, outside the aggregators' 24 h window
			spec{"old-in-window", c01ExpectInsert, now - 24*3600 + 7200 + j*5},                                              // 22 h old: inside every window, must be inserted
			spec{"old-window-edge", c01ExpectInsertOrReject, now - 24*3600 - data_model.MaxShortWindow + uint32(i)*3 + j%3}, // crosses the aggregators' window while it waits there: inserted or answered as stale
			spec{"future-far", c01ExpectRejectFuture, now + data_model.MaxFutureSecondsOnDisk + 400 + j*3 + uint32(i)},      // sent at once, rejected by the aggregator
			spec{"future-near", c01ExpectInsert, now + 12 + uint32(i)*5 + j%3},                                              // held by the agent until due, then inserted
		)
	}
	specs = append(specs, spec{"undecodable", c01ExpectRejectBad, now - 3600 - uint32(rnd.IntN(1000))}) // the aggregator cannot read it: explicit discard
	rnd.Shuffle(len(specs), func(i, j int) { specs[i], specs[j] = specs[j], specs[i] })
	used := map[uint32]bool{}
	for _, s := range specs {
		for used[s.tm] {
			s.tm++
		}
		used[s.tm] = true
		id := e.obs.nextID()
		cnt := float64(1 + id%3)
		data := c01MarkerBucket(id, cnt, s.tm)
		if s.expect == c01ExpectRejectBad {
			data = []byte{0x40, 0, 0, 0, 0xff, 0xfe, 0xfd, 0xfc, 0xfb, 0xfa, 1, 2, 3} // frame: original size 64, garbage block
		}
		if _, err := d.PutBucket(0, s.tm, data); err != nil {
			return err
		}
		e.obs.accept(&c01Marker{ID: id, TS: s.tm, Slot: s.tm, Count: cnt, AtMs: -1, Class: s.class, Expect: s.expect})
	}
	return d.Close()
}

// ---------------------------------------------------------------------------------
// fault executor

func (e *c01Env) exec(a c01Action) {
	e.logf("fault %s replica=%d dur=%dms n=%d", a.Kind, a.Replica, a.DurMs, a.N)
	dur := time.Duration(a.DurMs) * time.Millisecond
	undo := func(d time.Duration, f func()) {
		e.bgWG.Add(1)
		go func() {
			defer e.bgWG.Done()
			select {
			case <-time.After(d):
			case <-e.done:
			}
			f()
		}()
	}
	switch a.Kind {
	case "ch500b":
		e.ch.arm(&c01ChArm{kind: c01Ch500Before, replica: a.Replica, left: a.N})
	case "ch500a":
		e.ch.arm(&c01ChArm{kind: c01Ch500After, replica: a.Replica, left: a.N})
	case "chlost":
		e.ch.arm(&c01ChArm{kind: c01ChLostAfter, replica: a.Replica, left: a.N})
	case "chdelay":
		e.ch.arm(&c01ChArm{kind: c01ChDelay, replica: a.Replica, left: a.N, delay: dur})
	case "chkillmid":
		e.ch.arm(&c01ChArm{kind: c01ChKillMid, replica: a.Replica, left: a.N, hook: func(k int) { e.killReplica(k, dur, "mid-insert") }})
	case "chkillafter":
		e.ch.arm(&c01ChArm{kind: c01ChKillAfter, replica: a.Replica, left: a.N, hook: func(k int) { e.killReplica(k, dur, "after-insert") }})
	case "chcutafter":
		e.ch.arm(&c01ChArm{kind: c01ChCutAfter, replica: a.Replica, left: a.N, hook: func(k int) {
			e.prox[k].cut()
			e.obs.count("fault.cut.after-insert", 1)
		}})
	case "cut":
		e.prox[a.Replica].cut()
		e.obs.count("fault.cut.timed", 1)
	case "swallow":
		p := e.prox[a.Replica]
		p.startSwallow()
		e.obs.count("fault.swallow", 1)
		undo(dur, p.endSwallow)
	case "pxdelay":
		e.prox[a.Replica].delay(dur)
		e.obs.count("fault.pxdelay", 1)
	case "pxdown":
		p := e.prox[a.Replica]
		p.setDown(true)
		e.obs.count("fault.pxdown", 1)
		undo(dur, func() { p.setDown(false) })
	case "kill":
		e.killReplica(a.Replica, dur, "timed")
	case "sigint":
		e.stopReplica(a.Replica, dur)
	case "agent-restart":
		e.restartWG.Add(1)
		go func() {
			defer e.restartWG.Done()
			e.restartAgent()
		}()
	default:
		panic("unknown action " + a.Kind)
	}
}

// ---------------------------------------------------------------------------------
// one scenario

func c01RunScenario(r *verifkit.Run, aggBin string, sc *c01Scenario, rnd *rand.Rand) {
	e := &c01Env{r: r, sc: sc, aggBin: aggBin, done: make(chan struct{})}
	e.obs = c01NewObs(sc)
	e.dir = r.MkTmp("c01-" + strings.ReplaceAll(sc.Name, "#", "-") + "-")
	keepDir := os.Getenv("VERIF_C01_KEEP") != ""
	defer func() {
		if !keepDir {
			_ = os.RemoveAll(e.dir)
		}
	}()
	e.logF, _ = os.Create(filepath.Join(e.dir, "harness.log"))
	defer func() {
		e.logMu.Lock()
		_ = e.logF.Close()
		e.logF = nil
		e.logMu.Unlock()
	}()
	e.meta = &format.MetricMetaValue{MetricID: c01MarkerMetric, Name: "verif_marker", Tags: []format.MetricMetaTag{{}, {RawKind: "int"}}}
	_ = e.meta.RestoreCachedInfo()

	infra := func(err error) {
		r.Inconclusive(fmt.Sprintf("scenario %s: infrastructure: %v", sc.Name, err))
	}
	var err error
	te := format.BuiltinMetricMetaTimingErrors.MetricID
	if e.ch, err = c01NewFakeCH(map[int32]bool{te: true}); err != nil {
		infra(err)
		return
	}
	defer e.ch.Close()
	for k := 0; k < 3; k++ {
		p, err := c01FreePort()
		if err != nil {
			infra(err)
			return
		}
		e.real[k] = fmt.Sprintf("127.0.0.1:%d", p)
		if e.prox[k], err = c01NewProxy(e.real[k]); err != nil {
			infra(err)
			return
		}
		defer e.prox[k].close()
	}
	defer func() { // replicas die with the scenario, whatever happens
		close(e.done)
		e.healedRepl.Store(true)
		killAll := func() {
			for k := range e.procs {
				e.replMu[k].Lock()
				if c := e.procs[k]; c != nil && c.alive() {
					c.kill()
				}
				if c := e.stopping[k]; c != nil && c.alive() {
					c.kill()
				}
				e.replMu[k].Unlock()
			}
		}
		killAll()
		e.bgWG.Wait()
		killAll()
	}()
	e.t0 = time.Now() // provisional, for log offsets during start-up
	e.ch.t0 = e.t0
	{
		var wg sync.WaitGroup
		errs := make([]error, 3)
		for k := 0; k < 3; k++ {
			wg.Add(1)
			go func(k int) {
				defer wg.Done()
				e.replMu[k].Lock()
				errs[k] = e.startReplicaLocked(k)
				e.replMu[k].Unlock()
			}(k)
		}
		wg.Wait()
		for _, err := range errs {
			if err != nil {
				infra(err)
				return
			}
		}
	}
	if sc.Reject {
		if err := e.preseedRejects(rnd); err != nil {
			infra(err)
			return
		}
	}
	if e.agent, err = e.newAgent(); err != nil {
		infra(err)
		return
	}
	for _, sh := range e.agent.Shards { // pre-seeded seconds found by the first agent
		for _, cbd := range sh.historicBucketsToSend {
			e.replayed = append(e.replayed, cbd.time)
		}
	}
	if len(e.agent.Shards) != 1 || len(e.agent.ShardReplicas) != 3 {
		infra(fmt.Errorf("unexpected topology: %d shards, %d shard replicas", len(e.agent.Shards), len(e.agent.ShardReplicas)))
		return
	}
	e.agent.Run(0, 0, 0)
	defer func() { // leave no agent of this scenario sending or flushing after the scenario
		e.agentMu.Lock()
		if a := e.agent; a != nil {
			a.ShutdownFlusher()
			e.neutralize(a)
		}
		e.agentMu.Unlock()
	}()

	// traffic starts on a second divisible by 3, so that second index i belongs to replica i%3
	now := time.Now()
	t0 := now.Truncate(time.Second).Add(time.Second)
	for t0.Unix()%3 != 0 || t0.Sub(now) < 300*time.Millisecond {
		t0 = t0.Add(time.Second)
	}
	time.Sleep(time.Until(t0))
	e.t0 = t0
	e.ch.mu.Lock()
	e.ch.t0 = t0
	e.ch.mu.Unlock()
	e.logf("traffic starts, t0=%d", t0.Unix())

	var wg sync.WaitGroup
	stopSnap := make(chan struct{})
	wg.Add(1)
	go func() { // snapshots of what the agent still holds
		defer wg.Done()
		tk := time.NewTicker(150 * time.Millisecond)
		defer tk.Stop()
		for {
			select {
			case <-stopSnap:
				return
			case <-tk.C:
				e.agentMu.RLock()
				if e.agent != nil {
					e.obs.snapshot(e, e.agent, "tick")
				}
				e.agentMu.RUnlock()
			}
		}
	}()
	faultsDone := make(chan struct{})
	go func() { // fault schedule
		defer close(faultsDone)
		for _, a := range sc.Actions {
			time.Sleep(time.Until(e.t0.Add(time.Duration(a.AtMs) * time.Millisecond)))
			e.exec(a)
		}
	}()
	// traffic: one marker row every 200 ms
	trnd := rand.New(rand.NewPCG(rnd.Uint64(), rnd.Uint64()))
	end := e.t0.Add(time.Duration(sc.TrafficSec) * time.Second)
	for tick := 0; ; tick++ {
		at := e.t0.Add(time.Duration(tick) * 200 * time.Millisecond)
		if !at.Before(end) {
			break
		}
		time.Sleep(time.Until(at))
		nowU := uint32(time.Now().Unix())
		ts := nowU
		switch x := trnd.IntN(20); {
		case x < 4:
			ts = nowU - uint32(1+trnd.IntN(2)) // a little late
		case x == 4:
			ts = nowU + uint32(1+trnd.IntN(2)) // future slots
		case x == 5:
			ts = nowU + 10 // clamped to current+3 by the agent
		}
		id := e.obs.nextID()
		e.apply(id, ts, float64(1+id%3))
	}
	e.logf("traffic ends")
	<-faultsDone
	// ---- heal: faults stop, ClickHouse and all replicas healthy
	e.restartWG.Wait()
	e.ch.heal()
	for k := 0; k < 3; k++ {
		e.prox[k].heal()
	}
	e.healedRepl.Store(true)
	{
		var hwg sync.WaitGroup
		herrs := make([]error, 3)
		for k := 0; k < 3; k++ {
			hwg.Add(1)
			go func(k int) {
				defer hwg.Done()
				e.replMu[k].Lock() // waits for a restart that is in progress
				defer e.replMu[k].Unlock()
				if c := e.stopping[k]; c != nil && c.alive() {
					c.kill() // a graceful shutdown still in progress when faults stop is cut short
					e.obs.count("fault.sigint.cut_short_by_heal", 1)
				}
				e.stopping[k] = nil
				herrs[k] = e.startReplicaLocked(k)
			}(k)
		}
		hwg.Wait()
		for _, err := range herrs {
			if err != nil {
				infra(fmt.Errorf("heal: %v", err))
				close(stopSnap)
				wg.Wait()
				return
			}
		}
	}
	healed := time.Now()
	e.obs.healedMs = e.ms()
	e.logf("healed")
	// ---- fault-free drain, cut short as soon as nothing is missing
	deadline := healed.Add(c01DrainD)
	hard := healed.Add(c01DrainD + c01DrainGrace)
	lastMissing, lastProgress := -1, healed
	extended := false
	lastProbe := time.Time{}
	// starvation guard: a recent send that is in flight is invisible to the snapshots (no disk id yet) and lives
	// for at most MaxConveyorDelay of *scheduled* time.  When this loop itself is not scheduled for seconds, the
	// whole process was frozen, timers (the send deadline) did not fire either, and "held nowhere" means nothing:
	// the drain is then prolonged (a few times) until c01QuietAfterStall of normally scheduled time has passed.
	lastIter, lastStall, stalls, prolonged := time.Now(), time.Time{}, 0, 0
	var maxGap time.Duration
	for {
		time.Sleep(250 * time.Millisecond)
		if gap := time.Since(lastIter); gap > c01StallGap {
			lastStall = time.Now()
			stalls++
			if gap > maxGap {
				maxGap = gap
			}
			if prolonged < 4 {
				prolonged++
				if t := lastStall.Add(c01QuietAfterStall + 5*time.Second); t.After(deadline) {
					deadline = t
				}
				if t := deadline.Add(c01DrainGrace); t.After(hard) {
					hard = t
				}
			}
		}
		lastIter = time.Now()
		if time.Since(lastProbe) >= time.Second {
			// probe rows measure whether fresh data flows with normal latency while the drain waits
			lastProbe = time.Now()
			e.probe()
		}
		m := e.obs.pending(e)
		if m != lastMissing {
			lastMissing, lastProgress = m, time.Now()
		}
		if m == 0 {
			break
		}
		lastIter = time.Now() // pending() itself may be slow under load: only the sleep overshoot counts as a stall
		now := time.Now()
		if now.After(hard) {
			break
		}
		if now.After(deadline) {
			// D has passed; continue only while deliveries still complete (slow machine), never longer than the grace
			if now.Sub(lastProgress) > c01ProgressSpan {
				break
			}
			extended = true
		}
	}
	e.obs.drainMs = time.Since(healed).Milliseconds()
	e.obs.extended = extended
	e.obs.stalls, e.obs.maxStallMs = stalls, maxGap.Milliseconds()
	e.obs.starved = !lastStall.IsZero() && time.Since(lastStall) < c01QuietAfterStall
	e.logf("drain over after %d ms, pending %d, harness stalls %d (max %v, starved=%v)", e.obs.drainMs, lastMissing, stalls, maxGap, e.obs.starved)
	close(stopSnap)
	wg.Wait()
	e.agentMu.RLock()
	if e.agent != nil {
		e.obs.snapshot(e, e.agent, "final")
	}
	e.agentMu.RUnlock()
	e.obs.endMs = e.ms()
	c01Judge(e)
}

// apply feeds one marker row and observes whether the agent took it.
func (e *c01Env) apply(id int, ts uint32, count float64) {
	e.agentMu.RLock()
	defer e.agentMu.RUnlock()
	a := e.agent
	if a == nil {
		return
	}
	sh := a.Shards[0]
	sh.mu.Lock()
	d0 := sh.shouldDiscardIncomingData()
	sh.mu.Unlock()
	a.AddCounter(ts, e.meta, []int32{0, int32(id)}, count)
	sh.mu.Lock()
	d1 := sh.shouldDiscardIncomingData()
	slot := c01FindMarkerLocked(sh, id)
	sh.mu.Unlock()
	switch {
	case slot != 0 || (!d0 && !d1):
		e.obs.accept(&c01Marker{ID: id, TS: ts, Slot: slot, Count: count, AtMs: e.ms(), Gen: e.gen, Class: "traffic", Expect: c01ExpectInsert})
	case d0 && d1:
		e.r.NotJudged("row-refused-agent-not-accepting-data", 1) // conveyor stuck or shutting down: nothing was promised
	default:
		e.r.NotJudged("acceptance-uncertain", 1)
	}
}

// probe feeds one row of class "probe": never judged, only used to tell a healthy
// pipeline (fresh rows arrive in time) from an overloaded or wedged one.
func (e *c01Env) probe() {
	e.agentMu.RLock()
	defer e.agentMu.RUnlock()
	a := e.agent
	if a == nil {
		return
	}
	id := e.obs.nextID()
	sh := a.Shards[0]
	sh.mu.Lock()
	d0 := sh.shouldDiscardIncomingData()
	sh.mu.Unlock()
	a.AddCounter(uint32(time.Now().Unix()), e.meta, []int32{0, int32(id)}, 1)
	e.obs.addProbe(id, e.ms(), !d0)
}

// c01FindMarkerLocked returns the second of the SuperQueue slot that holds marker id.
func c01FindMarkerLocked(sh *Shard, id int) uint32 {
	for idx, b := range sh.SuperQueue {
		for _, it := range b.MultiItems {
			if it.Key.Metric == c01MarkerMetric && it.Key.Tags[1] == int32(id) {
				return c01SlotTime(sh.SendTime, idx)
			}
		}
	}
	return 0
}

func c01SlotTime(sendTime uint32, idx int) uint32 {
	return sendTime + (uint32(idx)+superQueueLen-sendTime%superQueueLen)%superQueueLen
}

// ---------------------------------------------------------------------------------

func c01Main(t *testing.T, unit string, aggEnv string, maxParallel int, quick []string, thorough []string) {
	r := verifkit.Start(t, "C01", unit)
	defer r.Finish()
	defer c01KillAllChildren()
	defer func() {
		if p := recover(); p != nil {
			c01KillAllChildren()
			r.Violation("C01/harness-panic", fmt.Sprintf("panic in harness: %v", p), map[string]any{"stack": string(debug.Stack())})
		}
	}()
	aggBin := os.Getenv(aggEnv)
	if aggBin == "" {
		r.Inconclusive("aggregator binary not provided (" + aggEnv + ")")
		return
	}
	if _, err := os.Stat(aggBin); err != nil {
		r.Inconclusive("aggregator binary missing: " + err.Error())
		return
	}
	r.SetRule("one case per marker row the agent accepted (unique raw tag id): it must be in a completed INSERT of the model ClickHouse " +
		"with Σcount ≥ accepted count when the fault-free drain ends; non-trivial when the marker met a fault on its way " +
		"(seen in a failed or aborted INSERT body, inserted more than once, seen in the agent's historic queue or disk cache, carried over an agent restart) " +
		"or belongs to the rejection scenario; the abstraction is (profile, class, replica of the second, failed/completed appearances, historic, disk, restart)")
	r.Assume("single shard, three replicas on localhost; metadata service unreachable (aggregators boot from a pre-seeded mapping cache)")
	r.Assume("the model ClickHouse treats an INSERT as durable iff the whole body was received and no error status was returned")
	r.Assume("agent process exit is emulated in-process: RPC client and disk cache of the old agent are closed after the cmd/statshouse shutdown sequence")
	profiles := quick
	if r.Thorough() {
		profiles = thorough
	}
	if only := os.Getenv("VERIF_C01_ONLY"); only != "" { // debugging aid: run the profiles whose name contains the value
		var sel []string
		for _, p := range profiles {
			if strings.Contains(p, only) {
				sel = append(sel, p)
			}
		}
		profiles = sel
		r.Assume("VERIF_C01_ONLY=" + only + ": partial run (debugging)")
	}
	var wg sync.WaitGroup
	sem := make(chan struct{}, maxParallel)
	for i, p := range profiles {
		rnd := r.Rand(fmt.Sprintf("scenario/%s/%d", p, i))
		sc := c01BuildScenario(rnd, p, i)
		wg.Add(1)
		go func() {
			defer wg.Done()
			sem <- struct{}{}
			defer func() { <-sem }()
			defer func() {
				if p := recover(); p != nil {
					r.Violation("C01/harness-panic", fmt.Sprintf("panic in scenario %s: %v", sc.Name, p), map[string]any{"stack": string(debug.Stack())})
				}
			}()
			c01RunScenario(r, aggBin, sc, rnd)
		}()
	}
	wg.Wait()
}

func TestVerifC01(t *testing.T) {
	c01Main(t, "e2e", "VERIF_BIN_AGG", 4,
		[]string{"q-mix", "q-restart", "q-full"},
		[]string{"t-mix", "t-mix", "t-ch", "t-proxy", "t-kill", "t-restart", "t-late", "t-full"})
}

func TestVerifC01Race(t *testing.T) {
	// race-instrumented agent and aggregators are slow: one scenario at a time
	c01Main(t, "e2e-race", "VERIF_BIN_AGGRACE", 1,
		[]string{"r-mix"},
		[]string{"r-mix", "r-restart", "r-full"})
}
