//go:build verif

package agent

// C02 — Row aggregates survive agent-to-aggregator transfer unchanged.
//
// Workload: random event sequences (counter-only, value arrays, histograms, uniques, single
// value+counter, merged item values; with/without host tag; int/string tags at any of the 48
// positions; int/string string-top values; timestamps equal/unequal to the bucket time;
// plain, percentile, low-resolution and no-sample metrics) are applied through the real
// Shard.Apply*/AddValueCounterHost/MergeItemValue, flushed by the real FlushAllDataSingleStep,
// sampled by the real Shard.sampleBucket (budgets chosen so that rows are kept with SF == 1
// and with SF > 1), and then take the real wire path
//   SourceBucket3.WriteTL1Boxed -> compress.CompressAndFrame -> compress.DeFrame ->
//   SendSourceBucket3.WriteTL1Boxed -> SendSourceBucket3Bytes.ReadTL1Boxed -> compress.Decompress ->
//   SourceBucket3Bytes.ReadTL1Boxed -> data_model.KeyFromStatshouseMultiItem (+ the Skeys /
//   host-stag / top-stag mapping steps of handleSendSourceBucket) -> GetOrCreateMultiItem ->
//   MultiItem.MergeWithTLMultiItem into a fresh item with the sender's host tag.
// Observation: the agent's in-memory MultiItem right after sampleBucket (exactly the state keepF
// encoded: SF set by the sampler, string top finished), the decoded TL row, the reconstructed item.
// Oracle: reconstructed == snapshot*SF (see c02CheckRow).

import (
	"fmt"
	"math"
	"sort"
	"strings"
	"sync"
	"testing"
	"time"

	"pgregory.net/rand"

	"github.com/VKCOM/statshouse/internal/compress"
	"github.com/VKCOM/statshouse/internal/data_model"
	"github.com/VKCOM/statshouse/internal/data_model/gen2/tlstatshouse"
	"github.com/VKCOM/statshouse/internal/format"
	"github.com/VKCOM/statshouse/internal/pcache"
	"github.com/VKCOM/statshouse/internal/zzverif/verifkit"
)

const c02MappedIDBase = 1 << 24 // ids handed out by the harness "aggregator mapping" never collide with generated int tags

// c02AggMap simulates the aggregator's tag-value mapping cache: strings with the prefix "m:"
// are known to the aggregator (when enabled for the round), everything else is not.
func c02AggMap(enabled bool, s []byte) (int32, bool) {
	if !enabled || len(s) < 3 || s[0] != 'm' || s[1] != ':' {
		return 0, false
	}
	h := uint32(2166136261)
	for _, c := range s {
		h = (h ^ uint32(c)) * 16777619
	}
	return int32(c02MappedIDBase + h%(1<<20)), true
}

func c02NewAgent(cfg Config, nowUnix uint32, nShards int, seed uint64) *Agent {
	a := &Agent{
		config:                                 cfg,
		logF:                                   func(string, ...any) {},
		mappingsCache:                          pcache.NewMappingsCache(data_model.NewChunkedStorageNop(), 1<<20, 86400),
		componentTag:                           format.TagValueIDComponentAgent,
		shardByMetricCount:                     uint32(nShards),
		builtinMetricMetaUsageCPU:              *format.BuiltinMetricMetaUsageCPU,
		builtinMetricMetaUsageMemory:           *format.BuiltinMetricMetaUsageMemory,
		builtinMetricMetaHeartbeatVersion:      *format.BuiltinMetricMetaHeartbeatVersion,
		builtinMetricMetaHeartbeatVersionAgent: *format.BuiltinMetricMetaHeartbeatVersionAgent,
	}
	for i := 0; i < nShards; i++ {
		sh := &Shard{
			agent:                a,
			ShardNum:             i,
			ShardKey:             int32(i) + 1,
			config:               cfg,
			rng:                  rand.New(seed + uint64(i)),
			CurrentTime:          nowUnix,
			SendTime:             nowUnix - 2,
			BucketsToPreprocess:  make(chan *data_model.MetricsBucket, 1),
			metricBudgetsFromAgg: data_model.NewExpDecay(time.Minute),
		}
		sh.hardwareMetricResolutionResolved.Store(int32(format.HardwareMetricResolution))
		sh.hardwareSlowMetricResolutionResolved.Store(int32(format.HardwareSlowMetricResolution))
		for j := 0; j < superQueueLen; j++ {
			sh.SuperQueue[j] = &data_model.MetricsBucket{}
		}
		sh.cond = sync.NewCond(&sh.mu)
		a.Shards = append(a.Shards, sh)
	}
	a.initBuiltInMetrics()
	return a
}

func c02Metas() []*format.MetricMetaValue {
	mk := func(id int32, res int, perc bool, ns, group int32, w int64) *format.MetricMetaValue {
		return &format.MetricMetaValue{MetricID: id, Name: fmt.Sprintf("c02_m%d", id), EffectiveResolution: res, Resolution: res,
			HasPercentiles: perc, NamespaceID: ns, GroupID: group, EffectiveWeight: w, Weight: float64(w)}
	}
	ms := []*format.MetricMetaValue{
		mk(1, 1, false, 0, 0, 1), mk(2, 1, true, 0, 0, 1), mk(3, 1, false, 7, 0, 2), mk(4, 1, true, 7, 3, 1),
		mk(5, 5, false, 0, 3, 1), mk(6, 15, true, 0, 0, 3), mk(7, 60, false, 8, 4, 1), mk(8, 1, false, 0, 0, 1),
		mk(9, 1, true, 0, 0, 1), mk(10, 2, false, 0, 0, 1),
	}
	ms[7].NoSampleAgent = true
	ms[8].FairKeyIndex = []int{1, 2}
	ms[2].FairKeyIndex = []int{3}
	return ms
}

var c02StrPool = []string{"a", "prod", "m:alpha", "m:beta", "staging1", "\u044f\u0437\u044b\u043a", "x y", "m:host-77", "m:\u65e5\u672c", "Z9", "long-" + strings.Repeat("q", 110),
	"v1.2.3", "m:1", "0", "-1", "key=value", "m:top"}

type c02Series struct {
	meta    *format.MetricMetaValue
	tags    [format.MaxTags]int32
	stags   [format.MaxTags]string
	tops    []data_model.TagUnion
	resHash uint64
	ops     []string
	ts      []uint32
}

type c02Round struct {
	cfg       Config
	now       uint32
	agent     *Agent
	shard     *Shard
	series    []*c02Series
	sender    data_model.TagUnion
	aggMap    bool
	recvRng   *rand.Rand
	sampleRng *rand.Rand
	desc      string
}

func c02Host(rnd interface{ IntN(int) int }) data_model.TagUnion {
	switch rnd.IntN(8) {
	case 0, 1, 2, 3:
		return data_model.TagUnion{}
	case 4:
		return data_model.TagUnion{I: int32(5 + rnd.IntN(3))}
	case 5:
		return data_model.TagUnion{S: []string{"hostA", "hostB", "m:host-77"}[rnd.IntN(3)]}
	case 6:
		return data_model.TagUnion{I: 5}
	default:
		return data_model.TagUnion{S: "hostA"}
	}
}

func c02Value(w *verifkit.Worker) float64 {
	rnd := w.Rnd
	switch rnd.IntN(12) {
	case 0:
		return 0
	case 1, 2, 3, 4:
		return float64(rnd.IntN(9) - 2)
	case 5:
		return float64(rnd.IntN(100000)) / 7
	case 6:
		return -float64(rnd.IntN(1000)) / 8
	case 7:
		return float64(rnd.IntN(1 << 30))
	case 8:
		return math.Ldexp(1+rnd.Float64(), rnd.IntN(80)-20)
	case 9:
		return 7
	case 10:
		return 0.1
	default:
		return float64(rnd.IntN(3))
	}
}

func c02Count(w *verifkit.Worker) float64 {
	rnd := w.Rnd
	switch rnd.IntN(10) {
	case 0, 1, 2, 3, 4:
		return 1
	case 5, 6:
		return float64(1 + rnd.IntN(5))
	case 7:
		return float64(1+rnd.IntN(1000)) / 8
	case 8:
		return 0.5
	default:
		return float64(1 + rnd.IntN(1000000))
	}
}

func c02NewRound(w *verifkit.Worker, idx int, bigUniques bool) *c02Round {
	rnd := w.Rnd
	cfg := DefaultConfig()
	cfg.StringTopCapacity = []int{1, 3, 10, 100}[rnd.IntN(4)]
	cfg.StringTopCountSend = []int{0, 1, 2, 5, 20}[rnd.IntN(5)]
	cfg.SampleBudget = []int{1, 150, 300, 600, 1200, 1000000}[rnd.IntN(6)]
	cfg.MinSampleBudget = []int{1, 30, 60, 120, 250, 2000}[rnd.IntN(6)]
	cfg.SampleKeepSingle = rnd.IntN(2) == 0
	cfg.SampleNamespaces = rnd.IntN(2) == 0
	cfg.SampleGroups = rnd.IntN(2) == 0
	cfg.SampleKeys = rnd.IntN(2) == 0
	cfg.SampleBudgets = rnd.IntN(2) == 0
	cfg.LegacyApplyValues = rnd.IntN(5) == 0
	cfg.DisableNoSampleAgent = rnd.IntN(4) == 0
	now := uint32(1_700_000_000 + rnd.IntN(1<<20))
	rd := &c02Round{cfg: cfg, now: now, aggMap: rnd.IntN(3) == 0}
	nShards := 1 + rnd.IntN(3)
	pick := rnd.IntN(nShards)
	if rnd.IntN(3) == 0 {
		cfg.ShardSampleBudget = map[int]int{pick + 1: []int{1, 150, 700, 100000}[rnd.IntN(4)]}
	}
	rd.agent = c02NewAgent(cfg, now, nShards, rnd.Uint64())
	rd.shard = rd.agent.Shards[pick]
	rd.recvRng = rand.New(rnd.Uint64())
	rd.sampleRng = rand.New(rnd.Uint64())
	if rnd.IntN(2) == 0 {
		rd.sender = data_model.TagUnion{I: 900000 + int32(rnd.IntN(10))}
	} else {
		rd.sender = data_model.TagUnion{S: "sender-host"}
	}
	if cfg.SampleBudgets && rnd.IntN(2) == 0 { // per-metric budgets as handed out by an aggregator
		rd.shard.metricBudgetsFromAgg.MergeMax(func(f func(k int32, v uint32)) {
			f(int32(1+rnd.IntN(10)), uint32(50+rnd.IntN(400)))
			f(int32(1+rnd.IntN(10)), uint32(50+rnd.IntN(4000)))
		})
	}
	metas := c02Metas()
	for _, m := range metas {
		m.ShardFixedKey = uint32(rd.shard.ShardKey) // Agent.ApplyMetric routes every metric of the round to the observed shard
	}
	nSeries := 1 + rnd.IntN(30)
	if bigUniques {
		nSeries = 1 + rnd.IntN(2)
	}
	for i := 0; i < nSeries; i++ {
		s := &c02Series{meta: metas[rnd.IntN(len(metas))], resHash: rnd.Uint64()}
		for k := rnd.IntN(5); k > 0; k-- {
			pos := rnd.IntN(format.StringTopTagIndexV3) // 0..46
			if rnd.IntN(6) == 0 {
				pos = []int{0, 15, 16, 46}[rnd.IntN(4)]
			}
			if rnd.IntN(3) == 0 {
				s.stags[pos] = c02StrPool[rnd.IntN(len(c02StrPool))]
				s.tags[pos] = 0
			} else {
				s.tags[pos] = int32(rnd.IntN(1000)) - 100
				if rnd.IntN(8) == 0 {
					s.tags[pos] = []int32{math.MaxInt32, math.MinInt32, -1, 1}[rnd.IntN(4)]
				}
				s.stags[pos] = ""
			}
		}
		s.tops = []data_model.TagUnion{{}}
		if rnd.IntN(3) == 0 {
			s.tops = nil
			for k := 1 + rnd.IntN(8); k > 0; k-- {
				switch rnd.IntN(4) {
				case 0:
					s.tops = append(s.tops, data_model.TagUnion{})
				case 1:
					s.tops = append(s.tops, data_model.TagUnion{I: int32(1 + rnd.IntN(6))})
				default:
					s.tops = append(s.tops, data_model.TagUnion{S: c02StrPool[rnd.IntN(len(c02StrPool))]})
				}
			}
		}
		rd.series = append(rd.series, s)
	}
	rd.desc = fmt.Sprintf("round=%d topCap=%d topSend=%d budget=%d/%d keepSingle=%v ns=%v grp=%v keys=%v budgets=%v legacy=%v aggMap=%v sender=%v",
		idx, cfg.StringTopCapacity, cfg.StringTopCountSend, cfg.SampleBudget, cfg.MinSampleBudget, cfg.SampleKeepSingle, cfg.SampleNamespaces,
		cfg.SampleGroups, cfg.SampleKeys, cfg.SampleBudgets, cfg.LegacyApplyValues, rd.aggMap, rd.sender)
	return rd
}

// one event into series s through the real shard entry points
func (rd *c02Round) event(w *verifkit.Worker, s *c02Series, bigUniques bool) {
	rnd := w.Rnd
	key := data_model.Key{Metric: s.meta.MetricID, Tags: s.tags, STags: s.stags}
	top := s.tops[rnd.IntN(len(s.tops))]
	key.Tags[format.StringTopTagIndexV3] = top.I
	key.STags[format.StringTopTagIndexV3] = top.S
	var ts uint32
	if len(s.ts) != 0 && rnd.IntN(3) != 0 { // re-use a timestamp of the series so that events merge into one row
		ts = s.ts[rnd.IntN(len(s.ts))]
	} else {
		switch rnd.IntN(12) {
		case 0:
			ts = 0
		case 1, 2, 3, 4:
			ts = rd.now
		case 5:
			ts = rd.now - 1
		case 6:
			ts = rd.now - 2 - uint32(rnd.IntN(3))
		case 7:
			ts = rd.now - uint32(rnd.IntN(4000))
		case 8:
			ts = rd.now - data_model.BelieveTimestampWindow - uint32(rnd.IntN(300)) + 150
		case 9:
			ts = rd.now + 1 + uint32(rnd.IntN(3))
		case 10:
			ts = rd.now + 4 + uint32(rnd.IntN(1000))
		default:
			ts = rd.now - uint32(rnd.IntN(130))
		}
		s.ts = append(s.ts, ts)
	}
	key.Timestamp = ts
	host := c02Host(rnd)
	op := ""
	sh := rd.shard
	kind := rnd.IntN(15)
	if bigUniques {
		kind = 100
	}
	switch kind {
	case 12, 13, 14: // the receiver's entry point: Agent.ApplyMetric with an already mapped header
		var m tlstatshouse.MetricBytes
		switch rnd.IntN(4) {
		case 0:
			m.Counter = c02Count(w)
			op = fmt.Sprintf("AM:C(%v)", m.Counter)
		case 1:
			m.Value = []float64{c02Value(w)}
			if rnd.IntN(2) == 0 {
				m.Value = append(m.Value, c02Value(w))
			}
			if rnd.IntN(3) == 0 {
				m.Counter = c02Count(w)
			}
			op = fmt.Sprintf("AM:V(%v,c=%v)", m.Value, m.Counter)
		case 2:
			m.Unique = []int64{int64(rnd.IntN(20)), int64(rnd.Uint64())}
			if rnd.IntN(3) == 0 {
				m.Counter = c02Count(w)
			}
			op = fmt.Sprintf("AM:U(%v,c=%v)", m.Unique, m.Counter)
		default:
			m.Histogram = [][2]float64{{c02Value(w), float64(1 + rnd.IntN(3))}}
			op = fmt.Sprintf("AM:H(%v)", m.Histogram)
		}
		hd := data_model.MappedMetricHeader{MetricMeta: s.meta, Key: key, HostTag: host}
		hd.OriginalTagValues[1] = []byte(fmt.Sprint(s.resHash))
		var scr []byte
		rd.agent.ApplyMetric(&m, &hd, &scr)
		w.Count("events.apply_metric", 1)
	case 0, 1, 2:
		c := c02Count(w)
		sh.ApplyCounter(&key, s.resHash, c, host, s.meta, 0)
		op = fmt.Sprintf("C(%v)", c)
		w.Count("events.counter", 1)
	case 3, 4, 5:
		n := 1 + rnd.IntN(4)
		vals := make([]float64, n)
		v0 := c02Value(w)
		for i := range vals {
			vals[i] = v0
			if rnd.IntN(3) == 0 {
				vals[i] = c02Value(w)
			}
		}
		c := 0.0
		if rnd.IntN(3) == 0 {
			c = c02Count(w)
		}
		sh.ApplyValues(&key, s.resHash, nil, vals, c, host, s.meta, 0)
		op = fmt.Sprintf("V(%v,c=%v)", vals, c)
		w.Count("events.values", 1)
	case 6:
		var hist [][2]float64
		for k := 1 + rnd.IntN(3); k > 0; k-- {
			hist = append(hist, [2]float64{c02Value(w), float64(rnd.IntN(4))})
		}
		var vals []float64
		if rnd.IntN(3) == 0 {
			vals = []float64{c02Value(w)}
		}
		c := 0.0
		if rnd.IntN(3) == 0 {
			c = c02Count(w)
		}
		sh.ApplyValues(&key, s.resHash, hist, vals, c, host, s.meta, 0)
		op = fmt.Sprintf("H(%v,%v,c=%v)", hist, vals, c)
		w.Count("events.histogram", 1)
	case 7, 8:
		n := 1 + rnd.IntN(5)
		hs := make([]int64, n)
		for i := range hs {
			hs[i] = int64(rnd.IntN(20))
			if rnd.IntN(4) == 0 {
				hs[i] = int64(rnd.Uint64())
			}
			if rnd.IntN(30) == 0 {
				hs[i] = 0
			}
		}
		c := 0.0
		if rnd.IntN(3) == 0 {
			c = c02Count(w)
		}
		sh.ApplyUnique(&key, s.resHash, hs, c, host, s.meta, 0)
		op = fmt.Sprintf("U(%v,c=%v)", hs, c)
		w.Count("events.unique", 1)
	case 9, 10:
		v, c := c02Value(w), c02Count(w)
		sh.AddValueCounterHost(&key, s.resHash, v, c, host, s.meta, 0)
		op = fmt.Sprintf("VC(%v,%v)", v, c)
		w.Count("events.value_counter", 1)
	case 11:
		var iv data_model.ItemValue
		if rnd.IntN(2) == 0 {
			iv = data_model.SimpleItemCounter(c02Count(w), host)
		} else {
			iv = data_model.SimpleItemValue(c02Value(w), c02Count(w), host)
			if rnd.IntN(2) == 0 {
				iv.AddValueCounterHost(sh.rng, c02Value(w), c02Count(w), c02Host(rnd))
			}
		}
		sh.MergeItemValue(&key, s.resHash, &iv, s.meta, 0)
		op = fmt.Sprintf("MI(%+v)", iv)
		w.Count("events.merge_item", 1)
	case 100:
		n := 66000 + rnd.IntN(40000)
		hs := make([]int64, n)
		base := int64(rnd.Uint64() >> 2)
		for i := range hs {
			hs[i] = base + int64(i)*7919
		}
		sh.ApplyUnique(&key, s.resHash, hs, 0, host, s.meta, 0)
		op = fmt.Sprintf("Ubig(n=%d,base=%d)", n, base)
		w.Count("events.unique_big", 1)
	}
	if len(s.ops) < 24 {
		s.ops = append(s.ops, fmt.Sprintf("ts=%d top=%v host=%v %s", int64(ts)-int64(rd.now), top, host, op))
	}
}

type c02SentRow struct {
	item       *data_model.MultiItem
	bucketTime uint32
}

func c02KeyString(metric int32, tags []int32, stags []string, ts uint32) string {
	var sb strings.Builder
	fmt.Fprintf(&sb, "%d|%d|", metric, ts)
	n := len(tags)
	for n > 0 && tags[n-1] == 0 {
		n--
	}
	for i := 0; i < n; i++ {
		fmt.Fprintf(&sb, "%d,", tags[i])
	}
	sb.WriteByte('|')
	n = len(stags)
	for n > 0 && stags[n-1] == "" {
		n--
	}
	for i := 0; i < n; i++ {
		fmt.Fprintf(&sb, "%q,", stags[i])
	}
	return sb.String()
}

func TestVerifC02(t *testing.T) {
	r := verifkit.Start(t, "C02", "agent")
	defer r.Finish()
	r.SetRule("rounds of 1-30 series (10 metric kinds: plain/percentile/resolution 2-60/no-sample/fair-key; 0-4 int or string tags at random positions 0..46; 0-8 int/string top values) fed with 10-200 random events (counter, value array, histogram, unique, value+counter, merged ItemValue; host tag absent/int/string; 12 timestamp classes) through the real Shard entry points, flushed, sampled by the real sampleBucket under 36 budget settings and sent over the real encode/compress/decode path into a fresh aggregator item. One case = one row of a SourceBucket3 (metric id > 0). Non-trivial = the row carries a value, uniques, centroids, a string top, an explicit timestamp or SF != 1; distinct = distinct (key layout, SF, aggregate values) abstraction.")
	r.Assume("the harness repeats the per-row call sequence of aggregator.handleSendSourceBucket (KeyFromStatshouseMultiItem, Skeys copy/mapping, host and top stag mapping, GetOrCreateMultiItem, MergeWithTLMultiItem) in package agent; the aggregator's mapping cache is simulated by a fixed table (strings prefixed m:)")
	r.Assume("rows of built-in metrics (metric id < 0) produced by sampleBucket itself are judged with the same oracle but the aggregator's built-in-only key amendments (agent env/route/arch, heartbeat host) are not replayed")
	rounds := r.N(800, 40000)
	workers := 8
	if r.Thorough() {
		workers = 16
	}
	r.Parallel(workers, "rounds", func(w *verifkit.Worker) {
		for i := 0; i < rounds/workers; i++ {
			big := r.Thorough() && i%400 == 399
			c02RunRound(r, w, w.Index*1000000+i, big)
		}
	})
}

func c02RunRound(r *verifkit.Run, w *verifkit.Worker, idx int, bigUniques bool) {
	rnd := w.Rnd
	rd := c02NewRound(w, idx, bigUniques)
	nEvents := 10 + rnd.IntN(190)
	if bigUniques {
		nEvents = 1 + rnd.IntN(3)
	}
	for e := 0; e < nEvents; e++ {
		rd.event(w, rd.series[rnd.IntN(len(rd.series))], bigUniques)
	}
	sh := rd.shard
	var buffers data_model.SamplerBuffers
	var scratch []byte
	budgetScratch, sizeScratch := map[int32]uint32{}, map[int32]uint32{}
	for step := 0; step < superQueueLen; step++ {
		sh.mu.Lock()
		n := sh.FlushAllDataSingleStep(false)
		sh.mu.Unlock()
		if n == 0 {
			continue
		}
		bucket := <-sh.BucketsToPreprocess
		// the rows as the agent holds them; sampleBucket clears the map but keeps the items
		items := map[string]*data_model.MultiItem{}
		dup := false
		userRows := 0
		for _, it := range bucket.MultiItems {
			if it.Key.Metric > 0 {
				userRows++
			}
		}
		if userRows == 0 {
			// only self-metrics of earlier sampleBucket calls: sampling them would only breed more of them
			w.Count("buckets.builtin_only_skipped", 1)
			continue
		}
		for _, it := range bucket.MultiItems {
			ks := c02KeyString(it.Key.Metric, it.Key.Tags[:], it.Key.STags[:], it.Key.Timestamp)
			if _, ok := items[ks]; ok {
				dup = true
			}
			items[ks] = it
		}
		if dup {
			r.Violation("C02/agent-bucket/duplicate-key", "two rows of one agent bucket have the same key", map[string]any{"round": rd.desc})
		}
		var sb tlstatshouse.SourceBucket3
		buffers, scratch = sh.sampleBucket(bucket, &sb, buffers, scratch, budgetScratch, sizeScratch, rd.sampleRng)
		w.Count("buckets.sampled", 1)
		if n := len(sb.IngestionStatusOk2); n != 0 {
			// "ingestion status ok" rows travel as (env, metric, float32 count) outside Metrics: a deliberately lossy
			// compact form of a built-in row, not a row with aggregates in the sense of the statement
			r.NotJudged("ingestion_status_ok_compact_rows", int64(n))
		}
		w.Count("rows.in_bucket", int64(len(items)))

		// ---- the wire
		wire := sb.WriteTL1Boxed(nil)
		framed := compress.CompressAndFrame(wire)
		originalSize, compressedData, err := compress.DeFrame(framed)
		if err != nil {
			r.Violation("C02/wire/deframe", err.Error(), map[string]any{"round": rd.desc})
			continue
		}
		args := tlstatshouse.SendSourceBucket3{Time: bucket.Time, OriginalSize: originalSize, CompressedData: string(compressedData)}
		req := args.WriteTL1Boxed(nil)
		var argsB tlstatshouse.SendSourceBucket3Bytes
		if _, err := argsB.ReadTL1Boxed(req); err != nil {
			r.Violation("C02/wire/request-decode", err.Error(), map[string]any{"round": rd.desc})
			continue
		}
		bucketBytes, err := compress.Decompress(argsB.OriginalSize, argsB.CompressedData)
		if err != nil {
			r.Violation("C02/wire/decompress", err.Error(), map[string]any{"round": rd.desc})
			continue
		}
		var recv tlstatshouse.SourceBucket3Bytes
		if _, err := recv.ReadTL1Boxed(bucketBytes); err != nil {
			r.Violation("C02/wire/bucket-decode", err.Error(), map[string]any{"round": rd.desc})
			continue
		}
		if len(recv.Metrics) != len(sb.Metrics) {
			r.Violation("C02/wire/row-count", fmt.Sprintf("sent %d rows, decoded %d", len(sb.Metrics), len(recv.Metrics)), map[string]any{"round": rd.desc})
			continue
		}
		seen := map[string]bool{}
		for i := range recv.Metrics {
			ti := &recv.Metrics[i]
			// identify the agent row this TL row was made from (by the key as the agent encodes it)
			sk := make([]string, len(ti.Skeys))
			for j, b := range ti.Skeys {
				sk[j] = string(b)
			}
			ts := argsB.Time
			if ti.IsSetT() {
				ts = ti.T
			}
			ks := c02KeyString(ti.Metric, ti.Keys, sk, ts)
			src := items[ks]
			if src == nil || seen[ks] {
				r.Violation("C02/key/no-source-row", "a transferred row does not correspond to exactly one row the agent kept (key changed by encoding)",
					map[string]any{"round": rd.desc, "tl_key": ks, "bucket_time": bucket.Time, "agent_keys": c02Keys(items)})
				continue
			}
			seen[ks] = true
			c02CheckRow(r, w, rd, src, ti, argsB.Time)
		}
		w.Count("rows.sent", int64(len(recv.Metrics)))
		w.Count("rows.discarded_by_sampling_or_status_ok", int64(len(items)-len(recv.Metrics)))
	}
}

func c02Keys(items map[string]*data_model.MultiItem) []string {
	var ks []string
	for k := range items {
		ks = append(ks, k)
	}
	sort.Strings(ks)
	if len(ks) > 40 {
		ks = ks[:40]
	}
	return ks
}
