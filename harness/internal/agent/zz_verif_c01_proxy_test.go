//go:build verif

package agent

// C01 — TCP proxy between the agents and one aggregator replica.
// Modes: forward · cut (close every connection now) · swallow (keep forwarding requests,
// drop every response byte, cut after a hold time: "request forwarded, response lost") ·
// delay (hold client→replica bytes for a while: buckets arrive after the short window) ·
// down (accept+close, existing connections cut).

import (
	"io"
	"net"
	"sync"
	"time"
)

type c01Proxy struct {
	ln     net.Listener
	target string

	mu         sync.Mutex
	conns      map[net.Conn]struct{}
	down       bool
	swallow    bool
	delayUntil time.Time
	closed     bool

	accepted  int
	cuts      int
	swallowed int64 // response bytes dropped
	delayed   int64 // request bytes held
}

func c01NewProxy(target string) (*c01Proxy, error) {
	ln, err := net.Listen("tcp4", "127.0.0.1:0")
	if err != nil {
		return nil, err
	}
	p := &c01Proxy{ln: ln, target: target, conns: map[net.Conn]struct{}{}}
	go p.acceptLoop()
	return p, nil
}

func (p *c01Proxy) addr() string { return p.ln.Addr().String() }

func (p *c01Proxy) acceptLoop() {
	for {
		c, err := p.ln.Accept()
		if err != nil {
			return
		}
		p.mu.Lock()
		down := p.down || p.closed
		p.accepted++
		p.mu.Unlock()
		if down {
			c01Abort(c)
			continue
		}
		u, err := net.DialTimeout("tcp4", p.target, 2*time.Second)
		if err != nil {
			c01Abort(c)
			continue
		}
		p.mu.Lock()
		if p.down || p.closed {
			p.mu.Unlock()
			c01Abort(c)
			c01Abort(u)
			continue
		}
		p.conns[c] = struct{}{}
		p.conns[u] = struct{}{}
		p.mu.Unlock()
		go p.pump(u, c, true)
		go p.pump(c, u, false)
	}
}

func c01Abort(c net.Conn) {
	if tc, ok := c.(*net.TCPConn); ok {
		_ = tc.SetLinger(0)
	}
	_ = c.Close()
}

// pump copies src→dst.  request==true is the agent→replica direction.
func (p *c01Proxy) pump(dst, src net.Conn, request bool) {
	buf := make([]byte, 64<<10)
	defer func() {
		p.mu.Lock()
		delete(p.conns, dst)
		delete(p.conns, src)
		p.mu.Unlock()
		c01Abort(dst)
		c01Abort(src)
	}()
	for {
		n, err := src.Read(buf)
		if n > 0 {
			if request {
				for {
					p.mu.Lock()
					wait := time.Until(p.delayUntil)
					if wait > 0 {
						p.delayed += int64(n)
					}
					p.mu.Unlock()
					if wait <= 0 {
						break
					}
					time.Sleep(wait)
				}
			} else {
				p.mu.Lock()
				sw := p.swallow
				if sw {
					p.swallowed += int64(n)
				}
				p.mu.Unlock()
				if sw {
					continue
				}
			}
			if _, werr := dst.Write(buf[:n]); werr != nil {
				return
			}
		}
		if err != nil {
			if err == io.EOF {
				// half-close is not propagated: RPC peers never half-close
			}
			return
		}
	}
}

func (p *c01Proxy) cut() {
	p.mu.Lock()
	cs := make([]net.Conn, 0, len(p.conns))
	for c := range p.conns {
		cs = append(cs, c)
	}
	p.conns = map[net.Conn]struct{}{}
	p.cuts++
	p.mu.Unlock()
	for _, c := range cs {
		c01Abort(c)
	}
}

func (p *c01Proxy) setDown(d bool) {
	p.mu.Lock()
	p.down = d
	p.mu.Unlock()
	if d {
		p.cut()
	}
}

// startSwallow drops responses from now on; endSwallow cuts the connections whose
// responses were dropped and returns to forwarding.
func (p *c01Proxy) startSwallow() {
	p.mu.Lock()
	p.swallow = true
	p.mu.Unlock()
}

func (p *c01Proxy) endSwallow() {
	// connections with lost responses cannot be used any more: the flag is cleared and
	// the connection set taken under one lock, so that no connection survives with a hole
	p.mu.Lock()
	if !p.swallow { // already ended (heal): never cut a healthy connection
		p.mu.Unlock()
		return
	}
	p.swallow = false
	cs := make([]net.Conn, 0, len(p.conns))
	for c := range p.conns {
		cs = append(cs, c)
	}
	p.conns = map[net.Conn]struct{}{}
	p.cuts++
	p.mu.Unlock()
	for _, c := range cs {
		c01Abort(c)
	}
}

func (p *c01Proxy) delay(d time.Duration) {
	p.mu.Lock()
	if t := time.Now().Add(d); t.After(p.delayUntil) {
		p.delayUntil = t
	}
	p.mu.Unlock()
}

func (p *c01Proxy) heal() {
	p.mu.Lock()
	wasSwallow := p.swallow
	p.down = false
	p.delayUntil = time.Time{}
	p.mu.Unlock()
	if wasSwallow {
		p.endSwallow()
	}
}

func (p *c01Proxy) close() {
	p.mu.Lock()
	p.closed = true
	p.mu.Unlock()
	_ = p.ln.Close()
	p.cut()
}

func (p *c01Proxy) stats() (accepted, cuts int, swallowed, delayed int64) {
	p.mu.Lock()
	defer p.mu.Unlock()
	return p.accepted, p.cuts, p.swallowed, p.delayed
}
