//go:build verif

package agent

import (
	"fmt"
	"math/rand/v2"
	"strconv"
	"testing"

	"github.com/VKCOM/statshouse/internal/data_model"
	"github.com/VKCOM/statshouse/internal/format"
	"github.com/VKCOM/statshouse/internal/sharding"
	"github.com/VKCOM/statshouse/internal/zzverif/verifkit"
)

var c10AgentStrategies = []string{format.ShardByTagsHash, format.ShardFixed, format.ShardByMetricID, format.ShardBuiltinDist, "garbage"}

func c10MakeAgent(numShards int, shardByMetricCount uint32) (*Agent, map[*Shard]int, map[*ShardReplica]int) {
	a := &Agent{shardByMetricCount: shardByMetricCount}
	si := map[*Shard]int{}
	ri := map[*ShardReplica]int{}
	for i := 0; i < numShards; i++ {
		sh := &Shard{agent: a, ShardNum: i, ShardKey: int32(i + 1)}
		a.Shards = append(a.Shards, sh)
		si[sh] = i
		for j := 0; j < 3; j++ {
			sr := &ShardReplica{agent: a, ShardReplicaNum: i*3 + j, ShardKey: int32(i + 1), ReplicaKey: int32(j + 1)}
			sr.alive.Store(true)
			a.ShardReplicas = append(a.ShardReplicas, sr)
			ri[sr] = i*3 + j
		}
	}
	return a, si, ri
}

// TestVerifC10 (unit "agent"): Agent.shard and Agent.getShardReplicaForSecond on agents with
// 1..64 shards: shard inside the configured count and independent of the timestamp, equal to
// the API shard for fixed / by-metric sharding, secondary != primary; primary replica = t mod 3,
// spare != primary and alternating between the two other replicas.
func TestVerifC10(t *testing.T) {
	r := verifkit.Start(t, "C10", "agent")
	defer r.Finish()
	r.SetRule("agents with 1..64 shards (shard-by-metric count <= shards) x random metas (all strategies, fixed key / second fixed key 0..69) x keys x two timestamps; replica choice for every shard x 3000 consecutive and random seconds x all 8 alive/dead patterns of the 3 replicas. Non-trivial = shard answered ok / a replica was chosen; distinct = (shards, meta, key) resp. (second mod 6, alive pattern, shard).")
	n := r.N(100000, 5000000)
	workers := 8
	r.Parallel(workers, "shard", func(w *verifkit.Worker) {
		rnd := w.Rnd
		var scratch []byte
		for i := 0; i < n/workers; {
			numShards := 1 + rnd.IntN(64)
			byMetric := uint32(1 + rnd.IntN(numShards))
			if rnd.IntN(2) == 0 {
				byMetric = uint32(numShards)
			}
			a, si, _ := c10MakeAgent(numShards, byMetric)
			for rep := 0; rep < 200 && i < n/workers; rep, i = rep+1, i+1 {
				meta := &format.MetricMetaValue{ShardStrategy: c10AgentStrategies[rnd.IntN(len(c10AgentStrategies))]}
				meta.MetricID = int32(rnd.Uint32())
				if rnd.IntN(2) == 0 {
					meta.MetricID = int32(rnd.IntN(100000)) - 2000
				}
				if rnd.IntN(3) == 0 {
					meta.ShardFixedKey = uint32(rnd.IntN(70))
				}
				if meta.ShardStrategy == format.ShardFixed {
					meta.ShardNum = uint32(rnd.IntN(70))
				}
				if rnd.IntN(2) == 0 {
					meta.ShardFixedKey2 = uint32(rnd.IntN(70))
				}
				var k data_model.Key
				k.Metric = meta.MetricID
				for j, nt := 0, rnd.IntN(5); j < nt; j++ {
					k.Tags[rnd.IntN(format.MaxTags)] = int32(rnd.Uint32())
				}
				if rnd.IntN(4) == 0 {
					k.STags[rnd.IntN(format.MaxTags)] = "s" + strconv.Itoa(rnd.IntN(100))
				}
				k.Timestamp = rnd.Uint32()
				wit := func() map[string]any {
					return map[string]any{"shards": numShards, "shard_by_metric_count": byMetric, "strategy": meta.ShardStrategy, "metric_id": meta.MetricID,
						"shard": meta.ShardFixedKey, "shard2": meta.ShardFixedKey2, "shard_num": meta.ShardNum, "key": fmt.Sprintf("%+v", k)}
				}
				s1, ok, s2 := a.shard(&k, meta, &scratch)
				i1, in := si[s1]
				if s1 == nil || !in {
					r.Violation("C10/agent/shard-outside-count", "Agent.shard returned a shard that is not one of the configured shards", wit())
					continue
				}
				k2 := k
				k2.Timestamp = rnd.Uint32()
				t1, tok, t2 := a.shard(&k2, meta, &scratch)
				if t1 != s1 || tok != ok || t2 != s2 {
					r.Violation("C10/agent/shard-depends-on-timestamp", fmt.Sprintf("shard %d,%v at timestamp %d, %d,%v at %d", i1, ok, k.Timestamp, si[t1], tok, k2.Timestamp), wit())
				}
				if ok {
					fixedOrByID := meta.ShardFixedKey > 0 || meta.ShardStrategy == format.ShardFixed || meta.ShardStrategy == format.ShardByMetricID
					if fixedOrByID {
						// what the API does (chutil.selectCH): shard count = shard-by-metric count, shards >= configured shards mean "all"
						api := meta.Shard(int(byMetric))
						if !meta.Sharded() || api != i1 {
							r.Violation("C10/agent/api-shard-differs", fmt.Sprintf("agent writes to shard %d, API reads shard %d (Sharded=%v)", i1, api, meta.Sharded()), wit())
						}
						w.Count("agent_vs_api_compared", 1)
					}
					if raw, rok := sharding.Shard(&k, meta, byMetric, nil); !rok || int(raw) != i1 {
						r.Violation("C10/agent/differs-from-sharding", fmt.Sprintf("Agent.shard %d, sharding.Shard %d,%v", i1, raw, rok), wit())
					}
				} else {
					w.Count("shard_not_ok", 1)
					if i1 != 0 {
						r.Violation("C10/agent/invalid-not-shard0", fmt.Sprintf("invalid shard answered with shard %d", i1), wit())
					}
				}
				if s2 != nil {
					i2, in2 := si[s2]
					if !in2 {
						r.Violation("C10/agent/secondary-outside-count", "secondary shard is not one of the configured shards", wit())
					} else if i2 == i1 {
						r.Violation("C10/agent/secondary-equals-primary", fmt.Sprintf("secondary shard %d equals the primary", i2), wit())
					} else if meta.ShardFixedKey2 == 0 || int(meta.ShardFixedKey2)-1 != i2 {
						r.Violation("C10/agent/secondary-wrong", fmt.Sprintf("secondary shard %d, configured shard2=%d", i2, meta.ShardFixedKey2), wit())
					}
					w.Count("secondary_shards", 1)
				} else if meta.ShardFixedKey2 > 0 && int(meta.ShardFixedKey2)-1 < numShards && int(meta.ShardFixedKey2)-1 != i1 {
					r.Violation("C10/agent/secondary-missing", fmt.Sprintf("shard2=%d configured and different from the primary %d but no secondary shard returned", meta.ShardFixedKey2, i1), wit())
				}
				if w.Index == 0 && i < 2 {
					r.Sample(map[string]any{"case": wit(), "shard": i1, "ok": ok, "has_secondary": s2 != nil})
				}
				w.Case(ok, fmt.Sprintf("%d|%d|%s|%d|%d|%d|%d|%v|%v", numShards, byMetric, meta.ShardStrategy, meta.MetricID, meta.ShardFixedKey, meta.ShardFixedKey2, meta.ShardNum, k.Tags, k.STags))
			}
		}
	})

	// replicas
	nSec := r.N(3000, 200000)
	r.Parallel(workers, "replica", func(w *verifkit.Worker) {
		rnd := w.Rnd
		numShards := 1 + rnd.IntN(16)
		a, _, ri := c10MakeAgent(numShards, uint32(numShards))
		base := rnd.Uint32()
		if w.Index == 0 {
			base = 0
		}
		if w.Index == 1 {
			base = ^uint32(0) - uint32(2*nSec) // the last seconds before the uint32 wrap
		}
		for j := 0; j < nSec; j++ {
			ts := base + uint32(j)
			if j >= nSec*3/4 {
				ts = rnd.Uint32()
			}
			shard := rnd.IntN(numShards)
			wit := func(p int) map[string]any {
				return map[string]any{"shards": numShards, "shard": shard, "timestamp": ts, "alive_pattern": fmt.Sprintf("%03b", p)}
			}
			for pattern := 0; pattern < 8; pattern++ {
				for rep := 0; rep < 3; rep++ {
					a.ShardReplicas[shard*3+rep].alive.Store(pattern&(1<<rep) != 0)
				}
				sr, spare := a.getShardReplicaForSecond(shard, ts)
				primary := int(uint64(ts) % 3)
				primaryAlive := pattern&(1<<primary) != 0
				sr2, spare2 := a.getShardReplicaForSecond(shard, ts)
				if sr2 != sr || spare2 != spare {
					r.Violation("C10/replica/not-deterministic", "two calls for the same second and alive pattern disagree", wit(pattern))
				}
				if sr == nil {
					if spare {
						r.Violation("C10/replica/nil-spare", "no replica but spare flag set", wit(pattern))
					}
					if primaryAlive {
						r.Violation("C10/replica/primary-alive-not-chosen", "primary replica is alive but no replica was chosen", wit(pattern))
					}
					if pattern == 7&^(1<<primary) {
						r.Violation("C10/replica/no-spare", fmt.Sprintf("second %d: primary %d dead, both other replicas alive, but no spare was chosen", ts, primary), wit(pattern))
					}
					w.Case(false, "")
					continue
				}
				idx, in := ri[sr]
				if !in || idx/3 != shard {
					r.Violation("C10/replica/wrong-shard", fmt.Sprintf("replica %d does not belong to shard %d", idx, shard), wit(pattern))
					continue
				}
				rep := idx % 3
				if pattern&(1<<rep) == 0 {
					r.Violation("C10/replica/dead-chosen", fmt.Sprintf("replica %d chosen although dead", rep), wit(pattern))
				}
				if !spare {
					if rep != primary {
						r.Violation("C10/replica/primary-not-t-mod-3", fmt.Sprintf("second %d went to replica %d as primary, t mod 3 = %d", ts, rep, primary), wit(pattern))
					}
					if !primaryAlive {
						r.Violation("C10/replica/dead-primary-not-spare", "primary dead but the chosen replica is not flagged spare", wit(pattern))
					}
				} else {
					if primaryAlive {
						r.Violation("C10/replica/spare-while-primary-alive", "spare chosen although the primary is alive", wit(pattern))
					}
					if rep == primary {
						r.Violation("C10/replica/spare-equals-primary", fmt.Sprintf("spare replica %d equals the primary", rep), wit(pattern))
					}
					// seconds with the same primary: t and t+3 (no uint32 wrap); their spares must differ,
					// so that the two remaining replicas share the spare traffic
					if pattern == 7&^(1<<primary) && ts <= ^uint32(0)-3 {
						sr3, spare3 := a.getShardReplicaForSecond(shard, ts+3)
						if sr3 == nil || !spare3 {
							r.Violation("C10/replica/no-spare", fmt.Sprintf("second %d: primary dead, both others alive, but no spare chosen", ts+3), wit(pattern))
						} else if ri[sr3]%3 == rep {
							r.Violation("C10/replica/spare-not-alternating", fmt.Sprintf("seconds %d and %d (same primary %d) use the same spare %d: the other replica gets no spare traffic", ts, ts+3, primary, rep), wit(pattern))
						}
						w.Count("spare_alternation_checked", 1)
					}
					w.Count("spare_chosen", 1)
				}
				w.Case(true, fmt.Sprintf("r|%d|%d|%d", ts%6, pattern, shard))
			}
			if w.Index == 0 && j < 2 {
				a.ShardReplicas[shard*3+int(ts%3)].alive.Store(false)
				sr, sp := a.getShardReplicaForSecond(shard, ts)
				r.Sample(map[string]any{"timestamp": ts, "shard": shard, "primary_dead_spare_replica": ri[sr] % 3, "spare": sp})
			}
		}
	})
	var _ = rand.IntN
}
