//go:build verif

package agent

// C01, unit "conveyor" — the historic conveyor of one real Shard in isolation:
// a real Agent built by MakeAgent (in-aggregator mode: no autoconfiguration RPC), its real
// disk cache, the real goroutines goSendHistoric × k and goEraseHistoric, and a scripted
// in-process fake aggregator behind the rpc.Client interface (discard / keep / RPC error /
// slow, per PRNG plan).  Traffic is *sparse*: single seconds followed by silence, bursts
// followed by silence, seconds appended milliseconds after an isolated one, seconds
// found on disk at start, seconds outside the historic window.  Nothing else signals the
// condition variable (no flusher), so a wake-up that is consumed and not passed on leaves a
// second queued while every sender sleeps.
//
// Oracle, evaluated when the fake aggregator has been healthy (discard to everything) and
// the conveyor idle for c01cvIdleBound: every second handed to the conveyor is exactly one of
// {acknowledged with discard and erased, thrown out by the window check and counted, still
// on disk}; a second that is still on disk then is a stall (queued, or lost from memory).

import (
	"context"
	"fmt"
	"math/rand/v2"
	"os"
	"sort"
	"strings"
	"sync"
	"testing"
	"time"

	"github.com/VKCOM/tl/pkg/rpc"

	"github.com/VKCOM/statshouse/internal/data_model"
	"github.com/VKCOM/statshouse/internal/data_model/gen2/tlstatshouse"
	"github.com/VKCOM/statshouse/internal/format"
	"github.com/VKCOM/statshouse/internal/pcache"
	"github.com/VKCOM/statshouse/internal/zzverif/verifkit"
)

const (
	c01cvIdleBound  = 20 * time.Second // healthy aggregator, no send activity, second still not delivered
	c01cvIdlePolls  = 100              // … and the harness itself polled at least this often meanwhile
	c01cvHardCap    = 50 * time.Second
	c01cvWindow     = 3600 // historic window of the agent under test, seconds
	c01cvAnsDiscard = 'd'
	c01cvAnsKeep    = 'k'
	c01cvAnsError   = 'e'
	c01cvAnsSlow    = 's' // discard after a delay
)

// ---- fake aggregator

type c01cvAgg struct {
	rpc.Client // only GetRequest/PutResponse/Do are used by tlstatshouse.Client

	mu           sync.Mutex
	plan         []byte // answers of the faulty phase, consumed in request order
	healed       bool
	requests     int
	inflight     int
	lastActivity time.Time
	sent         map[uint32]int
	discarded    map[uint32]int
	answers      map[byte]int
	resentAfter  int // requests for a second that was already answered with discard
	nonHistoric  int
}

func (a *c01cvAgg) GetRequest() *rpc.Request  { return &rpc.Request{} }
func (a *c01cvAgg) PutResponse(*rpc.Response) {}
func (a *c01cvAgg) Logf(string, ...any)       {}

func (a *c01cvAgg) Do(ctx context.Context, _ string, _ string, req *rpc.Request) (*rpc.Response, error) {
	var args tlstatshouse.SendSourceBucket3
	if _, err := args.ReadTL1Boxed(req.Body); err != nil {
		return nil, err
	}
	a.mu.Lock()
	a.requests++
	a.inflight++
	a.lastActivity = time.Now()
	a.sent[args.Time]++
	if a.discarded[args.Time] > 0 {
		a.resentAfter++
	}
	if !args.IsSetHistoric() {
		a.nonHistoric++
	}
	ans := byte(c01cvAnsDiscard)
	if !a.healed && len(a.plan) > 0 {
		ans, a.plan = a.plan[0], a.plan[1:]
	}
	a.answers[ans]++
	a.mu.Unlock()
	if ans == c01cvAnsSlow {
		select {
		case <-time.After(400 * time.Millisecond):
		case <-ctx.Done():
		}
		ans = c01cvAnsDiscard
	}
	a.mu.Lock()
	a.inflight--
	a.lastActivity = time.Now()
	if ans == c01cvAnsDiscard {
		a.discarded[args.Time]++ // recorded before the agent can see the reply
	}
	a.mu.Unlock()
	switch ans {
	case c01cvAnsError:
		return nil, &rpc.Error{Code: data_model.RPCErrorInsert, Description: "verif: insert failed"}
	case c01cvAnsKeep:
		var resp tlstatshouse.SendSourceBucket3Response
		resp.Warning = "verif: keep"
		body, err := args.WriteResultTL1(nil, resp)
		return &rpc.Response{Body: body}, err
	}
	var resp tlstatshouse.SendSourceBucket3Response
	resp.SetDiscard(true)
	body, err := args.WriteResultTL1(nil, resp)
	return &rpc.Response{Body: body}, err
}

// ---- one world

type c01cvStep struct {
	Kind    string `json:"kind"` // single | burst | old | hold
	N       int    `json:"n,omitempty"`
	PauseMs int    `json:"pause_ms"`
}

type c01cvWorld struct {
	Index     int         `json:"index"`
	Senders   int         `json:"senders"`
	EraserPos int         `json:"eraser_start_position"` // how many senders are started (and wait) before the eraser
	Preseed   int         `json:"preseeded_on_disk"`
	Plan      string      `json:"fault_plan"`
	Steps     []c01cvStep `json:"steps"`
}

func c01cvGenWorld(rnd *rand.Rand, idx int) *c01cvWorld {
	w := &c01cvWorld{Index: idx}
	w.Senders = []int{1, 2, 2, 3, 4, data_model.MaxHistorySendStreams}[rnd.IntN(6)]
	switch rnd.IntN(4) {
	case 0:
		w.EraserPos = w.Senders // production order: senders first
	default:
		w.EraserPos = rnd.IntN(min(w.Senders, 3) + 1)
	}
	if rnd.IntN(4) == 0 {
		w.Preseed = 1 + rnd.IntN(5)
	}
	var plan []byte
	if rnd.IntN(3) != 0 {
		for i, n := 0, rnd.IntN(8); i < n; i++ {
			plan = append(plan, []byte{c01cvAnsDiscard, c01cvAnsDiscard, c01cvAnsKeep, c01cvAnsError, c01cvAnsSlow}[rnd.IntN(5)])
		}
	}
	w.Plan = string(plan)
	// the eraser is the longest waiter after EraserPos isolated wake-ups: make sure that many
	// isolated single seconds are appended while the conveyor is idle
	singles := w.EraserPos + 1 + rnd.IntN(3)
	if w.Senders == data_model.MaxHistorySendStreams && w.EraserPos == w.Senders {
		singles = rnd.IntN(4) // reaching the eraser needs 25 isolated wake-ups: not in this world
	}
	for i := 0; i < singles; i++ {
		w.Steps = append(w.Steps, c01cvStep{Kind: "single", PauseMs: 200 + rnd.IntN(300)})
	}
	extras := rnd.IntN(4)
	if rnd.IntN(5) < 2 {
		// "pure" world: exactly EraserPos+1 isolated seconds, healthy aggregator, nothing else — the last
		// isolated second is the one whose wake-up goes to the eraser, and nothing is appended afterwards
		w.Steps = w.Steps[:0]
		w.Plan = ""
		if w.EraserPos > 4 {
			w.EraserPos = rnd.IntN(3)
		}
		for i := 0; i <= w.EraserPos; i++ {
			w.Steps = append(w.Steps, c01cvStep{Kind: "single", PauseMs: 300 + rnd.IntN(300)})
		}
		extras = 0
	}
	for i, n := 0, extras; i < n; i++ {
		var st c01cvStep
		switch rnd.IntN(4) {
		case 0:
			st = c01cvStep{Kind: "burst", N: 2 + rnd.IntN(5), PauseMs: 150 + rnd.IntN(500)}
		case 1:
			st = c01cvStep{Kind: "old", PauseMs: 100 + rnd.IntN(300)}
		case 2:
			st = c01cvStep{Kind: "hold", N: 1 + rnd.IntN(3), PauseMs: 200 + rnd.IntN(400)}
		default:
			st = c01cvStep{Kind: "single", PauseMs: 200 + rnd.IntN(300)}
		}
		w.Steps = append(w.Steps, st)
	}
	rnd.Shuffle(len(w.Steps), func(i, j int) { w.Steps[i], w.Steps[j] = w.Steps[j], w.Steps[i] })
	return w
}

type c01cvSecond struct {
	Time   uint32 `json:"time"`
	Class  string `json:"class"` // single | burst | hold | preseed | old
	AtMs   int64  `json:"handed_at_ms"`
	State  string `json:"state_at_end"`
	Sent   int    `json:"requests"`
	Acked  int    `json:"discard_replies"`
	Queued bool   `json:"in_historic_queue"`
	OnDisk bool   `json:"in_disk_cache_index"`
}

func c01cvRunWorld(r *verifkit.Run, w *c01cvWorld) {
	dir := r.MkTmp(fmt.Sprintf("c01cv-%d-", w.Index))
	defer os.RemoveAll(dir)
	start := time.Now()
	ms := func() int64 { return time.Since(start).Milliseconds() }
	base := uint32(time.Now().Unix()) - 600 // all in-window seconds are a few minutes old and distinct
	nextT := base
	var seconds []*c01cvSecond
	newSecond := func(class string) *c01cvSecond {
		nextT++
		s := &c01cvSecond{Time: nextT, Class: class, AtMs: ms()}
		if class == "old" {
			s.Time = base - c01cvWindow - 300 - uint32(len(seconds))*3
		}
		seconds = append(seconds, s)
		return s
	}
	infra := func(err error) { r.Inconclusive(fmt.Sprintf("conveyor world %d: %v", w.Index, err)) }

	if w.Preseed > 0 { // seconds a previous run left on disk
		d, err := MakeDiskBucketStorage(dir, 1, func(string, ...interface{}) {})
		if err != nil {
			infra(err)
			return
		}
		for i := 0; i < w.Preseed; i++ {
			s := newSecond("preseed")
			if _, err := d.PutBucket(0, s.Time, c01MarkerBucket(int(s.Time%100000), 1, s.Time)); err != nil {
				infra(err)
				return
			}
		}
		_ = d.Close()
	}
	cfg := DefaultConfig()
	cfg.Cluster = "verifcv"
	cfg.HistoricWindow = c01cvWindow
	agg := &c01cvAgg{plan: []byte(w.Plan), sent: map[uint32]int{}, discarded: map[uint32]int{}, answers: map[byte]int{}, lastActivity: time.Now()}
	var logMu sync.Mutex
	var logLines []string
	a, err := MakeAgent("tcp4", dir, "", nil, cfg, "verifconveyor", format.TagValueIDComponentAgent, nil,
		pcache.NewMappingsCache(data_model.NewChunkedStorageNop(), 1<<20, 86400), nil, nil,
		func(f string, args ...interface{}) {
			logMu.Lock()
			if len(logLines) < 200 {
				logLines = append(logLines, fmt.Sprintf(f, args...))
			}
			logMu.Unlock()
		}, nil,
		&tlstatshouse.GetConfigResult3{Addresses: []string{"verif-a:1", "verif-b:1", "verif-c:1"}, ShardByMetricCount: 1}, nil)
	if err != nil {
		infra(err)
		return
	}
	if len(a.Shards) != 1 || a.diskBucketCache == nil {
		infra(fmt.Errorf("unexpected agent shape"))
		return
	}
	for _, sr := range a.ShardReplicas {
		sr.mu.Lock()
		sr.clientField.Client = agg
		sr.mu.Unlock()
	}
	sh := a.Shards[0]
	// the goroutines Agent.Run starts for the historic conveyor of a shard, in a chosen order.
	// Never cancelled (goEraseHistoric's cancel path unlocks an unlocked mutex); they idle after the world ends.
	ctx := context.Background()
	var wg sync.WaitGroup
	for i := 0; i <= w.Senders; i++ {
		wg.Add(1)
		if i == w.EraserPos {
			go sh.goEraseHistoric(&wg, ctx)
		} else {
			go sh.goSendHistoric(&wg, ctx)
		}
		time.Sleep(25 * time.Millisecond) // so that they queue up on the condition in this order
	}
	time.Sleep(150 * time.Millisecond)

	hand := func(s *c01cvSecond, saved compressedBucketData) {
		// exactly what goSendRecent / sendToSenders do with a second that was not acknowledged
		if saved.id == 0 {
			saved = sh.diskCachePutWithLog(compressedBucketData{time: s.Time, data: c01MarkerBucket(int(s.Time%100000), 1, s.Time)})
		}
		s.AtMs = ms()
		sh.appendHistoricBucketsToSend(saved)
	}
	for _, st := range w.Steps {
		switch st.Kind {
		case "single":
			hand(newSecond("single"), compressedBucketData{})
		case "old":
			hand(newSecond("old"), compressedBucketData{})
		case "burst":
			for i := 0; i < st.N; i++ {
				hand(newSecond("burst"), compressedBucketData{})
			}
		case "hold":
			// seconds appended a few ms apart right after an isolated one: some of them arrive while whoever was
			// woken for the first one (possibly the eraser, between its pop and its push-back) still holds it.
			// (Holding the eraser there on purpose would need a hook between popOldestHistoricSecondLocked and the
			// re-append in goEraseHistoric: the pop itself takes the disk cache lock, so that lock cannot be used.)
			hand(newSecond("hold"), compressedBucketData{})
			for i := 0; i < st.N; i++ {
				time.Sleep(time.Duration(1+(i*7+w.Index)%9) * time.Millisecond)
				hand(newSecond("hold"), compressedBucketData{})
			}
		}
		time.Sleep(time.Duration(st.PauseMs) * time.Millisecond)
	}
	// ---- the aggregator is healthy from now on and nothing else happens
	agg.mu.Lock()
	agg.healed = true
	agg.mu.Unlock()
	healed := time.Now()
	nowU := uint32(time.Now().Unix())
	inWindow := func(s *c01cvSecond) bool { return s.Time+c01cvWindow > nowU+120 }
	observe := func() (remaining int) {
		disk := map[uint32]bool{}
		dsh := a.diskBucketCache.shards[0]
		dsh.mu.Lock()
		for _, b := range dsh.knownBuckets {
			disk[b.time] = true
		}
		dsh.mu.Unlock()
		queued := map[uint32]bool{}
		sh.mu.Lock()
		for _, cbd := range sh.historicBucketsToSend {
			queued[cbd.time] = true
		}
		sh.mu.Unlock()
		agg.mu.Lock()
		for _, s := range seconds {
			s.Sent, s.Acked = agg.sent[s.Time], agg.discarded[s.Time]
		}
		agg.mu.Unlock()
		for _, s := range seconds {
			s.OnDisk, s.Queued = disk[s.Time], queued[s.Time]
			if s.OnDisk || s.Queued {
				remaining++
			}
		}
		return remaining
	}
	polls, pollsIdle := 0, 0
	var maxGap time.Duration
	lastPoll := time.Now()
	lastSeenActivity := healed
	verdict := "" // "", "stalled", "cap"
	for {
		time.Sleep(100 * time.Millisecond)
		now := time.Now()
		if g := now.Sub(lastPoll); g > maxGap {
			maxGap = g
		}
		lastPoll = now
		polls++
		if observe() == 0 {
			break
		}
		agg.mu.Lock()
		act, inflight := agg.lastActivity, agg.inflight
		agg.mu.Unlock()
		if act.Before(healed) {
			act = healed
		}
		if act.After(lastSeenActivity) || inflight > 0 {
			lastSeenActivity, pollsIdle, maxGap = act, 0, 0
			if inflight > 0 {
				lastSeenActivity = now
			}
		} else {
			pollsIdle++
		}
		if now.Sub(lastSeenActivity) >= c01cvIdleBound && pollsIdle >= c01cvIdlePolls {
			verdict = "stalled"
			break
		}
		if now.Sub(healed) > c01cvHardCap {
			verdict = "cap"
			break
		}
	}
	drainMs := time.Since(healed).Milliseconds()
	observe()
	dropped := sh.HistoricOutOfWindowDropped.Load()

	// ---- judge
	isolated := 0
	for _, st := range w.Steps {
		if st.Kind == "single" {
			isolated++
		}
	}
	eraserTurn := isolated > w.EraserPos
	nOld := 0
	witness := func() map[string]any {
		sh.mu.Lock()
		var q []uint32
		for _, cbd := range sh.historicBucketsToSend {
			q = append(q, cbd.time)
		}
		sh.mu.Unlock()
		agg.mu.Lock()
		ans := map[string]int{}
		for k, v := range agg.answers {
			ans[string(k)] = v
		}
		reqs, inflight, idle := agg.requests, agg.inflight, time.Since(agg.lastActivity).Milliseconds()
		agg.mu.Unlock()
		logMu.Lock()
		ll := append([]string(nil), logLines...)
		logMu.Unlock()
		return map[string]any{"world": w, "seconds": seconds, "historic_queue_at_end": q, "aggregator_answers": ans,
			"aggregator_requests": reqs, "aggregator_requests_in_flight": inflight, "ms_since_last_aggregator_activity": idle,
			"healthy_for_ms": drainMs, "polls": polls, "polls_while_idle": pollsIdle, "max_poll_gap_ms": maxGap.Milliseconds(),
			"out_of_window_dropped_counter": dropped, "agent_log": ll}
	}
	if verdict == "cap" {
		var left []string
		for _, s := range seconds {
			if s.OnDisk || s.Queued {
				left = append(left, fmt.Sprintf("%s:%d(sent %d, acked %d, queued %v, disk %v)", s.Class, s.Time, s.Sent, s.Acked, s.Queued, s.OnDisk))
			}
		}
		agg.mu.Lock()
		idle, reqs := time.Since(agg.lastActivity).Milliseconds(), agg.requests
		agg.mu.Unlock()
		r.Inconclusive(fmt.Sprintf("conveyor world %d (k=%d, p=%d): not drained %d ms after the aggregator became healthy, but send activity never paused for %v (last activity %d ms ago, %d requests, %d idle polls, max poll gap %v): not decided; left: %s",
			w.Index, w.Senders, w.EraserPos, drainMs, c01cvIdleBound, idle, reqs, pollsIdle, maxGap, strings.Join(left, " ")))
	}
	if verdict == "stalled" && maxGap > 2*time.Second {
		r.Inconclusive(fmt.Sprintf("conveyor world %d: harness itself was not scheduled for %v while waiting: machine overloaded, stall not decided", w.Index, maxGap))
		verdict = "cap"
	}
	for _, s := range seconds {
		if s.Class == "old" {
			nOld++
		}
		switch {
		case s.Class == "old":
			s.State = "out-of-window"
			if s.Sent > 0 {
				s.State = "out-of-window-but-sent"
			}
			if s.OnDisk {
				s.State = "out-of-window-still-on-disk"
			}
		case s.Acked > 0 && !s.OnDisk:
			s.State = "discarded-and-erased"
		case s.Acked > 0 && s.OnDisk:
			s.State = "discarded-not-erased"
		case !s.OnDisk:
			s.State = "erased-without-discard"
		case s.Queued:
			s.State = "queued"
		default:
			s.State = "on-disk-not-queued"
		}
		if verdict == "cap" && s.State != "discarded-and-erased" && s.State != "out-of-window" && s.State != "erased-without-discard" {
			r.NotJudged("conveyor-second-while-not-decided", 1)
			continue
		}
		r.Case(eraserTurn || s.Class != "single" || w.Plan != "",
			fmt.Sprintf("cv|k%d|p%d|%s|%s|plan%d|pre%d", min(w.Senders, 5), min(w.EraserPos, 4), s.Class, s.State, min(len(w.Plan), 3), min(w.Preseed, 1)))
		switch s.State {
		case "discarded-and-erased", "out-of-window":
		case "erased-without-discard":
			r.Violation("C01/conveyor/erased-without-discard", fmt.Sprintf("conveyor world %d: second %d left the disk cache although no aggregator ever answered discard for it and it is inside the historic window", w.Index, s.Time), witness())
		case "queued":
			if inWindow(s) {
				r.Violation("C01/conveyor/stalled-with-idle-senders", fmt.Sprintf("conveyor world %d: second %d sits in the historic queue, the aggregator answered discard to everything for %d ms, no request was made for the last %v (%d polls): every historic sender sleeps (lost wake-up)", w.Index, s.Time, drainMs, c01cvIdleBound, pollsIdle), witness())
			}
		case "on-disk-not-queued":
			if inWindow(s) {
				r.Violation("C01/conveyor/on-disk-but-not-queued", fmt.Sprintf("conveyor world %d: second %d is still in the disk cache but in no queue and in no request for %v with a healthy aggregator: the conveyor forgot it", w.Index, s.Time, c01cvIdleBound), witness())
			}
		case "discarded-not-erased":
			r.Violation("C01/conveyor/not-erased-after-discard", fmt.Sprintf("conveyor world %d: second %d was acknowledged with discard but is still in the disk cache after %v of inactivity", w.Index, s.Time, c01cvIdleBound), witness())
		case "out-of-window-but-sent":
			r.NotJudged("conveyor-out-of-window-second-was-sent", 1)
		case "out-of-window-still-on-disk":
			if verdict == "stalled" {
				r.Violation("C01/conveyor/stalled-with-idle-senders", fmt.Sprintf("conveyor world %d: out-of-window second %d was neither thrown out nor sent", w.Index, s.Time), witness())
			}
		}
	}
	if verdict == "" && dropped != int64(nOld) {
		r.Violation("C01/conveyor/out-of-window-drop-miscounted", fmt.Sprintf("conveyor world %d: %d seconds outside the historic window were handed over, HistoricOutOfWindowDropped is %d", w.Index, nOld, dropped), witness())
	}
	if r.WantSample() && eraserTurn {
		r.Sample(map[string]any{"world": w, "seconds": seconds, "drain_ms": drainMs})
	}
	agg.mu.Lock()
	for k, v := range agg.answers {
		r.Count("conveyor.answer."+map[byte]string{c01cvAnsDiscard: "discard", c01cvAnsKeep: "keep", c01cvAnsError: "rpc_error", c01cvAnsSlow: "slow_discard"}[k], int64(v))
	}
	r.Count("conveyor.requests", int64(agg.requests))
	r.Count("conveyor.requests_for_already_discarded_second", int64(agg.resentAfter))
	r.Count("conveyor.requests_not_flagged_historic", int64(agg.nonHistoric))
	agg.mu.Unlock()
	r.Count("conveyor.worlds", 1)
	r.Count("conveyor.seconds", int64(len(seconds)))
	r.Count("conveyor.seconds_out_of_window", int64(nOld))
	r.Count("conveyor.seconds_preseeded_on_disk", int64(w.Preseed))
	if eraserTurn {
		r.Count("conveyor.worlds_where_the_eraser_was_longest_waiter_for_an_isolated_second", 1)
	}
	r.Count("conveyor.out_of_window_dropped", dropped)
	r.MaxCounter("conveyor.drain_ms.max", drainMs)
	var kinds []string
	for _, st := range w.Steps {
		kinds = append(kinds, st.Kind)
	}
	sort.Strings(kinds)
	r.Shape(fmt.Sprintf("cv:k%d:p%d:%s:%s", w.Senders, w.EraserPos, strings.Join(kinds, ","), w.Plan))
}

func TestVerifC01Conveyor(t *testing.T) {
	r := verifkit.Start(t, "C01", "conveyor")
	defer r.Finish()
	r.SetRule("one case per second handed to the historic conveyor of an isolated real Shard (real disk cache, goSendHistoric × k, goEraseHistoric, scripted fake aggregator): " +
		"after the aggregator has answered discard to everything and the conveyor was idle for 20 s it must be acknowledged-and-erased or counted as out of window; " +
		"non-trivial when the eraser was the longest waiter for an isolated second, or the second came in a burst / while the eraser was held / from disk / outside the window / with faulty answers; " +
		"abstraction (senders, eraser start position, class, end state, plan length, preseed)")
	r.Assume("conveyor unit: the shard's flusher is not running, so nothing but appendHistoricBucketsToSend signals the condition variable")
	n := r.N(48, 144)                                   // 48 worlds at a time (race build: more of them starve each other)
	if v := os.Getenv("VERIF_C01_CV_WORLDS"); v != "" { // debugging aid
		fmt.Sscan(v, &n)
	}
	var wg sync.WaitGroup
	sem := make(chan struct{}, 48)
	for i := 0; i < n; i++ {
		w := c01cvGenWorld(r.Rand(fmt.Sprintf("conveyor/world/%d", i)), i)
		wg.Add(1)
		go func() {
			defer wg.Done()
			sem <- struct{}{}
			defer func() { <-sem }()
			defer func() {
				if p := recover(); p != nil {
					r.Violation("C01/harness-panic/conveyor", fmt.Sprintf("panic in conveyor world %d: %v", w.Index, p), nil)
				}
			}()
			time.Sleep(time.Duration(i%16) * 40 * time.Millisecond) // do not start every world in the same instant
			c01cvRunWorld(r, w)
		}()
	}
	wg.Wait()
}
