//go:build verif

// Shared helpers of the C15 / C16 / C19 monitors (package metadata, real SQLite through
// the driver's amalgamation overlay, real fsbinlog in a scratch directory, virtual clock
// through Options.Now).  Listed in "extra_files" of the three specs.
package metadata

import (
	"context"
	"fmt"
	"io"
	"log"
	"math/rand/v2"
	"net"
	"os"
	"path/filepath"
	"reflect"
	"sort"
	"strings"
	"sync"
	"sync/atomic"
	"time"
	"unsafe"

	statshouse "github.com/VKCOM/statshouse-go"
	"github.com/VKCOM/statshouse/internal/data_model/gen2/tlmetadata"
	"github.com/VKCOM/statshouse/internal/format"
	"github.com/VKCOM/statshouse/internal/sqlite"
	"github.com/VKCOM/statshouse/internal/vkgo/binlog/fsbinlog"
	"github.com/VKCOM/statshouse/internal/zzverif/verifkit"
	"github.com/VKCOM/tl/pkg/rpc"
)

// ---------------------------------------------------------------------------------------
// environment

type mdkLogger struct{}

func (mdkLogger) Tracef(string, ...interface{}) {}
func (mdkLogger) Debugf(string, ...interface{}) {}
func (mdkLogger) Infof(string, ...interface{})  {}
func (mdkLogger) Warnf(string, ...interface{})  {}
func (mdkLogger) Errorf(string, ...interface{}) {}

const mdkMagic = 3456

// mdkOpenMu serialises fsbinlog.NewFsBinlog: it writes a package-level flag
// (runSimpleMode) without synchronisation; calls from parallel harness workers would
// produce a race report that says nothing about the properties checked here.
var mdkOpenMu sync.Mutex

var mdkQuietOnce sync.Once

// mdkQuiet drops the engine's per-call log lines ("[sqlite] return err to user ...",
// one per refused request): they would make the unit log hundreds of MB.
func mdkQuiet() {
	mdkQuietOnce.Do(func() {
		log.SetOutput(io.Discard)
		// the package reports its own timings through the process-global statshouse-go client,
		// which by default sends to 127.0.0.1:13337 — on this machine possibly the ingress of
		// another check's pipeline.  An empty address makes the client discard everything.
		statshouse.Configure(func(string, ...interface{}) {}, "", "")
	})
}

// mdkClock is the virtual clock handed to Options.Now.
type mdkClock struct{ sec atomic.Int64 }

func (c *mdkClock) Now() time.Time { return time.Unix(c.sec.Load(), 0) }
func (c *mdkClock) Add(d int64)    { c.sec.Add(d) }
func (c *mdkClock) Unix() int64    { return c.sec.Load() }

func mdkBinlogOptions(dir string, chunk uint32) fsbinlog.Options {
	zero := time.Duration(0)
	return fsbinlog.Options{PrefixPath: filepath.Join(dir, "bl"), Magic: mdkMagic, MaxChunkSize: chunk, WriteCallDelay: &zero}
}

// mdkCreateBinlog creates the empty binlog of a new primary.
func mdkCreateBinlog(dir string, chunk uint32) error {
	_, err := fsbinlog.CreateEmptyFsBinlog(mdkBinlogOptions(dir, chunk))
	return err
}

// mdkOpen opens dbFile (created when missing) over the binlog in dir; everything the
// binlog holds beyond the file's stored offset is replayed by OpenDB.
func mdkOpen(dir, dbFile string, opt Options, chunk uint32) (*DBV2, error) {
	mdkQuiet()
	mdkOpenMu.Lock()
	bl, err := fsbinlog.NewFsBinlog(mdkLogger{}, mdkBinlogOptions(dir, chunk))
	mdkOpenMu.Unlock()
	if err != nil {
		return nil, err
	}
	return OpenDB(filepath.Join(dir, dbFile), opt, bl)
}

var mdkScratchN atomic.Int64

// mdkScratch creates the per-history scratch directory under r.MkTmp and returns the path
// to use for it plus a cleanup function.  fsbinlog derives the name of the next chunk by
// splitting the *whole* path of the previous one at '.', so a rotation panics ("Can't
// split by '.' on 3 parts") when any directory of the path contains a dot — and the
// driver's scratch root is /verif/.build/….  The files stay under r.MkTmp; they are
// addressed through a dot-free symlink in the system temp directory.
func mdkScratch(r *verifkit.Run, prefix string) (string, func()) {
	real := r.MkTmp(prefix)
	if !strings.Contains(real, ".") {
		return real, func() { _ = os.RemoveAll(real) }
	}
	link := filepath.Join(os.TempDir(), fmt.Sprintf("verif-md-%d-%d-%s", os.Getpid(), mdkScratchN.Add(1), strings.Trim(strings.ReplaceAll(prefix, ".", "_"), "-")))
	_ = os.Remove(link)
	if err := os.Symlink(real, link); err != nil || strings.Contains(link, ".") {
		_ = os.Remove(link)
		return real, func() { _ = os.RemoveAll(real) }
	}
	return link, func() { _ = os.Remove(link); _ = os.RemoveAll(real) }
}

// mdkClose is DBV2.Close without its 5-second limit: on a loaded machine the final commit
// (binlog fsync + SQLite commit) can take longer, and a timed-out Close leaves the engine
// closing in the background — a wall-clock effect that must not reach a verdict.
//
// It also stops the engine's commit-timer goroutine.  sqlite.Engine.Close never cancels the
// engine context, so txLoop survives every Close and wakes up once per CommitEvery to run
// COMMIT/last_insert_rowid on the closed connection (SQLITE_MISUSE through the cgo log
// callback, one OS thread each).  A server opens its engine once; these harnesses open
// tens of thousands in one process, and the leaked goroutines ended a thorough run with
// "program exceeds 10000-thread limit".  The cancel function is an unexported field of
// another package, hence the reflection.
func mdkClose(db *DBV2) error {
	err := db.eng.Close(context.Background())
	db.cancel()
	mdkStopEngineTimer(db.eng)
	return err
}

func mdkStopEngineTimer(e *sqlite.Engine) {
	defer func() { _ = recover() }() // field renamed or retyped: nothing to stop, the leak stays
	f := reflect.ValueOf(e).Elem().FieldByName("stop")
	if !f.IsValid() || f.Kind() != reflect.Func || f.IsNil() {
		return
	}
	stop, ok := reflect.NewAt(f.Type(), unsafe.Pointer(f.UnsafeAddr())).Elem().Interface().(func())
	if ok && stop != nil {
		stop()
	}
}

func mdkCopyFile(src, dst string) error {
	in, err := os.Open(src)
	if err != nil {
		return err
	}
	defer in.Close()
	out, err := os.Create(dst)
	if err != nil {
		return err
	}
	if _, err = io.Copy(out, in); err != nil {
		_ = out.Close()
		return err
	}
	return out.Close()
}

func mdkAssumeSQLite(r *verifkit.Run) {
	r.Assume("SQLite is the mainline 3.53.0 amalgamation supplied by the driver overlay; it ignores PRAGMA journal_mode=WAL2, so the engine runs in rollback-journal mode (the properties are API-level and do not depend on the journal mode)")
	r.Assume("time is the virtual clock passed through Options.Now; the binlog is a real fsbinlog in a scratch directory (WriteCallDelay=0)")
}

// mdkJournalMode reports the journal mode actually in force, from the files SQLite keeps
// next to the database while the engine's write transaction is open (evidence for the
// assumption; no SQL: a pragma statement left open on the engine's connection would
// break its savepoints).
func mdkJournalMode(dir, dbFile string) string {
	p := filepath.Join(dir, dbFile)
	_, errJ := os.Stat(p + "-journal")
	_, errW := os.Stat(p + "-wal")
	_, errW2 := os.Stat(p + "-wal2")
	switch {
	case errW == nil || errW2 == nil:
		return "wal"
	case errJ == nil:
		return "rollback-journal"
	}
	return "unknown (no -journal, -wal or -wal2 file)"
}

// ---------------------------------------------------------------------------------------
// table dumps (observation point below the API: in-package access to the engine)

type mdkTableSpec struct {
	name string
	cols []string
	key  int // number of leading columns that identify a row
	ord  string
}

var mdkTables = []mdkTableSpec{
	{"metrics_v5", []string{"id", "name", "namespace_id", "version", "updated_at", "deleted_at", "data", "type"}, 1, "id"},
	{"entity_history", []string{"entity_id", "version", "name", "namespace_id", "updated_at", "deleted_at", "data", "type", "metadata"}, 2, "entity_id, version"},
	{"mappings", []string{"id", "name"}, 1, "id"},
	{"flood_limits", []string{"metric_name", "last_time_update", "count_free"}, 1, "metric_name"},
	{"property", []string{"name", "data"}, 1, "name"},
	{"sqlite_sequence", []string{"name", "seq"}, 1, "name"},
}

// mdkDump maps table -> row key -> column -> quote(value) (SQLite's quote() keeps the
// storage class visible: 'text', X'blob', 123, NULL).
type mdkDump map[string]map[string]map[string]string

func mdkDumpAll(db *DBV2) (mdkDump, error) {
	res := mdkDump{}
	err := db.eng.Do(context.Background(), "verif_dump", func(conn sqlite.Conn, cache []byte) ([]byte, error) {
		for _, t := range mdkTables {
			q := make([]string, len(t.cols))
			for i, c := range t.cols {
				q[i] = "quote(" + c + ")"
			}
			rows := conn.Query("verif_dump_"+t.name, "SELECT "+strings.Join(q, ", ")+" FROM "+t.name+" ORDER BY "+t.ord)
			tbl := map[string]map[string]string{}
			for rows.Next() {
				row := map[string]string{}
				var key []string
				for i, c := range t.cols {
					v, err := rows.ColumnBlobString(i)
					if err != nil {
						return cache, err
					}
					row[c] = v
					if i < t.key {
						key = append(key, v)
					}
				}
				tbl[strings.Join(key, "/")] = row
			}
			if rows.Error() != nil {
				return cache, fmt.Errorf("dump %s: %w", t.name, rows.Error())
			}
			res[t.name] = tbl
		}
		return cache, nil
	})
	return res, err
}

// mdkDiff is one differing cell (or whole row) between primary and replica.
type mdkDiff struct {
	Table   string `json:"table"`
	Key     string `json:"row"`
	Column  string `json:"column"` // "<row-missing-on-replica>" / "<row-only-on-replica>"
	Primary string `json:"primary"`
	Replica string `json:"replica"`
}

func mdkCompareDumps(p, r mdkDump) []mdkDiff {
	var out []mdkDiff
	for _, t := range mdkTables {
		pt, rt := p[t.name], r[t.name]
		keys := map[string]bool{}
		for k := range pt {
			keys[k] = true
		}
		for k := range rt {
			keys[k] = true
		}
		sorted := make([]string, 0, len(keys))
		for k := range keys {
			sorted = append(sorted, k)
		}
		sort.Strings(sorted)
		for _, k := range sorted {
			pr, pok := pt[k]
			rr, rok := rt[k]
			switch {
			case pok && !rok:
				out = append(out, mdkDiff{t.name, k, "<row-missing-on-replica>", fmt.Sprint(pr), ""})
			case !pok && rok:
				out = append(out, mdkDiff{t.name, k, "<row-only-on-replica>", "", fmt.Sprint(rr)})
			default:
				for _, c := range t.cols {
					if pr[c] != rr[c] {
						out = append(out, mdkDiff{t.name, k, c, pr[c], rr[c]})
					}
				}
			}
		}
	}
	return out
}

// ---------------------------------------------------------------------------------------
// reference model of the entity table (written from the property statement and the
// documented rules, not from the SQL): used by C15 (outcome oracle) and C16 (history
// bookkeeping for signatures)

type mdkEnt struct {
	ID      int64  `json:"id"`
	Ver     int64  `json:"ver"`
	Name    string `json:"name"`
	Typ     int32  `json:"typ"` // type stored at creation
	NsID    int64  `json:"ns"`
	Data    string `json:"data"`
	Meta    string `json:"meta"`
	Upd     uint32 `json:"upd"`
	Del     uint32 `json:"del"`
	EvTyp   int32  `json:"ev_typ"` // type carried by the request that produced this version
	Renamed bool   `json:"renamed,omitempty"`
}

type mdkSaveOp struct {
	Name   string `json:"name"`
	ID     int64  `json:"id"`
	Ver    int64  `json:"ver"`
	Data   string `json:"data"`
	Create bool   `json:"create"`
	Del    uint32 `json:"del"`
	Typ    int32  `json:"typ"`
	Meta   string `json:"meta"`
	Class  string `json:"class"` // generator's intent (evidence only)
}

type mdkModel struct {
	ents    map[int64]*mdkEnt
	hist    map[int64][]mdkEnt // every version of every entity, ascending
	maxVer  int64
	allVers map[int64]bool
}

func mdkNewModel() *mdkModel {
	return &mdkModel{ents: map[int64]*mdkEnt{}, hist: map[int64][]mdkEnt{}, allVers: map[int64]bool{}}
}

func (m *mdkModel) byTypeName(typ int32, name string) *mdkEnt {
	for _, e := range m.ents {
		if e.Typ == typ && e.Name == name {
			return e
		}
	}
	return nil
}

func (m *mdkModel) sortedIDs() []int64 {
	ids := make([]int64, 0, len(m.ents))
	for id := range m.ents {
		ids = append(ids, id)
	}
	sort.Slice(ids, func(i, j int) bool { return ids[i] < ids[j] })
	return ids
}

// mdkPrediction is what the rules of the statement say about one request.
type mdkPrediction struct {
	OK         bool
	Reason     string // refusal class: version | exists | unknown-namespace | rename-namespace | name-taken
	WillCreate bool
	NsID       int64
	Judged     bool // false: the request is of a class the statement is silent about
	Why        string
	SelfName   bool // create flag on an existing predefined entity whose own name is "taken" by itself
}

// predict: success iff (edit names the current version) and the naming rules hold.
func (m *mdkModel) predict(op mdkSaveOp) mdkPrediction {
	p := mdkPrediction{Judged: true}
	cur := m.ents[op.ID]
	create := op.Create
	if op.ID < 0 {
		// predefined entities: the id is chosen by the caller, create/edit is decided by existence
		create = cur == nil
	}
	if !create && cur != nil && cur.Typ != op.Typ {
		// the request carries another type than the entity it addresses: the statement says
		// nothing about such requests
		p.Judged = false
		p.Why = "type-mismatch"
	}
	if op.ID < 0 && cur == nil && !op.Create && op.Typ == format.NamespaceEvent {
		// "edit" of a predefined namespace that does not exist: other types are upserted, the
		// statement does not say which is right
		p.Judged = false
		p.Why = "upsert-of-missing-predefined-namespace"
	}
	if op.Typ == format.NamespaceEvent && !op.Create {
		// namespace edit: must address an existing namespace at its current version, same name
		if cur == nil || cur.Typ != format.NamespaceEvent || cur.Ver != op.Ver {
			p.Reason = "version"
			if op.ID < 0 && cur == nil {
				p.Reason = "unknown-namespace"
			}
			return p
		}
		if cur.Name != op.Name {
			p.Reason = "rename-namespace"
			return p
		}
	} else if op.Typ == format.NamespaceEvent && !create && cur.Typ == format.NamespaceEvent && cur.Name != op.Name {
		// create flag on an existing predefined namespace: it is an edit, and an edit may not rename
		p.Reason = "rename-namespace"
		return p
	}
	if op.Typ == format.MetricEvent || op.Typ == format.MetricsGroupEvent {
		if ns, _ := format.SplitNamespace(op.Name); ns != "" {
			n := m.byTypeName(format.NamespaceEvent, ns)
			if n == nil {
				p.Reason = "unknown-namespace"
				return p
			}
			p.NsID = n.ID
		}
	}
	if op.Create {
		if e := m.byTypeName(op.Typ, op.Name); e != nil {
			if !create && e.ID == cur.ID {
				// create flag on an existing predefined entity that keeps its name: by the statement
				// the name is not taken by anybody else
				p.SelfName = true
			} else {
				p.Reason = "exists"
				return p
			}
		}
	}
	if !create {
		if cur == nil || cur.Ver != op.Ver {
			p.Reason = "version"
			return p
		}
		for _, e := range m.ents {
			if e.ID != cur.ID && e.Typ == cur.Typ && e.Name == op.Name && e.NsID == p.NsID {
				p.Reason = "name-taken"
				return p
			}
		}
		p.OK = true
		return p
	}
	// creation (possibly of a predefined id with create=false in the request)
	for _, e := range m.ents {
		if e.Typ == op.Typ && e.Name == op.Name && e.NsID == p.NsID {
			p.Reason = "name-taken"
			return p
		}
	}
	p.OK, p.WillCreate = true, true
	return p
}

// apply records a successful request (ev is what the database returned).
func (m *mdkModel) apply(op mdkSaveOp, ev tlmetadata.Event, willCreate bool) *mdkEnt {
	e := m.ents[ev.Id]
	renamed := false
	if e == nil || willCreate {
		e = &mdkEnt{ID: ev.Id, Typ: op.Typ}
		m.ents[ev.Id] = e
	} else {
		renamed = e.Name != op.Name
	}
	e.Ver, e.Name, e.NsID, e.Data, e.Meta, e.Upd, e.Del, e.EvTyp = ev.Version, op.Name, ev.NamespaceId, op.Data, op.Meta, ev.UpdateTime, op.Del, op.Typ
	if ev.Version > m.maxVer {
		m.maxVer = ev.Version
	}
	m.allVers[ev.Version] = true
	h := *e
	h.Renamed = renamed
	m.hist[ev.Id] = append(m.hist[ev.Id], h)
	return e
}

// ---------------------------------------------------------------------------------------
// request generator shared by C15 and C16

var mdkTypes = []int32{format.MetricEvent, format.MetricEvent, format.MetricsGroupEvent, format.DashboardEvent, format.NamespaceEvent, format.PromConfigEvent}

// mdkGen produces requests aimed at the rules (the model is only consulted to aim them).
type mdkGen struct {
	rnd   *rand.Rand
	m     *mdkModel
	seq   int
	names []string
}

func (g *mdkGen) freshName() string {
	g.seq++
	base := fmt.Sprintf("x%d", g.seq)
	switch g.rnd.IntN(12) {
	case 0:
		return base + " 'q\" ;--"
	case 1:
		return "имя-" + base
	case 2:
		return base + strings.Repeat("y", 300)
	case 3:
		return ":" + base // empty namespace part
	}
	return base
}

func (g *mdkGen) poolName() string { return g.names[g.rnd.IntN(len(g.names))] }

func (g *mdkGen) nsPrefix() string {
	// an existing namespace, a never created one, or one that looks like a metric name
	var ns []string
	for _, id := range g.m.sortedIDs() {
		if e := g.m.ents[id]; e.Typ == format.NamespaceEvent {
			ns = append(ns, e.Name)
		}
	}
	if len(ns) > 0 && g.rnd.IntN(4) != 0 {
		return ns[g.rnd.IntN(len(ns))]
	}
	return []string{"nowhere", "n0", "nsA", "nsB"}[g.rnd.IntN(4)]
}

func (g *mdkGen) name(typ int32) string {
	var n string
	switch g.rnd.IntN(10) {
	case 0, 1:
		n = g.freshName()
	default:
		n = g.poolName()
	}
	if typ == format.NamespaceEvent && g.rnd.IntN(2) == 0 {
		n = []string{"nsA", "nsB", "nsC"}[g.rnd.IntN(3)]
	}
	if (typ == format.MetricEvent || typ == format.MetricsGroupEvent) && g.rnd.IntN(3) == 0 {
		n = g.nsPrefix() + format.NamespaceSeparator + n
	}
	return n
}

func (g *mdkGen) pick() *mdkEnt {
	ids := g.m.sortedIDs()
	if len(ids) == 0 {
		return nil
	}
	return g.m.ents[ids[g.rnd.IntN(len(ids))]]
}

func (g *mdkGen) next(now int64, allowMismatch bool) mdkSaveOp {
	g.seq++
	op := mdkSaveOp{Data: fmt.Sprintf(`{"op":%d}`, g.seq), Meta: fmt.Sprintf(`{"who":"u%d"}`, g.rnd.IntN(3))}
	if g.rnd.IntN(10) == 0 {
		op.Meta = ""
	}
	e := g.pick()
	k := g.rnd.IntN(100)
	switch {
	case e == nil || k < 22:
		op.Class = "create"
		op.Create = true
		op.Typ = mdkTypes[g.rnd.IntN(len(mdkTypes))]
		op.Name = g.name(op.Typ)
		if g.rnd.IntN(8) == 0 {
			op.ID, op.Ver = int64(g.rnd.IntN(20)), int64(g.rnd.IntN(20)) // ignored by a create
		}
		if g.rnd.IntN(12) == 0 {
			op.Del = uint32(now) // created deleted
		}
	case k < 30:
		// predefined entity: caller-chosen negative id, create flag arbitrary
		op.Class = "predefined"
		op.ID = -int64(1 + g.rnd.IntN(4))
		op.Create = g.rnd.IntN(2) == 0
		op.Typ = []int32{format.MetricEvent, format.MetricsGroupEvent, format.NamespaceEvent}[g.rnd.IntN(3)]
		op.Name = g.name(op.Typ)
		if cur := g.m.ents[op.ID]; cur != nil {
			op.Typ, op.Ver = cur.Typ, cur.Ver
			if g.rnd.IntN(3) != 0 {
				op.Name = cur.Name
			}
			if g.rnd.IntN(4) == 0 {
				op.Ver -= int64(1 + g.rnd.IntN(2))
			}
		} else {
			op.Ver = int64(g.rnd.IntN(3))
		}
	case k < 34:
		op.Class = "edit-unknown-id"
		op.ID, op.Ver, op.Typ, op.Name = int64(1000+g.rnd.IntN(50)), int64(g.rnd.IntN(30)), mdkTypes[g.rnd.IntN(len(mdkTypes))], g.poolName()
	default:
		op.ID, op.Ver, op.Typ, op.Name, op.Del = e.ID, e.Ver, e.Typ, e.Name, e.Del
		switch j := g.rnd.IntN(100); {
		case j < 30:
			op.Class = "edit"
		case j < 42:
			op.Class = "edit-stale"
			op.Ver -= int64(1 + g.rnd.IntN(3))
			if g.rnd.IntN(4) == 0 {
				op.Ver = 0
			}
		case j < 48:
			op.Class = "edit-future"
			op.Ver += int64(1 + g.rnd.IntN(3))
		case j < 53:
			op.Class = "edit-version-of-other"
			if o := g.pick(); o != nil {
				op.Ver = o.Ver
			}
		case j < 80:
			op.Class = "rename"
			op.Name = g.name(e.Typ)
			if g.rnd.IntN(5) == 0 {
				op.Ver -= int64(1 + g.rnd.IntN(2))
				op.Class = "rename-stale"
			}
		case j < 90:
			op.Class = "delete"
			op.Del = uint32(now)
		case j < 95:
			op.Class = "undelete"
			op.Del = 0
		default:
			op.Class = "edit"
			if allowMismatch {
				op.Class = "type-mismatch"
				op.Typ = mdkTypes[g.rnd.IntN(len(mdkTypes))]
				if g.rnd.IntN(2) == 0 {
					op.Name = g.name(op.Typ)
				}
			}
		}
	}
	return op
}

func mdkOpString(op mdkSaveOp) string {
	n := op.Name
	if len(n) > 40 {
		n = fmt.Sprintf("%s…(%d)", n[:20], len(n))
	}
	return fmt.Sprintf("%s{%s %q id=%d ver=%d create=%v del=%d}", op.Class, mdkTypName(op.Typ), n, op.ID, op.Ver, op.Create, op.Del)
}

// ---------------------------------------------------------------------------------------
// the real RPC surface: Handler behind a tl rpc.Server on a loopback port, real client

type mdkServer struct {
	Client  *tlmetadata.Client
	Handler *Handler
	srv     *rpc.Server
	ln      net.Listener
	done    chan struct{}
}

func mdkServe(db *DBV2) (*mdkServer, error) {
	quiet := func(string, ...interface{}) {}
	handler := NewHandler(db, "verif", "", quiet)
	proxy := ProxyHandler{}
	h := tlmetadata.Handler{
		RawGetMapping:          proxy.HandleProxy("", handler.RawGetMappingByValue),
		RawGetInvertMapping:    proxy.HandleProxy("", handler.RawGetMappingByID),
		RawEditEntitynew:       proxy.HandleProxy("", handler.RawEditEntity),
		RawGetEntity:           proxy.HandleProxy("", handler.RawGetEntity),
		RawGetHistoryShortInfo: proxy.HandleProxy("", handler.RawGetHistory),
		RawPutMapping:          proxy.HandleProxy("", handler.RawPutMapping),
		RawResetFlood:          proxy.HandleProxy("", handler.RawResetFlood),
		ResetFlood2:            HandleProxyGen(&proxy, "", handler.ResetFlood2),
	}
	sh := tlmetadata.Handler{
		RawGetJournalnew:  proxy.HandleProxy("", handler.RawGetJournal),
		RawGetNewMappings: proxy.HandleProxy("", handler.RawGetNewMappings),
	}
	srv := rpc.NewServer(rpc.ServerWithHandler(h.Handle), rpc.ServerWithSyncHandler(sh.Handle), rpc.ServerWithLogf(quiet))
	ln, err := net.Listen("tcp4", "127.0.0.1:0")
	if err != nil {
		return nil, err
	}
	s := &mdkServer{Handler: handler, srv: srv, ln: ln, done: make(chan struct{})}
	go func() {
		defer close(s.done)
		_ = srv.Serve(ln)
	}()
	s.Client = &tlmetadata.Client{
		Client:  rpc.NewClient(rpc.ClientWithProtocolVersion(rpc.LatestProtocolVersion), rpc.ClientWithLogf(quiet)),
		Network: "tcp4",
		Address: ln.Addr().String(),
	}
	return s, nil
}

func (s *mdkServer) Close() {
	if c, ok := s.Client.Client.(interface{ Close() error }); ok {
		_ = c.Close()
	}
	_ = s.srv.Close()
	<-s.done
}

// ---------------------------------------------------------------------------------------
// journal diagnostics (in-package reads used to decide whether an empty page is the end)

// mdkNewerInTable says whether metrics_v5 verifiably holds a version larger than from.
func mdkNewerInTable(db *DBV2, from int64) (exists bool, desc string) {
	desc = "nothing newer"
	err := db.eng.Do(context.Background(), "verif_newer", func(conn sqlite.Conn, cache []byte) ([]byte, error) {
		rows := conn.Query("verif_newer", "SELECT id, version, length(data) FROM metrics_v5 WHERE version > $v ORDER BY version LIMIT 1", sqlite.Int64("$v", from))
		if rows.Next() {
			id, _ := rows.ColumnInt64(0)
			ver, _ := rows.ColumnInt64(1)
			n, _ := rows.ColumnInt64(2)
			exists, desc = true, fmt.Sprintf("entity %d at version %d with %d bytes of data", id, ver, n)
		}
		return cache, rows.Error()
	})
	if err != nil {
		desc += fmt.Sprintf(" (read error: %v)", err)
	}
	return
}

// mdkJournalProbe repeats the journal's own SELECT in-package, steps the first row and reports
// rows.Error() — the error JournalEvents itself never looks at.
func mdkJournalProbe(db *DBV2, from int64) string {
	res := ""
	err := db.eng.Do(context.Background(), "verif_journal_probe", func(conn sqlite.Conn, cache []byte) ([]byte, error) {
		rows := conn.Query("select_journal", "SELECT id, name, version, data, updated_at, type, deleted_at, namespace_id FROM metrics_v5 WHERE version > $version ORDER BY version asc;",
			sqlite.Int64("$version", from))
		got := rows.Next()
		res = fmt.Sprintf("first step: row=%v rows.Error()=%v", got, rows.Error())
		if got {
			data, derr := rows.ColumnBlobString(3)
			res += fmt.Sprintf(" data=%d bytes column error=%v", len(data), derr)
		}
		return cache, nil
	})
	if err != nil {
		res += fmt.Sprintf(" (Do error: %v)", err)
	}
	return res
}

// ---------------------------------------------------------------------------------------
// misc

func mdkErrClass(err error) string {
	if err == nil {
		return "ok"
	}
	s := err.Error()
	switch {
	case strings.Contains(s, errInvalidMetricVersion.Error()):
		return "version"
	case strings.Contains(s, errMetricIsExist.Error()):
		return "exists"
	case strings.Contains(s, "can't rename namespace"):
		return "rename-namespace"
	case strings.Contains(s, errNamespaceNotExists.Error()):
		return "unknown-namespace"
	case strings.Contains(s, "UNIQUE constraint failed: metrics_v5.namespace_id"):
		return "name-taken"
	case strings.Contains(s, "UNIQUE constraint failed"):
		return "unique-other"
	}
	return "other"
}

func mdkTypName(t int32) string { return format.EventTypeToName(t) }
