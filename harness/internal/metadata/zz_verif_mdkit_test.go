//go:build verif

// Shared helpers of the C15 / C16 / C19 monitors (package metadata, real SQLite through
// the driver's amalgamation overlay, real fsbinlog in a scratch directory, virtual clock
// through Options.Now).  Listed in "extra_files" of the three specs.
package metadata

import (
	"context"
	"fmt"
	"io"
	"log"
	"os"
	"path/filepath"
	"sort"
	"strings"
	"sync"
	"sync/atomic"
	"time"

	"github.com/VKCOM/statshouse/internal/data_model/gen2/tlmetadata"
	"github.com/VKCOM/statshouse/internal/format"
	"github.com/VKCOM/statshouse/internal/sqlite"
	"github.com/VKCOM/statshouse/internal/vkgo/binlog/fsbinlog"
	"github.com/VKCOM/statshouse/internal/zzverif/verifkit"
)

// ---------------------------------------------------------------------------------------
// environment

type mdkLogger struct{}

func (mdkLogger) Tracef(string, ...interface{}) {}
func (mdkLogger) Debugf(string, ...interface{}) {}
func (mdkLogger) Infof(string, ...interface{})  {}
func (mdkLogger) Warnf(string, ...interface{})  {}
func (mdkLogger) Errorf(string, ...interface{}) {}

const mdkMagic = 3456

// mdkOpenMu serialises fsbinlog.NewFsBinlog: it writes a package-level flag
// (runSimpleMode) without synchronisation; calls from parallel harness workers would
// produce a race report that says nothing about the properties checked here.
var mdkOpenMu sync.Mutex

var mdkQuietOnce sync.Once

// mdkQuiet drops the engine's per-call log lines ("[sqlite] return err to user ...",
// one per refused request): they would make the unit log hundreds of MB.
func mdkQuiet() {
	mdkQuietOnce.Do(func() { log.SetOutput(io.Discard) })
}

// mdkClock is the virtual clock handed to Options.Now.
type mdkClock struct{ sec atomic.Int64 }

func (c *mdkClock) Now() time.Time { return time.Unix(c.sec.Load(), 0) }
func (c *mdkClock) Add(d int64)    { c.sec.Add(d) }
func (c *mdkClock) Unix() int64    { return c.sec.Load() }

func mdkBinlogOptions(dir string, chunk uint32) fsbinlog.Options {
	zero := time.Duration(0)
	return fsbinlog.Options{PrefixPath: filepath.Join(dir, "bl"), Magic: mdkMagic, MaxChunkSize: chunk, WriteCallDelay: &zero}
}

// mdkCreateBinlog creates the empty binlog of a new primary.
func mdkCreateBinlog(dir string, chunk uint32) error {
	_, err := fsbinlog.CreateEmptyFsBinlog(mdkBinlogOptions(dir, chunk))
	return err
}

// mdkOpen opens dbFile (created when missing) over the binlog in dir; everything the
// binlog holds beyond the file's stored offset is replayed by OpenDB.
func mdkOpen(dir, dbFile string, opt Options, chunk uint32) (*DBV2, error) {
	mdkQuiet()
	mdkOpenMu.Lock()
	bl, err := fsbinlog.NewFsBinlog(mdkLogger{}, mdkBinlogOptions(dir, chunk))
	mdkOpenMu.Unlock()
	if err != nil {
		return nil, err
	}
	return OpenDB(filepath.Join(dir, dbFile), opt, bl)
}

func mdkCopyFile(src, dst string) error {
	in, err := os.Open(src)
	if err != nil {
		return err
	}
	defer in.Close()
	out, err := os.Create(dst)
	if err != nil {
		return err
	}
	if _, err = io.Copy(out, in); err != nil {
		_ = out.Close()
		return err
	}
	return out.Close()
}

func mdkAssumeSQLite(r *verifkit.Run) {
	r.Assume("SQLite is the mainline 3.53.0 amalgamation supplied by the driver overlay; it ignores PRAGMA journal_mode=WAL2, so the engine runs in rollback-journal mode (the properties are API-level and do not depend on the journal mode)")
	r.Assume("time is the virtual clock passed through Options.Now; the binlog is a real fsbinlog in a scratch directory (WriteCallDelay=0)")
}

// mdkJournalMode reads the journal mode actually in force (evidence for the assumption).
func mdkJournalMode(db *DBV2) string {
	mode := "?"
	_ = db.eng.Do(context.Background(), "verif_journal_mode", func(conn sqlite.Conn, cache []byte) ([]byte, error) {
		rows := conn.Query("verif_journal_mode", "SELECT * FROM pragma_journal_mode")
		if rows.Next() {
			mode, _ = rows.ColumnBlobString(0)
		}
		return cache, rows.Error()
	})
	return mode
}

// ---------------------------------------------------------------------------------------
// table dumps (observation point below the API: in-package access to the engine)

type mdkTableSpec struct {
	name string
	cols []string
	key  int // number of leading columns that identify a row
	ord  string
}

var mdkTables = []mdkTableSpec{
	{"metrics_v5", []string{"id", "name", "namespace_id", "version", "updated_at", "deleted_at", "data", "type"}, 1, "id"},
	{"entity_history", []string{"entity_id", "version", "name", "namespace_id", "updated_at", "deleted_at", "data", "type", "metadata"}, 2, "entity_id, version"},
	{"mappings", []string{"id", "name"}, 1, "id"},
	{"flood_limits", []string{"metric_name", "last_time_update", "count_free"}, 1, "metric_name"},
	{"property", []string{"name", "data"}, 1, "name"},
	{"sqlite_sequence", []string{"name", "seq"}, 1, "name"},
}

// mdkDump maps table -> row key -> column -> quote(value) (SQLite's quote() keeps the
// storage class visible: 'text', X'blob', 123, NULL).
type mdkDump map[string]map[string]map[string]string

func mdkDumpAll(db *DBV2) (mdkDump, error) {
	res := mdkDump{}
	err := db.eng.Do(context.Background(), "verif_dump", func(conn sqlite.Conn, cache []byte) ([]byte, error) {
		for _, t := range mdkTables {
			q := make([]string, len(t.cols))
			for i, c := range t.cols {
				q[i] = "quote(" + c + ")"
			}
			rows := conn.Query("verif_dump_"+t.name, "SELECT "+strings.Join(q, ", ")+" FROM "+t.name+" ORDER BY "+t.ord)
			tbl := map[string]map[string]string{}
			for rows.Next() {
				row := map[string]string{}
				var key []string
				for i, c := range t.cols {
					v, err := rows.ColumnBlobString(i)
					if err != nil {
						return cache, err
					}
					row[c] = v
					if i < t.key {
						key = append(key, v)
					}
				}
				tbl[strings.Join(key, "/")] = row
			}
			if rows.Error() != nil {
				return cache, fmt.Errorf("dump %s: %w", t.name, rows.Error())
			}
			res[t.name] = tbl
		}
		return cache, nil
	})
	return res, err
}

// mdkDiff is one differing cell (or whole row) between primary and replica.
type mdkDiff struct {
	Table   string `json:"table"`
	Key     string `json:"row"`
	Column  string `json:"column"` // "<row-missing-on-replica>" / "<row-only-on-replica>"
	Primary string `json:"primary"`
	Replica string `json:"replica"`
}

func mdkCompareDumps(p, r mdkDump) []mdkDiff {
	var out []mdkDiff
	for _, t := range mdkTables {
		pt, rt := p[t.name], r[t.name]
		keys := map[string]bool{}
		for k := range pt {
			keys[k] = true
		}
		for k := range rt {
			keys[k] = true
		}
		sorted := make([]string, 0, len(keys))
		for k := range keys {
			sorted = append(sorted, k)
		}
		sort.Strings(sorted)
		for _, k := range sorted {
			pr, pok := pt[k]
			rr, rok := rt[k]
			switch {
			case pok && !rok:
				out = append(out, mdkDiff{t.name, k, "<row-missing-on-replica>", fmt.Sprint(pr), ""})
			case !pok && rok:
				out = append(out, mdkDiff{t.name, k, "<row-only-on-replica>", "", fmt.Sprint(rr)})
			default:
				for _, c := range t.cols {
					if pr[c] != rr[c] {
						out = append(out, mdkDiff{t.name, k, c, pr[c], rr[c]})
					}
				}
			}
		}
	}
	return out
}

// ---------------------------------------------------------------------------------------
// reference model of the entity table (written from the property statement and the
// documented rules, not from the SQL): used by C15 (outcome oracle) and C16 (history
// bookkeeping for signatures)

type mdkEnt struct {
	ID      int64  `json:"id"`
	Ver     int64  `json:"ver"`
	Name    string `json:"name"`
	Typ     int32  `json:"typ"` // type stored at creation
	NsID    int64  `json:"ns"`
	Data    string `json:"data"`
	Meta    string `json:"meta"`
	Upd     uint32 `json:"upd"`
	Del     uint32 `json:"del"`
	EvTyp   int32  `json:"ev_typ"` // type carried by the request that produced this version
	Renamed bool   `json:"renamed,omitempty"`
}

type mdkSaveOp struct {
	Name   string `json:"name"`
	ID     int64  `json:"id"`
	Ver    int64  `json:"ver"`
	Data   string `json:"data"`
	Create bool   `json:"create"`
	Del    uint32 `json:"del"`
	Typ    int32  `json:"typ"`
	Meta   string `json:"meta"`
	Class  string `json:"class"` // generator's intent (evidence only)
}

type mdkModel struct {
	ents    map[int64]*mdkEnt
	hist    map[int64][]mdkEnt // every version of every entity, ascending
	maxVer  int64
	allVers map[int64]bool
}

func mdkNewModel() *mdkModel {
	return &mdkModel{ents: map[int64]*mdkEnt{}, hist: map[int64][]mdkEnt{}, allVers: map[int64]bool{}}
}

func (m *mdkModel) byTypeName(typ int32, name string) *mdkEnt {
	for _, e := range m.ents {
		if e.Typ == typ && e.Name == name {
			return e
		}
	}
	return nil
}

func (m *mdkModel) sortedIDs() []int64 {
	ids := make([]int64, 0, len(m.ents))
	for id := range m.ents {
		ids = append(ids, id)
	}
	sort.Slice(ids, func(i, j int) bool { return ids[i] < ids[j] })
	return ids
}

// mdkPrediction is what the rules of the statement say about one request.
type mdkPrediction struct {
	OK         bool
	Reason     string // refusal class: version | exists | unknown-namespace | rename-namespace | name-taken
	WillCreate bool
	NsID       int64
	Judged     bool // false: the request is of a class the statement is silent about
	Why        string
}

// predict: success iff (edit names the current version) and the naming rules hold.
func (m *mdkModel) predict(op mdkSaveOp) mdkPrediction {
	p := mdkPrediction{Judged: true}
	cur := m.ents[op.ID]
	create := op.Create
	if op.ID < 0 {
		// predefined entities: the id is chosen by the caller, create/edit is decided by existence
		create = cur == nil
	}
	if !create && cur != nil && cur.Typ != op.Typ {
		// the request carries another type than the entity it addresses: the statement says
		// nothing about such requests
		p.Judged = false
		p.Why = "type-mismatch"
	}
	if op.Typ == format.NamespaceEvent && !op.Create {
		// namespace edit: must address an existing namespace at its current version, same name
		if cur == nil || cur.Typ != format.NamespaceEvent || cur.Ver != op.Ver {
			p.Reason = "version"
			if op.ID < 0 && cur == nil {
				p.Reason = "unknown-namespace" // edit of a predefined namespace that does not exist
			}
			return p
		}
		if cur.Name != op.Name {
			p.Reason = "rename-namespace"
			return p
		}
	}
	if op.Typ == format.MetricEvent || op.Typ == format.MetricsGroupEvent {
		if ns, _ := format.SplitNamespace(op.Name); ns != "" {
			n := m.byTypeName(format.NamespaceEvent, ns)
			if n == nil {
				p.Reason = "unknown-namespace"
				return p
			}
			p.NsID = n.ID
		}
	}
	if op.Create {
		if m.byTypeName(op.Typ, op.Name) != nil {
			p.Reason = "exists"
			return p
		}
	}
	if !create {
		if cur == nil || cur.Ver != op.Ver {
			p.Reason = "version"
			return p
		}
		for _, e := range m.ents {
			if e.ID != cur.ID && e.Typ == cur.Typ && e.Name == op.Name && e.NsID == p.NsID {
				p.Reason = "name-taken"
				return p
			}
		}
		p.OK = true
		return p
	}
	// creation (possibly of a predefined id with create=false in the request)
	for _, e := range m.ents {
		if e.Typ == op.Typ && e.Name == op.Name && e.NsID == p.NsID {
			p.Reason = "name-taken"
			return p
		}
	}
	p.OK, p.WillCreate = true, true
	return p
}

// apply records a successful request (ev is what the database returned).
func (m *mdkModel) apply(op mdkSaveOp, ev tlmetadata.Event, willCreate bool) *mdkEnt {
	e := m.ents[ev.Id]
	renamed := false
	if e == nil || willCreate {
		e = &mdkEnt{ID: ev.Id, Typ: op.Typ}
		m.ents[ev.Id] = e
	} else {
		renamed = e.Name != op.Name
	}
	e.Ver, e.Name, e.NsID, e.Data, e.Meta, e.Upd, e.Del, e.EvTyp = ev.Version, op.Name, ev.NamespaceId, op.Data, op.Meta, ev.UpdateTime, op.Del, op.Typ
	if ev.Version > m.maxVer {
		m.maxVer = ev.Version
	}
	m.allVers[ev.Version] = true
	h := *e
	h.Renamed = renamed
	m.hist[ev.Id] = append(m.hist[ev.Id], h)
	return e
}

// ---------------------------------------------------------------------------------------
// misc

func mdkErrClass(err error) string {
	if err == nil {
		return "ok"
	}
	s := err.Error()
	switch {
	case strings.Contains(s, errInvalidMetricVersion.Error()):
		return "version"
	case strings.Contains(s, errMetricIsExist.Error()):
		return "exists"
	case strings.Contains(s, "can't rename namespace"):
		return "rename-namespace"
	case strings.Contains(s, errNamespaceNotExists.Error()):
		return "unknown-namespace"
	case strings.Contains(s, "UNIQUE constraint failed: metrics_v5.namespace_id"):
		return "name-taken"
	case strings.Contains(s, "UNIQUE constraint failed"):
		return "unique-other"
	}
	return "other"
}

func mdkTypName(t int32) string { return format.EventTypeToName(t) }
