//go:build verif

// C19 — tag mappings form a stable bijection and creation obeys flood limits.
//
// Workload: histories of get-or-create / put / delete / reset-flood (values around the maximum budget and around / far above the reset clamp; reported and stored budget compared after each) / lookups over few
// metrics and a small key pool, virtual clock steps around the StepSec boundary, drains
// (creations without clock movement until the flood answer), reopen of the database,
// continuation on a database rebuilt from the binlog alone (promoted replica).
// Oracle: a reference bijection (string<->id, ids ever used) and an explicit token bucket
// per metric, judged in the sound direction only (created => the bucket had a token).
package metadata

import (
	"context"
	"fmt"
	"math"
	"math/rand/v2"
	"runtime"
	"sort"
	"strings"
	"testing"

	"github.com/VKCOM/statshouse/internal/sqlite"
	"github.com/VKCOM/statshouse/internal/zzverif/verifkit"
)

type c19Bucket struct {
	tokens   int64
	lastStep int64 // floor(time/step) of the last update of the row
	init     bool  // a flood row exists
	// bookkeeping for signatures
	lastWriter string // "create" | "reset" | ""
	resetAt    int64  // un-rounded time of the last reset
	resetVal   int64
	taint      bool // a creation since the last reset saw a row whose stored time was later than the rounded now
}

type c19Hist struct {
	r    *verifkit.Run
	w    *verifkit.Worker
	idx  int
	rnd  *rand.Rand
	dir  string
	db   *DBV2
	opt  Options
	clk  *mdkClock
	maxB int64
	bon  int64
	step int64
	gb   int64

	s2i         map[string]int32
	i2s         map[int32]string
	everIDs     map[int32]bool
	maxEverID   int32
	buckets     map[string]*c19Bucket
	lastCreated int32 // last id handed out by get-or-create in the whole history (survives reopen)
	keyN        int
	pool        []string
	log         []string
	reopens     int
	promotions  int
	dbFile      string
	deletes     int
	puts        int
	broken      bool
}

func (h *c19Hist) logf(f string, a ...any) {
	if len(h.log) > 1200 { // the clamp history issues 10^4 requests: keep the start and the tail
		h.log = append(h.log[:200:200], h.log[len(h.log)-400:]...)
		h.log[199] = "… (operations dropped from the witness) …"
	}
	h.log = append(h.log, fmt.Sprintf("t=%d ", h.clk.Unix())+fmt.Sprintf(f, a...))
}

func (h *c19Hist) witness(extra map[string]any) map[string]any {
	w := map[string]any{
		"history": h.idx, "max_budget": h.maxB, "bonus": h.bon, "step_sec": h.step, "global_budget": h.gb,
		"ops": append([]string(nil), h.log...),
	}
	for k, v := range extra {
		w[k] = v
	}
	return w
}

func (h *c19Hist) viol(key, what string, extra map[string]any) {
	h.r.Violation("C19/"+key, what, h.witness(extra))
}

func (h *c19Hist) bucket(m string) *c19Bucket {
	b := h.buckets[m]
	if b == nil {
		b = &c19Bucket{tokens: h.maxB}
		h.buckets[m] = b
	}
	return b
}

// floodRow reads the row of one metric (observation point below the API).
func (h *c19Hist) floodRow(m string) (exists bool, last, free int64) {
	_ = h.db.eng.Do(context.Background(), "verif_flood_row", func(conn sqlite.Conn, cache []byte) ([]byte, error) {
		rows := conn.Query("verif_flood_row", "SELECT last_time_update, count_free FROM flood_limits WHERE metric_name = $m", sqlite.BlobString("$m", m))
		if rows.Next() {
			exists = true
			last, _ = rows.ColumnInt64(0)
			free, _ = rows.ColumnInt64(1)
		}
		return cache, rows.Error()
	})
	return
}

func (h *c19Hist) resync(m string) {
	b := h.bucket(m)
	ex, last, free := h.floodRow(m)
	if !ex {
		b.tokens, b.init = h.maxB, false
		return
	}
	b.tokens, b.lastStep, b.init = free, last/h.step, true
}

func c19Quote(s string) string {
	if len(s) > 40 {
		return fmt.Sprintf("%q…(%d bytes)", s[:24], len(s))
	}
	return fmt.Sprintf("%q", s)
}

func (h *c19Hist) freshKey() string {
	h.keyN++
	base := fmt.Sprintf("h%d-k%d", h.idx, h.keyN)
	switch h.rnd.IntN(14) {
	case 0:
		return base + strings.Repeat("x", 200+h.rnd.IntN(1800))
	case 1:
		return base + "\x00\xff\xfe bin"
	case 2:
		return base + " 'quoted\" --; DROP TABLE mappings"
	case 3:
		return "ключ-" + base + "-日本"
	case 4:
		return " " + base + " "
	}
	return base
}

func (h *c19Hist) anyKey() string {
	if len(h.pool) > 0 && h.rnd.IntN(2) == 0 {
		return h.pool[h.rnd.IntN(len(h.pool))]
	}
	k := h.freshKey()
	h.pool = append(h.pool, k)
	return k
}

func (h *c19Hist) knownIDs() []int32 {
	ids := make([]int32, 0, len(h.i2s))
	for id := range h.i2s {
		ids = append(ids, id)
	}
	sort.Slice(ids, func(i, j int) bool { return ids[i] < ids[j] })
	return ids
}

func (h *c19Hist) everList() []int32 {
	ids := make([]int32, 0, len(h.everIDs))
	for id := range h.everIDs {
		ids = append(ids, id)
	}
	sort.Slice(ids, func(i, j int) bool { return ids[i] < ids[j] })
	return ids
}

func (h *c19Hist) noteID(id int32) {
	h.everIDs[id] = true
	if id > h.maxEverID {
		h.maxEverID = id
	}
}

// getOrCreate issues one request and judges the answer.
func (h *c19Hist) getOrCreate(metric, key string) (created, flood bool) {
	ctx := context.Background()
	now := h.clk.Unix()
	b := h.bucket(metric)
	rowEx, rowLast, rowFree := h.floodRow(metric)
	resp, err := h.db.GetOrCreateMapping(ctx, metric, key)
	h.w.Count("op.get_or_create", 1)
	if err != nil {
		h.logf("getorcreate(%s,%s) -> error %v", metric, c19Quote(key), err)
		h.viol("get-or-create/unexpected-error", "GetOrCreateMapping returned an error: "+err.Error(), nil)
		h.broken = true
		return
	}
	if want, ok := h.s2i[key]; ok {
		// the key exists: the same id must come back, nothing is created or charged
		g, isGet := resp.AsGetMappingResponse()
		switch {
		case !isGet:
			h.logf("getorcreate(%s,%s) -> %s (existing key, id %d)", metric, c19Quote(key), resp.TLName(), want)
			h.viol("stable/existing-key-not-returned", "get-or-create of an existing key did not return the stored id", map[string]any{"key": key, "stored_id": want, "answer": resp.TLName()})
		case g.Id != want:
			h.logf("getorcreate(%s,%s) -> get %d (stored %d)", metric, c19Quote(key), g.Id, want)
			h.viol("stable/id-changed", fmt.Sprintf("get-or-create returned id %d for a key mapped to %d", g.Id, want), map[string]any{"key": key})
		default:
			h.logf("getorcreate(%s,%s) -> get %d", metric, c19Quote(key), g.Id)
		}
		h.w.Count("answer.get_existing", 1)
		h.w.Case(h.deletes+h.puts+h.reopens+h.promotions > 0, fmt.Sprintf("existing|del%v|put%v|reopen%v", h.deletes > 0, h.puts > 0, h.reopens > 0))
		return
	}
	// the key is absent: either a creation or a flood-limit answer
	steps := int64(0)
	tentative := b.tokens
	if b.init {
		steps = now/h.step - b.lastStep
		if steps < 0 {
			steps = 0
		}
		if tentative <= h.maxB {
			tentative += steps * h.bon
			if tentative > h.maxB {
				tentative = h.maxB
			}
		}
	} else {
		tentative = h.maxB
	}
	abstraction := fmt.Sprintf("max%d|bon%d|tok%d|steps%d|init%v|writer%s|gb%d|restored%v", h.maxB, h.bon, b.tokens, min(steps, 4), b.init, b.lastWriter, min(h.gb, 1), h.promotions > 0)
	if c, ok := resp.AsCreated(); ok {
		created = true
		id := c.Id
		h.logf("getorcreate(%s,%s) -> created %d (model tokens before: %d, +%d steps)", metric, c19Quote(key), id, b.tokens, steps)
		h.w.Count("answer.created", 1)
		switch {
		case id <= 0:
			h.viol("bijection/non-positive-id", fmt.Sprintf("created id %d is not positive", id), nil)
		case h.everIDs[id]:
			cl := "reused-live-id"
			if _, live := h.i2s[id]; !live {
				cl = "reused-deleted-id"
			}
			h.viol("bijection/"+cl, fmt.Sprintf("created id %d was already handed out earlier in this history", id), map[string]any{"id": id, "ever": h.everList()})
		}
		// statement-level exemption: the global budget is not exhausted (superset of the code's rule)
		exempt := (h.lastCreated > 0 && int64(h.lastCreated) <= h.gb) || int64(id) <= h.gb
		pred := now - now%h.step
		if !exempt && rowEx && b.lastWriter == "reset" && rowLast > pred {
			// observed on the real row: it holds an un-rounded reset time later than the rounded
			// "now" the code subtracts it from — uint32(now-last) wraps in calcBudget
			b.taint = true
			h.w.Count("created.after_reset_with_wrapping_row", 1)
		}
		switch {
		case exempt:
			h.w.Count("created.exempt_global_budget", 1)
			if b.tokens-1 > h.maxB {
				b.tokens--
			} else {
				b.tokens = h.maxB
			}
			h.w.Case(false, "exempt")
		case tentative < 1:
			// creation beyond the budget the statement allows
			extra := map[string]any{"metric": metric, "model_tokens": tentative, "row_before": map[string]any{"exists": rowEx, "last_time_update": rowLast, "count_free": rowFree},
				"now": now, "now_rounded": pred, "last_reset_at": b.resetAt, "last_reset_value": b.resetVal, "row_wrapped_since_last_reset": b.taint}
			if b.taint {
				h.viol("budget/reset-flood-unrounded-time", "mapping created beyond the budget set by ResetFlood: the flood row held the un-rounded reset time (later than the step-rounded now), uint32(now-last) wrapped in calcBudget and the budget jumped to max-1", extra)
			} else {
				h.viol("budget/created-beyond-budget", fmt.Sprintf("mapping created although the token bucket of metric %q was empty (model tokens %d)", metric, tentative), extra)
			}
			h.w.Case(true, "VIOL|"+abstraction)
			h.w.Count("created.beyond_model", 1)
			b.tokens = 0
			if !b.taint {
				h.resync(metric) // avoid cascades of one root cause
			}
		default:
			if tentative == h.maxB {
				b.taint = false // the model bucket is full: the code cannot legitimately hold more
			}
			b.tokens = tentative - 1
			h.w.Case(true, "created|"+abstraction)
		}
		b.init, b.lastStep = true, now/h.step
		b.lastWriter = "create"
		h.s2i[key], h.i2s[id] = id, key
		h.noteID(id)
		h.lastCreated = id
		return
	}
	if resp.IsFloodLimitError() {
		flood = true
		h.logf("getorcreate(%s,%s) -> flood limit (model tokens %d)", metric, c19Quote(key), tentative)
		h.w.Count("answer.flood", 1)
		if tentative >= 1 {
			// stricter than the statement requires ("at most"): recorded, not judged
			h.w.Count("flood_while_model_has_tokens", 1)
			h.r.NotJudged("flood_answer_while_model_has_tokens", 1)
			return
		}
		h.w.Case(true, "flood|"+abstraction)
		return
	}
	h.logf("getorcreate(%s,%s) -> %s", metric, c19Quote(key), resp.TLName())
	h.viol("get-or-create/unexpected-answer", "answer is neither get, created nor flood-limit: "+resp.TLName(), nil)
	return
}

func (h *c19Hist) lookups(n int) {
	ctx := context.Background()
	for i := 0; i < n; i++ {
		if h.rnd.IntN(2) == 0 {
			// by value
			key := fmt.Sprintf("absent-%d", h.rnd.IntN(1000))
			if len(h.pool) > 0 && h.rnd.IntN(5) != 0 {
				key = h.pool[h.rnd.IntN(len(h.pool))]
			}
			id, notExists, err := h.db.GetMappingByValue(ctx, key)
			want, ok := h.s2i[key]
			h.w.Count("op.lookup_by_value", 1)
			if err != nil || notExists == ok || (ok && id != want) {
				h.logf("bystr(%s) -> %d notExists=%v err=%v (model %d,%v)", c19Quote(key), id, notExists, err, want, ok)
				h.viol("bijection/lookup-by-value", fmt.Sprintf("GetMappingByValue disagrees with the history: got (%d, notExists=%v, err=%v), expected (%d, exists=%v)", id, notExists, err, want, ok), map[string]any{"key": key})
			}
			h.w.Case(h.deletes+h.puts+h.reopens+h.promotions > 0, fmt.Sprintf("byvalue|%v|del%v|put%v|reopen%v", ok, h.deletes > 0, h.puts > 0, h.reopens > 0))
		} else {
			var id int32
			if ever := h.everList(); len(ever) > 0 && h.rnd.IntN(5) != 0 {
				id = ever[h.rnd.IntN(len(ever))]
			} else {
				id = int32(h.rnd.IntN(60)) - 5
			}
			s, exists, err := h.db.GetMappingByID(ctx, id)
			want, ok := h.i2s[id]
			h.w.Count("op.lookup_by_id", 1)
			if err != nil || exists != ok || (ok && s != want) {
				h.logf("byid(%d) -> %s exists=%v err=%v (model %s,%v)", id, c19Quote(s), exists, err, c19Quote(want), ok)
				h.viol("bijection/lookup-by-id", fmt.Sprintf("GetMappingByID(%d) disagrees with the history: got (%q, %v, err=%v), expected (%q, %v)", id, s, exists, err, want, ok), nil)
			}
			h.w.Case(h.deletes+h.puts+h.reopens+h.promotions > 0, fmt.Sprintf("byid|%v|ever%v|del%v|put%v|reopen%v", ok, h.everIDs[id], h.deletes > 0, h.puts > 0, h.reopens > 0))
		}
	}
}

// page reads the whole mapping list through GetNewMappings pages and compares it.
func (h *c19Hist) page() {
	ctx := context.Background()
	ids := h.knownIDs()
	var cands []int32
	if len(ids) > 2 && h.rnd.IntN(3) == 0 {
		for _, id := range ids {
			if h.rnd.IntN(4) == 0 {
				cands = append(cands, id)
			}
		}
	}
	from := int32(0)
	if len(ids) > 0 && h.rnd.IntN(2) == 0 {
		from = ids[h.rnd.IntN(len(ids))]
	}
	pageSize := int32(1 + h.rnd.IntN(7))
	var got []string
	start := from
	for guard := 0; guard < 10000; guard++ {
		m, last, err := h.db.GetNewMappings(ctx, from, pageSize, cands)
		h.w.Count("op.get_new_mappings", 1)
		if err != nil {
			h.viol("bijection/get-new-mappings-error", err.Error(), nil)
			return
		}
		if len(ids) > 0 && last != ids[len(ids)-1] {
			h.viol("bijection/get-new-mappings-last-version", fmt.Sprintf("GetNewMappings reports last id %d, the largest stored id is %d", last, ids[len(ids)-1]), nil)
		}
		if len(m) == 0 {
			break
		}
		for _, p := range m {
			if p.Value <= from {
				h.viol("bijection/get-new-mappings-order", fmt.Sprintf("page from %d contains id %d", from, p.Value), nil)
				return
			}
			from = p.Value
			got = append(got, fmt.Sprintf("%d=%s", p.Value, p.Str))
		}
	}
	var want []string
	for _, id := range ids {
		if id > start && !IsDeletionCandidate(id, cands) {
			want = append(want, fmt.Sprintf("%d=%s", id, h.i2s[id]))
		}
	}
	if strings.Join(got, "\x01") != strings.Join(want, "\x01") {
		h.logf("pages(from %d, size %d, candidates %v)", start, pageSize, cands)
		h.viol("bijection/get-new-mappings-content", "the union of GetNewMappings pages differs from the mappings of the history", map[string]any{"got": got, "want": want, "from": start, "page": pageSize, "candidates": cands})
	}
	h.w.Case(len(want) > 0, fmt.Sprintf("pages|n%d|cands%v|from0%v|del%v|put%v", min(len(want), 6), len(cands) > 0, start == 0, h.deletes > 0, h.puts > 0))
}

func (h *c19Hist) put() {
	n := 1 + h.rnd.IntN(3)
	var ks []string
	var vs []int32
	for i := 0; i < n; i++ {
		var k string
		var v int32
		ids := h.knownIDs()
		switch h.rnd.IntN(5) {
		case 0: // existing id, new key: admin override of an id
			if len(ids) > 0 {
				v = ids[h.rnd.IntN(len(ids))]
			} else {
				v = 1 + int32(h.rnd.IntN(5))
			}
			k = h.freshKey()
		case 1: // existing key, new id
			k = h.anyKey()
			v = h.maxEverID + 1 + int32(h.rnd.IntN(4))
		case 2: // a deleted id is put back by the admin
			ever := h.everList()
			if len(ever) > 0 {
				v = ever[h.rnd.IntN(len(ever))]
			} else {
				v = 3
			}
			k = h.anyKey()
		default:
			k = h.freshKey()
			v = h.maxEverID + 1 + int32(h.rnd.IntN(30))
		}
		ks, vs = append(ks, k), append(vs, v)
		h.pool = append(h.pool, k)
	}
	err := h.db.PutMapping(context.Background(), ks, vs)
	h.w.Count("op.put", 1)
	h.logf("put(%v,%v) -> %v", ks, vs, err)
	if err != nil {
		h.viol("put/unexpected-error", err.Error(), nil)
		return
	}
	h.puts++
	for i := range ks {
		// admin override: the pair replaces whatever held the id or the key
		if old, ok := h.i2s[vs[i]]; ok {
			delete(h.s2i, old)
			delete(h.i2s, vs[i])
		}
		if old, ok := h.s2i[ks[i]]; ok {
			delete(h.i2s, old)
			delete(h.s2i, ks[i])
		}
		h.s2i[ks[i]], h.i2s[vs[i]] = vs[i], ks[i]
		h.noteID(vs[i])
	}
}

func (h *c19Hist) del() {
	var ids []int32
	known := h.knownIDs()
	n := 1 + h.rnd.IntN(3)
	for i := 0; i < n; i++ {
		if len(known) > 0 && h.rnd.IntN(4) != 0 {
			ids = append(ids, known[h.rnd.IntN(len(known))])
		} else {
			ids = append(ids, int32(h.rnd.IntN(int(h.maxEverID)+5)))
		}
	}
	want := map[int32]bool{}
	for _, id := range ids {
		if _, ok := h.i2s[id]; ok {
			want[id] = true
		}
	}
	cnt, err := h.db.deleteMappingsByIdBatched(context.Background(), ids)
	h.w.Count("op.delete", 1)
	h.logf("delete(%v) -> %d %v", ids, cnt, err)
	if err != nil {
		h.viol("delete/unexpected-error", err.Error(), nil)
		return
	}
	if int(cnt) != len(want) {
		h.viol("delete/count", fmt.Sprintf("delete of %v reported %d present ids, the history holds %d of them", ids, cnt, len(want)), nil)
	}
	for id := range want {
		delete(h.s2i, h.i2s[id])
		delete(h.i2s, id)
	}
	if len(want) > 0 {
		h.deletes++
	}
	h.w.Case(len(want) > 0, fmt.Sprintf("delete|present%d|of%d", len(want), len(ids)))
}

func (h *c19Hist) reset(metric string) {
	// values around the maximum budget and around / far above the reset clamp (maxResetLimit)
	vals := []int64{-1, 0, 1, 1, 2, h.maxB - 1, h.maxB, h.maxB + 2}
	if h.rnd.IntN(5) == 0 { // a huge budget switches the flood clause off for the metric: keep it rare
		vals = []int64{maxResetLimit - 1, maxResetLimit, maxResetLimit + 1, 20000, 1_000_000, math.MaxInt32}
	}
	h.resetTo(metric, vals[h.rnd.IntN(len(vals))])
}

func (h *c19Hist) resetTo(metric string, v int64) {
	rowBefore, _, freeBefore := h.floodRow(metric)
	before, after, err := h.db.ResetFlood(context.Background(), metric, v)
	h.w.Count("op.reset_flood", 1)
	h.logf("resetflood(%s,%d) -> before=%d after=%d %v", metric, v, before, after, err)
	if err != nil {
		h.viol("reset/unexpected-error", err.Error(), nil)
		return
	}
	b := h.bucket(metric)
	now := h.clk.Unix()
	// the budget the statement gives the metric from now on: the reset value, at most the clamp
	want := v
	if v <= 0 {
		want = h.maxB
	} else if v > maxResetLimit {
		want = maxResetLimit
		h.w.Count("reset.above_clamp", 1)
	}
	rowEx, _, rowFree := h.floodRow(metric)
	extra := map[string]any{"metric": metric, "requested": v, "reported_before": before, "reported_after": after, "stored_row_exists": rowEx, "stored_count_free": rowFree, "clamp": maxResetLimit}
	if after != want {
		h.viol("reset/reported-budget", fmt.Sprintf("ResetFlood(%d) reports budget %d, expected min(value, %d) resp. the maximum budget for a non-positive value = %d", v, after, maxResetLimit, want), extra)
	}
	stored := h.maxB // no row: the metric starts from the maximum budget
	if rowEx {
		stored = rowFree
	}
	switch {
	case stored > after:
		// observation point below the API: what the metric can really spend from now on
		h.viol("budget/reset-stores-more-than-reported", fmt.Sprintf("ResetFlood(%d) reports budget %d but stores %d: the metric can create more mappings than the budget it was given", v, after, stored), extra)
	case stored < after:
		h.r.NotJudged("reset_stores_less_than_reported", 1) // stricter than reported: allowed by "at most"
	}
	wantBefore := h.maxB
	if rowBefore {
		wantBefore = freeBefore
	}
	if before != wantBefore {
		// getFreeCount reads the row of a hard-coded metric name ("abc2"), so "before" is not the
		// budget of the metric being reset; the statement does not cover the reported value
		h.r.NotJudged("reset_reports_before_budget_of_another_metric", 1)
	}
	h.w.Case(true, fmt.Sprintf("reset|v:%s|row%v", c19ResetClass(v, h.maxB), rowBefore))
	if v <= 0 {
		*b = c19Bucket{tokens: h.maxB, lastWriter: "reset", resetAt: now, resetVal: h.maxB}
		return
	}
	*b = c19Bucket{tokens: want, lastStep: now / h.step, init: true, lastWriter: "reset", resetAt: now, resetVal: want}
	if want < h.maxB {
		h.w.Count("reset.below_max", 1)
		if now%h.step != 0 {
			h.w.Count("reset.below_max_off_boundary", 1)
		}
	}
}

func c19ResetClass(v, maxB int64) string {
	switch {
	case v <= 0:
		return "non-positive"
	case v < maxB:
		return "below-max"
	case v == maxB:
		return "max"
	case v < maxResetLimit:
		return "above-max"
	case v == maxResetLimit:
		return "clamp"
	}
	return "above-clamp"
}

// c19ClampHistory (thorough tier only): after a reset far above the clamp a metric really creates
// clamp+1 mappings without clock movement; the last one must be refused.
func c19ClampHistory(r *verifkit.Run, w *verifkit.Worker) {
	h := &c19Hist{r: r, w: w, idx: -1, rnd: r.Rand("clamp"), clk: &mdkClock{},
		s2i: map[string]int32{}, i2s: map[int32]string{}, everIDs: map[int32]bool{}, buckets: map[string]*c19Bucket{}}
	h.maxB, h.bon, h.step, h.gb = 3, 1, 100, 0
	h.clk.sec.Store(1_700_000_050)
	h.opt = Options{MaxBudget: h.maxB, StepSec: uint32(h.step), BudgetBonus: h.bon, GlobalBudget: h.gb, Now: h.clk.Now}
	var cleanup func()
	h.dir, cleanup = mdkScratch(r, "c19-clamp-")
	defer cleanup()
	if err := mdkCreateBinlog(h.dir, 0); err != nil {
		r.Inconclusive("cannot create binlog: " + err.Error())
		return
	}
	h.dbFile = "db"
	db, err := mdkOpen(h.dir, h.dbFile, h.opt, 0)
	if err != nil {
		r.Inconclusive("cannot open database: " + err.Error())
		return
	}
	h.db = db
	defer func() { _ = mdkClose(h.db) }()
	h.getOrCreate("m0", "first")
	h.resetTo("m0", 1_000_000)
	floods := 0
	for i := 0; i < maxResetLimit+3 && !h.broken; i++ {
		if _, flood := h.getOrCreate("m0", fmt.Sprintf("clamp-k%d", i)); flood {
			floods++
		}
	}
	w.Count("clamp_history.creations_attempted", int64(maxResetLimit+3))
	w.Count("clamp_history.flood_answers", int64(floods))
}

func (h *c19Hist) drain(metric string) {
	// creations without clock movement until the flood answer: every token the code
	// believes to have becomes a visible creation
	b := h.bucket(metric)
	limit := int(b.tokens) + int(h.maxB) + 3
	if limit > 16 {
		limit = 16
	}
	h.w.Count("op.drain", 1)
	for i := 0; i < limit && !h.broken; i++ {
		k := h.freshKey()
		h.pool = append(h.pool, k)
		if _, flood := h.getOrCreate(metric, k); flood {
			return
		}
	}
}

func (h *c19Hist) reopen() bool {
	if err := mdkClose(h.db); err != nil {
		h.viol("reopen/close-error", err.Error(), nil)
		return false
	}
	db, err := mdkOpen(h.dir, h.dbFile, h.opt, 0)
	if err != nil {
		h.db = nil
		h.viol("reopen/open-error", err.Error(), nil)
		return false
	}
	h.db = db
	h.reopens++
	h.w.Count("op.reopen", 1)
	h.logf("reopen")
	return true
}

// promote abandons the current database file and continues on one rebuilt from the binlog
// alone, the way a promoted replica (or a primary restarted from an old snapshot) would.
// Ids, strings, "ids ever used" and every metric's budget must carry over: the same models
// keep judging.  ResetFlood writes no binlog event (known finding C16/reset-flood-not-logged),
// so a metric whose flood row was last written by a reset comes back with the row of its last
// creation; for exactly those metrics the bucket is re-read from the restored row and the
// hand-over is counted as not judged.
func (h *c19Hist) promote(metrics []string) bool {
	if err := mdkClose(h.db); err != nil {
		h.viol("promote/close-error", err.Error(), nil)
		h.db = nil
		return false
	}
	h.promotions++
	h.dbFile = fmt.Sprintf("db-restored-%d", h.promotions)
	db, err := mdkOpen(h.dir, h.dbFile, h.opt, 0)
	if err != nil {
		h.db = nil
		h.viol("promote/replay-error", "the binlog cannot be replayed into a fresh database: "+err.Error(), nil)
		return false
	}
	h.db = db
	h.w.Count("op.promote_restored_database", 1)
	h.logf("promote: continue on %s rebuilt from the binlog", h.dbFile)
	for m, b := range h.buckets {
		if b.lastWriter == "reset" {
			h.resync(m)
			b.lastWriter, b.taint = "create", false
			h.r.NotJudged("promote_budget_of_metric_with_unlogged_reset_reread", 1)
		} else {
			h.w.Count("promote.metric_budgets_carried_over_and_judged", 1)
		}
	}
	// spend, without clock movement, whatever the restored database believes to have
	for _, m := range metrics {
		h.drain(m)
	}
	h.lookups(3)
	return !h.broken
}

func c19RunHistory(r *verifkit.Run, w *verifkit.Worker, idx, nOps int) {
	rnd := r.Rand(fmt.Sprintf("hist/%d", idx))
	h := &c19Hist{r: r, w: w, idx: idx, rnd: rnd, clk: &mdkClock{},
		s2i: map[string]int32{}, i2s: map[int32]string{}, everIDs: map[int32]bool{}, buckets: map[string]*c19Bucket{}}
	h.maxB = int64(1 + rnd.IntN(5))
	h.bon = int64(rnd.IntN(3))
	h.step = []int64{60, 100, 100, 3600}[rnd.IntN(4)]
	h.gb = []int64{0, 0, 0, 2, 6}[rnd.IntN(5)]
	start := int64(1_700_000_000 + rnd.IntN(100000))
	if rnd.IntN(4) == 0 {
		start -= start % h.step // exactly on a step boundary
	}
	h.clk.sec.Store(start)
	h.opt = Options{MaxBudget: h.maxB, StepSec: uint32(h.step), BudgetBonus: h.bon, GlobalBudget: h.gb, Now: h.clk.Now}
	var cleanup func()
	h.dir, cleanup = mdkScratch(r, fmt.Sprintf("c19-%d-", idx))
	defer cleanup()
	if err := mdkCreateBinlog(h.dir, 0); err != nil {
		r.Inconclusive("cannot create binlog: " + err.Error())
		return
	}
	h.dbFile = "db"
	db, err := mdkOpen(h.dir, h.dbFile, h.opt, 0)
	if err != nil {
		r.Inconclusive("cannot open database: " + err.Error())
		return
	}
	h.db = db
	defer func() {
		if h.db != nil {
			_ = mdkClose(h.db)
		}
	}()
	metrics := []string{"m0", "m1", "metric with space", ""}[:2+rnd.IntN(3)]
	steps := []int64{0, 0, 0, 1, h.step / 2, h.step - 1, h.step, h.step + 1, 2 * h.step, 3*h.step + 7}
	for op := 0; op < nOps && !h.broken; op++ {
		h.clk.Add(steps[rnd.IntN(len(steps))])
		m := metrics[rnd.IntN(len(metrics))]
		switch k := rnd.IntN(100); {
		case k < 42:
			h.getOrCreate(m, h.anyKey())
		case k < 50:
			h.getOrCreate(m, h.freshKeyPooled())
		case k < 60:
			h.lookups(1 + rnd.IntN(3))
		case k < 64:
			h.page()
		case k < 72:
			h.put()
		case k < 80:
			h.del()
		case k < 90:
			h.reset(m)
		case k < 95:
			h.drain(m)
		case k < 97:
			if !h.reopen() {
				return
			}
		default:
			if !h.promote(metrics) {
				return
			}
		}
	}
	if h.broken || h.db == nil {
		return
	}
	if idx == 0 {
		r.Assume("journal mode observed on disk in history 0: " + mdkJournalMode(h.dir, h.dbFile))
	}
	// final: drain every metric, then check the whole bijection from both sides
	for _, m := range metrics {
		h.drain(m)
	}
	h.page()
	ctx := context.Background()
	for _, id := range h.everList() {
		s, ex, err := h.db.GetMappingByID(ctx, id)
		want, ok := h.i2s[id]
		if err != nil || ex != ok || s != want {
			h.viol("bijection/final-by-id", fmt.Sprintf("id %d: got (%q,%v,%v) want (%q,%v)", id, s, ex, err, want, ok), nil)
		}
		w.Case(true, fmt.Sprintf("final-byid|%v", ok))
	}
	for _, k := range h.pool {
		id, notEx, err := h.db.GetMappingByValue(ctx, k)
		want, ok := h.s2i[k]
		if err != nil || notEx == ok || (ok && id != want) {
			h.viol("bijection/final-by-value", fmt.Sprintf("key %q: got (%d,notExists=%v,%v) want (%d,%v)", k, id, notEx, err, want, ok), nil)
		}
		w.Case(true, fmt.Sprintf("final-byvalue|%v", ok))
	}
	if r.WantSample() {
		l := h.log
		if len(l) > 25 {
			l = l[:25]
		}
		r.Sample(map[string]any{"history": idx, "max_budget": h.maxB, "bonus": h.bon, "step": h.step, "global_budget": h.gb, "first_ops": l})
	}
}

func (h *c19Hist) freshKeyPooled() string {
	k := h.freshKey()
	h.pool = append(h.pool, k)
	return k
}

func TestVerifC19(t *testing.T) {
	r := verifkit.Start(t, "C19", "metadata")
	defer r.Finish()
	mdkAssumeSQLite(r)
	r.Assume("the clock passed through Options.Now never goes backwards")
	r.Assume("PutMapping is an administrative override: the pair replaces whatever held the id or the key; ids put by hand are positive and far below 2^31")
	r.SetRule("histories of get-or-create / put / delete / reset-flood (values around the maximum budget and around / far above the reset clamp; reported and stored budget compared after each) / lookups / GetNewMappings pages / drains / reopen / continuation on a database rebuilt from the binlog (promoted replica) over 2–4 metrics and a growing key pool (hostile keys: empty-ish, 2 KB, binary, quotes, non-ASCII), MaxBudget 1–5, bonus 0–2, StepSec 60/100/3600, GlobalBudget 0/2/6, clock steps 0…3·StepSec around the boundary. One case = one judged answer. Non-trivial = a creation/flood decision outside the global-budget exemption, or a lookup/page after a delete, put or reopen; distinct = (answer kind, MaxBudget, bonus, model tokens, steps crossed, last writer of the flood row) resp. (lookup kind, hit/miss, history features).")
	nHist := r.N(160, 3000)
	nOps := r.N(80, 100)
	workers := r.N(8, 16)
	r.Parallel(workers, "hist", func(w *verifkit.Worker) {
		if w.Index == 0 && r.Thorough() {
			c19ClampHistory(r, w)
		}
		for i := w.Index; i < nHist; i += workers {
			c19RunHistory(r, w, i, nOps)
			w.Count("histories", 1)
		}
	})
	r.SetCounter("goroutines_at_end", int64(runtime.NumGoroutine()))
}
