//go:build verif

// C16 — replaying the metadata binlog reproduces the primary's state.
//
// Workload: histories of entity requests (create / edit / rename / delete, predefined
// ids), mapping operations (get-or-create, put, delete, reset-flood) and bootstrap puts
// against a primary with a real fsbinlog (optionally with a small chunk size, so the log
// rotates); snapshots of the database file are taken at random points (close–copy–reopen,
// and the engine's own online backup); at the end the binlog is replayed into a fresh
// file and from every snapshot.
// Oracle: everything observable (journal, entity history, versioned entities, mappings
// from both sides, bootstrap, flood-limit rows, remaining tables) must be equal on the
// primary and on every replica.  Each difference is classified by a signature computed
// from the difference itself and the recorded history.
package metadata

import (
	"context"
	"encoding/hex"
	"fmt"
	"math/rand/v2"
	"os"
	"path/filepath"
	"runtime"
	"sort"
	"strings"
	"testing"

	"github.com/VKCOM/statshouse/internal/data_model/gen2/tlmetadata"
	"github.com/VKCOM/statshouse/internal/data_model/gen2/tlstatshouse"
	"github.com/VKCOM/statshouse/internal/sqlite"
	"github.com/VKCOM/statshouse/internal/zzverif/verifkit"
)

type c16FloodState struct {
	Kind   string `json:"after"` // "init" | "create" | "reset"
	Exists bool   `json:"exists"`
	Last   int64  `json:"last_time_update"`
	Free   int64  `json:"count_free"`
}

func (s c16FloodState) same(o c16FloodState) bool {
	return s.Exists == o.Exists && (!s.Exists || (s.Last == o.Last && s.Free == o.Free))
}

type c16Snapshot struct {
	File    string
	Kind    string // "close-copy" | "online-backup"
	AtOp    int    // operations completed when it was taken (-1: unknown, online backup)
	Entries int    // successful logged operations before it (close-copy only)
}

type c16Obs struct {
	Journal   map[int64]tlmetadata.Event
	JournalN  int
	HistShort map[int64]string
	EntVer    map[string]string
	Pairs     string
	ByID      map[int32]string
	ByValue   map[string]string
	Bootstrap string
	Dump      mdkDump
}

type c16Hist struct {
	r     *verifkit.Run
	w     *verifkit.Worker
	idx   int
	rnd   *rand.Rand
	dir   string
	chunk uint32
	db    *DBV2
	opt   Options
	clk   *mdkClock
	m     *mdkModel
	gen   *mdkGen
	log   []string

	keys     []string
	everIDs  map[int32]bool
	liveIDs  map[int32]bool
	metrics  []string
	flood    map[string][]c16FloodState
	snaps    []c16Snapshot
	feat     []string // per completed op: feature of a successful logged operation ("" otherwise)
	noRename bool
	noReset  bool
}

func (h *c16Hist) logf(f string, a ...any) {
	h.log = append(h.log, fmt.Sprintf("#%d t=%d ", len(h.feat), h.clk.Unix())+fmt.Sprintf(f, a...))
}

func (h *c16Hist) witness(extra map[string]any) map[string]any {
	w := map[string]any{"history": h.idx, "binlog_chunk_size": h.chunk, "global_budget": h.opt.GlobalBudget, "max_budget": h.opt.MaxBudget,
		"ops": append([]string(nil), h.log...)}
	for k, v := range extra {
		w[k] = v
	}
	return w
}

func (h *c16Hist) floodRow(db *DBV2, m string) (st c16FloodState) {
	_ = db.eng.Do(context.Background(), "verif_flood_row", func(conn sqlite.Conn, cache []byte) ([]byte, error) {
		rows := conn.Query("verif_flood_row", "SELECT last_time_update, count_free FROM flood_limits WHERE metric_name = $m", sqlite.BlobString("$m", m))
		if rows.Next() {
			st.Exists = true
			st.Last, _ = rows.ColumnInt64(0)
			st.Free, _ = rows.ColumnInt64(1)
		}
		return cache, rows.Error()
	})
	return
}

func (h *c16Hist) noteFlood(m, kind string) {
	st := h.floodRow(h.db, m)
	st.Kind = kind
	h.flood[m] = append(h.flood[m], st)
}

func (h *c16Hist) done(feature string) { h.feat = append(h.feat, feature) }

// ---- operations on the primary (outcomes are not judged here: C15 and C19 do that)

func (h *c16Hist) entityOp() {
	op := h.gen.next(h.clk.Unix(), true)
	if h.rnd.IntN(8) == 0 {
		op.Data = fmt.Sprintf(`{"op":%d,"pad":"%s"}`, len(h.feat), strings.Repeat("p", 200+h.rnd.IntN(900)))
	}
	if h.noRename {
		if cur := h.m.ents[op.ID]; cur != nil && !op.Create {
			op.Name = cur.Name
		} else if op.ID < 0 {
			if cur := h.m.ents[op.ID]; cur != nil {
				op.Name = cur.Name
			}
		}
	}
	ev, err := h.db.SaveEntity(context.Background(), op.Name, op.ID, op.Ver, op.Data, op.Create, op.Del, op.Typ, op.Meta)
	if err != nil {
		h.logf("%s -> refused(%s)", mdkOpString(op), mdkErrClass(err))
		h.w.Count("primary.entity_refused", 1)
		h.done("")
		return
	}
	cur := h.m.ents[ev.Id]
	e := h.m.apply(op, ev, cur == nil)
	feature := "edit"
	hist := h.m.hist[ev.Id]
	switch {
	case cur == nil:
		feature = "create"
	case hist[len(hist)-1].Renamed:
		feature = "rename"
	}
	if ev.Id < 0 {
		h.w.Count("primary.predefined_entity_saved", 1)
	}
	h.logf("%s -> ok id=%d ver=%d ns=%d", mdkOpString(op), e.ID, e.Ver, e.NsID)
	h.w.Count("primary."+feature, 1)
	h.done(feature)
}

func (h *c16Hist) key() string {
	if len(h.keys) > 0 && h.rnd.IntN(3) == 0 {
		return h.keys[h.rnd.IntN(len(h.keys))]
	}
	k := fmt.Sprintf("h%d-k%d", h.idx, len(h.keys))
	switch h.rnd.IntN(10) {
	case 0:
		k += "\x00\xfe binary"
	case 1:
		k += " 'q\" ключ"
	case 2:
		k += strings.Repeat("z", 500)
	}
	h.keys = append(h.keys, k)
	return k
}

func (h *c16Hist) sortedIDs(m map[int32]bool) []int32 {
	ids := make([]int32, 0, len(m))
	for id := range m {
		ids = append(ids, id)
	}
	sort.Slice(ids, func(i, j int) bool { return ids[i] < ids[j] })
	return ids
}

func (h *c16Hist) getOrCreate() {
	m, k := h.metrics[h.rnd.IntN(len(h.metrics))], h.key()
	resp, err := h.db.GetOrCreateMapping(context.Background(), m, k)
	if err != nil {
		h.r.Violation("C16/primary/get-or-create-error", err.Error(), h.witness(nil))
		h.done("")
		return
	}
	if c, ok := resp.AsCreated(); ok {
		h.everIDs[c.Id], h.liveIDs[c.Id] = true, true
		h.noteFlood(m, "create")
		h.logf("getorcreate(%s,%q) -> created %d", m, c19ShortKey(k), c.Id)
		h.w.Count("primary.mapping_created", 1)
		h.done("create-mapping")
		return
	}
	h.logf("getorcreate(%s,%q) -> %s", m, c19ShortKey(k), resp.TLName())
	h.done("")
}

func c19ShortKey(k string) string {
	if len(k) > 32 {
		return fmt.Sprintf("%s…(%d)", k[:20], len(k))
	}
	return k
}

func (h *c16Hist) put() {
	n := 1 + h.rnd.IntN(3)
	var ks []string
	var vs []int32
	for i := 0; i < n; i++ {
		ks = append(ks, h.key())
		ever := h.sortedIDs(h.everIDs)
		if len(ever) > 0 && h.rnd.IntN(3) == 0 {
			vs = append(vs, ever[h.rnd.IntN(len(ever))])
		} else {
			vs = append(vs, int32(100+h.rnd.IntN(40)))
		}
	}
	if err := h.db.PutMapping(context.Background(), ks, vs); err != nil {
		h.r.Violation("C16/primary/put-error", err.Error(), h.witness(nil))
		h.done("")
		return
	}
	for _, v := range vs {
		h.everIDs[v], h.liveIDs[v] = true, true
	}
	h.logf("put(%d pairs, ids %v)", n, vs)
	h.w.Count("primary.put_mapping", 1)
	h.done("put-mapping")
}

func (h *c16Hist) del() {
	var ids []int32
	ever := h.sortedIDs(h.everIDs)
	for i := 0; i < 1+h.rnd.IntN(3); i++ {
		if len(ever) > 0 && h.rnd.IntN(4) != 0 {
			ids = append(ids, ever[h.rnd.IntN(len(ever))])
		} else {
			ids = append(ids, int32(1+h.rnd.IntN(150)))
		}
	}
	cnt, err := h.db.deleteMappingsByIdBatched(context.Background(), ids)
	if err != nil {
		h.r.Violation("C16/primary/delete-error", err.Error(), h.witness(nil))
		h.done("")
		return
	}
	h.logf("delete(%v) -> %d present", ids, cnt)
	if cnt > 0 {
		h.w.Count("primary.delete_mappings", 1)
		h.done("delete-mappings")
		return
	}
	h.done("")
}

func (h *c16Hist) resetFlood() {
	m := h.metrics[h.rnd.IntN(len(h.metrics))]
	v := []int64{0, -3, 1, 2, h.opt.MaxBudget, h.opt.MaxBudget + 5}[h.rnd.IntN(6)]
	before := h.floodRow(h.db, m)
	_, _, err := h.db.ResetFlood(context.Background(), m, v)
	if err != nil {
		h.r.Violation("C16/primary/reset-flood-error", err.Error(), h.witness(nil))
		h.done("")
		return
	}
	h.noteFlood(m, "reset")
	after := h.flood[m][len(h.flood[m])-1]
	h.logf("resetflood(%s,%d): row %+v -> %+v", m, v, before, after)
	h.w.Count("primary.reset_flood", 1)
	if !before.same(after) {
		h.w.Count("primary.reset_flood_changed_row", 1)
	}
	h.done("reset-flood")
}

func (h *c16Hist) putBootstrap() {
	// the only producer of PutBootstrapEvent in the package is applyPutBootstrap itself;
	// it is driven the way a primary-side caller would: inside Engine.Do, returning the event
	var ms []tlstatshouse.Mapping
	for _, id := range h.sortedIDs(h.liveIDs) {
		if h.rnd.IntN(2) == 0 {
			ms = append(ms, tlstatshouse.Mapping{Str: fmt.Sprintf("boot-%d", id), Value: id})
		}
	}
	err := h.db.eng.Do(context.Background(), "put_bootstrap", func(conn sqlite.Conn, cache []byte) ([]byte, error) {
		_, cache, err := applyPutBootstrap(conn, cache, ms)
		return cache, err
	})
	if err != nil {
		h.r.Violation("C16/primary/put-bootstrap-error", err.Error(), h.witness(nil))
		h.done("")
		return
	}
	h.logf("putbootstrap(%d mappings)", len(ms))
	h.w.Count("primary.put_bootstrap", 1)
	h.done("put-bootstrap")
}

func (h *c16Hist) entries() int {
	n := 0
	for _, f := range h.feat {
		if f != "" && f != "reset-flood" {
			n++
		}
	}
	return n
}

func (h *c16Hist) snapshotCloseCopy() bool {
	if err := mdkClose(h.db); err != nil {
		h.r.Violation("C16/primary/close-error", err.Error(), h.witness(nil))
		h.db = nil
		return false
	}
	name := fmt.Sprintf("snap-%d", len(h.snaps))
	if err := mdkCopyFile(filepath.Join(h.dir, "db"), filepath.Join(h.dir, name)); err != nil {
		h.r.Inconclusive("cannot copy snapshot: " + err.Error())
		return false
	}
	h.snaps = append(h.snaps, c16Snapshot{File: name, Kind: "close-copy", AtOp: len(h.feat), Entries: h.entries()})
	db, err := mdkOpen(h.dir, "db", h.opt, h.chunk)
	if err != nil {
		h.r.Violation("C16/primary/reopen-error", "the primary cannot be reopened over its own database and binlog: "+err.Error(), h.witness(nil))
		h.db = nil
		return false
	}
	h.db = db
	h.logf("snapshot %s (close, copy, reopen)", name)
	h.w.Count("snapshot.close_copy", 1)
	return true
}

func (h *c16Hist) snapshotBackup() {
	prefix := filepath.Join(h.dir, fmt.Sprintf("bk%d", len(h.snaps)))
	path, err := h.db.backup(context.Background(), prefix)
	if err != nil {
		h.w.Count("snapshot.online_backup_failed", 1)
		h.logf("online backup failed: %v", err)
		return
	}
	name := fmt.Sprintf("snap-%d", len(h.snaps))
	if err := os.Rename(path, filepath.Join(h.dir, name)); err != nil {
		h.r.Inconclusive("cannot move backup: " + err.Error())
		return
	}
	h.snaps = append(h.snaps, c16Snapshot{File: name, Kind: "online-backup", AtOp: -1})
	h.logf("snapshot %s (online backup %s)", name, filepath.Base(path))
	h.w.Count("snapshot.online_backup", 1)
}

// ---- observation

func (h *c16Hist) observe(db *DBV2) (*c16Obs, error) {
	ctx := context.Background()
	o := &c16Obs{Journal: map[int64]tlmetadata.Event{}, HistShort: map[int64]string{}, EntVer: map[string]string{}, ByID: map[int32]string{}, ByValue: map[string]string{}}
	from := int64(0)
	for {
		evs, err := db.JournalEvents(ctx, from, 50)
		if err != nil {
			return nil, fmt.Errorf("journal: %w", err)
		}
		if len(evs) == 0 {
			break
		}
		for _, e := range evs {
			if _, dup := o.Journal[e.Id]; dup || e.Version <= from {
				o.Journal[-1<<40] = tlmetadata.Event{Name: "journal not ascending / entity twice"}
			}
			o.Journal[e.Id] = e
			o.JournalN++
			from = e.Version
		}
	}
	for _, id := range h.m.sortedIDs() {
		resp, err := db.GetHistoryShort(ctx, id)
		if err != nil {
			return nil, fmt.Errorf("history short: %w", err)
		}
		var sb strings.Builder
		for _, e := range resp.Events {
			fmt.Fprintf(&sb, "%d:%q;", e.Version, e.Metadata)
		}
		o.HistShort[id] = sb.String()
		for _, v := range h.m.hist[id] {
			ev, err := db.GetEntityVersioned(ctx, id, v.Ver)
			k := fmt.Sprintf("%d@%d", id, v.Ver)
			if err != nil {
				o.EntVer[k] = "error: " + err.Error()
			} else {
				o.EntVer[k] = fmt.Sprintf("%q ns=%d typ=%d upd=%d data=%s meta=%q", ev.Name, ev.NamespaceId, ev.EventType, ev.UpdateTime, ev.Data, ev.Metadata)
			}
		}
	}
	var pairs []string
	fromID := int32(0)
	for {
		ms, _, err := db.GetNewMappings(ctx, fromID, 64, nil)
		if err != nil {
			return nil, fmt.Errorf("mappings: %w", err)
		}
		if len(ms) == 0 {
			break
		}
		for _, p := range ms {
			pairs = append(pairs, fmt.Sprintf("%d=%q", p.Value, p.Str))
			fromID = p.Value
		}
	}
	o.Pairs = strings.Join(pairs, "\n")
	for _, id := range h.sortedIDs(h.everIDs) {
		s, ok, err := db.GetMappingByID(ctx, id)
		o.ByID[id] = fmt.Sprintf("%q %v %v", s, ok, err)
	}
	for _, k := range h.keys {
		id, notEx, err := db.GetMappingByValue(ctx, k)
		o.ByValue[k] = fmt.Sprintf("%d %v %v", id, notEx, err)
	}
	b, err := db.GetBootstrap(ctx)
	if err != nil {
		return nil, fmt.Errorf("bootstrap: %w", err)
	}
	o.Bootstrap = fmt.Sprint(b.Mappings)
	o.Dump, err = mdkDumpAll(db)
	return o, err
}

// ---- signatures

// renameSignature: the replica's row of entity id equals a state the primary's entity had
// immediately before one of its successful renames (the replayed edit matched no row and
// every later edit of the entity misses too).
func (h *c16Hist) renameSignature(id int64, rep tlmetadata.Event) (bool, string) {
	hist := h.m.hist[id]
	for i := 0; i+1 < len(hist); i++ {
		s := hist[i]
		if hist[i+1].Renamed && rep.Version == s.Ver && rep.Name == s.Name && rep.Data == s.Data && rep.UpdateTime == s.Upd && rep.Unused == s.Del && rep.NamespaceId == s.NsID {
			return true, fmt.Sprintf("replica holds entity %d as it was at version %d (%q), before the rename to %q at version %d", id, s.Ver, s.Name, hist[i+1].Name, hist[i+1].Ver)
		}
	}
	return false, ""
}

// abortSignature: the replay stopped on the UNIQUE(namespace_id,type,name) index, and the
// history holds a rename away from a name followed by a create of that (type, name).
func (h *c16Hist) abortSignature(err error) (bool, string) {
	if !strings.Contains(err.Error(), "UNIQUE constraint failed: metrics_v5.namespace_id, metrics_v5.type, metrics_v5.name") {
		return false, ""
	}
	for _, id := range h.m.sortedIDs() {
		hist := h.m.hist[id]
		for i := 0; i+1 < len(hist); i++ {
			if !hist[i+1].Renamed {
				continue
			}
			for _, id2 := range h.m.sortedIDs() {
				c := h.m.hist[id2][0]
				if id2 != id && c.Typ == hist[i].Typ && c.Name == hist[i].Name && c.NsID == hist[i].NsID && c.Ver > hist[i+1].Ver {
					return true, fmt.Sprintf("entity %d was renamed away from %q at version %d, entity %d was created with that name at version %d: the replica still holds the old name", id, c.Name, hist[i+1].Ver, id2, c.Ver)
				}
			}
		}
	}
	return false, ""
}

// resetSignature: the replica's flood row of the metric equals the primary's row as it was
// immediately before one of the ResetFlood calls that close the metric's history (nothing
// but resets touched the row afterwards).
func (h *c16Hist) resetSignature(metric string, rep c16FloodState) (bool, string) {
	trail := append([]c16FloodState{{Kind: "init"}}, h.flood[metric]...)
	for j := len(trail) - 1; j >= 1 && trail[j].Kind == "reset"; j-- {
		if trail[j-1].same(rep) {
			return true, fmt.Sprintf("replica holds the flood row of %q as it was before a trailing ResetFlood (%+v), the primary ended at %+v", metric, trail[j-1], trail[len(trail)-1])
		}
	}
	return false, ""
}

func c16ParseFlood(row map[string]string) c16FloodState {
	if row == nil {
		return c16FloodState{}
	}
	var st c16FloodState
	st.Exists = true
	fmt.Sscan(row["last_time_update"], &st.Last)
	fmt.Sscan(row["count_free"], &st.Free)
	return st
}

func c16MetricOfKey(k string) string {
	// quote() of a blob is X'hex'
	if strings.HasPrefix(k, "X'") && strings.HasSuffix(k, "'") {
		b, _ := hex.DecodeString(k[2 : len(k)-1])
		return string(b)
	}
	return strings.Trim(k, "'")
}

// compare judges one replica against the primary; returns the classes seen.
func (h *c16Hist) compare(label string, p, rep *c16Obs, snap *c16Snapshot) (known, unknown int) {
	wit := func(extra map[string]any) map[string]any {
		extra["replica"] = label
		if snap != nil {
			extra["snapshot"] = snap
		}
		return h.witness(extra)
	}
	bad := func(key, what string, extra map[string]any) {
		unknown++
		h.r.Violation("C16/"+key, what, wit(extra))
	}
	// journal == metrics_v5, typed
	ids := map[int64]bool{}
	for id := range p.Journal {
		ids[id] = true
	}
	for id := range rep.Journal {
		ids[id] = true
	}
	for id := range ids {
		pe, pok := p.Journal[id]
		re, rok := rep.Journal[id]
		h.w.Count("compared.journal_entries", 1)
		if pok && rok && pe == re {
			continue
		}
		if pok && rok {
			if ok, why := h.renameSignature(id, re); ok {
				known++
				h.r.Violation("C16/rename-not-replayed", "a renamed entity keeps its old name, version and data on the replica: applyEditEntityEvent matches on the new name and never sets name", wit(map[string]any{"entity": id, "primary": pe, "replica_row": re, "signature": why}))
				continue
			}
		}
		col := "row-missing"
		switch {
		case pok && rok && pe.Name != re.Name:
			col = "name"
		case pok && rok && pe.Version != re.Version:
			col = "version"
		case pok && rok:
			col = "other-column"
		}
		bad("diverge/journal/"+col, fmt.Sprintf("journal entry of entity %d differs on the replica", id), map[string]any{"entity": id, "primary": pe, "replica_row": re, "primary_has": pok, "replica_has": rok})
	}
	for id, ps := range p.HistShort {
		h.w.Count("compared.history_short", 1)
		if rep.HistShort[id] != ps {
			bad("diverge/history-short", fmt.Sprintf("GetHistoryShort(%d) differs", id), map[string]any{"primary": ps, "replica_value": rep.HistShort[id]})
		}
	}
	for k, pv := range p.EntVer {
		h.w.Count("compared.entity_versioned", 1)
		if rep.EntVer[k] != pv {
			bad("diverge/entity-versioned", fmt.Sprintf("GetEntityVersioned(%s) differs", k), map[string]any{"primary": pv, "replica_value": rep.EntVer[k]})
		}
	}
	h.w.Count("compared.mapping_lists", 1)
	if p.Pairs != rep.Pairs {
		bad("diverge/mappings", "the mapping list (GetNewMappings pages) differs", map[string]any{"primary": p.Pairs, "replica_value": rep.Pairs})
	}
	for id, pv := range p.ByID {
		h.w.Count("compared.mapping_by_id", 1)
		if rep.ByID[id] != pv {
			bad("diverge/mapping-by-id", fmt.Sprintf("GetMappingByID(%d) differs", id), map[string]any{"primary": pv, "replica_value": rep.ByID[id]})
		}
	}
	for k, pv := range p.ByValue {
		h.w.Count("compared.mapping_by_value", 1)
		if rep.ByValue[k] != pv {
			bad("diverge/mapping-by-value", fmt.Sprintf("GetMappingByValue(%q) differs", k), map[string]any{"primary": pv, "replica_value": rep.ByValue[k]})
		}
	}
	h.w.Count("compared.bootstrap", 1)
	if p.Bootstrap != rep.Bootstrap {
		bad("diverge/bootstrap", "GetBootstrap differs", map[string]any{"primary": p.Bootstrap, "replica_value": rep.Bootstrap})
	}
	// tables (metrics_v5 is covered, typed, by the journal above)
	floodSeen := map[string]bool{}
	for _, d := range mdkCompareDumps(p.Dump, rep.Dump) {
		switch d.Table {
		case "metrics_v5":
			continue
		case "flood_limits":
			if floodSeen[d.Key] {
				continue
			}
			floodSeen[d.Key] = true
			metric := c16MetricOfKey(d.Key)
			repState := c16ParseFlood(rep.Dump["flood_limits"][d.Key])
			if ok, why := h.resetSignature(metric, repState); ok {
				known++
				h.r.Violation("C16/reset-flood-not-logged", "ResetFlood writes no binlog event: the flood-limit row of the metric differs after replay", wit(map[string]any{"metric": metric, "primary_row": p.Dump["flood_limits"][d.Key], "replica_row": rep.Dump["flood_limits"][d.Key], "signature": why, "row_history": h.flood[metric]}))
				continue
			}
			bad("diverge/flood_limits/"+strings.Trim(d.Column, "<>"), fmt.Sprintf("flood-limit row of %q differs and the difference is not explained by trailing ResetFlood calls", metric), map[string]any{"diff": d, "row_history": h.flood[metric]})
		default:
			bad("diverge/table/"+d.Table+"/"+strings.Trim(d.Column, "<>"), fmt.Sprintf("table %s row %s differs", d.Table, d.Key), map[string]any{"diff": d})
		}
	}
	for _, t := range mdkTables {
		h.w.Count("compared.table_rows", int64(len(p.Dump[t.name])))
	}
	return
}

func (h *c16Hist) suffixFeatures(snap *c16Snapshot) string {
	from := 0
	if snap != nil {
		if snap.AtOp < 0 {
			return "unknown-offset"
		}
		from = snap.AtOp
	}
	set := map[string]bool{}
	for _, f := range h.feat[from:] {
		if f != "" {
			set[f] = true
		}
	}
	var l []string
	for f := range set {
		l = append(l, f)
	}
	sort.Strings(l)
	return strings.Join(l, "+")
}

func c16RunHistory(r *verifkit.Run, w *verifkit.Worker, idx, nOps int) {
	rnd := r.Rand(fmt.Sprintf("hist/%d", idx))
	h := &c16Hist{r: r, w: w, idx: idx, rnd: rnd, clk: &mdkClock{}, m: mdkNewModel(), everIDs: map[int32]bool{}, liveIDs: map[int32]bool{}, flood: map[string][]c16FloodState{}}
	h.clk.sec.Store(int64(1_700_000_000 + rnd.IntN(1000000)))
	h.opt = Options{MaxBudget: int64(2 + rnd.IntN(4)), StepSec: 100, BudgetBonus: int64(1 + rnd.IntN(2)), GlobalBudget: int64(rnd.IntN(3)), Now: h.clk.Now}
	h.chunk = []uint32{0, 0, 700, 2500}[rnd.IntN(4)]
	h.metrics = []string{"m0", "m1", "m 2"}
	h.noRename = rnd.IntN(10) < 3
	h.noReset = rnd.IntN(10) < 3
	var cleanup func()
	h.dir, cleanup = mdkScratch(r, fmt.Sprintf("c16-%d-", idx))
	defer cleanup()
	if err := mdkCreateBinlog(h.dir, h.chunk); err != nil {
		r.Inconclusive("cannot create binlog: " + err.Error())
		return
	}
	db, err := mdkOpen(h.dir, "db", h.opt, h.chunk)
	if err != nil {
		r.Inconclusive("cannot open database: " + err.Error())
		return
	}
	h.db = db
	defer func() {
		if h.db != nil {
			_ = mdkClose(h.db)
		}
	}()
	h.gen = &mdkGen{rnd: rnd, m: h.m}
	for i := 0; i < 4+rnd.IntN(4); i++ {
		h.gen.names = append(h.gen.names, fmt.Sprintf("n%d", i))
	}
	// dense histories: a snapshot after every logged operation (every replay start point)
	dense := (r.Thorough() && idx%10 == 3) || (r.Quick() && idx%25 == 3)
	if dense {
		w.Count("histories_with_a_snapshot_after_every_logged_operation", 1)
	}
	for op := 0; op < nOps && h.db != nil; op++ {
		if dense && len(h.feat) > 0 && h.feat[len(h.feat)-1] != "" && (len(h.snaps) == 0 || h.snaps[len(h.snaps)-1].AtOp != len(h.feat)) {
			if !h.snapshotCloseCopy() {
				return
			}
		}
		h.clk.Add(int64(rnd.IntN(150)))
		switch k := rnd.IntN(100); {
		case k < 45:
			h.entityOp()
		case k < 68:
			h.getOrCreate()
		case k < 75:
			h.put()
		case k < 82:
			h.del()
		case k < 90:
			if h.noReset {
				h.getOrCreate()
			} else {
				h.resetFlood()
			}
		case k < 93:
			h.putBootstrap()
		case k < 98:
			if !h.snapshotCloseCopy() {
				return
			}
		default:
			h.snapshotBackup()
		}
	}
	if h.db == nil {
		return
	}
	if idx == 0 {
		r.Assume("journal mode observed on disk in history 0: " + mdkJournalMode(h.dir, "db"))
	}
	p, err := h.observe(h.db)
	if err != nil {
		r.Violation("C16/primary/observe-error", err.Error(), h.witness(nil))
		return
	}
	if err := mdkClose(h.db); err != nil {
		r.Violation("C16/primary/close-error", err.Error(), h.witness(nil))
		h.db = nil
		return
	}
	h.db = nil
	files, _ := filepath.Glob(filepath.Join(h.dir, "bl.*"))
	w.Count("binlog.files", int64(len(files)))
	if len(files) > 1 {
		w.Count("histories_with_rotated_binlog", 1)
	}
	w.Count("primary.logged_operations", int64(h.entries()))

	type target struct {
		label string
		file  string
		snap  *c16Snapshot
	}
	targets := []target{{"fresh", "replica-fresh", nil}}
	for i := range h.snaps {
		targets = append(targets, target{fmt.Sprintf("%s(%s)", h.snaps[i].File, h.snaps[i].Kind), h.snaps[i].File, &h.snaps[i]})
	}
	for _, t := range targets {
		kind := "fresh"
		if t.snap != nil {
			kind = t.snap.Kind
		}
		feats := h.suffixFeatures(t.snap)
		rdb, err := mdkOpen(h.dir, t.file, h.opt, h.chunk)
		if err != nil {
			if ok, why := h.abortSignature(err); ok {
				r.Violation("C16/rename-not-replayed", "replay aborts (the replica cannot be opened): a create of a name that a renamed entity still holds on the replica hits the UNIQUE index", h.witness(map[string]any{"replica": t.label, "error": err.Error(), "signature": why}))
				w.Count("replica.aborted_known", 1)
				w.Case(true, fmt.Sprintf("%s|%s|aborted-known", kind, feats))
			} else {
				cl := "other"
				if strings.Contains(err.Error(), "UNIQUE constraint failed") {
					cl = "unique"
				}
				r.Violation("C16/replay-aborts/"+cl, "the replica cannot be opened: "+err.Error(), h.witness(map[string]any{"replica": t.label, "snapshot": t.snap}))
				w.Case(true, fmt.Sprintf("%s|%s|aborted", kind, feats))
			}
			continue
		}
		rep, err := h.observe(rdb)
		if err != nil {
			r.Violation("C16/replica/observe-error", err.Error(), h.witness(map[string]any{"replica": t.label}))
			_ = mdkClose(rdb)
			continue
		}
		known, unknown := h.compare(t.label, p, rep, t.snap)
		w.Count("replica.compared", 1)
		w.Count("replica.compared."+kind, 1)
		// reopening the replica must change nothing (the stored offset covers what was applied)
		if err := mdkClose(rdb); err != nil {
			r.Violation("C16/replica/close-error", err.Error(), h.witness(map[string]any{"replica": t.label}))
			continue
		}
		if t.snap == nil || rnd.IntN(3) == 0 {
			rdb2, err := mdkOpen(h.dir, t.file, h.opt, h.chunk)
			if err != nil {
				r.Violation("C16/replica/second-open-error", "a replica that replayed the binlog cannot be opened again: "+err.Error(), h.witness(map[string]any{"replica": t.label}))
			} else {
				d2, err := mdkDumpAll(rdb2)
				_ = mdkClose(rdb2)
				if err != nil {
					r.Violation("C16/replica/observe-error", err.Error(), h.witness(map[string]any{"replica": t.label}))
				} else if diffs := mdkCompareDumps(rep.Dump, d2); len(diffs) > 0 {
					r.Violation("C16/replica/second-open-changes-state/"+diffs[0].Table, "opening the replica a second time changed its tables (events applied twice or lost)", h.witness(map[string]any{"replica": t.label, "diffs": diffs}))
				}
				w.Count("replica.second_open_compared", 1)
			}
		}
		outcome := "equal"
		switch {
		case unknown > 0:
			outcome = "diverged"
		case known > 0:
			outcome = "known-defect-only"
		}
		w.Count("replica."+outcome, 1)
		w.Case(feats != "" || kind != "fresh", fmt.Sprintf("%s|%s|%s|rot%v", kind, feats, outcome, len(files) > 1))
	}
	if r.WantSample() {
		l := h.log
		if len(l) > 20 {
			l = l[:20]
		}
		r.Sample(map[string]any{"history": idx, "binlog_chunk_size": h.chunk, "snapshots": h.snaps, "first_ops": l})
	}
}

func TestVerifC16(t *testing.T) {
	r := verifkit.Start(t, "C16", "metadata")
	defer r.Finish()
	mdkAssumeSQLite(r)
	r.Assume("replicas are opened the way the package's own re-read tests do it: OpenDB over the closed primary's binlog, with a fresh database file or a snapshot of the primary's file")
	r.Assume("PutBootstrapEvent has no primary-side caller in the package; it is produced by running applyPutBootstrap inside Engine.Do")
	r.SetRule("histories of 40 (quick) / 80 (thorough) operations: entity requests (create / edit / rename / delete / undelete, predefined ids, namespaces, colliding names), get-or-create, put, delete-mappings, reset-flood, put-bootstrap, snapshots (close–copy–reopen at a known operation — after every logged operation in 1 of 25 (quick) / 10 (thorough) histories —, engine online backup), binlog chunk size default / 700 B / 2500 B (the log rotates); 30 % of the histories without renames, 30 % without resets. One case = one replica (fresh or from one snapshot) compared with the primary over every observable. Non-trivial = the replayed suffix holds at least one logged operation (or starts from a snapshot); distinct = (replica kind, set of operation kinds in the replayed suffix, outcome, rotated).")
	nHist := r.N(100, 2000)
	nOps := r.N(40, 80)
	workers := r.N(8, 16)
	r.Parallel(workers, "hist", func(w *verifkit.Worker) {
		for i := w.Index; i < nHist; i += workers {
			c16RunHistory(r, w, i, nOps)
			w.Count("histories", 1)
		}
	})
	r.SetCounter("goroutines_at_end", int64(runtime.NumGoroutine()))
}
