//go:build verif

// C15 — metadata edits are versioned and optimistic-concurrency safe.
//
// Unit "hist" (no race detector, parallel workers): sequential histories of
// create/edit/rename/delete requests for metrics, groups, dashboards, namespaces,
// prom-configs and predefined (negative-id) entities with stale/future versions and
// colliding names; every answer is compared with a reference model written from the
// statement; journal pages, GetEntityVersioned and GetHistoryShort are read back.
// Unit "conc" (-race): goroutines race SaveEntity from the same version / for the same
// name; the recorded history is checked directly (one winner, unique versions, real-time
// order) and for linearizability with porcupine, partitioned by entity.
package metadata

import (
	"context"
	"errors"
	"fmt"
	"math/rand/v2"
	"runtime"
	"sort"
	"strings"
	"sync"
	"sync/atomic"
	"testing"
	"time"

	"github.com/VKCOM/statshouse/internal/data_model"
	"github.com/VKCOM/statshouse/internal/data_model/gen2/tlmetadata"
	"github.com/VKCOM/statshouse/internal/format"
	"github.com/VKCOM/statshouse/internal/zzverif/verifkit"
	"github.com/anishathalye/porcupine"
)

type c15Hist struct {
	r   *verifkit.Run
	w   *verifkit.Worker
	idx int
	rnd *rand.Rand
	dir string
	db  *DBV2
	opt Options
	clk *mdkClock
	m   *mdkModel
	log []string
	// features for the non-triviality rule
	accepted, refused, renames, reopens int
}

func (h *c15Hist) viol(key, what string, extra map[string]any) {
	w := map[string]any{"history": h.idx, "ops": append([]string(nil), h.log...)}
	for k, v := range extra {
		switch x := v.(type) { // page-budget sized JSON data does not belong into a witness
		case mdkSaveOp:
			if len(x.Data) > 4096 {
				x.Data = fmt.Sprintf("<%d bytes of JSON>", len(x.Data))
			}
			v = x
		case tlmetadata.Event:
			if len(x.Data) > 4096 {
				x.Data = fmt.Sprintf("<%d bytes of JSON>", len(x.Data))
			}
			v = x
		case *mdkEnt:
			if x != nil && len(x.Data) > 4096 {
				c := *x
				c.Data = fmt.Sprintf("<%d bytes of JSON>", len(x.Data))
				v = &c
			}
		}
		w[k] = v
	}
	h.r.Violation("C15/"+key, what, w)
}

// save issues one request, judges the answer, updates the model.
func (h *c15Hist) save(op mdkSaveOp) {
	p := h.m.predict(op)
	ev, err := h.db.SaveEntity(context.Background(), op.Name, op.ID, op.Ver, op.Data, op.Create, op.Del, op.Typ, op.Meta)
	got := mdkErrClass(err)
	h.log = append(h.log, fmt.Sprintf("t=%d %s -> %s", h.clk.Unix(), mdkOpString(op), func() string {
		if err != nil {
			return "refused(" + got + ")"
		}
		return fmt.Sprintf("ok id=%d ver=%d ns=%d", ev.Id, ev.Version, ev.NamespaceId)
	}()))
	h.w.Count("request."+op.Class, 1)
	if err != nil {
		h.w.Count("refused."+got, 1)
	} else {
		h.w.Count("accepted", 1)
	}
	abstraction := fmt.Sprintf("%s|%s|pred:%v:%s|got:%s", op.Class, mdkTypName(op.Typ), p.OK, p.Reason, got)
	if !p.Judged {
		// a request carrying another type than the entity it addresses: the statement is silent
		h.r.NotJudged("request_"+strings.ReplaceAll(p.Why, "-", "_"), 1)
		if err == nil {
			cur := h.m.ents[ev.Id]
			if cur != nil && cur.Typ == format.NamespaceEvent && cur.Name != op.Name {
				h.w.Count("observed.namespace_renamed_by_request_of_other_type", 1)
			}
			h.m.apply(op, ev, cur == nil)
		}
		return
	}
	if err != nil && p.OK && p.SelfName && got == "exists" {
		// create flag on an existing predefined entity keeping its name, refused as "exists": the
		// name is held by the entity itself; the statement is silent
		h.r.NotJudged("predefined_entity_with_create_flag_refused_because_of_its_own_name", 1)
		return
	}
	if (err == nil) != p.OK {
		if err == nil {
			key := "accepted/" + p.Reason
			if cur := h.m.ents[ev.Id]; p.Reason == "rename-namespace" && cur != nil {
				class := "other"
				if op.ID < 0 && op.Create {
					class = "predefined-id-with-create-flag"
				}
				key = "namespace-renamed/" + class
			}
			h.viol(key, fmt.Sprintf("request accepted although the rules refuse it (%s): %s", p.Reason, mdkOpString(op)), map[string]any{"request": op, "answer": ev})
			h.m.apply(op, ev, h.m.ents[ev.Id] == nil)
		} else if p.WillCreate && op.Ver == h.m.maxVer+1 {
			// a create whose (otherwise ignored) version field happens to equal the version about to
			// be assigned is refused ("can't update metric … invalid version"); the statement does not
			// say what the version field of a create means: recorded, not judged
			h.r.NotJudged("create_refused_because_version_field_equals_next_version", 1)
			return
		} else {
			h.viol("refused-valid/"+got, fmt.Sprintf("request names the current version and breaks no rule, but was refused: %v", err), map[string]any{"request": op})
		}
		h.w.Case(true, "VIOL|"+abstraction)
		return
	}
	if err != nil {
		h.refused++
		if got != p.Reason {
			h.w.Count("refusal_reason_differs."+p.Reason+"->"+got, 1) // informational: the statement names no error kinds
		}
		h.w.Case(h.accepted > 0, abstraction)
		return
	}
	h.accepted++
	// accepted: version, identity and echoed fields
	cur := h.m.ents[ev.Id]
	bad := func(key, what string) {
		h.viol(key, what, map[string]any{"request": op, "answer": ev, "model_before": cur})
	}
	if ev.Version <= h.m.maxVer {
		bad("version/not-greater", fmt.Sprintf("new version %d is not greater than the largest earlier version %d", ev.Version, h.m.maxVer))
	}
	if h.m.allVers[ev.Version] {
		bad("version/reused", fmt.Sprintf("version %d was assigned before", ev.Version))
	}
	if p.WillCreate {
		if cur != nil {
			bad("create/id-reused", fmt.Sprintf("create returned id %d of an existing entity", ev.Id))
		}
		if op.ID < 0 && ev.Id != op.ID {
			bad("create/predefined-id", fmt.Sprintf("predefined id %d requested, %d assigned", op.ID, ev.Id))
		}
		if op.ID >= 0 && ev.Id <= 0 {
			bad("create/non-positive-id", fmt.Sprintf("assigned id %d", ev.Id))
		}
	} else if ev.Id != op.ID {
		bad("edit/other-id", fmt.Sprintf("edit of id %d answered with id %d", op.ID, ev.Id))
	}
	if ev.Name != op.Name || ev.Data != op.Data || ev.EventType != op.Typ || ev.Metadata != op.Meta || ev.Unused != op.Del || ev.NamespaceId != p.NsID || int64(ev.UpdateTime) != h.clk.Unix() {
		bad("answer/fields", "the answer does not echo the request (name, data, type, metadata, delete time, resolved namespace, update time)")
	}
	if cur != nil && !p.WillCreate && cur.Name != op.Name {
		h.renames++
		if cur.Typ == format.NamespaceEvent {
			class := "other"
			if op.ID < 0 && op.Create {
				class = "predefined-id-with-create-flag"
			}
			bad("namespace-renamed/"+class, fmt.Sprintf("namespace %q (id %d) renamed to %q by a request with create=%v", cur.Name, cur.ID, op.Name, op.Create))
		}
	}
	h.m.apply(op, ev, p.WillCreate)
	h.w.Case(true, abstraction)
}

// journal reads the journal in pages from `since` and compares it with the model.
func (h *c15Hist) journal(since int64, page int64) {
	ctx := context.Background()
	var got []tlmetadata.Event
	from := since
	for guard := 0; guard < 100000; guard++ {
		evs, err := h.db.JournalEvents(ctx, from, page)
		h.w.Count("journal.pages", 1)
		if err != nil {
			h.viol("journal/error", err.Error(), nil)
			return
		}
		if len(evs) == 0 {
			// progress: an empty page is the end of the journal only if nothing newer exists.  Judged
			// only when persistent: the same request repeated >= 5 times over >= 2 s keeps returning
			// nothing while the table verifiably holds a larger version.
			exists, newer := mdkNewerInTable(h.db, from)
			if !exists {
				break
			}
			var diag []string
			recovered := false
			start := time.Now()
			for try := 1; (try <= 5 || time.Since(start) < 2*time.Second) && try <= 60; try++ {
				time.Sleep(450 * time.Millisecond)
				again, err := h.db.JournalEvents(ctx, from, page)
				diag = append(diag, fmt.Sprintf("repeat %d after %d ms: %d events, err=%v; in-package journal select: %s", try, time.Since(start).Milliseconds(), len(again), err, mdkJournalProbe(h.db, from)))
				if err == nil && len(again) > 0 {
					evs, recovered = again, true
					break
				}
			}
			if !recovered {
				h.viol("journal/no-progress", fmt.Sprintf("journal page requested from version %d (limit %d) is empty, and stays empty over %d repeats, although the table holds %s: a paging reader never gets past this point", from, page, len(diag), newer), map[string]any{"since": since, "page": page, "stuck_at": from, "repeats": diag})
				h.w.Case(true, "VIOL|journal-no-progress")
				return
			}
			h.r.NotJudged("transient_empty_journal_page", 1)
			h.r.T.Logf("C15 hist history %d: transient empty journal page from version %d (limit %d), table held %s; %v", h.idx, from, page, newer, diag)
		}
		if int64(len(evs)) > page {
			h.viol("journal/page-too-long", fmt.Sprintf("page of %d events for limit %d", len(evs), page), nil)
		}
		for _, e := range evs {
			if e.Version <= from {
				h.viol("journal/order", fmt.Sprintf("journal from version %d returned version %d (not ascending)", from, e.Version), map[string]any{"since": since, "page": page})
				return
			}
			from = e.Version
			got = append(got, e)
		}
	}
	var want []*mdkEnt
	for _, e := range h.m.ents {
		if e.Ver > since {
			want = append(want, e)
		}
	}
	sort.Slice(want, func(i, j int) bool { return want[i].Ver < want[j].Ver })
	seen := map[int64]int{}
	for _, e := range got {
		seen[e.Id]++
	}
	for id, n := range seen {
		if n > 1 {
			h.viol("journal/entity-twice", fmt.Sprintf("entity %d appears %d times in the journal read from version %d", id, n, since), map[string]any{"since": since, "page": page})
		}
	}
	ok := len(got) == len(want)
	for i := 0; ok && i < len(got); i++ {
		g, w := got[i], want[i]
		if g.Id != w.ID || g.Version != w.Ver || g.Name != w.Name || g.Data != w.Data || g.EventType != w.Typ || g.Unused != w.Del || g.NamespaceId != w.NsID || g.UpdateTime != w.Upd {
			ok = false
		}
	}
	if !ok {
		gs := make([]string, len(got))
		for i, g := range got {
			gs[i] = fmt.Sprintf("id=%d v=%d %q", g.Id, g.Version, g.Name)
		}
		ws := make([]string, len(want))
		for i, w := range want {
			ws[i] = fmt.Sprintf("id=%d v=%d %q", w.ID, w.Ver, w.Name)
		}
		h.viol("journal/content", fmt.Sprintf("journal from version %d (page %d) is not 'latest version of every entity changed since, once, ascending'", since, page), map[string]any{"got": gs, "want": ws})
	}
	h.w.Case(len(want) > 1 && h.accepted > len(h.m.ents), fmt.Sprintf("journal|n%d|since0:%v|page%d|renames%v|reopen%v", min(len(want), 12), since == 0, min(page, 9), h.renames > 0, h.reopens > 0))
}

func (h *c15Hist) readBack(n int) {
	ctx := context.Background()
	ids := h.m.sortedIDs()
	for i := 0; i < n && len(ids) > 0; i++ {
		id := ids[h.rnd.IntN(len(ids))]
		hist := h.m.hist[id]
		if h.rnd.IntN(3) == 0 {
			// short history: every version of the entity, newest first, with its metadata
			resp, err := h.db.GetHistoryShort(ctx, id)
			h.w.Count("read.history_short", 1)
			bad := err != nil || len(resp.Events) != len(hist)
			for j := 0; !bad && j < len(hist); j++ {
				w := hist[len(hist)-1-j]
				if resp.Events[j].Version != w.Ver || resp.Events[j].Metadata != w.Meta {
					bad = true
				}
			}
			if bad {
				h.viol("history-short/content", fmt.Sprintf("GetHistoryShort(%d) differs from the accepted requests of that entity (err=%v)", id, err), map[string]any{"got": resp.Events, "want_versions_ascending": hist})
			}
			h.w.Case(len(hist) > 1, fmt.Sprintf("histshort|n%d", min(len(hist), 8)))
			continue
		}
		var ver int64
		var want *mdkEnt
		switch h.rnd.IntN(4) {
		case 0: // a version that belongs to another entity or to nobody
			ver = int64(h.rnd.IntN(int(h.m.maxVer) + 3))
			for j := range hist {
				if hist[j].Ver == ver {
					want = &hist[j]
				}
			}
		default:
			want = &hist[h.rnd.IntN(len(hist))]
			ver = want.Ver
		}
		ev, err := h.db.GetEntityVersioned(ctx, id, ver)
		h.w.Count("read.entity_versioned", 1)
		switch {
		case want == nil:
			if !errors.Is(err, data_model.ErrEntityNotExists) {
				h.viol("entity-versioned/phantom", fmt.Sprintf("GetEntityVersioned(%d,%d): entity never had that version, got err=%v name=%q", id, ver, err, ev.Name), nil)
			}
		case err != nil:
			h.viol("entity-versioned/missing", fmt.Sprintf("GetEntityVersioned(%d,%d): %v", id, ver, err), nil)
		case ev.Id != id || ev.Version != ver || ev.Name != want.Name || ev.Data != want.Data || ev.Metadata != want.Meta || ev.UpdateTime != want.Upd || ev.NamespaceId != want.NsID || ev.EventType != want.EvTyp:
			h.viol("entity-versioned/content", fmt.Sprintf("GetEntityVersioned(%d,%d) differs from what was accepted at that version", id, ver), map[string]any{"got": ev, "want": want})
		}
		h.w.Case(want != nil && len(hist) > 1, fmt.Sprintf("entver|hit%v|n%d|latest%v", want != nil, min(len(hist), 8), want != nil && want.Ver == hist[len(hist)-1].Ver))
	}
}

// c15BigSizes: data sizes below, just above and far above the journal page budget.
func c15BigSizes() []int {
	limit := int(metricBytesReadLimit)
	return []int{limit * 9 / 10, limit - 20 + 1, limit * 3 / 2}
}

// c15BigRequest: a valid request (create of a fresh dashboard, or an edit of an existing entity
// that keeps its name) whose JSON data has exactly the given size.
func c15BigRequest(m *mdkModel, rnd *rand.Rand, size, seq int) mdkSaveOp {
	head := fmt.Sprintf(`{"op":%d,"pad":"`, seq)
	data := head + strings.Repeat("d", size-len(head)-2) + `"}`
	op := mdkSaveOp{Class: "create-big-data", Create: true, Typ: format.DashboardEvent, Name: fmt.Sprintf("big-%d-%d", seq, size), Data: data, Meta: `{"who":"big"}`}
	if ids := m.sortedIDs(); len(ids) > 0 && rnd.IntN(3) == 0 {
		if e := m.ents[ids[rnd.IntN(len(ids))]]; e.ID > 0 {
			op = mdkSaveOp{Class: "edit-big-data", ID: e.ID, Ver: e.Ver, Typ: e.Typ, Name: e.Name, Del: e.Del, Data: data, Meta: `{"who":"big"}`}
		}
	}
	return op
}

func c15RunHistory(r *verifkit.Run, w *verifkit.Worker, idx, nOps int) {
	rnd := r.Rand(fmt.Sprintf("hist/%d", idx))
	h := &c15Hist{r: r, w: w, idx: idx, rnd: rnd, clk: &mdkClock{}, m: mdkNewModel()}
	h.clk.sec.Store(int64(1_700_000_000 + rnd.IntN(1000000)))
	h.opt = Options{MaxBudget: 100, StepSec: 3600, BudgetBonus: 10, Now: h.clk.Now}
	var cleanup func()
	h.dir, cleanup = mdkScratch(r, fmt.Sprintf("c15-%d-", idx))
	defer cleanup()
	if err := mdkCreateBinlog(h.dir, 0); err != nil {
		r.Inconclusive("cannot create binlog: " + err.Error())
		return
	}
	db, err := mdkOpen(h.dir, "db", h.opt, 0)
	if err != nil {
		r.Inconclusive("cannot open database: " + err.Error())
		return
	}
	h.db = db
	defer func() {
		if h.db != nil {
			_ = mdkClose(h.db)
		}
	}()
	g := &mdkGen{rnd: rnd, m: h.m}
	for i := 0; i < 5+rnd.IntN(5); i++ {
		g.names = append(g.names, fmt.Sprintf("n%d", i))
	}
	// rarely (it is expensive): entities whose JSON data is around and above the journal's page
	// budget (metricBytesReadLimit; every entry is charged len(data)+20 bytes)
	bigAt := map[int]int{}
	if idx%20 == 7 {
		for _, size := range c15BigSizes() {
			bigAt[2+rnd.IntN(nOps-2)] = size
		}
		w.Count("histories_with_page_budget_sized_entities", 1)
	}
	for op := 0; op < nOps; op++ {
		h.clk.Add(int64(rnd.IntN(3)) * int64(rnd.IntN(500)))
		req := g.next(h.clk.Unix(), true)
		if size, ok := bigAt[op]; ok {
			req = c15BigRequest(h.m, rnd, size, op)
			w.Count("request.page_budget_sized_data", 1)
		}
		h.save(req)
		if _, ok := bigAt[op]; ok {
			h.journal(0, int64(1+rnd.IntN(4)))
			h.journal(int64(rnd.IntN(int(h.m.maxVer)+1)), 1000)
		}
		switch k := rnd.IntN(40); {
		case k == 0:
			since := int64(0)
			if rnd.IntN(2) == 0 {
				since = int64(rnd.IntN(int(h.m.maxVer) + 2))
			}
			h.journal(since, int64(1+rnd.IntN(8)))
		case k < 4:
			h.readBack(2)
		case k == 4:
			if err := mdkClose(h.db); err != nil {
				h.viol("reopen/close-error", err.Error(), nil)
				h.db = nil
				return
			}
			if h.db, err = mdkOpen(h.dir, "db", h.opt, 0); err != nil {
				h.viol("reopen/open-error", err.Error(), nil)
				h.db = nil
				return
			}
			h.reopens++
			h.log = append(h.log, "reopen")
			w.Count("reopen", 1)
		}
	}
	if idx == 0 {
		r.Assume("journal mode observed on disk in history 0: " + mdkJournalMode(h.dir, "db"))
	}
	h.journal(0, 1000)
	h.journal(0, int64(1+rnd.IntN(5)))
	h.journal(int64(rnd.IntN(int(h.m.maxVer)+2)), int64(1+rnd.IntN(5)))
	h.readBack(6)
	// name uniqueness as a state invariant of the model built from accepted requests
	byName := map[string]int64{}
	for _, id := range h.m.sortedIDs() {
		e := h.m.ents[id]
		k := fmt.Sprintf("%d/%d/%s", e.Typ, e.NsID, e.Name)
		if o, dup := byName[k]; dup {
			h.viol("names/duplicate", fmt.Sprintf("entities %d and %d share type %s, namespace %d and name %q", o, id, mdkTypName(e.Typ), e.NsID, e.Name), nil)
		}
		byName[k] = id
		if (e.Typ == format.MetricEvent || e.Typ == format.MetricsGroupEvent) && e.NsID != 0 {
			if ns := h.m.ents[e.NsID]; ns == nil || ns.Typ != format.NamespaceEvent {
				h.viol("namespace/dangling", fmt.Sprintf("entity %d %q references namespace id %d which is not a namespace", id, e.Name, e.NsID), nil)
			}
		}
	}
	if r.WantSample() {
		l := h.log
		if len(l) > 20 {
			l = l[:20]
		}
		r.Sample(map[string]any{"history": idx, "accepted": h.accepted, "refused": h.refused, "first_requests": l})
	}
}

func TestVerifC15Hist(t *testing.T) {
	r := verifkit.Start(t, "C15", "hist")
	defer r.Finish()
	mdkAssumeSQLite(r)
	r.Assume("an empty journal page while the table holds a larger version is judged only when persistent (the same request repeated >= 5 times over >= 2 s of real time stays empty); one that recovers is counted NotJudged (transient_empty_journal_page) and logged with diagnostics")
	r.SetRule("sequential histories of create / edit / rename / delete / undelete requests for metrics, groups, dashboards, namespaces, prom-configs and predefined (negative-id) entities over a pool of 5–9 colliding names, namespace prefixes (existing / unknown), stale / future / foreign versions, unknown ids, hostile names, and in 1 of 20 histories three entities whose JSON data is 0.9×, 1.0×+1 byte and 1.5× the journal page budget; journal pages from random versions, GetEntityVersioned, GetHistoryShort, reopen. One case = one judged answer or read-back. Non-trivial = answer of a request (accepted, or refused after at least one accepted request) / journal with ≥2 entries after at least one edit / history with ≥2 versions; distinct = (request class, type, predicted outcome+reason, observed class) resp. shape of the read-back.")
	nHist := r.N(200, 2000)
	nOps := r.N(60, 150)
	workers := r.N(8, 16)
	r.Parallel(workers, "hist", func(w *verifkit.Worker) {
		for i := w.Index; i < nHist; i += workers {
			c15RunHistory(r, w, i, nOps)
			w.Count("histories", 1)
		}
	})
	r.SetCounter("goroutines_at_end", int64(runtime.NumGoroutine()))
}

// ---------------------------------------------------------------------------------------
// concurrent unit

type c15ConcOp struct {
	Kind   string // "edit" | "create" | "journal"
	Part   string // partition: "ent:<id>" or "name:<typ>:<name>"
	ID     int64
	From   int64
	Name   string
	Typ    int32
	Data   string
	Call   int64
	Return int64
	OK     bool
	Ver    int64
	Err    string
	Seen   map[int64]int64 // journal: id -> version
	Order  bool            // journal: ascending and unique
}

type c15PIn struct {
	Kind string
	From int64
}
type c15POut struct {
	OK  bool
	Ver int64
}

// c15Model: per partition the state is the current version (0 = does not exist).
var c15Model = porcupine.Model{
	Partition: nil, // partitions are built by the caller
	Init:      func() interface{} { return int64(-1) },
	Step: func(state, input, output interface{}) (bool, interface{}) {
		st, in, out := state.(int64), input.(c15PIn), output.(c15POut)
		switch in.Kind {
		case "init":
			return st == -1, in.From
		case "edit":
			if out.OK {
				return st == in.From && out.Ver > st, out.Ver
			}
			return st != in.From, st
		case "create":
			if out.OK {
				return st == 0 && out.Ver > 0, out.Ver
			}
			return st != 0, st
		case "read":
			return out.Ver == st, st
		}
		return false, st
	},
	Equal: func(a, b interface{}) bool { return a.(int64) == b.(int64) },
	DescribeOperation: func(input, output interface{}) string {
		in, out := input.(c15PIn), output.(c15POut)
		return fmt.Sprintf("%s(from %d) -> ok=%v ver=%d", in.Kind, in.From, out.OK, out.Ver)
	},
}

func c15ConcRound(r *verifkit.Run, round, racers int) {
	rnd := r.Rand(fmt.Sprintf("conc/%d", round))
	clk := &mdkClock{}
	clk.sec.Store(1_700_000_000)
	opt := Options{MaxBudget: 100, StepSec: 3600, BudgetBonus: 10, Now: clk.Now}
	dir, cleanup := mdkScratch(r, fmt.Sprintf("c15c-%d-", round))
	defer cleanup()
	if err := mdkCreateBinlog(dir, 0); err != nil {
		r.Inconclusive("cannot create binlog: " + err.Error())
		return
	}
	db, err := mdkOpen(dir, "db", opt, 0)
	if err != nil {
		r.Inconclusive("cannot open database: " + err.Error())
		return
	}
	defer mdkClose(db)
	ctx := context.Background()

	// sequential prefix: a few entities with some history
	type seedEnt struct {
		id, ver int64
		name    string
		typ     int32
	}
	var ents []seedEnt
	nEnts := 2 + rnd.IntN(3)
	if racers > 16 {
		nEnts = 4 + rnd.IntN(3) // spread a wide race over more partitions (keeps the linearizability search tractable)
	}
	for i := 0; i < nEnts; i++ {
		typ := []int32{format.MetricEvent, format.DashboardEvent, format.MetricsGroupEvent, format.NamespaceEvent}[rnd.IntN(4)]
		name := fmt.Sprintf("e%d", i)
		ev, err := db.SaveEntity(ctx, name, 0, 0, "{}", true, 0, typ, "seed")
		if err != nil {
			r.Inconclusive("seeding failed: " + err.Error())
			return
		}
		for k := rnd.IntN(3); k > 0; k-- {
			if ev, err = db.SaveEntity(ctx, name, ev.Id, ev.Version, `{"k":1}`, false, 0, typ, "seed"); err != nil {
				r.Inconclusive("seeding failed: " + err.Error())
				return
			}
		}
		ents = append(ents, seedEnt{ev.Id, ev.Version, name, typ})
	}
	createNames := []string{"newA", "newB"}

	var clock atomic.Int64
	clock.Store(10)
	hist := make([][]c15ConcOp, racers)
	plans := make([][]int, racers) // pre-drawn choices: the case list is a function of the seed
	for g := range plans {
		n := 2 + rnd.IntN(3)
		for j := 0; j < n; j++ {
			c := rnd.IntN(1000)
			if g >= 6 && c%10 >= 8 {
				c -= c % 10 // at most six clients read the journal: many concurrent reads of one value blow up the linearizability search
			}
			plans[g] = append(plans[g], c)
		}
	}
	start := make(chan struct{})
	var wg sync.WaitGroup
	for g := 0; g < racers; g++ {
		wg.Add(1)
		go func(g int) {
			defer wg.Done()
			known := map[int64]int64{} // the versions this racer believes current
			for _, e := range ents {
				known[e.id] = e.ver
			}
			<-start
			for step, choice := range plans[g] {
				var op c15ConcOp
				switch {
				case choice%10 < 6: // edit from the version this racer knows (first step: the common version)
					e := ents[(choice/10)%len(ents)]
					op = c15ConcOp{Kind: "edit", Part: fmt.Sprintf("ent:%d", e.id), ID: e.id, From: known[e.id], Name: e.name, Typ: e.typ, Data: fmt.Sprintf(`{"g":%d,"s":%d}`, g, step)}
					op.Call = clock.Add(1)
					ev, err := db.SaveEntity(ctx, op.Name, op.ID, op.From, op.Data, false, 0, op.Typ, fmt.Sprintf("g%d", g))
					op.Return = clock.Add(1)
					if err == nil {
						op.OK, op.Ver = true, ev.Version
						known[e.id] = ev.Version
					} else {
						op.Err = mdkErrClass(err)
					}
				case choice%10 < 8: // several racers create the same name
					name := createNames[(choice/10)%len(createNames)]
					op = c15ConcOp{Kind: "create", Part: "name:dashboard:" + name, Name: name, Typ: format.DashboardEvent, Data: fmt.Sprintf(`{"g":%d}`, g)}
					op.Call = clock.Add(1)
					ev, err := db.SaveEntity(ctx, name, 0, 0, op.Data, true, 0, format.DashboardEvent, fmt.Sprintf("g%d", g))
					op.Return = clock.Add(1)
					if err == nil {
						op.OK, op.Ver, op.ID = true, ev.Version, ev.Id
					} else {
						op.Err = mdkErrClass(err)
					}
				default: // journal read: learn the current versions
					op = c15ConcOp{Kind: "journal", Seen: map[int64]int64{}, Order: true}
					op.Call = clock.Add(1)
					evs, err := db.JournalEvents(ctx, 0, 1000)
					op.Return = clock.Add(1)
					if err != nil {
						op.Err = err.Error()
					} else {
						op.OK = true
						last := int64(0)
						for _, e := range evs {
							if e.Version <= last {
								op.Order = false
							}
							if _, dup := op.Seen[e.Id]; dup {
								op.Order = false
							}
							last = e.Version
							op.Seen[e.Id] = e.Version
							known[e.Id] = e.Version
						}
					}
				}
				hist[g] = append(hist[g], op)
			}
		}(g)
	}
	close(start)
	wg.Wait()

	// ---- direct checks on the recorded history
	var all []c15ConcOp
	for _, l := range hist {
		all = append(all, l...)
	}
	sort.Slice(all, func(i, j int) bool { return all[i].Call < all[j].Call })
	witness := func() any {
		out := make([]string, 0, len(all))
		for _, o := range all {
			out = append(out, fmt.Sprintf("[%d,%d] %s %s from=%d -> ok=%v ver=%d %s", o.Call, o.Return, o.Kind, o.Part, o.From, o.OK, o.Ver, o.Err))
		}
		return map[string]any{"round": round, "racers": racers, "seed_entities": fmt.Sprint(ents), "history": out}
	}
	shape := make([]string, 0, 2*len(all))
	type evt struct {
		t int64
		s string
	}
	var evts []evt
	for _, o := range all {
		evts = append(evts, evt{o.Call, "c:" + o.Kind}, evt{o.Return, fmt.Sprintf("r:%s:%v", o.Kind, o.OK)})
	}
	sort.Slice(evts, func(i, j int) bool { return evts[i].t < evts[j].t })
	overlaps := 0
	open := 0
	for _, e := range evts {
		shape = append(shape, e.s)
		if e.s[0] == 'c' {
			if open > 0 {
				overlaps++
			}
			open++
		} else {
			open--
		}
	}
	r.Shape(strings.Join(shape, ","))
	r.Count("conc.calls_overlapping_another", int64(overlaps))

	winners := map[string][]c15ConcOp{} // (entity, from) -> successful edits
	attempts := map[string]int{}
	vers := map[int64]int{}
	creates := map[string]int{}
	for _, o := range all {
		switch o.Kind {
		case "edit":
			k := fmt.Sprintf("%d@%d", o.ID, o.From)
			attempts[k]++
			r.Count("conc.edit", 1)
			if o.OK {
				winners[k] = append(winners[k], o)
				vers[o.Ver]++
				r.Count("conc.edit_won", 1)
			} else if o.Err != "version" && o.Err != "unknown-namespace" {
				r.Violation("C15/conc/edit-refused-for-other-reason", "a plain edit (same name) was refused for a reason other than its version: "+o.Err, witness())
			}
		case "create":
			r.Count("conc.create", 1)
			if o.OK {
				creates[o.Part]++
				vers[o.Ver]++
			} else if o.Err != "exists" && o.Err != "name-taken" {
				r.Violation("C15/conc/create-refused-for-other-reason", "a create was refused for a reason other than the name being taken: "+o.Err, witness())
			}
		case "journal":
			r.Count("conc.journal", 1)
			if !o.OK {
				r.Violation("C15/conc/journal-error", o.Err, witness())
			} else if !o.Order {
				r.Violation("C15/conc/journal-order", "a journal page read during the race is not ascending or lists an entity twice", witness())
			}
			r.Case(len(o.Seen) > 0, fmt.Sprintf("conc-journal|n%d", len(o.Seen)))
		}
	}
	for k, ws := range winners {
		if len(ws) > 1 {
			r.Violation("C15/conc/two-winners", fmt.Sprintf("%d edits of entity@version %s succeeded", len(ws), k), witness())
		}
	}
	for k, n := range attempts {
		r.MaxCounter("conc.max_racers_from_one_version", int64(n))
		r.Case(n > 1, fmt.Sprintf("race|attempts%d|winners%d", min(n, 16), len(winners[k])))
	}
	// the versions every racer starts from are current: exactly one edit from each raced start version wins
	for _, e := range ents {
		k := fmt.Sprintf("%d@%d", e.id, e.ver)
		if attempts[k] > 0 && len(winners[k]) != 1 {
			r.Violation("C15/conc/no-winner", fmt.Sprintf("%d edits raced from the current version %s, %d succeeded", attempts[k], k, len(winners[k])), witness())
		}
	}
	for part, n := range creates {
		if n > 1 {
			r.Violation("C15/conc/two-creators", fmt.Sprintf("%d creates of %s succeeded", n, part), witness())
		}
	}
	for v, n := range vers {
		if n > 1 {
			r.Violation("C15/conc/version-reused", fmt.Sprintf("version %d assigned %d times", v, n), witness())
		}
	}
	// real-time order: an accepted request that returned before another one was called has the smaller version
	var succ []c15ConcOp
	for _, o := range all {
		if o.OK && o.Kind != "journal" {
			succ = append(succ, o)
		}
	}
	for i := range succ {
		for j := range succ {
			if succ[i].Return < succ[j].Call && succ[i].Ver >= succ[j].Ver {
				r.Violation("C15/conc/version-order", fmt.Sprintf("request returning at %d got version %d, a request called later (%d) got version %d", succ[i].Return, succ[i].Ver, succ[j].Call, succ[j].Ver), witness())
			}
		}
	}
	r.Count("conc.accepted", int64(len(succ)))

	// ---- final state (sequential read) must be the winners' state
	final, err := db.JournalEvents(ctx, 0, 1000)
	if err != nil {
		r.Violation("C15/conc/journal-error", err.Error(), witness())
		return
	}
	latest := map[int64]c15ConcOp{}
	for _, o := range succ {
		if l, ok := latest[o.ID]; !ok || o.Ver > l.Ver {
			latest[o.ID] = o
		}
	}
	finalVer := map[int64]int64{}
	for _, e := range final {
		finalVer[e.Id] = e.Version
		if l, ok := latest[e.Id]; ok && (l.Ver != e.Version || l.Data != e.Data) {
			r.Violation("C15/conc/final-state", fmt.Sprintf("entity %d ends at version %d data %s, the last accepted request produced version %d data %s", e.Id, e.Version, e.Data, l.Ver, l.Data), witness())
		}
	}
	for id, l := range latest {
		if _, ok := finalVer[id]; !ok {
			r.Violation("C15/conc/final-state", fmt.Sprintf("entity %d (accepted version %d) is missing from the journal", id, l.Ver), witness())
		}
	}

	// ---- refused requests: a refusal is unexplained when the whole call lies inside the interval in
	// which the version it named was certainly current (resp. the name certainly free).  Refusals
	// commute with each other, so feeding dozens of them to the linearizability search makes it
	// exponential; this rule is the exact per-request condition and costs nothing.
	produced := map[string]c15ConcOp{} // "<part>@<version>" -> accepted request that produced the version
	consumed := map[string]c15ConcOp{} // "<part>@<version>" -> accepted edit from that version
	for _, o := range succ {
		produced[fmt.Sprintf("%s@%d", o.Part, o.Ver)] = o
		if o.Kind == "edit" {
			consumed[fmt.Sprintf("%s@%d", o.Part, o.From)] = o
		}
	}
	initVer := map[string]int64{}
	for _, e := range ents {
		initVer[fmt.Sprintf("ent:%d", e.id)] = e.ver
	}
	for _, o := range all {
		if o.OK || o.Kind == "journal" {
			continue
		}
		certainFrom, certainTo := int64(-1), int64(1)<<62 // the named version is certainly current in [certainFrom, certainTo]
		switch o.Kind {
		case "edit":
			if p, ok := produced[fmt.Sprintf("%s@%d", o.Part, o.From)]; ok {
				certainFrom = p.Return
			} else if initVer[o.Part] == o.From {
				certainFrom = 0
			} else {
				continue // a version the entity never had: refusing is right
			}
			if c, ok := consumed[fmt.Sprintf("%s@%d", o.Part, o.From)]; ok {
				certainTo = c.Call
			}
		case "create":
			certainFrom = 0 // the name is certainly free until the accepted create is called
			found := false
			for _, w := range succ {
				if w.Kind == "create" && w.Part == o.Part {
					certainTo, found = w.Call, true
				}
			}
			if !found {
				certainTo = int64(1) << 62
			}
		}
		r.Count("conc.refusals_judged_by_interval_rule", 1)
		if o.Call >= certainFrom && o.Return <= certainTo {
			r.Violation("C15/conc/refused-while-current", fmt.Sprintf("%s on %s from version %d was refused (%s) although that version was current (name free) during the whole call [%d,%d]", o.Kind, o.Part, o.From, o.Err, o.Call, o.Return), witness())
		}
	}

	// ---- linearizability (porcupine), one partition per entity / created name: accepted requests and reads
	parts := map[string][]porcupine.Operation{}
	for _, e := range ents {
		p := fmt.Sprintf("ent:%d", e.id)
		parts[p] = append(parts[p], porcupine.Operation{ClientId: 0, Input: c15PIn{"init", e.ver}, Call: 0, Output: c15POut{true, e.ver}, Return: 1})
	}
	for _, n := range createNames {
		p := "name:dashboard:" + n
		parts[p] = append(parts[p], porcupine.Operation{ClientId: 0, Input: c15PIn{"init", 0}, Call: 0, Output: c15POut{true, 0}, Return: 1})
	}
	createdID := map[int64]string{}
	for _, o := range all {
		if o.Kind == "create" && o.OK {
			createdID[o.ID] = o.Part
		}
	}
	for g, l := range hist {
		for _, o := range l {
			switch o.Kind {
			case "edit", "create":
				if !o.OK {
					continue // refused requests are judged by the interval rule above (see c15RefusedExplained)
				}
				parts[o.Part] = append(parts[o.Part], porcupine.Operation{ClientId: g + 1, Input: c15PIn{o.Kind, o.From}, Call: o.Call, Output: c15POut{o.OK, o.Ver}, Return: o.Return})
			case "journal":
				if !o.OK {
					continue
				}
				for _, e := range ents {
					p := fmt.Sprintf("ent:%d", e.id)
					parts[p] = append(parts[p], porcupine.Operation{ClientId: g + 1, Input: c15PIn{"read", 0}, Call: o.Call, Output: c15POut{true, o.Seen[e.id]}, Return: o.Return})
				}
				for _, n := range createNames {
					p := "name:dashboard:" + n
					v := int64(0)
					for id, ver := range o.Seen {
						if createdID[id] == p {
							v = ver
						}
					}
					parts[p] = append(parts[p], porcupine.Operation{ClientId: g + 1, Input: c15PIn{"read", 0}, Call: o.Call, Output: c15POut{true, v}, Return: o.Return})
				}
			}
		}
	}
	names := make([]string, 0, len(parts))
	for p := range parts {
		names = append(names, p)
	}
	sort.Strings(names)
	for _, p := range names {
		ops := parts[p]
		t0 := time.Now()
		res := porcupine.CheckOperationsTimeout(c15Model, ops, 60*time.Second)
		r.MaxCounter("conc.porcupine_slowest_partition_ms", time.Since(t0).Milliseconds()) // cost figure only, never judged
		r.Count("conc.porcupine_partitions", 1)
		r.Count("conc.porcupine_operations", int64(len(ops)))
		switch res {
		case porcupine.Illegal:
			r.Violation("C15/conc/not-linearizable", fmt.Sprintf("the history of partition %s has no linearization under the versioned-entity model", p), witness())
		case porcupine.Unknown:
			r.Inconclusive(fmt.Sprintf("porcupine timed out on round %d partition %s (%d operations)", round, p, len(ops)))
		}
		r.Case(len(ops) > 3, fmt.Sprintf("lin|ops%d|%v", min(len(ops), 40), res))
	}
	if r.WantSample() {
		w := witness().(map[string]any)
		if l := w["history"].([]string); len(l) > 16 {
			w["history"] = l[:16]
		}
		r.Sample(w)
	}
}

func TestVerifC15Conc(t *testing.T) {
	r := verifkit.Start(t, "C15", "conc")
	defer r.Finish()
	mdkAssumeSQLite(r)
	r.SetRule("rounds on a fresh database: 2–4 seeded entities, then 8 (quick) / 64 (thorough) goroutines each issue 2–4 requests — plain edits from the version they believe current (first the common seeded version, later what they learned), creates of two shared names, journal reads. One case = one raced (entity, version) group, one journal page, or one porcupine partition. Non-trivial = ≥2 edits from one version / non-empty page / partition with >3 operations; distinct = (attempts, winners) resp. partition size and verdict; history_shapes = distinct call/return interleavings.")
	rounds := r.N(40, 150)
	racers := r.N(8, 64)
	for i := 0; i < rounds; i++ {
		c15ConcRound(r, i, racers)
		r.Count("conc.rounds", 1)
	}
}
