//go:build verif

// C19, unit "rpc" (-race): the mapping requests through the real RPC surface
// (Handler.RawGetMappingByValue / RawGetMappingByID / RawPutMapping / RawGetNewMappings
// behind a tl rpc.Server).  More than 500 mappings are created per round so that the
// handler's ring cache of the newest 500 mappings is switched on and the feed is served
// from it; subscribers follow the feed with long polls from different start ids.
// Checked: get-or-create answers against the reference bijection; every feed answer is
// ascending and above the requested id; after catching up each subscriber holds every
// mapping above its start id exactly once with the right string.
package metadata

import (
	"context"
	"fmt"
	"sync"
	"testing"

	"github.com/VKCOM/statshouse/internal/data_model/gen2/tlmetadata"
	"github.com/VKCOM/statshouse/internal/data_model/gen2/tlstatshouse"
	"github.com/VKCOM/statshouse/internal/zzverif/verifkit"
)

type c19RPCAnswer struct {
	From    int32
	Current int32
	Last    int32
	Pairs   []tlstatshouse.Mapping
	Err     string
}

func c19RPCRound(r *verifkit.Run, round, nCreate int) {
	rnd := r.Rand(fmt.Sprintf("rpc/%d", round))
	clk := &mdkClock{}
	clk.sec.Store(1_700_000_000)
	opt := Options{MaxBudget: 1_000_000, StepSec: 3600, BudgetBonus: 10, GlobalBudget: int64(rnd.IntN(2)) * 1_000_000, Now: clk.Now}
	dir, cleanup := mdkScratch(r, fmt.Sprintf("c19r-%d-", round))
	defer cleanup()
	if err := mdkCreateBinlog(dir, 0); err != nil {
		r.Inconclusive("cannot create binlog: " + err.Error())
		return
	}
	db, err := mdkOpen(dir, "db", opt, 0)
	if err != nil {
		r.Inconclusive("cannot open database: " + err.Error())
		return
	}
	defer mdkClose(db)
	srv, err := mdkServe(db)
	if err != nil {
		r.Inconclusive("cannot start rpc server: " + err.Error())
		return
	}
	defer srv.Close()
	cl := srv.Client
	ctx := context.Background()

	s2i := map[string]int32{}
	i2s := map[int32]string{}
	var maxID int32
	var log []string
	viol := func(key, what string, extra map[string]any) {
		w := map[string]any{"round": round, "mappings_in_model": len(i2s), "last_requests": append([]string(nil), log[max(0, len(log)-30):]...)}
		for k, v := range extra {
			w[k] = v
		}
		r.Violation("C19/rpc/"+key, what, w)
	}

	type sub struct {
		start int32
		limit int32
		at    int // started after this many creations
	}
	// the later subscribers are aimed at the ring cache of the newest 500 mappings: just under the
	// newest id, at the cache's lower edge, and 1 / 2 / 9 / 16 / 40 ids below the edge
	subs := []sub{{0, 1000, 0}, {0, 7, 0}, {0, 100, 505}, {0, 1000, 530}, {0, 1000, 530}, {0, 3, 530}, {0, 1000, 545}, {0, 50, 545}, {0, 1000, 560}}
	cacheEdge := func() (minID int32, enabled bool) {
		h := srv.Handler
		h.mappingCacheMx.RLock()
		defer h.mappingCacheMx.RUnlock()
		return h.mappingCache[h.mappingHead].Value, h.mappingHead != h.mappingTail
	}
	answers := make([][]c19RPCAnswer, len(subs))
	started := make([]bool, len(subs)) // owned by the requesting goroutine
	pollCtx, stopPolling := context.WithCancel(context.Background())
	var wg sync.WaitGroup
	startSub := func(s int) {
		wg.Add(1)
		from, limit := subs[s].start, subs[s].limit
		go func() {
			defer wg.Done()
			poll := func(ctx context.Context, long bool) (int, bool) {
				args := tlmetadata.GetNewMappings{From: from, Limit: limit}
				if !long {
					args.SetReturnIfEmpty(true)
				}
				var resp tlmetadata.GetNewMappingsResponse
				err := cl.GetNewMappings(ctx, args, nil, &resp)
				a := c19RPCAnswer{From: from}
				if err != nil {
					if ctx.Err() != nil {
						return 0, true
					}
					a.Err = err.Error()
					answers[s] = append(answers[s], a)
					return 0, true
				}
				a.Current, a.Last, a.Pairs = resp.CurrentVersion, resp.LastVersion, resp.Pairs
				answers[s] = append(answers[s], a)
				if len(resp.Pairs) > 0 {
					if resp.Pairs[len(resp.Pairs)-1].Value <= from {
						return 0, true // no progress (judged later as an order violation): do not spin
					}
					from = resp.Pairs[len(resp.Pairs)-1].Value
				}
				return len(resp.Pairs), false
			}
			for pollCtx.Err() == nil {
				if _, failed := poll(pollCtx, true); failed {
					break
				}
			}
			for i := 0; i < 100000; i++ {
				n, failed := poll(context.Background(), false)
				if failed || n == 0 {
					break
				}
			}
		}()
	}

	created := 0
	for created < nCreate {
		for s := range subs {
			if subs[s].at == created && !started[s] {
				// start below, at, or just under the newest id: the ring cache holds the newest 500
				if s >= 2 {
					edge, enabled := cacheEdge()
					if enabled {
						r.Count("rpc.subscribers_aimed_at_enabled_cache", 1)
					}
					switch s {
					case 2:
						subs[s].start = maxID - 3
					case 3:
						subs[s].start = edge
					default:
						subs[s].start = max(0, edge-[]int32{1, 2, 9, 16, 40}[s-4])
					}
				}
				started[s] = true
				startSub(s)
			}
		}
		switch k := rnd.IntN(100); {
		case k < 80 || len(s2i) == 0:
			key := fmt.Sprintf("r%d-key-%d", round, created)
			if rnd.IntN(6) == 0 && len(s2i) > 0 {
				key = i2s[1+int32(rnd.IntN(int(maxID)))] // may be "" for a gap id: then it is a fresh empty key
			}
			args := tlmetadata.GetMapping{Metric: fmt.Sprintf("m%d", rnd.IntN(3)), Key: key}
			args.SetCreateIfAbsent(true)
			var resp tlmetadata.GetMappingResponse
			err := cl.GetMapping(ctx, args, nil, &resp)
			r.Count("rpc.get_or_create", 1)
			want, known := s2i[key]
			switch {
			case err != nil:
				log = append(log, fmt.Sprintf("getMapping(create,%q) -> error %v", key, err))
				viol("get-or-create/error", err.Error(), nil)
			case known:
				g, ok := resp.AsGetMappingResponse()
				if !ok || g.Id != want {
					viol("stable/existing-key", fmt.Sprintf("existing key %q (id %d) answered with %s", key, want, resp.TLName()), nil)
				}
				r.Case(true, "rpc-existing")
			default:
				c, ok := resp.AsCreated()
				if !ok {
					log = append(log, fmt.Sprintf("getMapping(create,%q) -> %s", key, resp.TLName()))
					viol("get-or-create/not-created", "a new key was not created although the budget is far from exhausted: "+resp.TLName(), nil)
					break
				}
				log = append(log, fmt.Sprintf("getMapping(create,%q) -> created %d", key, c.Id))
				if _, dup := i2s[c.Id]; dup || c.Id <= maxID || c.Id <= 0 {
					viol("bijection/id-not-fresh", fmt.Sprintf("created id %d, largest id so far %d", c.Id, maxID), nil)
				}
				s2i[key], i2s[c.Id] = c.Id, key
				maxID = max(maxID, c.Id)
				created++
				r.Case(true, fmt.Sprintf("rpc-created|cache%v", created > 500))
			}
		case k < 88:
			// lookups through the RPC surface
			id := 1 + int32(rnd.IntN(int(maxID)+3))
			var inv tlmetadata.GetInvertMappingResponse
			err := cl.GetInvertMapping(ctx, tlmetadata.GetInvertMapping{Id: id}, nil, &inv)
			want, known := i2s[id]
			g, isGet := inv.AsGetInvertMappingResponse()
			if err != nil || isGet != known || (known && g.Key != want) {
				viol("bijection/invert-lookup", fmt.Sprintf("GetInvertMapping(%d): got %s err=%v, model has %q/%v", id, inv.TLName(), err, want, known), nil)
			}
			var resp tlmetadata.GetMappingResponse
			key := fmt.Sprintf("r%d-key-%d", round, rnd.IntN(created+5))
			err = cl.GetMapping(ctx, tlmetadata.GetMapping{Metric: "m0", Key: key}, nil, &resp)
			wantID, known := s2i[key]
			gm, isGet2 := resp.AsGetMappingResponse()
			if err != nil || (known && (!isGet2 || gm.Id != wantID)) || (!known && !resp.IsKeyNotExists()) {
				viol("bijection/value-lookup", fmt.Sprintf("GetMapping(%q) without create: got %s err=%v, model has %d/%v", key, resp.TLName(), err, wantID, known), nil)
			}
			r.Count("rpc.lookup", 2)
			r.Case(true, fmt.Sprintf("rpc-lookup|%v|%v", known, isGet))
		default:
			// administrative put of fresh pairs above the newest id: leaves an id gap, forces the cache to reload
			if created < 20 {
				continue
			}
			id := maxID + 1 + int32(rnd.IntN(3))
			key := fmt.Sprintf("r%d-put-%d", round, id)
			var pr tlmetadata.PutMappingResponse
			err := cl.PutMapping(ctx, tlmetadata.PutMapping{Keys: []string{key}, Value: []int32{id}}, nil, &pr)
			log = append(log, fmt.Sprintf("putMapping(%q,%d) -> %v", key, id, err))
			if err != nil {
				viol("put/error", err.Error(), nil)
				continue
			}
			s2i[key], i2s[id] = id, key
			maxID = id
			r.Count("rpc.put", 1)
		}
	}
	stopPolling()
	wg.Wait()

	for s := range subs {
		if !started[s] {
			continue
		}
		got := map[int32]string{}
		last := subs[s].start
		pairs := 0
		for _, a := range answers[s] {
			if a.Err != "" {
				viol("feed/error", a.Err, map[string]any{"subscriber": s})
				continue
			}
			for _, p := range a.Pairs {
				pairs++
				if p.Value <= a.From || p.Value <= last {
					viol("feed/order", fmt.Sprintf("subscriber %d asked from id %d (held %d) and was sent id %d", s, a.From, last, p.Value), map[string]any{"answer_from": a.From})
				}
				last = max(last, p.Value)
				if _, dup := got[p.Value]; dup {
					viol("feed/pair-twice", fmt.Sprintf("subscriber %d was sent id %d twice", s, p.Value), nil)
				}
				got[p.Value] = p.Str
				if want, ok := i2s[p.Value]; !ok || want != p.Str {
					viol("feed/content", fmt.Sprintf("feed pair %d=%q, the mapping created is %q (exists=%v)", p.Value, p.Str, want, ok), nil)
				}
			}
			if len(a.Pairs) > 0 && a.Current != a.Pairs[len(a.Pairs)-1].Value {
				viol("feed/current-version", fmt.Sprintf("answer ends at id %d but reports current version %d", a.Pairs[len(a.Pairs)-1].Value, a.Current), nil)
			}
		}
		missing := []int32{}
		for id := range i2s {
			if _, ok := got[id]; id > subs[s].start && !ok {
				missing = append(missing, id)
			}
		}
		if len(missing) > 0 {
			if len(missing) > 20 {
				missing = missing[:20]
			}
			viol("feed/gap", fmt.Sprintf("after catching up, subscriber %d (start id %d, limit %d) never received %d mapping ids above its start", s, subs[s].start, subs[s].limit, len(missing)), map[string]any{"missing_ids_sample": missing, "answers": len(answers[s])})
		}
		r.Count("rpc.feed_answers", int64(len(answers[s])))
		r.Count("rpc.feed_pairs", int64(pairs))
		r.Case(pairs > 1, fmt.Sprintf("rpc-feed|sub%d|answers%d", s, min(len(answers[s]), 50)))
	}
	r.Count("rpc.mappings_created", int64(created))
	if r.WantSample() {
		r.Sample(map[string]any{"round": round, "created": created, "largest_id": maxID, "subscribers": subs, "last_requests": log[max(0, len(log)-8):]})
	}
}

func TestVerifC19RPC(t *testing.T) {
	r := verifkit.Start(t, "C19", "rpc")
	defer r.Finish()
	mdkAssumeSQLite(r)
	r.Assume("rpc unit: budgets are far from exhausted (MaxBudget 10^6), no deletion-candidate file, PutMapping only adds fresh pairs above the newest id")
	r.SetRule("rounds over a fresh database behind the real rpc.Server: 620 creations through GetMapping(create) mixed with repeated keys, lookups from both sides and administrative puts that leave id gaps; five GetNewMappings subscribers (limits 3…1000) start at id 0, and — once more than 500 mappings exist and the handler serves the feed from its ring cache — just below the newest id, at the cache's lower edge and below it. One case = one judged RPC answer or one subscriber stream; non-trivial = creation / lookup / stream with ≥2 pairs.")
	rounds := r.N(3, 20)
	for i := 0; i < rounds; i++ {
		c19RPCRound(r, i, 620)
		r.Count("rpc.rounds", 1)
	}
}
