//go:build verif

// C15, unit "rpc" (-race): the same request histories, but through the real RPC surface
// (Handler.RawEditEntity / RawGetJournal / RawGetEntity / RawGetHistory behind a tl
// rpc.Server on a loopback port, real tlmetadata.Client).  While the requests are issued,
// subscriber goroutines follow the journal with long polls; everything they were sent is
// checked afterwards: ascending versions, no entity twice in one answer, every event is a
// version that was really accepted with exactly those fields, and after catching up each
// subscriber holds every entity's latest version.
package metadata

import (
	"context"
	"fmt"
	"sync"
	"testing"
	"time"

	"github.com/VKCOM/statshouse/internal/data_model/gen2/tlmetadata"
	"github.com/VKCOM/statshouse/internal/format"
	"github.com/VKCOM/statshouse/internal/zzverif/verifkit"
)

type c15RPCAnswer struct {
	From    int64
	Limit   int64
	Current int64
	Events  []tlmetadata.Event
	Long    bool // long poll (no ReturnIfEmpty)
	Err     string
	Direct  string // diagnostic for an empty non-waiting answer: what DBV2.JournalEvents returns for the same arguments at that moment
}

func c15RPCRound(r *verifkit.Run, round, nOps, nSubs int) {
	rnd := r.Rand(fmt.Sprintf("rpc/%d", round))
	clk := &mdkClock{}
	clk.sec.Store(int64(1_700_000_000 + rnd.IntN(1000000)))
	opt := Options{MaxBudget: 100, StepSec: 3600, BudgetBonus: 10, Now: clk.Now}
	dir, cleanup := mdkScratch(r, fmt.Sprintf("c15r-%d-", round))
	defer cleanup()
	if err := mdkCreateBinlog(dir, 0); err != nil {
		r.Inconclusive("cannot create binlog: " + err.Error())
		return
	}
	db, err := mdkOpen(dir, "db", opt, 0)
	if err != nil {
		r.Inconclusive("cannot open database: " + err.Error())
		return
	}
	defer mdkClose(db)
	srv, err := mdkServe(db)
	if err != nil {
		r.Inconclusive("cannot start rpc server: " + err.Error())
		return
	}
	defer srv.Close()
	cl := srv.Client

	m := mdkNewModel()
	g := &mdkGen{rnd: rnd, m: m}
	for i := 0; i < 5+rnd.IntN(4); i++ {
		g.names = append(g.names, fmt.Sprintf("n%d", i))
	}
	var log []string
	viol := func(key, what string, extra map[string]any) {
		w := map[string]any{"round": round, "requests": append([]string(nil), log...)}
		for k, v := range extra {
			w[k] = v
		}
		r.Violation("C15/rpc/"+key, what, w)
	}

	// ---- subscribers
	pollCtx, stopPolling := context.WithCancel(context.Background())
	answers := make([][]c15RPCAnswer, nSubs)
	limits := make([]int64, nSubs)
	for i := range limits {
		limits[i] = []int64{1, 2, 3, 1000}[rnd.IntN(4)]
	}
	type subOutcome struct {
		ended, failed, timedOut, persistent, directSeen bool
		stuckAt                                         int64
		newer                                           string
		diag, transient                                 []string
	}
	outcomes := make([]subOutcome, nSubs) // each written by its subscriber only, read after wg.Wait
	var wg sync.WaitGroup
	for s := 0; s < nSubs; s++ {
		wg.Add(1)
		go func(s int) {
			defer wg.Done()
			from := int64(0)
			poll := func(ctx context.Context, long bool) (n int, failed bool) {
				args := tlmetadata.GetJournalnew{From: from, Limit: limits[s]}
				if !long {
					args.SetReturnIfEmpty(true)
				}
				var resp tlmetadata.GetJournalResponsenew
				err := cl.GetJournalnew(ctx, args, nil, &resp)
				a := c15RPCAnswer{From: from, Limit: limits[s], Long: long}
				if err != nil {
					if ctx.Err() != nil {
						return 0, true // cancelled long poll: not an answer
					}
					a.Err = err.Error()
					answers[s] = append(answers[s], a)
					return 0, true
				}
				a.Current, a.Events = resp.CurrentVersion, resp.Events
				if !long && len(resp.Events) == 0 {
					evs, derr := db.JournalEvents(context.Background(), from, limits[s])
					a.Direct = fmt.Sprintf("%d events, err=%v", len(evs), derr)
				}
				answers[s] = append(answers[s], a)
				if len(resp.Events) > 0 {
					if resp.Events[len(resp.Events)-1].Version <= from {
						return 0, true // no progress (judged later as an order violation): do not spin
					}
					from = resp.Events[len(resp.Events)-1].Version
				}
				return len(resp.Events), false
			}
			for pollCtx.Err() == nil {
				if _, failed := poll(pollCtx, true); failed {
					break
				}
			}
			// catch up without waiting, until the table verifiably holds nothing newer.  An empty answer
			// while it does is judged only when persistent (>= 5 repeats over >= 2 s, RPC and DBV2).
			out := &outcomes[s]
			bg := context.Background()
			deadline := time.Now().Add(60 * time.Second)
			for {
				if time.Now().After(deadline) {
					out.timedOut = true
					return
				}
				n, failed := poll(bg, false)
				if failed {
					out.failed = true
					return
				}
				if n > 0 {
					continue
				}
				exists, newer := mdkNewerInTable(db, from)
				if !exists {
					out.ended = true
					return
				}
				var diag []string
				recovered, directSeen := false, false
				start := time.Now()
				for try := 1; (try <= 5 || time.Since(start) < 2*time.Second) && try <= 60; try++ {
					time.Sleep(450 * time.Millisecond)
					n2, failed2 := poll(bg, false)
					direct, derr := db.JournalEvents(bg, from, limits[s])
					if len(direct) > 0 {
						directSeen = true
					}
					diag = append(diag, fmt.Sprintf("repeat %d after %d ms: rpc %d events (failed=%v); DBV2.JournalEvents %d events err=%v; in-package journal select: %s", try, time.Since(start).Milliseconds(), n2, failed2, len(direct), derr, mdkJournalProbe(db, from)))
					if failed2 {
						out.failed = true
						return
					}
					if n2 > 0 {
						recovered = true
						break
					}
				}
				if !recovered {
					out.persistent, out.stuckAt, out.newer, out.diag, out.directSeen = true, from, newer, diag, directSeen
					return
				}
				out.transient = append(out.transient, fmt.Sprintf("from version %d, table held %s: %v", from, newer, diag))
			}
		}(s)
	}

	// ---- requests
	ctx := context.Background()
	accepted := 0
	// in one round of four: entities with data around and above the journal page budget.  They are
	// written directly through DBV2.SaveEntity (RawEditEntity refuses requests above 1 MiB, but the
	// journal must serve whatever the table holds); the subscribers must get past them.
	bigAt := map[int]int{}
	if round%4 == 1 {
		for i, size := range c15BigSizes() {
			bigAt[5+i*(nOps-10)/3+rnd.IntN(3)] = size
		}
		r.Count("rpc.rounds_with_page_budget_sized_entities", 1)
	}
	for op := 0; op < nOps; op++ {
		clk.Add(int64(rnd.IntN(3)) * int64(rnd.IntN(500)))
		if size, ok := bigAt[op]; ok {
			big := c15BigRequest(m, rnd, size, op)
			ev, err := db.SaveEntity(ctx, big.Name, big.ID, big.Ver, big.Data, big.Create, big.Del, big.Typ, big.Meta)
			if err != nil {
				viol("big-data-refused", fmt.Sprintf("valid request with %d bytes of data refused by the database: %v", size, err), nil)
			} else {
				log = append(log, fmt.Sprintf("%s (%d bytes of data, direct) -> ok id=%d ver=%d", mdkOpString(big), size, ev.Id, ev.Version))
				m.apply(big, ev, big.Create)
				srv.Handler.broadcastJournal() // what RawEditEntity does after a successful save
				r.Count("rpc.page_budget_sized_entities_written", 1)
			}
		}
		req := g.next(clk.Unix(), false)
		p := m.predict(req)
		args := tlmetadata.EditEntitynew{Event: tlmetadata.Event{Id: req.ID, Name: req.Name, EventType: req.Typ, Unused: req.Del, Version: req.Ver, Data: req.Data}}
		args.Event.SetMetadata(req.Meta)
		if req.Create {
			args.SetCreate(true)
		}
		var ev tlmetadata.Event
		err := cl.EditEntitynew(ctx, args, nil, &ev)
		r.Count("rpc.request", 1)
		if err != nil {
			log = append(log, fmt.Sprintf("%s -> refused: %v", mdkOpString(req), err))
		} else {
			log = append(log, fmt.Sprintf("%s -> ok id=%d ver=%d", mdkOpString(req), ev.Id, ev.Version))
		}
		abstraction := fmt.Sprintf("rpc|%s|%s|pred:%v:%s|ok:%v", req.Class, mdkTypName(req.Typ), p.OK, p.Reason, err == nil)
		switch {
		case !p.Judged:
			r.NotJudged("rpc.request_"+p.Why, 1)
			if err == nil {
				m.apply(req, ev, m.ents[ev.Id] == nil)
			}
			continue
		case err != nil && p.OK && p.SelfName:
			r.NotJudged("rpc.predefined_entity_with_create_flag_refused_because_of_its_own_name", 1)
			continue
		case err != nil && p.OK && p.WillCreate && req.Ver == m.maxVer+1:
			r.NotJudged("rpc.create_refused_because_version_field_equals_next_version", 1)
			continue
		case (err == nil) != p.OK && err == nil:
			key := "accepted/" + p.Reason
			if p.Reason == "rename-namespace" && req.ID < 0 && req.Create {
				key = "namespace-renamed/predefined-id-with-create-flag"
			}
			r.Violation("C15/"+key, fmt.Sprintf("request accepted over RPC although the rules refuse it (%s): %s", p.Reason, mdkOpString(req)), map[string]any{"round": round, "requests": log, "answer": ev})
			m.apply(req, ev, m.ents[ev.Id] == nil)
			r.Case(true, "VIOL|"+abstraction)
			continue
		case (err == nil) != p.OK:
			viol("refused-valid", fmt.Sprintf("valid request refused over RPC: %v", err), map[string]any{"request": req})
			r.Case(true, "VIOL|"+abstraction)
			continue
		}
		if err == nil {
			accepted++
			if ev.Version <= m.maxVer || m.allVers[ev.Version] {
				viol("version/not-greater-or-reused", fmt.Sprintf("version %d after largest %d", ev.Version, m.maxVer), nil)
			}
			if ev.Name != req.Name || ev.Data != req.Data || ev.EventType != req.Typ || ev.Metadata != req.Meta || ev.Unused != req.Del || ev.NamespaceId != p.NsID {
				viol("answer/fields", "the RPC answer does not echo the request", map[string]any{"request": req, "answer": ev})
			}
			m.apply(req, ev, p.WillCreate)
		}
		r.Case(err == nil || accepted > 0, abstraction)
		// read-backs through the RPC surface
		if rnd.IntN(6) == 0 && len(m.ents) > 0 {
			ids := m.sortedIDs()
			id := ids[rnd.IntN(len(ids))]
			hist := m.hist[id]
			want := hist[rnd.IntN(len(hist))]
			var got tlmetadata.Event
			err := cl.GetEntity(ctx, tlmetadata.GetEntity{Id: id, Version: want.Ver}, nil, &got)
			if err != nil || got.Name != want.Name || got.Data != want.Data || got.Metadata != want.Meta || got.Version != want.Ver || got.NamespaceId != want.NsID {
				viol("get-entity", fmt.Sprintf("GetEntity(%d,%d) over RPC differs from the accepted request (err=%v)", id, want.Ver, err), map[string]any{"got": got, "want": want})
			}
			var hs tlmetadata.HistoryShortResponse
			err = cl.GetHistoryShortInfo(ctx, tlmetadata.GetHistoryShortInfo{Id: id}, nil, &hs)
			bad := err != nil || len(hs.Events) != len(hist)
			for j := 0; !bad && j < len(hist); j++ {
				if hs.Events[j].Version != hist[len(hist)-1-j].Ver || hs.Events[j].Metadata != hist[len(hist)-1-j].Meta {
					bad = true
				}
			}
			if bad {
				viol("history-short", fmt.Sprintf("GetHistoryShortInfo(%d) over RPC differs (err=%v)", id, err), map[string]any{"got": hs.Events})
			}
			r.Case(len(hist) > 1, fmt.Sprintf("rpc-readback|n%d", min(len(hist), 6)))
		}
	}
	stopPolling()
	wg.Wait()

	// ---- what the subscribers were sent
	for s := 0; s < nSubs; s++ {
		latest := map[int64]tlmetadata.Event{}
		last := int64(0)
		longAnswers, events := 0, 0
		for _, a := range answers[s] {
			if a.Err != "" {
				viol("journal/error", "journal request failed: "+a.Err, map[string]any{"subscriber": s})
				continue
			}
			if a.Long && len(a.Events) > 0 {
				longAnswers++
			}
			inAnswer := map[int64]bool{}
			for _, e := range a.Events {
				events++
				switch {
				case e.Version <= a.From || e.Version <= last:
					viol("journal/order", fmt.Sprintf("subscriber asked from version %d (already held %d) and was sent version %d", a.From, last, e.Version), map[string]any{"subscriber": s, "answer": a})
				case inAnswer[e.Id]:
					viol("journal/entity-twice", fmt.Sprintf("entity %d twice in one journal answer", e.Id), map[string]any{"subscriber": s, "answer": a})
				}
				inAnswer[e.Id] = true
				last = max(last, e.Version)
				var want *mdkEnt
				for i := range m.hist[e.Id] {
					if m.hist[e.Id][i].Ver == e.Version {
						want = &m.hist[e.Id][i]
					}
				}
				if want == nil {
					viol("journal/phantom-version", fmt.Sprintf("journal delivered entity %d version %d which no accepted request produced", e.Id, e.Version), map[string]any{"subscriber": s, "event": e})
				} else if e.Name != want.Name || e.Data != want.Data || e.Unused != want.Del || e.NamespaceId != want.NsID || e.UpdateTime != want.Upd || e.EventType != m.ents[e.Id].Typ {
					viol("journal/content", fmt.Sprintf("journal delivered entity %d version %d with other fields than accepted", e.Id, e.Version), map[string]any{"subscriber": s, "event": e, "accepted": want})
				}
				latest[e.Id] = e
			}
			if len(a.Events) > 0 && a.Current != a.Events[len(a.Events)-1].Version {
				viol("journal/current-version", fmt.Sprintf("answer ends at version %d but reports current version %d", a.Events[len(a.Events)-1].Version, a.Current), map[string]any{"subscriber": s})
			}
			if int64(len(a.Events)) > a.Limit && !a.Long {
				viol("journal/limit", fmt.Sprintf("%d events for limit %d", len(a.Events), a.Limit), map[string]any{"subscriber": s})
			}
		}
		out := outcomes[s]
		for _, tr := range out.transient {
			r.NotJudged("transient_empty_journal_page", 1)
			r.T.Logf("C15 rpc round %d subscriber %d: transient empty journal answer %s", round, s, tr)
		}
		switch {
		case out.timedOut:
			r.Inconclusive(fmt.Sprintf("rpc round %d: subscriber %d did not finish catching up within 60 s (harness starved)", round, s))
		case out.persistent:
			key := "journal/no-progress"
			if out.directSeen {
				key = "journal/empty-answer-while-database-returns-newer-versions" // the handler, not DBV2.JournalEvents
			}
			viol(key, fmt.Sprintf("subscriber %d asked for the journal from version %d (limit %d, return-if-empty) and keeps getting an empty answer over %d repeats although the table holds %s: a paging reader never gets past this point", s, out.stuckAt, limits[s], len(out.diag), out.newer), map[string]any{"subscriber": s, "repeats": out.diag})
		case out.ended:
			// the subscriber verifiably reached the end of the table: it must hold every latest version
			for id, e := range m.ents {
				if latest[id].Version != e.Ver {
					viol("journal/latest-missing", fmt.Sprintf("after catching up to the end of the table, subscriber %d holds entity %d at version %d, latest accepted is %d", s, id, latest[id].Version, e.Ver), map[string]any{"subscriber": s})
				}
			}
		}
		r.Count("rpc.journal_answers", int64(len(answers[s])))
		r.Count("rpc.journal_long_poll_answers_with_events", int64(longAnswers))
		r.Count("rpc.journal_events_delivered", int64(events))
		r.Case(events > 1, fmt.Sprintf("rpc-subscriber|answers%d|long%d|limit%d", min(len(answers[s]), 30), min(longAnswers, 20), limits[s]))
	}
	// ---- directed shape: long-poll clients parked at DIFFERENT versions, then a burst of edits that
	// are all committed before any of their handlers reaches broadcastJournal.  The background
	// subscribers are gone, so the handler's client map holds exactly the clients parked here.
	parkedClients := func() int {
		srv.Handler.getJournalClients.mx.Lock()
		defer srv.Handler.getJournalClients.mx.Unlock()
		return len(srv.Handler.getJournalClients.clients)
	}
	waitParked := func(n int) bool { // bounded and generous: only guards against a starved harness
		deadline := time.Now().Add(60 * time.Second)
		for parkedClients() != n {
			if time.Now().After(deadline) {
				return false
			}
			time.Sleep(2 * time.Millisecond)
		}
		return true
	}
	type burstAnswer struct {
		from int64
		slot int
		resp tlmetadata.GetJournalResponsenew
		err  error
	}
	reps := r.N(10, 25)
	for rep := 0; rep < reps; rep++ {
		if !waitParked(0) {
			r.Inconclusive(fmt.Sprintf("rpc round %d: long-poll clients of the previous repetition did not leave the handler within 60 s", round))
			break
		}
		burst := 2 + rnd.IntN(3)   // edits committed before the first broadcast
		clients := 2 + rnd.IntN(4) // parked long polls
		slots := make([]int, clients)
		for i := range slots {
			slots[i] = rnd.IntN(burst) // parked after this many commits: lags behind the rest of the burst
		}
		slots[0], slots[1] = 0, 1+rnd.IntN(burst-1) // at least two different versions
		bctx, cancel := context.WithCancel(context.Background())
		answers := make(chan burstAnswer, clients)
		parked, starved := 0, false
		var burstLog []string
		for j := 0; j < burst && !starved; j++ {
			for i, sl := range slots {
				if sl != j {
					continue
				}
				from := m.maxVer
				go func(i, sl int) {
					a := burstAnswer{from: from, slot: sl}
					a.err = cl.GetJournalnew(bctx, tlmetadata.GetJournalnew{From: from, Limit: 1000}, nil, &a.resp)
					answers <- a
				}(i, sl)
				parked++
				burstLog = append(burstLog, fmt.Sprintf("client %d parks from version %d", i, from))
			}
			if !waitParked(parked) {
				starved = true
				break
			}
			// one edit of the burst: committed, its handler has not broadcast yet
			name := fmt.Sprintf("burst-%d-%d-%d", round, rep, j)
			ev, err := db.SaveEntity(ctx, name, 0, 0, fmt.Sprintf(`{"burst":%d}`, j), true, 0, format.DashboardEvent, "burst")
			if err != nil {
				viol("burst/save-error", err.Error(), nil)
				starved = true
				break
			}
			m.apply(mdkSaveOp{Name: name, Data: fmt.Sprintf(`{"burst":%d}`, j), Create: true, Typ: format.DashboardEvent, Meta: "burst", Class: "burst-create"}, ev, true)
			burstLog = append(burstLog, fmt.Sprintf("commit %q -> version %d (no broadcast yet)", name, ev.Version))
		}
		if starved {
			cancel()
			for i := 0; i < parked; i++ {
				<-answers
			}
			r.Inconclusive(fmt.Sprintf("rpc round %d: directed burst could not park its long-poll clients within 60 s", round))
			break
		}
		for j := 0; j < burst; j++ {
			srv.Handler.broadcastJournal() // now the handlers of the burst reach their broadcast
		}
		current := m.maxVer
		timeout := time.After(60 * time.Second)
		for i := 0; i < parked; i++ {
			var a burstAnswer
			select {
			case a = <-answers:
			case <-timeout:
				r.Inconclusive(fmt.Sprintf("rpc round %d: a parked long-poll client got no answer within 60 s after the broadcast", round))
				cancel()
				i = parked
				continue
			}
			r.Count("rpc.burst_answers", 1)
			if a.err != nil {
				viol("burst/journal-error", a.err.Error(), map[string]any{"burst": burstLog})
				continue
			}
			got := map[int64]bool{}
			last := a.from
			for _, e := range a.resp.Events {
				if e.Version <= last {
					viol("journal/order", fmt.Sprintf("burst answer for a client parked at version %d contains version %d after %d", a.from, e.Version, last), map[string]any{"burst": burstLog})
				}
				last = e.Version
				got[e.Version] = true
				if h := m.hist[e.Id]; len(h) == 0 || h[len(h)-1].Ver != e.Version || h[len(h)-1].Name != e.Name || h[len(h)-1].Data != e.Data {
					viol("journal/content", fmt.Sprintf("burst answer delivers entity %d version %d which is not the accepted latest version", e.Id, e.Version), map[string]any{"burst": burstLog})
				}
			}
			// the clause: everything accepted with From < version <= CurrentVersion is in the answer
			var missing []int64
			for _, id := range m.sortedIDs() {
				if v := m.ents[id].Ver; v > a.from && v <= a.resp.CurrentVersion && !got[v] {
					missing = append(missing, v)
				}
			}
			if len(missing) > 0 {
				var vs []int64
				for _, e := range a.resp.Events {
					vs = append(vs, e.Version)
				}
				viol("journal/gap-below-current-version", fmt.Sprintf("a long-poll client parked at version %d was answered with versions %v and CurrentVersion %d: accepted versions %v are missing, and a client that continues from CurrentVersion never receives them", a.from, vs, a.resp.CurrentVersion, missing), map[string]any{"burst": burstLog, "clients_parked": parked, "edits_in_burst": burst})
			}
			if a.resp.CurrentVersion < current {
				r.Count("rpc.burst_answers_partial", 1)
			}
			r.Case(true, fmt.Sprintf("rpc-burst|lag%d|burst%d|clients%d|events%d", burst-a.slot, burst, min(parked, 5), len(a.resp.Events)))
		}
		cancel()
		r.Count("rpc.burst_repetitions", 1)
		if rep < 2 {
			log = append(log, burstLog...)
		}
	}

	if r.WantSample() {
		l := log
		if len(l) > 12 {
			l = l[:12]
		}
		r.Sample(map[string]any{"round": round, "first_requests": l, "subscribers": nSubs, "accepted": accepted})
	}
}

func TestVerifC15RPC(t *testing.T) {
	r := verifkit.Start(t, "C15", "rpc")
	defer r.Finish()
	mdkAssumeSQLite(r)
	r.Assume("long polls that are cancelled by the harness at the end of a round are not answers; liveness of the long poll itself is not judged")
	r.Assume("an empty journal page while the table holds a larger version is judged only when persistent (the same request repeated >= 5 times over >= 2 s of real time, through RPC and through DBV2.JournalEvents, stays empty); one that recovers is counted NotJudged (transient_empty_journal_page) and logged with diagnostics")
	r.SetRule("rounds over a fresh database behind the real rpc.Server: 50 (quick) / 120 (thorough) generated entity requests through tlmetadata.Client.EditEntitynew, judged by the reference model; 3 subscriber goroutines follow the journal with long polls (limits 1/2/3/1000) and catch up at the end; then 10 (quick) / 25 (thorough) directed bursts per round: 2–5 long-poll clients parked at different versions (lagging by one or several edits), 2–4 edits committed before the first broadcast, every answer checked for accepted versions missing below its CurrentVersion; GetEntity / GetHistoryShortInfo read-backs. One case = one judged RPC answer, read-back or subscriber stream. Non-trivial = accepted or refused-after-accepted request / entity with ≥2 versions / stream with ≥2 events.")
	rounds := r.N(12, 60)
	nOps := r.N(50, 120)
	for i := 0; i < rounds; i++ {
		c15RPCRound(r, i, nOps, 3)
		r.Count("rpc.rounds", 1)
	}
}
