//go:build verif

package queue

// C29 (queue half): per-user round-robin admission queue.
//
// Two workloads, both against the real Queue, observed in-package under the queue's own
// mutex (q.mx):
//   - stepped histories: one call (or a small group of concurrent calls) per step; the next
//     step is issued only after the previous call is visibly inside the queue (its *query
//     is linked into the user's list) and every waiter whose channel was closed has
//     returned.  Arrival order is therefore unambiguous.
//   - free-running epochs: many goroutines, few users, random cancellation, a controller
//     changing capacity, a sampler taking snapshots under q.mx.
//
// No verdict depends on the wall clock: bounded waits only turn into r.Inconclusive.

import (
	"context"
	"fmt"
	"math/rand/v2"
	"runtime"
	"runtime/debug"
	"sort"
	"strings"
	"sync"
	"sync/atomic"
	"testing"
	"time"

	"github.com/anishathalye/porcupine"

	"github.com/VKCOM/statshouse/internal/zzverif/verifkit"
)

const (
	c29KeyLowered      = "C29/queue/grant-above-lowered-capacity"
	c29KeyOverCap      = "C29/queue/grant-above-capacity"
	c29KeyLostWakeup   = "C29/queue/lost-wakeup/free-capacity-with-waiters"
	c29KeyNotSignalled = "C29/queue/lost-wakeup/dequeued-but-not-signalled"
	c29KeyBlockedFree  = "C29/queue/lost-wakeup/acquire-blocks-on-idle-queue"
	c29KeyConservation = "C29/queue/conservation/active-differs-from-grants-minus-releases"
	c29KeyCancelLeak   = "C29/queue/cancel/cancelled-waiter-still-queued"
	c29KeyCancelState  = "C29/queue/cancel/changed-active-count"
	c29KeyFairness     = "C29/queue/fairness/user-granted-twice-past-older-waiter"
	c29KeyPorcupine    = "C29/queue/porcupine/history-not-linearizable"
	c29KeyDeadlock     = "C29/queue/lost-wakeup/all-goroutines-blocked-nothing-held"
	c29KeyResidue      = "C29/queue/conservation/residue-after-quiescence"

	c29WaitLimit = 120 * time.Second // bounded wait; expiry => inconclusive, never a violation
)

// ---------------------------------------------------------------- observation

type c29QE struct {
	q     *query
	token string
	pos   int   // position in the user's own list
	order int64 // round-robin order of the user
}

type c29State struct {
	active, cap int64
	waiting     []c29QE
	users, tree int
}

func c29Snap(q *Queue) c29State {
	q.mx.Lock()
	defer q.mx.Unlock()
	s := c29State{active: q.activeQuery, cap: q.maxActiveQuery, users: len(q.waitingUsersByName), tree: q.waitingUsersByPriority.Len()}
	for tok, u := range q.waitingUsersByName {
		i := 0
		for e := u.qry.Front(); e != nil; e = e.Next() {
			s.waiting = append(s.waiting, c29QE{q: e.Value.(*query), token: tok, pos: i, order: u.order})
			i++
		}
	}
	return s
}

func (s c29State) has(p *query) bool {
	for _, e := range s.waiting {
		if e.q == p {
			return true
		}
	}
	return false
}

func c29WaitUntil(cond func() bool) bool {
	if cond() {
		return true
	}
	start := time.Now()
	for i := 0; ; i++ {
		if i < 200 {
			runtime.Gosched()
		} else if i < 2000 {
			time.Sleep(20 * time.Microsecond)
		} else {
			time.Sleep(time.Millisecond)
		}
		if cond() {
			return true
		}
		if i > 200 && time.Since(start) > c29WaitLimit {
			return false
		}
	}
}


// c29Guard turns a panic of the code under test into a violation instead of a crashed process.
func c29Guard(r *verifkit.Run, what string, f func()) (panicked bool) {
	defer func() {
		if p := recover(); p != nil {
			panicked = true
			r.Violation("C29/queue/panic", fmt.Sprintf("%s panicked: %v", what, p), map[string]any{"call": what, "stack": string(debug.Stack())})
		}
	}()
	f()
	return false
}

// ---------------------------------------------------------------- porcupine model

type c29PIn struct {
	kind string // acq rel adj obs
	arg  int64
}
type c29POut struct {
	granted bool
	obs     int64
}
type c29PState struct{ active, cap int64 }

// allowAboveCap is used only to classify a history that is illegal under the real model:
// the diagnostic model additionally tolerates a grant while active > capacity (a state that
// only a decrease of the capacity produces; a grant at active == capacity stays illegal).
// If the history is legal under it, the sole cause is "granted above a lowered capacity".
func c29Model(cap0 int64, allowAboveCap bool) porcupine.Model {
	return porcupine.Model{
		Init: func() interface{} { return c29PState{cap: cap0} },
		Step: func(state, input, output interface{}) (bool, interface{}) {
			st := state.(c29PState)
			in := input.(c29PIn)
			out := output.(c29POut)
			switch in.kind {
			case "acq":
				if !out.granted {
					return true, st // cancelled: no effect
				}
				if st.active < st.cap || allowAboveCap && st.active > st.cap {
					st.active++
					return true, st
				}
				return false, st
			case "rel":
				if st.active <= 0 {
					return false, st
				}
				st.active--
				return true, st
			case "adj":
				st.cap = in.arg
				return true, st
			case "obs":
				return out.obs == st.active, st
			}
			return false, st
		},
		Equal: func(a, b interface{}) bool { return a.(c29PState) == b.(c29PState) },
		DescribeOperation: func(input, output interface{}) string {
			return fmt.Sprintf("%v -> %v", input, output)
		},
	}
}

// ---------------------------------------------------------------- stepped histories

type c29Waiter struct {
	id      int
	user    string
	cancel  context.CancelFunc
	done    chan error
	qry     *query // set once the waiter was seen linked into the queue
	enqStep int    // step at whose end the waiter was first seen queued
	fin     bool
	err     error
	call    int64
	ret     int64
	narrow  int64 // logical time of the last quiescent point at which the waiter was seen still queued and not signalled
}

type c29Grant struct {
	step      int
	user      string
	fromQueue bool // was visibly queued at a quiescent point before the step
	waiter    int
}

type c29Hist struct {
	r     *verifkit.Run
	w     *verifkit.Worker
	q     *Queue
	rnd   *rand.Rand
	idx   int
	cap0  int64
	clock atomic.Int64

	opsMu sync.Mutex
	ops   []porcupine.Operation

	waiters  []*c29Waiter // issued, not yet returned
	holders  int64        // grants - releases as seen by the harness
	nextID   int
	step     int
	trace    []string
	shape    []string
	grants   []c29Grant
	slack    bool // a capacity increase left free capacity with waiters: lost-wakeup clause not judged
	lowered  bool // capacity was set below the number of active queries at some point
	violated bool
	aborted  bool

	flagged     map[string]bool
	flaggedStep int

	nGrantQ, nCancel, nAdj, nConc, nPorcSkipped int
}

// markQueued is called at the quiescent point before every step.
func (h *c29Hist) markQueued() {
	s := c29Snap(h.q)
	st := h.tick()
	for _, w := range h.waiters {
		if w.qry != nil && s.has(w.qry) && !isClosed(w.qry.ch) {
			w.narrow = st
		}
	}
}

func (h *c29Hist) tick() int64 { return h.clock.Add(1) }

func (h *c29Hist) addOp(in c29PIn, out c29POut, call, ret int64, client int) {
	h.opsMu.Lock()
	h.ops = append(h.ops, porcupine.Operation{ClientId: client, Input: in, Call: call, Output: out, Return: ret})
	h.opsMu.Unlock()
}

func (h *c29Hist) logf(f string, a ...any) {
	h.trace = append(h.trace, fmt.Sprintf("%d: ", h.step)+fmt.Sprintf(f, a...))
}

func (h *c29Hist) witness(extra map[string]any) map[string]any {
	t := h.trace
	if len(t) > 80 {
		t = t[len(t)-80:]
	}
	m := map[string]any{"history_index": h.idx, "worker": h.w.Index, "initial_capacity": h.cap0, "trace": append([]string(nil), t...)}
	for k, v := range extra {
		m[k] = v
	}
	return m
}

func (h *c29Hist) viol(key, what string, extra map[string]any) {
	h.violated = true
	if h.flagged == nil || h.flaggedStep != h.step {
		h.flagged, h.flaggedStep = map[string]bool{}, h.step
	}
	if h.flagged[key] {
		return // one event, one count
	}
	h.flagged[key] = true
	h.r.Violation(key, what, h.witness(extra))
}

func (h *c29Hist) capKey(pre c29State) string {
	if h.lowered && pre.active > pre.cap {
		return c29KeyLowered
	}
	return c29KeyOverCap
}

func (h *c29Hist) startAcquire(user string) *c29Waiter {
	ctx, cancel := context.WithCancel(context.Background())
	w := &c29Waiter{id: h.nextID, user: user, cancel: cancel, done: make(chan error, 1), enqStep: -1}
	h.nextID++
	q := h.q
	go func() {
		w.call = h.tick()
		var err error
		if c29Guard(h.r, "Acquire", func() { err = q.Acquire(ctx, user) }) {
			err = fmt.Errorf("panic in Acquire")
		}
		w.ret = h.tick()
		w.done <- err // w.call / w.ret are read only after this receive
	}()
	h.waiters = append(h.waiters, w)
	return w
}

// poll collects waiters that have returned; returns those that returned in this call.
func (h *c29Hist) poll() (fin []*c29Waiter) {
	rest := h.waiters[:0]
	for _, w := range h.waiters {
		select {
		case err := <-w.done:
			w.fin, w.err = true, err
			if err == nil {
				// the grant took effect after the last quiescent point at which the waiter was seen
				// queued with an open channel (in-package observation under q.mx): narrow the window
				h.addOp(c29PIn{kind: "acq"}, c29POut{granted: true}, max(w.call, w.narrow), w.ret, 100+w.id)
			} else {
				h.nPorcSkipped++ // a cancelled Acquire has no effect in the model: legal anywhere
			}
			fin = append(fin, w)
		default:
			rest = append(rest, w)
		}
	}
	h.waiters = rest
	return fin
}

// settle waits until every waiter whose channel is closed (or that is not linked into the
// queue although it entered) has returned.  Returns everything that returned meanwhile.
func (h *c29Hist) settle(mustReturn map[*c29Waiter]bool) (fin []*c29Waiter, ok bool) {
	ok = c29WaitUntil(func() bool {
		fin = append(fin, h.poll()...)
		s := c29Snap(h.q)
		for _, w := range h.waiters {
			if mustReturn[w] {
				return false
			}
			if w.qry != nil && (isClosed(w.qry.ch) || !s.has(w.qry)) {
				return false
			}
		}
		return true
	})
	return fin, ok
}

func (h *c29Hist) inconclusive(why string) {
	h.aborted = true
	h.r.Inconclusive(fmt.Sprintf("C29 queue stepped history %d/%d: %s", h.w.Index, h.idx, why))
}

// judgeQuiescent applies the rules that hold at every quiescent point.
func (h *c29Hist) judgeQuiescent(pre c29State, post c29State, releases int64, granted []*c29Waiter, capChanged bool, what string) {
	k := int64(len(granted))
	// conservation
	if post.active != pre.active-releases+k {
		h.viol(c29KeyConservation, fmt.Sprintf("%s: active %d -> %d with %d releases and %d grants", what, pre.active, post.active, releases, k),
			map[string]any{"pre_active": pre.active, "post_active": post.active, "releases": releases, "grants": k})
	}
	if post.active != h.holders {
		h.viol(c29KeyConservation, fmt.Sprintf("%s: Observe()=%d but grants-releases=%d", what, post.active, h.holders),
			map[string]any{"observe": post.active, "grants_minus_releases": h.holders})
	}
	// capacity at every grant: after the last grant only releases can follow, so active-after-step <= cap
	if k > 0 && !capChanged && post.active > post.cap {
		h.viol(h.capKey(pre), fmt.Sprintf("%s: %d grant(s) with active %d -> %d above capacity %d", what, k, pre.active, post.active, post.cap),
			map[string]any{"pre_active": pre.active, "post_active": post.active, "capacity": post.cap, "grants": k})
	}
	// lost wakeup: waiters and free capacity may coexist only after a capacity increase
	if len(post.waiting) > 0 && post.active < post.cap {
		if h.slack {
			h.r.NotJudged("free_capacity_with_waiters_after_capacity_increase", 1)
		} else {
			h.viol(c29KeyLostWakeup, fmt.Sprintf("%s: %d waiting, active %d < capacity %d and no capacity increase since the queue was last busy", what, len(post.waiting), post.active, post.cap),
				map[string]any{"waiting": len(post.waiting), "active": post.active, "capacity": post.cap})
		}
	}
	if len(post.waiting) == 0 || post.active >= post.cap {
		h.slack = false
	}
	if post.active <= post.cap {
		h.lowered = false // discriminator: active is above capacity only because capacity was lowered below it
	}
}

// fairness: a user is not granted twice while another user that was already waiting still waits.
func (h *c29Hist) recordGrants(granted []*c29Waiter) {
	for _, g := range granted {
		fromQ := g.qry != nil && g.enqStep >= 0 && g.enqStep < h.step
		h.grants = append(h.grants, c29Grant{step: h.step, user: g.user, fromQueue: fromQ, waiter: g.id})
		if fromQ {
			h.nGrantQ++
		}
	}
	// judge pairs whose second grant is in this step
	for _, g2 := range granted {
		if !(g2.qry != nil && g2.enqStep >= 0 && g2.enqStep < h.step) {
			h.r.NotJudged("fairness_second_grant_not_from_queue", 1)
			continue
		}
		// latest earlier grant of the same user
		s1 := -1
		for i := len(h.grants) - 1; i >= 0; i-- {
			g := h.grants[i]
			if g.user == g2.user && g.waiter != g2.id && g.step <= h.step {
				if g.step == h.step && !g.fromQueue {
					// order inside one step is unknown: the other grant may be an admission past
					// waiters with free capacity after a capacity increase (not judged)
					h.r.NotJudged("fairness_same_step_pair_with_direct_admission", 1)
					continue
				}
				s1 = g.step
				break
			}
		}
		if s1 < 0 {
			continue
		}
		// V: a waiter of another user queued before step s1 and still waiting now, whose user got no grant in s1..now
		for _, v := range h.waiters {
			if v.user == g2.user || v.qry == nil || v.enqStep < 0 || v.enqStep >= s1 {
				continue
			}
			served := false
			for _, g := range h.grants {
				if g.user == v.user && g.step >= s1 && g.step <= h.step {
					served = true
					break
				}
			}
			if !served {
				h.viol(c29KeyFairness, fmt.Sprintf("user %s granted at steps %d and %d while user %s (waiter #%d queued at step %d) waited throughout without a grant", g2.user, s1, h.step, v.user, v.id, v.enqStep),
					map[string]any{"user": g2.user, "first_grant_step": s1, "second_grant_step": h.step, "starved_user": v.user, "starved_waiter": v.id})
				break
			}
		}
	}
}

func (h *c29Hist) account(fin []*c29Waiter) (granted, cancelled []*c29Waiter) {
	for _, w := range fin {
		if w.err == nil {
			granted = append(granted, w)
			h.holders++
		} else {
			cancelled = append(cancelled, w)
		}
	}
	return
}

func c29Ids(ws []*c29Waiter) string {
	var s []string
	for _, w := range ws {
		s = append(s, fmt.Sprintf("%s#%d", w.user, w.id))
	}
	sort.Strings(s)
	return "[" + strings.Join(s, " ") + "]"
}

// linkNew finds the query of a freshly issued waiter in a snapshot.
func (h *c29Hist) linkNew(w *c29Waiter, pre, s c29State) bool {
	for _, e := range s.waiting {
		if e.token != w.user || pre.has(e.q) {
			continue
		}
		known := false
		for _, o := range h.waiters {
			if o != w && o.qry == e.q {
				known = true
			}
		}
		if !known {
			w.qry = e.q
			return true
		}
	}
	return false
}

func (h *c29Hist) stepAcquire(user string) {
	pre := c29Snap(h.q)
	userWaiting := false
	for _, e := range pre.waiting {
		if e.token == user {
			userWaiting = true
		}
	}
	w := h.startAcquire(user)
	var fin []*c29Waiter
	entered := c29WaitUntil(func() bool {
		fin = append(fin, h.poll()...)
		if w.fin {
			return true
		}
		return h.linkNew(w, pre, c29Snap(h.q))
	})
	if !entered {
		h.inconclusive("Acquire neither returned nor became visible in the queue")
		return
	}
	more, ok := h.settle(nil)
	fin = append(fin, more...)
	if !ok {
		h.inconclusive("waiters with a closed channel did not return")
		return
	}
	if !w.fin {
		w.enqStep = h.step
	}
	granted, cancelled := h.account(fin)
	post := c29Snap(h.q)
	h.logf("Acquire(%s)#%d active %d cap %d waiting %d => %s granted %s, active %d waiting %d", user, w.id, pre.active, pre.cap, len(pre.waiting),
		map[bool]string{true: "returned", false: "queued"}[w.fin], c29Ids(granted), post.active, len(post.waiting))
	h.shape = append(h.shape, map[bool]string{true: "A+", false: "Aq"}[w.fin])
	if len(cancelled) > 0 {
		h.viol(c29KeyCancelState, "Acquire returned an error although nothing was cancelled", map[string]any{"waiters": c29Ids(cancelled)})
	}
	// an idle queue (no waiters at all, free capacity) must admit at once
	if len(pre.waiting) == 0 && pre.active < pre.cap && !(w.fin && w.err == nil) {
		h.viol(c29KeyBlockedFree, fmt.Sprintf("Acquire(%s) blocked with active %d < capacity %d and nobody waiting", user, pre.active, pre.cap), nil)
	}
	if w.fin && w.err == nil && (userWaiting || len(pre.waiting) > 0) && pre.active < pre.cap {
		h.r.NotJudged("acquire_admitted_past_waiters_with_free_capacity_after_increase", 1)
	}
	h.judgeQuiescent(pre, post, 0, granted, false, fmt.Sprintf("Acquire(%s)", user))
	h.recordGrants(granted)
}

func (h *c29Hist) stepRelease() {
	if h.holders <= 0 {
		return
	}
	pre := c29Snap(h.q)
	call := h.tick()
	c29Guard(h.r, "Release", func() { h.q.Release() })
	ret := h.tick()
	h.holders--
	h.addOp(c29PIn{kind: "rel"}, c29POut{}, call, ret, 0)
	// observation at the moment the call has returned: who left the queue, is its channel closed
	at := c29Snap(h.q)
	var left []*c29Waiter
	for _, w := range h.waiters {
		if w.qry != nil && pre.has(w.qry) && !at.has(w.qry) {
			left = append(left, w)
			if !isClosed(w.qry.ch) {
				h.viol(c29KeyNotSignalled, fmt.Sprintf("Release() removed waiter %s#%d from the queue without closing its channel", w.user, w.id), nil)
			}
		}
	}
	if len(pre.waiting) > 0 && pre.active-1 < pre.cap && len(left) == 0 {
		h.viol(c29KeyLostWakeup, fmt.Sprintf("Release() returned with %d waiting, active %d < capacity %d and nobody granted", len(at.waiting), at.active, at.cap),
			map[string]any{"waiting": len(at.waiting), "active": at.active, "capacity": at.cap, "at": "return-of-Release"})
	}
	must := map[*c29Waiter]bool{}
	fin, ok := h.settle(must)
	if !ok {
		h.inconclusive("granted waiters did not return after Release")
		return
	}
	granted, cancelled := h.account(fin)
	post := c29Snap(h.q)
	h.logf("Release() active %d cap %d waiting %d => granted %s, active %d waiting %d", pre.active, pre.cap, len(pre.waiting), c29Ids(granted), post.active, len(post.waiting))
	h.shape = append(h.shape, fmt.Sprintf("R%d", len(granted)))
	if len(cancelled) > 0 {
		h.viol(c29KeyCancelState, "a waiter returned an error during Release although nothing was cancelled", map[string]any{"waiters": c29Ids(cancelled)})
	}
	if c29Ids(granted) != c29Ids(left) {
		h.viol(c29KeyNotSignalled, fmt.Sprintf("waiters that left the queue %s differ from waiters whose Acquire returned nil %s", c29Ids(left), c29Ids(granted)), nil)
	}
	h.judgeQuiescent(pre, post, 1, granted, false, "Release()")
	h.recordGrants(granted)
}

func (h *c29Hist) stepCancel() {
	var cands []*c29Waiter
	for _, w := range h.waiters {
		if w.qry != nil {
			cands = append(cands, w)
		}
	}
	if len(cands) == 0 {
		return
	}
	w := cands[h.rnd.IntN(len(cands))]
	pre := c29Snap(h.q)
	w.cancel()
	fin, ok := h.settle(map[*c29Waiter]bool{w: true})
	if !ok {
		h.inconclusive("cancelled waiter did not return")
		return
	}
	granted, cancelled := h.account(fin)
	post := c29Snap(h.q)
	h.nCancel++
	h.logf("cancel %s#%d active %d cap %d waiting %d => err=%v granted %s, active %d waiting %d", w.user, w.id, pre.active, pre.cap, len(pre.waiting), w.err, c29Ids(granted), post.active, len(post.waiting))
	h.shape = append(h.shape, map[bool]string{true: "Cg", false: "Cx"}[w.err == nil])
	for _, c := range cancelled {
		if c != w {
			h.viol(c29KeyCancelState, "another waiter returned an error during a cancel", map[string]any{"waiters": c29Ids(cancelled)})
		}
	}
	if w.err != nil {
		if post.has(w.qry) {
			h.viol(c29KeyCancelLeak, fmt.Sprintf("waiter %s#%d returned %v but its query is still linked into the queue", w.user, w.id, w.err), nil)
		}
		if len(post.waiting) != len(pre.waiting)-1-len(granted) {
			h.viol(c29KeyCancelState, fmt.Sprintf("cancel changed the number of waiters from %d to %d (grants %d)", len(pre.waiting), len(post.waiting), len(granted)), nil)
		}
	}
	h.judgeQuiescent(pre, post, 0, granted, false, fmt.Sprintf("cancel %s#%d", w.user, w.id))
	h.recordGrants(granted)
}

func (h *c29Hist) stepAdjust() {
	pre := c29Snap(h.q)
	nc := int64(h.rnd.IntN(5))
	if h.rnd.IntN(3) == 0 && pre.active > 0 {
		nc = int64(h.rnd.IntN(int(pre.active) + 1)) // aim below or at the active count
	}
	call := h.tick()
	h.q.AdjustCapacity(uint64(nc))
	ret := h.tick()
	h.addOp(c29PIn{kind: "adj", arg: nc}, c29POut{}, call, ret, 0)
	fin, ok := h.settle(nil)
	if !ok {
		h.inconclusive("waiters did not settle after AdjustCapacity")
		return
	}
	granted, cancelled := h.account(fin)
	post := c29Snap(h.q)
	h.nAdj++
	h.logf("AdjustCapacity(%d) active %d cap %d waiting %d => granted %s, active %d waiting %d", nc, pre.active, pre.cap, len(pre.waiting), c29Ids(granted), post.active, len(post.waiting))
	switch {
	case nc < pre.active:
		h.lowered = true
		h.shape = append(h.shape, "J<")
	case nc > pre.cap:
		h.shape = append(h.shape, "J+")
	default:
		h.shape = append(h.shape, "J=")
	}
	if post.cap != nc {
		h.viol("C29/queue/adjust/capacity-not-applied", fmt.Sprintf("capacity is %d after AdjustCapacity(%d)", post.cap, nc), nil)
	}
	if len(cancelled) > 0 {
		h.viol(c29KeyCancelState, "a waiter returned an error during AdjustCapacity", map[string]any{"waiters": c29Ids(cancelled)})
	}
	if nc > pre.cap && len(post.waiting) > 0 && post.active < post.cap {
		h.slack = true // recorded, not judged (DESIGN): nothing is granted until the next Release
		h.r.NotJudged("capacity_increase_without_grant", 1)
	}
	// grants at a capacity change are judged against the new capacity
	if len(granted) > 0 && post.active > post.cap {
		h.viol(h.capKey(c29State{active: pre.active, cap: nc}), fmt.Sprintf("AdjustCapacity(%d) granted %d waiter(s): active %d", nc, len(granted), post.active), nil)
	}
	h.judgeQuiescent(pre, post, 0, granted, true, fmt.Sprintf("AdjustCapacity(%d)", nc))
	h.recordGrants(granted)
}

func (h *c29Hist) stepObserve() {
	call := h.tick()
	a, _ := h.q.Observe()
	ret := h.tick()
	h.addOp(c29PIn{kind: "obs"}, c29POut{obs: a}, call, ret, 0)
	h.shape = append(h.shape, "O")
	if a != h.holders {
		h.viol(c29KeyConservation, fmt.Sprintf("Observe()=%d but grants-releases=%d", a, h.holders), nil)
	}
}

// stepConcurrent issues 2-3 calls at once: releases, one cancel, at most one Acquire.
func (h *c29Hist) stepConcurrent(users []string) {
	pre := c29Snap(h.q)
	nRel := 0
	if h.holders > 0 {
		nRel = 1 + h.rnd.IntN(int(min(h.holders, 2)))
	}
	var cw *c29Waiter
	var cands []*c29Waiter
	for _, w := range h.waiters {
		if w.qry != nil {
			cands = append(cands, w)
		}
	}
	if len(cands) > 0 && h.rnd.IntN(3) != 0 {
		// prefer the waiter that is next in the round robin: it races with the grant (isClosed path)
		sort.Slice(cands, func(i, j int) bool {
			oi, oj := int64(1<<62), int64(1<<62)
			for _, e := range pre.waiting {
				if e.q == cands[i].qry {
					oi = e.order*1000 + int64(e.pos)
				}
				if e.q == cands[j].qry {
					oj = e.order*1000 + int64(e.pos)
				}
			}
			return oi < oj
		})
		if h.rnd.IntN(4) != 0 {
			cw = cands[0]
		} else {
			cw = cands[h.rnd.IntN(len(cands))]
		}
	}
	withAcq := h.rnd.IntN(2) == 0
	if nRel+map[bool]int{true: 1}[cw != nil]+map[bool]int{true: 1}[withAcq] < 2 {
		return
	}
	start := make(chan struct{})
	var wg sync.WaitGroup
	for i := 0; i < nRel; i++ {
		wg.Add(1)
		go func(i int) {
			defer wg.Done()
			<-start
			call := h.tick()
			c29Guard(h.r, "Release", func() { h.q.Release() })
			ret := h.tick()
			h.addOp(c29PIn{kind: "rel"}, c29POut{}, call, ret, 1+i)
		}(i)
	}
	if cw != nil {
		wg.Add(1)
		spin := h.rnd.IntN(3)
		go func() {
			defer wg.Done()
			<-start
			for i := spin; i > 0; i-- {
				runtime.Gosched()
			}
			cw.cancel()
		}()
	}
	var aw *c29Waiter
	user := users[h.rnd.IntN(len(users))]
	close(start)
	if withAcq {
		aw = h.startAcquire(user)
	}
	wg.Wait()
	h.holders -= int64(nRel)
	var fin []*c29Waiter
	if aw != nil {
		if !c29WaitUntil(func() bool {
			fin = append(fin, h.poll()...)
			return aw.fin || h.linkNew(aw, pre, c29Snap(h.q))
		}) {
			h.inconclusive("concurrent Acquire neither returned nor became visible")
			return
		}
	}
	must := map[*c29Waiter]bool{}
	if cw != nil {
		must[cw] = true
	}
	more, ok := h.settle(must)
	fin = append(fin, more...)
	if !ok {
		h.inconclusive("concurrent step did not settle")
		return
	}
	if aw != nil && !aw.fin {
		aw.enqStep = h.step
	}
	granted, cancelled := h.account(fin)
	post := c29Snap(h.q)
	h.nConc++
	if cw != nil {
		h.nCancel++
	}
	desc := fmt.Sprintf("concurrent{%d×Release", nRel)
	if cw != nil {
		desc += fmt.Sprintf(", cancel %s#%d", cw.user, cw.id)
	}
	if aw != nil {
		desc += fmt.Sprintf(", Acquire(%s)#%d", aw.user, aw.id)
	}
	desc += "}"
	h.logf("%s active %d cap %d waiting %d => granted %s cancelled %s, active %d waiting %d", desc, pre.active, pre.cap, len(pre.waiting), c29Ids(granted), c29Ids(cancelled), post.active, len(post.waiting))
	h.shape = append(h.shape, fmt.Sprintf("X%d%v%v:%d", nRel, cw != nil, aw != nil, len(granted)))
	for _, c := range cancelled {
		if c != cw {
			h.viol(c29KeyCancelState, "a waiter that was not cancelled returned an error", map[string]any{"waiters": c29Ids(cancelled)})
		} else if post.has(c.qry) {
			h.viol(c29KeyCancelLeak, fmt.Sprintf("waiter %s#%d returned %v but its query is still linked into the queue", c.user, c.id, c.err), nil)
		}
	}
	if cw != nil && cw.err == nil {
		h.w.Count("cancel_lost_race_to_grant", 1)
	}
	h.judgeQuiescent(pre, post, int64(nRel), granted, false, desc)
	h.recordGrants(granted)
}

func (h *c29Hist) finish() {
	// drain: cancel every waiter, release every holder
	for _, w := range h.waiters {
		w.cancel()
	}
	all := map[*c29Waiter]bool{}
	for _, w := range h.waiters {
		all[w] = true
	}
	h.step++
	fin, ok := h.settle(all)
	if !ok {
		h.inconclusive("final cancellation did not settle")
		return
	}
	h.account(fin)
	for h.holders > 0 {
		pre := c29Snap(h.q)
		if len(pre.waiting) != 0 {
			h.viol(c29KeyCancelLeak, "queries are still queued after every waiter was cancelled", nil)
			break
		}
		call := h.tick()
		c29Guard(h.r, "Release", func() { h.q.Release() })
		ret := h.tick()
		h.holders--
		h.addOp(c29PIn{kind: "rel"}, c29POut{}, call, ret, 0)
	}
	post := c29Snap(h.q)
	if post.active != 0 || len(post.waiting) != 0 || post.users != 0 || post.tree != 0 {
		h.viol(c29KeyResidue, fmt.Sprintf("after cancelling all waiters and releasing all holders: active %d, queued %d, users %d, tree %d", post.active, len(post.waiting), post.users, post.tree), nil)
	}
}

func c29OpsText(ops []porcupine.Operation) []string {
	sort.Slice(ops, func(i, j int) bool { return ops[i].Call < ops[j].Call })
	var out []string
	for _, o := range ops {
		out = append(out, fmt.Sprintf("[%d,%d] c%d %+v -> %+v", o.Call, o.Return, o.ClientId, o.Input, o.Output))
	}
	return out
}

func c29RunStepped(r *verifkit.Run, w *verifkit.Worker, idx int) {
	rnd := w.Rnd
	cap0 := int64(rnd.IntN(4))
	if rnd.IntN(4) != 0 && cap0 == 0 {
		cap0 = 1
	}
	h := &c29Hist{r: r, w: w, q: NewQueue(cap0), rnd: rnd, idx: idx, cap0: cap0}
	nUsers := 2 + rnd.IntN(3)
	users := make([]string, nUsers)
	for i := range users {
		users[i] = fmt.Sprintf("u%d", i)
	}
	steps := 25 + rnd.IntN(40)
	for h.step = 0; h.step < steps && !h.aborted; h.step++ {
		h.markQueued()
		switch p := rnd.IntN(100); {
		case p < 38:
			h.stepAcquire(users[rnd.IntN(nUsers)])
		case p < 60:
			h.stepRelease()
		case p < 70:
			h.stepCancel()
		case p < 80:
			h.stepAdjust()
		case p < 83:
			h.stepObserve()
		default:
			h.stepConcurrent(users)
		}
	}
	if h.aborted {
		for _, x := range h.waiters {
			x.cancel()
		}
		return
	}
	h.finish()
	if h.aborted {
		return
	}
	// porcupine: counting model (capacity in force, conservation, Observe) over the whole history
	h.opsMu.Lock()
	ops := append([]porcupine.Operation(nil), h.ops...)
	h.opsMu.Unlock()
	res := porcupine.Ok
	if h.violated {
		// the direct oracle has already judged this history; refuting an illegal history can take
		// porcupine exponential time, and it would only repeat the verdict
		w.Count("porcupine_skipped_history_already_violated", 1)
	} else {
		res = porcupine.CheckOperationsTimeout(c29Model(cap0, false), ops, 30*time.Second)
	}
	switch res {
	case porcupine.Ok:
		if !h.violated {
			w.Count("porcupine_ok", 1)
		}
	case porcupine.Illegal:
		if h.violated {
			w.Count("porcupine_illegal_confirms_direct_oracle", 1)
		} else if porcupine.CheckOperationsTimeout(c29Model(cap0, true), ops, 30*time.Second) == porcupine.Ok {
			h.viol(c29KeyLowered, "history is not linearizable w.r.t. the counting model (grant only with active < capacity in force) but is once grants in states with active > capacity (reachable only by lowering the capacity) are tolerated: some call was granted above a lowered capacity", map[string]any{"ops": c29OpsText(ops)})
		} else {
			h.viol(c29KeyPorcupine, "history is not linearizable w.r.t. the counting model (grant only with active < capacity in force; Observe == grants - releases)", map[string]any{"ops": c29OpsText(ops)})
		}
	default:
		r.Inconclusive(fmt.Sprintf("C29 queue: porcupine timed out on history %d/%d (%d ops)", w.Index, idx, len(ops)))
	}
	w.Count("stepped.steps", int64(steps))
	w.Count("stepped.grants_from_queue", int64(h.nGrantQ))
	w.Count("stepped.grants_total", int64(len(h.grants)))
	w.Count("stepped.cancels", int64(h.nCancel))
	w.Count("stepped.capacity_changes", int64(h.nAdj))
	w.Count("stepped.concurrent_steps", int64(h.nConc))
	w.Count("stepped.porcupine_ops", int64(len(ops)))
	w.Count("stepped.porcupine_cancelled_acquires_left_out", int64(h.nPorcSkipped))
	shape := strings.Join(h.shape, ",")
	r.Shape(shape)
	w.Case(h.nGrantQ > 0 && h.nCancel > 0 && h.nAdj > 0, fmt.Sprintf("cap%d;u%d;%s", cap0, nUsers, shape))
	if w.Index == 0 && idx < 2 {
		t := h.trace
		if len(t) > 12 {
			t = t[:12]
		}
		r.Sample(map[string]any{"kind": "stepped", "initial_capacity": cap0, "users": nUsers, "first_steps": t})
	}
}

// ---------------------------------------------------------------- free-running epochs

func c29RunFree(r *verifkit.Run, w *verifkit.Worker, idx int) {
	rnd := w.Rnd
	kinds := []string{"const", "lower", "raise", "mixed"}
	kind := kinds[rnd.IntN(len(kinds))]
	cap0 := int64(1 + rnd.IntN(4))
	if kind == "lower" && cap0 < 2 {
		cap0 = 2 + int64(rnd.IntN(3))
	}
	q := NewQueue(cap0)
	G := 6 + rnd.IntN(14)
	nUsers := 2 + rnd.IntN(4)
	loops := 20 + rnd.IntN(60)
	var held, maxCap, lowTo atomic.Int64 // lowTo > 0 once the lowering has returned
	var grants, releases, cancels, finished, pendingCancels, maxHeld, waitedSeen, everLowered, lowStarted atomic.Int64
	maxCap.Store(cap0)
	type seedT struct{ a, b uint64 }
	seeds := make([]seedT, G)
	for i := range seeds {
		seeds[i] = seedT{rnd.Uint64(), rnd.Uint64()}
	}
	ctlSeed := seedT{rnd.Uint64(), rnd.Uint64()}
	witness := func(extra map[string]any) map[string]any {
		m := map[string]any{"epoch_index": idx, "worker": w.Index, "kind": kind, "initial_capacity": cap0, "goroutines": G, "users": nUsers, "loops": loops}
		for k, v := range extra {
			m[k] = v
		}
		return m
	}
	var wg sync.WaitGroup
	stopCtl := make(chan struct{})
	var ctlWg sync.WaitGroup
	// controller
	ctlWg.Add(1)
	go func() {
		defer ctlWg.Done()
		cr := rand.New(rand.NewPCG(ctlSeed.a, ctlSeed.b))
		spin := func(n int) bool {
			for i := 0; i < n; i++ {
				select {
				case <-stopCtl:
					return false
				default:
				}
				runtime.Gosched()
			}
			return true
		}
		switch kind {
		case "lower":
			if !spin(50 + cr.IntN(2000)) {
				return
			}
			c := int64(1 + cr.IntN(int(cap0-1)))
			lowStarted.Store(1) // classification only: from here on the capacity may already be the lower one
			q.AdjustCapacity(uint64(c))
			lowTo.Store(c) // bound: calls issued after this point started after the lowering had returned
		case "raise":
			c := cap0
			for k := 0; k < 3; k++ {
				if !spin(50 + cr.IntN(1000)) {
					return
				}
				c += int64(1 + cr.IntN(2))
				maxCap.Store(c) // announced before it is in force
				q.AdjustCapacity(uint64(c))
			}
		case "mixed":
			maxCap.Store(6)
			cur := cap0
			for {
				if !spin(20 + cr.IntN(300)) {
					return
				}
				nc := int64(1 + cr.IntN(6))
				if nc < cur {
					everLowered.Store(1)
				}
				cur = nc
				q.AdjustCapacity(uint64(nc))
			}
		}
	}()
	// sampler: snapshots under q.mx
	var samples int64
	ctlWg.Add(1)
	go func() {
		defer ctlWg.Done()
		for {
			select {
			case <-stopCtl:
				return
			default:
			}
			s := c29Snap(q)
			samples++
			if len(s.waiting) > 0 {
				waitedSeen.Store(1)
			}
			if (kind == "const" || kind == "lower") && len(s.waiting) > 0 && s.active < s.cap {
				r.Violation(c29KeyLostWakeup, fmt.Sprintf("free-running (%s): snapshot under the queue mutex shows %d waiting with active %d < capacity %d and no capacity increase in this epoch", kind, len(s.waiting), s.active, s.cap),
					witness(map[string]any{"waiting": len(s.waiting), "active": s.active, "capacity": s.cap}))
			}
			if len(s.waiting) > 0 && s.active == 0 {
				// capacity is never below 1 here: unreachable for a correct queue in every epoch kind
				r.Violation(c29KeyDeadlock, fmt.Sprintf("free-running (%s): snapshot shows %d waiting while nothing is active (capacity %d)", kind, len(s.waiting), s.cap), witness(nil))
			}
			if kind == "const" && s.active > s.cap {
				r.Violation(c29KeyOverCap, fmt.Sprintf("free-running (const): snapshot shows active %d > capacity %d", s.active, s.cap), witness(nil))
			}
			for i := 0; i < 20; i++ {
				runtime.Gosched()
			}
		}
	}()
	for g := 0; g < G; g++ {
		wg.Add(1)
		go func(g int) {
			defer wg.Done()
			defer finished.Add(1)
			gr := rand.New(rand.NewPCG(seeds[g].a, seeds[g].b))
			user := fmt.Sprintf("u%d", g%nUsers)
			for i := 0; i < loops; i++ {
				ctx, cancel := context.WithCancel(context.Background())
				switch p := gr.IntN(10); {
				case p == 0:
					cancel() // already cancelled: may still succeed
				case p < 4:
					n := gr.IntN(60)
					pendingCancels.Add(1)
					go func() {
						for k := 0; k < n; k++ {
							runtime.Gosched()
						}
						cancel()
						pendingCancels.Add(-1)
					}()
				}
				after := lowTo.Load()
				var err error
				if c29Guard(r, "Acquire", func() { err = q.Acquire(ctx, user) }) {
					return
				}
				if err != nil {
					cancels.Add(1)
					cancel()
					continue
				}
				hnow := held.Add(1)
				grants.Add(1)
				for {
					m := maxHeld.Load()
					if hnow <= m || maxHeld.CompareAndSwap(m, hnow) {
						break
					}
				}
				// held <= real active at every instant; bounds per epoch kind (see DESIGN C29 / harness header)
				switch kind {
				case "const":
					if hnow > cap0 {
						r.Violation(c29KeyOverCap, fmt.Sprintf("free-running (const): %d holders after a grant, capacity %d", hnow, cap0), witness(map[string]any{"holders": hnow}))
					}
				case "lower":
					if after > 0 && hnow > after {
						r.Violation(c29KeyLowered, fmt.Sprintf("free-running (lower): Acquire issued after AdjustCapacity(%d) had returned was granted with %d holders", after, hnow),
							witness(map[string]any{"holders": hnow, "lowered_to": after}))
					} else if hnow > cap0 {
						key := c29KeyOverCap
						if lowStarted.Load() > 0 {
							key = c29KeyLowered // more holders than the capacity ever allowed, seen once the lowering call had been issued
						}
						r.Violation(key, fmt.Sprintf("free-running (lower): %d holders, capacity never above %d (lowering issued: %v, returned with %d)", hnow, cap0, lowStarted.Load() > 0, lowTo.Load()), witness(map[string]any{"holders": hnow}))
					}
				default:
					if m2 := maxCap.Load(); hnow > m2 {
						key := c29KeyOverCap
						if everLowered.Load() > 0 {
							key = c29KeyLowered // more holders than any capacity of the epoch, after a decrease of the capacity
						}
						r.Violation(key, fmt.Sprintf("free-running (%s): %d holders, capacity never above %d", kind, hnow, m2), witness(map[string]any{"holders": hnow}))
					}
				}
				for k := gr.IntN(8); k > 0; k-- {
					runtime.Gosched()
				}
				held.Add(-1)
				if c29Guard(r, "Release", func() { q.Release() }) {
					return
				}
				releases.Add(1)
				cancel()
			}
		}(g)
	}
	doneCh := make(chan struct{})
	go func() { wg.Wait(); close(doneCh) }()
	start := time.Now()
	deadlocked := false
wait:
	for {
		select {
		case <-doneCh:
			break wait
		case <-time.After(5 * time.Millisecond):
		}
		// absorbing state: every unfinished goroutine sits in the queue, nothing is held, nobody will cancel
		unfinished := int64(G) - finished.Load()
		if unfinished > 0 && pendingCancels.Load() == 0 && held.Load() == 0 {
			s := c29Snap(q)
			if int64(len(s.waiting)) == unfinished && pendingCancels.Load() == 0 && int64(G)-finished.Load() == unfinished && held.Load() == 0 {
				// confirm once more: nobody is left who could release or cancel, the state cannot change any more
				s2 := c29Snap(q)
				if int64(len(s2.waiting)) == unfinished && s2.active == s.active {
					deadlocked = true
					if s2.active != 0 {
						r.Violation(c29KeyConservation, fmt.Sprintf("free-running (%s): all %d unfinished goroutines are queued and the harness holds nothing, yet active is %d (capacity %d): admissions leaked", kind, unfinished, s2.active, s2.cap), witness(nil))
					} else {
						r.Violation(c29KeyDeadlock, fmt.Sprintf("free-running (%s): all %d unfinished goroutines are queued, active is 0, capacity %d, no cancellation pending", kind, unfinished, s2.cap), witness(nil))
					}
					break wait
				}
			}
		}
		if time.Since(start) > 150*time.Second {
			r.Inconclusive(fmt.Sprintf("C29 queue free-running epoch %d/%d (%s) did not finish in 150 s", w.Index, idx, kind))
			deadlocked = true
			break wait
		}
	}
	close(stopCtl)
	ctlWg.Wait()
	if deadlocked {
		// leave the goroutines behind (they hold only this queue)
		return
	}
	post := c29Snap(q)
	if grants.Load() != releases.Load() || post.active != 0 || len(post.waiting) != 0 || post.users != 0 || post.tree != 0 {
		key := c29KeyResidue
		if post.active != grants.Load()-releases.Load() {
			key = c29KeyConservation
		}
		r.Violation(key, fmt.Sprintf("free-running (%s) at quiescence: grants %d releases %d Observe %d queued %d users %d tree %d", kind, grants.Load(), releases.Load(), post.active, len(post.waiting), post.users, post.tree), witness(nil))
	}
	w.Count("free.epochs."+kind, 1)
	w.Count("free.grants", grants.Load())
	w.Count("free.cancelled_acquires", cancels.Load())
	w.Count("free.snapshots", samples)
	w.Case(cancels.Load() > 0 && waitedSeen.Load() > 0, fmt.Sprintf("free;%s;cap%d;g%d;u%d;l%d;%d", kind, cap0, G, nUsers, loops, seeds[0].a))
	if w.Index == 0 && idx == 0 {
		r.Sample(map[string]any{"kind": "free-running/" + kind, "initial_capacity": cap0, "goroutines": G, "users": nUsers, "loops": loops,
			"grants": grants.Load(), "cancelled": cancels.Load(), "max_holders_seen": maxHeld.Load()})
	}
}

// ---------------------------------------------------------------- fixed schedule (regression of 7-i, judged by the same rules)

func c29RunDirected(r *verifkit.Run, w *verifkit.Worker) {
	// 3 active, 3 users waiting, AdjustCapacity(1), Release(): nobody may be granted until active < 1
	h := &c29Hist{r: r, w: w, q: NewQueue(3), rnd: w.Rnd, idx: -1, cap0: 3}
	for i := 0; i < 3; i++ {
		h.stepAcquire(fmt.Sprintf("h%d", i))
		h.step++
	}
	for i := 0; i < 3; i++ {
		h.stepAcquire(fmt.Sprintf("w%d", i))
		h.step++
	}
	pre := c29Snap(h.q)
	call := h.tick()
	h.q.AdjustCapacity(1)
	h.addOp(c29PIn{kind: "adj", arg: 1}, c29POut{}, call, h.tick(), 0)
	h.lowered = true
	h.logf("AdjustCapacity(1) active %d waiting %d", pre.active, len(pre.waiting))
	h.step++
	for i := 0; i < 3 && !h.aborted; i++ {
		h.markQueued()
		h.stepRelease()
		h.step++
	}
	if !h.aborted {
		h.finish()
	}
	w.Count("directed.runs", 1)
	w.Case(true, "directed;3-active;3-waiting;lower-to-1;release")
}

func TestVerifC29(t *testing.T) {
	r := verifkit.Start(t, "C29", "queue")
	defer r.Finish()
	r.SetRule("stepped histories over the real Queue (initial capacity 0-3, 2-4 users, 25-64 steps drawn from Acquire / Release / cancel / AdjustCapacity / Observe / a group of 2-3 concurrent calls; a step is issued only after the previous call is linked into the queue or has returned and all signalled waiters returned) and free-running epochs (6-19 goroutines, 2-5 users, random cancellation, capacity kept / lowered once / raised / changed at random). Non-trivial stepped history = at least one grant to a queued waiter, one cancellation and one capacity change; non-trivial epoch = at least one cancelled Acquire and waiters seen by the sampler. Distinct = distinct sequence of step kinds and outcomes (stepped) / distinct parameters and seed (epoch).")
	r.Assume("grants are observed when the waiter's goroutine returns; a step is judged only after every waiter whose channel was closed has returned (bounded wait, expiry => inconclusive)")
	nStepped := r.N(2000, 50000)
	nFree := r.N(160, 2400)
	workers := 8
	r.Parallel(1, "directed", func(w *verifkit.Worker) { c29RunDirected(r, w) })
	r.Parallel(workers, "stepped", func(w *verifkit.Worker) {
		for i := 0; i < nStepped/workers; i++ {
			c29RunStepped(r, w, i)
		}
	})
	r.Parallel(4, "free", func(w *verifkit.Worker) {
		for i := 0; i < nFree/4; i++ {
			c29RunFree(r, w, i)
		}
	})
}
