//go:build verif

package sqlite

// C17 children: the test binary re-executes itself (-test.run ^TestVerifC17Child$) in one of
// the roles below, talks to the parent over stdout and is killed by VERIF_CRASH=<hook>:<k>
// (internal/verifhook) or by the parent.

import (
	"context"
	"encoding/binary"
	"fmt"
	"hash/fnv"
	"math/rand/v2"
	"os"
	"strconv"
	"strings"
	"sync"
	"sync/atomic"
	"syscall"
	"testing"
	"time"

	"github.com/VKCOM/statshouse/internal/verifhook"
	binlog2 "github.com/VKCOM/statshouse/internal/vkgo/binlog"
	"github.com/VKCOM/statshouse/internal/vkgo/binlog/fsbinlog"
)

const (
	c17BinlogMagic = uint32(3456)
	c17EvMagic     = uint32(0x0c17e001)
	c17Schema      = "CREATE TABLE IF NOT EXISTS test_db (t TEXT PRIMARY KEY);"
)

var c17NewBinlogMu sync.Mutex

// c17CancelAt: "cancel this request context when execution reaches that verifhook point".  It is
// set by a writer's callback (which runs under the engine's connection mutex) and consumed by the
// hook observer in the same goroutine, so the expiry lands exactly between two steps of Do.
type c17CancelReq struct {
	hook   string
	cancel context.CancelFunc
}

var c17CancelAt atomic.Pointer[c17CancelReq]

var c17DoSteps = []string{"sqlite.do.after_user_fn", "sqlite.do.after_update_offset", "sqlite.do.after_binlog_append"}

var errC17Callback = fmt.Errorf("c17: callback fails on purpose")

func c17Event(s string, cache []byte) []byte {
	cache = append(cache[:0], 0, 0, 0, 0, 0, 0, 0, 0)
	binary.LittleEndian.PutUint32(cache, c17EvMagic)
	binary.LittleEndian.PutUint32(cache[4:], uint32(len(s)))
	return append(cache, s...)
}

// c17Apply is the engine's apply/scan callback: one event = one row.
func c17Apply(scanOnly bool) ApplyEventFunction {
	// VERIF_C17_APPLY_MAX > 0: consume at most that many events per call (the binlog reader then
	// calls again with the rest) so that re-reads advance in small steps
	maxEv := c17Env("VERIF_C17_APPLY_MAX", 0)
	return func(conn Conn, offset int64, b []byte) (int, error) {
		read := 0
		for cnt := 0; len(b) > 0 && (maxEv <= 0 || cnt < maxEv); cnt++ {
			if len(b) < 4 {
				return read, binlog2.ErrorNotEnoughData
			}
			if binary.LittleEndian.Uint32(b) != c17EvMagic {
				return read, binlog2.ErrorUnknownMagic
			}
			if len(b) < 8 {
				return read, binlog2.ErrorNotEnoughData
			}
			n := int(binary.LittleEndian.Uint32(b[4:]))
			if len(b) < 8+n {
				return read, binlog2.ErrorNotEnoughData
			}
			if !scanOnly {
				if _, err := conn.Exec("c17apply", "INSERT INTO test_db(t) VALUES ($t)", BlobString("$t", string(b[8:8+n]))); err != nil {
					return read, fmt.Errorf("c17 apply at %d: %w", offset+int64(read), err)
				}
			}
			sz := fsbinlog.AddPadding(8 + n)
			read += sz
			if sz > len(b) {
				sz = len(b)
			}
			b = b[sz:]
		}
		return read, nil
	}
}

type c17OpenOpt struct {
	dir, db     string
	create      bool
	replica     bool
	readAndExit bool
	mode        DurabilityMode
	chunk       uint32
	commitEvery time.Duration
}

func c17Open(o c17OpenOpt) (*Engine, error) {
	bo := fsbinlog.Options{PrefixPath: o.dir + "/test", Magic: c17BinlogMagic, ReplicaMode: o.replica, ReadAndExit: o.readAndExit, MaxChunkSize: o.chunk}
	if o.create {
		if _, err := fsbinlog.CreateEmptyFsBinlog(bo); err != nil {
			return nil, err
		}
	}
	// NewFsBinlog writes a package-level flag (runSimpleMode); the parent opens engines from
	// several workers of one process, which production never does: serialise that one call
	c17NewBinlogMu.Lock()
	bl, err := fsbinlog.NewFsBinlog(nil, bo)
	c17NewBinlogMu.Unlock()
	if err != nil {
		return nil, err
	}
	return OpenEngine(Options{
		Path: o.dir + "/" + o.db, APPID: 32, Scheme: c17Schema, DurabilityMode: o.mode, Replica: o.replica,
		ReadAndExit: o.readAndExit, CommitEvery: o.commitEvery, CacheMaxSizePerConnect: 1,
	}, bl, c17Apply(false), c17Apply(true))
}

func c17Hash(id string) uint64 {
	h := fnv.New64a()
	h.Write([]byte(id))
	return h.Sum64()
}

// c17ReadTable reads the table inside a Do/View callback: row count and xor of row hashes.
func c17ReadTable(c Conn) (n int, x uint64, err error) {
	rows := c.Query("c17read", "SELECT t FROM test_db")
	for rows.Next() {
		s, _ := rows.ColumnBlobString(0)
		x ^= c17Hash(s)
		n++
	}
	return n, x, rows.Error()
}

func c17Short(id string) string {
	if i := strings.IndexByte(id, '~'); i >= 0 {
		return id[:i]
	}
	return id
}

var c17Alnum = []byte("abcdefghijklmnopqrstuvwxyz0123456789")

func c17Env(k string, d int) int {
	if v, err := strconv.Atoi(os.Getenv(k)); err == nil {
		return v
	}
	return d
}

func TestVerifC17Child(t *testing.T) {
	role := os.Getenv("VERIF_C17_ROLE")
	if role == "" {
		t.Skip("not a child")
	}
	var mu sync.Mutex
	say := func(f string, a ...any) {
		s := fmt.Sprintf(f, a...)
		mu.Lock()
		_, _ = os.Stdout.WriteString(s)
		mu.Unlock()
	}
	dir := os.Getenv("VERIF_C17_DIR")
	mode := WaitCommit
	if os.Getenv("VERIF_C17_MODE") == "nowait" {
		mode = NoWaitCommit
	}
	chunk := uint32(c17Env("VERIF_C17_CHUNK", 0))
	commitEvery := time.Duration(c17Env("VERIF_C17_COMMIT_MS", 20)) * time.Millisecond
	seed := uint64(c17Env("VERIF_C17_SEED", 1))
	round := c17Env("VERIF_C17_ROUND", 0)
	readers := c17Env("VERIF_C17_READERS", 2)

	var marker *os.File
	if p := os.Getenv("VERIF_C17_MARKER"); p != "" {
		marker, _ = os.OpenFile(p, os.O_CREATE|os.O_WRONLY|os.O_APPEND, 0o644)
	}

	switch role {
	case "master":
		var eng atomic.Pointer[Engine]
		closeAtWrite := int64(c17Env("VERIF_C17_CLOSE_AT_WRITE", 0))
		closeNow := make(chan struct{}, 1)
		verifhook.SetObserver(func(name string, n int64) {
			// graceful-close scenario: start Engine.Close when the binlog writer has just finished its
			// k-th write and is about to be held up (VERIF_DELAY), i.e. while later appends pile up
			if closeAtWrite > 0 && name == "fsbinlog.loop.after_write" && n == closeAtWrite {
				select {
				case closeNow <- struct{}{}:
				default:
				}
			}
			if rq := c17CancelAt.Load(); rq != nil && rq.hook == name {
				c17CancelAt.Store(nil)
				rq.cancel()
			}
			// syscall-level clause: at the moment of a SQLite COMMIT the engine position must be
			// covered by an fsync of the binlog (see c17StraceCase)
			if marker != nil && name == "sqlite.commit.before" {
				if e := eng.Load(); e != nil && e.binlog != nil {
					_, _ = marker.WriteString(fmt.Sprintf("B %d\n", e.dbOffset))
				}
			}
		})
		e, err := c17Open(c17OpenOpt{dir: dir, db: "db", create: os.Getenv("VERIF_C17_CREATE") == "1", mode: mode, chunk: chunk, commitEvery: commitEvery})
		if err != nil {
			say("openerr %s\n", strings.ReplaceAll(err.Error(), "\n", " | "))
			return
		}
		eng.Store(e)
		say("ready %d\n", e.dbOffset)
		writers := c17Env("VERIF_C17_WRITERS", 4)
		quota := int64(c17Env("VERIF_C17_QUOTA", 600))
		failPct := c17Env("VERIF_C17_FAILPCT", 10)
		bigPct := c17Env("VERIF_C17_BIGPCT", 5)
		ctxPct := c17Env("VERIF_C17_CTXPCT", 8)
		// graceful shutdown with writers in flight: after that many acks a goroutine calls
		// Engine.Close while the writers go on; the process dies right after Close returned, so the
		// files are what a service leaves behind that exits after Close
		closeAfter := int64(c17Env("VERIF_C17_CLOSE_AFTER", 0))
		var closing atomic.Bool
		closingCh := make(chan struct{})
		closeLag := time.Duration(c17Env("VERIF_C17_CLOSE_LAG_US", 0)) * time.Microsecond
		var closeMu sync.Mutex
		var closeOnce sync.Once
		if closeAfter > 0 || closeAtWrite > 0 {
			go func() {
				<-closeNow
				time.Sleep(closeLag)
				closeMu.Lock() // never released: the other Close path must not run
				closing.Store(true)
				close(closingCh)
				err := e.Close(context.Background())
				say("closed %v\n", err)
				_ = syscall.Kill(os.Getpid(), syscall.SIGKILL)
				select {}
			}()
		}
		var acks atomic.Int64
		stop := make(chan struct{})
		var stopOnce sync.Once
		onAck := func() {
			n := acks.Add(1)
			if closeAfter > 0 && n >= closeAfter {
				closeOnce.Do(func() {
					select {
					case closeNow <- struct{}{}:
					default:
					}
				})
			}
			if n >= quota && closeAfter == 0 && closeAtWrite == 0 {
				stopOnce.Do(func() { close(stop) })
			}
		}
		var wg sync.WaitGroup
		for g := 0; g < writers; g++ {
			wg.Add(1)
			go func(g int) {
				defer wg.Done()
				rng := rand.New(rand.NewPCG(seed, uint64(round)<<8|uint64(g)))
				var cache []byte
				for i := 0; ; i++ {
					select {
					case <-stop:
						return
					default:
					}
					id := fmt.Sprintf("r%03d-g%d-%06d", round, g, i)
					kind := 0 // 0 ok, 1 fail after the INSERT, 2 fail before any SQL, 3 fail after INSERT without a payload
					if rng.IntN(100) < failPct {
						kind = 1 + rng.IntN(3)
						id = "F" + id
					}
					// kind 4: the request context expires somewhere inside Do; the outcome (error or
					// nil) is whatever Do returns
					ctx, cancel := context.Background(), context.CancelFunc(func() {})
					ctxMode := -1
					if kind == 0 && rng.IntN(100) < ctxPct {
						kind = 4
						id = "C" + id
						ctxMode = rng.IntN(6)
						switch ctxMode {
						case 3: // short deadline, may expire before, inside or behind the callback
							ctx, cancel = context.WithTimeout(context.Background(), time.Duration(20+rng.IntN(2500))*time.Microsecond)
						default:
							ctx, cancel = context.WithCancel(context.Background())
						}
					}
					sibling := time.Duration(rng.IntN(1800)) * time.Microsecond
					var myReq *c17CancelReq
					short := id
					if rng.IntN(100) < bigPct {
						fill := make([]byte, 400+rng.IntN(3200))
						for j := range fill {
							fill[j] = c17Alnum[rng.IntN(len(c17Alnum))]
						}
						id = id + "~" + string(fill)
					}
					say("call %s\n", short)
					dbOff, _, err := e.DoWithOffset(ctx, "c17w", func(c Conn, _ []byte) ([]byte, error) {
						if kind == 2 {
							return nil, errC17Callback
						}
						_, err := c.Exec("c17ins", "INSERT INTO test_db(t) VALUES ($t)", BlobString("$t", id))
						if kind == 4 && err == nil {
							switch {
							case ctxMode < 3: // expiry exactly at a step of Do
								myReq = &c17CancelReq{c17DoSteps[ctxMode], cancel}
								c17CancelAt.Store(myReq)
							case ctxMode >= 4: // a sibling goroutine cancels at a PRNG-chosen moment
								go func() {
									time.Sleep(sibling)
									cancel()
								}()
							}
						}
						if kind == 1 {
							return c17Event(id, cache), errC17Callback
						}
						if kind == 3 {
							return nil, errC17Callback
						}
						cache = c17Event(id, cache)
						return cache, err
					})
					if kind == 4 {
						if myReq != nil {
							c17CancelAt.CompareAndSwap(myReq, nil)
						}
						cancel()
					}
					switch {
					case kind != 0 && err != nil:
						say("failed %s\n", short)
					case kind == 4:
						say("ack %s\n", short)
						onAck()
					case kind != 0:
						say("ERR %s failing callback returned nil\n", short)
						return
					case err != nil && closing.Load():
						// the engine is shutting down: refusing is legitimate, but a refused write
						// must leave nothing behind
						say("closefail %s\n", short)
						return
					case err != nil:
						say("ERR %s %s\n", short, strings.ReplaceAll(err.Error(), "\n", " | "))
						stopOnce.Do(func() { close(stop) })
						return
					default:
						if mode == WaitCommit {
							// observation point: when Do returns in wait-for-commit mode the binlog
							// must have reported a commit that covers this write
							if ci, _ := e.committedInfo.Load().(*committedInfo); ci == nil || ci.offset < dbOff {
								var co int64 = -1
								if ci != nil {
									co = ci.offset
								}
								say("EARLYACK %s %d %d\n", short, dbOff, co)
							}
						}
						say("ack %s\n", short)
						onAck()
					}
					if rng.IntN(20) == 0 {
						time.Sleep(time.Duration(rng.IntN(1500)) * time.Microsecond)
					}
				}
			}(g)
		}
		var rg sync.WaitGroup
		for r := 0; r < readers; r++ {
			rg.Add(1)
			go func(r int) {
				defer rg.Done()
				for {
					select {
					case <-closingCh:
						return
					case <-stop:
						return
					default:
					}
					var n int
					var x uint64
					err := e.View(context.Background(), "c17v", func(c Conn) error {
						var err error
						n, x, err = c17ReadTable(c)
						return err
					})
					if err == nil {
						say("view %d %x\n", n, x)
					} else {
						say("viewerr\n")
					}
					time.Sleep(time.Duration(500+r*700) * time.Microsecond)
				}
			}(r)
		}
		if mode == WaitCommit {
			// a read through Do on the RW connection: in wait-for-commit mode it returns only after
			// the writes before it are committed to the binlog
			rg.Add(1)
			go func() {
				defer rg.Done()
				for {
					select {
					case <-closingCh:
						return
					case <-stop:
						return
					default:
					}
					var n int
					var x uint64
					dbOff, _, err := e.DoWithOffset(context.Background(), "c17r", func(c Conn, _ []byte) ([]byte, error) {
						var err error
						n, x, err = c17ReadTable(c)
						return nil, err
					})
					if err == nil {
						if ci, _ := e.committedInfo.Load().(*committedInfo); ci == nil || ci.offset < dbOff {
							say("EARLYREAD %d %d\n", n, dbOff)
						}
						say("doview %d %x\n", n, x)
					}
					time.Sleep(3 * time.Millisecond)
				}
			}()
		}
		wg.Wait()
		closeMu.Lock()
		stopOnce.Do(func() { close(stop) })
		rg.Wait()
		err = e.Close(context.Background())
		say("done %v\n", err)

	case "replica":
		// re-read of an existing binlog into a separate database file
		e, err := c17Open(c17OpenOpt{dir: dir, db: "db2", replica: true, mode: mode, chunk: chunk, commitEvery: commitEvery})
		if err != nil {
			say("openerr %s\n", strings.ReplaceAll(err.Error(), "\n", " | "))
			return
		}
		say("ready 0\n")
		stop := make(chan struct{})
		var rg sync.WaitGroup
		for r := 0; r < readers; r++ {
			rg.Add(1)
			go func() {
				defer rg.Done()
				for {
					select {
					case <-stop:
						return
					default:
					}
					var n int
					var x uint64
					err := e.View(context.Background(), "c17v", func(c Conn) error {
						var err error
						n, x, err = c17ReadTable(c)
						return err
					})
					if err == nil {
						say("view %d %x\n", n, x)
					}
					time.Sleep(700 * time.Microsecond)
				}
			}()
		}
		// a write on a replica must be refused and leave nothing behind
		werr := e.Do(context.Background(), "c17w", func(c Conn, cache []byte) ([]byte, error) {
			_, err := c.Exec("c17ins", "INSERT INTO test_db(t) VALUES ($t)", BlobString("$t", "Freplica-write"))
			return c17Event("Freplica-write", cache), err
		})
		if werr == nil {
			say("ERR replica accepted a write\n")
		} else {
			say("failed Freplica-write\n")
		}
		// wait (bounded, for the harness only) until the re-read has been applied, then report the
		// state as Engine.Do sees it
		expect := c17Env("VERIF_C17_EXPECT", -1)
		dl := time.Now().Add(90 * time.Second)
		iter := 0
		for {
			var n int
			var x uint64
			err := e.Do(context.Background(), "c17r", func(c Conn, _ []byte) ([]byte, error) {
				var err error
				n, x, err = c17ReadTable(c)
				return nil, err
			})
			if iter++; iter%4 == 0 {
				// a Do whose callback fails, concurrent with the re-read
				_ = e.Do(context.Background(), "c17w", func(c Conn, _ []byte) ([]byte, error) { return nil, errC17Callback })
			}
			if err == nil && (n >= expect || time.Now().After(dl)) {
				say("final %d %x\n", n, x)
				break
			}
			if err != nil && time.Now().After(dl) {
				break
			}
			time.Sleep(20 * time.Millisecond)
		}
		close(stop)
		rg.Wait()
		err = e.Close(context.Background())
		say("done %v\n", err)
	}
}
