//go:build verif

package sqlite

// "commit only after binlog commit" on real syscalls: a master child runs under strace; at the
// verifhook point sqlite.commit.before it writes the engine's binlog position to a marker file.
// For every marker the trace must already show an fsync of the binlog file that covers that many
// bytes — this observes the real write/fsync calls, not the Go code next to them.

import (
	"bufio"
	"fmt"
	"math/rand/v2"
	"os"
	osexec "os/exec"
	"path/filepath"
	"regexp"
	"strconv"
	"strings"

	"github.com/VKCOM/statshouse/internal/zzverif/verifkit"
)

var (
	c17ReLine    = regexp.MustCompile(`^(\d+) +(\w+)\((.*)$`)
	c17ReResumed = regexp.MustCompile(`^(\d+) +<\.\.\. (\w+) resumed>(.*)$`)
	c17ReRet     = regexp.MustCompile(`\)\s+= (-?\d+|\?)`)
	c17RePath    = regexp.MustCompile(`^AT_FDCWD, "([^"]*)"`)
)

type c17Sys struct {
	name, args string
	ret        int64
}

func c17ParseStrace(path string) ([]c17Sys, error) {
	f, err := os.Open(path)
	if err != nil {
		return nil, err
	}
	defer f.Close()
	pending := map[string]c17Sys{}
	var out []c17Sys
	sc := bufio.NewScanner(f)
	sc.Buffer(make([]byte, 1<<20), 1<<20)
	finish := func(s c17Sys, tail string) {
		m := c17ReRet.FindStringSubmatch(tail)
		if m == nil || m[1] == "?" {
			return
		}
		s.ret, _ = strconv.ParseInt(m[1], 10, 64)
		out = append(out, s)
	}
	for sc.Scan() {
		line := sc.Text()
		if m := c17ReResumed.FindStringSubmatch(line); m != nil {
			if p, ok := pending[m[1]]; ok && p.name == m[2] {
				delete(pending, m[1])
				finish(p, m[3])
			}
			continue
		}
		m := c17ReLine.FindStringSubmatch(line)
		if m == nil {
			continue
		}
		s := c17Sys{name: m[2], args: m[3]}
		if strings.HasSuffix(line, "<unfinished ...>") {
			s.args = strings.TrimSpace(strings.TrimSuffix(s.args, "<unfinished ...>"))
			pending[m[1]] = s
			continue
		}
		finish(s, m[3])
	}
	return out, sc.Err()
}

func c17StracePart(r *verifkit.Run) {
	if _, err := osexec.LookPath("strace"); err != nil {
		r.Inconclusive("strace not found: the fsync-before-commit clause was not decided on syscalls")
		return
	}
	n := r.N(2, 8)
	base := r.SubSeed("strace")
	r.Parallel(min(n, 4), "strace", func(w *verifkit.Worker) {
		for id := w.Index; id < n; id += min(n, 4) {
			c17StraceCase(r, w, id, rand.New(rand.NewPCG(base, uint64(id))))
		}
	})
}

func c17StraceCase(r *verifkit.Run, w *verifkit.Worker, id int, rnd *rand.Rand) {
	top := c17MkTmp(r, fmt.Sprintf("c17-t%d-", id))
	defer os.RemoveAll(top)
	dir := filepath.Join(top, "e")
	_ = os.MkdirAll(dir, 0o755)
	trace := filepath.Join(top, "trace")
	marker := filepath.Join(top, "c17-marker")
	mode := []string{"wait", "nowait"}[id%2]
	env := []string{"VERIF_C17_MODE=" + mode, "VERIF_C17_CREATE=1", "VERIF_C17_CHUNK=0", fmt.Sprintf("VERIF_C17_COMMIT_MS=%d", []int{3, 15, 60}[rnd.IntN(3)]),
		fmt.Sprintf("VERIF_C17_SEED=%d", rnd.Uint64N(1<<40)), "VERIF_C17_ROUND=0", fmt.Sprintf("VERIF_C17_QUOTA=%d", 150+rnd.IntN(250)),
		"VERIF_C17_WRITERS=3", "VERIF_C17_READERS=1", "VERIF_C17_FAILPCT=10", "VERIF_C17_BIGPCT=5", "VERIF_C17_MARKER=" + marker}
	wrap := []string{"strace", "-f", "--seccomp-bpf", "-e", "trace=openat,write,pwrite64,fsync,fdatasync,close", "-o", trace}
	ch, err := c17RunChild("master", dir, env, 0, wrap)
	wit := map[string]any{"strace_case": id, "mode": mode, "env": env, "how": "strace -f of TestVerifC17Child (master); marker write at verifhook sqlite.commit.before carries Engine.dbOffset"}
	if err != nil || !ch.done {
		msg := fmt.Sprint(err)
		if ch != nil {
			msg = fmt.Sprintf("exit %q openerr %q acks %d", ch.exit, ch.openErr, len(ch.acks))
		}
		r.Inconclusive("strace'd engine child did not finish: " + msg)
		return
	}
	sys, err := c17ParseStrace(trace)
	if err != nil {
		r.Inconclusive("cannot read strace output: " + err.Error())
		return
	}
	blFile := filepath.Join(dir, "test.000000.bin")
	fds := map[int64]string{}
	var written, synced int64
	markers, fsyncs := 0, 0
	for _, s := range sys {
		switch s.name {
		case "openat":
			if m := c17RePath.FindStringSubmatch(s.args); m != nil && s.ret >= 0 {
				fds[s.ret] = m[1]
			}
		case "close":
			fd, _ := strconv.ParseInt(strings.TrimSpace(strings.SplitN(s.args, ")", 2)[0]), 10, 64)
			delete(fds, fd)
		case "write", "pwrite64":
			fd, _ := strconv.ParseInt(strings.TrimSpace(strings.SplitN(s.args, ",", 2)[0]), 10, 64)
			switch fds[fd] {
			case blFile:
				if s.ret > 0 {
					written += s.ret
				}
			case marker:
				i := strings.Index(s.args, `"B `)
				j := strings.Index(s.args, `\n"`)
				if i < 0 || j < i {
					continue
				}
				off, _ := strconv.ParseInt(s.args[i+3:j], 10, 64)
				markers++
				w.Case(off > 44, fmt.Sprintf("fsync/%d/%d", id, off))
				if off > synced {
					r.Violation("C17/commit/before-binlog-fsync", fmt.Sprintf("SQLite COMMIT started with engine position %d while only %d bytes of the binlog had been fsync'ed (%d written) — real syscalls", off, synced, written),
						c17Merge(wit, map[string]any{"engine_offset": off, "synced": synced, "written": written}))
				}
			}
		case "fsync", "fdatasync":
			fd, _ := strconv.ParseInt(strings.TrimSpace(strings.SplitN(s.args, ")", 2)[0]), 10, 64)
			if fds[fd] == blFile && s.ret == 0 {
				synced = written
				fsyncs++
			}
		}
	}
	w.Count("strace.children", 1)
	w.Count("strace.commit_markers", int64(markers))
	w.Count("strace.binlog_fsyncs", int64(fsyncs))
	if st, err := os.Stat(blFile); err != nil || st.Size() != written {
		r.Inconclusive(fmt.Sprintf("strace bookkeeping: binlog has %v bytes, the trace accounts for %d", st, written))
		return
	}
	if markers == 0 {
		r.Inconclusive("strace case: no commit marker seen")
	}
}
