//go:build verif

package sqlite

import (
	"context"
	"encoding/binary"
	"fmt"
	"io"
	"os"
	"path/filepath"
	"runtime/debug"
	"sort"
	"strings"

	binlog2 "github.com/VKCOM/statshouse/internal/vkgo/binlog"
	"github.com/VKCOM/statshouse/internal/vkgo/binlog/fsbinlog"
)

// ---------------------------------------------------------------------------------------------
// decoder of the binlog that does not involve the sqlite engine: a recording binlog.Engine
// behind the fsbinlog reader

type c17Ev struct {
	Off int64
	ID  string
}

func (e c17Ev) end() int64 { return e.Off + int64(fsbinlog.AddPadding(8+len(e.ID))) }

type c17Binlog struct {
	evs    []c17Ev
	bounds map[int64]bool // positions at which the engine may stand: 0, ends of events, ends of service records
	off    int64
	prefix []uint64 // prefix[k] = xor of hashes of the first k events
}

func (b *c17Binlog) Apply(p []byte) (int64, error) {
	if len(p) < 4 {
		return b.off, binlog2.ErrorNotEnoughData
	}
	if binary.LittleEndian.Uint32(p) != c17EvMagic {
		return b.off, binlog2.ErrorUnknownMagic
	}
	if len(p) < 8 {
		return b.off, binlog2.ErrorNotEnoughData
	}
	n := int(binary.LittleEndian.Uint32(p[4:]))
	if len(p) < 8+n {
		return b.off, binlog2.ErrorNotEnoughData
	}
	b.evs = append(b.evs, c17Ev{b.off, string(p[8 : 8+n])})
	b.off += int64(fsbinlog.AddPadding(8 + n))
	b.bounds[b.off] = true
	return b.off, nil
}
func (b *c17Binlog) Skip(n int64) (int64, error) {
	b.off += n
	b.bounds[b.off] = true
	return b.off, nil
}
func (b *c17Binlog) Commit(int64, []byte, int64) error       { return nil }
func (b *c17Binlog) Revert(int64) (bool, error)              { return false, nil }
func (b *c17Binlog) ChangeRole(binlog2.ChangeRoleInfo) error { return nil }
func (b *c17Binlog) StartReindex(binlog2.ReindexOperator)    {}
func (b *c17Binlog) Split(int64, string) bool                { return false }
func (b *c17Binlog) Shutdown()                               {}

func c17ReadBinlog(dir string) (bl *c17Binlog, err error) {
	bl = &c17Binlog{bounds: map[int64]bool{0: true}}
	defer func() {
		if p := recover(); p != nil {
			err = fmt.Errorf("PANIC %v\n%s", p, string(debug.Stack()))
		}
	}()
	c17NewBinlogMu.Lock()
	rd, _ := fsbinlog.NewFsBinlog(nil, fsbinlog.Options{PrefixPath: dir + "/test", Magic: c17BinlogMagic, ReadAndExit: true})
	c17NewBinlogMu.Unlock()
	err = rd.Run(0, nil, nil, bl)
	bl.prefix = make([]uint64, len(bl.evs)+1)
	for i, e := range bl.evs {
		bl.prefix[i+1] = bl.prefix[i] ^ c17Hash(e.ID)
	}
	return bl, err
}

// c17InterruptedRotation recognises the on-disk state of a kill inside fsbinlog's rotate
// (DESIGN 7-p/7-r, property C18): a chunk shorter than or equal to its 36-byte header.
func c17InterruptedRotation(dir string) bool {
	fs, _ := filepath.Glob(filepath.Join(dir, "test.*.bin"))
	sort.Strings(fs)
	for i, f := range fs {
		if i == 0 {
			continue
		}
		if st, err := os.Stat(f); err == nil && st.Size() <= 36 {
			return true
		}
	}
	return false
}

func c17CopyFiles(src, dst string, pick func(name string) bool) error {
	if err := os.MkdirAll(dst, 0o755); err != nil {
		return err
	}
	ents, err := os.ReadDir(src)
	if err != nil {
		return err
	}
	for _, en := range ents {
		if en.IsDir() || !pick(en.Name()) {
			continue
		}
		in, err := os.Open(filepath.Join(src, en.Name()))
		if err != nil {
			return err
		}
		out, err := os.OpenFile(filepath.Join(dst, en.Name()), os.O_CREATE|os.O_WRONLY|os.O_TRUNC, 0o644)
		if err != nil {
			in.Close()
			return err
		}
		_, err = io.Copy(out, in)
		in.Close()
		out.Close()
		if err != nil {
			return err
		}
	}
	return nil
}

type c17State struct {
	rows   map[string]bool
	n      int
	offset int64
}

// c17ReadState reads table and stored offset through Engine.Do on the read-write connection.
func c17ReadState(e *Engine) (*c17State, error) {
	st := &c17State{rows: map[string]bool{}}
	err := e.Do(context.Background(), "c17state", func(c Conn, _ []byte) ([]byte, error) {
		rows := c.Query("c17all", "SELECT t FROM test_db")
		for rows.Next() {
			s, _ := rows.ColumnBlobString(0)
			st.rows[s] = true
			st.n++
		}
		if rows.Error() != nil {
			return nil, rows.Error()
		}
		r2 := c.Query("c17off", "SELECT offset FROM __binlog_offset")
		for r2.Next() {
			st.offset, _ = r2.ColumnInt64(0)
		}
		return nil, r2.Error()
	})
	return st, err
}

// c17PreState opens a copy of the database files without any binlog (SQLite rolls a hot journal
// back) and reads what the database holds by itself.
func c17PreState(dir, db, scratch string) (*c17State, error) {
	if err := c17CopyFiles(dir, scratch, func(n string) bool { return n == db || strings.HasPrefix(n, db+"-") }); err != nil {
		return nil, err
	}
	e, err := OpenEngine(Options{Path: scratch + "/" + db, APPID: 32, Scheme: c17Schema, DurabilityMode: NoBinlog, CacheMaxSizePerConnect: 1}, nil, nil, nil)
	if err != nil {
		return nil, err
	}
	st, err := c17ReadState(e)
	_ = e.Close(context.Background())
	return st, err
}

func c17SetDiff(rows map[string]bool, want []c17Ev) string {
	ws := map[string]bool{}
	for _, e := range want {
		ws[e.ID] = true
	}
	var extra, missing []string
	for r := range rows {
		if !ws[r] {
			extra = append(extra, c17Short(r))
		}
	}
	for w := range ws {
		if !rows[w] {
			missing = append(missing, c17Short(w))
		}
	}
	sort.Strings(extra)
	sort.Strings(missing)
	if len(extra) > 5 {
		extra = append(extra[:5], fmt.Sprintf("...+%d", len(extra)-5))
	}
	if len(missing) > 5 {
		missing = append(missing[:5], fmt.Sprintf("...+%d", len(missing)-5))
	}
	return fmt.Sprintf("table has %d rows, expected %d; rows without event: %v; events without row: %v", len(rows), len(ws), extra, missing)
}

func c17ErrClass(err error) string {
	if err == nil {
		return "nil"
	}
	s := err.Error()
	switch {
	case strings.HasPrefix(s, "PANIC"):
		return "panic"
	case strings.Contains(s, "not equal file size"):
		return "torn_tail_refused"
	case strings.Contains(s, "crc32 mismatch"):
		return "crc32_mismatch"
	case strings.Contains(s, "failed to scan directory"):
		return "scan_failed"
	case strings.Contains(s, "Engine.Skip return new position"):
		return "skip_position"
	case strings.Contains(s, "UNIQUE constraint") || strings.Contains(s, "constraint failed"):
		return "duplicate_row"
	case strings.Contains(s, "apply lev: new position"):
		return "apply_position"
	}
	f := strings.Fields(s)
	if len(f) > 3 {
		f = f[:3]
	}
	return "other:" + strings.Join(f, "_")
}
