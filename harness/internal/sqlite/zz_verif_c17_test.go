//go:build verif

package sqlite

// C17 — the binlog-backed SQLite engine stays consistent with its binlog across crashes.
//
// The parent runs sequences: one directory, several rounds of (start a child engine process,
// let it run concurrent writers / failing callbacks / View readers, kill it at a verifhook point
// or at a random instant, judge the files).  Judging never trusts the child: the binlog is decoded
// by a recording binlog.Engine, the database is read through Engine.Do on copies.
//
// split: zz_verif_c17_child_test.go (child roles), zz_verif_c17_oracle_test.go (decoder, state
// readers), zz_verif_c17_strace_test.go (fsync-before-commit on real syscalls).

import (
	"bufio"
	"context"
	"fmt"
	"io"
	"log"
	"math/rand/v2"
	"os"
	osexec "os/exec"
	"path/filepath"
	"strconv"
	"strings"
	"testing"

	"github.com/VKCOM/statshouse/internal/zzverif/verifkit"
)

type c17View struct {
	N int
	X uint64
}

type c17Child struct {
	ready      bool
	openErr    string
	calls      []string
	acks       []string
	failed     []string
	views      []c17View
	doviews    []c17View
	final      *c17View
	errs       []string
	earlyAck   []string
	earlyRead  []string
	closeFail  []string
	closed     bool
	closedErr  string
	done       bool
	doneErr    string
	killedByUs bool
	exit       string
}

func c17RunChild(role, dir string, env []string, killAfterAcks int, wrap []string) (*c17Child, error) {
	self := os.Getenv("VERIF_SELF")
	if self == "" {
		self = os.Args[0]
	}
	args := append(append([]string(nil), wrap...), self, "-test.run", "^TestVerifC17Child$", "-test.v", "-test.timeout", "0")
	cmd := osexec.Command(args[0], args[1:]...)
	cmd.Env = append(os.Environ(), "VERIF_C17_ROLE="+role, "VERIF_C17_DIR="+dir)
	cmd.Env = append(cmd.Env, env...)
	cmd.Dir, _ = os.Getwd()
	pipe, err := cmd.StdoutPipe()
	if err != nil {
		return nil, err
	}
	if err := cmd.Start(); err != nil {
		return nil, err
	}
	out := &c17Child{}
	sc := bufio.NewScanner(pipe)
	sc.Buffer(make([]byte, 1<<20), 1<<20)
	view := func(f []string) (c17View, bool) {
		if len(f) != 3 {
			return c17View{}, false
		}
		n, err1 := strconv.Atoi(f[1])
		x, err2 := strconv.ParseUint(f[2], 16, 64)
		return c17View{n, x}, err1 == nil && err2 == nil
	}
	for sc.Scan() {
		f := strings.Fields(sc.Text())
		if len(f) == 0 {
			continue
		}
		switch f[0] {
		case "ready":
			out.ready = true
		case "openerr":
			out.openErr = strings.Join(f[1:], " ")
		case "call":
			if len(f) == 2 {
				out.calls = append(out.calls, f[1])
			}
		case "ack":
			if len(f) == 2 {
				out.acks = append(out.acks, f[1])
				if killAfterAcks > 0 && len(out.acks) == killAfterAcks && !out.killedByUs {
					out.killedByUs = true
					_ = cmd.Process.Kill()
				}
			}
		case "failed":
			if len(f) == 2 {
				out.failed = append(out.failed, f[1])
			}
		case "view":
			if v, ok := view(f); ok {
				out.views = append(out.views, v)
			}
		case "doview":
			if v, ok := view(f); ok {
				out.doviews = append(out.doviews, v)
			}
		case "final":
			if v, ok := view(f); ok {
				out.final = &v
			}
		case "ERR":
			out.errs = append(out.errs, strings.Join(f[1:], " "))
		case "closefail":
			if len(f) == 2 {
				out.closeFail = append(out.closeFail, f[1])
			}
		case "closed":
			out.closed = true
			out.closedErr = strings.Join(f[1:], " ")
		case "EARLYACK":
			out.earlyAck = append(out.earlyAck, strings.Join(f[1:], " "))
		case "EARLYREAD":
			out.earlyRead = append(out.earlyRead, strings.Join(f[1:], " "))
		case "done":
			out.done = true
			out.doneErr = strings.Join(f[1:], " ")
		}
	}
	if werr := cmd.Wait(); werr != nil {
		out.exit = werr.Error()
	}
	return out, nil
}

type c17Ctx struct {
	r    *verifkit.Run
	w    *verifkit.Worker
	unit string
}

func c17MkTmp(r *verifkit.Run, pfx string) string {
	// relative to the working directory (= scratch root): fsbinlog's chunk naming panics when a
	// directory on the prefix path has a dot in its name (".build")
	return filepath.Base(r.MkTmp(pfx))
}

type c17Hook struct {
	name string
	kmax int
}

var c17DoHooks = []c17Hook{
	{"sqlite.do.after_user_fn", 500}, {"sqlite.do.after_update_offset", 400}, {"sqlite.do.after_binlog_append", 400},
	{"sqlite.commit.before", 10}, {"sqlite.commit.after", 10},
	{"fsbinlog.loop.after_write", 80}, {"fsbinlog.loop.after_fsync", 80}, {"fsbinlog.loop.before_engine_commit", 80},
}
var c17RereadHooks = []c17Hook{{"sqlite.replica.after_apply", 0}, {"sqlite.replica.after_update_offset", 0}}
var c17RotateHooks = []c17Hook{{"fsbinlog.rotate.after_create_new", 2}, {"fsbinlog.rotate.before_rotate_to", 2}, {"fsbinlog.rotate.after_rotate_to", 2}}

type c17Seq struct {
	id       int
	dir      string
	mode     string
	chunk    int
	commitMs int
	seed     uint64
	acked    map[string]bool
	failed   map[string]bool
	failedDo map[string]bool // ids whose Do returned an error because the request context expired
	behind   int             // events in the binlog behind the database offset after the last kill
	history  []string
}

func (s *c17Seq) witness(extra map[string]any) map[string]any {
	w := map[string]any{"sequence": s.id, "mode": s.mode, "chunk": s.chunk, "commit_every_ms": s.commitMs, "child_seed": s.seed, "rounds_so_far": s.history,
		"how": "children = TestVerifC17Child with the listed env; VERIF_CRASH kills inside the named verifhook point"}
	for k, v := range extra {
		w[k] = v
	}
	return w
}

// one sequence = one directory
func (c *c17Ctx) c17Sequence(id int, rnd *rand.Rand, rounds, replicaRounds int) {
	r := c.r
	s := &c17Seq{id: id, dir: c17MkTmp(r, fmt.Sprintf("c17-q%d-", id)), mode: "wait", seed: rnd.Uint64N(1 << 40), acked: map[string]bool{}, failed: map[string]bool{}, failedDo: map[string]bool{}}
	defer os.RemoveAll(s.dir)
	if id%2 == 1 {
		s.mode = "nowait"
	}
	if rnd.IntN(3) == 0 {
		// rotation inside C17 runs; below 28 000 so that C18's first-chunk-hash panic cannot trigger
		s.chunk = 3000 + rnd.IntN(22000)
	}
	s.commitMs = []int{3, 10, 30, 120}[rnd.IntN(4)]
	alive := true
	for round := 0; round < rounds && alive; round++ {
		alive = c.c17MasterRound(s, round, rnd)
	}
	if !alive {
		return
	}
	for round := 0; round < replicaRounds && alive; round++ {
		alive = c.c17ReplicaRound(s, round, rnd, round == replicaRounds-1)
	}
}

func (c *c17Ctx) c17MasterRound(s *c17Seq, round int, rnd *rand.Rand) bool {
	r := c.r
	quota := 120 + rnd.IntN(500)
	env := []string{
		"VERIF_C17_MODE=" + s.mode, fmt.Sprintf("VERIF_C17_CHUNK=%d", s.chunk), fmt.Sprintf("VERIF_C17_COMMIT_MS=%d", s.commitMs),
		fmt.Sprintf("VERIF_C17_SEED=%d", s.seed), fmt.Sprintf("VERIF_C17_ROUND=%d", round), fmt.Sprintf("VERIF_C17_QUOTA=%d", quota),
		fmt.Sprintf("VERIF_C17_WRITERS=%d", 2+rnd.IntN(4)), fmt.Sprintf("VERIF_C17_READERS=%d", 1+rnd.IntN(2)),
		fmt.Sprintf("VERIF_C17_FAILPCT=%d", 5+rnd.IntN(15)), fmt.Sprintf("VERIF_C17_BIGPCT=%d", rnd.IntN(12)),
	}
	applyMax := []int{0, 1, 3, 10}[rnd.IntN(4)]
	env = append(env, fmt.Sprintf("VERIF_C17_APPLY_MAX=%d", applyMax), fmt.Sprintf("VERIF_C17_CTXPCT=%d", []int{0, 5, 10, 25}[rnd.IntN(4)]))
	if round == 0 {
		env = append(env, "VERIF_C17_CREATE=1")
	}
	kill, killAfter := "", 0
	pick := rnd.IntN(10)
	graceful := rnd.IntN(5) == 0
	switch {
	case graceful:
		// graceful Engine.Close at a PRNG-chosen moment with writers in flight and a slowed-down
		// binlog writer; the child dies right after Close returned
		kill = "graceful_close"
		trig := fmt.Sprintf("VERIF_C17_CLOSE_AT_WRITE=%d", 2+rnd.IntN(5))
		if rnd.IntN(4) == 0 {
			trig = fmt.Sprintf("VERIF_C17_CLOSE_AFTER=%d", 1+rnd.IntN(20))
		}
		env = append(env, trig, fmt.Sprintf("VERIF_C17_CLOSE_LAG_US=%d", rnd.IntN(4000)),
			fmt.Sprintf("VERIF_DELAY=fsbinlog.loop.after_write:%d,fsbinlog.loop.after_fsync:%d,fsbinlog.loop.before_engine_commit:%d,sqlite.do.after_binlog_append:%d", 80000+rnd.IntN(170000), 5000+rnd.IntN(55000), 5000+rnd.IntN(55000), 300+rnd.IntN(1500)),
			// the periodic COMMIT of wait mode holds the connection mutex while it waits for the binlog;
			// with a slowed-down binlog it would serialise everything, so it is made rare here
			"VERIF_C17_COMMIT_MS=5000")
	case pick < 2:
		killAfter = 1 + rnd.IntN(quota)
		kill = "random_instant"
	case pick < 4 && s.behind > 0:
		h := c17RereadHooks[rnd.IntN(len(c17RereadHooks))]
		kill = h.name
		kmax := 2
		if applyMax > 0 {
			kmax = max(1, s.behind/applyMax)
		}
		env = append(env, fmt.Sprintf("VERIF_CRASH=%s:%d", h.name, 1+rnd.IntN(kmax)))
	case pick < 5 && s.chunk > 0:
		h := c17RotateHooks[rnd.IntN(len(c17RotateHooks))]
		kill = h.name
		env = append(env, fmt.Sprintf("VERIF_CRASH=%s:%d", h.name, 1+rnd.IntN(h.kmax)))
	default:
		h := c17DoHooks[rnd.IntN(len(c17DoHooks))]
		kill = h.name
		env = append(env, fmt.Sprintf("VERIF_CRASH=%s:%d", h.name, 1+rnd.IntN(h.kmax)))
	}
	wid := rnd.IntN(6)
	if graceful {
		wid = -1
	}
	switch wid {
	case 0:
		// schedule widening: keep appended bytes longer in the writer's buffer / stretch the commit
		env = append(env, fmt.Sprintf("VERIF_DELAY=fsbinlog.loop.after_write:%d,sqlite.commit.before:%d", 300+rnd.IntN(3000), rnd.IntN(2000)))
	case 1, 2:
		// stretch the steps inside Do so that deadlines / sibling cancels land between them
		env = append(env, fmt.Sprintf("VERIF_DELAY=sqlite.do.after_user_fn:%d,sqlite.do.after_update_offset:%d,sqlite.do.after_binlog_append:%d", 100+rnd.IntN(700), 100+rnd.IntN(700), 100+rnd.IntN(700)))
	}
	ch, err := c17RunChild("master", s.dir, env, killAfter, nil)
	if err != nil {
		r.Inconclusive("cannot start child: " + err.Error())
		return false
	}
	s.history = append(s.history, fmt.Sprintf("master round %d kill=%s env=%v acks=%d done=%v", round, kill, env[len(env)-min(2, len(env)):], len(ch.acks), ch.done))
	wit := s.witness(map[string]any{"round": round, "kill": kill, "kill_after_acks": killAfter, "env": env, "acks": len(ch.acks), "calls": len(ch.calls), "failed": len(ch.failed), "views": len(ch.views), "exit": ch.exit})
	for _, e := range ch.errs {
		c.w.Count("child.do_errors", 1)
		// a writer with a live context and a well-behaved callback got an error from Do
		switch {
		case strings.Contains(e, "failing callback returned nil"):
		case strings.Contains(e, "append get wrong offset"):
			r.Violation("C17/do/refused-offset-mismatch", "the engine refuses later writes: the binlog is ahead of the engine position (a write that was reported as failed had been appended): "+e, c17Merge(wit, map[string]any{"line": e}))
		default:
			r.Violation("C17/do/unexpected-error", "Do with a live context and a succeeding callback returned an error: "+e, c17Merge(wit, map[string]any{"line": e}))
		}
		if strings.Contains(e, "failing callback returned nil") {
			r.Violation("C17/failed-callback/error-swallowed", "Do returned nil although the callback returned an error", c17Merge(wit, map[string]any{"line": e}))
		}
	}
	if len(ch.earlyAck) > 0 {
		r.Violation("C17/ack/before-binlog-commit", fmt.Sprintf("wait-for-commit mode: Do returned for a write (id, engine offset after it, last committed binlog offset): %s — %d such returns in this child", ch.earlyAck[0], len(ch.earlyAck)), wit)
	}
	if len(ch.earlyRead) > 0 {
		r.Violation("C17/doread/before-binlog-commit", fmt.Sprintf("wait-for-commit mode: a read through Do returned (rows, engine offset) %s while the binlog had not committed that offset — %d such reads", ch.earlyRead[0], len(ch.earlyRead)), wit)
	}
	c.w.Count("acks_observed", int64(len(ch.acks)))
	for _, id := range ch.acks {
		if s.mode == "wait" {
			s.acked[id] = true
		}
	}
	for _, id := range ch.failed {
		if strings.HasPrefix(id, "C") {
			s.failedDo[id] = true
			c.w.Count("ctx_expired_do_failed", 1)
		} else {
			s.failed[id] = true
		}
	}
	for _, id := range ch.closeFail {
		s.failedDo[id] = true
		c.w.Count("graceful_close.writes_refused", 1)
	}
	if ch.closed {
		c.w.Count("graceful_close.children", 1)
		c.w.Count("graceful_close.mode_"+s.mode, 1)
		c.w.Count("graceful_close.writes_in_flight_or_refused", int64(len(ch.calls)-len(ch.acks)-len(ch.failed)))
		if ch.closedErr != "<nil>" {
			c.w.Count("graceful_close.close_error", 1)
		}
	}
	for _, id := range ch.acks {
		if strings.HasPrefix(id, "C") {
			c.w.Count("ctx_expired_do_succeeded", 1)
		}
	}
	for _, id := range ch.calls {
		if strings.HasPrefix(id, "F") {
			s.failed[id] = true // a callback that was going to fail, even if the kill came first
		}
	}
	killed := !ch.done && ch.openErr == ""
	if killed {
		c.w.Count("kills", 1)
		c.w.Count("crash_points_hit."+kill, 1)
	} else if ch.done {
		c.w.Count("child_finished_before_kill_point", 1)
		if ch.doneErr != "<nil>" {
			c.w.Count("child.close_error", 1)
		}
	}
	return c.c17Judge(s, ch, "db", kill, killed, wit, s.mode == "wait")
}

func c17Merge(a, b map[string]any) map[string]any {
	o := map[string]any{}
	for k, v := range a {
		o[k] = v
	}
	for k, v := range b {
		o[k] = v
	}
	return o
}

// c17Judge decides one (directory state, child transcript).  Returns false when the sequence
// cannot go on with this directory.
func (c *c17Ctx) c17Judge(s *c17Seq, ch *c17Child, db, kill string, killed bool, wit map[string]any, ackDurable bool) bool {
	r := c.r
	// (0) the engine's own restart refused?
	if ch.openErr != "" {
		cl := c17ErrClass(fmt.Errorf("%s", ch.openErr))
		switch {
		case s.chunk > 0 && c17InterruptedRotation(s.dir):
			r.NotJudged("interrupted_rotation", 1)
			return false
		case cl == "torn_tail_refused":
			c.w.Count("restart_refused_torn_tail", 1)
			// fail-safe: judged below through a read-only reopen, then the directory is given up
		default:
			r.Violation("C17/restart/"+cl, "the engine could not be restarted after a kill: "+ch.openErr, wit)
			return false
		}
	}
	// (1) the durable binlog
	bl, berr := c17ReadBinlog(s.dir)
	if berr != nil {
		if s.chunk > 0 && c17InterruptedRotation(s.dir) {
			r.NotJudged("interrupted_rotation", 1)
			return false
		}
		r.Violation("C17/binlog/unreadable-"+c17ErrClass(berr), "binlog unreadable after a kill: "+berr.Error(), wit)
		return false
	}
	ents, _ := os.ReadDir(s.dir)
	for _, en := range ents {
		if strings.HasPrefix(en.Name(), db+"-") {
			c.w.Count("hot_file."+strings.TrimPrefix(en.Name(), db), 1)
		}
	}
	// (2) what the database holds by itself, before any replay
	scratch := c17MkTmp(r, fmt.Sprintf("c17-p%d-", s.id))
	defer os.RemoveAll(scratch)
	pre, err := c17PreState(s.dir, db, scratch+"/pre")
	if err != nil {
		r.Violation("C17/state/unreadable", "database copy cannot be opened/read after a kill: "+err.Error(), wit)
		return false
	}
	nontrivial := killed && len(bl.evs) > 0
	c.w.Case(nontrivial, fmt.Sprintf("%s/%d/%s/%s/%d", db, s.id, s.mode, kill, len(s.history)))
	ok := true
	w2 := c17Merge(wit, map[string]any{"db": db, "stored_offset": pre.offset, "binlog_end": bl.off, "binlog_events": len(bl.evs), "rows": pre.n})
	switch {
	case pre.offset > bl.off:
		r.Violation("C17/offset/beyond-binlog", fmt.Sprintf("stored __binlog_offset %d lies beyond the end of the durable binlog %d", pre.offset, bl.off), w2)
		ok = false
	case !bl.bounds[pre.offset]:
		r.Violation("C17/offset/not-at-record-end", fmt.Sprintf("stored __binlog_offset %d is not the end of a binlog record", pre.offset), w2)
		ok = false
	}
	k := 0
	for k < len(bl.evs) && bl.evs[k].Off < pre.offset {
		k++
	}
	if ok {
		same := pre.n == k
		if same {
			for _, e := range bl.evs[:k] {
				if !pre.rows[e.ID] {
					same = false
					break
				}
			}
		}
		if !same {
			r.Violation("C17/state/not-binlog-prefix", fmt.Sprintf("before replay the table is not the application of the binlog prefix ending at the stored offset %d: %s", pre.offset, c17SetDiff(pre.rows, bl.evs[:k])), w2)
			ok = false
		}
	}
	if db == "db" {
		s.behind = len(bl.evs) - k
	}
	if pre.offset < bl.off {
		c.w.Count("db_behind_binlog", 1)
	}
	if ch.closed && pre.offset == bl.off {
		c.w.Count("graceful_close.offset_at_binlog_end", 1)
	} else if ch.closed && pre.offset < bl.off {
		// counted, not judged: a Do that slipped in between the final COMMIT and the connection
		// close leaves its event in the binlog and its row uncommitted (replayed at the next start)
		c.w.Count("graceful_close.db_behind_binlog", 1)
	}
	for id := range pre.rows {
		if s.failed[c17Short(id)] {
			r.Violation("C17/failed-callback/row-present", "a row written by a callback that returned an error is in the database: "+c17Short(id), w2)
			ok = false
			break
		}
	}
	for id := range pre.rows {
		if s.failedDo[c17Short(id)] {
			r.Violation("C17/failed-do/row-present", "a row of a write whose Do returned an error (request context expired or engine shutting down) is in the database: "+c17Short(id), w2)
			ok = false
			break
		}
	}
	for _, e := range bl.evs {
		if s.failedDo[c17Short(e.ID)] {
			r.Violation("C17/failed-do/in-binlog", "the binlog holds the event of a write whose Do returned an error (request context expired or engine shutting down): it is replayed after a restart: "+c17Short(e.ID), w2)
			ok = false
			break
		}
	}
	for _, e := range bl.evs {
		if s.failed[c17Short(e.ID)] {
			r.Violation("C17/failed-callback/in-binlog", "an event of a callback that returned an error is in the binlog: "+c17Short(e.ID), w2)
			ok = false
			break
		}
	}
	// (3) readers: every View result is the application of a prefix of the durable binlog
	for _, v := range ch.views {
		c.w.Count("views_judged", 1)
		if v.N > len(bl.evs) || bl.prefix[v.N] != v.X {
			r.Violation("C17/view/not-a-durable-prefix", fmt.Sprintf("a View saw %d rows (xor %x) which is not the application of the first %d events of the durable binlog (%d events)", v.N, v.X, v.N, len(bl.evs)), w2)
			ok = false
			break
		}
	}
	if ackDurable {
		for _, v := range ch.doviews {
			c.w.Count("do_reads_judged", 1)
			if v.N > len(bl.evs) || bl.prefix[v.N] != v.X {
				r.Violation("C17/doread/not-durable", fmt.Sprintf("wait-for-commit mode: a read through Do returned %d rows (xor %x), not a prefix of the durable binlog (%d events)", v.N, v.X, len(bl.evs)), w2)
				ok = false
				break
			}
		}
	}
	if db != "db" {
		return ok
	}
	// (4) the engine's own replay, on a copy of the whole directory
	if err := c17CopyFiles(s.dir, scratch+"/re", func(string) bool { return true }); err != nil {
		r.Inconclusive("copy: " + err.Error())
		return false
	}
	refused := false
	e, err := c17Open(c17OpenOpt{dir: scratch + "/re", db: "db", mode: WaitCommit, chunk: uint32(s.chunk)})
	if err != nil && c17ErrClass(err) == "torn_tail_refused" {
		// the writer refuses to continue after a torn tail (fail-safe); consistency is judged
		// through a read-only replay instead
		refused = true
		if ch.openErr == "" {
			c.w.Count("restart_refused_torn_tail", 1)
		}
		_ = os.RemoveAll(scratch + "/re")
		if err := c17CopyFiles(s.dir, scratch+"/re", func(string) bool { return true }); err != nil {
			r.Inconclusive("copy: " + err.Error())
			return false
		}
		e, err = c17Open(c17OpenOpt{dir: scratch + "/re", db: "db", readAndExit: true, mode: WaitCommit, chunk: uint32(s.chunk)})
	}
	if err != nil {
		r.Violation("C17/restart/"+c17ErrClass(err), "the engine cannot replay its binlog after a kill: "+err.Error(), w2)
		return false
	}
	post, err := c17ReadState(e)
	_ = e.Close(context.Background())
	if err != nil {
		r.Violation("C17/state/unreadable-after-replay", "state cannot be read after the replay: "+err.Error(), w2)
		return false
	}
	w3 := c17Merge(w2, map[string]any{"rows_after_replay": post.n, "offset_after_replay": post.offset, "read_only_fallback": refused})
	same := post.n == len(bl.evs)
	if same {
		for _, ev := range bl.evs {
			if !post.rows[ev.ID] {
				same = false
				break
			}
		}
	}
	if !same {
		r.Violation("C17/replay/state-differs", "after restart the table is not the application of every event of the durable binlog: "+c17SetDiff(post.rows, bl.evs), w3)
		ok = false
	}
	if post.offset != bl.off {
		r.Violation("C17/replay/offset-not-at-end", fmt.Sprintf("after restart the stored offset is %d, the durable binlog ends at %d", post.offset, bl.off), w3)
		ok = false
	}
	lost := 0
	short := map[string]bool{}
	for id := range post.rows {
		short[c17Short(id)] = true
	}
	for id := range s.acked {
		if !short[id] {
			lost++
			if lost == 1 {
				r.Violation("C17/ack/lost", "wait-for-commit mode: a write whose Do had returned is missing after the restart: "+id, w3)
				ok = false
			}
		}
	}
	if !ackDurable {
		n := 0
		for _, id := range ch.acks {
			if !short[id] {
				n++
			}
		}
		c.w.Count("nowait_acked_lost_suffix", int64(n))
		c.w.Count("nowait_acked", int64(len(ch.acks)))
	} else {
		c.w.Count("wait_acked_checked", int64(len(s.acked)))
	}
	if r.WantSample() && killed {
		r.Sample(c17Merge(w3, map[string]any{"rounds_so_far": len(s.history)}))
	}
	return ok && !refused
}

func (c *c17Ctx) c17ReplicaRound(s *c17Seq, round int, rnd *rand.Rand, last bool) bool {
	r := c.r
	bl, berr := c17ReadBinlog(s.dir)
	if berr != nil {
		return false
	}
	env := []string{"VERIF_C17_MODE=" + s.mode, fmt.Sprintf("VERIF_C17_CHUNK=%d", s.chunk), fmt.Sprintf("VERIF_C17_COMMIT_MS=%d", []int{1, 5, 50, 2000}[rnd.IntN(4)]),
		fmt.Sprintf("VERIF_C17_EXPECT=%d", len(bl.evs)), fmt.Sprintf("VERIF_C17_READERS=%d", 1+rnd.IntN(2))}
	applyMax := []int{0, 5, 40}[rnd.IntN(3)]
	env = append(env, fmt.Sprintf("VERIF_C17_APPLY_MAX=%d", applyMax))
	kill, killAfter := "clean_exit", 0
	if !last {
		hs := []c17Hook{{"sqlite.replica.after_apply", 0}, {"sqlite.replica.after_update_offset", 0}, {"sqlite.commit.before", 0}, {"sqlite.commit.after", 0}}
		h := hs[rnd.IntN(len(hs))]
		k := 1 + rnd.IntN(2)
		if applyMax > 0 && !strings.HasPrefix(h.name, "sqlite.commit") {
			k = 1 + rnd.IntN(max(1, len(bl.evs)/applyMax))
		}
		kill = h.name
		env = append(env, fmt.Sprintf("VERIF_CRASH=%s:%d", h.name, k))
	}
	ch, err := c17RunChild("replica", s.dir, env, killAfter, nil)
	if err != nil {
		r.Inconclusive("cannot start child: " + err.Error())
		return false
	}
	s.history = append(s.history, fmt.Sprintf("replica round %d kill=%s env=%v done=%v", round, kill, env[len(env)-1:], ch.done))
	wit := s.witness(map[string]any{"replica_round": round, "kill": kill, "env": env, "views": len(ch.views), "exit": ch.exit})
	killed := !ch.done && ch.openErr == ""
	if killed {
		c.w.Count("kills", 1)
		c.w.Count("crash_points_hit.replica:"+kill, 1)
	}
	for _, e := range ch.errs {
		if strings.Contains(e, "replica accepted a write") {
			r.Violation("C17/replica/write-accepted", "Do with a binlog payload succeeded on a replica", wit)
		}
	}
	s.failed["Freplica-write"] = true
	if ch.openErr != "" {
		r.Violation("C17/replica/restart-"+c17ErrClass(fmt.Errorf("%s", ch.openErr)), "replica engine could not be (re)started: "+ch.openErr, wit)
		return false
	}
	ok := c.c17Judge(s, ch, "db2", "replica:"+kill, killed, wit, false)
	if ch.final != nil {
		c.w.Count("replica.final_reads", 1)
		if ch.final.N == len(bl.evs) && ch.final.X == bl.prefix[len(bl.evs)] {
			c.w.Count("replica.caught_up", 1)
		} else if ch.final.N > len(bl.evs) || bl.prefix[ch.final.N] != ch.final.X {
			r.Violation("C17/replica/state-not-a-prefix", fmt.Sprintf("replica state read through Do (%d rows) is not a prefix of the binlog", ch.final.N), wit)
			ok = false
		} else {
			r.Inconclusive(fmt.Sprintf("sequence %d: replica applied only %d of %d events before the harness gave up waiting", s.id, ch.final.N, len(bl.evs)))
		}
	}
	return ok
}

func c17Body(t *testing.T, unit string, seqQuick, seqThorough, workersQuick, workersThorough int) {
	if os.Getenv("VERIF_C17_ROLE") != "" {
		t.Skip("child role set")
	}
	r := verifkit.Start(t, "C17", unit)
	defer r.Finish()
	log.SetOutput(io.Discard) // the engine logs every step through package log
	if err := os.Chdir(r.TmpDir); err != nil {
		t.Fatalf("chdir %s: %v", r.TmpDir, err)
	}
	r.SetRule("case = one (directory state after a child engine process ended, transcript of that child): the child ran 2-5 writers (5-20 % callbacks failing before/after their INSERT), View readers and (wait mode) Do readers and was SIGKILLed inside a verifhook point on its k-th hit (PRNG k) or at a random instant; modes wait-for-commit / no-wait alternate per sequence, a third of the sequences rotate the binlog, CommitEvery 3-120 ms; replica rounds re-read the binlog into a second database. Non-trivial = the child was killed (not a clean exit) and the durable binlog holds at least one event; distinct = distinct (sequence, round, mode, kill point).")
	r.Assume("SQLite 3.53.0 mainline via overlay: PRAGMA journal_mode=WAL2 is ignored, the engine runs in rollback-journal mode")
	r.Assume("crashes are process kills (SIGKILL); power loss is not simulated")
	nSeq := r.N(seqQuick, seqThorough)
	if v, err := strconv.Atoi(os.Getenv("VERIF_C17_SEQS")); err == nil {
		nSeq = v // calibration aid only
	}
	base := r.SubSeed("seq")
	workers := r.N(workersQuick, workersThorough)
	r.Parallel(workers, "seq", func(w *verifkit.Worker) {
		c := &c17Ctx{r: r, w: w, unit: unit}
		for id := w.Index; id < nSeq; id += workers {
			rnd := rand.New(rand.NewPCG(base, uint64(id)))
			c.c17Sequence(id, rnd, 4+rnd.IntN(5), 2+rnd.IntN(2))
		}
	})
	if unit == "crash" {
		c17StracePart(r)
	}
}

func TestVerifC17(t *testing.T)     { c17Body(t, "crash", 12, 230, 6, 10) }
func TestVerifC17Race(t *testing.T) { c17Body(t, "crash-race", 3, 24, 3, 6) }
