//go:build verif

package api

// C25 — table queries assemble aligned, unique, ordered rows.
//
// Workload: generated LOD splits, generated storage output per (LOD, storage query), all
// directions, row markers, limits and requested-function lists.  The storage stub answers
// every loadPoints call with the generated rows of that (LOD, query), ordered the way the
// ORDER BY clause of the query text built from the very queryBuilder it was handed asks for.
//
// Oracle: (1) a specification reference (union of keys -> window -> order -> limit ->
// one column per requested function, NaN where the serving query had no such key);
// (2) direct clause checks (columns, uniqueness, order, window, limit, hasMore, markers);
// (3) for every disagreement a defect model of table.go with one switch per known root
// cause; the violation is attributed to the smallest set of switches that reproduces the
// observed output exactly.  Output that no set of switches reproduces is a new violation.

import (
	"context"
	"fmt"
	"math"
	"math/rand/v2"
	"runtime/debug"
	"sort"
	"strconv"
	"strings"
	"testing"
	"time"

	"github.com/hrissan/tdigest"

	"github.com/VKCOM/statshouse/internal/data_model"
	"github.com/VKCOM/statshouse/internal/format"
	"github.com/VKCOM/statshouse/internal/promql"
	"github.com/VKCOM/statshouse/internal/zzverif/verifkit"
)

// ---------------------------------------------------------------------------------------
// case description

const c25MaxTag = 4 // raw tags 1..3 are used for grouping

type c25Key struct {
	time int64
	tag  [c25MaxTag]int64
	skey string
}

type c25Row struct {
	key  c25Key
	seed uint64 // value seed, differs per (key, storage query)
}

type c25Lod struct {
	from, to, step int64
	// rows[query][slot] in generation order; store[query][slot] in storage order
	rows  [][][]c25Row
	store [][][]c25Row
}

type c25Marker struct {
	set  bool
	time int64
	tags []RawTag
	skey string
}

type c25Case struct {
	lods       []c25Lod
	by         []int    // tag indices (ascending) grouped by
	bySKey     bool     // grouped by the string key too
	byReq      []string // group-by as the request lists it (any order)
	lodsDesc   bool     // LOD list handed over newest first (what handleGetTable does for fromEnd)
	whats      []promql.SelectorWhat // requested functions, request order
	funcs      []promql.SelectorWhat // the same, in response (column) order
	hw         []handlerWhat         // storage queries the handler will issue
	colQuery   []int                 // column -> storage query
	limit      int
	from, to   c25Marker
	fromEnd    bool
	stepMul    int64
	missing    bool // key sets differ between storage queries
	orderBy    string
	orderCols  []c25OrderCol
	stubCalls  int
	stubErr    string
	orderByDev bool
	valCache   map[c25ValKey][]uint64
	storeCache map[c25Defect][][][][]c25Row
	failAt     int // storage stub fails on this call (0 = never)
	// "any storage output": the stub hands the rows of every time slot over in a shuffled
	// order instead of the one ORDER BY asks for (same permutation for every storage query)
	shuffled bool
	shufSeed uint64
}

type c25OrderCol struct {
	kind byte // 't' time, 'i' int tag, 's' string tag
	idx  int
	desc bool
}

func (k c25Key) String() string {
	return fmt.Sprintf("%d/%d.%d.%d/%q", k.time, k.tag[1], k.tag[2], k.tag[3], k.skey)
}

// spec order: time, grouped tags in index order, string key
func c25CmpKey(a, b c25Key) int {
	if a.time != b.time {
		if a.time < b.time {
			return -1
		}
		return 1
	}
	for i := 1; i < c25MaxTag; i++ {
		if a.tag[i] != b.tag[i] {
			if a.tag[i] < b.tag[i] {
				return -1
			}
			return 1
		}
	}
	return strings.Compare(a.skey, b.skey)
}

// marker against a row: time, the tags the marker lists (in its order), string key
func c25CmpMarker(m c25Marker, k c25Key) int {
	if m.time != k.time {
		if m.time < k.time {
			return -1
		}
		return 1
	}
	for _, t := range m.tags {
		v := k.tag[t.Index]
		if t.Value != v {
			if t.Value < v {
				return -1
			}
			return 1
		}
	}
	return strings.Compare(m.skey, k.skey)
}

// window of the statement: strictly after "from" and strictly before "to" in the
// requested direction
func (c *c25Case) inWindow(k c25Key) bool {
	if c.from.set {
		x := c25CmpMarker(c.from, k)
		if !c.fromEnd && x >= 0 || c.fromEnd && x <= 0 {
			return false
		}
	}
	if c.to.set {
		x := c25CmpMarker(c.to, k)
		if !c.fromEnd && x <= 0 || c.fromEnd && x >= 0 {
			return false
		}
	}
	return true
}

func (c *c25Case) before(a, b c25Key) bool { // a precedes b in the requested direction
	if c.fromEnd {
		return c25CmpKey(a, b) > 0
	}
	return c25CmpKey(a, b) < 0
}

// ---------------------------------------------------------------------------------------
// values

func c25Values(seed uint64) tsValues {
	h := seed
	v := tsValues{
		count:       float64(2 + h%97),
		sum:         float64(1000 + (h/97%89)*3),
		min:         -float64(h/8633%83) - 1,
		max:         float64(5000 + h/716539%79),
		cardinality: float64(7 + h/56606581%73),
	}
	v.sumsquare = v.sum*v.sum/v.count + float64(h/4132280413%61)*v.count
	return v
}

func c25Percentile(seed uint64) *tdigest.TDigest {
	t := tdigest.NewWithCompression(20)
	a := float64(100000 + seed/251%71)
	t.Add(a, 1)
	t.Add(a+1000+float64(seed/17821%53), 1)
	t.Add(a+3000+float64(seed/944513%47), 1)
	return t
}

func c25Mix(parts ...uint64) uint64 {
	h := uint64(1469598103934665603)
	for _, p := range parts {
		for i := 0; i < 8; i++ {
			h ^= p & 0xff
			h *= 1099511628211
			p >>= 8
		}
	}
	return h
}

func c25KeyHash(k c25Key) uint64 {
	h := c25Mix(uint64(k.time), uint64(k.tag[1]), uint64(k.tag[2]), uint64(k.tag[3]))
	for i := 0; i < len(k.skey); i++ {
		h = c25Mix(h, uint64(k.skey[i]))
	}
	return h
}

type c25ValKey struct {
	seed     uint64
	q        int
	lodStep  int64
	selIndex bool
}

// expected column values of key row r served by storage query q.  selIndex models the
// defect of appendRowValues (selector argument read at the function's index); it answers
// ok=false where the real code runs out of the selector array.
func (c *c25Case) colValues(r c25Row, q int, lodStep int64, selIndex bool) (out []uint64, ok bool) {
	if selIndex && len(c.hw[q].sel) > tsValueCount {
		return nil, false
	}
	ck := c25ValKey{r.seed, q, lodStep, selIndex}
	if v, hit := c.valCache[ck]; hit {
		return v, true
	}
	vals := c25Values(r.seed)
	queryStep := c.stepMul
	if queryStep == 0 {
		queryStep = lodStep
	}
	out = make([]uint64, 0, len(c.hw[q].sel))
	for i, f := range c.hw[q].sel {
		arg := f.Digest.Selector().Argument
		if selIndex {
			arg = c.hw[q].qry[i].Argument
		}
		if f.Digest.Selector().What == data_model.DigestPercentile && vals.percentile == nil {
			vals.percentile = c25Percentile(r.seed)
		}
		// value() is the handler's own scalar formula; it is trusted here, the oracle is
		// about which (query, function, argument) lands in which column
		out = append(out, math.Float64bits(vals.value(f.Digest, arg, queryStep, lodStep)))
	}
	if c.valCache == nil {
		c.valCache = map[c25ValKey][]uint64{}
	}
	c.valCache[ck] = out
	return out, true
}

const c25NaN = uint64(0x7ff8000000000001)

// ---------------------------------------------------------------------------------------
// generator

var c25FuncPool = []promql.DigestWhat{
	promql.DigestCount, promql.DigestCountSec, promql.DigestCountRaw, promql.DigestSum, promql.DigestSumSec, promql.DigestSumRaw,
	promql.DigestAvg, promql.DigestMin, promql.DigestMax, promql.DigestP0_1, promql.DigestP1, promql.DigestP5, promql.DigestP10,
	promql.DigestP25, promql.DigestP50, promql.DigestP75, promql.DigestP90, promql.DigestP95, promql.DigestP99, promql.DigestP999,
	promql.DigestStdDev, promql.DigestStdVar, promql.DigestCardinality, promql.DigestCardinalitySec, promql.DigestCardinalityRaw,
	promql.DigestUnique, promql.DigestUniqueSec,
}

func c25Gen(rnd *rand.Rand, h *requestHandler) *c25Case {
	c := &c25Case{}
	// grouping
	switch rnd.IntN(10) {
	case 0:
		c.by = []int{2}
	case 1:
		c.by = []int{1, 2, 3}
	case 2:
		c.by = nil
	default:
		c.by = []int{1, 2}
	}
	c.bySKey = rnd.IntN(4) == 0
	c.byReq = nil
	for _, t := range c.by {
		c.byReq = append(c.byReq, format.TagID(t))
	}
	if c.bySKey {
		c.byReq = append(c.byReq, format.StringTopTagID)
	}
	if len(c.byReq) > 1 && rnd.IntN(6) == 0 { // the request may list the tags in any order
		rnd.Shuffle(len(c.byReq), func(i, j int) { c.byReq[i], c.byReq[j] = c.byReq[j], c.byReq[i] })
	}
	// requested functions
	nf := 1
	switch rnd.IntN(8) {
	case 0, 1:
		nf = 2 + rnd.IntN(3)
	case 2:
		nf = 8 + rnd.IntN(6) // more than seven selectors: at least two storage queries
	case 3:
		nf = 15 + rnd.IntN(8) // three storage queries
	}
	perm := rnd.Perm(len(c25FuncPool))
	distinctSel := rnd.IntN(2) == 0 // no two functions share a selector (count/countsec/countraw, ...)
	seenSel := map[data_model.DigestSelector]bool{}
	for i := 0; len(c.whats) < nf && i < len(perm); i++ {
		f := c25FuncPool[perm[i]]
		if distinctSel {
			if seenSel[f.Selector()] {
				continue
			}
			seenSel[f.Selector()] = true
		}
		c.whats = append(c.whats, promql.SelectorWhat{Digest: f})
	}
	c.hw = h.getHandlerWhat(append([]promql.SelectorWhat(nil), c.whats...))
	for q := range c.hw {
		for _, f := range c.hw[q].sel {
			c.funcs = append(c.funcs, f)
			c.colQuery = append(c.colQuery, q)
		}
	}
	nq := len(c.hw)
	c.missing = nq > 1 && rnd.IntN(3) == 0 || nq == 1 && false
	c.shuffled = rnd.IntN(5) == 0
	c.shufSeed = rnd.Uint64()
	if c.shuffled {
		c.missing = false
	}
	c.fromEnd = rnd.IntN(2) == 0
	c.lodsDesc = c.fromEnd && rnd.IntN(2) == 0
	c.stepMul = []int64{1, 1, 0, 5, 60}[rnd.IntN(5)]
	// LODs: ascending, disjoint, mostly contiguous
	nl := 1 + rnd.IntN(3)
	start := int64(1000)
	tagDomain := int64(2 + rnd.IntN(2))
	skeys := []string{"", "a", "b", "ab"}
	var all []c25Key
	for l := 0; l < nl; l++ {
		step := []int64{1, 5, 15, 60}[rnd.IntN(4)]
		slots := 1 + rnd.IntN(4)
		if rnd.IntN(6) == 0 {
			start += step * int64(1+rnd.IntN(3)) // a gap
		}
		start = (start + step - 1) / step * step
		lod := c25Lod{from: start, to: start + step*int64(slots), step: step}
		lod.rows = make([][][]c25Row, nq)
		for q := range lod.rows {
			lod.rows[q] = make([][]c25Row, slots)
		}
		for s := 0; s < slots; s++ {
			n := rnd.IntN(5)
			if rnd.IntN(4) == 0 {
				n = 0
			}
			seen := map[c25Key]bool{}
			for k := 0; k < n; k++ {
				key := c25Key{time: start + step*int64(s)}
				for _, t := range c.by {
					key.tag[t] = rnd.Int64N(tagDomain)
					if rnd.IntN(12) == 0 {
						key.tag[t] = -1 - rnd.Int64N(2) // raw values may be negative
					}
				}
				if c.bySKey {
					key.skey = skeys[rnd.IntN(len(skeys))]
				}
				if seen[key] {
					continue
				}
				seen[key] = true
				present := 0
				for q := 0; q < nq; q++ {
					if c.missing && rnd.IntN(3) == 0 {
						continue
					}
					present++
					lod.rows[q][s] = append(lod.rows[q][s], c25Row{key: key, seed: c25Mix(c25KeyHash(key), uint64(q))})
				}
				if present > 0 {
					all = append(all, key)
				}
			}
			for q := 0; q < nq; q++ { // storage does not promise any order before ORDER BY
				rs := lod.rows[q][s]
				rnd.Shuffle(len(rs), func(i, j int) { rs[i], rs[j] = rs[j], rs[i] })
			}
		}
		c.lods = append(c.lods, lod)
		start = lod.to
	}
	c.limit = 1 + rnd.IntN(8)
	if rnd.IntN(12) == 0 {
		c.limit = 100
	}
	mk := func() c25Marker {
		m := c25Marker{set: true}
		if len(all) == 0 || rnd.IntN(3) == 0 {
			m.time = 995 + rnd.Int64N(start-990)
			for _, t := range c.by {
				m.tags = append(m.tags, RawTag{Index: t, Value: rnd.Int64N(tagDomain)})
			}
			if c.bySKey {
				m.skey = skeys[rnd.IntN(len(skeys))]
			}
			return m
		}
		k := all[rnd.IntN(len(all))]
		m.time = k.time
		for _, t := range c.by {
			m.tags = append(m.tags, RawTag{Index: t, Value: k.tag[t]})
		}
		m.skey = k.skey
		return m
	}
	if rnd.IntN(2) == 0 {
		c.from = mk()
	}
	if rnd.IntN(3) == 0 {
		c.to = mk()
	}
	return c
}

// ---------------------------------------------------------------------------------------
// storage stub

func c25ParseOrderBy(body string) (string, []c25OrderCol, error) {
	i := strings.Index(body, " ORDER BY ")
	if i < 0 {
		return "", nil, nil
	}
	s := body[i+len(" ORDER BY "):]
	if j := strings.Index(s, " LIMIT "); j >= 0 {
		s = s[:j]
	}
	var cols []c25OrderCol
	for _, item := range strings.Split(s, ",") {
		f := strings.Fields(item)
		if len(f) == 0 || len(f) > 2 {
			return s, nil, fmt.Errorf("cannot interpret ORDER BY item %q", item)
		}
		col := c25OrderCol{}
		if len(f) == 2 {
			switch strings.ToUpper(f[1]) {
			case "DESC":
				col.desc = true
			case "ASC":
			default:
				return s, nil, fmt.Errorf("cannot interpret ORDER BY item %q", item)
			}
		}
		name := f[0]
		switch {
		case name == "_time":
			col.kind = 't'
		case strings.HasPrefix(name, "stag"):
			n, err := strconv.Atoi(name[4:])
			if err != nil || n < 0 || n >= format.MaxTags {
				return s, nil, fmt.Errorf("cannot interpret ORDER BY column %q", name)
			}
			col.kind, col.idx = 's', n
		case strings.HasPrefix(name, "tag"):
			n, err := strconv.Atoi(name[3:])
			if err != nil || n < 0 || n >= format.MaxTags {
				return s, nil, fmt.Errorf("cannot interpret ORDER BY column %q", name)
			}
			col.kind, col.idx = 'i', n
		default:
			return s, nil, fmt.Errorf("cannot interpret ORDER BY column %q", name)
		}
		cols = append(cols, col)
	}
	return s, cols, nil
}

func c25StoreCmp(cols []c25OrderCol, a, b c25Key) int {
	for _, col := range cols {
		x := 0
		switch col.kind {
		case 't':
			if a.time != b.time {
				x = -1
				if a.time > b.time {
					x = 1
				}
			}
		case 'i':
			var av, bv int64
			if col.idx < c25MaxTag {
				av, bv = a.tag[col.idx], b.tag[col.idx]
			}
			if av != bv {
				x = -1
				if av > bv {
					x = 1
				}
			}
		case 's':
			var as, bs string
			if col.idx == format.StringTopTagIndexV3 {
				as, bs = a.skey, b.skey
			}
			x = strings.Compare(as, bs)
		}
		if x != 0 {
			if col.desc {
				return -x
			}
			return x
		}
	}
	return 0
}

func c25SortStore(rows [][][]c25Row, cols []c25OrderCol) [][][]c25Row {
	out := make([][][]c25Row, len(rows))
	for q := range rows {
		out[q] = make([][]c25Row, len(rows[q]))
		for s := range rows[q] {
			rs := append([]c25Row(nil), rows[q][s]...)
			sort.SliceStable(rs, func(i, j int) bool { return c25StoreCmp(cols, rs[i].key, rs[j].key) < 0 })
			out[q][s] = rs
		}
	}
	return out
}

func (c *c25Case) byNames() []string { return append([]string(nil), c.byReq...) }

func c25ToSelectRow(r c25Row, what tsWhat) tsSelectRow {
	row := tsSelectRow{what: what, time: r.key.time}
	for i := 1; i < c25MaxTag; i++ {
		row.tag[i] = r.key.tag[i]
	}
	row.stag[format.StringTopTagIndexV3] = r.key.skey
	row.tsValues = c25Values(r.seed)
	for i := 0; what.specifiedAt(i); i++ {
		if what[i].What == data_model.DigestPercentile {
			row.percentile = c25Percentile(r.seed)
			break
		}
	}
	return row
}

func (c *c25Case) marker(m c25Marker) RowMarker {
	if !m.set {
		return RowMarker{}
	}
	return RowMarker{Time: m.time, Tags: append([]RawTag(nil), m.tags...), SKey: m.skey}
}

// ---------------------------------------------------------------------------------------
// observed output

type c25OutRow struct {
	key      c25Key
	reprTime int64
	reprTags []int64
	reprSKey string
	cols     []uint64
	group    int // model only: (query, LOD) pass that inserted the row
}

type c25Out struct {
	rows     []c25OutRow
	hasMore  bool
	panicked bool
	panicMsg string
}

// content: which rows with which columns, and hasMore — without order and markers
func (o *c25Out) content() string {
	if o.panicked {
		return "PANIC"
	}
	var rows []string
	for _, r := range o.rows {
		rows = append(rows, fmt.Sprintf("%s|%x", r.key, r.cols))
	}
	sort.Strings(rows)
	return strings.Join(rows, ";") + fmt.Sprintf("more=%v", o.hasMore)
}

func (o *c25Out) signature() string {
	if o.panicked {
		return "PANIC"
	}
	var sb strings.Builder
	for _, r := range o.rows {
		sb.WriteString(r.key.String())
		fmt.Fprintf(&sb, "|%d%v%q|", r.reprTime, r.reprTags, r.reprSKey)
		for _, v := range r.cols {
			if v == c25NaN {
				sb.WriteString("NaN,")
			} else {
				fmt.Fprintf(&sb, "%x,", v)
			}
		}
		sb.WriteByte(';')
	}
	fmt.Fprintf(&sb, "more=%v", o.hasMore)
	return sb.String()
}

func (o *c25Out) describe() []string {
	var out []string
	if o.panicked {
		return []string{"PANIC: " + o.panicMsg}
	}
	for _, r := range o.rows {
		var cols []string
		for _, v := range r.cols {
			if v == c25NaN {
				cols = append(cols, "NaN")
			} else {
				cols = append(cols, strconv.FormatFloat(math.Float64frombits(v), 'g', -1, 64))
			}
		}
		out = append(out, fmt.Sprintf("%s marker={%d %v %q} data=[%s]", r.key, r.reprTime, r.reprTags, r.reprSKey, strings.Join(cols, " ")))
	}
	return out
}

var c25Meta = func() *format.MetricMetaValue {
	m := &format.MetricMetaValue{MetricID: 1, Name: "verif_c25", Tags: []format.MetricMetaTag{{}, {RawKind: "int"}, {RawKind: "int"}, {RawKind: "int"}}}
	_ = m.RestoreCachedInfo()
	return m
}()

// run the real getTableFromLODs on the case
func (c *c25Case) run(h *requestHandler) (out c25Out, extra []string, err error) {
	loc := time.UTC
	var lods []data_model.LOD
	for _, l := range c.lods {
		lods = append(lods, data_model.LOD{FromSec: l.from, ToSec: l.to, StepSec: l.step, Location: loc, Version: data_model.Version6})
	}
	if c.lodsDesc {
		for i, j := 0, len(lods)-1; i < j; i, j = i+1, j-1 {
			lods[i], lods[j] = lods[j], lods[i]
		}
	}
	req := seriesRequest{
		numResults: c.limit,
		by:         c.byNames(),
		fromEnd:    c.fromEnd,
		fromRow:    c.marker(c.from),
		toRow:      c.marker(c.to),
		what:       append([]promql.SelectorWhat(nil), c.whats...),
	}
	p := tableReqParams{req: req, metricMeta: c25Meta, desiredStepMul: c.stepMul, location: loc}
	load := func(_ context.Context, _ *requestHandler, pq *queryBuilder, lod data_model.LOD, _ bool) ([][]tsSelectRow, error) {
		c.stubCalls++
		if c.stubCalls == c.failAt {
			return nil, errC25Storage
		}
		li := -1
		for i := range c.lods {
			if c.lods[i].from == lod.FromSec && c.lods[i].to == lod.ToSec && c.lods[i].step == lod.StepSec {
				li = i
			}
		}
		q := -1
		for i := range c.hw {
			if c.hw[i].qry == pq.what {
				q = i
			}
		}
		if li < 0 || q < 0 {
			c.stubErr = fmt.Sprintf("storage asked for an unknown LOD/query: lod=[%d,%d) step %d what=%v", lod.FromSec, lod.ToSec, lod.StepSec, pq.what)
			return nil, fmt.Errorf("%s", c.stubErr)
		}
		store := c.lods[li].store[q]
		sq, berr := pq.buildSeriesQuery(lod, "")
		if berr != nil {
			c.stubErr = "buildSeriesQuery: " + berr.Error()
			return nil, berr
		}
		ob, cols, perr := c25ParseOrderBy(sq.body)
		if perr != nil {
			c.stubErr = perr.Error()
			return nil, perr
		}
		if ob != c.orderBy && !c.shuffled { // the handler asks storage for another order than this harness predicted
			c.orderByDev = true
			store = c25SortStore(c.lods[li].rows, cols)[q]
		}
		res := make([][]tsSelectRow, len(store))
		for s := range store {
			for _, r := range store[s] {
				res[s] = append(res[s], c25ToSelectRow(r, pq.what))
			}
		}
		return res, nil
	}
	rows, hasMore, err := h.getTableFromLODs(context.Background(), lods, p, load)
	if err != nil {
		return out, nil, err
	}
	out.hasMore = hasMore
	for _, r := range rows {
		o := c25OutRow{reprTime: r.rowRepr.Time, reprSKey: r.rowRepr.SKey}
		o.key.time = r.row.time
		for i := 1; i < c25MaxTag; i++ {
			o.key.tag[i] = r.row.tag[i]
		}
		o.key.skey = r.row.stag[format.StringTopTagIndexV3]
		if r.Time != r.row.time {
			extra = append(extra, "time")
		}
		for _, t := range r.rowRepr.Tags {
			o.reprTags = append(o.reprTags, int64(t.Index), t.Value) // flattened (index, value) pairs
		}
		for _, v := range r.Data {
			if math.IsNaN(float64(v)) {
				o.cols = append(o.cols, c25NaN)
			} else {
				o.cols = append(o.cols, math.Float64bits(float64(v)))
			}
		}
		// presentation tags must describe the same row
		want := 0
		for _, t := range c.by {
			want++
			got, ok := r.Tags[format.TagIDLegacy(t)]
			if !ok || got.Value != h.getRichTagValue(c25Meta, format.TagID(t), o.key.tag[t]) {
				extra = append(extra, "tags-map")
			}
		}
		if c.bySKey {
			want++
			got, ok := r.Tags[format.LegacyStringTopTagID]
			if !ok || got.Value != emptyToUnspecified(o.key.skey) {
				// a row with an empty string key and no mapped key gets no entry at all
				if !(o.key.skey == "" && !ok) {
					extra = append(extra, "tags-map")
				} else {
					want--
				}
			}
		}
		if len(r.Tags) != want {
			extra = append(extra, "tags-map")
		}
		out.rows = append(out.rows, o)
	}
	return out, extra, nil
}

// ---------------------------------------------------------------------------------------
// test

func (c *c25Case) witness(actual, spec *c25Out, explained string) map[string]any {
	var lods []map[string]any
	for _, l := range c.lods {
		qs := map[string]any{}
		for q := range l.store {
			var slots []string
			for s := range l.store[q] {
				var ks []string
				for _, r := range l.store[q][s] {
					ks = append(ks, r.key.String())
				}
				slots = append(slots, strings.Join(ks, " "))
			}
			qs[fmt.Sprintf("query%d", q)] = slots
		}
		lods = append(lods, map[string]any{"from": l.from, "to": l.to, "step": l.step, "slots_in_storage_order": qs})
	}
	var fs []string
	for _, f := range c.funcs {
		fs = append(fs, f.Digest.String())
	}
	mk := func(m c25Marker) any {
		if !m.set {
			return nil
		}
		return map[string]any{"time": m.time, "tags": m.tags, "skey": m.skey}
	}
	return map[string]any{
		"lods": lods, "lod_list_newest_first": c.lodsDesc, "by": c.byNames(), "functions_in_column_order": fs, "storage_queries": len(c.hw),
		"limit": c.limit, "from_end": c.fromEnd, "from_row": mk(c.from), "to_row": mk(c.to), "order_by": c.orderBy,
		"got_rows": actual.describe(), "got_has_more": actual.hasMore,
		"want_rows": spec.describe(), "want_has_more": spec.hasMore,
		"reproduced_by_defect_model": explained,
	}
}

func (c *c25Case) abstraction() string {
	var sb strings.Builder
	for _, l := range c.lods {
		fmt.Fprintf(&sb, "L%d,%d,%d:", l.from, l.to, l.step)
		for q := range l.rows {
			for s := range l.store[q] {
				for _, r := range l.store[q][s] {
					sb.WriteString(r.key.String())
					sb.WriteByte(' ')
				}
				sb.WriteByte('/')
			}
			sb.WriteByte('#')
		}
	}
	fmt.Fprintf(&sb, "by%v lim%d end%v%v from%v to%v f%v", c.byReq, c.limit, c.fromEnd, c.lodsDesc, c.from, c.to, c.whats)
	return sb.String()
}

func TestVerifC25(t *testing.T) {
	r := verifkit.Start(t, "C25", "table")
	defer r.Finish()
	r.SetRule("1–3 disjoint LODs (steps 1/5/15/60 s, 1–4 slots, sometimes a gap; listed oldest first, or newest first for half of the fromEnd requests as handleGetTable does), 0–4 distinct keys per slot over 0–3 raw tags (+ optional string key; group-by listed in tag order or, 1 in 6, shuffled), " +
		"1–22 requested functions (1–3 storage queries; in a third of the multi-query cases keys are missing from some queries), both directions, " +
		"from/to markers taken from existing rows or free, limits 1–8 or 100; the storage stub orders each slot as the ORDER BY of the query text it was handed demands, except in a fifth of the cases where it hands every slot over in a shuffled order (page content not judged there, all order-independent clauses are). " +
		"Non-trivial = the requested window holds at least one row and storage holds at least two; distinct = distinct (LODs, rows per query, grouping, functions, markers, limit, direction).")
	r.Assume("storage returns each time slot ordered as the ORDER BY clause of the generated query asks (ties impossible: keys are unique per slot)")
	r.Assume("scalar formula tsValues.value() is trusted; the oracle judges which (storage query, function) lands in which column")
	n := r.N(60000, 2000000)
	workers := 8
	if r.Thorough() {
		workers = 16
	}
	r.Parallel(workers, "table", func(w *verifkit.Worker) {
		h := &requestHandler{Handler: &Handler{}}
		for i := 0; i < n/workers; i++ {
			c := c25Gen(w.Rnd, h)
			c25Judge(r, w, h, c, i)
		}
	})
	c25InvalidMarkers(r)
	c25StorageErrors(r)
}

func c25Stack() string {
	l := strings.SplitN(string(debug.Stack()), "\n", 30)
	var keep []string
	for _, x := range l {
		if strings.Contains(x, "/internal/api") && !strings.Contains(x, "zz_verif") {
			keep = append(keep, strings.TrimSpace(x))
		}
	}
	return strings.Join(keep, " <- ")
}

func c25Prepare(h *requestHandler, c *c25Case) error {
	// the order storage will be asked for, predicted from an identical builder
	pq := queryBuilder{metric: c25Meta, what: c.hw[0].qry, by: c25Meta.GroupBy(c.byNames()), sort: sortAscending, utcOffset: h.utcOffset}
	if c.fromEnd {
		pq.sort = sortDescending
	}
	sq, err := pq.buildSeriesQuery(data_model.LOD{FromSec: c.lods[0].from, ToSec: c.lods[0].to, StepSec: c.lods[0].step, Location: time.UTC, Version: data_model.Version6}, "")
	if err != nil {
		return err
	}
	ob, cols, err := c25ParseOrderBy(sq.body)
	if err != nil {
		return err
	}
	c.orderBy, c.orderCols = ob, cols
	for i := range c.lods {
		c.lods[i].store = c25SortStore(c.lods[i].rows, cols)
		if c.shuffled {
			st := c.lods[i].store
			for sl := range st[0] {
				rnd := rand.New(rand.NewPCG(c.shufSeed, uint64(i*1000+sl)))
				perm := rnd.Perm(len(st[0][sl]))
				for q := range st {
					if len(st[q][sl]) != len(perm) {
						return fmt.Errorf("shuffled case with differing key sets")
					}
					rs := make([]c25Row, len(perm))
					for k, p := range perm {
						rs[k] = st[q][sl][p]
					}
					st[q][sl] = rs
				}
			}
		}
	}
	return nil
}

// Storage output in an order other than the one asked for: the page content depends on that
// order and is not judged; everything the statement demands of *any* storage output is.
func c25JudgeShuffled(r *verifkit.Run, w *verifkit.Worker, c *c25Case, actual *c25Out, extra []string, windowRows int) {
	w.Count("cases.shuffled_storage_order", 1)
	r.NotJudged("page_content_with_shuffled_storage_order", 1)
	spec := c25Spec(c)
	bad := func(clause, what string) {
		r.Violation("C25/any-storage-order/"+clause, "storage returned the rows of a time slot in an order other than ORDER BY asks for: "+what, c.witness(actual, &spec, "not attempted (shuffled storage order)"))
	}
	if actual.panicked {
		bad("panic", "getTableFromLODs panics: "+actual.panicMsg)
		return
	}
	for _, e := range extra {
		bad(e, "row "+e+" does not describe the row")
	}
	u := c.union()
	seen := map[c25Key]bool{}
	for i, row := range actual.rows {
		ki := u[row.key]
		switch {
		case ki == nil:
			bad("phantom-row", "a row storage never returned")
		case len(row.cols) != len(c.funcs):
			bad("cols", fmt.Sprintf("row has %d columns for %d functions", len(row.cols), len(c.funcs)))
		default:
			want := c.specCols(ki)
			for j := range want {
				if want[j] != row.cols[j] {
					bad("values", "a column does not hold the value of its function for this row")
					break
				}
			}
		}
		if seen[row.key] {
			bad("dup", "rows are not unique by (time, tags)")
		}
		seen[row.key] = true
		if !c.inWindow(row.key) {
			bad("window", "a row outside the requested window")
		}
		if i > 0 && !c.before(actual.rows[i-1].key, row.key) {
			bad("order", "rows are not sorted in the requested direction")
		}
		if row.reprTime != row.key.time || !c25EqInts(row.reprTags, c.ownReprTags(row.key)) || row.reprSKey != c.ownReprSKey(row.key) {
			bad("marker", "a row's paging marker does not describe the row")
		}
	}
	if len(actual.rows) > c.limit {
		bad("limit", "more rows than the limit")
	}
	want := windowRows
	if want > c.limit {
		want = c.limit
	}
	if len(actual.rows) != want {
		bad("row-count", fmt.Sprintf("%d rows returned, the window holds %d and the limit is %d", len(actual.rows), windowRows, c.limit))
	}
	if actual.hasMore != (windowRows > c.limit) {
		bad("hasMore", fmt.Sprintf("hasMore=%v although the window holds %d rows and the limit is %d", actual.hasMore, windowRows, c.limit))
	}
}

func c25Judge(r *verifkit.Run, w *verifkit.Worker, h *requestHandler, c *c25Case, i int) {
	if err := c25Prepare(h, c); err != nil {
		r.Inconclusive("C25 harness cannot interpret the generated query: " + err.Error())
		return
	}
	// one column per requested function, in a fixed order
	if len(c.funcs) != len(c.whats) {
		r.Violation("C25/cols/function-lost-in-query-split", fmt.Sprintf("%d functions requested, storage queries serve %d", len(c.whats), len(c.funcs)), map[string]any{"whats": fmt.Sprint(c.whats), "split": fmt.Sprint(c.hw)})
		return
	}
	spec := c25Spec(c)
	var actual c25Out
	var extra []string
	var err error
	func() {
		defer func() {
			if p := recover(); p != nil {
				actual = c25Out{panicked: true, panicMsg: fmt.Sprintf("%v\n%s", p, c25Stack())}
				extra, err = nil, nil
			}
		}()
		actual, extra, err = c.run(h)
	}()
	if err != nil || c.stubErr != "" {
		r.Violation("C25/error/unexpected", fmt.Sprintf("getTableFromLODs failed: %v %s", err, c.stubErr), c.witness(&actual, &spec, ""))
		return
	}
	windowRows, total := 0, 0
	for _, l := range c.lods {
		seen := map[c25Key]bool{}
		for q := range l.rows {
			for s := range l.rows[q] {
				for _, row := range l.rows[q][s] {
					if !seen[row.key] {
						seen[row.key] = true
						total++
						if c.inWindow(row.key) {
							windowRows++
						}
					}
				}
			}
		}
	}
	w.Case(windowRows >= 1 && total >= 2, c.abstraction())
	w.Count("rows.returned", int64(len(actual.rows)))
	w.Count("stub.calls", int64(c.stubCalls))
	if c.fromEnd {
		w.Count("cases.from_end", 1)
	}
	if len(c.hw) > 1 {
		w.Count("cases.multi_query", 1)
	}
	if c.missing {
		w.Count("cases.keys_missing_in_some_query", 1)
	}
	if windowRows > c.limit {
		w.Count("cases.limit_cuts_window", 1)
	}
	if c.from.set || c.to.set {
		w.Count("cases.with_marker", 1)
	}
	if c.lodsDesc {
		w.Count("cases.lod_list_newest_first", 1)
	}
	if !c25IndexOrdered(c.orderCols) {
		w.Count("cases.group_by_not_in_index_order", 1)
	}
	if spec.hasMore {
		w.Count("cases.spec_has_more", 1)
	}
	if w.Index == 0 && i < 3 {
		r.Sample(c.witness(&actual, &spec, ""))
	}
	if c.shuffled {
		c25JudgeShuffled(r, w, c, &actual, extra, windowRows)
		return
	}
	if i < 400 { // self-check of the attribution search: switches outside the mask change nothing
		app := c.applicable()
		full, masked := c25Model(c, c25DAll), c25Model(c, c25DAll&app)
		if full.signature() != masked.signature() {
			r.Inconclusive("C25 harness: a switch outside the applicability mask changes the model output")
		}
	}
	if len(extra) == 0 && actual.signature() == spec.signature() {
		w.Count("cases.agree_with_reference", 1)
		return
	}
	// disagreement: which clauses, and which root cause
	if m0 := c25Model(c, 0); m0.signature() != spec.signature() {
		r.Inconclusive("C25 harness: defect model with every switch off differs from the specification reference")
		r.Sample(map[string]any{"harness_inconsistency": c.witness(&m0, &spec, "model(none) in got_*, spec in want_*")})
		return
	}
	clauses := c25Clauses(c, &actual, &spec, extra)
	set, ok := c25Explain(c, &actual, extra)
	if !ok {
		// signature: the first broken clause that the code as it stands (all known defects
		// switched on) does not break on this case as well
		asIs := c25Model(c, c25DAll&c.applicable())
		known := map[string]bool{}
		for _, k := range c25Clauses(c, &asIs, &spec, nil) {
			known[k] = true
		}
		first := clauses[0]
		for _, k := range clauses {
			if !known[k] {
				first = k
				break
			}
		}
		key := "C25/unexplained/" + first
		if actual.panicked {
			key = "C25/panic/unexplained"
		}
		r.Violation(key, "getTableFromLODs disagrees with the reference ("+strings.Join(clauses, ", ")+") and no combination of the known table.go defects reproduces the output", c.witness(&actual, &spec, "none"))
		return
	}
	names := set.names()
	w.Count("cases.disagree_explained", 1)
	for _, d := range c25DefectList {
		if set&d.bit != 0 {
			w.Count("defect."+d.short, 1)
			r.Violation(d.key, d.what, c.witness(&actual, &spec, strings.Join(names, "+")+" (clauses: "+strings.Join(clauses, ", ")+")"))
		}
	}
}

var errC25Storage = fmt.Errorf("verif: injected storage failure")

// a failing storage call must surface as an error, never as a (partial) table
func c25StorageErrors(r *verifkit.Run) {
	h := &requestHandler{Handler: &Handler{}}
	rnd := r.Rand("storage-errors")
	for i := 0; i < 1500; i++ {
		c := c25Gen(rnd, h)
		if err := c25Prepare(h, c); err != nil {
			return
		}
		c.failAt = 1 + rnd.IntN(4)
		var out c25Out
		var err error
		panicked := false
		func() {
			defer func() {
				if recover() != nil {
					panicked = true
				}
			}()
			out, _, err = c.run(h)
		}()
		switch {
		case panicked:
			r.Count("storage_errors.case_panicked_first", 1) // the selector-index finding, judged in the main loop
		case c.stubCalls < c.failAt:
			r.Count("storage_errors.not_reached", 1)
		case err == nil || len(out.rows) != 0:
			r.Case(true, "storage-error/"+c.abstraction())
			r.Violation("C25/error/storage-error-swallowed", "a failed storage query is not reported: getTableFromLODs returned a table", map[string]any{"failed_call": c.failAt, "calls": c.stubCalls, "rows": out.describe()})
		default:
			r.Case(true, "storage-error/"+c.abstraction())
			r.Count("storage_errors.reported", 1)
		}
	}
}

// markers a client can send but that describe no row position: tag index outside the tag
// array.  The statement is silent about them; recorded, not judged.
func c25InvalidMarkers(r *verifkit.Run) {
	h := &requestHandler{Handler: &Handler{}}
	rnd := r.Rand("invalid-markers")
	for i := 0; i < 200; i++ {
		c := c25Gen(rnd, h)
		if err := c25Prepare(h, c); err != nil {
			return
		}
		c.from = c25Marker{set: true, time: c.lods[0].from, tags: []RawTag{{Index: []int{-1, format.MaxTags, 1 << 20}[rnd.IntN(3)], Value: 1}}}
		func() {
			defer func() {
				if p := recover(); p != nil {
					r.NotJudged("marker_with_tag_index_out_of_range.panics", 1)
				}
			}()
			_, _, _ = c.run(h)
			r.NotJudged("marker_with_tag_index_out_of_range.no_panic", 1)
		}()
	}
}
