//go:build verif

package api

// C24 — the API points cache never serves rows older than an invalidation.
//
// Runtime monitor: the real pointsCache runs with a virtual clock over a stub loader whose
// rows name (query, range, load).  Generated histories of get / invalidate / clock steps are
// executed; a get's loader callback may itself advance the clock, invalidate and issue nested
// gets, which reproduces deterministically every interleaving the cache's own locking allows
// (a get is: check under RLock — load without lock — store under Lock).  A reference model
// written from the statement decides for every get served from the cache whether serving
// was permitted.

import (
	"context"
	"errors"
	"fmt"
	"math/rand/v2"
	"runtime"
	"strings"
	"sync/atomic"
	"testing"
	"time"

	"github.com/VKCOM/statshouse/internal/data_model"
	"github.com/VKCOM/statshouse/internal/format"
	"github.com/VKCOM/statshouse/internal/zzverif/verifkit"
)

var errC24Injected = errors.New("c24: injected loader failure")

const (
	c24Sec    = int64(time.Second)
	c24Linger = int64(invalidateLinger)
	c24Window = -int64(invalidateFrom) // 48h in nanoseconds
)

type c24Range struct{ from, to int64 }

type c24Op struct {
	kind   int // 0 tick, 1 invalidate, 2 get
	d      int64
	times  []int64
	key    int32
	rng    int
	avoid  bool
	fail   bool
	rows   int
	nested []c24Op
}

type c24Load struct {
	id    int64
	key   int32
	rng   c24Range
	start int64 // virtual nanoseconds when the load started (== the cache's loadedAtNano)
	ok    bool
	depth int
}

type c24InvRec struct {
	sec, at int64
}

type c24Frame struct {
	op           *c24Op
	depth        int
	loaderCalled bool
	load         *c24Load
}

type c24Exec struct {
	r         *verifkit.Run
	w         *verifkit.Worker
	cache     *pointsCache
	maxSize   int
	utcOff    int64
	vnow      int64
	pool      []c24Range
	loads     []*c24Load
	inv       []c24InvRec
	cur       *c24Frame
	h         *requestHandler
	qs        map[int32]*queryBuilder
	desc      *strings.Builder // literal history for the witness
	lastStore int              // rows of the most recent insertion into the cache
	failed    bool
}

func (e *c24Exec) now() time.Time { return time.Unix(0, e.vnow) }

func (e *c24Exec) q(key int32) *queryBuilder {
	q := e.qs[key]
	if q == nil {
		q = &queryBuilder{metric: &format.MetricMetaValue{MetricID: key}, point: true}
		e.qs[key] = q
	}
	return q
}

func (e *c24Exec) loader(_ context.Context, _ *requestHandler, pq *queryBuilder, lod data_model.LOD) ([]pSelectRow, error) {
	f := e.cur
	e.cur = nil
	if f == nil {
		e.bad("C24/harness/loader-called-twice-in-one-get", "the loader was called without a pending get frame", nil)
		return nil, errC24Injected
	}
	f.loaderCalled = true
	L := &c24Load{id: int64(len(e.loads) + 1), key: pq.metric.MetricID, rng: c24Range{lod.FromSec, lod.ToSec}, start: e.vnow, ok: !f.op.fail, depth: f.depth}
	e.loads = append(e.loads, L)
	f.load = L
	fmt.Fprintf(e.desc, "%*sload#%d key=%d [%d,%d) start=%d {\n", f.depth*2, "", L.id, L.key, L.rng.from-e.pool[0].from, L.rng.to-e.pool[0].from, L.start)
	for i := range f.op.nested {
		e.run(&f.op.nested[i], f.depth+1)
	}
	fmt.Fprintf(e.desc, "%*s}\n", f.depth*2, "")
	rows := make([]pSelectRow, f.op.rows)
	for i := range rows {
		rows[i].tag[0] = int64(L.key)
		rows[i].tag[1] = L.rng.from
		rows[i].tag[2] = L.rng.to
		rows[i].tag[3] = L.id
		rows[i].tag[4] = int64(i)
		rows[i].count = float64(L.id)
	}
	if f.op.fail {
		return rows, errC24Injected
	}
	return rows, nil
}

func (e *c24Exec) bad(key, what string, extra map[string]any) {
	w := map[string]any{"history": e.desc.String(), "approxMaxSize": e.maxSize, "utcOffset": e.utcOff, "pool_base": e.pool[0].from}
	for k, v := range extra {
		w[k] = v
	}
	e.failed = true
	e.r.Violation(key, what, w)
}

// true content of the cache, counted the way the cache defines its size: one per cached
// range plus one per row
func (e *c24Exec) contentSize() (content, entries, accounted int) {
	c := e.cache
	c.cacheMu.RLock()
	defer c.cacheMu.RUnlock()
	for _, en := range c.cache {
		content += len(en.rows)
		for _, cr := range en.rows {
			content += len(cr.rows)
		}
		accounted += en.rowsSize + len(en.rows)
	}
	return content, len(c.cache), accounted
}

func (e *c24Exec) checkSize(op string) {
	lastInsert := e.lastStore
	content, entries, accounted := e.contentSize()
	e.cache.cacheMu.RLock()
	size := e.cache.size
	e.cache.cacheMu.RUnlock()
	e.w.Count("size.checks", 1)
	// before an insertion the cache makes size+entries < approxMaxSize; one insertion adds at most
	// one entry, one range and its rows; nothing else grows the cache until the next insertion
	bound := e.maxSize + lastInsert + 1
	if content+entries > bound {
		e.bad("C24/size/content-exceeds-bound", "the cache holds more than approxMaxSize allows (beyond the one insertion just made)", map[string]any{"after": op, "content_ranges_plus_rows": content, "entries": entries, "cache_size_field": size, "bound": bound})
	}
	if size+entries > bound {
		e.bad("C24/size/accounted-size-exceeds-bound", "the cache's own size counter exceeds approxMaxSize (beyond the one insertion just made)", map[string]any{"after": op, "content_ranges_plus_rows": content, "entries": entries, "cache_size_field": size, "bound": bound})
	}
	if size != accounted {
		e.r.NotJudged("size-counter-differs-from-sum-over-entries", 1)
	}
	if content+entries > e.maxSize {
		e.w.Count("size.above-approxMaxSize-by-last-insertion-only", 1)
	}
}

func (e *c24Exec) run(op *c24Op, depth int) {
	ind := depth * 2
	switch op.kind {
	case 0:
		e.vnow += op.d
		fmt.Fprintf(e.desc, "%*stick +%dns -> now=%d\n", ind, "", op.d, e.vnow)
		e.w.Count("ops.tick", 1)
	case 1:
		fmt.Fprintf(e.desc, "%*sinvalidate %v at=%d\n", ind, "", c24Rel(op.times, e.pool[0].from), e.vnow)
		for _, s := range op.times {
			e.inv = append(e.inv, c24InvRec{s, e.vnow})
		}
		e.cache.invalidate(op.times)
		e.w.Count("ops.invalidate", 1)
		e.checkSize("invalidate")
	case 2:
		e.get(op, depth)
	}
}

func c24Rel(s []int64, base int64) []int64 {
	out := make([]int64, len(s))
	for i, v := range s {
		out[i] = v - base
	}
	return out
}

func (e *c24Exec) get(op *c24Op, depth int) {
	rng := e.pool[op.rng]
	q := e.q(op.key)
	lod := data_model.LOD{Version: Version6, StepSec: rng.to - rng.from, FromSec: rng.from, ToSec: rng.to}
	nowAtCheck := e.vnow
	// white-box look at the entry the cache holds for this (query, range) before the call
	var present bool
	var presentLoadedAt int64
	e.cache.cacheMu.RLock()
	if en, ok := e.cache.cache[q.getOrBuildCacheKey()]; ok {
		if cr, ok := en.rows[timeRange{rng.from, rng.to}]; ok {
			present, presentLoadedAt = true, cr.loadedAtNano
		}
	}
	e.cache.cacheMu.RUnlock()
	loadsBefore := len(e.loads)
	f := &c24Frame{op: op, depth: depth}
	e.cur = f
	fmt.Fprintf(e.desc, "%*sget key=%d [%d,%d) avoid=%v now=%d\n", depth*2, "", op.key, rng.from-e.pool[0].from, rng.to-e.pool[0].from, op.avoid, e.vnow)
	rows, err := e.cache.get(context.Background(), e.h, q, lod, op.avoid)
	e.cur = nil
	e.w.Count("ops.get", 1)
	if f.loaderCalled && err == nil && !op.avoid {
		e.lastStore = len(rows)
	}
	e.checkSize("get")
	if op.avoid {
		e.w.Count("gets.avoid-cache", 1)
		if !f.loaderCalled {
			e.r.NotJudged("avoid-cache-get-served-without-load", 1)
		}
		return
	}
	if err != nil {
		e.w.Count("gets.loader-error", 1)
		if !f.loaderCalled || !errors.Is(err, errC24Injected) {
			e.r.NotJudged("get-error-without-loader-failure", 1)
		}
		return
	}
	if len(rows) == 0 {
		e.bad("C24/placement/no-rows", "get returned no rows although every load of the stub produces at least one", map[string]any{"key": op.key, "range": rng})
		return
	}
	L := (*c24Load)(nil)
	if id := rows[0].tag[3]; id >= 1 && id <= int64(len(e.loads)) {
		L = e.loads[id-1]
	}
	if L == nil || L.key != op.key || L.rng != rng || !L.ok || rows[0].tag[0] != int64(op.key) || rows[0].tag[1] != rng.from || rows[0].tag[2] != rng.to {
		e.bad("C24/placement/rows-of-other-query-or-range", "get returned rows that were loaded for another query, another range, or by a failed load", map[string]any{"key": op.key, "range": rng, "row_key": rows[0].tag[0], "row_from": rows[0].tag[1], "row_to": rows[0].tag[2], "row_load": rows[0].tag[3]})
		return
	}
	for i := range rows {
		if rows[i].tag[3] != L.id || rows[i].tag[4] != int64(i) {
			e.bad("C24/placement/rows-mixed", "rows of one result come from different loads or are reordered", map[string]any{"key": op.key, "range": rng})
			return
		}
	}
	// reference model, from the statement
	window := nowAtCheck - c24Window // nanoseconds; seconds at or after it are mutable
	outside := rng.to*c24Sec < window
	var worst *c24InvRec // an invalidation that forbids serving rows of load L at nowAtCheck
	relevant := 0
	judgeLoad := L
	if f.loaderCalled {
		// reloaded: what would have been served is the entry present before the call
		judgeLoad = nil
	}
	for i := range e.inv {
		I := &e.inv[i]
		if I.sec < rng.from || I.sec >= rng.to || I.sec*c24Sec < window {
			continue
		}
		relevant++
		if judgeLoad != nil && I.at+c24Linger >= judgeLoad.start && (worst == nil || I.at > worst.at) {
			worst = I
		}
	}
	nested := depth > 0
	served := !f.loaderCalled
	cls := "miss"
	switch {
	case served && outside:
		cls = "hit-outside-window"
	case served:
		cls = "hit-in-window"
	case present:
		cls = "reload-of-present-entry"
	}
	e.w.Count("gets."+cls, 1)
	if served {
		if L.id > int64(loadsBefore) {
			e.bad("C24/harness/served-rows-of-later-load", "monitor inconsistency", nil)
			return
		}
		if !outside && worst != nil {
			timing := "invalidated-after-load-start"
			if worst.at < L.start {
				timing = "invalidated-within-linger-before-load-start"
			}
			pos := "interior-second"
			if worst.sec == rng.from || worst.sec == rng.to-1 {
				pos = "edge-second"
			}
			other := ""
			if e.loadsSince(L) > 0 {
				other = "/after-other-loads-of-same-query"
			}
			e.bad("C24/stale/served-after-invalidation/"+timing+"/"+pos+other,
				"a cached result was served although a second of its range inside the mutable window was invalidated at or after (load start - linger)",
				map[string]any{"key": op.key, "range_rel": []int64{rng.from - e.pool[0].from, rng.to - e.pool[0].from}, "now": nowAtCheck, "load": L.id, "load_start": L.start,
					"invalidated_second_rel": worst.sec - e.pool[0].from, "invalidated_at": worst.at, "linger_ns": c24Linger, "window_start_ns": window})
		}
	} else if present {
		// the cache decided to reload an entry it had.  Required outside the window: serve as loaded.
		if outside {
			e.bad("C24/immutable/reloaded-outside-window", "a cached result whose range lies wholly before the mutable window was not served from the cache", map[string]any{"key": op.key, "range_rel": []int64{rng.from - e.pool[0].from, rng.to - e.pool[0].from}, "now": nowAtCheck, "window_start_ns": window, "entry_loaded_at": presentLoadedAt})
		} else {
			// was the reload required by the reference?
			required := false
			for i := range e.inv {
				I := &e.inv[i]
				if I.sec >= rng.from && I.sec < rng.to && I.sec*c24Sec >= window && I.at+c24Linger >= presentLoadedAt {
					required = true
				}
			}
			if required {
				e.w.Count("gets.reload-required-by-reference", 1)
			} else {
				e.r.NotJudged("conservative-reload-of-a-servable-entry", 1)
			}
		}
	}
	nontrivial := present && (relevant > 0 || outside)
	// where does the newest relevant invalidation sit relative to the start of the entry's load
	rel := "none"
	if present {
		var newest int64 = -1
		for i := range e.inv {
			I := &e.inv[i]
			if I.sec >= rng.from && I.sec < rng.to && I.sec*c24Sec >= window && I.at > newest {
				newest = I.at
			}
		}
		switch d := presentLoadedAt - newest; {
		case newest < 0:
		case d > c24Linger+c24Sec:
			rel = "load-well-after-linger"
		case d > c24Linger:
			rel = "load-just-after-linger"
		case d == c24Linger:
			rel = "load-exactly-at-linger"
		case d > 0:
			rel = "load-within-linger"
		case d == 0:
			rel = "load-at-invalidation"
		default:
			rel = "load-before-invalidation"
		}
		e.w.Count("entry-vs-newest-invalidation."+rel, 1)
	}
	e.w.Case(nontrivial, fmt.Sprintf("%s|rel%d|%s|d%d|n%v|r%d|span%d|win%v|since%d|max%d", cls, min(relevant, 5), rel, depth, nested, op.rng, c24SpanClass(rng), outside, min(e.loadsSince(L), 3), e.maxSize))
}

func c24SpanClass(r c24Range) int {
	d := r.to - r.from
	switch {
	case d <= 1:
		return 0
	case d <= 60:
		return 1
	case d <= 3600:
		return 2
	}
	return 3
}

// number of successful loads of the same query (any range) made after load L
func (e *c24Exec) loadsSince(L *c24Load) int {
	n := 0
	for _, x := range e.loads[L.id:] {
		if x.key == L.key && x.ok {
			n++
		}
	}
	return n
}

// ---- generation

var c24UTCOffsets = []int64{0, 3 * 3600, -5 * 3600, 3*86400 + 3*3600, 5*3600 + 1800, 5*3600 + 2700, -(3*3600 + 1800), 12*3600 + 2700,
	3*86400 + 5*3600 + 1800, 4*86400 - (3*3600 + 1800), 9*3600 + 1800, -(9*3600 + 1800)}

func c24GenPool(rnd *rand.Rand, base int64) []c24Range {
	var pool []c24Range
	add := func(from, to int64) {
		if to > from {
			pool = append(pool, c24Range{from, to})
		}
	}
	h := (base / 3600) * 3600
	add(base-3600, base-3540)                                   // one minute, an hour ago (pool[0] is the reference for relative times)
	add(base-3600-rnd.Int64N(50), base-3500+rnd.Int64N(50))     // crosses minute boundaries, unaligned
	add(h-2*3600-rnd.Int64N(1800), h-rnd.Int64N(1800))          // crosses hour boundaries, unaligned
	add(h-5*3600, h-2*3600)                                     // whole hours
	add(base-120, base-119)                                     // one second
	add(base-c24Window/c24Sec-3600, base-c24Window/c24Sec-3000) // before the window at start
	add(base-c24Window/c24Sec-600, base-c24Window/c24Sec+600)   // straddles the window edge at start
	add(base-c24Window/c24Sec+100, base-c24Window/c24Sec+4000)  // leaves the window as the clock advances
	add(base-40, base+20)                                       // reaches into the future
	for i := rnd.IntN(4); i > 0; i-- {
		f := base - rnd.Int64N(4*3600)
		add(f, f+1+rnd.Int64N([]int64{5, 90, 4000, 9000}[rnd.IntN(4)]))
	}
	// keep pool[0] (reference for relative times) and a random subset, so that the same
	// (query, range) is asked again and again and hits occur
	keep := 3 + rnd.IntN(5)
	rest := pool[1:]
	rnd.Shuffle(len(rest), func(i, j int) { rest[i], rest[j] = rest[j], rest[i] })
	if len(rest) > keep {
		pool = pool[:1+keep]
	}
	return pool
}

func c24GenOps(rnd *rand.Rand, pool []c24Range, keys int, n int, depth int, bigRows bool) []c24Op {
	ops := make([]c24Op, 0, n)
	for len(ops) < n {
		var op c24Op
		switch x := rnd.IntN(20); {
		case x < 5:
			op.kind = 0
			switch rnd.IntN(12) {
			case 0:
				op.d = 0
			case 1:
				op.d = 1 + rnd.Int64N(1000)
			case 2, 3, 4:
				op.d = rnd.Int64N(3 * c24Sec)
			case 5, 6:
				op.d = c24Linger - 2*c24Sec + rnd.Int64N(4*c24Sec) // around the linger
			case 7:
				op.d = c24Linger
			case 8:
				op.d = c24Linger + 1
			case 9:
				op.d = rnd.Int64N(2 * 3600 * c24Sec)
			case 10:
				op.d = rnd.Int64N(600 * c24Sec)
			case 11:
				if rnd.IntN(4) == 0 {
					op.d = c24Window - 3600*c24Sec + rnd.Int64N(2*3600*c24Sec) // moves the window over everything
				} else {
					op.d = rnd.Int64N(30 * c24Sec)
				}
			}
		case x < 10:
			op.kind = 1
			for k := 1 + rnd.IntN(3); k > 0; k-- {
				r := pool[rnd.IntN(len(pool))]
				var s int64
				switch rnd.IntN(10) {
				case 0:
					s = r.from - 1
				case 1:
					s = r.from
				case 2:
					s = r.to - 1
				case 3:
					s = r.to
				case 4:
					s = (r.from/3600)*3600 + rnd.Int64N(3600) // same hour, maybe outside
				case 5:
					s = (r.from/60)*60 + rnd.Int64N(60) // same minute, maybe outside
				case 6:
					if d := r.to - r.from; d >= 3*3600 { // first, a middle or the last hour of a long range
						switch rnd.IntN(3) {
						case 0:
							s = r.from + rnd.Int64N(3600)
						case 1:
							s = r.from + 3600 + rnd.Int64N(d-2*3600)
						default:
							s = r.to - 1 - rnd.Int64N(3600)
						}
					} else {
						s = r.from + rnd.Int64N(d)
					}
				default:
					s = r.from + rnd.Int64N(r.to-r.from)
				}
				op.times = append(op.times, s)
			}
		default:
			op.kind = 2
			op.key = int32(1 + rnd.IntN(keys))
			op.rng = rnd.IntN(len(pool))
			op.avoid = rnd.IntN(25) == 0
			op.fail = rnd.IntN(25) == 0
			op.rows = 1 + rnd.IntN(3)
			if bigRows && rnd.IntN(8) == 0 {
				op.rows = 1 + rnd.IntN(40)
			}
			if depth < 2 && rnd.IntN(3) == 0 {
				op.nested = c24GenOps(rnd, pool, keys, 1+rnd.IntN(4), depth+1, bigRows)
			}
		}
		ops = append(ops, op)
	}
	return ops
}

func c24RunHistory(r *verifkit.Run, w *verifkit.Worker, idx int) (failed bool) {
	rnd := w.Rnd
	base := int64(1_700_000_000) + rnd.Int64N(86400*30)
	e := &c24Exec{r: r, w: w, qs: map[int32]*queryBuilder{}, desc: &strings.Builder{}, h: &requestHandler{Handler: &Handler{}}}
	e.maxSize = []int{3, 8, 20, 60, 200, 1000}[rnd.IntN(6)]
	// what calcUTCOffset can produce: whole hours, :30 / :45 zones, plus whole days for the week start
	e.utcOff = c24UTCOffsets[rnd.IntN(len(c24UTCOffsets))]
	e.vnow = base*c24Sec + rnd.Int64N(c24Sec)
	e.pool = c24GenPool(rnd, base)
	keys := 1 + rnd.IntN(2)
	ops := c24GenOps(rnd, e.pool, keys, 20+rnd.IntN(60), 0, e.maxSize <= 60)
	e.cache = newPointsCache(e.maxSize, e.utcOff, e.loader, e.now)
	fmt.Fprintf(e.desc, "approxMaxSize=%d utcOffset=%d start=%d; range ends are relative to %d\n", e.maxSize, e.utcOff, e.vnow, e.pool[0].from)
	for i := range ops {
		e.run(&ops[i], 0)
		if e.failed {
			break
		}
	}
	if idx < 2 && w.Index == 0 {
		s := e.desc.String()
		if len(s) > 1500 {
			s = s[:1500] + "…"
		}
		r.Sample(map[string]any{"history": s})
	}
	return e.failed
}

func TestVerifC24(t *testing.T) {
	r := verifkit.Start(t, "C24", "pcache")
	defer r.Finish()
	r.SetRule("histories of 20-80 operations (get over a pool of ~10 fixed ranges per history: one second, one minute, unaligned across minute/hour boundaries, whole hours, before / straddling / leaving the 48 h mutable window, reaching into the future; 1-3 query keys; avoidCache; failing loads; invalidate of 1-3 seconds chosen at range edges, interiors and same-hour/minute neighbours; clock steps of 0 ns..50 h concentrated around the 15 s linger) against the real pointsCache with a virtual clock, approxMaxSize 3..1000 and twelve utc offsets (whole hours, :30 and :45 zones, with and without week-start days; ranges of 3-8 hours with invalidations in their first, middle and last hour). A third of the loads run nested operations (clock steps, invalidations, gets of the same or other ranges) inside the loader callback, i.e. between the cache's freshness check and its store. One case = one successful non-avoidCache get judged against the reference model; non-trivial = an entry for (query, range) was cached before the call and either a second of the range inside the window had been invalidated or the range lay wholly outside the window; distinct = (served/reloaded class, number of relevant invalidations, nesting depth, span class, window class, later loads of the same query).")
	r.Assume("the virtual clock never goes back (steps >= 0)")
	r.Assume("a second exactly on the edge of the 48 h window is treated as outside by the reference (the code treats it as inside, which is only more conservative)")
	n := r.N(20000, 1500000)
	workers := r.N(8, 16)
	var abort atomic.Bool
	r.Parallel(workers, "hist", func(w *verifkit.Worker) {
		for i := 0; i < n/workers && !abort.Load(); i++ {
			done := make(chan bool, 1)
			go func() {
				defer func() {
					if p := recover(); p != nil {
						buf := make([]byte, 8192)
						buf = buf[:runtime.Stack(buf, false)]
						r.Violation("C24/panic", fmt.Sprintf("panic: %v", p), map[string]any{"stack": string(buf)})
						done <- true
					}
				}()
				done <- c24RunHistory(r, w, i)
			}()
			select {
			case <-done:
				w.Count("histories", 1)
			case <-time.After(180 * time.Second):
				// purely in-memory calls with a virtual clock: only a livelock can take this long
				buf := make([]byte, 1<<18)
				buf = buf[:runtime.Stack(buf, true)]
				var frames []string
				for _, g := range strings.Split(string(buf), "\n\n") {
					if strings.Contains(g, "pointsCache") {
						frames = append(frames, g)
					}
				}
				r.Violation("C24/size/get-never-returns", "a cache call did not return within 180 s (the eviction loop cannot re-establish the size bound?)", map[string]any{"goroutines_in_pointsCache": frames})
				abort.Store(true)
				return
			}
		}
	})
}
