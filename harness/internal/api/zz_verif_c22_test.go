//go:build verif

package api

// C22 — api half: the real calcUTCOffset / roundTime / shiftTimestamp of lod.go, and the
// same axis oracle as the data_model unit driven with the UTC offset the API computes.

import (
	"fmt"
	"testing"
	"time"

	"github.com/VKCOM/statshouse/internal/zzverif/c22kit"
	"github.com/VKCOM/statshouse/internal/zzverif/verifkit"
)

type c22Sink struct {
	r   *verifkit.Run
	w   *verifkit.Worker
	idx int
}

func (s *c22Sink) Bad(key, what string) {
	s.r.Violation(key, what, map[string]any{"case": s.idx, "detail": what})
}
func (s *c22Sink) Count(name string, d int64)     { s.w.Count(name, d) }
func (s *c22Sink) NotJudged(name string, d int64) { s.r.NotJudged(name, d) }

func c22Mod(a, b int64) int64 { return ((a % b) + b) % b }

func TestVerifC22(t *testing.T) {
	r := verifkit.Start(t, "C22", "api_lod")
	defer r.Finish()
	zones, missing := c22kit.LoadZones()
	if len(zones) < 30 {
		r.Inconclusive(fmt.Sprintf("only %d time zones could be loaded (missing %v)", len(zones), missing))
		return
	}
	r.SetRule("(a) every (zone, week start): calcUTCOffset against the reference, and roundTime to week/day/hour steps with it on random instants: the rounded time is <= t, less than one step away, aligned, and a week start falls on the configured weekday at 00:00 of the zone's epoch offset; (b) shiftTimestamp by whole months against calendar arithmetic; (c) the axis oracle of the data_model unit with the UTC offset the API computes. Non-trivial as in the data_model unit / every rounding case.")
	rnd := r.Rand("round")
	for _, z := range zones {
		cur := time.Unix(1790000000, 0).In(z.Loc)
		_, curOff := cur.Zone()
		if int64(curOff) != z.EpochOffset {
			r.NotJudged("zone_offset_today_differs_from_epoch_offset_day_steps_not_at_local_midnight", 1)
		}
		for ws := time.Sunday; ws <= time.Saturday; ws++ {
			got := calcUTCOffset(z.Loc, ws)
			want := c22kit.RefUTCOffset(z, ws)
			if c22Mod(got-want, c22kit.Week) != 0 {
				r.Violation("C22/utc-offset/week-start", fmt.Sprintf("calcUTCOffset(%s, weekStart %d) = %d, reference %d (mod one week)", z.Name, ws, got, want), nil)
			}
			fixed := time.FixedZone("epoch", int(z.EpochOffset))
			for k := 0; k < r.N(40, 400); k++ {
				tt := rnd.Int64N(2_000_000_000)
				if k%5 == 0 {
					tt = -rnd.Int64N(100_000_000) // before the epoch: floor division matters
				}
				for _, step := range []int64{c22kit.Week, c22kit.Day, 4 * 3600, 3600, 900, 60, 15, 1} {
					rt := roundTime(tt, step, got)
					if rt > tt || tt-rt >= step || c22Mod(rt+got, step) != 0 {
						r.Violation("C22/round-time/not-floor", fmt.Sprintf("roundTime(%d, %d, %d) = %d", tt, step, got, rt), nil)
					}
					if step == c22kit.Week {
						lt := time.Unix(rt, 0).In(fixed)
						if lt.Weekday() != ws || lt.Hour() != 0 || lt.Minute() != 0 || lt.Second() != 0 {
							r.Violation("C22/round-time/week-start", fmt.Sprintf("week of %d in %s with week start %d begins at %s", tt, z.Name, ws, lt), nil)
						}
					}
					if step == c22kit.Day {
						lt := time.Unix(rt, 0).In(fixed)
						if lt.Hour() != 0 || lt.Minute() != 0 || lt.Second() != 0 {
							r.Violation("C22/round-time/day-start", fmt.Sprintf("day of %d in %s begins at %s", tt, z.Name, lt), nil)
						}
					}
					r.Case(true, fmt.Sprintf("round %s %d %d %d", z.Name, ws, tt, step))
				}
			}
		}
		// shiftTimestamp: whole months on month starts, plain addition otherwise
		for k := 0; k < r.N(30, 3000); k++ {
			y, mo := 1990+rnd.IntN(60), time.Month(1+rnd.IntN(12))
			t0 := time.Date(y, mo, 1, 0, 0, 0, 0, z.Loc)
			months := rnd.IntN(40) - 20
			got := shiftTimestamp(t0.Unix(), _1M, int64(months)*_1M, z.Loc)
			want := t0.AddDate(0, months, 0).Unix()
			if got != want {
				r.Violation("C22/shift-timestamp/months", fmt.Sprintf("shiftTimestamp(%s, 1M, %d months) = %d, calendar says %d", t0, months, got, want), nil)
			}
			sh := rnd.Int64N(1000000) - 500000
			if g := shiftTimestamp(t0.Unix(), 3600, sh, z.Loc); g != t0.Unix()+sh {
				r.Violation("C22/shift-timestamp/seconds", fmt.Sprintf("shiftTimestamp(%d, 3600, %d) = %d", t0.Unix(), sh, g), nil)
			}
			r.Case(true, fmt.Sprintf("shift %s %d %d %d", z.Name, y, mo, months))
		}
	}
	n := r.N(20000, 1000000)
	workers := 8
	r.Parallel(workers, "cases", func(w *verifkit.Worker) {
		sink := &c22Sink{r: r, w: w}
		for i := w.Index; i < n; i += workers {
			sink.idx = i
			c := c22kit.Gen(w.Rnd, zones, func(z c22kit.Zone, ws time.Weekday) int64 { return calcUTCOffset(z.Loc, ws) })
			if judged, nontrivial := c22kit.Judge(&c, sink); judged {
				w.Case(nontrivial, c.Abstraction())
			}
		}
	})
}
