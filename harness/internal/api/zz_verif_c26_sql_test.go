//go:build verif

package api

// C26 oracle part 1: a tokenizer for the ClickHouse SQL the builders emit (string literals
// decoded by ClickHouse's rules), a clause splitter, and a parser/evaluator for the small
// expression grammar of the WHERE clause.

import (
	"fmt"
	"regexp"
	"strconv"
	"strings"
)

type c26Tok struct {
	kind     byte // 'i' identifier/keyword, 'n' number, 's' string literal, 'p' punctuation
	text     string
	val      string // decoded value of a string literal
	pos, end int
	oddEsc   int // escapes other than \\ and \' seen inside the literal
	dblQuote int // '' pairs seen inside the literal
}

func c26IsIdentStart(c byte) bool {
	return c == '_' || c >= 'a' && c <= 'z' || c >= 'A' && c <= 'Z'
}
func c26IsDigit(c byte) bool { return c >= '0' && c <= '9' }

// c26Lex tokenizes the whole statement.  Anything the builders never emit outside a string
// literal (comments, quoted identifiers, statement separators, control bytes) is an error.
func c26Lex(sql string) ([]c26Tok, error) {
	var out []c26Tok
	i := 0
	for i < len(sql) {
		c := sql[i]
		switch {
		case c == ' ' || c == '\t' || c == '\n' || c == '\r':
			i++
		case c26IsIdentStart(c):
			j := i + 1
			for j < len(sql) && (c26IsIdentStart(sql[j]) || c26IsDigit(sql[j])) {
				j++
			}
			out = append(out, c26Tok{kind: 'i', text: sql[i:j], pos: i, end: j})
			i = j
		case c26IsDigit(c):
			j := i + 1
			for j < len(sql) && (c26IsDigit(sql[j]) || sql[j] == '.') {
				j++
			}
			if j < len(sql) && c26IsIdentStart(sql[j]) {
				return out, fmt.Errorf("malformed number at %d", i)
			}
			out = append(out, c26Tok{kind: 'n', text: sql[i:j], pos: i, end: j})
			i = j
		case c == '\'':
			t := c26Tok{kind: 's', pos: i}
			var sb strings.Builder
			j := i + 1
			closed := false
			for j < len(sql) {
				d := sql[j]
				if d == '\\' {
					if j+1 >= len(sql) {
						return out, fmt.Errorf("unterminated string literal starting at %d", i)
					}
					e := sql[j+1]
					j += 2
					switch e {
					case '\\', '\'':
						sb.WriteByte(e)
					case '"', '`', '/', '?':
						sb.WriteByte(e)
						t.oddEsc++
					case 'b':
						sb.WriteByte('\b')
						t.oddEsc++
					case 'f':
						sb.WriteByte('\f')
						t.oddEsc++
					case 'r':
						sb.WriteByte('\r')
						t.oddEsc++
					case 'n':
						sb.WriteByte('\n')
						t.oddEsc++
					case 't':
						sb.WriteByte('\t')
						t.oddEsc++
					case '0':
						sb.WriteByte(0)
						t.oddEsc++
					case 'a':
						sb.WriteByte('\a')
						t.oddEsc++
					case 'v':
						sb.WriteByte('\v')
						t.oddEsc++
					case 'e':
						sb.WriteByte(0x1b)
						t.oddEsc++
					case 'x':
						t.oddEsc++
						if j+1 < len(sql) {
							if v, err := strconv.ParseUint(sql[j:j+2], 16, 8); err == nil {
								sb.WriteByte(byte(v))
								j += 2
								break
							}
						}
						sb.WriteString("\\x")
					default: // ClickHouse keeps the backslash of an unknown escape
						sb.WriteByte('\\')
						sb.WriteByte(e)
						t.oddEsc++
					}
					continue
				}
				if d == '\'' {
					if j+1 < len(sql) && sql[j+1] == '\'' { // '' is a quote inside the literal
						sb.WriteByte('\'')
						t.dblQuote++
						j += 2
						continue
					}
					j++
					closed = true
					break
				}
				sb.WriteByte(d)
				j++
			}
			if !closed {
				return out, fmt.Errorf("unterminated string literal starting at %d", i)
			}
			t.text, t.val, t.end = sql[i:j], sb.String(), j
			out = append(out, t)
			i = j
		case c == '-' && i+1 < len(sql) && sql[i+1] == '-':
			return out, fmt.Errorf("comment marker -- outside a literal at %d", i)
		case c == '/' && i+1 < len(sql) && sql[i+1] == '*':
			return out, fmt.Errorf("comment marker /* outside a literal at %d", i)
		case c == '#':
			return out, fmt.Errorf("comment marker # outside a literal at %d", i)
		case c == ';':
			return out, fmt.Errorf("statement separator outside a literal at %d", i)
		case c == '"' || c == '`':
			return out, fmt.Errorf("quoted identifier outside a literal at %d", i)
		case strings.IndexByte("(),=<>!+-*/.", c) >= 0:
			j := i + 1
			if j < len(sql) && (c == '<' || c == '>' || c == '!') && sql[j] == '=' {
				j++
			} else if c == '<' && j < len(sql) && sql[j] == '>' {
				j++
			}
			out = append(out, c26Tok{kind: 'p', text: sql[i:j], pos: i, end: j})
			i = j
		default:
			return out, fmt.Errorf("stray byte 0x%02x outside a literal at %d", c, i)
		}
	}
	return out, nil
}

func (t c26Tok) isKw(kw string) bool { return t.kind == 'i' && strings.EqualFold(t.text, kw) }
func (t c26Tok) isP(p string) bool   { return t.kind == 'p' && t.text == p }

// clause skeleton at parenthesis depth 0: SELECT .. FROM .. WHERE .. GROUP BY .. [HAVING ..]
// [ORDER BY ..] [LIMIT ..] [SETTINGS ..], each at most once and in this order.
func c26Clauses(toks []c26Tok) (where []c26Tok, err error) {
	depth := 0
	order := []string{"SELECT", "FROM", "WHERE", "GROUP", "HAVING", "ORDER", "LIMIT", "SETTINGS"}
	at := map[string]int{}
	last := -1
	for i, t := range toks {
		if t.isP("(") {
			depth++
		} else if t.isP(")") {
			depth--
			if depth < 0 {
				return nil, fmt.Errorf("unbalanced ')' at %d", t.pos)
			}
		}
		if depth != 0 || t.kind != 'i' {
			continue
		}
		for k, kw := range order {
			if t.isKw(kw) {
				if _, dup := at[kw]; dup {
					return nil, fmt.Errorf("clause %s appears twice", kw)
				}
				if k < last {
					return nil, fmt.Errorf("clause %s out of order", kw)
				}
				last = k
				at[kw] = i
			}
		}
	}
	if depth != 0 {
		return nil, fmt.Errorf("unbalanced '('")
	}
	for _, kw := range []string{"SELECT", "FROM", "WHERE", "GROUP"} {
		if _, ok := at[kw]; !ok {
			return nil, fmt.Errorf("clause %s missing", kw)
		}
	}
	if at["SELECT"] != 0 {
		return nil, fmt.Errorf("statement does not start with SELECT")
	}
	if at["WHERE"]-at["FROM"] != 2 || toks[at["FROM"]+1].kind != 'i' {
		return nil, fmt.Errorf("FROM is not followed by exactly one table name")
	}
	return toks[at["WHERE"]+1 : at["GROUP"]], nil
}

// ---------------------------------------------------------------------------------------
// WHERE expression

type c26Val struct {
	k byte // 'i' int, 's' string, 'b' bool
	i int64
	s string
	b bool
}

type c26Row map[string]c26Val

type c26Expr func(row c26Row) (c26Val, error)

type c26Parser struct {
	toks []c26Tok
	p    int
	re   map[string]*regexp.Regexp
}

func (p *c26Parser) peek() c26Tok {
	if p.p < len(p.toks) {
		return p.toks[p.p]
	}
	return c26Tok{}
}
func (p *c26Parser) next() c26Tok { t := p.peek(); p.p++; return t }

func c26ParseWhere(toks []c26Tok) (c26Expr, error) {
	p := &c26Parser{toks: toks, re: map[string]*regexp.Regexp{}}
	e, err := p.parseOr()
	if err != nil {
		return nil, err
	}
	if p.p != len(toks) {
		return nil, fmt.Errorf("unexpected token %q at %d in WHERE", p.peek().text, p.peek().pos)
	}
	return e, nil
}

func c26Bool(v c26Val, err error) (bool, error) {
	if err != nil {
		return false, err
	}
	if v.k != 'b' {
		return false, fmt.Errorf("boolean expected")
	}
	return v.b, nil
}

func (p *c26Parser) parseOr() (c26Expr, error) {
	l, err := p.parseAnd()
	if err != nil {
		return nil, err
	}
	for p.peek().isKw("OR") {
		p.next()
		r, err := p.parseAnd()
		if err != nil {
			return nil, err
		}
		ll := l
		l = func(row c26Row) (c26Val, error) {
			a, err := c26Bool(ll(row))
			if err != nil {
				return c26Val{}, err
			}
			b, err := c26Bool(r(row))
			if err != nil {
				return c26Val{}, err
			}
			return c26Val{k: 'b', b: a || b}, nil
		}
	}
	return l, nil
}

func (p *c26Parser) parseAnd() (c26Expr, error) {
	l, err := p.parseNot()
	if err != nil {
		return nil, err
	}
	for p.peek().isKw("AND") {
		p.next()
		r, err := p.parseNot()
		if err != nil {
			return nil, err
		}
		ll := l
		l = func(row c26Row) (c26Val, error) {
			a, err := c26Bool(ll(row))
			if err != nil {
				return c26Val{}, err
			}
			b, err := c26Bool(r(row))
			if err != nil {
				return c26Val{}, err
			}
			return c26Val{k: 'b', b: a && b}, nil
		}
	}
	return l, nil
}

func (p *c26Parser) parseNot() (c26Expr, error) {
	if p.peek().isKw("NOT") {
		p.next()
		e, err := p.parseNot()
		if err != nil {
			return nil, err
		}
		return func(row c26Row) (c26Val, error) {
			a, err := c26Bool(e(row))
			return c26Val{k: 'b', b: !a}, err
		}, nil
	}
	return p.parseCmp()
}

func c26Equal(a, b c26Val) (bool, error) {
	if a.k != b.k {
		return false, fmt.Errorf("comparison of different types")
	}
	switch a.k {
	case 'i':
		return a.i == b.i, nil
	case 's':
		return a.s == b.s, nil
	}
	return a.b == b.b, nil
}

func (p *c26Parser) parseCmp() (c26Expr, error) {
	l, err := p.parseOperand()
	if err != nil {
		return nil, err
	}
	t := p.peek()
	neg := false
	if t.isKw("NOT") && p.p+1 < len(p.toks) && p.toks[p.p+1].isKw("IN") {
		p.next()
		neg = true
		t = p.peek()
	}
	if t.isKw("IN") {
		p.next()
		if !p.next().isP("(") {
			return nil, fmt.Errorf("'(' expected after IN at %d", t.pos)
		}
		var items []c26Expr
		for {
			it, err := p.parseOperand()
			if err != nil {
				return nil, err
			}
			items = append(items, it)
			n := p.next()
			if n.isP(")") {
				break
			}
			if !n.isP(",") {
				return nil, fmt.Errorf("',' or ')' expected in IN list at %d", n.pos)
			}
		}
		return func(row c26Row) (c26Val, error) {
			a, err := l(row)
			if err != nil {
				return c26Val{}, err
			}
			found := false
			for _, it := range items {
				b, err := it(row)
				if err != nil {
					return c26Val{}, err
				}
				eq, err := c26Equal(a, b)
				if err != nil {
					return c26Val{}, err
				}
				found = found || eq
			}
			return c26Val{k: 'b', b: found != neg}, nil
		}, nil
	}
	if t.kind == 'p' {
		switch t.text {
		case "=", "!=", "<>", "<", ">", "<=", ">=":
			p.next()
			r, err := p.parseOperand()
			if err != nil {
				return nil, err
			}
			op := t.text
			return func(row c26Row) (c26Val, error) {
				a, err := l(row)
				if err != nil {
					return c26Val{}, err
				}
				b, err := r(row)
				if err != nil {
					return c26Val{}, err
				}
				if op == "=" || op == "!=" || op == "<>" {
					eq, err := c26Equal(a, b)
					return c26Val{k: 'b', b: eq == (op == "=")}, err
				}
				if a.k != 'i' || b.k != 'i' {
					return c26Val{}, fmt.Errorf("ordering comparison of non-integers")
				}
				var res bool
				switch op {
				case "<":
					res = a.i < b.i
				case ">":
					res = a.i > b.i
				case "<=":
					res = a.i <= b.i
				case ">=":
					res = a.i >= b.i
				}
				return c26Val{k: 'b', b: res}, nil
			}, nil
		}
	}
	return l, nil // a bare operand (parenthesised boolean, match(...))
}

func (p *c26Parser) parseOperand() (c26Expr, error) {
	t := p.next()
	switch {
	case t.isP("("):
		e, err := p.parseOr()
		if err != nil {
			return nil, err
		}
		if !p.next().isP(")") {
			return nil, fmt.Errorf("')' expected at %d", p.peek().pos)
		}
		return e, nil
	case t.isP("-"):
		n := p.next()
		if n.kind != 'n' {
			return nil, fmt.Errorf("number expected after '-' at %d", t.pos)
		}
		v, err := strconv.ParseInt("-"+n.text, 10, 64)
		if err != nil {
			return nil, err
		}
		return func(c26Row) (c26Val, error) { return c26Val{k: 'i', i: v}, nil }, nil
	case t.kind == 'n':
		v, err := strconv.ParseInt(t.text, 10, 64)
		if err != nil {
			return nil, err
		}
		return func(c26Row) (c26Val, error) { return c26Val{k: 'i', i: v}, nil }, nil
	case t.kind == 's':
		s := t.val
		return func(c26Row) (c26Val, error) { return c26Val{k: 's', s: s}, nil }, nil
	case t.kind == 'i':
		if p.peek().isP("(") { // function call
			p.next()
			var args []c26Expr
			if !p.peek().isP(")") {
				for {
					a, err := p.parseOr()
					if err != nil {
						return nil, err
					}
					args = append(args, a)
					if p.peek().isP(",") {
						p.next()
						continue
					}
					break
				}
			}
			if !p.next().isP(")") {
				return nil, fmt.Errorf("')' expected after arguments of %s", t.text)
			}
			return p.call(t.text, args)
		}
		for _, kw := range []string{"AND", "OR", "NOT", "IN", "SELECT", "FROM", "WHERE", "UNION", "LIMIT", "GROUP", "ORDER", "HAVING"} {
			if t.isKw(kw) {
				return nil, fmt.Errorf("keyword %s where an operand is expected at %d", t.text, t.pos)
			}
		}
		name := t.text
		return func(row c26Row) (c26Val, error) {
			v, ok := row[name]
			if !ok {
				return c26Val{}, fmt.Errorf("unknown column %q", name)
			}
			return v, nil
		}, nil
	}
	return nil, fmt.Errorf("operand expected at %d, got %q", t.pos, t.text)
}

func (p *c26Parser) call(name string, args []c26Expr) (c26Expr, error) {
	ints := func(row c26Row, n int) ([]int64, error) {
		if len(args) != n {
			return nil, fmt.Errorf("%s: %d arguments expected", name, n)
		}
		out := make([]int64, n)
		for i, a := range args {
			v, err := a(row)
			if err != nil {
				return nil, err
			}
			if v.k != 'i' {
				return nil, fmt.Errorf("%s: integer argument expected", name)
			}
			out[i] = v.i
		}
		return out, nil
	}
	switch name {
	case "toInt64":
		return func(row c26Row) (c26Val, error) {
			v, err := ints(row, 1)
			if err != nil {
				return c26Val{}, err
			}
			return c26Val{k: 'i', i: v[0]}, nil
		}, nil
	case "toUInt32":
		return func(row c26Row) (c26Val, error) {
			v, err := ints(row, 1)
			if err != nil {
				return c26Val{}, err
			}
			return c26Val{k: 'i', i: int64(uint32(v[0]))}, nil
		}, nil
	case "bitShiftLeft":
		return func(row c26Row) (c26Val, error) {
			v, err := ints(row, 2)
			if err != nil {
				return c26Val{}, err
			}
			return c26Val{k: 'i', i: v[0] << uint(v[1])}, nil
		}, nil
	case "bitOr":
		return func(row c26Row) (c26Val, error) {
			v, err := ints(row, 2)
			if err != nil {
				return c26Val{}, err
			}
			return c26Val{k: 'i', i: v[0] | v[1]}, nil
		}, nil
	case "match":
		if len(args) != 2 {
			return nil, fmt.Errorf("match: 2 arguments expected")
		}
		return func(row c26Row) (c26Val, error) {
			s, err := args[0](row)
			if err != nil {
				return c26Val{}, err
			}
			pat, err := args[1](row)
			if err != nil {
				return c26Val{}, err
			}
			if s.k != 's' || pat.k != 's' {
				return c26Val{}, fmt.Errorf("match: string arguments expected")
			}
			re := p.re[pat.s]
			if re == nil {
				re, err = regexp.Compile(pat.s)
				if err != nil {
					return c26Val{}, c26BadRegexp{err}
				}
				p.re[pat.s] = re
			}
			return c26Val{k: 'b', b: re.MatchString(s.s)}, nil
		}, nil
	}
	return nil, fmt.Errorf("unknown function %s in WHERE", name)
}

type c26BadRegexp struct{ err error }

func (e c26BadRegexp) Error() string { return "pattern does not compile: " + e.err.Error() }
