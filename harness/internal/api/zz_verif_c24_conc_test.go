//go:build verif

package api

// C24, second unit: the same safety oracle under real goroutines and the race detector.
// The sequential unit already reproduces every interleaving of the cache's critical
// sections; this one lets the Go race detector watch the unsynchronised parts (lru stamps,
// the shared seconds maps) while gets, invalidations and a ticking virtual clock overlap.

import (
	"context"
	"fmt"
	"runtime"
	"sync"
	"sync/atomic"
	"testing"
	"time"

	"github.com/VKCOM/statshouse/internal/data_model"
	"github.com/VKCOM/statshouse/internal/format"
	"github.com/VKCOM/statshouse/internal/zzverif/verifkit"
)

type c24cLoad struct {
	id        int64
	key       int32
	rng       c24Range
	stubStart int64 // virtual ns read when the stub was entered (>= the cache's loadedAtNano)
}

type c24cInv struct {
	sec     int64
	atLo    int64 // virtual ns read before invalidate() was called (<= the time the cache stamped)
	doneClk int64 // logical clock when invalidate() had returned
}

type c24cEnv struct {
	vnow  atomic.Int64
	clk   atomic.Int64
	mu    sync.Mutex
	loads []*c24cLoad
	inv   []c24cInv
}

type c24cLoaderKey struct{}

func TestVerifC24Conc(t *testing.T) {
	r := verifkit.Start(t, "C24", "conc")
	defer r.Finish()
	r.SetRule("rounds of 12 goroutines issuing get over 7 fixed ranges (one of ~6 h) x 2 query keys, one of twelve utc offsets per round (whole hours, :30, :45), 2 goroutines invalidating seconds of those ranges and one goroutine advancing the virtual clock (0..20 s steps) against one real pointsCache under -race. One case = one get served from the cache, judged: forbidden if a second of its range was invalidated by a call that had returned before the get was called and whose clock reading before the call + linger >= the clock reading at the entry of the load that produced the rows. Non-trivial = at least one invalidation of a second of the range had returned before the call; distinct = (round, range, key, relation of load start to newest such invalidation).")
	rounds := r.N(24, 500)
	getsPerWorker := 400
	for round := 0; round < rounds; round++ {
		rnd := r.Rand(fmt.Sprintf("round%d", round))
		e := &c24cEnv{}
		base := int64(1_700_000_000) + rnd.Int64N(86400*30)
		e.vnow.Store(base * c24Sec)
		utcOff := c24UTCOffsets[rnd.IntN(len(c24UTCOffsets))]
		pool := []c24Range{{base - 6*3600 - 17, base - 200}, {base - 3600, base - 3540}, {base - 3650, base - 3500}, {base - 7300, base - 100}, {base - 120, base - 119}, {base - 40, base + 20}, {base - 900, base - 600}}
		maxSize := []int{8, 40, 1000}[rnd.IntN(3)]
		loader := func(ctx context.Context, _ *requestHandler, pq *queryBuilder, lod data_model.LOD) ([]pSelectRow, error) {
			L := &c24cLoad{key: pq.metric.MetricID, rng: c24Range{lod.FromSec, lod.ToSec}, stubStart: e.vnow.Load()}
			e.mu.Lock()
			e.loads = append(e.loads, L)
			L.id = int64(len(e.loads))
			e.mu.Unlock()
			if p, ok := ctx.Value(c24cLoaderKey{}).(*bool); ok {
				*p = true
			}
			runtime.Gosched()
			rows := make([]pSelectRow, 1+L.id%3)
			for i := range rows {
				rows[i].tag[0], rows[i].tag[1], rows[i].tag[2], rows[i].tag[3] = int64(L.key), L.rng.from, L.rng.to, L.id
			}
			return rows, nil
		}
		c := newPointsCache(maxSize, utcOff, loader, func() time.Time { return time.Unix(0, e.vnow.Load()) })
		var stop atomic.Bool
		var side sync.WaitGroup
		side.Add(1)
		go func() { // clock
			defer side.Done()
			rr := r.Rand(fmt.Sprintf("round%d/clock", round))
			for !stop.Load() {
				if e.vnow.Load() > (base+6*3600)*c24Sec {
					// keep every range well inside the 48 h window: the window edge is the
					// sequential unit's business
					runtime.Gosched()
					continue
				}
				switch rr.IntN(6) {
				case 0:
					e.vnow.Add(c24Linger - c24Sec + rr.Int64N(2*c24Sec))
				case 1:
					e.vnow.Add(rr.Int64N(20 * c24Sec))
				default:
					e.vnow.Add(rr.Int64N(c24Sec / 10))
				}
				runtime.Gosched()
			}
		}()
		for i := 0; i < 2; i++ {
			side.Add(1)
			go func(i int) { // invalidators
				defer side.Done()
				rr := r.Rand(fmt.Sprintf("round%d/inv%d", round, i))
				for !stop.Load() {
					rg := pool[rr.IntN(len(pool))]
					sec := rg.from + rr.Int64N(rg.to-rg.from)
					lo := e.vnow.Load()
					c.invalidate([]int64{sec})
					e.mu.Lock()
					e.inv = append(e.inv, c24cInv{sec: sec, atLo: lo, doneClk: e.clk.Add(1)})
					e.mu.Unlock()
					r.Count("invalidations", 1)
					time.Sleep(time.Duration(20+rr.IntN(300)) * time.Microsecond)
				}
			}(i)
		}
		r.Parallel(12, fmt.Sprintf("round%d/get", round), func(w *verifkit.Worker) {
			h := &requestHandler{Handler: &Handler{}}
			qs := [2]*queryBuilder{{metric: &format.MetricMetaValue{MetricID: 1}, point: true}, {metric: &format.MetricMetaValue{MetricID: 2}, point: true}}
			for i := 0; i < getsPerWorker; i++ {
				key := w.Rnd.IntN(2)
				ri := w.Rnd.IntN(len(pool))
				rg := pool[ri]
				lod := data_model.LOD{Version: Version6, StepSec: rg.to - rg.from, FromSec: rg.from, ToSec: rg.to}
				loaded := false
				ctx := context.WithValue(context.Background(), c24cLoaderKey{}, &loaded)
				called := e.clk.Add(1)
				nowLo := e.vnow.Load()
				rows, err := c.get(ctx, h, qs[key], lod, false)
				w.Count("gets", 1)
				if err != nil || len(rows) == 0 {
					r.Violation("C24/conc/get-failed", "get failed or returned nothing although the stub never fails", map[string]any{"err": fmt.Sprint(err)})
					continue
				}
				if loaded {
					w.Count("gets.loaded", 1)
					continue
				}
				w.Count("gets.served-from-cache", 1)
				e.mu.Lock()
				var L *c24cLoad
				if id := rows[0].tag[3]; id >= 1 && id <= int64(len(e.loads)) {
					L = e.loads[id-1]
				}
				if L == nil || L.key != int32(key+1) || L.rng != rg {
					e.mu.Unlock()
					r.Violation("C24/placement/rows-of-other-query-or-range", "get returned rows that were loaded for another query or range", map[string]any{"key": key + 1, "range": fmt.Sprint(rg), "row_key": rows[0].tag[0], "row_from": rows[0].tag[1], "row_to": rows[0].tag[2]})
					continue
				}
				window := nowLo - c24Window
				var worst *c24cInv
				relevant := 0
				newest := int64(-1)
				for k := range e.inv {
					I := &e.inv[k]
					if I.doneClk >= called || I.sec < rg.from || I.sec >= rg.to || I.sec*c24Sec < window {
						continue
					}
					relevant++
					if I.atLo > newest {
						newest = I.atLo
					}
					if I.atLo+c24Linger >= L.stubStart && worst == nil {
						worst = I
					}
				}
				var wc c24cInv
				if worst != nil {
					wc = *worst
				}
				e.mu.Unlock()
				if worst != nil {
					r.Violation("C24/stale/served-after-invalidation/concurrent", "a cached result was served although a second of its range had been invalidated (call returned before the get began) at or after (load start - linger)",
						map[string]any{"key": key + 1, "range": fmt.Sprint(rg), "load": L.id, "load_stub_start": L.stubStart, "invalidated_second": wc.sec, "invalidate_clock_before_call": wc.atLo, "now_before_get": nowLo})
				}
				rel := "none"
				if newest >= 0 {
					switch d := L.stubStart - newest; {
					case d > c24Linger+c24Sec:
						rel = "well-after-linger"
					case d > c24Linger:
						rel = "just-after-linger"
					default:
						rel = "within-linger-or-before"
					}
				}
				w.Case(relevant > 0, fmt.Sprintf("%d|%d|%d|%s|%d", round, ri, key, rel, min(relevant, 4)))
			}
		})
		stop.Store(true)
		side.Wait()
		// size bound at quiescence (white box, as in the sequential unit)
		c.cacheMu.RLock()
		content := 0
		for _, en := range c.cache {
			content += len(en.rows)
			for _, cr := range en.rows {
				content += len(cr.rows)
			}
		}
		entries := len(c.cache)
		c.cacheMu.RUnlock()
		if content+entries > maxSize+3+1 {
			r.Violation("C24/size/content-exceeds-bound", "the cache holds more than approxMaxSize allows (beyond one insertion)", map[string]any{"content": content, "entries": entries, "approxMaxSize": maxSize})
		}
		r.Count("rounds", 1)
	}
}
