//go:build verif

package api

import (
	"math"
	"math/bits"
	"sort"
)

// ---------------------------------------------------------------------------------------
// specification reference: union of the keys storage returned (over all storage queries)
// -> requested window -> requested order -> first `limit` rows; one column per requested
// function, NaN where the query serving that function had no such key; hasMore <=> the
// window holds more than `limit` rows.

type c25KeyInfo struct {
	rows    []*c25Row // per storage query, nil = key absent there
	lodStep int64
}

func (c *c25Case) union() map[c25Key]*c25KeyInfo {
	u := map[c25Key]*c25KeyInfo{}
	for li := range c.lods {
		l := &c.lods[li]
		for q := range l.rows {
			for s := range l.rows[q] {
				for i := range l.rows[q][s] {
					row := &l.rows[q][s][i]
					ki := u[row.key]
					if ki == nil {
						ki = &c25KeyInfo{rows: make([]*c25Row, len(c.hw)), lodStep: l.step}
						u[row.key] = ki
					}
					ki.rows[q] = row
				}
			}
		}
	}
	return u
}

func (c *c25Case) ownReprTags(k c25Key) []int64 {
	var out []int64
	for _, t := range c.by {
		out = append(out, int64(t), k.tag[t])
	}
	return out
}

func (c *c25Case) ownReprSKey(k c25Key) string {
	if c.bySKey {
		return k.skey
	}
	return ""
}

func (c *c25Case) specCols(ki *c25KeyInfo) []uint64 {
	var cols []uint64
	for q := range c.hw {
		if ki.rows[q] != nil {
			v, _ := c.colValues(*ki.rows[q], q, ki.lodStep, false)
			cols = append(cols, v...)
		} else {
			for range c.hw[q].sel {
				cols = append(cols, c25NaN)
			}
		}
	}
	return cols
}

func c25Spec(c *c25Case) c25Out {
	u := c.union()
	var win []c25Key
	for k := range u {
		if c.inWindow(k) {
			win = append(win, k)
		}
	}
	sort.Slice(win, func(i, j int) bool { return c.before(win[i], win[j]) })
	var out c25Out
	out.hasMore = len(win) > c.limit
	if out.hasMore {
		win = win[:c.limit]
	}
	for _, k := range win {
		out.rows = append(out.rows, c25OutRow{key: k, reprTime: k.time, reprTags: c.ownReprTags(k), reprSKey: c.ownReprSKey(k), cols: c.specCols(u[k])})
	}
	return out
}

// ---------------------------------------------------------------------------------------
// direct clause checks (independent of the defect model); they name the clauses of the
// statement a disagreeing output breaks

func c25Clauses(c *c25Case, actual, spec *c25Out, extra []string) []string {
	if actual.panicked {
		return []string{"panic"}
	}
	set := map[string]bool{}
	for _, e := range extra {
		set[e] = true
	}
	u := c.union()
	seen := map[c25Key]bool{}
	for i, r := range actual.rows {
		if len(r.cols) != len(c.funcs) {
			set["cols"] = true
		} else if ki := u[r.key]; ki != nil {
			want := c.specCols(ki)
			for j := range want {
				if want[j] != r.cols[j] {
					set["values"] = true
				}
			}
		}
		if u[r.key] == nil {
			set["phantom-row"] = true
		}
		if seen[r.key] {
			set["dup"] = true
		}
		seen[r.key] = true
		if !c.inWindow(r.key) {
			set["window"] = true
		}
		if i > 0 && !c.before(actual.rows[i-1].key, r.key) {
			set["order"] = true
		}
		if r.reprTime != r.key.time || !c25EqInts(r.reprTags, c.ownReprTags(r.key)) || r.reprSKey != c.ownReprSKey(r.key) {
			set["marker"] = true
		}
	}
	if len(actual.rows) > c.limit {
		set["limit"] = true
	}
	same := len(actual.rows) == len(spec.rows)
	if same {
		want := map[c25Key]bool{}
		for _, r := range spec.rows {
			want[r.key] = true
		}
		for _, r := range actual.rows {
			if !want[r.key] {
				same = false
			}
		}
	}
	if !same {
		set["rows"] = true
	}
	if actual.hasMore != spec.hasMore {
		set["hasMore"] = true
	}
	var out []string
	for _, k := range []string{"cols", "values", "phantom-row", "dup", "order", "window", "limit", "rows", "hasMore", "marker", "time", "tags-map"} {
		if set[k] {
			out = append(out, k)
		}
	}
	if len(out) == 0 {
		out = append(out, "other")
	}
	return out
}

func c25EqInts(a, b []int64) bool {
	if len(a) != len(b) {
		return false
	}
	for i := range a {
		if a[i] != b[i] {
			return false
		}
	}
	return true
}

// ---------------------------------------------------------------------------------------
// defect model of table.go: the algorithm of getTableFromLODs/limitQueries with one switch
// per root cause.  All switches off = the specification; all on = the code as it stands.

type c25Defect uint16

const (
	c25DTags         c25Defect = 1 << iota // rowRepr.Tags backing array shared by the rows of one (query, LOD) pass
	c25DStaleSKey                          // rowRepr.SKey not reset: a row without string key inherits the previous row's
	c25DFromEndCut                         // fromEnd: slots walked backwards, rows inside a slot in storage order
	c25DSlotSkip                           // slot skipped when its first and last rows are outside the markers
	c25DMoreNonPos                         // limit already used up: hasMore = "the LOD has slots"
	c25DMoreNoRange                        // limit reached: hasMore before testing that the next row is in range
	c25DNaNPad                             // one NaN per storage query instead of one per function
	c25DPerQueryPage                       // window/limit applied per storage query, page = union of the pages
	c25DSelIndex                           // appendRowValues reads the selector argument at the function's index
	c25DLodOrder                           // fromEnd walks the LOD list backwards, whatever order the caller listed it in
	c25DByOrder                            // ORDER BY follows the request's group-by order, markers and final sort the tag-index order
	c25DAll          = c25DByOrder<<1 - 1
)

var c25DefectList = []struct {
	bit   c25Defect
	short string
	key   string
	what  string
}{
	{c25DTags, "shared-tags-array", "C25/order/shared-tags-array", "rowRepr.Tags re-uses one backing array for all rows of a LOD pass: every row carries the tags of the last one, equal-time rows are not ordered by tags and the paging markers are wrong"},
	{c25DStaleSKey, "stale-skey", "C25/marker/stale-skey", "rowRepr.SKey is not reset between rows: a row without string key inherits the string key of the previous row in its marker and in the final ordering"},
	{c25DFromEndCut, "fromEnd-slot-cut", "C25/rows/fromEnd-slot-cut", "fromEnd: a page cut inside a time slot keeps the rows that come first in storage order (ORDER BY puts DESC on the last column only) instead of the slot's last rows"},
	{c25DSlotSkip, "slot-skipped-by-endpoints", "C25/rows/slot-skipped-by-endpoints", "a time slot is skipped when its first and last rows are outside the markers although rows in between are inside"},
	{c25DMoreNonPos, "hasMore-nonpositive-limit", "C25/hasMore/next-lod-has-slots", "hasMore is true when the limit is used up and the next LOD merely has time slots (limitQueries answers len(rowsByTime) > 0 for a non-positive limit)"},
	{c25DMoreNoRange, "hasMore-before-range-check", "C25/hasMore/limit-reached-before-range-check", "hasMore is true as soon as the limit is reached and any further row exists, before testing that the row is inside the markers"},
	{c25DNaNPad, "nan-pad-per-query", "C25/cols/nan-pad-per-query", "a row absent from one storage query is padded with one NaN per storage query, not one per function of that query: the row has fewer columns than requested functions"},
	{c25DPerQueryPage, "per-query-page", "C25/limit/per-query-page-union", "window and limit are applied to every storage query separately; when the queries return different key sets the union of the pages exceeds the limit / differs from the page of the union"},
	{c25DSelIndex, "selector-index", "C25/cols/selector-index-by-function-index", "appendRowValues reads the selector argument at the function's index (w.qry[i]) although several functions can share one selector: index-out-of-range panic when a storage query serves more than 7 functions, wrong percentile argument when the indices shift"},
	{c25DLodOrder, "lod-list-order", "C25/rows/fromEnd-lod-list-reversed-twice", "fromEnd: getTableFromLODs walks the LOD list backwards, but handleGetTable already hands the list over newest first: the page is filled from the oldest LOD"},
	{c25DByOrder, "group-by-order", "C25/rows/group-by-request-order", "storage is asked to order a time slot by the group-by tags in request order, while markers and the final sort use tag-index order: a page cut inside a slot keeps rows that are not the first ones in marker order"},
}

// switches that only change markers and the final order, never which rows/columns appear
const c25DMarkerOnly = c25DTags | c25DStaleSKey

func (s c25Defect) names() []string {
	var out []string
	for _, d := range c25DefectList {
		if s&d.bit != 0 {
			out = append(out, d.short)
		}
	}
	return out
}

func c25IndexOrdered(cols []c25OrderCol) bool {
	last := -1
	for _, col := range cols {
		if col.kind == 't' {
			continue
		}
		if col.idx < last {
			return false
		}
		last = col.idx
	}
	return true
}

// storage-ordered slots (lod -> query -> slot -> rows) under the order switches:
// column order as issued (c25DByOrder) or by tag index; direction flags as issued
// (c25DFromEndCut: DESC on the last column only) or uniform in the requested direction
func (c *c25Case) storeFor(d c25Defect) [][][][]c25Row {
	d &= c25DFromEndCut | c25DByOrder
	if v, ok := c.storeCache[d]; ok {
		return v
	}
	cols := c.colsFor(d)
	out := make([][][][]c25Row, len(c.lods))
	for li := range c.lods {
		out[li] = c25SortStore(c.lods[li].rows, cols)
	}
	if c.storeCache == nil {
		c.storeCache = map[c25Defect][][][][]c25Row{}
	}
	c.storeCache[d] = out
	return out
}

func (c *c25Case) colsFor(d c25Defect) []c25OrderCol {
	cols := append([]c25OrderCol(nil), c.orderCols...)
	if d&c25DByOrder == 0 {
		sort.SliceStable(cols, func(i, j int) bool {
			ki, kj := cols[i].idx, cols[j].idx
			if cols[i].kind == 't' {
				ki = -1
			}
			if cols[j].kind == 't' {
				kj = -1
			}
			return ki < kj
		})
	}
	for i := range cols {
		if d&c25DFromEndCut == 0 {
			cols[i].desc = c.fromEnd
		} else {
			cols[i].desc = c.orderCols[i].desc // positional, as issued
		}
	}
	return cols
}

type c25SortRows []c25OutRow

func (s c25SortRows) Len() int      { return len(s) }
func (s c25SortRows) Swap(i, j int) { s[i], s[j] = s[j], s[i] }
func (s c25SortRows) Less(i, j int) bool { // queryTableRows.Less over the markers
	l, r := &s[i], &s[j]
	if l.reprTime != r.reprTime {
		return l.reprTime < r.reprTime
	}
	if len(l.reprTags) != len(r.reprTags) {
		return len(l.reprTags) < len(r.reprTags)
	}
	for k := 1; k < len(l.reprTags); k += 2 {
		if l.reprTags[k] != r.reprTags[k] {
			return l.reprTags[k] < r.reprTags[k]
		}
	}
	return l.reprSKey < r.reprSKey
}

func (c *c25Case) limitModel(slots [][]c25Row, limit int, d c25Defect) (res []c25Row, more bool) {
	if limit <= 0 {
		if d&c25DMoreNonPos != 0 {
			return nil, len(slots) > 0
		}
		for _, rows := range slots {
			for _, row := range rows {
				if c.inWindow(row.key) {
					return nil, true
				}
			}
		}
		return nil, false
	}
	for i := range slots {
		if c.fromEnd {
			i = len(slots) - i - 1
		}
		rows := slots[i]
		if d&c25DSlotSkip != 0 && len(rows) > 0 && !c.inWindow(rows[0].key) && !c.inWindow(rows[len(rows)-1].key) {
			continue
		}
		for _, row := range rows {
			if d&c25DMoreNoRange != 0 {
				if len(res) == limit {
					return res, true
				}
				if !c.inWindow(row.key) {
					continue
				}
			} else {
				if !c.inWindow(row.key) {
					continue
				}
				if len(res) == limit {
					return res, true
				}
			}
			res = append(res, row)
		}
	}
	return res, false
}

func c25Model(c *c25Case, d c25Defect) c25Out {
	var out c25Out
	var fromTime, toTime int64
	if c.from.set {
		fromTime = c.from.time
	}
	if c.to.set {
		toTime = c.to.time
	}
	if c.fromEnd {
		fromTime, toTime = toTime, fromTime
	}
	if toTime == 0 {
		toTime = math.MaxInt
	}
	nanPad := func(cols []uint64, q int) []uint64 {
		n := len(c.hw[q].sel)
		if d&c25DNaNPad != 0 {
			n = 1
		}
		for i := 0; i < n; i++ {
			cols = append(cols, c25NaN)
		}
		return cols
	}
	rowsIdx := map[c25Key]int{}
	lastTags := map[int][]int64{}
	group := 0
	// passes: one per storage query (as the code does) or one over the union of the queries
	type pass struct {
		q     int                          // storage query, -1 = union
		slots func(li int) [][]c25Row      // storage-ordered slots of the pass
		look  []map[c25Key]map[int]*c25Row // union pass: per LOD, key -> query -> row
	}
	store := c.storeFor(d)
	storeCols := c.colsFor(d)
	var passes []pass
	if d&c25DPerQueryPage != 0 || len(c.hw) == 1 {
		for q := range c.hw {
			q := q
			passes = append(passes, pass{q: q, slots: func(li int) [][]c25Row { return store[li][q] }})
		}
	} else {
		look := make([]map[c25Key]map[int]*c25Row, len(c.lods))
		merged := make([][][]c25Row, len(c.lods))
		for li := range c.lods {
			ls := store[li]
			look[li] = map[c25Key]map[int]*c25Row{}
			merged[li] = make([][]c25Row, len(ls[0]))
			for q := range ls {
				for s := range ls[q] {
					for i := range ls[q][s] {
						row := &ls[q][s][i]
						m := look[li][row.key]
						if m == nil {
							m = map[int]*c25Row{}
							look[li][row.key] = m
							merged[li][s] = append(merged[li][s], *row)
						}
						m[q] = row
					}
				}
			}
			for s := range merged[li] {
				rs := merged[li][s]
				sort.SliceStable(rs, func(a, b int) bool { return c25StoreCmp(storeCols, rs[a].key, rs[b].key) < 0 })
			}
		}
		passes = append(passes, pass{q: -1, look: look, slots: func(li int) [][]c25Row { return merged[li] }})
	}
	// the sequence in which the LODs are visited
	visit := make([]int, 0, len(c.lods))
	for k := range c.lods {
		li := k
		if d&c25DLodOrder != 0 {
			if c.lodsDesc {
				li = len(c.lods) - k - 1 // the list as handed over
			}
			if c.fromEnd {
				li = len(c.lods) - li - 1 // walked backwards
			}
		} else if c.fromEnd {
			li = len(c.lods) - k - 1
		}
		visit = append(visit, li)
	}
	for _, p := range passes {
		used := map[int]bool{}
		rowsCount := 0
		for _, li := range visit {
			l := &c.lods[li]
			if toTime < l.from || l.to < fromTime {
				continue
			}
			group++
			stale := ""
			rows, more := c.limitModel(p.slots(li), c.limit-rowsCount, d)
			for _, row := range rows {
				if toTime < row.key.time || row.key.time < fromTime {
					continue
				}
				rowsCount++
				own := c.ownReprTags(row.key)
				skey := ""
				if row.key.skey != "" {
					skey = c.ownReprSKey(row.key)
					stale = skey
				} else if d&c25DStaleSKey != 0 {
					skey = stale
				}
				lastTags[group] = own
				ix, ok := rowsIdx[row.key]
				if !ok {
					ix = len(out.rows)
					rowsIdx[row.key] = ix
					nr := c25OutRow{key: row.key, reprTime: row.key.time, reprTags: own, reprSKey: skey, group: group}
					if p.q > 0 {
						for j := 0; j < p.q; j++ {
							nr.cols = nanPad(nr.cols, j)
						}
					}
					out.rows = append(out.rows, nr)
				}
				used[ix] = true
				if p.q >= 0 {
					v, ok := c.colValues(row, p.q, l.step, d&c25DSelIndex != 0)
					if !ok {
						return c25Out{panicked: true}
					}
					out.rows[ix].cols = append(out.rows[ix].cols, v...)
				} else {
					for q := range c.hw {
						if r := p.look[li][row.key][q]; r != nil {
							v, ok := c.colValues(*r, q, l.step, d&c25DSelIndex != 0)
							if !ok {
								return c25Out{panicked: true}
							}
							out.rows[ix].cols = append(out.rows[ix].cols, v...)
						} else {
							out.rows[ix].cols = nanPad(out.rows[ix].cols, q)
						}
					}
				}
			}
			if more {
				out.hasMore = true
				break
			}
		}
		if p.q >= 0 {
			for ix := range out.rows {
				if !used[ix] {
					out.rows[ix].cols = nanPad(out.rows[ix].cols, p.q)
				}
			}
		}
	}
	if d&c25DTags != 0 && len(c.by) > 0 {
		for i := range out.rows {
			out.rows[i].reprTags = lastTags[out.rows[i].group]
		}
	}
	if c.fromEnd {
		sort.Sort(sort.Reverse(c25SortRows(out.rows)))
	} else {
		sort.Sort(c25SortRows(out.rows))
	}
	return out
}

// Attribution.  Stage 1: the smallest set of row/column switches whose model output has
// the observed content (rows with their columns, hasMore).  Stage 2: the smallest superset
// that reproduces the observed output exactly, including row order and markers.  Reported
// are the stage-1 switches plus the marker switches of stage 2: a row/column switch that is
// needed only to reproduce *which* wrong marker the shared array ends up with is an artefact
// of the marker defect, not a finding of its own.  ok=false: nothing reproduces the output.
// switches that can change the model's output for this case at all (structural
// preconditions; a switch outside the mask is a no-op here, so leaving it out of the search
// loses no explanation)
func (c *c25Case) applicable() c25Defect {
	var m c25Defect
	if len(c.by) > 0 {
		m |= c25DTags
	}
	if c.bySKey {
		m |= c25DStaleSKey
	}
	if c.fromEnd {
		m |= c25DFromEndCut
	}
	if c.from.set || c.to.set {
		m |= c25DSlotSkip | c25DMoreNoRange
	}
	if len(c.lods) > 1 {
		m |= c25DMoreNonPos
	}
	if len(c.hw) > 1 {
		m |= c25DNaNPad
	}
	if c.missing {
		m |= c25DPerQueryPage
	}
	for q := range c.hw {
		for i, f := range c.hw[q].sel {
			if i >= tsValueCount || c.hw[q].qry[i] != f.Digest.Selector() {
				m |= c25DSelIndex
			}
		}
	}
	if c.lodsDesc {
		m |= c25DLodOrder
	}
	if !c25IndexOrdered(c.orderCols) {
		m |= c25DByOrder
	}
	return m
}

func c25Explain(c *c25Case, actual *c25Out, extra []string) (c25Defect, bool) {
	if len(extra) > 0 {
		return 0, false
	}
	app := c.applicable()
	n := bits.OnesCount16(uint16(c25DAll))
	content := actual.content()
	s1, found := c25Defect(0), false
stage1:
	for size := 0; size <= n; size++ {
		for s := c25Defect(0); s <= c25DAll; s++ {
			if s&^app != 0 || s&c25DMarkerOnly != 0 || bits.OnesCount16(uint16(s)) != size {
				continue
			}
			m := c25Model(c, s)
			if m.content() == content {
				s1, found = s, true
				break stage1
			}
		}
	}
	if !found {
		return 0, false
	}
	target := actual.signature()
	for size := 0; size <= n; size++ {
		for s := c25Defect(0); s <= c25DAll; s++ {
			if s&^app != 0 || s&s1 != s1 || bits.OnesCount16(uint16(s&^s1)) != size {
				continue
			}
			m := c25Model(c, s)
			if m.signature() == target {
				return s1 | s&c25DMarkerOnly, true
			}
		}
	}
	return 0, false
}
