//go:build verif

package api

// C30 — access control grants exactly the permissions carried by a valid token.
//
// Workload: compact JWTs assembled by hand (so that every part can be wrong) and signed with
// generated Ed25519 keys, a virtual clock (vkuth.JWTHelper.SetNow), random application bits,
// protected prefixes and metric pairs.  Every token goes through requestHandler.init (the
// call site in handler.go) or parseAccessToken.
//
// Oracle: a reference decision procedure written from the statement, working on the final
// token text only (own base64url/JSON decoding, ed25519.Verify from the standard library):
// acceptance, granted bits, view / edit / rename decisions and the attributes a non-admin
// may not change.

import (
	"crypto/ed25519"
	"crypto/hmac"
	"crypto/sha256"
	"crypto/sha512"
	"crypto/x509"
	"encoding/base64"
	"encoding/json"
	"encoding/pem"
	"fmt"
	"math"
	"math/rand/v2"
	"reflect"
	"runtime/debug"
	"sort"
	"strconv"
	"strings"
	"testing"
	"time"

	"github.com/VKCOM/statshouse/internal/format"
	"github.com/VKCOM/statshouse/internal/vkgo/vkuth"
	"github.com/VKCOM/statshouse/internal/zzverif/verifkit"
)

const c30App = "statshouse"

func c30B64(b []byte) string { return base64.RawURLEncoding.EncodeToString(b) }

type c30Keys struct {
	pub  []ed25519.PublicKey // 0,1 configured, 2 not configured
	priv []ed25519.PrivateKey
	kid  []string
	conf map[string]ed25519.PublicKey
}

func c30MakeKeys(rnd *rand.Rand, how int) (*c30Keys, *vkuth.JWTHelper, error) {
	k := &c30Keys{conf: map[string]ed25519.PublicKey{}}
	var enc []string
	for i := 0; i < 3; i++ {
		seed := make([]byte, ed25519.SeedSize)
		for j := range seed {
			seed[j] = byte(rnd.IntN(256))
		}
		priv := ed25519.NewKeyFromSeed(seed)
		pub := priv.Public().(ed25519.PublicKey)
		k.priv = append(k.priv, priv)
		k.pub = append(k.pub, pub)
		m, err := vkuth.ParseVkuthKeys([]string{c30B64(pub)})
		if err != nil {
			return nil, nil, err
		}
		for id := range m {
			k.kid = append(k.kid, id)
		}
		if i < 2 {
			enc = append(enc, c30B64(pub))
		}
	}
	// the three ways the server can be given its keys must agree on the key ids
	var conf map[string][]byte
	var err error
	switch how % 3 {
	case 0:
		conf, err = vkuth.ParseVkuthKeys(enc)
	case 1:
		var pems []string
		for i := 0; i < 2; i++ {
			pems = append(pems, c30PEM(k.pub[i]))
		}
		conf, err = vkuth.ParseVkuthKeysPem(pems)
	case 2:
		var pems []string
		for i := 0; i < 2; i++ {
			pems = append(pems, c30B64([]byte(c30PEM(k.pub[i]))))
		}
		conf, err = vkuth.ParseVkuthKeysPemInBase64(pems)
	}
	if err != nil {
		return nil, nil, err
	}
	for i := 0; i < 2; i++ {
		if b, ok := conf[k.kid[i]]; !ok || !ed25519.PublicKey(b).Equal(k.pub[i]) {
			return nil, nil, fmt.Errorf("key loader %d does not file key %d under its fingerprint %s", how%3, i, k.kid[i])
		}
	}
	for id, b := range conf {
		k.conf[id] = ed25519.PublicKey(b)
	}
	return k, vkuth.NewJWTHelper(conf, c30App), nil
}

func c30PEM(pub ed25519.PublicKey) string {
	der, err := x509.MarshalPKIXPublicKey(pub)
	if err != nil {
		panic(err)
	}
	return string(pem.EncodeToMemory(&pem.Block{Type: "PUBLIC KEY", Bytes: der}))
}

// ---------------------------------------------------------------------------------------
// reference: acceptance of a token text at time now

type c30Ref struct {
	accept   bool
	reason   string // first condition of the statement that fails
	band     string // non-empty: boundary the statement and the library read differently
	sigValid bool   // the token is an EdDSA token correctly signed by the configured key it names
	user     string
	service  bool
	bits     map[string]bool // granted (application prefix stripped)
}

// a numeric claim: a JSON number or (as encoding/json reads json.Number) a string holding one
func c30Num(v any) (float64, bool) {
	switch x := v.(type) {
	case float64:
		return x, true
	case string:
		var n json.Number
		if json.Unmarshal([]byte(strconv.Quote(x)), &n) == nil {
			if f, err := n.Float64(); err == nil {
				return f, true
			}
		}
	}
	return 0, false
}

func c30Reference(tok string, keys *c30Keys, now time.Time) c30Ref {
	ref := c30Ref{bits: map[string]bool{}}
	fail := func(reason string) c30Ref {
		if ref.reason == "" {
			ref.reason = reason
		}
		return ref
	}
	parts := strings.Split(tok, ".")
	if len(parts) != 3 {
		return fail("structure")
	}
	var seg [3][]byte
	for i, p := range parts {
		b, err := base64.RawURLEncoding.DecodeString(p)
		if err != nil {
			return fail("structure")
		}
		seg[i] = b
	}
	var hdr, claims map[string]any
	if json.Unmarshal(seg[0], &hdr) != nil || hdr == nil {
		return fail("structure")
	}
	if json.Unmarshal(seg[1], &claims) != nil || claims == nil {
		return fail("structure")
	}
	if alg, _ := hdr["alg"].(string); alg != "EdDSA" {
		return fail("alg")
	}
	if kind, _ := hdr["kind"].(string); kind != "token" {
		return fail("kind")
	}
	kid, ok := hdr["kid"].(string)
	if !ok {
		return fail("kid")
	}
	pub, ok := keys.conf[kid]
	if !ok {
		return fail("kid")
	}
	if !ed25519.Verify(pub, []byte(parts[0]+"."+parts[1]), seg[2]) {
		return fail("signature")
	}
	ref.sigValid = true
	// validity window with the 5-second tolerance, in exact integer nanoseconds
	// (claims carry whole seconds; the one fractional exp generated is far from any boundary)
	nowNs := now.UnixNano()
	tol := vkuth.JWTTimeWindow.Nanoseconds()
	ns := func(sec float64) int64 {
		if sec > 9e9 {
			return math.MaxInt64
		}
		if sec < -9e9 {
			return math.MinInt64
		}
		whole := math.Floor(sec)
		return int64(whole)*1e9 + int64((sec-whole)*1e9)
	}
	exp, okExp := c30Num(claims["exp"])
	if _, present := claims["exp"]; !present || !okExp {
		fail("exp-missing")
	} else if e := ns(exp); exp != math.Floor(exp) && e-(nowNs-tol) > -1e9 && e-(nowNs-tol) < 1e9 {
		ref.band = "fractional_claim_within_a_second_of_the_boundary" // the library truncates claims to whole seconds
	} else if e == nowNs-tol {
		ref.band = "exp_exactly_at_tolerance"
	} else if e < nowNs-tol {
		fail("exp")
	}
	iat, okIat := c30Num(claims["iat"])
	if _, present := claims["iat"]; !present || !okIat {
		fail("iat-missing")
	} else if a := ns(iat); iat != math.Floor(iat) && a-(nowNs+tol) > -1e9 && a-(nowNs+tol) < 1e9 {
		ref.band = "fractional_claim_within_a_second_of_the_boundary"
	} else if a == nowNs+tol {
		ref.band = "iat_exactly_at_tolerance"
	} else if a > nowNs+tol {
		fail("iat")
	}
	if v, present := claims["nbf"]; present {
		nbf, okNbf := c30Num(v)
		if !okNbf {
			fail("nbf")
		} else if b := ns(nbf); b > nowNs && b <= nowNs+tol {
			ref.band = "nbf_inside_tolerance"
		} else if b > nowNs {
			fail("nbf")
		}
	}
	if iss, _ := claims["iss"].(string); iss != vkuth.TokenIssuer {
		fail("iss")
	}
	data, _ := claims["vkuth_data"].(map[string]any)
	user, _ := data["user"].(string)
	if user == "" {
		fail("user")
	}
	if ref.reason != "" {
		return ref
	}
	ref.accept = true
	ref.user = user
	ref.service, _ = data["is_service"].(bool)
	if bs, ok := data["bits"].([]any); ok {
		for _, b := range bs {
			if s, ok := b.(string); ok && strings.HasPrefix(s, c30App+":") && len(s) > len(c30App)+1 {
				ref.bits[s[len(c30App)+1:]] = true
			}
		}
	}
	return ref
}

// ---------------------------------------------------------------------------------------
// reference: policy

type c30Policy struct {
	bits      map[string]bool
	protected []string
}

func (p *c30Policy) admin() bool { return p.bits["admin"] }

func (p *c30Policy) protectedName(n string) bool {
	for _, pre := range p.protected {
		if strings.HasPrefix(n, pre) {
			return true
		}
	}
	return false
}

// which kinds of right ("metric", "prefix", "default") the bits give on a name
func (p *c30Policy) rights(kind, n string) (metric, prefix, def bool) {
	for b := range p.bits {
		switch {
		case strings.HasPrefix(b, kind+"_metric."):
			if strings.Replace(b[len(kind)+8:], "@", ":", 1) == n {
				metric = true
			}
		case strings.HasPrefix(b, kind+"_prefix."):
			if strings.HasPrefix(n, strings.Replace(b[len(kind)+8:], "@", ":", 1)) {
				prefix = true
			}
		case strings.HasPrefix(b, kind+"_namespace."):
			if strings.HasPrefix(n, b[len(kind)+11:]+":") {
				prefix = true
			}
		}
	}
	def = p.bits[kind+"_default"] && !p.protectedName(n)
	return
}

func (p *c30Policy) right(kind, n string) bool {
	m, pr, d := p.rights(kind, n)
	return m || pr || d
}

func (p *c30Policy) expectedMaps() (viewPrefix, editPrefix, viewMetric, editMetric map[string]bool) {
	viewPrefix, editPrefix, viewMetric, editMetric = map[string]bool{}, map[string]bool{}, map[string]bool{}, map[string]bool{}
	for b := range p.bits {
		for _, x := range []struct {
			pre string
			m   map[string]bool
			ns  bool
		}{{"view_prefix.", viewPrefix, false}, {"edit_prefix.", editPrefix, false}, {"view_metric.", viewMetric, false}, {"edit_metric.", editMetric, false},
			{"view_namespace.", viewPrefix, true}, {"edit_namespace.", editPrefix, true}} {
			if strings.HasPrefix(b, x.pre) {
				if x.ns {
					x.m[b[len(x.pre):]+":"] = true
				} else {
					x.m[strings.Replace(b[len(x.pre):], "@", ":", 1)] = true
				}
			}
		}
	}
	return
}

// ---------------------------------------------------------------------------------------
// token generator

type c30Token struct {
	class  string
	hdr    map[string]any
	claims map[string]any
	text   string
}

var c30BitPool = []string{"admin", "developer", "view_default", "edit_default", "view_prefix.foo", "edit_prefix.foo", "view_prefix.ns@", "edit_prefix.ns@prot",
	"view_metric.foo_bar", "edit_metric.foo_bar", "edit_metric.prot_x", "view_metric.prot_x", "view_metric.ns@metric", "edit_metric.ns@metric", "view_namespace.ns", "edit_namespace.ns",
	"view_namespace.other", "edit_namespace.other", "edit_metric." + format.StatshouseAPIRemoteConfig, "view_metric." + format.StatshouseAPIRemoteConfig,
	"view_prefix.statshouse_", "edit_prefix.statshouse_", "edit_metric.fo", "edit_prefix.prot_", "view_prefix.prot_", "edit_metric.other@m", "view_prefix.", "edit_prefix.",
	"view_metric.", "unknown_bit", "view_metric", "edit_namespace."}

var c30Names = []string{"foo", "foo_bar", "foo_baz", "fo", "prot_x", "prot_", "prot_y", "ns:metric", "ns:prot_a", "ns:other", "other:m", "third:m", "bar",
	format.StatshouseAPIRemoteConfig, format.StatshouseAgentRemoteConfigMetric, format.StatshouseAggregatorRemoteConfigMetric, format.StatshouseJournalDump, "statshouse_api_remote_config2", ""}

var c30Classes = []string{"valid", "valid", "valid", "valid", "valid", "valid", "valid", "valid", "valid", "valid", "wrong-key", "other-configured-key", "unknown-kid", "kid-missing", "kid-not-string", "alg-hs256-pubkey", "alg-hs512-pubkey",
	"alg-none", "alg-case", "alg-missing", "tampered-payload", "tampered-header", "sig-bitflip", "sig-truncated", "sig-empty", "segments", "garbage", "padding",
	"exp-sweep", "iat-sweep", "nbf-sweep", "exp-far", "exp-missing", "iat-missing", "no-registered-claims", "exp-numeric-string", "exp-not-a-number", "iss-foreign", "iss-missing",
	"user-empty", "user-missing", "data-missing", "kind-missing", "kind-other", "kind-not-string", "bits-foreign-only"}

func c30Gen(rnd *rand.Rand, keys *c30Keys, now time.Time) (c30Token, []string) {
	class := c30Classes[rnd.IntN(len(c30Classes))]
	k := rnd.IntN(2) // configured key used
	hdr := map[string]any{"alg": "EdDSA", "typ": "JWT", "kid": keys.kid[k], "kind": "token"}
	sec := now.Unix()
	claims := map[string]any{"iss": "vkuth", "exp": sec + 10 + rnd.Int64N(1000), "iat": sec - rnd.Int64N(1000)}
	if rnd.IntN(4) == 0 {
		claims["nbf"] = sec - rnd.Int64N(100)
	}
	if rnd.IntN(6) == 0 {
		claims["aud"] = []string{"statshouse"}
		claims["jti"] = "id" + fmt.Sprint(rnd.IntN(1000))
		claims["sub"] = "subject"
	}
	data := map[string]any{"user": []string{"alice", "bob@example.com", "svc"}[rnd.IntN(3)]}
	if rnd.IntN(5) == 0 {
		data["is_service"] = true
	}
	if rnd.IntN(5) == 0 {
		data["vk_id"] = rnd.Int64N(1 << 40)
	}
	var bits, granted []string
	for _, b := range c30BitPool {
		x := rnd.IntN(12)
		if b == "admin" && x < 3 {
			x = 11 // admins are rarer, they bypass most of the policy
		}
		switch {
		case x < 3 && class != "bits-foreign-only":
			bits = append(bits, c30App+":"+b)
			granted = append(granted, b)
		case x == 3:
			bits = append(bits, "otherapp:"+b)
		case x == 4:
			bits = append(bits, b) // no application prefix
		case x == 5 && rnd.IntN(4) == 0:
			bits = append(bits, strings.ToUpper(c30App)+":"+b, c30App+b, c30App+"::"+b, ":"+b)
			granted = append(granted, ":"+b) // "statshouse::x" carries the prefix; what remains names no right
		}
	}
	if rnd.IntN(30) == 0 {
		bits = append(bits, c30App+":")
	}
	rnd.Shuffle(len(bits), func(i, j int) { bits[i], bits[j] = bits[j], bits[i] })
	if bits != nil || rnd.IntN(2) == 0 {
		data["bits"] = bits
	}
	claims["vkuth_data"] = data
	signKey := keys.priv[k]
	sigMode := "eddsa"
	tamper := ""
	switch class {
	case "wrong-key":
		signKey = keys.priv[2]
	case "other-configured-key":
		signKey = keys.priv[1-k]
	case "unknown-kid":
		hdr["kid"] = []string{keys.kid[2], "deadbeefdeadbeef", "", strings.ToUpper(keys.kid[k])}[rnd.IntN(4)]
		if rnd.IntN(2) == 0 {
			signKey = keys.priv[2]
		}
	case "kid-missing":
		delete(hdr, "kid")
	case "kid-not-string":
		hdr["kid"] = []any{12345, true, []string{keys.kid[k]}, nil, map[string]any{"id": keys.kid[k]}}[rnd.IntN(5)]
	case "alg-hs256-pubkey":
		hdr["alg"], sigMode = "HS256", "hs256"
	case "alg-hs512-pubkey":
		hdr["alg"], sigMode = "HS512", "hs512"
	case "alg-none":
		hdr["alg"] = []string{"none", "None", "NONE"}[rnd.IntN(3)]
		sigMode = []string{"empty", "eddsa"}[rnd.IntN(2)]
	case "alg-case":
		hdr["alg"] = []string{"eddsa", "EDDSA", "Ed25519", "ES256", "RS256", "EdDSA "}[rnd.IntN(6)]
	case "alg-missing":
		delete(hdr, "alg")
	case "tampered-payload":
		tamper = "payload"
	case "tampered-header":
		tamper = "header"
	case "sig-bitflip", "sig-truncated", "sig-empty", "padding", "segments", "garbage":
		sigMode = class
	case "exp-sweep":
		claims["exp"] = sec - 5 + rnd.Int64N(15) - 7
	case "iat-sweep":
		claims["iat"] = sec + 5 + rnd.Int64N(15) - 7
	case "nbf-sweep":
		claims["nbf"] = sec + rnd.Int64N(17) - 5
	case "exp-far":
		claims["exp"] = []any{int64(0), int64(-1), sec - 86400, float64(sec) + 100.5, int64(1) << 40}[rnd.IntN(5)]
	case "exp-missing":
		delete(claims, "exp")
	case "iat-missing":
		delete(claims, "iat")
	case "no-registered-claims":
		claims = map[string]any{"vkuth_data": data}
	case "exp-numeric-string": // encoding/json reads a quoted number into json.Number: the claim counts as a number
		claims["exp"] = fmt.Sprint(sec + 100 - 200*rnd.Int64N(2))
	case "exp-not-a-number":
		claims["exp"] = []any{"soon", true, nil, []int64{sec + 100}, ""}[rnd.IntN(5)]
	case "iss-foreign":
		claims["iss"] = []string{"vkuth2", "", "VKUTH", "vkuth ", "statshouse"}[rnd.IntN(5)]
	case "iss-missing":
		delete(claims, "iss")
	case "user-empty":
		data["user"] = ""
	case "user-missing":
		delete(data, "user")
	case "data-missing":
		delete(claims, "vkuth_data")
	case "kind-missing":
		delete(hdr, "kind")
	case "kind-other":
		hdr["kind"] = []string{"cookie", "Token", "", "refresh"}[rnd.IntN(4)]
	case "kind-not-string":
		hdr["kind"] = []any{1, true, []string{"token"}}[rnd.IntN(3)]
	}
	hb, _ := json.Marshal(hdr)
	cb, _ := json.Marshal(claims)
	signing := c30B64(hb) + "." + c30B64(cb)
	var sig []byte
	switch sigMode {
	case "hs256":
		m := hmac.New(sha256.New, keys.pub[k])
		m.Write([]byte(signing))
		sig = m.Sum(nil)
	case "hs512":
		m := hmac.New(sha512.New, keys.pub[k])
		m.Write([]byte(signing))
		sig = m.Sum(nil)
	case "empty", "sig-empty":
		sig = nil
	default:
		sig = ed25519.Sign(signKey, []byte(signing))
	}
	switch tamper {
	case "payload":
		data2 := map[string]any{}
		for k, v := range data {
			data2[k] = v
		}
		data2["bits"] = append(append([]string(nil), bits...), c30App+":admin")
		claims2 := map[string]any{}
		for k, v := range claims {
			claims2[k] = v
		}
		claims2["vkuth_data"] = data2
		if rnd.IntN(2) == 0 {
			claims2["exp"] = sec + 100000
		}
		cb, _ = json.Marshal(claims2)
		claims = claims2
		signing = c30B64(hb) + "." + c30B64(cb)
	case "header":
		hdr2 := map[string]any{}
		for k, v := range hdr {
			hdr2[k] = v
		}
		hdr2["typ"] = "JWT2"
		hb, _ = json.Marshal(hdr2)
		hdr = hdr2
		signing = c30B64(hb) + "." + c30B64(cb)
	}
	text := signing + "." + c30B64(sig)
	switch sigMode {
	case "sig-bitflip":
		sig[rnd.IntN(len(sig))] ^= 1 << rnd.IntN(8)
		text = signing + "." + c30B64(sig)
	case "sig-truncated":
		text = signing + "." + c30B64(sig[:rnd.IntN(len(sig))])
	case "padding":
		text = signing + "." + base64.URLEncoding.EncodeToString(sig) // '=' padding is not JWT
	case "segments":
		text = []string{signing, signing + "." + c30B64(sig) + ".", "." + signing + "." + c30B64(sig), c30B64(cb) + "." + c30B64(sig), signing + ".."}[rnd.IntN(5)]
	case "garbage":
		text = []string{"", ".", "..", "a.b.c", "Bearer " + text, text + " ", " " + text, signing + ".!!!", "{}.{}.", strings.Repeat("A", 300)}[rnd.IntN(10)]
	}
	return c30Token{class: class, hdr: hdr, claims: claims, text: text}, granted
}

// ---------------------------------------------------------------------------------------
// test

func TestVerifC30(t *testing.T) {
	r := verifkit.Start(t, "C30", "access")
	defer r.Finish()
	r.SetRule("hand-assembled JWTs over 38 classes (valid; wrong / other configured / unknown / missing / non-string kid; HS256 and HS512 keyed with the public key; alg none / other / missing; " +
		"payload or header changed after signing; signature bit-flipped, truncated, empty, padded; wrong segment count; garbage; exp / iat / nbf swept ±7 s around the 5 s tolerance on a clock with sub-second part; " +
		"exp far / missing / quoted / not a number; iat missing; no registered claims; foreign / missing issuer; empty / missing user or vkuth_data; kind missing / other / non-string; bits with, without and with a foreign application prefix), " +
		"each followed by view decisions on 19 names and 6 edit/rename decisions under random protected prefixes. A third of the presentations re-present an already seen token string to the same verifier at another virtual time (made-for time, after expiry, before issue, around the tolerance; the clock also runs backwards); a fifth of the fresh tokens is first shown outside its window. Non-trivial = the token is not a plain valid one, grants at least one bit or is a re-presentation; distinct = distinct (token text, virtual time).")
	r.Assume("a validly signed token without exp or without any registered claim panics inside Claims.Valid; counted as not accepted (DESIGN C30)")
	n := r.N(48000, 2000000)
	workers := 8
	if r.Thorough() {
		workers = 16
	}
	r.Parallel(workers, "tokens", func(w *verifkit.Worker) {
		rnd := w.Rnd
		keys, helper, err := c30MakeKeys(rnd, w.Index)
		if err != nil {
			r.Violation("C30/keys/loader", "configured keys are not usable: "+err.Error(), map[string]any{"loader": w.Index % 3})
			return
		}
		w.Count(fmt.Sprintf("key_loader.%d", w.Index%3), 1)
		now := time.Unix(1790000000, 0)
		helper.SetNow(func() time.Time { return now })
		// History: acceptance must be a function of (token text, now) alone.  A third of the
		// presentations re-present a token string this helper has already seen, at another
		// virtual time (still valid, after expiry, before issue, around the tolerance; the
		// clock also moves backwards), interleaved with fresh tokens.  A fifth of the fresh
		// tokens is first shown outside its validity window and only later inside it.
		var pool []*c30Held
		for i := 0; i < n/workers; i++ {
			var e *c30Held
			if len(pool) > 0 && rnd.IntN(3) == 0 {
				e = pool[rnd.IntN(len(pool))]
				now = e.pickTime(rnd, rnd.IntN(5))
				w.Count("history.re_presented", 1)
			} else {
				now = time.Unix(1790000000+rnd.Int64N(1000000), rnd.Int64N(2)*rnd.Int64N(1000000000))
				tok, granted := c30Gen(rnd, keys, now)
				e = &c30Held{tok: tok, granted: granted, valid: now, lastReal: -1, lastRef: -1}
				if rnd.IntN(5) == 0 {
					now = e.pickTime(rnd, 1+rnd.IntN(2))
					w.Count("history.first_shown_outside_window", 1)
				}
				if len(pool) < 48 {
					pool = append(pool, e)
				} else {
					pool[rnd.IntN(len(pool))] = e
				}
			}
			protected := [][]string{nil, {"prot_"}, {"prot_", "ns:prot_"}, {"prot_", "ns:", "statshouse_"}, {"foo"}, {""}}[rnd.IntN(6)]
			c30Judge(r, w, rnd, keys, helper, now, e, protected, i)
		}
	})
	c30Modes(r)
}

// local / insecure mode hand out a fixed identity without looking at the token: a deployment
// switch outside the statement; exercised and recorded, not judged
func c30Modes(r *verifkit.Run) {
	rnd := r.Rand("modes")
	_, helper, err := c30MakeKeys(rnd, 0)
	if err != nil {
		return
	}
	for i := 0; i < 40; i++ {
		local, insecure := i%2 == 0, i%3 == 0
		if !local && !insecure {
			continue
		}
		ai, err := parseAccessToken(helper, []string{"", "garbage", "a.b.c"}[rnd.IntN(3)], []string{"prot_"}, local, insecure)
		if err == nil && ai.bitViewDefault {
			r.NotJudged("local_or_insecure_mode_identity_without_token", 1)
		} else {
			r.NotJudged("local_or_insecure_mode_refused", 1)
		}
	}
}

// a token string the helper has been shown, with what happened the last time
type c30Held struct {
	tok      c30Token
	granted  []string
	valid    time.Time // the virtual time the token was generated for
	shown    int
	lastReal int8 // real decision at the previous presentation: -1 none, 0 refused, 1 accepted
	lastRef  int8
	// the verifier has rightly accepted / refused this very string at some earlier virtual time
	everAccepted, everRefused bool
}

func c30ClaimSec(v any) (int64, bool) {
	switch x := v.(type) {
	case int64:
		return x, true
	case float64:
		return int64(x), true
	}
	return 0, false
}

// mode 0: the time it was made for; 1: after expiry; 2: before issue; 3: around exp minus
// tolerance; 4: around iat plus tolerance
func (e *c30Held) pickTime(rnd *rand.Rand, mode int) time.Time {
	exp, okE := c30ClaimSec(e.tok.claims["exp"])
	iat, okI := c30ClaimSec(e.tok.claims["iat"])
	if !okE || exp < 1e9 || exp > 3e9 {
		exp = e.valid.Unix() + 100
	}
	if !okI || iat < 1e9 || iat > 3e9 {
		iat = e.valid.Unix() - 100
	}
	nsec := rnd.Int64N(2) * rnd.Int64N(1000000000)
	switch mode {
	case 1:
		return time.Unix(exp+6+rnd.Int64N(4000), nsec)
	case 2:
		return time.Unix(iat-6-rnd.Int64N(1000), nsec)
	case 3:
		return time.Unix(exp+5+rnd.Int64N(15)-7, nsec)
	case 4:
		return time.Unix(iat-5+rnd.Int64N(15)-7, nsec)
	}
	return e.valid
}

func c30Judge(r *verifkit.Run, w *verifkit.Worker, rnd *rand.Rand, keys *c30Keys, helper *vkuth.JWTHelper, now time.Time, e *c30Held, protected []string, i int) {
	tok, granted := e.tok, e.granted
	ref := c30Reference(tok.text, keys, now)
	prevReal, prevRef := e.lastReal, e.lastRef
	everAccepted, everRefused := e.everAccepted, e.everRefused
	e.shown++
	witness := func(extra map[string]any) map[string]any {
		hb, _ := json.Marshal(tok.hdr)
		cb, _ := json.Marshal(tok.claims)
		m := map[string]any{"class": tok.class, "token": tok.text, "header": string(hb), "claims": string(cb), "now_unix": now.Unix(), "now_nsec": now.Nanosecond(),
			"reference_accepts": ref.accept, "reference_reason": ref.reason, "protected_prefixes": protected,
			"presentation_no": e.shown, "made_for_unix": e.valid.Unix(), "previous_presentation_accepted": prevReal, "previous_reference_accepts": prevRef}
		for k, v := range extra {
			m[k] = v
		}
		return m
	}
	// through the handler's own entry point, or the function below it
	viaInit := rnd.IntN(2) == 0
	endpoint := []string{EndpointQuery, EndpointTable, EndpointMetric, EndpointMetricList, EndpointDashboard, EndpointHealthcheck}[rnd.IntN(6)]
	var ai accessInfo
	var err error
	panicked := ""
	func() {
		defer func() {
			if p := recover(); p != nil {
				panicked = fmt.Sprintf("%v | %s", p, c30Stack())
			}
		}()
		if viaInit {
			h := &requestHandler{Handler: &Handler{HandlerOptions: HandlerOptions{protectedMetricPrefixes: protected}, jwtHelper: helper}, endpointStat: endpointStat{endpoint: endpoint}}
			err = h.init(tok.text, "header")
			ai = h.accessInfo
		} else {
			ai, err = parseAccessToken(helper, tok.text, protected, false, false)
		}
	}()
	w.Count("class."+tok.class, 1)
	if w.Index == 0 && i < 4 {
		r.Sample(witness(map[string]any{"accepted": err == nil && panicked == "", "via_init": viaInit}))
	}
	accepted := err == nil && panicked == ""
	if !(viaInit && endpoint == EndpointHealthcheck) { // there a refusal is masked by the fallback identity
		e.lastReal, e.lastRef = 0, 0
		if accepted {
			e.lastReal = 1
		}
		e.everAccepted = e.everAccepted || accepted && ref.accept
		e.everRefused = e.everRefused || !accepted && !ref.accept
		if ref.accept {
			e.lastRef = 1
		}
		if prevRef >= 0 && (prevRef == 1) != ref.accept && ref.band == "" {
			w.Count("history.reference_decision_changed_for_same_token", 1)
		}
	}
	if panicked != "" {
		if ref.sigValid && (ref.reason == "exp-missing" || tok.class == "no-registered-claims") {
			w.Count("panic.valid_signature_without_exp", 1) // not accepted
		} else {
			r.Violation("C30/panic/"+tok.class, "token parsing panics on a token that is not a correctly signed one without exp: "+panicked, witness(nil))
			return
		}
	}
	if viaInit && endpoint == EndpointHealthcheck && !ref.accept {
		// the healthcheck endpoint falls back to a fixed identity that can view one metric;
		// outside the statement: recorded, not judged
		r.NotJudged("healthcheck_endpoint_fallback", 1)
		w.Case(true, tok.text+"@"+now.String())
		return
	}
	if ref.band != "" {
		r.NotJudged("band."+ref.band, 1)
		w.Case(true, tok.text+"@"+now.String())
		return
	}
	w.Case(tok.class != "valid" || len(granted) > 0 || e.shown > 1, tok.text+"@"+now.String())
	if accepted != ref.accept {
		switch {
		case accepted && everAccepted:
			// the same string was rightly accepted at another virtual time: the earlier decision is replayed
			r.Violation("C30/history/earlier-acceptance-replayed/"+ref.reason, "a token accepted at one virtual time stays accepted at a time the statement rejects it ("+ref.reason+"): acceptance is not a function of (token, now)", witness(nil))
		case !accepted && everRefused:
			r.Violation("C30/history/earlier-refusal-replayed/"+tok.class, fmt.Sprintf("a token refused at one virtual time stays refused at a time the statement accepts it: %v", err), witness(nil))
		case accepted:
			r.Violation("C30/accepted-invalid/"+ref.reason, "a token the statement rejects ("+ref.reason+") was accepted", witness(nil))
		default:
			r.Violation("C30/rejected-valid/"+tok.class, fmt.Sprintf("a token the statement accepts was rejected: %v", err), witness(nil))
		}
		return
	}
	if !accepted {
		w.Count("rejected", 1)
		if !reflect.DeepEqual(ai, accessInfo{}) && !viaInit {
			r.Violation("C30/rejected-but-rights-returned", "parseAccessToken failed but returned a non-empty accessInfo", witness(map[string]any{"ai": fmt.Sprintf("%+v", ai)}))
		}
		return
	}
	w.Count("accepted", 1)
	// ---- granted bits: exactly the ones carrying the application prefix
	pol := &c30Policy{bits: ref.bits, protected: protected}
	vp, ep, vm, em := pol.expectedMaps()
	bad := func(field string, got, want any) {
		r.Violation("C30/bits/"+field, fmt.Sprintf("granted %s differs from the bits of the token: got %v want %v", field, got, want), witness(map[string]any{"granted_bits": c30SortedKeys(ref.bits)}))
	}
	if ai.user != ref.user {
		bad("user", ai.user, ref.user)
	}
	if ai.service != ref.service {
		bad("service", ai.service, ref.service)
	}
	if ai.bitAdmin != ref.bits["admin"] {
		bad("admin", ai.bitAdmin, ref.bits["admin"])
	}
	if ai.bitDeveloper != ref.bits["developer"] {
		bad("developer", ai.bitDeveloper, ref.bits["developer"])
	}
	if ai.bitViewDefault != ref.bits["view_default"] {
		bad("view_default", ai.bitViewDefault, ref.bits["view_default"])
	}
	if ai.bitEditDefault != ref.bits["edit_default"] {
		bad("edit_default", ai.bitEditDefault, ref.bits["edit_default"])
	}
	for _, x := range []struct {
		name      string
		got, want map[string]bool
	}{{"view_prefix", ai.bitViewPrefix, vp}, {"edit_prefix", ai.bitEditPrefix, ep}, {"view_metric", ai.bitViewMetric, vm}, {"edit_metric", ai.bitEditMetric, em}} {
		if len(x.got) != len(x.want) || (len(x.want) > 0 && !reflect.DeepEqual(x.got, x.want)) {
			bad(x.name, c30SortedKeys(x.got), c30SortedKeys(x.want))
		}
	}
	if !reflect.DeepEqual(ai.protectedPrefixes, protected) {
		bad("protected_prefixes", ai.protectedPrefixes, protected)
	}
	// the generator's own bookkeeping must agree with the reference's reading of the text
	gs := map[string]bool{}
	for _, g := range granted {
		gs[g] = true
	}
	if !reflect.DeepEqual(c30SortedKeys(gs), c30SortedKeys(ref.bits)) && tok.class != "tampered-payload" {
		r.Inconclusive(fmt.Sprintf("C30 harness: generator granted %v, reference reads %v", c30SortedKeys(gs), c30SortedKeys(ref.bits)))
	}
	c30JudgePolicy(r, w, rnd, &ai, pol, witness)
}

func c30JudgePolicy(r *verifkit.Run, w *verifkit.Worker, rnd *rand.Rand, ai *accessInfo, pol *c30Policy, witness func(map[string]any) map[string]any) {
	admin := pol.admin()
	// ---- view
	for _, n := range c30Names {
		got := ai.CanViewMetricName(n)
		if got != ai.CanViewMetric(format.MetricMetaValue{Name: n}) {
			r.Violation("C30/view/name-and-metric-disagree", "CanViewMetric and CanViewMetricName disagree", witness(map[string]any{"name": n}))
		}
		if admin {
			r.NotJudged("view_decision_for_admin", 1)
			continue
		}
		w.Count("decisions.view", 1)
		if format.RemoteConfigMetric(n) {
			if got {
				r.Violation("C30/view/remote-config-non-admin", "a non-admin can view a remote-config metric", witness(map[string]any{"name": n, "granted_bits": c30SortedKeys(pol.bits)}))
			}
			continue
		}
		want := pol.right("view", n)
		if got && !want {
			r.Violation("C30/view/granted-without-right", "view granted without a matching metric, prefix, namespace or default bit", witness(map[string]any{"name": n, "granted_bits": c30SortedKeys(pol.bits)}))
		} else if !got && want {
			r.Violation("C30/view/denied-with-right", "view denied although a matching bit is present", witness(map[string]any{"name": n, "granted_bits": c30SortedKeys(pol.bits)}))
		}
	}
	// ---- edit / rename
	for k := 0; k < 6; k++ {
		oldN := c30Names[rnd.IntN(len(c30Names))]
		newN := oldN
		if rnd.IntN(3) == 0 {
			newN = c30Names[rnd.IntN(len(c30Names))]
		}
		old := format.MetricMetaValue{Name: oldN, MetricID: 7, Weight: float64(rnd.IntN(3)), Resolution: 1,
			Tags: []format.MetricMetaTag{{}, {RawKind: []string{"", "int", "hex"}[rnd.IntN(3)]}, {RawKind: []string{"", "", "uint"}[rnd.IntN(3)]}}}
		if rnd.IntN(3) == 0 {
			old.PreKeyTagID, old.PreKeyFrom = "1", 1700000000
		}
		if rnd.IntN(4) == 0 {
			old.ShardStrategy, old.ShardNum = format.ShardFixed, 2
		}
		nw := old
		nw.Name = newN
		nw.Tags = append([]format.MetricMetaTag(nil), old.Tags...)
		forbidden := "" // attribute a non-admin may never change
		silent := ""    // change the statement does not clearly cover
		switch rnd.IntN(22) {
		case 0:
			nw.Weight = float64(rnd.IntN(4))
			if nw.Weight != old.Weight && !(old.Weight == 0 && nw.Weight == 1) {
				forbidden = "weight"
			}
		case 1:
			nw.PreKeyFrom = old.PreKeyFrom + 5
			forbidden = "presort-from"
		case 2:
			nw.PreKeyOnly = !old.PreKeyOnly
			forbidden = "presort-only"
		case 3:
			nw.SkipMaxHost = true
			forbidden = "skip-max-host"
		case 4:
			nw.SkipMinHost = true
			forbidden = "skip-min-host"
		case 5:
			nw.SkipSumSquare = true
			forbidden = "skip-sum-square"
		case 6:
			nw.ShardStrategy = []string{format.ShardByMetricID, format.ShardByTagsHash, "x"}[rnd.IntN(3)]
			if nw.ShardStrategy != old.ShardStrategy {
				forbidden = "shard-strategy"
			}
		case 7:
			nw.ShardNum = old.ShardNum + 1
			forbidden = "shard-num"
		case 8:
			kind := []string{"", "int", "hex", "ip"}[rnd.IntN(4)]
			nw.Tags[1].RawKind = kind
			if (kind != "") != (old.Tags[1].RawKind != "") {
				forbidden = "raw-flag"
			} else if kind != old.Tags[1].RawKind {
				silent = "raw_kind_changed_between_raw_kinds"
			}
		case 9:
			nw.Tags = nw.Tags[:1+rnd.IntN(2)]
			for j := len(nw.Tags); j < len(old.Tags); j++ {
				if old.Tags[j].RawKind != "" {
					forbidden = "raw-flag-by-dropping-tag"
				}
			}
		case 10:
			nw.Tags = append(nw.Tags, format.MetricMetaTag{RawKind: []string{"", "int"}[rnd.IntN(2)]})
			if nw.Tags[len(nw.Tags)-1].RawKind != "" {
				forbidden = "raw-flag-by-adding-tag"
			}
		case 11:
			nw.ShardFixedKey = old.ShardFixedKey + 7
			forbidden = "shard-fixed-key"
		case 12:
			nw.ShardFixedKey2 = 3
			forbidden = "shard-fixed-key2"
		case 13:
			nw.ShardFixedKey2Timestamp = 1700000001
			forbidden = "shard-fixed-key2-timestamp"
		case 14:
			nw.PreKeyTagID = []string{"2", "1", ""}[rnd.IntN(3)]
			if nw.PreKeyTagID != old.PreKeyTagID {
				if old.PreKeyFrom != 0 {
					forbidden = "presort-tag-id"
				} else {
					silent = "presort_tag_id_changed_while_presort_is_off"
				}
			}
		case 15, 16:
			nw.Description = "changed"
			nw.Resolution = 5
			nw.Tags[0].Description = "env"
			nw.Tags[2].Name = "renamed"
		}
		create := rnd.IntN(2) == 0
		err := ai.CanEditMetric(create, old, nw)
		allowed := err == nil
		if allowed != ai.canChangeMetricByName(create, old, nw) && forbidden == "" && silent == "" {
			r.Violation("C30/edit/name-check-and-edit-disagree", "CanEditMetric and canChangeMetricByName disagree without an attribute change", witness(map[string]any{"old": oldN, "new": newN}))
		}
		if admin {
			r.NotJudged("edit_decision_for_admin", 1)
			continue
		}
		w.Count("decisions.edit", 1)
		ew := func(extra string) map[string]any {
			return witness(map[string]any{"old_name": oldN, "new_name": newN, "old": fmt.Sprintf("%+v", old), "new": fmt.Sprintf("%+v", nw), "change": forbidden + silent + extra,
				"granted_bits": c30SortedKeys(pol.bits), "decision_error": fmt.Sprint(err)})
		}
		remote := format.RemoteConfigMetric(oldN) || format.RemoteConfigMetric(newN)
		if remote {
			if allowed {
				r.Violation("C30/edit/remote-config-non-admin", "a non-admin can change a remote-config metric", ew(""))
			}
			continue
		}
		om, op, od := pol.rights("edit", oldN)
		nm, np, nd := pol.rights("edit", newN)
		both := (om || op || od) && (nm || np || nd)
		sameKind := om && nm || op && np || od && nd
		if allowed && !both {
			r.Violation("C30/edit/granted-beyond-rights", "edit/rename allowed without edit rights on both the old and the new name", ew(""))
			continue
		}
		if allowed && forbidden != "" {
			r.Violation("C30/edit/forbidden-attribute/"+forbidden, "a non-admin may change "+forbidden, ew(""))
			continue
		}
		if silent != "" {
			r.NotJudged(silent, 1)
			continue
		}
		if !allowed && forbidden == "" {
			if sameKind {
				r.Violation("C30/edit/denied-though-permitted", "edit denied although the bits give the same kind of edit right on both names and no protected attribute changes", ew(""))
			} else if both {
				// rights of different kinds on the two names: the code is stricter than the statement
				r.NotJudged("rename_with_rights_of_different_kinds_denied", 1)
			}
		}
	}
}

func c30SortedKeys(m map[string]bool) []string {
	out := make([]string, 0, len(m))
	for k, v := range m {
		if v {
			out = append(out, k)
		}
	}
	sort.Strings(out)
	return out
}

func c30Stack() string {
	var keep []string
	for _, x := range strings.Split(string(debug.Stack()), "\n") {
		if (strings.Contains(x, "/internal/api") || strings.Contains(x, "/vkuth/") || strings.Contains(x, "golang-jwt")) && !strings.Contains(x, "zz_verif") && strings.HasPrefix(x, "\t") {
			keep = append(keep, strings.TrimSpace(x))
		}
	}
	if len(keep) > 6 {
		keep = keep[:6]
	}
	return strings.Join(keep, " <- ")
}
