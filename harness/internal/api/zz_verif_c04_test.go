//go:build verif

package api

import (
	"bytes"
	"encoding/binary"
	"fmt"
	"math"
	mrand "math/rand/v2"
	"testing"

	"github.com/hrissan/tdigest"

	"github.com/VKCOM/statshouse/internal/data_model"
	"github.com/VKCOM/statshouse/internal/zzverif/verifkit"
)

// C04, unit "api": tsValues.merge (the API-side merge of rows of one series) must not depend on the order or
// grouping in which the rows of one multiset are merged.  Rows are used the way promql.go uses them: the first row
// is copied by assignment (it shares memory with the read-only cache), every other one goes through merge.

type c04Row struct {
	Count  float64 `json:"count"`
	Min    float64 `json:"min"`
	Max    float64 `json:"max"`
	Sum    float64 `json:"sum"`
	SumSq  float64 `json:"sumsq"`
	UStart int64   `json:"uniq_start"`
	ULen   int     `json:"uniq_len"`
	MinArg int32   `json:"min_host"`
	MinVal float32 `json:"min_host_val"`
	MaxArg int32   `json:"max_host"`
	MaxVal float32 `json:"max_host_val"`
	MinS   string  `json:"min_host_str"`
	MaxS   string  `json:"max_host_str"`
	Pct    bool    `json:"percentile"`
	Read   bool    `json:"sketch_read_from_bytes"` // the sketch goes through ChUnique.ReadFrom, as a ClickHouse column does
}

func (rw *c04Row) build() tsValues {
	v := tsValues{min: rw.Min, max: rw.Max, sum: rw.Sum, count: rw.Count, sumsquare: rw.SumSq, cardinality: rw.Count}
	for k := 0; k < rw.ULen; k++ {
		v.unique.Insert(uint64(rw.UStart + int64(k)))
	}
	if rw.Read {
		var u data_model.ChUnique
		if err := u.ReadFrom(bytes.NewReader(v.unique.MarshallAppend(nil))); err == nil {
			v.unique = u
		}
	}
	v.minHost.Arg, v.minHost.Val = rw.MinArg, rw.MinVal
	v.maxHost.Arg, v.maxHost.Val = rw.MaxArg, rw.MaxVal
	// V3 columns carry either a mapped int32 or a string
	if rw.MinS != "" {
		v.minHostStr.AsString, v.minHostStr.Val = rw.MinS, rw.MinVal
	} else {
		v.minHostStr.AsInt32, v.minHostStr.Val = rw.MinArg, rw.MinVal
	}
	if rw.MaxS != "" {
		v.maxHostStr.AsString, v.maxHostStr.Val = rw.MaxS, rw.MaxVal
	} else {
		v.maxHostStr.AsInt32, v.maxHostStr.Val = rw.MaxArg, rw.MaxVal
	}
	if rw.Pct {
		v.percentile = tdigest.NewWithCompression(80)
		v.percentile.Add(rw.Min, 1)
		v.percentile.Add(rw.Max, rw.Count)
	}
	return v
}

// fingerprint of the memory a cached row owns (must survive merges untouched)
func c04RowPrint(v *tsValues) string {
	p := fmt.Sprintf("%v|%v|%v|%v|%v|%x|%v|%v|%v|%v", v.min, v.max, v.sum, v.count, v.sumsquare, v.unique.MarshallAppend(nil), v.minHost, v.maxHost, v.minHostStr, v.maxHostStr)
	return p
}

func c04PctPrint(v *tsValues) string {
	if v.percentile == nil {
		return "nil"
	}
	return fmt.Sprintf("%v/%v", v.percentile.Count(), len(v.percentile.Centroids()))
}

// class of a wrong sketch, read off its serialized form: skip degree, item count, items
func c04SketchClassFromBytes(b []byte, maxInSkip byte) string {
	if len(b) < 2 {
		return ""
	}
	skip := b[0]
	rd := bytes.NewReader(b[1:])
	n, err := binary.ReadUvarint(rd)
	if err != nil {
		return ""
	}
	for i := uint64(0); i < n; i++ {
		var x uint32
		if binary.Read(rd, binary.LittleEndian, &x) != nil {
			return ""
		}
		if x != (x>>skip)<<skip {
			return "merge-good-level" // keeps a hash that is not divisible by 2^skipDegree
		}
	}
	if skip < maxInSkip {
		return "skip-degree-not-adopted"
	}
	return ""
}

func c04GenRows(rnd *mrand.Rand) (rows []c04Row, emptyArgs bool) {
	n := 2 + rnd.IntN(7)
	if rnd.IntN(10) == 0 {
		n = 2 + rnd.IntN(39)
	}
	bigUniq := rnd.IntN(12) == 0
	emptyArgs = rnd.IntN(7) == 0
	valTies := rnd.IntN(2) == 0
	for i := 0; i < n; i++ {
		var rw c04Row
		rw.Count = float64(1 + rnd.IntN(1000))
		a, b := float64(rnd.IntN(2001)-1000), float64(rnd.IntN(2001)-1000)
		if rnd.IntN(3) == 0 {
			a, b = float64(rnd.IntN(5)-2), float64(rnd.IntN(5)-2)
		}
		rw.Min, rw.Max = math.Min(a, b), math.Max(a, b)
		rw.Sum = rw.Min + rw.Max*(rw.Count-1)
		rw.SumSq = rw.Min*rw.Min + rw.Max*rw.Max*(rw.Count-1)
		rw.UStart = rnd.Int64N(300000)
		switch {
		case bigUniq && i < 3 && rnd.IntN(2) == 0:
			rw.ULen = 60000 + rnd.IntN(140000)
		case rnd.IntN(3) == 0:
			rw.ULen = 0
		default:
			rw.ULen = 1 + rnd.IntN(300)
		}
		hostVal := func() float32 {
			if valTies {
				return float32(rnd.IntN(4)) / 2
			}
			return float32(rnd.NormFloat64() * 100)
		}
		rw.MinArg, rw.MaxArg = int32(1+rnd.IntN(5)), int32(1+rnd.IntN(5))
		rw.MinVal, rw.MaxVal = hostVal(), hostVal()
		if rnd.IntN(3) == 0 {
			rw.MinS = fmt.Sprintf("h%d", rnd.IntN(4))
		}
		if rnd.IntN(3) == 0 {
			rw.MaxS = fmt.Sprintf("h%d", rnd.IntN(4))
		}
		if emptyArgs && rnd.IntN(3) == 0 { // a row written without host information
			rw.MinArg, rw.MaxArg, rw.MinS, rw.MaxS, rw.MinVal, rw.MaxVal = 0, 0, "", "", 0, 0
		}
		rw.Pct = rnd.IntN(4) == 0
		rw.Read = rnd.IntN(2) == 0
		rows = append(rows, rw)
	}
	return rows, emptyArgs
}

func TestVerifC04(t *testing.T) {
	r := verifkit.Start(t, "C04", "api")
	defer r.Finish()
	r.SetRule("2–40 rows of one series (integer count/min/max/sum/sumsq, unique sets of 0…200 000 items as overlapping ranges, int32 and string arg-min/arg-max hosts with float32 keys incl. ties, " +
		"optional percentiles) folded with tsValues.merge in random permutations (first row assigned, as promql.go does) and along random binary trees; " +
		"non-trivial = ≥3 rows and (two rows tie on a host key or a sketch is thinned); distinct = distinct row lists.")
	workers := 8
	n := r.N(2400, 36000)
	trials := 16
	r.Parallel(workers, "rows", func(w *verifkit.Worker) {
		rnd := w.Rnd
		for it := 0; it < n/workers; it++ {
			rows, emptyArgs := c04GenRows(rnd)
			cache := make([]tsValues, len(rows)) // plays the read-only cache
			prints := make([]string, len(rows))
			pctPrints := make([]string, len(rows))
			var ref data_model.ChUnique
			var cnt, sum, sumsq float64
			mn, mx := math.Inf(1), math.Inf(-1)
			minVal, maxVal := float32(math.Inf(1)), float32(math.Inf(-1))
			maxLeafSkip := byte(0)
			big := false
			for i := range rows {
				cache[i] = rows[i].build()
				prints[i] = c04RowPrint(&cache[i])
				pctPrints[i] = c04PctPrint(&cache[i])
				for k := 0; k < rows[i].ULen; k++ {
					ref.Insert(uint64(rows[i].UStart + int64(k)))
				}
				if b := cache[i].unique.MarshallAppend(nil); b[0] > maxLeafSkip {
					maxLeafSkip = b[0]
				}
				big = big || rows[i].ULen > 60000
				cnt += rows[i].Count
				sum += rows[i].Sum
				sumsq += rows[i].SumSq
				mn, mx = math.Min(mn, rows[i].Min), math.Max(mx, rows[i].Max)
				minVal, maxVal = min(minVal, rows[i].MinVal), max(maxVal, rows[i].MaxVal)
			}
			type pairI struct {
				a int32
				v float32
			}
			type pairS struct {
				s string
				a int32
				v float32
			}
			minI, maxI := map[pairI]bool{}, map[pairI]bool{}
			minS, maxS := map[pairS]bool{}, map[pairS]bool{}
			tie := false
			for i := range cache {
				c := &cache[i]
				if c.minHost.Val == minVal {
					tie = tie || len(minI) > 0
					minI[pairI{c.minHost.Arg, c.minHost.Val}] = true
					minS[pairS{c.minHostStr.AsString, c.minHostStr.AsInt32, c.minHostStr.Val}] = true
				}
				if c.maxHost.Val == maxVal {
					tie = tie || len(maxI) > 0
					maxI[pairI{c.maxHost.Arg, c.maxHost.Val}] = true
					maxS[pairS{c.maxHostStr.AsString, c.maxHostStr.AsInt32, c.maxHostStr.Val}] = true
				}
			}
			want := ref.Size(false)
			// one trial = a permutation plus (for trees) the sequence of joins; it is deterministic, so a failing
			// trial can be replayed with a look at the sketch after every step to name the step that went wrong
			runTrial := func(perm []int, joins []int, classify bool) (res tsValues, class string) {
				look := func(v *tsValues, inSkip byte) {
					if classify && class == "" {
						class = c04SketchClassFromBytes(v.unique.MarshallAppend(nil), inSkip)
					}
				}
				skipOf := func(v *tsValues) byte { return v.unique.MarshallAppend(nil)[0] }
				if joins == nil {
					res = cache[perm[0]] // assignment: shares memory with the cache
					for _, p := range perm[1:] {
						var in byte
						if classify {
							in = max(skipOf(&res), skipOf(&cache[p]))
						}
						res.merge(cache[p])
						look(&res, in)
					}
					return res, class
				}
				items := make([]tsValues, len(perm))
				for i, p := range perm {
					items[i] = cache[p]
				}
				for _, i := range joins {
					var in byte
					if classify {
						in = max(skipOf(&items[i]), skipOf(&items[i+1]))
					}
					items[i].merge(items[i+1])
					look(&items[i], in)
					items = append(items[:i+1], items[i+2:]...)
				}
				return items[0], class
			}
			for trial := 0; trial < trials; trial++ {
				perm := rnd.Perm(len(rows))
				how := "perm"
				var joins []int
				if trial%2 == 1 {
					how = "tree"
					for l := len(rows); l > 1; l-- {
						joins = append(joins, rnd.IntN(l-1))
					}
				}
				res, _ := runTrial(perm, joins, false)
				order := append(append([]int{}, perm...), joins...)
				w.Count("api.trials."+how, 1)
				bad := func(key, f string, a ...any) {
					r.Violation(key, fmt.Sprintf(f, a...), map[string]any{"rows": rows, "how": how, "order(perm, then tree joins)": order})
				}
				if res.count != cnt || res.min != mn || res.max != mx {
					bad("C04/api-merge/count-min-max", "count/min/max %v/%v/%v, rows give %v/%v/%v", res.count, res.min, res.max, cnt, mn, mx)
				}
				if res.sum != sum || res.sumsquare != sumsq {
					bad("C04/api-merge/sum-exact", "sum/sumsq %v/%v, integer rows sum to %v/%v", res.sum, res.sumsquare, sum, sumsq)
				}
				if res.cardinality != cnt {
					bad("C04/api-merge/cardinality", "cardinality %v, rows sum to %v", res.cardinality, cnt)
				}
				if got := res.unique.Size(false); got != want {
					key := "C04/api-merge/unique-size-differs"
					if _, cl := runTrial(perm, joins, true); cl != "" {
						key = "C04/unique-merge-order/" + cl // tsValues.merge reaches the sketch only through ChUnique.Merge
					}
					bad(key, "%s of the rows estimates %d unique values, inserting every item into one sketch estimates %d", how, got, want)
				}
				if !minI[pairI{res.minHost.Arg, res.minHost.Val}] {
					bad("C04/min-host/not-a-contributor", "int32 min host %+v is not a row with the smallest key %v", res.minHost, minVal)
				}
				if !maxI[pairI{res.maxHost.Arg, res.maxHost.Val}] {
					bad("C04/max-host/not-a-contributor", "int32 max host %+v is not a row with the largest key %v", res.maxHost, maxVal)
				}
				if emptyArgs {
					// a row without host information: whether "no host" may win is not stated by the property
					w.R.NotJudged("api.string_host_when_some_rows_have_no_host", 1)
				} else {
					if !minS[pairS{res.minHostStr.AsString, res.minHostStr.AsInt32, res.minHostStr.Val}] {
						bad("C04/min-host/not-a-contributor", "string min host %+v is not a row with the smallest key %v", res.minHostStr, minVal)
					}
					if !maxS[pairS{res.maxHostStr.AsString, res.maxHostStr.AsInt32, res.maxHostStr.Val}] {
						bad("C04/max-host/not-a-contributor", "string max host %+v is not a row with the largest key %v", res.maxHostStr, maxVal)
					}
				}
			}
			// rows live in a read-only cache: a merge that writes into its inputs makes later merges of the same rows differ
			for i := range cache {
				if p := c04RowPrint(&cache[i]); p != prints[i] {
					r.Violation("C04/api-merge/input-row-mutated", "a merge changed one of its input rows, so merging the same rows again gives another result",
						map[string]any{"rows": rows, "row": i, "before": prints[i], "after": p})
				}
				if p := c04PctPrint(&cache[i]); p != pctPrints[i] {
					// percentiles are outside the statement of C04; visible in the evidence only
					w.R.NotJudged("api.input_percentile_changed_by_merge", 1)
				}
			}
			if ref.Size(true) != ref.Size(false) || big {
				w.Count("api.cases.with_big_sketch", 1)
			}
			if tie {
				w.Count("api.cases.host_key_tie", 1)
			}
			w.Case(len(rows) >= 3 && (tie || maxLeafSkip > 0 || big), fmt.Sprint(rows))
			if w.Index == 0 && it < 2 {
				r.Sample(map[string]any{"rows": rows, "want_unique": want})
			}
		}
	})
}
