//go:build verif

package api

// C26 — user-supplied filter values cannot change the structure of storage queries.
//
// Workload: buildSeriesQuery / buildTagValuesQuery / buildTagValueIDsQuery with generated
// filters (mapped / unmapped / both / empty values, regular expressions, raw and raw64 tags,
// the string-top tag, both polarities), every user string hostile (quotes, backslashes, NUL,
// newlines, comment markers, SQL fragments, invalid UTF-8) and carrying a unique marker.  Half
// of the filters are built directly, half come from request strings through the handler's own
// parseQueryFilter + resolveFilter + GetTagFilter with a real in-memory mapping storage.
//
// Oracle: the statement tokenizes under ClickHouse's literal rules with balanced parentheses
// and the expected clause skeleton; every marker occurs at most once, inside one string
// literal whose decoded value is the original string; every literal is one the request
// explains; the parsed WHERE clause, evaluated over synthetic rows, selects exactly the rows
// the filter semantics select.

import (
	"context"
	"fmt"
	"math/rand/v2"
	"regexp"
	"sort"
	"strconv"
	"strings"
	"testing"
	"time"

	"github.com/VKCOM/statshouse/internal/data_model"
	"github.com/VKCOM/statshouse/internal/data_model/gen2/tlstatshouse"
	"github.com/VKCOM/statshouse/internal/format"
	"github.com/VKCOM/statshouse/internal/mappings_tracker"
	"github.com/VKCOM/statshouse/internal/metajournal"
	"github.com/VKCOM/statshouse/internal/zzverif/verifkit"
)

// ---------------------------------------------------------------------------------------
// hostile strings

var c26Pieces = []string{"'", "\\", "\\'", "''", "\\\\'", "'\\", "\x00", "\n", "\r\n", "\t", "--", "-- ", "/*", "*/", "#", ";", ")", "(", "))", ",", "','",
	"') OR 1=1 --", "' OR ''='", "\\') OR (1=1", "'; DROP TABLE statshouse_v6_1s; --", " UNION SELECT ", "\\x27", "\\047", "%", "_", "`", "\"", "$", "{}", "\xff", "\xc3\x28", " ", "é",
	"日本", "a", "B", "0", " ", "=", "\\n", "\\0", "\\N", "\\\\", "'''", "\\'\\'", "stag1", "tag1 IN (1)", "0=0", "match(", "\x1b", "\x7f", "\b"}

var c26RePieces = []string{".*", "^", "$", "[a-z]+", "\\.", "\\\\", "\\'", "'", "(a|b)", "a{2,3}", "\\d+", "[^']*", "\\x27", "(?i)", "\\s", "|", "\\Q'\\E", "[\\\\]", "\\n", "x?"}

type c26User struct {
	s      string
	marker string
}

type c26Strings struct {
	seq int
	all []c26User
}

func (u *c26Strings) mk(rnd *rand.Rand, pieces []string, valid bool) string {
	u.seq++
	marker := "Mk" + strconv.Itoa(u.seq) + "Q"
	var sb strings.Builder
	for n := rnd.IntN(4); n > 0; n-- {
		sb.WriteString(pieces[rnd.IntN(len(pieces))])
	}
	sb.WriteString(marker)
	for n := rnd.IntN(4); n > 0; n-- {
		sb.WriteString(pieces[rnd.IntN(len(pieces))])
	}
	if rnd.IntN(12) == 0 {
		sb.WriteString("\\") // a trailing backslash must not swallow the closing quote
	}
	if rnd.IntN(40) == 0 {
		sb.WriteString(strings.Repeat("'\\", 200))
	}
	s := sb.String()
	if valid { // the API path accepts only values format.ValidTagValueForAPI lets through
		s = format.ForceValidStringValue(s)
		if !strings.Contains(s, marker) {
			s = marker
		}
	}
	u.all = append(u.all, c26User{s: s, marker: marker})
	return s
}

// ---------------------------------------------------------------------------------------
// case

type c26Filter struct { // one polarity of one tag, as the reference reads it
	mapped  []int64
	strs    []string
	re      string
	reSet   bool
	empty   bool
	present bool
}

type c26Case struct {
	metric   *format.MetricMetaValue
	pq       queryBuilder
	lod      data_model.LOD
	settings string
	in, out  [format.MaxTags]c26Filter
	users    c26Strings
	via      string // "direct" or "request"
	request  []string
	emitted  map[string]bool // user strings that must appear in the text
	// queries over several metrics (PromQL name matchers): no single metric, explicit id lists
	noMetric              bool
	metricsIn, metricsOut []int32
}

func (c *c26Case) raw(x int) bool {
	return !c.noMetric && x < len(c.metric.Tags) && c.metric.Tags[x].Raw()
}

func c26Metric(rnd *rand.Rand) *format.MetricMetaValue {
	m := &format.MetricMetaValue{MetricID: 1000 + int32(rnd.IntN(1000)), Name: "verif_c26"}
	for i := 0; i < 16; i++ {
		t := format.MetricMetaTag{}
		switch {
		case i == 3 || i == 9:
			t.RawKind = []string{"int", "hex", "uint"}[rnd.IntN(3)]
		case i == 5:
			t.RawKind = "int64" // raw64: uses tag 5 and tag 6
		}
		if i == 9 {
			t.ValueComments = map[string]string{" 7": "seven", " 8": "eight's"}
		}
		m.Tags = append(m.Tags, t)
	}
	if rnd.IntN(5) == 0 {
		m.StringTopDescription = "top"
	}
	if rnd.IntN(3) == 0 {
		m.PreKeyTagID, m.PreKeyFrom = "2", 1
	}
	_ = m.RestoreCachedInfo()
	return m
}

var c26FilterTags = []int{0, 1, 2, 3, 4, 5, 7, 9, 15, format.StringTopTagIndexV3}

func c26GenDirect(rnd *rand.Rand, c *c26Case) {
	c.via = "direct"
	for _, pol := range []int{0, 1} {
		tf := &c.pq.filterIn
		ref := &c.in
		if pol == 1 {
			tf, ref = &c.pq.filterNotIn, &c.out
		}
		for _, x := range c26FilterTags {
			if rnd.IntN(4) != 0 {
				continue
			}
			raw := x < len(c.metric.Tags) && c.metric.Tags[x].Raw()
			f := &ref[x]
			f.present = true
			for n := rnd.IntN(4); n > 0; n-- {
				switch rnd.IntN(5) {
				case 0:
					v := rnd.Int64N(9) - 2
					if x == 5 && rnd.IntN(2) == 0 {
						v = rnd.Int64() // raw64 values
					}
					if v == 0 {
						v = 11
					}
					tf.Append(x, data_model.NewTagValueM(v))
					f.mapped = append(f.mapped, v)
				case 1:
					s := c.users.mk(rnd, c26Pieces, false)
					tf.Append(x, data_model.NewTagValueS(s))
					f.strs = append(f.strs, s)
				case 2, 3:
					s := c.users.mk(rnd, c26Pieces, false)
					v := []int64{format.TagValueIDDoesNotExist, 1 + rnd.Int64N(9)}[rnd.IntN(2)]
					tf.Append(x, data_model.NewTagValue(s, v))
					f.mapped = append(f.mapped, v)
					f.strs = append(f.strs, s)
				case 4:
					tf.Append(x, data_model.NewTagValue("", 0))
					f.empty = true
				}
			}
			if rnd.IntN(4) == 0 {
				f.re = c.users.mk(rnd, c26RePieces, false)
				f.reSet = true
				tf.Tags[x].Re2 = f.re
			}
			if len(tf.Tags[x].Values) == 0 && !f.reSet {
				f.present = false
			}
			_ = raw
		}
	}
}

// the same through the request path: "f" parameters -> parseQueryFilter -> resolveFilter
func c26GenRequest(rnd *rand.Rand, c *c26Case, h *requestHandler, mapped map[string]int32) error {
	c.via = "request"
	type want struct {
		x   int
		pol int
		val string
	}
	var wants []want
	for _, x := range c26FilterTags {
		if rnd.IntN(3) != 0 {
			continue
		}
		for n := 1 + rnd.IntN(3); n > 0; n-- {
			pol := rnd.IntN(2)
			var v string
			switch rnd.IntN(7) {
			case 0:
				v = "" // empty value
			case 1:
				v = format.CodeTagValue(int32(rnd.IntN(7))) // " 5": raw code, " 0"/"" = empty
				if x < len(c.metric.Tags) && c.metric.Tags[x].Raw() && rnd.IntN(3) == 0 {
					v = format.CodeTagValue(-3 - int32(rnd.IntN(5))) // raw values may be negative (-2 is left to c26Probes)
				}
			case 2:
				keys := make([]string, 0, len(mapped))
				for k := range mapped {
					keys = append(keys, k)
				}
				sort.Strings(keys)
				v = keys[rnd.IntN(len(keys))] // a value the mapping storage knows
			case 3:
				if x == 9 {
					v = []string{"seven", "eight's"}[rnd.IntN(2)] // raw tag with value comments
					break
				}
				fallthrough
			default:
				v = c.users.mk(rnd, c26Pieces, true)
			}
			id := format.TagID(x)
			if x == format.StringTopTagIndexV3 {
				id = format.StringTopTagID
			}
			sep := queryFilterInSep
			if pol == 1 {
				sep = queryFilterNotInSep
			}
			c.request = append(c.request, id+sep+v)
			wants = append(wants, want{x, pol, v})
		}
	}
	fin, fout, err := parseQueryFilter(c.request)
	if err != nil {
		return err
	}
	if c.pq.filterIn, err = h.resolveFilter(c.metric, fin); err != nil {
		return err
	}
	if c.pq.filterNotIn, err = h.resolveFilter(c.metric, fout); err != nil {
		return err
	}
	// reference reading of the request: what each value means for a stored row
	for _, w := range wants {
		f := &c.in[w.x]
		if w.pol == 1 {
			f = &c.out[w.x]
		}
		f.present = true
		tag := c.metric.Tags[0]
		if w.x < len(c.metric.Tags) {
			tag = c.metric.Tags[w.x]
		}
		switch {
		case w.val == "":
			f.empty = true
		case strings.HasPrefix(w.val, " "):
			n, _ := strconv.ParseInt(w.val[1:], 10, 64)
			if n == 0 {
				f.empty = true
			} else {
				f.mapped = append(f.mapped, n)
			}
		case tag.Raw() && tag.Comment2Value[w.val] != "":
			n, _ := strconv.ParseInt(tag.Comment2Value[w.val][1:], 10, 64)
			f.mapped = append(f.mapped, n)
		case tag.Raw():
			// neither a number nor a known comment: no stored row of a raw tag carries it
		default:
			if id, ok := mapped[w.val]; ok {
				f.mapped = append(f.mapped, int64(id))
			}
			f.strs = append(f.strs, w.val)
		}
	}
	return nil
}

// ---------------------------------------------------------------------------------------
// reference semantics of one tag filter on a stored row

func (f *c26Filter) matches(iv int64, sv string, raw bool, re map[string]*regexp.Regexp) (bool, error) {
	for _, m := range f.mapped {
		if m == iv {
			return true, nil
		}
	}
	if !raw {
		if f.reSet {
			r := re[f.re]
			if r == nil {
				var err error
				if r, err = regexp.Compile(f.re); err != nil {
					return false, c26BadRegexp{err}
				}
				re[f.re] = r
			}
			if r.MatchString(sv) {
				return true, nil
			}
		} else {
			for _, s := range f.strs {
				if s == sv {
					return true, nil
				}
			}
		}
	}
	if f.empty && iv == 0 && (raw || sv == "") {
		return true, nil
	}
	return false, nil
}

// ---------------------------------------------------------------------------------------
// test

func c26Mappings(r *verifkit.Run) (*metajournal.MappingsStorage, map[string]int32) {
	ms := metajournal.MakeMappings(context.Background(), 0, true, 64, []*data_model.ChunkedStorage2{nil, nil})
	known := map[string]int32{"production": 1, "staging": 2, "it's": 3, "back\\slash": 4, "a b": 5, "x--y": 6, "semi;colon": 7, "日本": 8, "q\"uote": 9}
	var list []tlstatshouse.Mapping
	for s, v := range known {
		list = append(list, tlstatshouse.Mapping{Str: s, Value: v})
	}
	sort.Slice(list, func(i, j int) bool { return list[i].Value < list[j].Value })
	served := false
	err := ms.UpdateMappingsUntilVersion(9, format.TagValueIDComponentAPI, func(ctx context.Context, lastVersion int32, returnIfEmpty bool) ([]tlstatshouse.Mapping, int32, int32, error) {
		if served {
			return nil, 9, 9, nil
		}
		served = true
		return list, 9, 9, nil
	})
	if err != nil {
		r.Inconclusive("cannot fill the mapping storage: " + err.Error())
	}
	return ms, known
}

func TestVerifC26(t *testing.T) {
	r := verifkit.Start(t, "C26", "sql")
	defer r.Finish()
	r.SetRule("queryBuilder over a 16-tag metric (raw, raw64, commented raw and string-top tags), 0–6 filtered tags per polarity with 0–3 values each (mapped, unmapped, both, empty) and optional regular expressions; " +
		"every user string = 0–3 hostile pieces + unique marker + 0–3 hostile pieces (quotes, backslashes, NUL, newlines, comment markers, SQL fragments, invalid UTF-8, trailing backslash, 400-byte quote/backslash runs); " +
		"half of the filters are built directly, half come from request strings through parseQueryFilter/resolveFilter/GetTagFilter with a real mapping storage; each case is rendered by buildSeriesQuery, buildTagValuesQuery and buildTagValueIDsQuery. " +
		"Non-trivial = at least one user string containing a quote, backslash, control byte or comment marker reaches the SQL text; distinct = distinct SQL text.")
	r.Assume("ClickHouse string literal rules as documented: backslash escapes, '' as quote, unknown escapes keep the backslash; match() is RE2 partial match (Go regexp is used as RE2)")
	ms, known := c26Mappings(r)
	n := r.N(8000, 240000)
	workers := 8
	if r.Thorough() {
		workers = 16
	}
	r.Parallel(workers, "sql", func(w *verifkit.Worker) {
		rnd := w.Rnd
		h := &requestHandler{Handler: &Handler{mappingsStorage: ms, mappingsTracker: mappings_tracker.New()}}
		for i := 0; i < n/workers; i++ {
			c := &c26Case{metric: c26Metric(rnd), emitted: map[string]bool{}}
			c.pq = queryBuilder{metric: c.metric, user: "u", utcOffset: []int64{0, 10800, 3 * 86400, 3*86400 - 18000}[rnd.IntN(4)], numResults: 1 + rnd.IntN(50), play: rnd.IntN(2)}
			c.pq.what = []c26Sel{
				{{What: data_model.DigestCount}},
				{{What: data_model.DigestAvg}, {What: data_model.DigestMax}},
				{{What: data_model.DigestPercentile, Argument: 0.5}, {What: data_model.DigestUnique}, {What: data_model.DigestStdDev}, {What: data_model.DigestCardinality}, {What: data_model.DigestMin}, {What: data_model.DigestSum}},
			}[rnd.IntN(3)].toWhat()
			for _, x := range []int{1, 3, 5, 7, format.StringTopTagIndexV3, format.ShardTagIndex} {
				if rnd.IntN(4) == 0 {
					c.pq.by = append(c.pq.by, x)
				}
			}
			c.pq.sort = querySort(rnd.IntN(3))
			c.pq.minMaxHost = [2]bool{rnd.IntN(4) == 0, rnd.IntN(4) == 0}
			tagX := c26FilterTags[rnd.IntN(len(c26FilterTags))]
			if tagX < len(c.metric.Tags) {
				c.pq.tag = c.metric.Tags[tagX]
			}
			c.pq.tag.Index = int32(tagX)
			if tagX == format.StringTopTagIndexV3 && rnd.IntN(2) == 0 {
				c.pq.tag.Index = format.StringTopTagIndex
			}
			if rnd.IntN(2) == 0 {
				c26GenDirect(rnd, c)
				if rnd.IntN(8) == 0 { // several metrics: metric id lists instead of one metric
					c.noMetric = true
					c.pq.metric = nil
					ids := rnd.Perm(6)
					nIn := rnd.IntN(4)
					nOut := rnd.IntN(3)
					if nIn == 1 { // a single matching metric is handled as "the" metric; exclusions are resolved before
						nOut = 0
					}
					if nIn+nOut == 0 {
						nIn = 2
					}
					for k := 0; k < nIn; k++ {
						id := int32(2000 + ids[k])
						c.metricsIn = append(c.metricsIn, id)
						c.pq.filterIn.Metrics = append(c.pq.filterIn.Metrics, &format.MetricMetaValue{MetricID: id})
					}
					for k := nIn; k < nIn+nOut; k++ {
						id := int32(2000 + ids[k])
						c.metricsOut = append(c.metricsOut, id)
						c.pq.filterNotIn.Metrics = append(c.pq.filterNotIn.Metrics, &format.MetricMetaValue{MetricID: id})
					}
				}
			} else if err := c26GenRequest(rnd, c, h, known); err != nil {
				w.Count("request.refused", 1) // e.g. unknown comment of a raw tag, value refused by the API
				continue
			}
			step := []int64{1, 5, 60, 900, 3600, 86400, _1M}[rnd.IntN(7)]
			from := int64(1700000000) + rnd.Int64N(1000000)
			c.lod = data_model.LOD{FromSec: from, ToSec: from + step*int64(1+rnd.IntN(100)), StepSec: step, Version: data_model.Version6, Location: []*time.Location{time.UTC, time.FixedZone("MSK", 10800)}[rnd.IntN(2)]}
			c.lod.HasPreKey = !c.noMetric && c.metric.PreKeyFrom != 0 && rnd.IntN(4) == 0
			c.settings = []string{"", " SETTINGS max_threads=1", " SETTINGS optimize_aggregation_in_order=1,max_execution_time=30"}[rnd.IntN(3)]
			c26Judge(r, w, c, i)
		}
	})
	c26Probes(r, &requestHandler{Handler: &Handler{mappingsStorage: ms, mappingsTracker: mappings_tracker.New()}})
}

// Two deterministic probes outside the random workload.
func c26Probes(r *verifkit.Run, h *requestHandler) {
	rnd := r.Rand("probes")
	metric := c26Metric(rnd)
	lod := data_model.LOD{FromSec: 1700000000, ToSec: 1700003600, StepSec: 60, Version: data_model.Version6, Location: time.UTC}
	// (a) a raw tag filtered by a string that is neither a number nor a known comment: no
	// stored row carries such a value, in particular not the row whose raw value happens to
	// equal the "does not exist" placeholder the value is resolved to
	for _, pol := range []string{queryFilterInSep, queryFilterNotInSep} {
		fin, fout, err := parseQueryFilter([]string{"3" + pol + "not-a-number"})
		if err != nil {
			r.Inconclusive("C26 probe: " + err.Error())
			return
		}
		pq := queryBuilder{metric: metric, what: c26Sel{{What: data_model.DigestCount}}.toWhat()}
		if pq.filterIn, err = h.resolveFilter(metric, fin); err != nil {
			r.NotJudged("raw_tag_unknown_value.refused", 1)
			continue
		}
		if pq.filterNotIn, err = h.resolveFilter(metric, fout); err != nil {
			r.NotJudged("raw_tag_unknown_value.refused", 1)
			continue
		}
		sq, err := pq.buildSeriesQuery(lod, "")
		if err != nil {
			r.Inconclusive("C26 probe: " + err.Error())
			return
		}
		toks, err := c26Lex(sq.body)
		if err != nil {
			r.Inconclusive("C26 probe: " + err.Error())
			return
		}
		where, err := c26Clauses(toks)
		if err != nil {
			r.Inconclusive("C26 probe: " + err.Error())
			return
		}
		expr, err := c26ParseWhere(where)
		if err != nil {
			r.Inconclusive("C26 probe: " + err.Error())
			return
		}
		row := c26Row{"time": {k: 'i', i: lod.FromSec}, "index_type": {k: 'i'}, "pre_tag": {k: 'i'}, "pre_stag": {k: 's'}, "metric": {k: 'i', i: int64(metric.MetricID)}}
		for x := 0; x < format.MaxTags; x++ {
			row["tag"+strconv.Itoa(x)] = c26Val{k: 'i'}
			row["stag"+strconv.Itoa(x)] = c26Val{k: 's'}
		}
		row["tag3"] = c26Val{k: 'i', i: format.TagValueIDDoesNotExist}
		got, err := c26Bool(expr(row))
		if err != nil {
			r.Inconclusive("C26 probe: " + err.Error())
			return
		}
		want := pol == queryFilterNotInSep // "in": nothing matches; "not in": nothing is excluded
		r.Case(true, "probe raw tag unknown value "+pol)
		if got != want {
			r.Violation("C26/where/raw-tag-unknown-value-hits-placeholder", fmt.Sprintf("a raw tag filtered by a string that names no raw value is resolved to the placeholder id %d, which is a legitimate raw value: the row with that raw value is %s", format.TagValueIDDoesNotExist,
				map[bool]string{true: "selected by the inclusion filter", false: "dropped by the exclusion filter"}[got]),
				map[string]any{"request_filter": "3" + pol + "not-a-number", "sql": sq.body, "row": "tag3=" + strconv.Itoa(format.TagValueIDDoesNotExist)})
		}
	}
	// (b) the time expression of the SELECT list with a negative UTC offset (server setting,
	// not user input): recorded, not judged
	pq := queryBuilder{metric: metric, what: c26Sel{{What: data_model.DigestCount}}.toWhat(), utcOffset: -3600}
	if sq, err := pq.buildSeriesQuery(lod, ""); err == nil {
		if _, err := c26Lex(sq.body); err != nil {
			r.NotJudged("negative_utc_offset_emits_double_minus_in_select", 1)
		} else {
			r.NotJudged("negative_utc_offset_tokenizes", 1)
		}
	}
}

var c26TagCol, c26STagCol = func() (a, b [format.MaxTags]string) {
	for x := range a {
		a[x], b[x] = "tag"+strconv.Itoa(x), "stag"+strconv.Itoa(x)
	}
	return
}()

type c26Sel []data_model.DigestSelector

func (s c26Sel) toWhat() (w tsWhat) { copy(w[:], s); return w }

func c26Special(s string) bool {
	return strings.ContainsAny(s, "'\\\x00\n\r#;") || strings.Contains(s, "--") || strings.Contains(s, "/*")
}

func c26Judge(r *verifkit.Run, w *verifkit.Worker, c *c26Case, i int) {
	// what must reach the text: strings of non-raw tags; a regular expression replaces the value strings
	for _, fs := range []*[format.MaxTags]c26Filter{&c.in, &c.out} {
		for x := range fs {
			f := &fs[x]
			if !f.present || c.raw(x) {
				continue
			}
			if f.reSet {
				c.emitted[f.re] = true
			} else {
				for _, s := range f.strs {
					c.emitted[s] = true
				}
			}
		}
	}
	type built struct {
		kind string
		mode queryBuilderMode
		body string
	}
	var qs []built
	bad := func(key, what, kind, body string, extra map[string]any) {
		m := map[string]any{"builder": kind, "sql": body, "via": c.via, "request_filters": c.request, "metric_ids_in": c.metricsIn, "metric_ids_not_in": c.metricsOut, "filter_in": c26Describe(&c.in), "filter_not_in": c26Describe(&c.out)}
		for k, v := range extra {
			m[k] = v
		}
		r.Violation(key, what, m)
	}
	func() {
		defer func() {
			if p := recover(); p != nil {
				bad("C26/panic/builder", fmt.Sprintf("query builder panics: %v", p), "?", "", nil)
			}
		}()
		pq := c.pq
		sq, err := pq.buildSeriesQuery(c.lod, c.settings)
		if err != nil {
			bad("C26/error/buildSeriesQuery", err.Error(), "series", "", nil)
		} else {
			qs = append(qs, built{"series", buildSeriesQuery, sq.body})
		}
		pq2 := c.pq
		qs = append(qs, built{"tag-values", buildTagValuesQuery, pq2.buildTagValuesQuery(c.lod, c.settings).body})
		pq3 := c.pq
		qs = append(qs, built{"tag-value-ids", buildTagValueIDsQuery, pq3.buildTagValueIDsQuery(c.lod, c.settings).body})
	}()
	for _, q := range qs {
		special := false
		for s := range c.emitted {
			special = special || c26Special(s)
		}
		w.Case(special, q.body)
		w.Count("queries."+q.kind, 1)
		if c.noMetric {
			w.Count("queries.over_several_metrics", 1)
		}
		if w.Index == 0 && i < 2 && q.kind == "series" {
			r.Sample(map[string]any{"sql": q.body, "via": c.via, "request_filters": c.request})
		}
		// 1. tokens, parentheses, clause skeleton
		toks, err := c26Lex(q.body)
		if err != nil {
			bad("C26/structure/tokenize", "the statement does not tokenize: "+err.Error(), q.kind, q.body, nil)
			continue
		}
		where, err := c26Clauses(toks)
		if err != nil {
			bad("C26/structure/clauses", "clause skeleton broken: "+err.Error(), q.kind, q.body, nil)
			continue
		}
		// 2. every marker at most once, inside one literal that decodes to the original
		okLit := map[string]bool{"": true, c.lod.Location.String(): true}
		for _, u := range c.users.all {
			okLit[u.s] = true
			n := 0
			for at := 0; ; {
				k := strings.Index(q.body[at:], u.marker)
				if k < 0 {
					break
				}
				pos := at + k
				at = pos + len(u.marker)
				n++
				var in *c26Tok
				for ti := range toks {
					if toks[ti].pos <= pos && pos+len(u.marker) <= toks[ti].end {
						in = &toks[ti]
					}
				}
				switch {
				case in == nil || in.kind != 's':
					bad("C26/literal/marker-outside-literal", "a user string reaches the statement outside a string literal", q.kind, q.body, map[string]any{"user_string": u.s})
				case in.val != u.s:
					bad("C26/literal/decodes-to-other-string", "the literal carrying a user string does not decode back to it", q.kind, q.body, map[string]any{"user_string": u.s, "literal": in.text, "decoded": in.val})
				case in.oddEsc != 0 || in.dblQuote != 0:
					bad("C26/literal/unexpected-escape", "the literal uses escapes other than \\\\ and \\'", q.kind, q.body, map[string]any{"user_string": u.s, "literal": in.text})
				}
			}
			if n > 1 {
				bad("C26/literal/marker-twice", "a user string occurs more than once in the statement", q.kind, q.body, map[string]any{"user_string": u.s})
			}
			if n == 0 && c.emitted[u.s] {
				bad("C26/literal/value-missing", "a filter string of a non-raw tag does not reach the statement", q.kind, q.body, map[string]any{"user_string": u.s})
			}
			if n > 0 {
				w.Count("user_strings.in_sql", 1)
				if c26Special(u.s) {
					w.Count("user_strings.in_sql_hostile", 1)
				}
			}
		}
		for _, t := range toks {
			if t.kind == 's' && !okLit[t.val] {
				known := false
				for s := range c.emitted { // request path: strings without marker (mapped names, comments)
					known = known || s == t.val
				}
				if !known {
					bad("C26/literal/unexplained", "the statement holds a string literal no part of the request explains", q.kind, q.body, map[string]any{"literal": t.text})
				}
			}
		}
		// 3. the WHERE clause selects exactly the rows the filters select
		expr, err := c26ParseWhere(where)
		if err != nil {
			bad("C26/structure/where-grammar", "the WHERE clause is outside the grammar the builder is meant to emit: "+err.Error(), q.kind, q.body, nil)
			continue
		}
		if c.lod.HasPreKey {
			r.NotJudged("row_selection_with_prekey_lod", 1)
			continue
		}
		c26JudgeRows(r, w, c, q.kind, q.mode, q.body, expr, bad)
	}
}

func c26Describe(fs *[format.MaxTags]c26Filter) map[string]any {
	m := map[string]any{}
	for x := range fs {
		if fs[x].present {
			m[strconv.Itoa(x)] = map[string]any{"mapped": fs[x].mapped, "strings": fs[x].strs, "regexp": fs[x].re, "regexp_set": fs[x].reSet, "empty_value": fs[x].empty}
		}
	}
	return m
}

func c26JudgeRows(r *verifkit.Run, w *verifkit.Worker, c *c26Case, kind string, mode queryBuilderMode, body string, expr c26Expr,
	bad func(key, what, kind, body string, extra map[string]any)) {
	rnd := rand.New(rand.NewPCG(uint64(len(body)), 26))
	re := map[string]*regexp.Regexp{}
	for k := 0; k < 24; k++ {
		// a synthetic stored row
		ints := map[int]int64{}
		strs := map[int]string{}
		for x := 0; x < format.MaxTags; x++ {
			var candI []int64
			var candS []string
			for _, f := range []*c26Filter{&c.in[x], &c.out[x]} {
				candI = append(candI, f.mapped...)
				candS = append(candS, f.strs...)
				if f.reSet {
					candS = append(candS, strings.ReplaceAll(f.re, "\\", ""), f.re)
				}
			}
			if len(candI)+len(candS) == 0 && !c.in[x].present && !c.out[x].present {
				continue
			}
			switch rnd.IntN(5) {
			case 0: // empty
			case 1:
				if len(candI) > 0 {
					ints[x] = candI[rnd.IntN(len(candI))]
				} else {
					ints[x] = 3
				}
			case 2:
				if len(candS) > 0 {
					strs[x] = candS[rnd.IntN(len(candS))]
				} else {
					strs[x] = "other"
				}
			case 3:
				ints[x] = 424242
			case 4:
				s := "zz"
				if len(candS) > 0 {
					s = candS[rnd.IntN(len(candS))]
					s = []string{s + "'", "\\" + s, strings.TrimSuffix(s, "\\"), strings.ReplaceAll(s, "'", "\\'"), strings.ReplaceAll(s, "\\", "\\\\"), strings.ToUpper(s)}[rnd.IntN(6)]
				}
				strs[x] = s
			}
		}
		inTime := rnd.IntN(6) != 0
		base := rnd.IntN(8) != 0 // index_type=0, pre_tag=0, pre_stag=''
		metricOK := rnd.IntN(6) != 0
		row := c26Row{}
		tm := c.lod.FromSec
		if !inTime {
			tm = []int64{c.lod.FromSec - 1, c.lod.ToSec, c.lod.ToSec + 5}[rnd.IntN(3)]
		}
		row["time"] = c26Val{k: 'i', i: tm}
		row["index_type"] = c26Val{k: 'i'}
		row["pre_tag"] = c26Val{k: 'i'}
		row["pre_stag"] = c26Val{k: 's'}
		if !base {
			switch rnd.IntN(3) {
			case 0:
				row["index_type"] = c26Val{k: 'i', i: 1}
			case 1:
				row["pre_tag"] = c26Val{k: 'i', i: 9}
			case 2:
				row["pre_stag"] = c26Val{k: 's', s: "p"}
			}
		}
		mid := int64(c.metric.MetricID)
		if !metricOK {
			mid++
		}
		if c.noMetric {
			cand := append(append([]int32{2000 + int32(rnd.IntN(7))}, c.metricsIn...), c.metricsOut...)
			mid = int64(cand[rnd.IntN(len(cand))])
			metricOK = len(c.metricsIn) == 0
			for _, id := range c.metricsIn {
				metricOK = metricOK || int64(id) == mid
			}
			for _, id := range c.metricsOut {
				metricOK = metricOK && int64(id) != mid
			}
		}
		row["metric"] = c26Val{k: 'i', i: mid}
		for x := 0; x < format.MaxTags; x++ {
			row[c26TagCol[x]] = c26Val{k: 'i', i: ints[x]}
			row[c26STagCol[x]] = c26Val{k: 's', s: strs[x]}
		}
		row["_shard_num"] = c26Val{k: 'i', i: 1}
		// raw64: the 64-bit value lives in tag x (low) and tag x+1 (high)
		val := func(x int) int64 {
			if !c.noMetric && x < len(c.metric.Tags) && c.metric.Tags[x].Raw64() {
				v := ints[x]
				row[c26TagCol[x]] = c26Val{k: 'i', i: int64(int32(uint32(v)))}
				row[c26TagCol[x+1]] = c26Val{k: 'i', i: int64(int32(uint32(v >> 32)))}
				row["_"+c26TagCol[x]] = c26Val{k: 'i', i: v}
				return v
			}
			return ints[x]
		}
		want := inTime && base && metricOK
		badRe := false
		for x := 0; x < format.MaxTags; x++ {
			iv := val(x)
			raw := c.raw(x)
			if c.in[x].present {
				m, err := c.in[x].matches(iv, strs[x], raw, re)
				if err != nil {
					badRe = true
				}
				want = want && m
			}
			if c.out[x].present {
				m, err := c.out[x].matches(iv, strs[x], raw, re)
				if err != nil {
					badRe = true
				}
				want = want && !m
			}
		}
		if badRe {
			r.NotJudged("row_selection_with_pattern_that_does_not_compile", 1)
			return
		}
		got, err := c26Bool(expr(row))
		if err != nil {
			if _, isRe := err.(c26BadRegexp); isRe {
				r.NotJudged("row_selection_with_pattern_that_does_not_compile", 1)
				return
			}
			bad("C26/where/not-evaluable", "the WHERE clause cannot be evaluated over a stored row: "+err.Error(), kind, body, nil)
			return
		}
		w.Count("rows.evaluated", 1)
		if want {
			w.Count("rows.selected", 1)
		}
		if got != want {
			rowDesc := map[string]any{"time": tm, "metric": mid, "index_type": row["index_type"].i, "pre_tag": row["pre_tag"].i, "pre_stag": row["pre_stag"].s, "tags": fmt.Sprint(ints), "stags": fmt.Sprintf("%q", strs)}
			key := "C26/where/selects-row-the-filters-exclude"
			if want {
				key = "C26/where/drops-row-the-filters-include"
			}
			bad(key, fmt.Sprintf("WHERE evaluates to %v on a row the filter semantics give %v", got, want), kind, body, map[string]any{"row": rowDesc})
			return
		}
	}
}
