//go:build verif

package api

// C23 — the API series cache (cache2) returns correctly placed, fresh data under
// concurrency; memory accounting returns to zero once emptied; no request waits forever.
//
// Runtime monitor: the real cache2 runs over a stub storage (versioned table
// version[step][slot]) whose every row says which query, slot, row index, storage version
// and load produced it.  Many goroutines issue Get / invalidate / reset / setLimits; a
// logical clock orders call/return events; the oracles below judge every successful Get.

import (
	"context"
	"encoding/json"
	"errors"
	"fmt"
	"math"
	"math/rand/v2"
	"os"
	"os/exec"
	"path/filepath"
	"runtime"
	"sort"
	"strconv"
	"strings"
	"sync"
	"sync/atomic"
	"testing"
	"time"

	"github.com/VKCOM/statshouse-go"

	"github.com/VKCOM/statshouse/internal/data_model"
	"github.com/VKCOM/statshouse/internal/format"
	"github.com/VKCOM/statshouse/internal/zzverif/verifkit"
)

const c23Month = int64(31 * 24 * 3600)

var errC23Injected = errors.New("c23: injected storage failure")

type c23DirectKey struct{}

type c23SK struct{ step, slot int64 }

type c23Inv struct {
	ver, startClk, doneClk int64
	call                   int64 // id of the invalidate call
}

type c23InvCall struct {
	step, startClk int64
	doneClk        atomic.Int64
}

type c23Load struct {
	id             int64
	key            int32
	step, from, to int64
	startClk       int64
	direct         bool
	retClk         atomic.Int64 // stub returned
	finClk         atomic.Int64 // cache finished its post-load work (context of loadChunks cancelled); 0 = not observed
}

type c23Ev struct {
	clk            int64
	kind           byte
	step, from, to int64
	key            int32
}

type c23StepWin struct {
	step  int64
	slots []int64 // slot start times (seconds), ascending
}

type c23Cfg struct {
	name         string
	chunkSize    int
	loc          *time.Location
	utcOffset    int64
	steps        []int64
	anchorAgo    int64
	workers      int
	gets         int // per worker
	keys         int
	invalidators int
	limits       []cache2Limits
	resetter     bool
	failP        float64
	inflightP    float64
	slowP        float64
	emptyByReset bool
	transitions  bool // directed: setLimits transitions while Gets are parked in the memory throttle
	metrics      bool // a goroutine calls sendMetrics (normalizes and reports the runtime info)
	// directed scenario: loads of giantKey report giantBytes of in-flight data at once (a single
	// ClickHouse block larger than the whole memory limit); no other traffic
	giantKey   int32
	giantBytes int64
}

// c23Stats is the child's own accounting; it is dumped to the aux file twice a second so
// that the evidence of a round survives a crash of the code under test.
type c23Stats struct {
	mu        sync.Mutex
	Evals     int64            `json:"evals"`
	Distinct  map[uint64]bool  `json:"-"`
	Shapes    map[uint64]bool  `json:"-"`
	DistinctL []uint64         `json:"distinct"`
	ShapesL   []uint64         `json:"shapes"`
	Counters  map[string]int64 `json:"counters"`
	NotJudged map[string]int64 `json:"not_judged"`
	Samples   []any            `json:"samples"`
	Done      bool             `json:"done"`
	Cur       int              `json:"cur"` // round in progress
}

func c23NewStats() *c23Stats {
	return &c23Stats{Distinct: map[uint64]bool{}, Shapes: map[uint64]bool{}, Counters: map[string]int64{}, NotJudged: map[string]int64{}}
}

func (s *c23Stats) Count(k string, d int64) { s.mu.Lock(); s.Counters[k] += d; s.mu.Unlock() }
func (s *c23Stats) NotJ(k string, d int64)  { s.mu.Lock(); s.NotJudged[k] += d; s.mu.Unlock() }
func (s *c23Stats) Shape(x string) {
	h := verifkit.Hash(x)
	s.mu.Lock()
	s.Shapes[h] = true
	s.mu.Unlock()
}
func (s *c23Stats) Case(nontrivial bool, abs string) {
	var h uint64
	if nontrivial {
		h = verifkit.Hash(abs)
	}
	s.mu.Lock()
	s.Evals++
	if nontrivial {
		s.Distinct[h] = true
	}
	s.mu.Unlock()
}
func (s *c23Stats) Sample(v any) {
	s.mu.Lock()
	if len(s.Samples) < 2 {
		s.Samples = append(s.Samples, v)
	}
	s.mu.Unlock()
}
func (s *c23Stats) dump(path string, done bool) {
	s.mu.Lock()
	s.Done = done
	s.DistinctL = s.DistinctL[:0]
	for h := range s.Distinct {
		s.DistinctL = append(s.DistinctL, h)
	}
	s.ShapesL = s.ShapesL[:0]
	for h := range s.Shapes {
		s.ShapesL = append(s.ShapesL, h)
	}
	b, err := json.Marshal(s)
	s.mu.Unlock()
	if err == nil {
		if os.WriteFile(path+".tmp", b, 0o644) == nil {
			_ = os.Rename(path+".tmp", path)
		}
	}
}

type c23Env struct {
	r     *verifkit.Run
	st    *c23Stats
	cfg   c23Cfg
	cache *cache2
	H     *Handler
	wins  []c23StepWin
	seed  uint64

	clk atomic.Int64

	smu sync.RWMutex
	ver map[c23SK]int64

	imu      sync.Mutex
	inv      map[c23SK][]c23Inv
	invCalls []*c23InvCall

	lmu   sync.RWMutex
	loads []*c23Load

	emu    sync.Mutex
	events []c23Ev

	loadSeq      atomic.Int64
	getSeq       atomic.Int64
	pendingLoads atomic.Int64 // cache-path loads whose loadChunks has not finished yet
	storageBusy  atomic.Int64 // stubs currently doing storage-side work
	inCallback   atomic.Int64 // stubs currently inside a cache callback (inflight throttle)
	lastActivity atomic.Int64 // wall nanos of the last storage-side activity

	omu         sync.Mutex
	outstanding map[int64]*c23Get
	abort       chan struct{}
	abortOnce   sync.Once
	hung        atomic.Bool

	rmu      sync.Mutex
	retained []*c23Retained

	lastTransition atomic.Value // string: the setLimits sequence the transition script applied last
}

// A result returned by Get belongs to the caller: it must not change after the call returned,
// and what the caller does to it must not show up in anybody else's result.
const c23Poison = int64(-0x7717_5EED)

type c23SlotSnap struct {
	n         int
	h         uint64
	ver, load int64
	served    byte // 'h' from cache, 'j' joined a running load, 'f' loaded after the call
}

type c23Retained struct {
	g    *c23Get
	res  cache2Data
	snap []c23SlotSnap
}

func c23SnapOf(rows []tsSelectRow) (sn c23SlotSnap) {
	sn.n = len(rows)
	h := uint64(14695981039346656037)
	mix := func(x uint64) { h = (h ^ x) * 1099511628211 }
	for j := range rows {
		r := &rows[j]
		mix(uint64(r.time))
		for k := 0; k < 6; k++ {
			mix(uint64(r.tag[k]))
		}
		mix(math.Float64bits(r.count))
	}
	sn.h = h
	if len(rows) > 0 {
		sn.ver, sn.load = rows[0].tag[2], rows[0].tag[3]
	}
	return sn
}

func (e *c23Env) retain(g *c23Get, res cache2Data) *c23Retained {
	rt := &c23Retained{g: g, res: res, snap: make([]c23SlotSnap, len(res))}
	for i := range res {
		sn := c23SnapOf(res[i])
		sn.served = '-'
		if sn.n > 0 {
			if L := e.loadByID(sn.load); L != nil {
				if rc := L.retClk.Load(); rc != 0 && rc < g.called {
					sn.served = 'h'
				} else if L.startClk < g.called {
					sn.served = 'j'
				} else {
					sn.served = 'f'
				}
			}
		}
		rt.snap[i] = sn
	}
	e.st.Count("results.retained", 1)
	return rt
}

// verify re-reads a retained result and compares it with what it was when Get returned
func (e *c23Env) verify(rt *c23Retained, when string) {
	e.st.Count("results.reverified."+when, 1)
	for i := range rt.res {
		now := c23SnapOf(rt.res[i])
		was := rt.snap[i]
		if now.n == was.n && now.h == was.h {
			continue
		}
		how := map[byte]string{'h': "slot-served-from-cache", 'j': "slot-joined-running-load", 'f': "slot-loaded-by-this-get", '-': "empty-slot"}[was.served]
		e.bad("C23/result/mutated-after-return", "a result that Get had already returned changed later (the rows are shared with the cache or with another request)", rt.g,
			map[string]any{"when": when, "slot_was": how, "slot_index": i, "slot": rt.g.win.slots[rt.g.fromIdx+i], "rows_then": was.n, "version_then": was.ver, "load_then": was.load,
				"rows_now": now.n, "version_now": now.ver, "load_now": now.load, "get_called_clk": rt.g.called, "clk_now": e.clk.Load()})
		return
	}
}

// scribble: the owner of a result overwrites it (as a caller may: sorting, merging in place).
// Done only when every load that produced rows of it has finished inside the cache, because
// until then the loader goroutine legitimately still reads the loading request's buffer.
func (e *c23Env) scribble(rt *c23Retained) {
	for _, sn := range rt.snap {
		if sn.n == 0 {
			continue
		}
		if L := e.loadByID(sn.load); L == nil || L.finClk.Load() == 0 {
			e.st.Count("results.scribble-skipped-load-not-finished", 1)
			return
		}
	}
	for i := range rt.res {
		for j := range rt.res[i] {
			r := &rt.res[i][j]
			r.time = -1
			r.tag[0], r.tag[2], r.tag[3], r.tag[5] = c23Poison, -1, -1, c23Poison
			r.count = -1
		}
	}
	e.st.Count("results.scribbled-by-owner", 1)
}

type c23Get struct {
	id       int64
	key      int32
	win      *c23StepWin
	fromIdx  int
	n        int
	play     int
	force    bool
	direct   bool
	ctxKind  int // 0 background, 1 short timeout, 2 already cancelled
	called   int64
	callWall int64
}

func c23Hash(a, b, c int64) uint64 {
	x := uint64(a)*0x9E3779B97F4A7C15 ^ uint64(b)*0xC2B2AE3D27D4EB4F ^ uint64(c)*0x165667B19E3779F9
	x ^= x >> 29
	x *= 0xBF58476D1CE4E5B9
	x ^= x >> 32
	return x
}

// number of rows the storage holds for (query key, step, slot): a pure function, so the
// monitor knows "exactly the rows the storage produced" without remembering loads.
func c23RowsFor(key int32, step, slot int64) int {
	switch c23Hash(int64(key), step, slot) % 16 {
	case 0, 1, 2, 3:
		return 0
	case 4, 5:
		return 2
	case 6:
		return 3
	}
	return 1
}

func c23Floor(t, step, off int64) int64 {
	a := t + off
	q := a / step
	if a%step != 0 && a < 0 {
		q--
	}
	return q*step - off
}

func c23MonthStart(t int64, loc *time.Location) int64 {
	x := time.Unix(t, 0).In(loc)
	return time.Date(x.Year(), x.Month(), 1, 0, 0, 0, 0, loc).Unix()
}

func c23NextMonth(t int64, loc *time.Location) int64 {
	return time.Unix(t, 0).In(loc).AddDate(0, 1, 0).UTC().Unix()
}

// slot (start second) of step that contains second t
func (e *c23Env) slotOf(step, t int64) int64 {
	if step == c23Month {
		return c23MonthStart(t, e.cfg.loc)
	}
	return c23Floor(t, step, e.cfg.utcOffset)
}

func (e *c23Env) slotEnd(step, slot int64) int64 {
	if step == c23Month {
		return c23NextMonth(slot, e.cfg.loc)
	}
	return slot + step
}

func (e *c23Env) event(kind byte, step, from, to int64, key int32) int64 {
	e.emu.Lock()
	c := e.clk.Add(1)
	e.events = append(e.events, c23Ev{c, kind, step, from, to, key})
	e.emu.Unlock()
	return c
}

func (e *c23Env) touch() { e.lastActivity.Store(time.Now().UnixNano()) }

// ---- the stub storage (tsLoadFunc)

func (e *c23Env) load(ctx context.Context, _ *requestHandler, q *queryBuilder, lod data_model.LOD, ret [][]tsSelectRow, retStartIx int) (int, error) {
	id := e.loadSeq.Add(1)
	key := q.metric.MetricID
	direct := ctx.Value(c23DirectKey{}) != nil
	L := &c23Load{id: id, key: key, step: lod.StepSec, from: lod.FromSec, to: lod.ToSec, direct: direct}
	e.storageBusy.Add(1)
	e.touch()
	L.startClk = e.event('L', lod.StepSec, lod.FromSec, lod.ToSec, key)
	e.lmu.Lock()
	for int64(len(e.loads)) < id {
		e.loads = append(e.loads, nil)
	}
	e.loads[id-1] = L
	e.lmu.Unlock()
	if !direct {
		e.pendingLoads.Add(1)
		context.AfterFunc(ctx, func() {
			// loadChunks cancels its context after the post-load bookkeeping and the
			// runtime-info update; a deadline means the 55 s select timeout fired instead
			if !errors.Is(context.Cause(ctx), context.DeadlineExceeded) {
				L.finClk.Store(e.clk.Add(1))
			}
			e.pendingLoads.Add(-1)
		})
	}
	rows, err := e.loadBody(ctx, L, q, lod, ret, retStartIx)
	L.retClk.Store(e.event('l', lod.StepSec, lod.FromSec, lod.ToSec, key))
	if direct {
		L.finClk.Store(L.retClk.Load())
	}
	e.touch()
	e.storageBusy.Add(-1)
	e.st.Count("loads", 1)
	if err != nil {
		e.st.Count("loads.failed", 1)
	}
	return rows, err
}

func (e *c23Env) callback(f func()) {
	e.inCallback.Add(1)
	e.storageBusy.Add(-1)
	e.touch()
	f()
	e.touch()
	e.storageBusy.Add(1)
	e.inCallback.Add(-1)
}

func (e *c23Env) loadBody(ctx context.Context, L *c23Load, q *queryBuilder, lod data_model.LOD, ret [][]tsSelectRow, retStartIx int) (int, error) {
	rnd := rand.New(rand.NewPCG(e.seed, uint64(L.id)))
	nap := func() {
		switch x := rnd.Float64(); {
		case x < e.cfg.slowP:
			time.Sleep(time.Duration(500+rnd.IntN(2500)) * time.Microsecond)
		case x < 0.5:
			time.Sleep(time.Duration(rnd.IntN(300)) * time.Microsecond)
		default:
			runtime.Gosched()
		}
	}
	// like loadPoints: register the request with the cache's in-flight accounting
	var cc *cache2
	var reqID uint32
	giant := e.cfg.giantKey != 0 && L.key == e.cfg.giantKey
	if giant || rnd.Float64() < e.cfg.inflightP {
		cc = cache2FromInflightCtx(ctx)
	}
	if cc != nil {
		var cancel context.CancelFunc
		ctx, cancel = context.WithCancel(ctx)
		defer cancel()
		e.callback(func() {
			reqID = cc.NewInflightReq(cancel)
			cc.updateInflightApprox(reqID, 0)
		})
		defer e.callback(func() { cc.afterInflightLoadFinished(reqID) })
		if giant {
			e.callback(func() { cc.updateInflightApprox(reqID, e.cfg.giantBytes) })
			if ctx.Err() != nil {
				return 0, ctx.Err()
			}
		}
	}
	nap()
	// slot times of the requested LOD
	var times []int64
	for t := lod.FromSec; t < lod.ToSec; t = e.slotEnd(lod.StepSec, t) {
		times = append(times, t)
	}
	if len(times)+retStartIx > len(ret) || (lod.StepSec != c23Month && (lod.ToSec-lod.FromSec)%lod.StepSec != 0) || e.slotOf(lod.StepSec, lod.FromSec) != lod.FromSec {
		e.r.Violation("C23/placement/load-lod-vs-buffer", "the cache asked the storage for a LOD that does not match the buffer it passed (the real loader would index out of range or misplace rows)",
			map[string]any{"cfg": e.cfg.name, "lod": fmt.Sprintf("%+v", lod), "len_ret": len(ret), "retStartIx": retStartIx, "slots": len(times)})
		if len(times)+retStartIx > len(ret) {
			times = times[:max(0, len(ret)-retStartIx)]
		}
	}
	// read the table in a few batches (a slot is read atomically, the request is not)
	total := 0
	for i := 0; i < len(times); {
		j := len(times)
		if rnd.IntN(3) == 0 {
			j = i + 1 + rnd.IntN(len(times)-i)
		}
		e.smu.RLock()
		for ; i < j; i++ {
			t := times[i]
			v := e.ver[c23SK{lod.StepSec, t}]
			n := c23RowsFor(L.key, lod.StepSec, t)
			for k := 0; k < n; k++ {
				row := tsSelectRow{time: t}
				row.tag[0] = int64(L.key)
				row.tag[1] = int64(k)
				row.tag[2] = v
				row.tag[3] = L.id
				row.tag[4] = lod.StepSec
				row.count = float64(v)
				// the real loader appends
				ret[retStartIx+i] = append(ret[retStartIx+i], row)
			}
			total += n
		}
		e.smu.RUnlock()
		if cc != nil && total > 0 {
			d := int64(total * sizeofCache2DataRow)
			e.callback(func() { cc.updateInflightApprox(reqID, d) })
		}
		if i < len(times) {
			nap()
		}
		if ctx.Err() != nil {
			return 0, ctx.Err()
		}
	}
	nap()
	if ctx.Err() != nil {
		return 0, ctx.Err()
	}
	if rnd.Float64() < e.cfg.failP {
		return 0, errC23Injected
	}
	return total, nil
}

// ---- side goroutines

func (e *c23Env) invalidator(idx int, stop *atomic.Bool, wg *sync.WaitGroup) {
	defer wg.Done()
	rnd := e.r.Rand(fmt.Sprintf("%s/inv/%d", e.cfg.name, idx))
	for !stop.Load() {
		// seconds whose data "changed": 1..4, inside the window of one of the steps
		w := &e.wins[rnd.IntN(len(e.wins))]
		n := 1 + rnd.IntN(4)
		var times []int64
		for i := 0; i < n; i++ {
			s := w.slots[rnd.IntN(len(w.slots))]
			d := e.slotEnd(w.step, s) - s
			times = append(times, s+rnd.Int64N(d))
		}
		// production lists are runs of consecutive seconds, which often straddle the chunk grid
		// (minute / hour / day, or chunkSize*step): add the boundary that follows one of the
		// seconds, and sometimes its neighbours
		if rnd.IntN(2) == 0 {
			t := times[rnd.IntN(len(times))]
			grid := []int64{60, 3600, 86400}[rnd.IntN(3)]
			if e.cfg.chunkSize > 0 && rnd.IntN(2) == 0 {
				grid = int64(e.cfg.chunkSize) * e.wins[rnd.IntN(len(e.wins))].step
			}
			b := c23Floor(t, grid, 0) + grid
			if grid == 86400 {
				b = c23Floor(t, grid, e.cfg.utcOffset) + grid
			}
			times = append(times, b)
			switch rnd.IntN(3) {
			case 0:
				times = append(times, b-1)
			case 1:
				times = append(times, b-1, b+1)
			}
		}
		sort.Slice(times, func(i, j int) bool { return times[i] < times[j] })
		times = c23Dedup(times)
		// as the production loop does: the same list goes to every LOD level, one after another
		for wi := range e.wins {
			step := e.wins[wi].step
			slots := map[int64]int64{}
			e.smu.Lock()
			for _, t := range times {
				s := e.slotOf(step, t)
				if _, ok := slots[s]; !ok {
					k := c23SK{step, s}
					e.ver[k]++
					slots[s] = e.ver[k]
				}
			}
			e.smu.Unlock()
			call := &c23InvCall{step: step}
			e.imu.Lock()
			call.startClk = e.event('I', step, times[0], times[len(times)-1]+1, 0)
			e.invCalls = append(e.invCalls, call)
			callID := int64(len(e.invCalls))
			e.imu.Unlock()
			e.cache.invalidate(times, step)
			e.imu.Lock()
			done := e.event('i', step, times[0], times[len(times)-1]+1, 0)
			call.doneClk.Store(done)
			for s, v := range slots {
				k := c23SK{step, s}
				e.inv[k] = append(e.inv[k], c23Inv{ver: v, startClk: call.startClk, doneClk: done, call: callID})
			}
			e.imu.Unlock()
			e.st.Count("invalidate.calls", 1)
			e.st.Count("invalidate.slots", int64(len(slots)))
		}
		if rnd.IntN(4) == 0 {
			time.Sleep(time.Duration(rnd.IntN(1500)) * time.Microsecond)
		} else {
			runtime.Gosched()
		}
	}
}

func c23Dedup(s []int64) []int64 {
	out := s[:0]
	for i, v := range s {
		if i == 0 || v != s[i-1] {
			out = append(out, v)
		}
	}
	return out
}

func (e *c23Env) limiter(stop *atomic.Bool, wg *sync.WaitGroup) {
	defer wg.Done()
	rnd := e.r.Rand(e.cfg.name + "/limiter")
	for i := 0; !stop.Load(); i++ {
		v := e.cfg.limits[rnd.IntN(len(e.cfg.limits))]
		e.event('S', 0, 0, 0, 0)
		e.cache.setLimits(v)
		e.st.Count("setLimits", 1)
		time.Sleep(time.Duration(1+rnd.IntN(15)) * time.Millisecond)
	}
}

func (e *c23Env) metricsSender(stop *atomic.Bool, wg *sync.WaitGroup) {
	defer wg.Done()
	rnd := e.r.Rand(e.cfg.name + "/metrics")
	cl := statshouse.NewClient(func(string, ...interface{}) {}, "udp", "127.0.0.1:9", "")
	defer cl.Close()
	for !stop.Load() {
		time.Sleep(time.Duration(1+rnd.IntN(8)) * time.Millisecond)
		e.cache.sendMetrics(cl)
		_ = e.cache.runtimeInfo()
		e.st.Count("sendMetrics", 1)
	}
}

func (e *c23Env) resetter(stop *atomic.Bool, wg *sync.WaitGroup) {
	defer wg.Done()
	rnd := e.r.Rand(e.cfg.name + "/resetter")
	for !stop.Load() {
		time.Sleep(time.Duration(5+rnd.IntN(40)) * time.Millisecond)
		e.event('R', 0, 0, 0, 0)
		e.cache.reset()
		e.st.Count("reset", 1)
	}
}

// bounded progress: a Get that is still blocked 30 s after the storage side went idle
// (every stub returned or is itself blocked inside a cache callback) hangs.
func (e *c23Env) progressMonitor(stop *atomic.Bool, wg *sync.WaitGroup) {
	defer wg.Done()
	const bound = 30 * time.Second
	for !stop.Load() {
		time.Sleep(200 * time.Millisecond)
		if e.storageBusy.Load() != 0 {
			continue
		}
		now := time.Now().UnixNano()
		if now-e.lastActivity.Load() < int64(bound) {
			continue
		}
		var stuck []*c23Get
		e.omu.Lock()
		for _, g := range e.outstanding {
			if now-g.callWall > int64(bound) {
				stuck = append(stuck, g)
			}
		}
		e.omu.Unlock()
		if len(stuck) == 0 || e.storageBusy.Load() != 0 || time.Now().UnixNano()-e.lastActivity.Load() < int64(bound) {
			continue
		}
		where := "no-loader-running"
		if e.inCallback.Load() > 0 {
			where = "loader-blocked-in-inflight-throttle"
		}
		buf := make([]byte, 1<<20)
		buf = buf[:runtime.Stack(buf, true)]
		var frames []string
		for _, gs := range strings.Split(string(buf), "\n\n") {
			if strings.Contains(gs, "tscache2") {
				l := strings.Split(gs, "\n")
				if len(l) > 12 {
					l = l[:12]
				}
				frames = append(frames, strings.Join(l, "\n"))
			}
			if len(frames) >= 12 {
				break
			}
		}
		if n := c23ParkedInThrottle(string(buf)); n > 0 && e.inCallback.Load() == 0 {
			where = "get-parked-in-memory-throttle"
			if e.cfg.transitions {
				where = "waiter-not-woken-by-setLimits"
			}
		}
		e.cache.mu.Lock()
		st := map[string]any{"last_setLimits": e.lastTransition.Load(), "limits": fmt.Sprintf("%+v", e.cache.limits), "size": e.cache.info.size(), "inflightBytes": e.cache.inflightBytes, "inflightReqs": len(e.cache.inflightReqM)}
		e.cache.mu.Unlock()
		g := stuck[0]
		e.r.Violation("C23/progress/get-hung/"+where, "a Get is still blocked 30 s after the storage side went idle",
			map[string]any{"cfg": e.cfg.name, "stuck_gets": len(stuck), "first": fmt.Sprintf("%+v", *g), "cache_state": st, "goroutines_in_cache2": frames})
		e.hung.Store(true)
		// try to unstick so that the run can go on: lift the limits (broadcasts allocCond)
		e.cache.setLimits(cache2Limits{maxSize: 1 << 40})
		e.cache.setLimits(cache2Limits{})
		time.Sleep(5 * time.Second)
		e.omu.Lock()
		still := 0
		for _, g := range e.outstanding {
			if now-g.callWall > int64(bound) {
				still++
			}
		}
		e.omu.Unlock()
		if still > 0 {
			e.abortOnce.Do(func() { close(e.abort) })
			return
		}
		e.touch()
	}
}

// ---- judging one Get

type c23Verdict struct {
	bad         bool // some slot failed the placement oracle
	slots       int
	constrained int
	hits        int
	joined      int
	fresh       int
	strictStale int
	shape       string
}

func (e *c23Env) bad(key, what string, g *c23Get, extra map[string]any) {
	w := map[string]any{"cfg": e.cfg.name, "step": g.win.step, "from": g.win.slots[g.fromIdx], "slots": g.n, "key": g.key, "play": g.play, "force": g.force, "direct": g.direct, "chunkSize": e.cfg.chunkSize, "utcOffset": e.cfg.utcOffset}
	for k, v := range extra {
		w[k] = v
	}
	e.r.Violation(key, what, w)
}

func (e *c23Env) loadByID(id int64) *c23Load {
	e.lmu.RLock()
	defer e.lmu.RUnlock()
	if id < 1 || id > int64(len(e.loads)) {
		return nil
	}
	return e.loads[id-1]
}

func (e *c23Env) judge(g *c23Get, res cache2Data, returned int64) (v c23Verdict) {
	step := g.win.step
	if len(res) != g.n {
		e.bad("C23/placement/result-length", "Get returned a different number of slots than requested", g, map[string]any{"got": len(res)})
		return
	}
	for i, rows := range res {
		t := g.win.slots[g.fromIdx+i]
		want := c23RowsFor(g.key, step, t)
		v.slots++
		okRows := true
		for j := range rows {
			row := &rows[j]
			switch {
			case row.tag[5] == c23Poison || row.tag[0] == c23Poison:
				okRows = false
				e.bad("C23/result/shared-with-another-caller", "Get returned rows that another request had received earlier and overwritten as their owner: results of different requests (or the cache's own copy) share memory", g, map[string]any{"slot": t, "slot_index": i})
			case row.tag[0] != int64(g.key):
				okRows = false
				e.bad("C23/placement/row-of-other-query", "slot holds a row of another query", g, map[string]any{"slot": t, "slot_index": i, "row_key": row.tag[0], "row_time": row.time})
			case row.tag[4] != step:
				okRows = false
				e.bad("C23/placement/row-of-other-step", "slot holds a row loaded for another step", g, map[string]any{"slot": t, "slot_index": i, "row_step": row.tag[4], "row_time": row.time})
			case row.time != t:
				okRows = false
				cls := "far"
				if d := (row.time - t) / step; d >= -1 && d <= 1 && step != c23Month {
					cls = "neighbour"
				}
				e.bad("C23/placement/row-of-other-slot/"+cls, "slot holds a row of another slot's time", g, map[string]any{"slot": t, "slot_index": i, "row_time": row.time, "row_load": row.tag[3]})
			}
		}
		if !okRows {
			v.bad = true
			continue
		}
		switch {
		case len(rows) == 0 && want > 0:
			e.bad("C23/placement/slot-empty", "slot is empty although the storage holds rows for it", g, map[string]any{"slot": t, "slot_index": i, "want_rows": want})
			continue
		case len(rows) > want:
			e.bad("C23/placement/rows-extra", "slot holds more rows than the storage produced for it", g, map[string]any{"slot": t, "slot_index": i, "want_rows": want, "got_rows": len(rows)})
			continue
		case len(rows) < want:
			e.bad("C23/placement/rows-missing", "slot holds fewer rows than the storage produced for it", g, map[string]any{"slot": t, "slot_index": i, "want_rows": want, "got_rows": len(rows)})
			continue
		}
		if want == 0 {
			continue
		}
		mixed := false
		for j := range rows {
			if rows[j].tag[1] != int64(j) || rows[j].tag[3] != rows[0].tag[3] || rows[j].tag[2] != rows[0].tag[2] {
				mixed = true
			}
		}
		if mixed {
			e.bad("C23/placement/rows-mixed", "rows of one slot come from different loads or are out of order", g, map[string]any{"slot": t, "slot_index": i})
			continue
		}
		ver, lid := rows[0].tag[2], rows[0].tag[3]
		L := e.loadByID(lid)
		if L == nil || L.key != g.key || L.step != step || t < L.from || t >= L.to {
			e.bad("C23/placement/row-from-unrelated-load", "row names a load that did not cover this query/slot", g, map[string]any{"slot": t, "load": lid})
			continue
		}
		// how was the slot served
		if rc := L.retClk.Load(); rc != 0 && rc < g.called {
			v.hits++
		} else if L.startClk < g.called {
			v.joined++
		} else {
			v.fresh++
		}
		if g.play != 0 {
			continue // the statement speaks about non-play requests
		}
		// freshness
		e.imu.Lock()
		invs := e.inv[c23SK{step, t}]
		var strict, sound *c23Inv
		for k := range invs {
			I := &invs[k]
			if I.doneClk >= g.called {
				continue
			}
			if strict == nil {
				v.constrained++
			}
			if strict == nil || I.ver > strict.ver {
				strict = I
			}
			if I.ver > ver {
				if fc := L.finClk.Load(); fc != 0 && fc < I.startClk && (sound == nil || I.ver > sound.ver) {
					sound = I
				}
			}
		}
		var soundCopy, strictCopy c23Inv
		if sound != nil {
			soundCopy = *sound
		}
		if strict != nil {
			strictCopy = *strict
		}
		overlapped := false
		if sound != nil {
			for ci, c := range e.invCalls {
				if int64(ci+1) == sound.call || c.step != step {
					continue
				}
				d := c.doneClk.Load()
				if c.startClk < sound.doneClk && (d == 0 || d > sound.startClk) {
					overlapped = true
					break
				}
			}
		}
		e.imu.Unlock()
		if sound != nil {
			cls := "serial-invalidate"
			if overlapped {
				cls = "overlapping-invalidate-calls"
			}
			how := "hit"
			if rc := L.retClk.Load(); rc == 0 || rc >= g.called {
				how = "joined-load"
			}
			e.bad("C23/fresh/stale-after-invalidate/"+cls, "a non-play Get that began after an invalidation of the slot had returned got rows of a load that had finished before that invalidation was even called", g,
				map[string]any{"slot": t, "slot_index": i, "row_version": ver, "invalidated_version": soundCopy.ver, "load": lid, "load_start_clk": L.startClk, "load_ret_clk": L.retClk.Load(), "load_fin_clk": L.finClk.Load(),
					"inv_start_clk": soundCopy.startClk, "inv_done_clk": soundCopy.doneClk, "get_called_clk": g.called, "get_returned_clk": returned, "served": how})
		} else if strict != nil && ver < strictCopy.ver {
			// DESIGN's first oracle (version >= every invalidation that returned before the call)
			// is stricter than the statement: the load was still in flight (or not yet
			// confirmed finished) when the invalidation ran.  Scoped out, visibly.
			v.strictStale++
			mode := "/one-invalidator"
			if e.cfg.invalidators > 1 {
				mode = "/concurrent-invalidators"
			}
			if fc := L.finClk.Load(); fc != 0 && fc < g.called {
				e.st.NotJ("stale-row/cache-hit-on-rows-of-a-load-that-was-still-in-flight-when-the-invalidation-was-called"+mode, 1)
			} else {
				e.st.NotJ("stale-row/joined-a-load-that-was-in-flight-when-the-invalidation-was-called"+mode, 1)
			}
		}
	}
	// interleaving shape: kinds of events on this step that overlap the Get in time
	lo, hi := g.win.slots[g.fromIdx], e.slotEnd(step, g.win.slots[g.fromIdx+g.n-1])
	var sb strings.Builder
	e.emu.Lock()
	for i := len(e.events) - 1; i >= 0 && e.events[i].clk > g.called; i-- {
		ev := &e.events[i]
		if ev.clk >= returned || sb.Len() >= 24 {
			continue
		}
		switch ev.kind {
		case 'L', 'l':
			if ev.step == step && ev.key == g.key && ev.from < hi && ev.to > lo {
				sb.WriteByte(ev.kind)
			}
		case 'I', 'i':
			if ev.step == step && ev.from < hi && ev.to > lo {
				sb.WriteByte(ev.kind)
			}
		case 'R', 'S':
			sb.WriteByte(ev.kind)
		}
	}
	e.emu.Unlock()
	v.shape = sb.String()
	return v
}

func c23Bucket(n int) int {
	switch {
	case n == 0:
		return 0
	case n < 4:
		return 1
	case n < 16:
		return 2
	}
	return 3
}

// ---- one round

func (e *c23Env) worker(widx int, rnd *rand.Rand) {
	cfg := &e.cfg
	handlers := [2]*requestHandler{
		{Handler: e.H, accessInfo: accessInfo{user: fmt.Sprintf("user%d", widx%3)}},
		{Handler: e.H, accessInfo: accessInfo{user: "nocache"}},
	}
	plays := []int{0, 1, 5}
	qs := map[[2]int]*queryBuilder{}
	getQ := func(key, play int) *queryBuilder {
		q := qs[[2]int{key, play}]
		if q == nil {
			q = &queryBuilder{metric: &format.MetricMetaValue{MetricID: int32(key)}, play: play, user: "u"}
			qs[[2]int{key, play}] = q
		}
		return q
	}
	var ring []*c23Retained
	defer func() {
		e.rmu.Lock()
		e.retained = append(e.retained, ring...)
		e.rmu.Unlock()
	}()
	for i := 0; i < cfg.gets; i++ {
		select {
		case <-e.abort:
			return
		default:
		}
		// results kept from earlier Gets: look at the oldest again; when the ring is full the
		// oldest is checked a last time, then overwritten by its owner and dropped
		if len(ring) > 0 {
			e.verify(ring[0], "mid-round")
			if len(ring) >= 4 {
				e.scribble(ring[0])
				ring = ring[1:]
			}
		}
		g := &c23Get{id: e.getSeq.Add(1)}
		g.key = int32(1 + rnd.IntN(cfg.keys))
		if cfg.giantKey != 0 {
			// script: fill the cache a little with ordinary loads, then one lone giant load
			if i == cfg.gets-1 {
				g.key = cfg.giantKey
			}
		}
		g.win = &e.wins[rnd.IntN(len(e.wins))]
		W := len(g.win.slots)
		maxLen := min(W, 90)
		switch rnd.IntN(4) {
		case 0:
			g.n = 1 + rnd.IntN(3)
		case 1:
			g.n = 1 + rnd.IntN(maxLen)
		default:
			g.n = 1 + rnd.IntN(min(maxLen, 25))
		}
		g.fromIdx = rnd.IntN(W - g.n + 1)
		if rnd.IntN(4) == 0 { // popular ranges, so that identical requests meet
			g.fromIdx = (g.fromIdx / 30) * 30
			g.n = min(W-g.fromIdx, []int{30, 60, 61, 7}[rnd.IntN(4)])
		}
		switch x := rnd.IntN(20); {
		case x < 14:
			g.play = 0
		default:
			g.play = plays[rnd.IntN(3)]
		}
		g.force = rnd.IntN(25) == 0
		g.direct = rnd.IntN(30) == 0
		if x := rnd.IntN(40); x == 0 {
			g.ctxKind = 1
		} else if x == 1 {
			g.ctxKind = 2
		}
		if cfg.giantKey != 0 {
			g.play, g.force, g.direct, g.ctxKind = 0, false, false, 0
		}
		h := handlers[0]
		if g.direct {
			h = handlers[1]
		}
		q := getQ(int(g.key), g.play)
		lod := data_model.LOD{Version: Version6, StepSec: g.win.step, FromSec: g.win.slots[g.fromIdx], ToSec: e.slotEnd(g.win.step, g.win.slots[g.fromIdx+g.n-1]), Location: cfg.loc}
		ctx := context.WithValue(context.Background(), c23DirectKey{}, true)
		var cancel context.CancelFunc = func() {}
		switch g.ctxKind {
		case 1:
			ctx, cancel = context.WithTimeout(ctx, time.Duration(rnd.IntN(400))*time.Microsecond)
		case 2:
			ctx, cancel = context.WithCancel(ctx)
			cancel()
		}
		type out struct {
			res cache2Data
			err error
			ret int64
		}
		done := make(chan out, 1)
		g.callWall = time.Now().UnixNano()
		e.omu.Lock()
		e.outstanding[g.id] = g
		e.omu.Unlock()
		g.called = e.event('G', g.win.step, lod.FromSec, lod.ToSec, g.key)
		go func() {
			res, err := e.cache.Get(ctx, h, q, lod, g.force)
			ret := e.event('g', g.win.step, lod.FromSec, lod.ToSec, g.key)
			e.omu.Lock()
			delete(e.outstanding, g.id)
			e.omu.Unlock()
			done <- out{res, err, ret}
		}()
		var o out
		select {
		case o = <-done:
		case <-e.abort:
			cancel()
			return
		}
		cancel()
		e.st.Count("gets", 1)
		if o.err != nil {
			switch {
			case errors.Is(o.err, errC23Injected):
				e.st.Count("gets.error.storage-failure", 1)
			case errors.Is(o.err, context.DeadlineExceeded), errors.Is(o.err, context.Canceled):
				if g.ctxKind != 0 {
					e.st.Count("gets.error.caller-context", 1)
				} else {
					e.st.Count("gets.error.load-cancelled-by-inflight-limit", 1)
				}
			default:
				e.st.Count("gets.error.other", 1)
				e.st.NotJ("get-error/"+o.err.Error(), 1)
			}
			continue
		}
		e.st.Count("gets.success", 1)
		v := e.judge(g, o.res, o.ret)
		if !v.bad && (v.hits > 0 || rnd.IntN(3) == 0) {
			ring = append(ring, e.retain(g, o.res))
		}
		e.st.Count("slots.checked", int64(v.slots))
		e.st.Count("fresh.slots-under-prior-invalidation", int64(v.constrained))
		e.st.Count("slots.served-from-cache", int64(v.hits))
		e.st.Count("slots.joined-running-load", int64(v.joined))
		e.st.Count("slots.loaded-after-call", int64(v.fresh))
		if g.play != 0 {
			e.st.NotJ("play-get/freshness", 1)
		}
		nontrivial := g.play == 0 && (v.constrained > 0 || v.joined > 0)
		abs := fmt.Sprintf("%s|%d|%d|%d|%d|%v|%v|c%d|h%d|j%d|f%d|%s", cfg.name, g.win.step, g.fromIdx, g.n, g.key, g.force, g.direct, c23Bucket(v.constrained), c23Bucket(v.hits), c23Bucket(v.joined), c23Bucket(v.fresh), v.shape)
		e.st.Case(nontrivial, abs)
		e.st.Shape(fmt.Sprintf("p%d|%s|h%d j%d f%d", g.play, v.shape, c23Bucket(v.hits), c23Bucket(v.joined), c23Bucket(v.fresh)))
		if v.constrained > 0 && v.hits > 0 {
			e.st.Sample(map[string]any{"cfg": cfg.name, "step": g.win.step, "from": lod.FromSec, "to": lod.ToSec, "key": g.key, "slots_with_prior_invalidation": v.constrained,
				"slots_from_cache": v.hits, "slots_joined_running_load": v.joined, "slots_loaded": v.fresh, "overlapping_events": v.shape})
		}
	}
}

// number of goroutines parked in tryNotExceedMemoryHardLimit's allocCond.Wait (goroutine dump)
func c23ParkedInThrottle(dump string) int {
	n := 0
	for _, g := range strings.Split(dump, "\n\n") {
		if strings.Contains(g, "(*cache2).tryNotExceedMemoryHardLimit(") && strings.Contains(strings.SplitN(g, "\n", 2)[0], "sync.Cond.Wait") {
			n++
		}
	}
	return n
}

// scriptGet issues one plain Get in its own goroutine with the same bookkeeping and judging as a worker
func (e *c23Env) scriptGet(key int32, win *c23StepWin, fromIdx, n int, tag string) <-chan error {
	g := &c23Get{id: e.getSeq.Add(1), key: key, win: win, fromIdx: fromIdx, n: n}
	h := &requestHandler{Handler: e.H, accessInfo: accessInfo{user: "script"}}
	q := &queryBuilder{metric: &format.MetricMetaValue{MetricID: key}, user: "u"}
	lod := data_model.LOD{Version: Version6, StepSec: win.step, FromSec: win.slots[fromIdx], ToSec: e.slotEnd(win.step, win.slots[fromIdx+n-1]), Location: e.cfg.loc}
	done := make(chan error, 1)
	g.callWall = time.Now().UnixNano()
	e.omu.Lock()
	e.outstanding[g.id] = g
	e.omu.Unlock()
	g.called = e.event('G', win.step, lod.FromSec, lod.ToSec, key)
	go func() {
		res, err := e.cache.Get(context.Background(), h, q, lod, false)
		ret := e.event('g', win.step, lod.FromSec, lod.ToSec, key)
		e.omu.Lock()
		delete(e.outstanding, g.id)
		e.omu.Unlock()
		e.st.Count("gets", 1)
		if err == nil {
			e.st.Count("gets.success", 1)
			v := e.judge(g, res, ret)
			e.st.Count("slots.checked", int64(v.slots))
			e.st.Case(tag != "", fmt.Sprintf("%s|%s|%d|%d|%d|h%d f%d", e.cfg.name, tag, key, fromIdx, n, c23Bucket(v.hits), c23Bucket(v.fresh)))
			e.st.Shape("script|" + tag + "|" + v.shape)
		} else {
			e.st.Count("gets.error.other", 1)
		}
		done <- err
	}()
	return done
}

// transitionScript: the limit is changed while requests sit in the memory throttle.  The trim
// goroutine is held back (the script owns the shard mutexes it needs) so that the cache stays
// above a tiny hard limit and Gets park in tryNotExceedMemoryHardLimit; then the limits are
// switched (to none / to a large one / to another tiny one ...) and the shards are released.
// Every parked Get must come back; the progress monitor decides.
func (e *c23Env) transitionScript(rnd *rand.Rand) {
	c := e.cache
	win := &e.wins[0]
	MB := 1 << 20
	type variant struct {
		name string
		seq  []cache2Limits
	}
	variants := []variant{
		{"tiny->none", []cache2Limits{{}}},
		{"tiny->large", []cache2Limits{{maxSize: 64 * MB}}},
		{"tiny->negative(none)", []cache2Limits{{maxSize: -1}}},
		{"tiny->tiny2", []cache2Limits{{maxSize: 64}}},
		{"tiny->none->tiny", []cache2Limits{{}, {maxSize: 32}}},
		{"tiny->tiny2->none", []cache2Limits{{maxSize: 48}, {}}},
		{"tiny->maxAge-only", []cache2Limits{{maxAge: time.Hour}}},
	}
	var shards []*cache2Shard
	for _, sh := range c.shards {
		shards = append(shards, sh)
	}
	sort.Slice(shards, func(i, j int) bool { return shards[i].step < shards[j].step })
	key := int32(100)
	for rep := 0; rep < e.cfg.gets && !e.hung.Load(); rep++ {
		select {
		case <-e.abort:
			return
		default:
		}
		v := variants[rep%len(variants)]
		c.setLimits(cache2Limits{maxSize: 64 * MB})
		for k := 0; k < 2; k++ { // something in the cache, loaders finished
			key++
			<-e.scriptGet(key, win, rnd.IntN(len(win.slots)-30), 30, "")
		}
		for dl := time.Now().Add(20 * time.Second); e.pendingLoads.Load() != 0 && time.Now().Before(dl); {
			time.Sleep(200 * time.Microsecond)
		}
		if ri := c.runtimeInfo(); ri.size() <= 0 {
			e.st.Count("transitions.skipped-cache-empty", 1)
			continue
		}
		for _, sh := range shards { // hold the trimmer back
			sh.mu.Lock()
		}
		c.setLimits(cache2Limits{maxSize: 32})
		K := 1 + rep%4
		var dones []<-chan error
		for k := 0; k < K; k++ {
			key++
			dones = append(dones, e.scriptGet(key, win, rnd.IntN(len(win.slots)-10), 10, v.name))
		}
		parked := 0
		buf := make([]byte, 4<<20)
		for dl := time.Now().Add(20 * time.Second); parked < K && time.Now().Before(dl); time.Sleep(time.Millisecond) {
			parked = c23ParkedInThrottle(string(buf[:runtime.Stack(buf, true)]))
		}
		if parked < K {
			e.st.Count("transitions.waiters-not-observed", 1)
		} else {
			e.st.Count("transitions.with-parked-waiters/"+v.name, 1)
			e.st.Count("transitions.parked-waiters", int64(parked))
		}
		e.lastTransition.Store(v.name)
		for _, lim := range v.seq {
			e.event('S', 0, 0, 0, 0)
			c.setLimits(lim)
			e.st.Count("setLimits", 1)
			runtime.Gosched()
		}
		for i := len(shards) - 1; i >= 0; i-- {
			shards[i].mu.Unlock()
		}
		for _, d := range dones {
			select {
			case <-d:
			case <-e.abort:
				return
			}
		}
		e.touch()
	}
}

func (e *c23Env) buildWindows(now int64) {
	cfg := &e.cfg
	for _, step := range cfg.steps {
		var w c23StepWin
		w.step = step
		if step == c23Month {
			t := c23MonthStart(now, cfg.loc)
			for i := 0; i < 11; i++ {
				t = c23MonthStart(t-1, cfg.loc)
			}
			for i := 0; i < 12; i++ {
				w.slots = append(w.slots, t)
				t = c23NextMonth(t, cfg.loc)
			}
		} else {
			W := 180
			switch {
			case step >= 604800:
				W = 12
			case step >= 86400:
				W = 30
			case step >= 14400:
				W = 48
			case step >= 3600:
				W = 96
			}
			end := c23Floor(now-cfg.anchorAgo, step, cfg.utcOffset) + step
			if cfg.anchorAgo <= 0 && step == 1 {
				end += 20 // reach a little into the future
			}
			for i := W; i > 0; i-- {
				w.slots = append(w.slots, end-int64(i)*step)
			}
		}
		e.wins = append(e.wins, w)
	}
}

// c23WaitTrimParked waits until every cache2.trim goroutine of the process sits in
// trimCond.Wait (seen in the goroutine dump).
func c23WaitTrimParked(maxWait time.Duration) bool {
	buf := make([]byte, 4<<20)
	for dl := time.Now().Add(maxWait); time.Now().Before(dl); time.Sleep(2 * time.Millisecond) {
		n := runtime.Stack(buf, true)
		busy := false
		for _, g := range strings.Split(string(buf[:n]), "\n\n") {
			if strings.Contains(g, "(*cache2).trim(") && !strings.Contains(strings.SplitN(g, "\n", 2)[0], "sync.Cond.Wait") {
				busy = true
			}
		}
		if !busy {
			return true
		}
	}
	return false
}

func c23InfoZero(info cache2RuntimeInfo) (string, bool) {
	switch {
	case info.sizeS[0]+info.sizeS[1] != 0:
		return "size", false
	case info.chunkCountS[0]+info.chunkCountS[1] != 0:
		return "chunk-count", false
	case info.chunkSizeS[0]+info.chunkSizeS[1] != 0:
		return "chunk-length", false
	case info.bucketCountS[0]+info.bucketCountS[1] != 0:
		return "bucket-count", false
	}
	return "", true
}

// c23Round runs one round inside the child process.
func c23Round(r *verifkit.Run, st *c23Stats, cfg c23Cfg) {
	e := &c23Env{r: r, st: st, cfg: cfg, seed: r.SubSeed(cfg.name), ver: map[c23SK]int64{}, inv: map[c23SK][]c23Inv{}, outstanding: map[int64]*c23Get{}, abort: make(chan struct{})}
	e.H = &Handler{HandlerOptions: HandlerOptions{location: cfg.loc, utcOffset: cfg.utcOffset}, CacheBlacklist: []string{"nocache"}}
	e.buildWindows(time.Now().Unix())
	e.cache = newCache2(e.H, cfg.chunkSize, e.load)
	if len(cfg.limits) > 0 {
		e.cache.setLimits(cfg.limits[0])
	}
	e.touch()
	var stop, stopMon atomic.Bool
	var side, mon, workers sync.WaitGroup
	for i := 0; i < cfg.invalidators; i++ {
		side.Add(1)
		go e.invalidator(i, &stop, &side)
	}
	if len(cfg.limits) > 1 {
		side.Add(1)
		go e.limiter(&stop, &side)
	}
	if cfg.resetter {
		side.Add(1)
		go e.resetter(&stop, &side)
	}
	if cfg.metrics {
		side.Add(1)
		go e.metricsSender(&stop, &side)
	}
	mon.Add(1)
	go e.progressMonitor(&stopMon, &mon)
	e.lastTransition.Store("")
	if cfg.transitions {
		e.transitionScript(r.Rand(cfg.name + "/script"))
	}
	for i := 0; i < cfg.workers && !cfg.transitions; i++ {
		workers.Add(1)
		go func(i int) {
			defer workers.Done()
			e.worker(i, r.Rand(fmt.Sprintf("%s/worker/%d", cfg.name, i)))
		}(i)
	}
	workers.Wait()
	stop.Store(true)
	side.Wait()
	stopMon.Store(true)
	mon.Wait()
	st.Count("rounds", 1)
	select {
	case <-e.abort:
		r.Inconclusive("round " + cfg.name + ": Gets stayed blocked even after the limits were lifted; the round was abandoned")
		return
	default:
	}
	// quiescence: every loadChunks goroutine has finished its bookkeeping
	deadline := time.Now().Add(60 * time.Second)
	for e.pendingLoads.Load() != 0 && time.Now().Before(deadline) {
		time.Sleep(200 * time.Microsecond)
	}
	if n := e.pendingLoads.Load(); n != 0 {
		r.Inconclusive(fmt.Sprintf("round %s: %d load goroutines of the cache did not finish within 60 s after the last Get returned; memory accounting not judged", cfg.name, n))
		return
	}
	// retained results once more: no Get and no load is running now
	for _, rt := range e.retained {
		e.verify(rt, "at-quiescence")
	}
	c := e.cache
	snapshot := func() (cache2RuntimeInfo, int64, int, int64) {
		c.mu.Lock()
		defer c.mu.Unlock()
		info := c.info
		info.normalizeWaterLevel()
		return info, c.inflightBytes, len(c.inflightReqM), c.waitN.Load()
	}
	memWitness := func(info cache2RuntimeInfo, inflight int64, reqs int) map[string]any {
		return map[string]any{"cfg": cfg.name, "sizeS": info.sizeS, "bucketCountS": info.bucketCountS, "chunkCountS": info.chunkCountS, "chunkSizeS": info.chunkSizeS, "inflightBytes": inflight, "inflightReqs": reqs,
			"loads": e.loadSeq.Load(), "gets": e.getSeq.Load(), "buckets_left": c.bucketCount()}
	}
	if cfg.emptyByReset {
		// no trimming from now on: a limit nothing reaches (an empty limit would make the trim
		// goroutine flush everything), then wait until the trim goroutine is parked, so that this
		// reset() does not run concurrently with a trim pass
		c.setLimits(cache2Limits{maxSize: 1 << 50})
		c23WaitTrimParked(20 * time.Second)
		c.reset()
		// the trim goroutine applies the accounting of a bucket it removed a moment later;
		// wait for a stable state (only a state that stays non-zero is judged)
		var info cache2RuntimeInfo
		var inflight int64
		var reqs int
		field, ok := "", false
		for dl := time.Now().Add(30 * time.Second); ; {
			info, inflight, reqs, _ = snapshot()
			field, ok = c23InfoZero(info)
			if ok || time.Now().After(dl) {
				break
			}
			time.Sleep(time.Millisecond)
		}
		if !ok {
			r.Violation("C23/memory/nonzero-after-reset/"+field, "runtime info does not return to zero after reset() at quiescence", memWitness(info, inflight, reqs))
		}
		if inflight != 0 || reqs != 0 {
			r.Violation("C23/memory/inflight-nonzero-at-quiescence", "in-flight byte accounting is not zero although no load is running", memWitness(info, inflight, reqs))
		}
		st.Count("memory.checked-after-reset", 1)
	}
	wg := c.shutdown()
	sd := make(chan struct{})
	go func() { wg.Wait(); close(sd) }()
	select {
	case <-sd:
	case <-time.After(120 * time.Second):
		r.Inconclusive("round " + cfg.name + ": shutdown().Wait() did not return within 120 s")
		return
	}
	info, inflight, reqs, waitN := snapshot()
	// shutdown trims until the accounted size is zero; buckets whose chunks hold no data (failed or
	// cancelled loads) may legitimately stay.  Judged: the size is zero now, and everything is zero
	// once the cache is really emptied by reset().
	if info.sizeS[0]+info.sizeS[1] != 0 {
		r.Violation("C23/memory/nonzero-after-shutdown/size", "accounted size does not return to zero after shutdown().Wait() at quiescence", memWitness(info, inflight, reqs))
	}
	if n := c.bucketCount(); n != 0 {
		st.Count("memory.zero-size-buckets-left-by-shutdown", int64(n))
	}
	c.reset()
	info, inflight, reqs, _ = snapshot()
	if field, ok := c23InfoZero(info); !ok {
		r.Violation("C23/memory/nonzero-after-shutdown+reset/"+field, "runtime info does not return to zero after shutdown().Wait() and reset() at quiescence", memWitness(info, inflight, reqs))
	}
	if n := c.bucketCount(); n != 0 {
		r.Violation("C23/memory/buckets-left-after-reset", "buckets remain after reset()", memWitness(info, inflight, reqs))
	}
	for _, rt := range e.retained {
		e.verify(rt, "after-cache-emptied")
	}
	st.Count("memory.checked-after-shutdown", 1)
	// statistics gauge, deliberately not judged (DESIGN §6 C23)
	if waitN != 0 {
		st.NotJ("waitN-gauge-nonzero-at-quiescence", 1)
	}
	st.Count("gauge.waitN.sum", waitN)
}

func c23Profiles() []c23Cfg {
	utc := time.UTC
	msk := time.FixedZone("UTC+3", 3*3600)
	nyc := time.FixedZone("UTC-5", -5*3600)
	mskOff := calcUTCOffset(msk, time.Monday)
	nycOff := calcUTCOffset(nyc, time.Sunday)
	MB := 1 << 20
	return []c23Cfg{
		{name: "hot", loc: utc, steps: []int64{1, 60, 3600}, anchorAgo: 0, workers: 32, keys: 2, invalidators: 1, failP: 0.01, emptyByReset: true},
		{name: "old-limits", loc: utc, steps: []int64{1, 5, 15}, anchorAgo: 3600, workers: 64, keys: 3, invalidators: 1, limits: []cache2Limits{{maxSize: 2 * MB}, {}, {maxSize: 300 << 10}, {maxSize: 8 * MB, maxSizeSoft: MB}}, resetter: true, failP: 0.03, slowP: 0.05},
		{name: "tiny-limits", metrics: true, loc: utc, steps: []int64{1, 60, 300}, anchorAgo: 600, workers: 48, keys: 2, invalidators: 1, limits: []cache2Limits{{maxSize: 32}, {maxSize: 100 << 10, maxAge: 20 * time.Millisecond}, {}, {maxSize: 64 << 10}}, emptyByReset: true},
		{name: "tz-large-steps", loc: msk, utcOffset: mskOff, steps: []int64{3600, 14400, 86400, 604800}, anchorAgo: 0, workers: 32, keys: 3, invalidators: 1, limits: []cache2Limits{{}, {maxSize: MB}}, failP: 0.01},
		{name: "month", loc: nyc, utcOffset: nycOff, steps: []int64{c23Month, 86400, 900}, anchorAgo: 0, workers: 32, keys: 2, invalidators: 1, emptyByReset: true},
		{name: "chunk7", metrics: true, chunkSize: 7, loc: utc, steps: []int64{1, 60, 3600}, anchorAgo: 7200, workers: 48, keys: 2, invalidators: 1, limits: []cache2Limits{{}, {maxSize: 512 << 10}}, resetter: true, slowP: 0.1},
		{name: "concurrent-invalidators", loc: utc, steps: []int64{1, 15, 60}, anchorAgo: 3600, workers: 48, keys: 5, invalidators: 3, emptyByReset: true},
		{name: "inflight", loc: utc, steps: []int64{1, 60}, anchorAgo: 1800, workers: 48, keys: 3, invalidators: 1, inflightP: 0.7, limits: []cache2Limits{{maxSize: 4 * MB}, {maxSize: 600 << 10}, {}, {maxSize: 64 << 10}}, failP: 0.01},
		{name: "lone-giant-inflight", loc: utc, steps: []int64{1}, anchorAgo: 3600, workers: 1, keys: 2, giantKey: 9, giantBytes: 64 * int64(MB), limits: []cache2Limits{{maxSize: 1 * MB}}, emptyByReset: true},
		{name: "limit-transitions", transitions: true, loc: utc, steps: []int64{1}, anchorAgo: 3600, workers: 1, keys: 1},
		{name: "many-goroutines", loc: msk, utcOffset: mskOff, steps: []int64{1, 300, 14400}, anchorAgo: 30, workers: 128, keys: 4, invalidators: 1, limits: []cache2Limits{{maxSize: 3 * MB, maxAge: 50 * time.Millisecond}, {}}, resetter: true, inflightP: 0.2, failP: 0.02, slowP: 0.03, emptyByReset: true},
	}
}

// the list of rounds is a pure function of (seed, tier)
func c23Rounds(r *verifkit.Run) []c23Cfg {
	profiles := c23Profiles()
	totalGets := r.N(12000, 120000)
	rnd := r.Rand("rounds")
	var cfgs []c23Cfg
	per := totalGets / (2 * len(profiles))
	spent := 0
	for _, p := range profiles {
		p.gets = max(8, per/p.workers)
		if p.giantKey != 0 {
			p.gets = 6
		}
		if p.transitions {
			p.gets = r.N(21, 140) // repetitions of the script
		}
		spent += p.gets * p.workers
		cfgs = append(cfgs, p)
	}
	for i := 0; spent < totalGets; i++ {
		p := profiles[rnd.IntN(len(profiles))]
		if p.giantKey != 0 || p.transitions {
			continue
		}
		p.name = fmt.Sprintf("%s#%d", p.name, i)
		if p.chunkSize == 0 && rnd.IntN(4) == 0 {
			p.chunkSize = []int{1, 3, 10, 100}[rnd.IntN(4)]
		}
		p.workers = []int{32, 48, 64, 128}[rnd.IntN(4)]
		p.keys = 1 + rnd.IntN(5)
		p.emptyByReset = rnd.IntN(2) == 0
		p.resetter = rnd.IntN(3) == 0
		p.failP = []float64{0, 0.01, 0.05}[rnd.IntN(3)]
		p.slowP = []float64{0, 0.03, 0.15}[rnd.IntN(3)]
		p.metrics = rnd.IntN(3) == 0
		budget := min(totalGets-spent, r.N(per, 25000))
		p.gets = max(8, budget/p.workers)
		spent += p.gets * p.workers
		cfgs = append(cfgs, p)
	}
	return cfgs
}

const c23Rule = "rounds of 32-128 goroutines issuing Get (3-4 steps per round out of 1s..1 month, chunk-aligned and unaligned ranges of 1-90 slots from a small window so that requests overlap, play 0/1/5, forceLoad, cache-disabled users, cancelled contexts) against the real cache2 over a versioned stub storage, concurrently with invalidate (after bumping versions), reset, setLimits (tiny/moderate/no limit, maxAge) and failing / slow / in-flight-accounted loads; every round runs in its own child process so that a crash of the cache is observed and classified. One case = one successful Get, judged slot by slot (placement) and, for play=0, against every invalidation of the slot that returned before the call (freshness); about half of the results (all that contain cache hits) are kept with a per-slot digest, re-read before later Gets of the same goroutine, at quiescence and after the cache was emptied (a returned result must not change), and are finally overwritten by their owner (no later Get may see that). Non-trivial = a non-play Get with at least one slot under a prior invalidation or served by joining a load that was already running; distinct = (round, step, range, key, flags, served-how buckets, overlapping event kinds)."

func TestVerifC23(t *testing.T) {
	r := verifkit.Start(t, "C23", "cache2")
	defer r.Finish()
	cfgs := c23Rounds(r)
	if s := os.Getenv("VERIF_C23_CHILD"); s != "" {
		c23Child(r, cfgs, s)
		return
	}
	r.SetRule(c23Rule)
	r.Assume("freshness is judged as the statement words it: a row is stale only if its load had finished (cache bookkeeping included) before the invalidation was called; rows of loads still in flight during the invalidation are counted under not_judged")
	r.Assume("the in-flight byte accounting API is driven by the stub the way loadPoints drives it")
	tmp := r.MkTmp("c23-")
	defer os.RemoveAll(tmp)
	// sessions: contiguous slices of the round list, each run by a chain of child processes
	par := r.N(1, 4)
	var wg sync.WaitGroup
	for s := 0; s < par; s++ {
		lo, hi := len(cfgs)*s/par, len(cfgs)*(s+1)/par
		wg.Add(1)
		go func(s, lo, hi int) {
			defer wg.Done()
			c23Session(r, tmp, s, cfgs, lo, hi)
		}(s, lo, hi)
	}
	wg.Wait()
}

// child process: rounds [lo,hi) one after another; the aux file always names the round in progress
func c23Child(r *verifkit.Run, cfgs []c23Cfg, spec string) {
	var lo, hi int
	if _, err := fmt.Sscanf(spec, "%d:%d", &lo, &hi); err != nil || lo < 0 || hi > len(cfgs) {
		r.T.Fatalf("bad VERIF_C23_CHILD %q", spec)
	}
	noReset := map[int]bool{}
	for _, f := range strings.Split(os.Getenv("VERIF_C23_NORESET"), ",") {
		if n, err := strconv.Atoi(f); err == nil {
			noReset[n] = true
		}
	}
	st := c23NewStats()
	aux := os.Getenv("VERIF_C23_AUX")
	stopDump := make(chan struct{})
	var dg sync.WaitGroup
	dg.Add(1)
	go func() {
		defer dg.Done()
		for {
			select {
			case <-stopDump:
				return
			case <-time.After(500 * time.Millisecond):
				st.dump(aux, false)
			}
		}
	}()
	for i := lo; i < hi; i++ {
		cfg := cfgs[i]
		if noReset[i] {
			cfg.resetter = false
			cfg.name += "-noreset"
			st.Count("rounds.resetter-disabled-because-of-known-crash", 1)
		}
		st.mu.Lock()
		st.Cur = i
		st.mu.Unlock()
		st.dump(aux, false)
		t0 := time.Now()
		c23Round(r, st, cfg)
		st.Count("wall_ms/"+strings.SplitN(cfg.name, "#", 2)[0], time.Since(t0).Milliseconds())
	}
	close(stopDump)
	dg.Wait()
	st.dump(aux, true)
}

var c23MergeMu sync.Mutex

func c23Session(r *verifkit.Run, tmp string, sess int, cfgs []c23Cfg, lo, hi int) {
	noReset := map[int]bool{}
	for n := 0; lo < hi; n++ {
		cur, done, crashKey, fatal := c23RunChild(r, tmp, fmt.Sprintf("s%d-%d", sess, n), cfgs, lo, hi, noReset)
		if done || fatal {
			return
		}
		// the child died while round cur was running
		if crashKey != "" && r.IsKnown(crashKey) && cfgs[cur].resetter && !noReset[cur] {
			// an already recorded defect that needs reset() concurrent with trimming: run this round
			// again and the later rounds that trim without the resetter, so that the rest is still judged
			for j := cur; j < hi; j++ {
				if cfgs[j].resetter && len(cfgs[j].limits) > 0 {
					noReset[j] = true
				}
			}
			noReset[cur] = true
			lo = cur
		} else {
			lo = cur + 1
		}
	}
}

// c23RunChild runs rounds [lo,hi) in one child process and merges its evidence.
func c23RunChild(r *verifkit.Run, tmp, tag string, cfgs []c23Cfg, lo, hi int, noReset map[int]bool) (cur int, done bool, crashKey string, fatal bool) {
	out := filepath.Join(tmp, "child-"+tag+".json")
	aux := filepath.Join(tmp, "child-"+tag+".aux")
	logp := filepath.Join(tmp, "child-"+tag+".log")
	lf, err := os.Create(logp)
	if err != nil {
		r.Inconclusive("cannot create child log: " + err.Error())
		return 0, false, "", true
	}
	self := os.Getenv("VERIF_SELF")
	if self == "" {
		self, _ = os.Executable()
	}
	ctx, cancel := context.WithTimeout(context.Background(), time.Duration(r.N(800, 6000))*time.Second)
	defer cancel()
	cmd := exec.CommandContext(ctx, self, "-test.run", "^TestVerifC23$", "-test.v", "-test.timeout", "0", "-test.count", "1")
	var nr []string
	for k := range noReset {
		nr = append(nr, strconv.Itoa(k))
	}
	cmd.Env = append(os.Environ(), fmt.Sprintf("VERIF_C23_CHILD=%d:%d", lo, hi), "VERIF_OUT="+out, "VERIF_C23_AUX="+aux, "VERIF_C23_NORESET="+strings.Join(nr, ","))
	// the child's race reports go to a private file first: reports of a child that crashed are
	// consequences of the crash (a panicking trim goroutine unlocks c.mu under another goroutine's
	// feet) and are kept as a witness only
	raceTo := ""
	for _, f := range strings.Fields(os.Getenv("GORACE")) {
		if strings.HasPrefix(f, "log_path=") {
			raceTo = strings.TrimPrefix(f, "log_path=")
		}
	}
	racePriv := filepath.Join(tmp, "race-"+tag)
	if raceTo != "" {
		cmd.Env = append(cmd.Env, "GORACE=halt_on_error=0 log_path="+racePriv)
	}
	cmd.Stdout, cmd.Stderr = lf, lf
	t0 := time.Now()
	runErr := cmd.Run()
	lf.Close()

	c23MergeMu.Lock()
	defer c23MergeMu.Unlock()
	r.Count("child.processes", 1)
	r.Count("child.wall_ms", time.Since(t0).Milliseconds())
	st := c23Stats{Cur: lo}
	if b, err := os.ReadFile(aux); err == nil {
		_ = json.Unmarshal(b, &st)
	}
	for k, v := range st.Counters {
		r.Count(k, v)
	}
	for k, v := range st.NotJudged {
		r.NotJudged(k, v)
	}
	for _, h := range st.DistinctL {
		r.CaseHash(true, h)
	}
	for n := st.Evals - int64(len(st.DistinctL)); n > 0; n-- {
		r.CaseHash(false, 0)
	}
	for _, h := range st.ShapesL {
		r.Shape(strconv.FormatUint(h, 16))
	}
	for _, s := range st.Samples {
		r.Sample(s)
	}
	var res verifkit.Result
	if b, err := os.ReadFile(out); err == nil {
		_ = json.Unmarshal(b, &res)
	}
	for _, v := range res.Violations {
		for n := 0; n < max(1, min(v.Count, 50)); n++ {
			r.Violation(v.Key, v.What, v.Witness)
		}
	}
	for _, m := range res.Inconclusive {
		r.Inconclusive(m)
	}
	raceFiles, _ := filepath.Glob(racePriv + ".*")
	if res.Completed && st.Done {
		// (a child that saw a data race exits with status 1 after finishing all its rounds: testing
		// fails the test; its reports are handed to the driver like any other)
		for _, f := range raceFiles {
			if b, err := os.ReadFile(f); err == nil {
				_ = os.WriteFile(raceTo+"."+tag+filepath.Ext(f), b, 0o644)
			}
		}
		return hi, true, "", false
	}
	if len(raceFiles) > 0 {
		r.Count("race-report-files-of-crashed-children-not-counted", int64(len(raceFiles)))
	}
	cfg := cfgs[st.Cur]
	logb, _ := os.ReadFile(logp)
	if ctx.Err() != nil {
		r.Inconclusive(fmt.Sprintf("round %s: child process did not finish in time", cfg.name))
		return st.Cur, false, "", true
	}
	key, what, excerpt, harness := c23ClassifyCrash(string(logb))
	if harness || key == "" {
		r.Inconclusive(fmt.Sprintf("round %s: child process ended abnormally (%v) without a crash inside the code under test: %s", cfg.name, runErr, what))
		r.Count("child.abnormal-exit", 1)
		r.Sample(map[string]any{"abnormal_child_log": excerpt})
		return st.Cur, false, "", true
	}
	r.Count("rounds.crashed", 1)
	r.Violation(key, "the process crashed inside the cache while round '"+cfg.name+"' was running: "+what,
		map[string]any{"cfg": cfg.name, "limits": fmt.Sprintf("%+v", cfg.limits), "resetter": cfg.resetter && !noReset[st.Cur], "invalidators": cfg.invalidators, "log": excerpt})
	return st.Cur, false, key, false
}

// c23ClassifyCrash derives a stable signature from a Go crash log: the chain of the
// innermost frames of package api in the goroutine that panicked.  A panic inside the trim
// goroutine runs trim's deferred c.mu.Unlock() while another goroutine may own the mutex, so
// the process often dies of a secondary "unlock of unlocked mutex" in an innocent goroutine;
// therefore a goroutine that is unwinding a panic (a "panic(" frame above frames of package
// api) is preferred over the goroutine that printed the fatal error.
func c23ClassifyCrash(log string) (key, what, excerpt string, harness bool) {
	i := strings.Index(log, "\npanic: ")
	if j := strings.Index(log, "fatal error: "); j >= 0 && (i < 0 || j < i) {
		i = j
	}
	if i < 0 {
		return "", "no panic or fatal error in the log", c23Tail(log, 30), false
	}
	rest := log[i:]
	what = strings.TrimSpace(strings.SplitN(strings.TrimPrefix(rest, "\n"), "\n", 2)[0])
	const pfx = "github.com/VKCOM/statshouse/internal/api."
	chainOf := func(block string, afterPanic bool) (chain []string, inHarness bool) {
		seenPanic := !afterPanic
		for _, l := range strings.Split(block, "\n") {
			if strings.HasPrefix(l, "panic(") {
				seenPanic = true
				chain = chain[:0]
				continue
			}
			if !seenPanic || !strings.HasPrefix(l, pfx) {
				continue
			}
			f := strings.TrimPrefix(l, pfx)
			if k := strings.LastIndex(f, "("); k > 0 {
				f = f[:k]
			}
			f = strings.NewReplacer("(*", "", ")", "", "...", "").Replace(f)
			if strings.Contains(f, "c23") || strings.Contains(f, "TestVerif") {
				if len(chain) == 0 {
					inHarness = true
				}
				break
			}
			chain = append(chain, f)
			if len(chain) == 4 {
				break
			}
		}
		return chain, inHarness
	}
	blocks := strings.Split(rest, "\n\n")
	var chain []string
	var root string
	for _, b := range blocks {
		if !strings.HasPrefix(strings.TrimLeft(b, "\n"), "goroutine ") || !strings.Contains(b, "\npanic(") {
			continue
		}
		if c, h := chainOf(b, true); len(c) > 0 && !h {
			chain, root = c, b
			break
		}
	}
	if chain == nil {
		for _, b := range blocks {
			if strings.HasPrefix(strings.TrimLeft(b, "\n"), "goroutine ") {
				chain, harness = chainOf(b, false)
				root = b
				break
			}
		}
	}
	lines := strings.Split(rest, "\n")
	if len(lines) > 40 {
		lines = lines[:40]
	}
	excerpt = strings.Join(lines, "\n")
	if root != "" && !strings.Contains(excerpt, root[:min(len(root), 200)]) {
		rl := strings.Split(root, "\n")
		if len(rl) > 40 {
			rl = rl[:40]
		}
		excerpt += "\n...\n[goroutine unwinding the panic]\n" + strings.Join(rl, "\n")
	}
	if len(chain) == 0 {
		if harness {
			return "", what, excerpt, true
		}
		return "C23/crash/unknown-stack", what, excerpt, false
	}
	kind := "panic"
	if strings.Contains(root, "runtime.sigpanic") || strings.Contains(root, "runtime.panicmem") || strings.Contains(rest[:min(len(rest), 400)], "SIGSEGV") {
		kind = "nil-deref"
	}
	return "C23/crash/" + kind + "/" + strings.Join(chain, "<"), what, excerpt, false
}

func c23Tail(s string, n int) string {
	l := strings.Split(strings.TrimRight(s, "\n"), "\n")
	if len(l) > n {
		l = l[len(l)-n:]
	}
	return strings.Join(l, "\n")
}
