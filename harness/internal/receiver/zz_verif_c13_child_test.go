//go:build verif

package receiver

// C13 robustness: hostile corpus generator, structural MessagePack walker, instrumented
// parser and the child-process side of the monitor.

import (
	"bytes"
	"encoding/binary"
	"encoding/json"
	"fmt"
	"math/rand/v2"
	"os"
	"reflect"
	"regexp"
	"runtime"
	"runtime/debug"
	"runtime/metrics"
	"strconv"
	"strings"
	"syscall"
	"testing"

	"google.golang.org/protobuf/encoding/protowire"

	"github.com/VKCOM/statshouse/internal/agent"
	"github.com/VKCOM/statshouse/internal/data_model"
	"github.com/VKCOM/statshouse/internal/data_model/gen2/tlstatshouse"
)

// ------------------------------------------------------------------ instrumented parser

const (
	c13SlotNone = iota
	c13SlotTLOK
	c13SlotTLErr
	c13SlotJSONOK
	c13SlotJSONErr
	c13SlotMsgpackOK
	c13SlotMsgpackErr
	c13SlotProtobufOK
	c13SlotProtobufErr
	c13SlotLegacy
	c13SlotEmpty
	c13SlotMany // more than one packet-size status for one packet
)

var c13SlotNames = []string{"none", "tl/ok", "tl/err", "json/ok", "json/err", "msgpack/ok", "msgpack/err", "protobuf/ok", "protobuf/err", "legacy", "empty", "many"}

// c13Parser is the real parser with a fresh built-in value behind every packet-size
// status, so that the format the parser decided on is observable without an agent.
type c13Parser struct {
	p     parser
	slots [c13SlotMany]*agent.BuiltInItemValue
	last  [c13SlotMany]float64
}

func c13NewParser() *c13Parser {
	c := &c13Parser{}
	for i := range c.slots {
		c.slots[i] = &agent.BuiltInItemValue{}
	}
	c.p.packetSizeTLOK, c.p.packetSizeTLErr = c.slots[c13SlotTLOK], c.slots[c13SlotTLErr]
	c.p.packetSizeJSONOK, c.p.packetSizeJSONErr = c.slots[c13SlotJSONOK], c.slots[c13SlotJSONErr]
	c.p.packetSizeMsgPackOK, c.p.packetSizeMsgPackErr = c.slots[c13SlotMsgpackOK], c.slots[c13SlotMsgpackErr]
	c.p.packetSizeProtobufOK, c.p.packetSizeProtobufErr = c.slots[c13SlotProtobufOK], c.slots[c13SlotProtobufErr]
	c.p.packetSizeLegacyErr, c.p.packetSizeEmptyErr = c.slots[c13SlotLegacy], c.slots[c13SlotEmpty]
	return c
}

func c13BuiltinCount(v *agent.BuiltInItemValue) float64 {
	return reflect.ValueOf(v).Elem().FieldByName("value").FieldByName("ItemCounter").FieldByName("counter").Float()
}

// slot returns which packet-size status was touched since the previous call.
func (c *c13Parser) slot() int {
	got := c13SlotNone
	for i := 1; i < c13SlotMany; i++ {
		n := c13BuiltinCount(c.slots[i])
		if n != c.last[i] {
			if got != c13SlotNone || n != c.last[i]+1 {
				got = c13SlotMany
			} else {
				got = i
			}
			c.last[i] = n
		}
	}
	return got
}

// c13ExpectFormat is the documented detection rule, written independently of parse().
func c13ExpectFormat(pkt []byte) string {
	switch {
	case len(pkt) == 0:
		return "empty"
	case len(pkt) >= 4 && binary.LittleEndian.Uint32(pkt) == 0x56580239:
		return "tl"
	case pkt[0] == '{':
		return "json"
	case len(pkt) >= 2 && pkt[0] == 'S' && pkt[1] == 'H':
		return "legacy"
	case pkt[0]&0xf0 == 0x80, pkt[0] == 0xde && len(pkt) >= 3, pkt[0] == 0xdf && len(pkt) >= 5:
		return "msgpack"
	}
	return "protobuf"
}

type c13Recorder struct {
	keep       bool
	metrics    []c13Metric
	nMetrics   int
	parseErrs  int
	errText    string
	errPanic   string
	emptyBytes bool
}

func (r *c13Recorder) reset() {
	r.metrics, r.nMetrics, r.parseErrs, r.errText, r.errPanic, r.emptyBytes = r.metrics[:0], 0, 0, "", "", false
}

func (r *c13Recorder) HandleMetrics(a data_model.HandlerArgs) {
	r.nMetrics++
	if r.keep {
		r.metrics = append(r.metrics, c13FromDecoded(a.MetricBytes))
	}
}

// c13ErrText renders an error the way any consumer would; an Error method that panics is
// reported, not propagated.
func c13ErrText(err error) (text string, panicked string) {
	defer func() {
		if p := recover(); p != nil {
			panicked = fmt.Sprint(p)
		}
	}()
	return err.Error(), ""
}

func (r *c13Recorder) HandleParseError(pkt []byte, err error) {
	r.parseErrs++
	if len(pkt) == 0 {
		r.emptyBytes = true
	}
	if err == nil {
		r.errPanic = "HandleParseError called with nil error"
		return
	}
	r.errText, r.errPanic = c13ErrText(err)
}

// ------------------------------------------------------------------ MessagePack structure

// c13MPHeader decodes one MessagePack header (written from the format specification).
// kind: 'a' array, 'm' map, 's' payload of n bytes follows, 'v' scalar contained in hdr.
func c13MPHeader(b []byte) (hdr int, kind byte, n uint64, ok bool) {
	if len(b) == 0 {
		return 0, 0, 0, false
	}
	c := b[0]
	need := func(k int) bool { return len(b) >= k }
	be := func(off, k int) uint64 {
		var v uint64
		for i := 0; i < k; i++ {
			v = v<<8 | uint64(b[off+i])
		}
		return v
	}
	switch {
	case c <= 0x7f, c >= 0xe0, c == 0xc0, c == 0xc2, c == 0xc3:
		return 1, 'v', 0, true
	case c&0xf0 == 0x80:
		return 1, 'm', uint64(c & 0x0f), true
	case c&0xf0 == 0x90:
		return 1, 'a', uint64(c & 0x0f), true
	case c&0xe0 == 0xa0:
		return 1, 's', uint64(c & 0x1f), true
	case c == 0xc1:
		return 0, 0, 0, false
	}
	type spec struct {
		hdr  int
		kind byte
		lenW int // width of the length/count field
		add  uint64
	}
	var s spec
	switch c {
	case 0xc4, 0xd9:
		s = spec{2, 's', 1, 0}
	case 0xc5, 0xda:
		s = spec{3, 's', 2, 0}
	case 0xc6, 0xdb:
		s = spec{5, 's', 4, 0}
	case 0xc7:
		s = spec{3, 's', 1, 0} // ext8: len, type
	case 0xc8:
		s = spec{4, 's', 2, 0}
	case 0xc9:
		s = spec{6, 's', 4, 0}
	case 0xca, 0xce, 0xd2:
		return 5, 'v', 0, need(5)
	case 0xcb, 0xcf, 0xd3:
		return 9, 'v', 0, need(9)
	case 0xcc, 0xd0:
		return 2, 'v', 0, need(2)
	case 0xcd, 0xd1:
		return 3, 'v', 0, need(3)
	case 0xd4:
		return 3, 'v', 0, need(3)
	case 0xd5:
		return 4, 'v', 0, need(4)
	case 0xd6:
		return 6, 'v', 0, need(6)
	case 0xd7:
		return 10, 'v', 0, need(10)
	case 0xd8:
		return 18, 'v', 0, need(18)
	case 0xdc:
		s = spec{3, 'a', 2, 0}
	case 0xdd:
		s = spec{5, 'a', 4, 0}
	case 0xde:
		s = spec{3, 'm', 2, 0}
	case 0xdf:
		s = spec{5, 'm', 4, 0}
	default:
		return 0, 0, 0, false
	}
	if !need(s.hdr) {
		return 0, 0, 0, false
	}
	return s.hdr, s.kind, be(1, s.lenW), true
}

// c13MsgpackGiantHeader walks the value stream of a MessagePack packet and reports the
// first array/map header whose declared element count exceeds the bytes that remain
// after it (every element needs at least one byte, so such a header cannot be honest).
// The walk stops without a finding at the first malformed or truncated element.
// headers, when not nil, receives the offset of every collection/string header seen.
func c13MsgpackGiantHeader(pkt []byte, headers *[]int) (found bool, off int, declared uint64, remaining int) {
	pos := 0
	var stack []uint64
	for {
		for len(stack) > 0 && stack[len(stack)-1] == 0 {
			stack = stack[:len(stack)-1]
		}
		if pos >= len(pkt) {
			return false, 0, 0, 0
		}
		hdr, kind, n, ok := c13MPHeader(pkt[pos:])
		if !ok {
			return false, 0, 0, 0
		}
		if len(stack) > 0 {
			stack[len(stack)-1]--
		}
		start := pos
		pos += hdr
		switch kind {
		case 'a', 'm':
			if headers != nil {
				*headers = append(*headers, start)
			}
			if n > uint64(len(pkt)-pos) {
				return true, start, n, len(pkt) - pos
			}
			if kind == 'm' {
				n *= 2
			}
			stack = append(stack, n)
		case 's':
			if headers != nil {
				*headers = append(*headers, start)
			}
			if n > uint64(len(pkt)-pos) {
				return false, 0, 0, 0
			}
			pos += int(n)
		}
	}
}

// ------------------------------------------------------------------ hostile corpus

var c13HugeLens = []uint64{0, 1, 0x7f, 0x80, 0xff, 0x100, 0xffff, 0x10000, 1 << 20, 1<<31 - 1, 1 << 31, 1<<32 - 1, 1 << 31, 1<<32 - 1}

func c13ValidPacket(rnd *rand.Rand) (pkt []byte, fmtName string) {
	b := c13GenBatchN(rnd, 1+rnd.IntN(3))
	for {
		switch rnd.IntN(4) {
		case 0:
			pkt, _ = c13EncTL(rnd, &b)
			return pkt, "tl"
		case 1:
			if !b.KeysUTF8 {
				continue
			}
			pkt, _, _ = c13EncJSON(rnd, &b)
			return pkt, "json"
		case 2:
			pkt, _ = c13EncMsgpack(rnd, &b)
			return pkt, "msgpack"
		default:
			pkt, _ = c13EncProtobuf(rnd, &b)
			return pkt, "protobuf"
		}
	}
}

func c13Splice(pkt []byte, at, del int, ins []byte) []byte {
	if at > len(pkt) {
		at = len(pkt)
	}
	if at+del > len(pkt) {
		del = len(pkt) - at
	}
	out := make([]byte, 0, len(pkt)-del+len(ins))
	out = append(out, pkt[:at]...)
	out = append(out, ins...)
	return append(out, pkt[at+del:]...)
}

var c13JSONJunk = []string{"1e999", "-", "99999999999999999999999999", "\\u12", "\"\\ud800\"", "\"\\udc00\\ud800\"", "[", "]", "{", "}", "\x00", "\xef\xbb\xbf", "null", "true", "1.5e", "0x10", "\"", ":", ",,",
	"{\"base64\":\"!!\"}", "{\"base64\":1}", "-0", "1E+400", "\"NaN\"", "\"nan\"", "4294967296", "-1", "9223372036854775808", "\"\\", "\t", "/**/", "'a'"}

// c13MutateLength overwrites one length/count field in a format-aware way.
// collection=false keeps clear of MessagePack array/map counts (strings only).
func c13MutateLength(rnd *rand.Rand, pkt []byte, fmtName string, collection bool) []byte {
	huge := c13HugeLens[rnd.IntN(len(c13HugeLens))]
	switch fmtName {
	case "tl":
		if len(pkt) < 8 {
			return pkt
		}
		off := 4 * rnd.IntN(len(pkt)/4)
		out := append([]byte{}, pkt...)
		if rnd.IntN(4) == 0 {
			out[off] = []byte{0xfe, 0xff, 0xfd, 0}[rnd.IntN(4)] // string length marker
			return out
		}
		binary.LittleEndian.PutUint32(out[off:], uint32(huge))
		return out
	case "msgpack":
		var hs []int
		c13MsgpackGiantHeader(pkt, &hs)
		if len(hs) == 0 {
			return pkt
		}
		for try := 0; try < 8; try++ {
			off := hs[rnd.IntN(len(hs))]
			hdr, kind, _, ok := c13MPHeader(pkt[off:])
			if !ok {
				continue
			}
			if (kind == 'a' || kind == 'm') != collection {
				continue
			}
			var ins []byte
			switch kind {
			case 'a':
				if rnd.IntN(3) == 0 && huge < 0x10000 {
					ins = []byte{0xdc, byte(huge >> 8), byte(huge)}
				} else {
					ins = binary.BigEndian.AppendUint32([]byte{0xdd}, uint32(huge))
				}
			case 'm':
				if rnd.IntN(3) == 0 && huge < 0x10000 {
					ins = []byte{0xde, byte(huge >> 8), byte(huge)}
				} else {
					ins = binary.BigEndian.AppendUint32([]byte{0xdf}, uint32(huge))
				}
			default:
				ins = binary.BigEndian.AppendUint32([]byte{[]byte{0xdb, 0xc6, 0xc9}[rnd.IntN(3)]}, uint32(huge))
			}
			return c13Splice(pkt, off, hdr, ins)
		}
		return pkt
	case "protobuf":
		// walk top-level fields, descend randomly into length-delimited ones, replace one length
		type lenAt struct{ off, n int }
		var lens []lenAt
		var walk func(base int, b []byte, depth int)
		walk = func(base int, b []byte, depth int) {
			pos := 0
			for pos < len(b) && depth < 4 {
				_, typ, n := protowire.ConsumeTag(b[pos:])
				if n < 0 {
					return
				}
				pos += n
				if typ == protowire.BytesType {
					l, ln := protowire.ConsumeVarint(b[pos:])
					if ln < 0 {
						return
					}
					lens = append(lens, lenAt{base + pos, ln})
					pos += ln
					if uint64(len(b)-pos) < l {
						return
					}
					walk(base+pos, b[pos:pos+int(l)], depth+1)
					pos += int(l)
					continue
				}
				m := protowire.ConsumeFieldValue(1, typ, b[pos:])
				if m < 0 {
					return
				}
				pos += m
			}
		}
		walk(0, pkt, 0)
		if len(lens) == 0 {
			return pkt
		}
		l := lens[rnd.IntN(len(lens))]
		v := huge
		if rnd.IntN(4) == 0 {
			v = []uint64{1 << 63, 1<<64 - 1, 1 << 35}[rnd.IntN(3)]
		}
		return c13Splice(pkt, l.off, l.n, protowire.AppendVarint(nil, v))
	default: // json
		if len(pkt) < 2 {
			return pkt
		}
		j := c13JSONJunk[rnd.IntN(len(c13JSONJunk))]
		at := 1 + rnd.IntN(len(pkt)-1)
		return c13Splice(pkt, at, rnd.IntN(3), []byte(j))
	}
}

func c13Nesting(rnd *rand.Rand) []byte {
	depth := []int{10, 100, 100, 1000, 1000, 1000, 10001, 10001, 20000, 65000}[rnd.IntN(10)]
	var w []byte
	switch rnd.IntN(8) {
	case 0: // msgpack arrays under an unknown key
		w = append(w, 0x81, 0xa1, 'x')
		w = append(w, bytes.Repeat([]byte{0x91}, depth)...)
	case 1: // msgpack maps under an unknown key
		w = append(w, 0x81, 0xa1, 'x')
		w = append(w, bytes.Repeat([]byte{0x81, 0xa1, 'k'}, depth/3)...)
	case 2: // msgpack nested inside metrics
		w = append(w, 0x81, 0xa7)
		w = append(w, "metrics"...)
		w = append(w, bytes.Repeat([]byte{0x91}, depth)...)
	case 3: // protobuf groups
		w = append(w, 0xca, 0xc1, 0x06, 0x00)
		w = append(w, bytes.Repeat([]byte{0x43}, depth)...) // field 8 start-group
	case 4: // protobuf nested messages of field 13337
		inner := []byte{}
		for i := 0; i < 12; i++ {
			inner = c13PBBytes(rnd, nil, 13337, inner, &c13PBOpts{})
		}
		w = inner
	case 5:
		w = append(w, `{"metrics":`...)
		w = append(w, bytes.Repeat([]byte{'['}, depth)...)
	case 6:
		w = append(w, `{"metrics":[{"tags":`...)
		w = append(w, bytes.Repeat([]byte(`{"a":`), depth/5)...)
	default:
		w = append(w, `{"metrics":[{"name":`...)
		w = append(w, bytes.Repeat([]byte(`{"base64":`), depth/10)...)
	}
	if len(w) > 65535 {
		w = w[:65535]
	}
	return w
}

var c13Prefixes = [][]byte{{0x39, 0x02, 0x58, 0x56}, {0x39, 0x02, 0x58, 0x56, 0, 0, 0, 0}, []byte("{"), []byte(`{"metrics":[`), []byte(`{"metrics":[{"name":"a","tags":{`),
	append([]byte{0x81, 0xa7}, "metrics"...), {0xde, 0x00, 0x01}, {0xdf, 0, 0, 0, 1}, {0xde}, {0xdf, 0, 0}, {0x8f}, {0xca, 0xc1, 0x06}, {0xca, 0xc1, 0x06, 0x05}, []byte("SH"), []byte("S"), {0x80}}

// c13GenHostile returns one robustness input (at most 65535 bytes: the largest packet any
// transport hands to the parser) and its class.
// giantPPM = per-million rate of the two classes that put an impossible element count into
// a MessagePack collection header.
func c13GenHostile(rnd *rand.Rand, giantPPM int) (pkt []byte, class string) {
	p := rnd.IntN(1000)
	if rnd.IntN(1000000) < giantPPM {
		p = 170 + rnd.IntN(2)
	} else if p == 170 || p == 171 {
		p = 172
	}
	switch {
	case p < 50:
		pkt = make([]byte, rnd.IntN(64))
		for i := range pkt {
			pkt[i] = byte(rnd.Uint32())
		}
		return pkt, "random"
	case p < 140:
		pkt = append(pkt, c13Prefixes[rnd.IntN(len(c13Prefixes))]...)
		n := rnd.IntN(48)
		for i := 0; i < n; i++ {
			switch rnd.IntN(3) {
			case 0:
				pkt = append(pkt, byte(rnd.Uint32()))
			case 1:
				pkt = append(pkt, []byte{0, 1, 0x7f, 0x80, 0xff, 0xfe, 0x90, 0x81, 0xa1, 0xdc, 0xde, 0xc0, 0xcb, 0xd9, '"', '{', '[', ':', ','}[rnd.IntN(19)])
			default:
				pkt = append(pkt, byte('a'+rnd.IntN(26)))
			}
		}
		return pkt, "prefix+random"
	case p < 170:
		return c13Nesting(rnd), "nesting"
	case p < 171:
		// a collection count far beyond the packet in a MessagePack packet (kept rare: on a
		// tree that pre-allocates from such a header every one of these costs a child process)
		pkt, _ = c13EncMsgpack(rnd, &c13Batch{Metrics: []c13Metric{c13GenMetric(rnd, false, false, false)}})
		return c13MutateLength(rnd, pkt, "msgpack", true), "msgpack-collection-length"
	case p < 172:
		// the canonical shape of the pre-allocation finding and its siblings
		key := []string{"metrics", "tags", "value", "unique", "histogram"}[rnd.IntN(5)]
		cnt := []uint32{1 << 31, 1<<32 - 1, 1 << 31, 1<<32 - 1, 1 << 31, 1<<32 - 1, 1 << 16, 1 << 20}[rnd.IntN(8)]
		hdr := byte(0xdd)
		if key == "tags" {
			hdr = 0xdf
		}
		if key == "metrics" {
			pkt = append(pkt, 0x81, 0xa7)
			pkt = append(pkt, key...)
		} else {
			pkt = append(pkt, 0x81, 0xa7)
			pkt = append(pkt, "metrics"...)
			pkt = append(pkt, 0x91, 0x81, 0xa0|byte(len(key)))
			pkt = append(pkt, key...)
		}
		pkt = binary.BigEndian.AppendUint32(append(pkt, hdr), cnt)
		return pkt, "msgpack-collection-length"
	}
	pkt, fmtName := c13ValidPacket(rnd)
	class = "mutated-" + fmtName
	nm := 1 + rnd.IntN(4)
	if rnd.IntN(10) == 0 {
		nm = 0
		class = "valid-" + fmtName
	}
	for k := 0; k < nm; k++ {
		if len(pkt) == 0 {
			break
		}
		switch rnd.IntN(10) {
		case 0:
			pkt = append([]byte{}, pkt...)
			pkt[rnd.IntN(len(pkt))] ^= 1 << uint(rnd.IntN(8))
		case 1:
			pkt = append([]byte{}, pkt...)
			pkt[rnd.IntN(len(pkt))] = byte(rnd.Uint32())
		case 2:
			pkt = pkt[:rnd.IntN(len(pkt))]
		case 3:
			pkt = c13Splice(pkt, rnd.IntN(len(pkt)), 1+rnd.IntN(4), nil)
		case 4:
			ins := make([]byte, 1+rnd.IntN(4))
			for i := range ins {
				ins[i] = byte(rnd.Uint32())
			}
			pkt = c13Splice(pkt, rnd.IntN(len(pkt)+1), 0, ins)
		case 5:
			a := rnd.IntN(len(pkt))
			l := 1 + rnd.IntN(min(64, len(pkt)-a))
			pkt = c13Splice(pkt, rnd.IntN(len(pkt)+1), 0, pkt[a:a+l])
		case 6:
			other, _ := c13ValidPacket(rnd)
			if len(other) > 0 {
				pkt = append(append([]byte{}, pkt[:rnd.IntN(len(pkt)+1)]...), other[rnd.IntN(len(other)):]...)
			}
		case 7, 8:
			pkt = c13MutateLength(rnd, pkt, fmtName, false)
		default:
			if len(pkt) > 8 {
				a, b := rnd.IntN(len(pkt)-4), rnd.IntN(len(pkt)-4)
				pkt = append([]byte{}, pkt...)
				for i := 0; i < 4; i++ {
					pkt[a+i], pkt[b+i] = pkt[b+i], pkt[a+i]
				}
			}
		}
	}
	if len(pkt) > 65535 {
		pkt = pkt[:65535]
	}
	return pkt, class
}

// ------------------------------------------------------------------ corpus files

func c13WriteCorpus(path string, inputs [][]byte) error {
	var buf bytes.Buffer
	for _, in := range inputs {
		var l [4]byte
		binary.LittleEndian.PutUint32(l[:], uint32(len(in)))
		buf.Write(l[:])
		buf.Write(in)
	}
	return os.WriteFile(path, buf.Bytes(), 0o644)
}

func c13ReadCorpus(path string) ([][]byte, error) {
	b, err := os.ReadFile(path)
	if err != nil {
		return nil, err
	}
	var out [][]byte
	for len(b) >= 4 {
		l := int(binary.LittleEndian.Uint32(b))
		if len(b) < 4+l {
			return nil, fmt.Errorf("corpus truncated")
		}
		out = append(out, b[4:4+l])
		b = b[4+l:]
	}
	return out, nil
}

// outcome byte of one input (0 = not started, 0xff = decode in progress)
const (
	c13OutMetrics  = 1 // returned nil, ≥1 metric delivered
	c13OutNothing  = 2 // returned nil, no metric (empty batch, legacy, empty packet)
	c13OutErr      = 3 // returned a parse error
	c13OutPanic    = 4 // panicked (recovered in the child)
	c13OutMask     = 0x07
	c13FlagAlloc   = 0x08 // allocated far more than the packet can justify
	c13FlagErrText = 0x10 // the reported error cannot be rendered (Error() panics)
	c13FlagInvar   = 0x20 // bookkeeping of parse() inconsistent (see anomaly log)
	c13FlagPartial = 0x40 // metrics delivered and then a parse error
	c13InProgress  = 0xff

	c13ExitRecycle = 96 // child asks for a fresh process, nothing wrong
)

type c13Anomaly struct {
	Index  int    `json:"index"`
	Kind   string `json:"kind"` // panic | alloc | errtext | invariant
	Detail string `json:"detail"`
	Stack  string `json:"stack,omitempty"`
}

var c13DigitsRe = regexp.MustCompile(`[0-9]+`)

func c13Normalize(msg string) string {
	msg = c13DigitsRe.ReplaceAllString(msg, "N")
	msg = strings.Map(func(c rune) rune {
		if c >= 'a' && c <= 'z' || c >= 'A' && c <= 'Z' || c == 'N' {
			return c
		}
		return '-'
	}, msg)
	for strings.Contains(msg, "--") {
		msg = strings.ReplaceAll(msg, "--", "-")
	}
	if len(msg) > 60 {
		msg = msg[:60]
	}
	return strings.Trim(msg, "-")
}

// c13AllocBound: bytes one packet may make the decoder allocate.  The decoded form of the
// smallest metric (a 1-byte empty MessagePack map) is ~170 bytes of struct, so 256×len
// plus slack for error values and first-use buffers is generous; a count taken from a
// header without looking at the remaining bytes exceeds it by orders of magnitude.
func c13AllocBound(pktLen int) uint64 { return uint64(pktLen)*256 + 1<<20 }

// TestVerifC13Child is the decoding child: it is started by TestVerifC13 only.
func TestVerifC13Child(t *testing.T) {
	inPath := os.Getenv("VERIF_C13_IN")
	if inPath == "" {
		t.Skip("child of TestVerifC13 only")
	}
	outPath := os.Getenv("VERIF_C13_OUT")
	logPath := os.Getenv("VERIF_C13_LOG")
	start, _ := strconv.Atoi(os.Getenv("VERIF_C13_START"))
	limit, _ := strconv.Atoi(os.Getenv("VERIF_C13_LIMIT"))
	if as, _ := strconv.ParseUint(os.Getenv("VERIF_C13_RLIMIT_AS"), 10, 64); as != 0 {
		if err := syscall.Setrlimit(syscall.RLIMIT_AS, &syscall.Rlimit{Cur: as, Max: as}); err != nil {
			fmt.Fprintf(os.Stderr, "C13CHILD setrlimit failed: %v\n", err)
			os.Exit(97)
		}
	}
	// no collector in the child: a multi-gigabyte slice allocated from a hostile header is
	// otherwise scanned page by page before this process gets to report it; the child is
	// replaced after such an allocation and RLIMIT_AS bounds the rest
	debug.SetGCPercent(-1)
	inputs, err := c13ReadCorpus(inPath)
	if err != nil {
		fmt.Fprintf(os.Stderr, "C13CHILD corpus: %v\n", err)
		os.Exit(98)
	}
	out, err := os.OpenFile(outPath, os.O_RDWR, 0o644)
	if err != nil {
		fmt.Fprintf(os.Stderr, "C13CHILD out: %v\n", err)
		os.Exit(98)
	}
	logf, _ := os.OpenFile(logPath, os.O_WRONLY|os.O_APPEND|os.O_CREATE, 0o644)
	anomaly := func(a c13Anomaly) {
		if logf != nil {
			b, _ := json.Marshal(a)
			logf.Write(append(b, '\n'))
		}
	}
	cp := c13NewParser()
	rec := &c13Recorder{}
	var batch tlstatshouse.AddMetricsBatchBytes
	var scratch []byte
	sample := []metrics.Sample{{Name: "/gc/heap/allocs:bytes"}}
	end := len(inputs)
	if limit > 0 && start+limit < end {
		end = start + limit
	}
	for i := start; i < end; i++ {
		pkt := inputs[i]
		// the input is on disk already (corpus file); mark it as "being decoded" so that a
		// death of this process is attributed to it
		if _, err := out.WriteAt([]byte{c13InProgress, 0}, int64(2*i)); err != nil {
			os.Exit(98)
		}
		rec.reset()
		okBefore, errBefore := cp.p.StatBatchesTotalOK(), cp.p.StatBatchesTotalErr()
		metrics.Read(sample)
		allocBefore := sample[0].Value.Uint64()
		var perr error
		var pan any
		var stack string
		var ingestion error
		func() {
			defer func() {
				if p := recover(); p != nil {
					pan, stack = p, string(debug.Stack())
				}
			}()
			perr = cp.p.parse(rec, &ingestion, pkt, &batch, &scratch, "")
		}()
		metrics.Read(sample)
		alloc := sample[0].Value.Uint64() - allocBefore
		slot := cp.slot()
		var o byte
		switch {
		case pan != nil:
			o = c13OutPanic
			anomaly(c13Anomaly{Index: i, Kind: "panic", Detail: fmt.Sprint(pan), Stack: firstLinesC13(stack, 24)})
			// state after a panic is unknown: start clean
			cp, batch, scratch = c13NewParser(), tlstatshouse.AddMetricsBatchBytes{}, nil
		case perr != nil:
			o = c13OutErr
			if rec.nMetrics > 0 {
				o |= c13FlagPartial
			}
			if _, p := c13ErrText(perr); p != "" {
				o |= c13FlagErrText
				anomaly(c13Anomaly{Index: i, Kind: "errtext", Detail: p})
			}
		case rec.nMetrics > 0:
			o = c13OutMetrics
		default:
			o = c13OutNothing
		}
		if rec.errPanic != "" && o&c13FlagErrText == 0 {
			o |= c13FlagErrText
			anomaly(c13Anomaly{Index: i, Kind: "errtext", Detail: rec.errPanic})
		}
		if pan == nil {
			// bookkeeping the statement's "either … or" relies on
			dOK, dErr := cp.p.StatBatchesTotalOK()-okBefore, cp.p.StatBatchesTotalErr()-errBefore
			want := c13ExpectFormat(pkt)
			var why string
			switch {
			case (perr != nil) != (dErr == 1) || dErr > 1:
				why = fmt.Sprintf("returned err=%v but error-batch counter moved by %d", perr != nil, dErr)
			case rec.parseErrs > 1 || (rec.parseErrs == 1 && perr == nil):
				why = fmt.Sprintf("HandleParseError called %d times, returned err=%v", rec.parseErrs, perr != nil)
			case rec.emptyBytes:
				why = "HandleParseError called with an empty packet"
			case rec.nMetrics > 0 && dOK == 0:
				why = "metrics delivered but no batch counted as OK"
			case slot == c13SlotMany || slot == c13SlotNone:
				why = "packet accounted " + c13SlotNames[slot]
			case !strings.HasPrefix(c13SlotNames[slot], want):
				why = "format: documented rule says " + want + ", parser accounted " + c13SlotNames[slot]
			case strings.HasSuffix(c13SlotNames[slot], "/ok") != (perr == nil) && want != "legacy" && want != "empty":
				why = fmt.Sprintf("packet accounted %s but returned err=%v", c13SlotNames[slot], perr != nil)
			}
			if why != "" {
				o |= c13FlagInvar
				anomaly(c13Anomaly{Index: i, Kind: "invariant", Detail: why})
			}
		}
		if alloc > c13AllocBound(len(pkt)) {
			o |= c13FlagAlloc
			anomaly(c13Anomaly{Index: i, Kind: "alloc", Detail: fmt.Sprintf("%d bytes allocated for a %d-byte packet", alloc, len(pkt))})
			batch, scratch = tlstatshouse.AddMetricsBatchBytes{}, nil // release it
		}
		if _, err := out.WriteAt([]byte{o, byte(slot)}, int64(2*i)); err != nil {
			os.Exit(98)
		}
		if o&c13FlagAlloc != 0 || (i-start)%1024 == 1023 {
			// the oversized slices are unreachable now: a collection frees them without
			// scanning them, and their address space is reused by later allocations
			runtime.GC()
			var ms [1]metrics.Sample
			ms[0].Name = "/memory/classes/heap/objects:bytes"
			metrics.Read(ms[:])
			if (ms[0].Value.Uint64() > 1<<30 || (o&c13FlagAlloc != 0 && alloc > 256<<20)) && i+1 < end {
				// still holding on to it: continue in a fresh process (otherwise later,
				// innocent inputs fail under RLIMIT_AS)
				out.Close()
				os.Exit(c13ExitRecycle)
			}
		}
	}
	out.Close()
	if logf != nil {
		logf.Close()
	}
}

func firstLinesC13(s string, n int) string {
	l := strings.SplitN(s, "\n", n+1)
	if len(l) > n {
		l = l[:n]
	}
	return strings.Join(l, "\n")
}
