//go:build verif

package receiver

// C13: batch model, generator and four independent encoders (TL, JSON, MessagePack,
// Protobuf).  None of them uses the decoders under test; TL and JSON also have a second
// variant that goes through the generated writers.

import (
	"bytes"
	"encoding/base64"
	"encoding/binary"
	"fmt"
	"math"
	"math/rand/v2"
	"strconv"
	"strings"
	"unicode/utf8"

	"github.com/tinylib/msgp/msgp"
	"google.golang.org/protobuf/encoding/protowire"

	"github.com/VKCOM/statshouse/internal/data_model/gen2/tl"
	"github.com/VKCOM/statshouse/internal/data_model/gen2/tlstatshouse"
)

type c13Metric struct {
	Name       []byte
	Tags       [][2][]byte
	HasCounter bool
	Counter    float64
	HasTs      bool
	Ts         uint32
	HasValue   bool
	Value      []float64
	HasUnique  bool
	Unique     []int64
	HasHist    bool
	Hist       [][2]float64
}

type c13Batch struct {
	Metrics []c13Metric
	// properties of the generated content that restrict which encoders can carry it
	KeysUTF8 bool // all tag keys valid UTF-8 (JSON object keys cannot carry anything else)
}

func (m *c13Metric) mask() uint32 {
	var k uint32
	if m.HasCounter {
		k |= 1 << 0
	}
	if m.HasValue {
		k |= 1 << 1
	}
	if m.HasUnique {
		k |= 1 << 2
	}
	if m.HasHist {
		k |= 1 << 3
	}
	if m.HasTs {
		k |= 1 << 4
	}
	return k
}

// canonical text of one metric; floats by bit pattern except that every NaN is "nan"
func c13F(f float64) string {
	if f != f {
		return "nan"
	}
	return strconv.FormatUint(math.Float64bits(f), 16)
}

func (m *c13Metric) canon(withMask bool) string {
	var sb strings.Builder
	fmt.Fprintf(&sb, "name=%x;tags=", m.Name)
	for _, t := range m.Tags {
		fmt.Fprintf(&sb, "%x:%x,", t[0], t[1])
	}
	if withMask {
		fmt.Fprintf(&sb, ";mask=%d", m.mask())
	}
	c, ts := 0.0, uint32(0)
	if m.HasCounter {
		c = m.Counter
	}
	if m.HasTs {
		ts = m.Ts
	}
	fmt.Fprintf(&sb, ";counter=%s;ts=%d;value=", c13F(c), ts)
	if m.HasValue {
		for _, v := range m.Value {
			sb.WriteString(c13F(v))
			sb.WriteByte(',')
		}
	}
	sb.WriteString(";unique=")
	if m.HasUnique {
		for _, v := range m.Unique {
			sb.WriteString(strconv.FormatInt(v, 10))
			sb.WriteByte(',')
		}
	}
	sb.WriteString(";hist=")
	if m.HasHist {
		for _, v := range m.Hist {
			sb.WriteString(c13F(v[0]))
			sb.WriteByte('/')
			sb.WriteString(c13F(v[1]))
			sb.WriteByte(',')
		}
	}
	return sb.String()
}

// c13FromDecoded copies what the decoder handed to the Handler (the decoder reuses the
// memory for the next packet).
func c13FromDecoded(d *tlstatshouse.MetricBytes) c13Metric {
	m := c13Metric{Name: append([]byte{}, d.Name...)}
	for _, t := range d.Tags {
		m.Tags = append(m.Tags, [2][]byte{append([]byte{}, t.Key...), append([]byte{}, t.Value...)})
	}
	m.HasCounter, m.Counter = d.IsSetCounter(), d.Counter
	m.HasTs, m.Ts = d.IsSetTs(), d.Ts
	m.HasValue, m.Value = d.IsSetValue(), append([]float64{}, d.Value...)
	m.HasUnique, m.Unique = d.IsSetUnique(), append([]int64{}, d.Unique...)
	m.HasHist, m.Hist = d.IsSetHistogram(), append([][2]float64{}, d.Histogram...)
	// values of unset fields are carried as the decoder left them (the worker reads the
	// values, not the mask): make them visible to the comparison
	if !m.HasCounter && d.Counter != 0 {
		m.HasCounter = true
	}
	if !m.HasTs && d.Ts != 0 {
		m.HasTs = true
	}
	if !m.HasValue && len(d.Value) != 0 {
		m.HasValue = true
	}
	if !m.HasUnique && len(d.Unique) != 0 {
		m.HasUnique = true
	}
	if !m.HasHist && len(d.Histogram) != 0 {
		m.HasHist = true
	}
	return m
}

// ------------------------------------------------------------------ generator

var c13Floats = []float64{0, math.Copysign(0, -1), 1, -1, 0.1, 0.5, 2, 100500.1, 1e-7, 1e21, 1e22, 123456789012345680, 1e300, -1e300,
	math.SmallestNonzeroFloat64, math.MaxFloat64, -math.MaxFloat64, math.MaxFloat32, float64(math.MaxFloat32) * 1.0000001, 4294967296, 9007199254740993,
	0.30000000000000004, 1.7976931348623157e308, 2.2250738585072014e-308, 2.2250738585072011e-308, 5e-324}

func c13GenFloat(rnd *rand.Rand, special bool) float64 {
	switch rnd.IntN(10) {
	case 0, 1, 2:
		return c13Floats[rnd.IntN(len(c13Floats))]
	case 3:
		if special {
			switch rnd.IntN(4) {
			case 0:
				return math.NaN()
			case 1:
				return math.Inf(1)
			case 2:
				return math.Inf(-1)
			default:
				return math.Float64frombits(0x7ff8000000000000 | rnd.Uint64()&0xfffffffffffff | rnd.Uint64()&(1<<63)) // NaN with payload
			}
		}
		return float64(rnd.IntN(100))
	case 4:
		f := math.Float64frombits(rnd.Uint64())
		if f != f || math.IsInf(f, 0) {
			return 7
		}
		return f
	case 5:
		return float64(float32(rnd.Float64() * 1000)) // exactly representable as float32
	case 6:
		return float64(rnd.Int64N(1<<53)) - float64(1<<52)
	default:
		return float64(rnd.IntN(2000)-500) / 8
	}
}

var c13Ints = []int64{0, 1, -1, 127, 128, -32, -33, 255, 256, 32767, 32768, -32768, -32769, 65535, 65536, 1<<31 - 1, 1 << 31, -(1 << 31), -(1 << 31) - 1, 1<<32 - 1, 1 << 32,
	1<<53 + 1, -(1<<53 + 1), math.MaxInt64, math.MinInt64, math.MaxInt64 - 1, math.MinInt64 + 1, 591068825}

func c13GenInt(rnd *rand.Rand) int64 {
	switch rnd.IntN(4) {
	case 0:
		return c13Ints[rnd.IntN(len(c13Ints))]
	case 1:
		return int64(rnd.Uint64())
	case 2:
		return int64(rnd.Uint64()) >> uint(rnd.IntN(64))
	default:
		return int64(rnd.IntN(1000)) - 100
	}
}

var c13StrPieces = []string{"a", "metric_name", "env", "production", "Z9_", " ", "\"", "\\", "/", "\b", "\f", "\n", "\r", "\t", "\x00", "\x1f", "\x7f", "<", ">", "&", "'",
	"\u00e9", "\u044f", "\u65e5\u672c", "\u2028", "\u00a0", "\ufeff", "\ufffd", "\U0001F600", "\U0010FFFF", "\\u0041", "{", "}", "[", "]", ":", ",", "{\"base64\":\"AA==\"}", "base64", "\u0080", "\u07ff", "\u0800", "\uffff"}

var c13BadPieces = []string{"\xff", "\xc3", "\xe2\x82", "\xed\xa0\x80", "\xc0\xaf", "\xf4\x90\x80\x80", "\x80"}

func c13GenString(rnd *rand.Rand, allowBad bool) []byte {
	var s []byte
	switch rnd.IntN(12) {
	case 0:
		return []byte{}
	case 1: // around the TL tiny/medium (253/254) and msgpack fixstr/str8/str16 (31/32, 255/256) limits
		n := []int{31, 32, 33, 252, 253, 254, 255, 256, 257, 300, 1000}[rnd.IntN(11)]
		for len(s) < n {
			s = append(s, byte('a'+rnd.IntN(26)))
		}
		if rnd.IntN(3) == 0 {
			s = append(s[:n-2], "\u00e9"...)
		}
		return s
	case 2, 3, 4:
		id := []string{"foobar", "toy_packets_count", "env", "production", "k", "v", "1", "key0", "_s"}[rnd.IntN(9)]
		return []byte(id)
	}
	n := 1 + rnd.IntN(6)
	for i := 0; i < n; i++ {
		switch {
		case allowBad && rnd.IntN(6) == 0:
			s = append(s, c13BadPieces[rnd.IntN(len(c13BadPieces))]...)
		case rnd.IntN(8) == 0:
			s = utf8.AppendRune(s, rune(rnd.IntN(0x110000)))
			if !utf8.Valid(s) { // surrogate range produced U+FFFD encoding: fine, it is valid UTF-8
				s = s[:0]
			}
		default:
			s = append(s, c13StrPieces[rnd.IntN(len(c13StrPieces))]...)
		}
	}
	return s
}

func c13GenMetric(rnd *rand.Rand, badStrings, badKeys, special bool) c13Metric {
	var m c13Metric
	m.Name = c13GenString(rnd, badStrings)
	hostileKeys := badKeys || rnd.IntN(5) == 0
	nt := rnd.IntN(5)
	switch rnd.IntN(12) {
	case 0:
		nt = 16 + rnd.IntN(20) // > fixmap, > 16 tags
	case 1:
		nt = 0
	}
	for i := 0; i < nt; i++ {
		var k []byte
		if hostileKeys {
			k = c13GenString(rnd, badKeys)
		} else { // what tag names look like in practice
			k = []byte([]string{"env", "key", "k", "host", "_s", "tag_", "a", "B", "x9"}[rnd.IntN(9)])
			if rnd.IntN(2) == 0 {
				k = strconv.AppendInt(k, int64(rnd.IntN(48)), 10)
			}
		}
		if i > 0 && rnd.IntN(10) == 0 {
			k = append([]byte{}, m.Tags[rnd.IntN(i)][0]...) // duplicate key
		}
		m.Tags = append(m.Tags, [2][]byte{k, c13GenString(rnd, badStrings)})
	}
	if rnd.IntN(2) == 0 {
		m.HasCounter, m.Counter = true, c13GenFloat(rnd, special)
	}
	if rnd.IntN(2) == 0 {
		m.HasTs = true
		switch rnd.IntN(4) {
		case 0:
			m.Ts = []uint32{0, 1, 127, 128, 255, 256, 65535, 65536, 1<<31 - 1, 1 << 31, math.MaxUint32, 1670673392}[rnd.IntN(12)]
		default:
			m.Ts = rnd.Uint32() >> uint(rnd.IntN(32))
		}
	}
	vlen := func() int {
		switch rnd.IntN(16) {
		case 0:
			return 0
		case 1:
			return 15 + rnd.IntN(3) // fixarray limit
		case 2:
			return 200 + rnd.IntN(200)
		}
		return 1 + rnd.IntN(4)
	}
	if rnd.IntN(2) == 0 {
		m.HasValue = true
		m.Value = []float64{}
		for i, n := 0, vlen(); i < n; i++ {
			m.Value = append(m.Value, c13GenFloat(rnd, special))
		}
	}
	if rnd.IntN(3) == 0 {
		m.HasUnique = true
		m.Unique = []int64{}
		for i, n := 0, vlen(); i < n; i++ {
			m.Unique = append(m.Unique, c13GenInt(rnd))
		}
	}
	if rnd.IntN(4) == 0 {
		m.HasHist = true
		for i, n := 0, 1+rnd.IntN(4); i < n; i++ { // present histograms are non-empty: protobuf cannot carry a present-but-empty one
			m.Hist = append(m.Hist, [2]float64{c13GenFloat(rnd, special), c13GenFloat(rnd, special)})
		}
	}
	return m
}

func c13GenBatch(rnd *rand.Rand) c13Batch {
	n := 1 + rnd.IntN(4)
	switch rnd.IntN(20) {
	case 0:
		n = 16 + rnd.IntN(40)
	case 1:
		n = 1
	}
	return c13GenBatchN(rnd, n)
}

func c13GenBatchN(rnd *rand.Rand, n int) c13Batch {
	b := c13Batch{KeysUTF8: true}
	badStrings := rnd.IntN(4) == 0
	badKeys := badStrings && rnd.IntN(2) == 0
	special := rnd.IntN(3) == 0
	for i := 0; i < n; i++ {
		b.Metrics = append(b.Metrics, c13GenMetric(rnd, badStrings, badKeys, special))
	}
	for _, m := range b.Metrics {
		for _, t := range m.Tags {
			if !utf8.Valid(t[0]) {
				b.KeysUTF8 = false
			}
		}
	}
	return b
}

// ------------------------------------------------------------------ TL

func c13TLString(w []byte, s []byte) []byte {
	l := len(s)
	var used int
	if l <= 253 {
		w = append(w, byte(l))
		used = 1 + l
	} else {
		w = append(w, 0xfe, byte(l), byte(l>>8), byte(l>>16))
		used = 4 + l
	}
	w = append(w, s...)
	for used%4 != 0 {
		w = append(w, 0)
		used++
	}
	return w
}

func c13U32(w []byte, v uint32) []byte { return binary.LittleEndian.AppendUint32(w, v) }
func c13U64(w []byte, v uint64) []byte { return binary.LittleEndian.AppendUint64(w, v) }

func c13TLMetric(w []byte, m *c13Metric) []byte {
	w = c13U32(w, m.mask())
	w = c13TLString(w, m.Name)
	w = c13U32(w, uint32(len(m.Tags)))
	for _, t := range m.Tags {
		w = c13TLString(w, t[0])
		w = c13TLString(w, t[1])
	}
	if m.HasCounter {
		w = c13U64(w, math.Float64bits(m.Counter))
	}
	if m.HasTs {
		w = c13U32(w, m.Ts)
	}
	if m.HasValue {
		w = c13U32(w, uint32(len(m.Value)))
		for _, v := range m.Value {
			w = c13U64(w, math.Float64bits(v))
		}
	}
	if m.HasUnique {
		w = c13U32(w, uint32(len(m.Unique)))
		for _, v := range m.Unique {
			w = c13U64(w, uint64(v))
		}
	}
	if m.HasHist {
		w = c13U32(w, uint32(len(m.Hist)))
		for _, v := range m.Hist {
			w = c13U64(w, math.Float64bits(v[0]))
			w = c13U64(w, math.Float64bits(v[1]))
		}
	}
	return w
}

// c13EncTL: one packet, possibly several boxed batches back to back (the receiver reads
// batches until the packet is exhausted).
func c13EncTL(rnd *rand.Rand, b *c13Batch) (pkt []byte, variant string) {
	ms := b.Metrics
	parts := 1
	if len(ms) > 1 && rnd.IntN(4) == 0 {
		parts = 2 + rnd.IntN(2)
	}
	variant = fmt.Sprintf("hand,parts=%d", parts)
	for p := 0; p < parts; p++ {
		lo, hi := p*len(ms)/parts, (p+1)*len(ms)/parts
		pkt = c13U32(pkt, 0x56580239)
		pkt = c13U32(pkt, rnd.Uint32()) // batch fields_mask: no meaning assigned
		pkt = c13U32(pkt, uint32(hi-lo))
		for i := lo; i < hi; i++ {
			pkt = c13TLMetric(pkt, &ms[i])
		}
	}
	return pkt, variant
}

func (m *c13Metric) toGenerated() tlstatshouse.MetricBytes {
	g := tlstatshouse.MetricBytes{Name: m.Name}
	for _, t := range m.Tags {
		g.Tags = append(g.Tags, tl.DictFieldStringStringBytes{Key: t[0], Value: t[1]})
	}
	if m.HasCounter {
		g.SetCounter(m.Counter)
	}
	if m.HasTs {
		g.SetTs(m.Ts)
	}
	if m.HasValue {
		g.SetValue(m.Value)
	}
	if m.HasUnique {
		g.SetUnique(m.Unique)
	}
	if m.HasHist {
		g.SetHistogram(m.Hist)
	}
	return g
}

func (b *c13Batch) toGenerated() tlstatshouse.AddMetricsBatchBytes {
	var g tlstatshouse.AddMetricsBatchBytes
	for i := range b.Metrics {
		g.Metrics = append(g.Metrics, b.Metrics[i].toGenerated())
	}
	return g
}

// ------------------------------------------------------------------ JSON

var c13JSONShort = map[rune]string{'"': `\"`, '\\': `\\`, '\n': `\n`, '\r': `\r`, '\t': `\t`, '\b': `\b`, '\f': `\f`}

// c13JSONString writes s as a JSON string.  minimal = only the escapes JSON requires.
func c13JSONString(rnd *rand.Rand, w []byte, s []byte, isKey, minimal bool) []byte {
	if !utf8.Valid(s) {
		if isKey {
			panic("c13: invalid UTF-8 cannot be a JSON key")
		}
		w = append(w, `{"base64":"`...)
		w = append(w, base64.StdEncoding.EncodeToString(s)...)
		return append(w, `"}`...)
	}
	style := rnd.IntN(4) // 0 minimal escapes, 1 escape all non-ASCII, 2 escape random, 3 escape '/' too
	if minimal {
		style = 0
	}
	w = append(w, '"')
	for _, r := range string(s) {
		esc := false
		switch {
		case r < 0x20 || r == '"' || r == '\\':
			esc = true
		case style == 1 && r >= 0x80:
			esc = true
		case style == 2 && rnd.IntN(3) == 0:
			esc = true
		case style == 3 && r == '/':
			w = append(w, '\\', '/')
			continue
		}
		if !esc {
			w = utf8.AppendRune(w, r)
			continue
		}
		if sh, ok := c13JSONShort[r]; ok && (r == '"' || r == '\\' || rnd.IntN(2) == 0) {
			w = append(w, sh...)
			continue
		}
		hexf := "\\u%04x"
		if rnd.IntN(2) == 0 {
			hexf = "\\u%04X"
		}
		if r >= 0x10000 {
			r -= 0x10000
			w = fmt.Appendf(w, hexf, 0xd800+(r>>10))
			w = fmt.Appendf(w, hexf, 0xdc00+(r&0x3ff))
		} else {
			w = fmt.Appendf(w, hexf, r)
		}
	}
	return append(w, '"')
}

func c13JSONFloat(rnd *rand.Rand, w []byte, f float64) []byte {
	switch {
	case f != f:
		return append(w, `"NaN"`...)
	case math.IsInf(f, 1):
		return append(w, `"+Inf"`...)
	case math.IsInf(f, -1):
		return append(w, `"-Inf"`...)
	}
	switch rnd.IntN(4) {
	case 0:
		return strconv.AppendFloat(w, f, 'g', -1, 64)
	case 1:
		s := strconv.FormatFloat(f, 'e', -1, 64)
		if rnd.IntN(2) == 0 {
			s = strings.Replace(s, "e", "E", 1)
		}
		return append(w, s...)
	case 2:
		if f == math.Trunc(f) && math.Abs(f) < 1e15 {
			s := strconv.FormatFloat(f, 'f', -1, 64)
			if rnd.IntN(2) == 0 && !strings.Contains(s, ".") {
				s += ".0"
			}
			return append(w, s...)
		}
	}
	return strconv.AppendFloat(w, f, 'f', -1, 64)
}

func c13WS(rnd *rand.Rand, w []byte, on bool) []byte {
	if !on {
		return w
	}
	switch rnd.IntN(6) {
	case 0:
		return append(w, ' ')
	case 1:
		return append(w, '\n')
	case 2:
		return append(w, "\r\n\t "...)
	}
	return w
}

// c13EncJSON also reports whether some tag name was written with an escape sequence
// (mandatory for '"', '\\' and control characters, optional otherwise).
func c13EncJSON(rnd *rand.Rand, b *c13Batch) (pkt []byte, variant string, keyEscaped bool) {
	if rnd.IntN(4) == 0 {
		g := b.toGenerated()
		for _, m := range b.Metrics {
			for _, t := range m.Tags {
				for _, r := range string(t[0]) { // what the generated writer escapes
					if r < 0x20 || r == '"' || r == '\\' || r == '\u2028' || r == '\u2029' {
						keyEscaped = true
					}
				}
			}
		}
		return g.WriteJSON(nil), "generated-writer", keyEscaped
	}
	ws := rnd.IntN(2) == 0
	escKeys := rnd.IntN(4) == 0 // optional escapes inside tag names
	variant = fmt.Sprintf("hand,ws=%v,escKeys=%v", ws, escKeys)
	w := []byte{'{'} // the packet must start with '{': leading whitespace is documented as unsupported
	w = c13WS(rnd, w, ws)
	if rnd.IntN(6) == 0 {
		w = append(w, `"fields_mask":0,`...)
	}
	w = append(w, `"metrics"`...)
	w = c13WS(rnd, w, ws)
	w = append(w, ':')
	w = c13WS(rnd, w, ws)
	w = append(w, '[')
	for i := range b.Metrics {
		m := &b.Metrics[i]
		if i > 0 {
			w = append(w, ',')
		}
		w = c13WS(rnd, w, ws)
		w = append(w, '{')
		fields := []string{"name", "tags", "counter", "ts", "value", "unique", "histogram"}
		if rnd.IntN(5) == 0 {
			fields = append(fields, "fields_mask")
		}
		rnd.Shuffle(len(fields), func(a, c int) { fields[a], fields[c] = fields[c], fields[a] })
		first := true
		key := func(k string) {
			if !first {
				w = append(w, ',')
			}
			first = false
			w = c13WS(rnd, w, ws)
			w = append(w, '"')
			w = append(w, k...)
			w = append(w, '"')
			w = c13WS(rnd, w, ws)
			w = append(w, ':')
			w = c13WS(rnd, w, ws)
		}
		for _, f := range fields {
			switch f {
			case "fields_mask":
				key(f)
				w = strconv.AppendUint(w, uint64(m.mask()), 10)
			case "name":
				if len(m.Name) == 0 && rnd.IntN(2) == 0 {
					continue
				}
				key(f)
				w = c13JSONString(rnd, w, m.Name, false, false)
			case "tags":
				if len(m.Tags) == 0 && rnd.IntN(2) == 0 {
					continue
				}
				key(f)
				w = append(w, '{')
				for j, t := range m.Tags {
					if j > 0 {
						w = append(w, ',')
					}
					w = c13WS(rnd, w, ws)
					before := len(w)
					w = c13JSONString(rnd, w, t[0], true, !escKeys)
					if bytes.IndexByte(w[before:], '\\') >= 0 {
						keyEscaped = true
					}
					w = c13WS(rnd, w, ws)
					w = append(w, ':')
					w = c13WS(rnd, w, ws)
					w = c13JSONString(rnd, w, t[1], false, false)
				}
				w = c13WS(rnd, w, ws)
				w = append(w, '}')
			case "counter":
				if m.HasCounter {
					key(f)
					w = c13JSONFloat(rnd, w, m.Counter)
				}
			case "ts":
				if m.HasTs {
					key(f)
					w = strconv.AppendUint(w, uint64(m.Ts), 10)
				}
			case "value":
				if m.HasValue {
					key(f)
					w = append(w, '[')
					for j, v := range m.Value {
						if j > 0 {
							w = append(w, ',')
						}
						w = c13WS(rnd, w, ws)
						w = c13JSONFloat(rnd, w, v)
					}
					w = c13WS(rnd, w, ws)
					w = append(w, ']')
				}
			case "unique":
				if m.HasUnique {
					key(f)
					w = append(w, '[')
					for j, v := range m.Unique {
						if j > 0 {
							w = append(w, ',')
						}
						w = c13WS(rnd, w, ws)
						w = strconv.AppendInt(w, v, 10)
					}
					w = append(w, ']')
				}
			case "histogram":
				if m.HasHist {
					key(f)
					w = append(w, '[')
					for j, v := range m.Hist {
						if j > 0 {
							w = append(w, ',')
						}
						w = append(w, '[')
						w = c13JSONFloat(rnd, w, v[0])
						w = append(w, ',')
						w = c13WS(rnd, w, ws)
						w = c13JSONFloat(rnd, w, v[1])
						w = append(w, ']')
					}
					w = append(w, ']')
				}
			}
		}
		w = c13WS(rnd, w, ws)
		w = append(w, '}')
	}
	w = c13WS(rnd, w, ws)
	w = append(w, ']')
	w = c13WS(rnd, w, ws)
	w = append(w, '}')
	return w, variant, keyEscaped
}

// ------------------------------------------------------------------ MessagePack

type c13MPOpts struct {
	wide     bool // non-minimal headers (str16/32, array16/32, map16/32, wide ints)
	f32      bool // float32 where exact
	unknown  bool // extra keys the decoder must skip
	binKeys  bool // map keys as bin (ReadMapKeyZC accepts them)
	omitZero bool // omit "name"/"tags" when empty
}

func c13MPStr(rnd *rand.Rand, w []byte, s []byte, o *c13MPOpts) []byte {
	if !o.wide || rnd.IntN(2) == 0 {
		return msgp.AppendStringFromBytes(w, s)
	}
	l := len(s)
	switch {
	case l < 256 && rnd.IntN(3) == 0:
		w = append(w, 0xd9, byte(l))
	case l < 65536 && rnd.IntN(2) == 0:
		w = append(w, 0xda, byte(l>>8), byte(l))
	default:
		w = append(w, 0xdb, byte(l>>24), byte(l>>16), byte(l>>8), byte(l))
	}
	return append(w, s...)
}

func c13MPKey(rnd *rand.Rand, w []byte, k string, o *c13MPOpts) []byte {
	if o.binKeys && rnd.IntN(2) == 0 {
		return msgp.AppendBytes(w, []byte(k))
	}
	return c13MPStr(rnd, w, []byte(k), o)
}

func c13MPArr(rnd *rand.Rand, w []byte, n int, o *c13MPOpts) []byte {
	if !o.wide || rnd.IntN(2) == 0 {
		return msgp.AppendArrayHeader(w, uint32(n))
	}
	if n < 65536 && rnd.IntN(2) == 0 {
		return append(w, 0xdc, byte(n>>8), byte(n))
	}
	return append(w, 0xdd, byte(n>>24), byte(n>>16), byte(n>>8), byte(n))
}

func c13MPMap(rnd *rand.Rand, w []byte, n int, o *c13MPOpts) []byte {
	if !o.wide || rnd.IntN(2) == 0 {
		return msgp.AppendMapHeader(w, uint32(n))
	}
	if n < 65536 && rnd.IntN(2) == 0 {
		return append(w, 0xde, byte(n>>8), byte(n))
	}
	return append(w, 0xdf, byte(n>>24), byte(n>>16), byte(n>>8), byte(n))
}

func c13MPFloat(rnd *rand.Rand, w []byte, f float64, o *c13MPOpts) []byte {
	if o.f32 && f == f && float64(float32(f)) == f && math.Float64bits(float64(float32(f))) == math.Float64bits(f) && rnd.IntN(2) == 0 {
		return msgp.AppendFloat32(w, float32(f))
	}
	return msgp.AppendFloat64(w, f)
}

func c13MPInt(rnd *rand.Rand, w []byte, v int64, o *c13MPOpts) []byte {
	if !o.wide || rnd.IntN(2) == 0 {
		return msgp.AppendInt64(w, v) // minimal
	}
	switch {
	case v >= 0 && rnd.IntN(2) == 0:
		w = append(w, 0xcf)
		return binary.BigEndian.AppendUint64(w, uint64(v))
	case v >= math.MinInt32 && v <= math.MaxInt32 && rnd.IntN(2) == 0:
		w = append(w, 0xd2)
		return binary.BigEndian.AppendUint32(w, uint32(int32(v)))
	}
	w = append(w, 0xd3)
	return binary.BigEndian.AppendUint64(w, uint64(v))
}

func c13MPUint32(rnd *rand.Rand, w []byte, v uint32, o *c13MPOpts) []byte {
	if !o.wide || rnd.IntN(2) == 0 {
		return msgp.AppendUint32(w, v)
	}
	w = append(w, 0xce)
	return binary.BigEndian.AppendUint32(w, v)
}

func c13MPAny(rnd *rand.Rand, w []byte, depth int) []byte {
	switch rnd.IntN(10) {
	case 0:
		return msgp.AppendNil(w)
	case 1:
		return msgp.AppendBool(w, rnd.IntN(2) == 0)
	case 2:
		return msgp.AppendInt64(w, c13GenInt(rnd))
	case 3:
		return msgp.AppendFloat64(w, rnd.Float64())
	case 4:
		return msgp.AppendBytes(w, []byte{1, 2, 3})
	case 5:
		if depth < 3 {
			n := rnd.IntN(3)
			w = msgp.AppendArrayHeader(w, uint32(n))
			for i := 0; i < n; i++ {
				w = c13MPAny(rnd, w, depth+1)
			}
			return w
		}
	case 6:
		if depth < 3 {
			n := rnd.IntN(3)
			w = msgp.AppendMapHeader(w, uint32(n))
			for i := 0; i < n; i++ {
				w = msgp.AppendString(w, "k"+strconv.Itoa(i))
				w = c13MPAny(rnd, w, depth+1)
			}
			return w
		}
	case 7:
		return append(w, 0xd4, 5, 0xaa) // fixext1
	}
	return msgp.AppendString(w, "junk")
}

func c13MPMetric(rnd *rand.Rand, w []byte, m *c13Metric, o *c13MPOpts) []byte {
	type kv struct {
		k string
		f func(w []byte) []byte
	}
	var fs []kv
	if !(o.omitZero && len(m.Name) == 0) {
		fs = append(fs, kv{"name", func(w []byte) []byte { return c13MPStr(rnd, w, m.Name, o) }})
	}
	if !(o.omitZero && len(m.Tags) == 0) {
		fs = append(fs, kv{"tags", func(w []byte) []byte {
			w = c13MPMap(rnd, w, len(m.Tags), o)
			for _, t := range m.Tags {
				w = c13MPStr(rnd, w, t[0], o)
				w = c13MPStr(rnd, w, t[1], o)
			}
			return w
		}})
	}
	if m.HasCounter {
		fs = append(fs, kv{"counter", func(w []byte) []byte { return c13MPFloat(rnd, w, m.Counter, o) }})
	}
	if m.HasTs {
		fs = append(fs, kv{"ts", func(w []byte) []byte { return c13MPUint32(rnd, w, m.Ts, o) }})
	}
	if m.HasValue {
		fs = append(fs, kv{"value", func(w []byte) []byte {
			w = c13MPArr(rnd, w, len(m.Value), o)
			for _, v := range m.Value {
				w = c13MPFloat(rnd, w, v, o)
			}
			return w
		}})
	}
	if m.HasUnique {
		fs = append(fs, kv{"unique", func(w []byte) []byte {
			w = c13MPArr(rnd, w, len(m.Unique), o)
			for _, v := range m.Unique {
				w = c13MPInt(rnd, w, v, o)
			}
			return w
		}})
	}
	if m.HasHist {
		fs = append(fs, kv{"histogram", func(w []byte) []byte {
			w = c13MPArr(rnd, w, len(m.Hist), o)
			for _, v := range m.Hist {
				w = c13MPArr(rnd, w, 2, o)
				w = c13MPFloat(rnd, w, v[0], o)
				w = c13MPFloat(rnd, w, v[1], o)
			}
			return w
		}})
	}
	if o.unknown {
		for i, n := 0, 1+rnd.IntN(2); i < n; i++ {
			fs = append(fs, kv{[]string{"stop", "x", "Name", "metrics", ""}[rnd.IntN(5)], func(w []byte) []byte { return c13MPAny(rnd, w, 0) }})
		}
	}
	rnd.Shuffle(len(fs), func(a, c int) { fs[a], fs[c] = fs[c], fs[a] })
	w = c13MPMap(rnd, w, len(fs), o)
	for _, f := range fs {
		w = c13MPKey(rnd, w, f.k, o)
		w = f.f(w)
	}
	return w
}

func c13EncMsgpack(rnd *rand.Rand, b *c13Batch) (pkt []byte, variant string) {
	o := c13MPOpts{wide: rnd.IntN(3) == 0, f32: rnd.IntN(3) == 0, unknown: rnd.IntN(4) == 0, binKeys: rnd.IntN(6) == 0, omitZero: rnd.IntN(2) == 0}
	ms := b.Metrics
	parts := 1
	if len(ms) > 1 && rnd.IntN(4) == 0 {
		parts = 2
	}
	variant = fmt.Sprintf("%+v,parts=%d", o, parts)
	for p := 0; p < parts; p++ {
		lo, hi := p*len(ms)/parts, (p+1)*len(ms)/parts
		nkeys := 1
		unkBefore, unkAfter := false, false
		if o.unknown {
			unkBefore, unkAfter = rnd.IntN(2) == 0, rnd.IntN(2) == 0
			if unkBefore {
				nkeys++
			}
			if unkAfter {
				nkeys++
			}
		}
		pkt = c13MPMap(rnd, pkt, nkeys, &o)
		if unkBefore {
			pkt = c13MPKey(rnd, pkt, "version", &o)
			pkt = c13MPAny(rnd, pkt, 0)
		}
		pkt = c13MPKey(rnd, pkt, "metrics", &o)
		pkt = c13MPArr(rnd, pkt, hi-lo, &o)
		for i := lo; i < hi; i++ {
			pkt = c13MPMetric(rnd, pkt, &ms[i], &o)
		}
		if unkAfter {
			pkt = c13MPKey(rnd, pkt, "zz", &o)
			pkt = c13MPAny(rnd, pkt, 0)
		}
	}
	return pkt, variant
}

// ------------------------------------------------------------------ Protobuf

type c13PBOpts struct {
	unpackedValue  bool // repeated double as individual fixed64 fields
	unpackedUnique bool // repeated int64 as individual varint fields (legal non-packed encoding)
	unknown        bool
	shuffle        bool
	longVarint     bool // non-minimal varints for lengths / values
}

func c13PBVarint(rnd *rand.Rand, w []byte, v uint64, o *c13PBOpts) []byte {
	if !o.longVarint || rnd.IntN(3) != 0 {
		return protowire.AppendVarint(w, v)
	}
	// non-minimal: pad with continuation bytes up to 10 bytes total
	var tmp []byte
	tmp = protowire.AppendVarint(tmp, v)
	extra := rnd.IntN(10 - len(tmp) + 1)
	if extra == 0 || len(tmp) == 10 {
		return append(w, tmp...)
	}
	tmp[len(tmp)-1] |= 0x80
	for i := 0; i < extra-1; i++ {
		tmp = append(tmp, 0x80)
	}
	tmp = append(tmp, 0)
	return append(w, tmp...)
}

func c13PBBytes(rnd *rand.Rand, w []byte, num protowire.Number, b []byte, o *c13PBOpts) []byte {
	w = protowire.AppendTag(w, num, protowire.BytesType)
	w = c13PBVarint(rnd, w, uint64(len(b)), o)
	return append(w, b...)
}

func c13PBUnknown(rnd *rand.Rand, w []byte, o *c13PBOpts) []byte {
	num := protowire.Number(8 + rnd.IntN(100))
	if rnd.IntN(4) == 0 {
		num = 13338
	}
	switch rnd.IntN(5) {
	case 0:
		w = protowire.AppendTag(w, num, protowire.VarintType)
		return protowire.AppendVarint(w, rnd.Uint64())
	case 1:
		w = protowire.AppendTag(w, num, protowire.Fixed32Type)
		return protowire.AppendFixed32(w, rnd.Uint32())
	case 2:
		w = protowire.AppendTag(w, num, protowire.Fixed64Type)
		return protowire.AppendFixed64(w, rnd.Uint64())
	case 3:
		w = protowire.AppendTag(w, num, protowire.StartGroupType)
		w = protowire.AppendTag(w, 1, protowire.VarintType)
		w = protowire.AppendVarint(w, 5)
		return protowire.AppendTag(w, num, protowire.EndGroupType)
	}
	return c13PBBytes(rnd, w, num, []byte("stop-word"), o)
}

func c13PBMetric(rnd *rand.Rand, m *c13Metric, o *c13PBOpts) []byte {
	var fs [][]byte // independent chunks whose relative order may change (except elements of one repeated field)
	add := func(b []byte) { fs = append(fs, b) }
	if len(m.Name) != 0 || rnd.IntN(2) == 0 {
		add(c13PBBytes(rnd, nil, 1, m.Name, o))
	}
	var tags []byte // repeated: keep order ⇒ one chunk
	for _, t := range m.Tags {
		var e []byte
		k := c13PBBytes(rnd, nil, 1, t[0], o)
		v := c13PBBytes(rnd, nil, 2, t[1], o)
		if len(t[0]) == 0 && rnd.IntN(2) == 0 {
			k = nil // proto3 omits empty strings
		}
		if len(t[1]) == 0 && rnd.IntN(2) == 0 {
			v = nil
		}
		if o.shuffle && rnd.IntN(2) == 0 {
			e = append(append(e, v...), k...)
		} else {
			e = append(append(e, k...), v...)
		}
		if o.unknown && rnd.IntN(4) == 0 {
			e = protowire.AppendTag(e, 3, protowire.VarintType)
			e = protowire.AppendVarint(e, 1)
		}
		tags = c13PBBytes(rnd, tags, 2, e, o)
	}
	if tags != nil {
		add(tags)
	}
	if m.HasCounter {
		w := protowire.AppendTag(nil, 3, protowire.Fixed64Type)
		add(protowire.AppendFixed64(w, math.Float64bits(m.Counter)))
	}
	if m.HasTs {
		w := protowire.AppendTag(nil, 4, protowire.VarintType)
		add(c13PBVarint(rnd, w, uint64(m.Ts), o))
	}
	if m.HasValue {
		var w []byte
		if o.unpackedValue {
			// mix of single fixed64 fields and packed runs, order preserved
			for i := 0; i < len(m.Value); {
				if rnd.IntN(2) == 0 {
					w = protowire.AppendTag(w, 5, protowire.Fixed64Type)
					w = protowire.AppendFixed64(w, math.Float64bits(m.Value[i]))
					i++
					continue
				}
				n := 1 + rnd.IntN(len(m.Value)-i)
				var p []byte
				for _, v := range m.Value[i : i+n] {
					p = protowire.AppendFixed64(p, math.Float64bits(v))
				}
				w = c13PBBytes(rnd, w, 5, p, o)
				i += n
			}
			if len(m.Value) == 0 {
				w = c13PBBytes(rnd, w, 5, nil, o)
			}
		} else {
			var p []byte
			for _, v := range m.Value {
				p = protowire.AppendFixed64(p, math.Float64bits(v))
			}
			w = c13PBBytes(rnd, w, 5, p, o)
		}
		add(w)
	}
	if m.HasUnique {
		var w []byte
		if o.unpackedUnique && len(m.Unique) > 0 {
			for _, v := range m.Unique {
				w = protowire.AppendTag(w, 6, protowire.VarintType)
				w = protowire.AppendVarint(w, uint64(v))
			}
		} else {
			var p []byte
			for _, v := range m.Unique {
				p = c13PBVarint(rnd, p, uint64(v), o)
			}
			w = c13PBBytes(rnd, w, 6, p, o)
		}
		add(w)
	}
	if m.HasHist {
		var w []byte
		for _, h := range m.Hist {
			var e []byte
			a := protowire.AppendFixed64(protowire.AppendTag(nil, 1, protowire.Fixed64Type), math.Float64bits(h[0]))
			c := protowire.AppendFixed64(protowire.AppendTag(nil, 2, protowire.Fixed64Type), math.Float64bits(h[1]))
			if h[0] == 0 && math.Float64bits(h[0]) == 0 && rnd.IntN(2) == 0 {
				a = nil // proto3 omits +0
			}
			if h[1] == 0 && math.Float64bits(h[1]) == 0 && rnd.IntN(2) == 0 {
				c = nil
			}
			if o.shuffle && rnd.IntN(2) == 0 {
				e = append(append(e, c...), a...)
			} else {
				e = append(append(e, a...), c...)
			}
			w = c13PBBytes(rnd, w, 7, e, o)
		}
		add(w)
	}
	if o.unknown {
		for i, n := 0, 1+rnd.IntN(2); i < n; i++ {
			add(c13PBUnknown(rnd, nil, o))
		}
	}
	if o.shuffle {
		rnd.Shuffle(len(fs), func(a, c int) { fs[a], fs[c] = fs[c], fs[a] })
	}
	var out []byte
	for _, f := range fs {
		out = append(out, f...)
	}
	return out
}

func c13EncProtobuf(rnd *rand.Rand, b *c13Batch) (pkt []byte, variant string) {
	o := c13PBOpts{unpackedValue: rnd.IntN(4) == 0, unpackedUnique: rnd.IntN(6) == 0, unknown: rnd.IntN(4) == 0, shuffle: rnd.IntN(2) == 0, longVarint: rnd.IntN(5) == 0}
	variant = fmt.Sprintf("%+v", o)
	for i := range b.Metrics {
		pkt = c13PBBytes(rnd, pkt, 13337, c13PBMetric(rnd, &b.Metrics[i], &o), &o)
		if o.unknown && rnd.IntN(3) == 0 { // only after the first metric: the format is detected by the first bytes
			pkt = c13PBUnknown(rnd, pkt, &o)
		}
	}
	return pkt, variant
}

func (o c13PBOpts) String() string {
	return fmt.Sprintf("unpackedValue=%v,unpackedUnique=%v,unknown=%v,shuffle=%v,longVarint=%v", o.unpackedValue, o.unpackedUnique, o.unknown, o.shuffle, o.longVarint)
}
