//go:build verif

package receiver

// C13 — all client wire formats decode the same batch identically and safely.
//
// Part 1 (equal): a generated batch is encoded by four independent encoders and pushed
// through the real parser.parse (one parser, one reused batch object and scratch per
// worker, exactly like a receiver goroutine); the delivered sequences must equal the
// source batch field by field and the packet must be accounted under the format the
// documented first-bytes rule names.
// Part 2 (tcp): the same packets framed and cut into arbitrary reads through the real
// TCP receive loop must deliver the same sequence.
// Part 3 (robust): hostile inputs are decoded in re-exec'd children (address-space limit,
// per-batch timeout); every input is on disk before it is decoded and the child marks the
// input it is working on, so a fatal error / kill is attributed to one input.

import (
	"context"
	"encoding/binary"
	"encoding/hex"
	"encoding/json"
	"errors"
	"fmt"
	"io"
	"math/rand/v2"
	"net"
	"os"
	"os/exec"
	"path/filepath"
	"regexp"
	"strings"
	"sync"
	"testing"
	"time"

	"github.com/VKCOM/statshouse/internal/data_model/gen2/tlstatshouse"
	"github.com/VKCOM/statshouse/internal/zzverif/verifkit"
)

func c13Hex(b []byte) string {
	if len(b) <= 4096 {
		return hex.EncodeToString(b)
	}
	return hex.EncodeToString(b[:4096]) + fmt.Sprintf("...(+%d bytes)", len(b)-4096)
}

// c13Diff names the first component in which the delivered sequence differs from the source.
func c13Diff(want []c13Metric, got []c13Metric) (field string, detail string) {
	if len(want) != len(got) {
		return "count", fmt.Sprintf("want %d metrics, got %d", len(want), len(got))
	}
	for i := range want {
		w, g := &want[i], &got[i]
		if w.canon(true) == g.canon(true) {
			continue
		}
		type part struct{ name, w, g string }
		strip := func(m *c13Metric, f func(*c13Metric)) string { c := *m; f(&c); return c.canon(false) }
		parts := []part{
			{"name", string(w.Name), string(g.Name)},
			{"tags", strip(w, func(c *c13Metric) { *c = c13Metric{Tags: c.Tags} }), strip(g, func(c *c13Metric) { *c = c13Metric{Tags: c.Tags} })},
			{"counter", strip(w, func(c *c13Metric) { *c = c13Metric{HasCounter: c.HasCounter, Counter: c.Counter} }), strip(g, func(c *c13Metric) { *c = c13Metric{HasCounter: c.HasCounter, Counter: c.Counter} })},
			{"ts", strip(w, func(c *c13Metric) { *c = c13Metric{HasTs: c.HasTs, Ts: c.Ts} }), strip(g, func(c *c13Metric) { *c = c13Metric{HasTs: c.HasTs, Ts: c.Ts} })},
			{"value", strip(w, func(c *c13Metric) { *c = c13Metric{HasValue: c.HasValue, Value: c.Value} }), strip(g, func(c *c13Metric) { *c = c13Metric{HasValue: c.HasValue, Value: c.Value} })},
			{"unique", strip(w, func(c *c13Metric) { *c = c13Metric{HasUnique: c.HasUnique, Unique: c.Unique} }), strip(g, func(c *c13Metric) { *c = c13Metric{HasUnique: c.HasUnique, Unique: c.Unique} })},
			{"histogram", strip(w, func(c *c13Metric) { *c = c13Metric{HasHist: c.HasHist, Hist: c.Hist} }), strip(g, func(c *c13Metric) { *c = c13Metric{HasHist: c.HasHist, Hist: c.Hist} })},
		}
		for _, p := range parts {
			if p.w != p.g {
				return p.name, fmt.Sprintf("metric #%d: want %s got %s", i, p.w, p.g)
			}
		}
		return "fields-mask", fmt.Sprintf("metric #%d: want mask %d got %d", i, w.mask(), g.mask())
	}
	return "", ""
}

type c13Enc struct {
	name       string
	pkt        []byte
	variant    string
	pb         *c13PBOpts
	jsonKeyEsc bool // JSON only: some tag name is written with an escape sequence
}

func c13EncodeAll(rnd *rand.Rand, b *c13Batch) []c13Enc {
	var encs []c13Enc
	tlp, v := c13EncTL(rnd, b)
	if rnd.IntN(4) == 0 {
		g := b.toGenerated()
		g.FieldsMask = rnd.Uint32()
		tlp, v = g.WriteTL1Boxed(nil), "generated-writer"
	}
	encs = append(encs, c13Enc{name: "tl", pkt: tlp, variant: v})
	if b.KeysUTF8 {
		p, v, ke := c13EncJSON(rnd, b)
		encs = append(encs, c13Enc{name: "json", pkt: p, variant: v, jsonKeyEsc: ke})
	}
	p, v := c13EncMsgpack(rnd, b)
	encs = append(encs, c13Enc{name: "msgpack", pkt: p, variant: v})
	o := c13PBOpts{unpackedValue: rnd.IntN(4) == 0, unpackedUnique: rnd.IntN(6) == 0, unknown: rnd.IntN(4) == 0, shuffle: rnd.IntN(2) == 0, longVarint: rnd.IntN(5) == 0}
	var pb []byte
	for i := range b.Metrics {
		pb = c13PBBytes(rnd, pb, 13337, c13PBMetric(rnd, &b.Metrics[i], &o), &o)
		if o.unknown && rnd.IntN(3) == 0 {
			pb = c13PBUnknown(rnd, pb, &o)
		}
	}
	encs = append(encs, c13Enc{name: "protobuf", pkt: pb, variant: o.String(), pb: &o})
	rnd.Shuffle(len(encs), func(a, c int) { encs[a], encs[c] = encs[c], encs[a] })
	return encs
}

func c13Nontrivial(b *c13Batch) bool {
	for i := range b.Metrics {
		m := &b.Metrics[i]
		if len(m.Tags) > 0 && (m.HasCounter || m.HasValue || m.HasUnique || m.HasHist) {
			return true
		}
	}
	return false
}

func (b *c13Batch) canon() string {
	var sb strings.Builder
	for i := range b.Metrics {
		sb.WriteString(b.Metrics[i].canon(true))
		sb.WriteByte('\n')
	}
	return sb.String()
}

// chunkConn hands a byte stream to the TCP receive loop in reads of scripted sizes.
type c13ChunkConn struct {
	net.Conn
	data  []byte
	cuts  []int
	reads int
}

func (c *c13ChunkConn) Read(p []byte) (int, error) {
	if len(c.data) == 0 {
		return 0, io.EOF
	}
	n := len(c.data)
	if len(c.cuts) > 0 {
		n, c.cuts = min(n, c.cuts[0]), c.cuts[1:]
	}
	n = min(n, len(p))
	copy(p, c.data[:n])
	c.data = c.data[n:]
	c.reads++
	return n, nil
}

func TestVerifC13(t *testing.T) {
	r := verifkit.Start(t, "C13", "receiver")
	defer r.Finish()
	r.SetRule("equal: random batches (1–55 metrics; names/tags over ASCII identifiers, escapes, control characters, non-BMP runes, invalid UTF-8, lengths around every TL/MessagePack string-header limit; counters/values over boundary floats, NaN payloads, ±Inf, −0; int64 boundaries; present-but-empty arrays; duplicate tag keys) encoded by four independent encoders with random legal variants (split batches, key order, whitespace and escapes, non-minimal headers/varints, float32, unknown fields, packed and unpacked repeated fields) and decoded by one parser with reused state. Non-trivial = some metric has tags and an optional field; distinct = distinct batch content. " +
		"tcp: the packets of a batch framed and cut into scripted reads. " +
		"robust: random bytes, format prefixes + random tails, deep nesting, mutated valid packets of every format (bit flips, truncation, splices across formats, format-aware length/count overwrites with 0…2^32−1); non-trivial = reaches one of the four decoders; distinct = distinct input bytes.")
	r.Assume("packets are at most 65535 bytes: UDP datagram, TCP frame (MaxTCPFrameBody) and HTTP body are all limited to that before parse() is called")
	r.Assume("JSON object keys cannot carry invalid UTF-8, so batches with such tag names are compared over TL, MessagePack and Protobuf only")

	if rp := os.Getenv("VERIF_REPLAY"); rp != "" {
		c13Replay(r, rp)
		return
	}
	t0 := time.Now() // phase durations are logged only, never judged
	c13Equal(r)
	t.Logf("phase equal %.1fs", time.Since(t0).Seconds())
	t0 = time.Now()
	c13TCP(r)
	c13TCPHostile(r)
	t.Logf("phase tcp %.1fs", time.Since(t0).Seconds())
	t0 = time.Now()
	c13Robust(r)
	t.Logf("phase robust %.1fs", time.Since(t0).Seconds())
}

// ------------------------------------------------------------------ part 1: equality

func c13Equal(r *verifkit.Run) {
	n := r.N(24000, 240000)
	workers := 8
	r.Parallel(workers, "equal", func(w *verifkit.Worker) {
		rnd := w.Rnd
		cp := c13NewParser()
		rec := &c13Recorder{keep: true}
		var batch tlstatshouse.AddMetricsBatchBytes // reused across packets and formats, like a receiver goroutine does
		var scratch []byte
		for i := 0; i < n/workers; i++ {
			b := c13GenBatch(rnd)
			encs := c13EncodeAll(rnd, &b)
			for _, e := range encs {
				if len(e.pkt) > 65535 {
					w.Count("equal.skipped_over_64k", 1)
					continue
				}
				rec.reset()
				var perr error
				var ingestion error
				wit := func() map[string]any {
					return map[string]any{"format": e.name, "variant": e.variant, "packet_hex": c13Hex(e.pkt), "source": b.canon()}
				}
				if r.Guard("C13/equal/"+e.name+"/panic", func() any { return wit() }, func() {
					perr = cp.p.parse(rec, &ingestion, e.pkt, &batch, &scratch, "")
				}) {
					cp, batch, scratch = c13NewParser(), tlstatshouse.AddMetricsBatchBytes{}, nil
					continue
				}
				slot := c13SlotNames[cp.slot()]
				w.Count("equal.decoded."+e.name, 1)
				suffix := ""
				if e.pb != nil && e.pb.unpackedUnique {
					suffix = "/unpacked-unique"
				}
				if perr != nil {
					txt, _ := c13ErrText(perr)
					wt := wit()
					wt["error"] = txt
					r.Violation("C13/equal/"+e.name+"/valid-packet-rejected"+suffix, "a valid "+e.name+" packet was rejected: "+txt, wt)
					continue
				}
				if slot != e.name+"/ok" {
					wt := wit()
					wt["accounted_as"] = slot
					r.Violation("C13/detect/"+e.name+"/as-"+strings.ReplaceAll(slot, "/", "-"), "a "+e.name+" packet was accounted as "+slot, wt)
				}
				if field, detail := c13Diff(b.Metrics, rec.metrics); field != "" {
					wt := wit()
					wt["difference"] = detail
					if field != "unique" && field != "fields-mask" && field != "count" {
						suffix = ""
					}
					if e.jsonKeyEsc && field == "tags" {
						suffix = "/escaped-tag-name"
					}
					r.Violation("C13/equal/"+e.name+"/"+field+suffix, e.name+" decoded a different "+field+" than was sent: "+detail, wt)
				}
			}
			if w.Index == 0 && i < 2 {
				s := map[string]any{"source": b.canon()}
				for _, e := range encs {
					s[e.name] = c13Hex(e.pkt)
				}
				r.Sample(s)
			}
			w.Case(c13Nontrivial(&b), b.canon())
		}
	})
}

// ------------------------------------------------------------------ part 2: TCP framing

func c13TCP(r *verifkit.Run) {
	n := r.N(3000, 30000)
	workers := 4
	r.Parallel(workers, "tcp", func(w *verifkit.Worker) {
		rnd := w.Rnd
		for i := 0; i < n/workers; i++ {
			// a connection carrying several framed packets of mixed formats
			var want []c13Metric
			var stream []byte
			var desc []string
			for k, nk := 0, 1+rnd.IntN(5); k < nk; k++ {
				b := c13GenBatch(rnd)
				if len(b.Metrics) > 8 {
					b.Metrics = b.Metrics[:8]
				}
				encs := c13EncodeAll(rnd, &b)
				e := encs[0]
				if len(e.pkt) > 65535 {
					continue
				}
				// the oracle of this part is "framing adds nothing": expected is what the same
				// packet delivers when parsed on its own (format-specific findings belong to part 1)
				direct := &c13Recorder{keep: true}
				var db tlstatshouse.AddMetricsBatchBytes
				var ds []byte
				if derr := c13NewParser().p.parse(direct, nil, e.pkt, &db, &ds, ""); derr != nil {
					continue
				}
				stream = binary.LittleEndian.AppendUint32(stream, uint32(len(e.pkt)))
				stream = append(stream, e.pkt...)
				want = append(want, direct.metrics...)
				desc = append(desc, e.name)
				if rnd.IntN(6) == 0 { // an empty frame in between
					stream = binary.LittleEndian.AppendUint32(stream, 0)
				}
			}
			if len(stream) == 0 {
				continue
			}
			var cuts []int
			switch rnd.IntN(4) {
			case 0: // byte by byte around the first header
				for j := 0; j < 12; j++ {
					cuts = append(cuts, 1)
				}
			case 1:
				for left := len(stream); left > 0; {
					c := 1 + rnd.IntN(1+len(stream)/3)
					cuts = append(cuts, c)
					left -= c
				}
			case 2:
				cuts = []int{3, 1, 4, 1 + rnd.IntN(len(stream))}
			}
			conn := &c13ChunkConn{data: append([]byte{}, stream...), cuts: cuts}
			s := &TCP{}
			rec := &c13Recorder{keep: true}
			var lerr error
			wit := func() any {
				return map[string]any{"stream_hex": c13Hex(stream), "cuts": cuts, "formats": desc}
			}
			if r.Guard("C13/tcp/panic", wit, func() { lerr = s.receiveLoop(nil, rec, &serverConn{conn: conn}, "") }) {
				continue
			}
			if lerr != nil {
				r.Violation("C13/tcp/loop-error", "receive loop failed on well-framed packets: "+lerr.Error(), wit())
			} else if field, detail := c13Diff(want, rec.metrics); field != "" {
				r.Violation("C13/tcp/"+field, "framed packets cut into reads delivered a different "+field+": "+detail, wit())
			}
			w.Count("tcp.frames", int64(len(desc)))
			w.Count("tcp.reads", int64(conn.reads))
			w.Case(len(desc) > 1 && conn.reads > 1, hex.EncodeToString(stream)+fmt.Sprint(cuts))
		}
	})
}

// c13TCPHostile feeds streams with broken framing (oversized length words, truncated tails,
// garbage) and hostile handshakes; the reference walks the stream by the documented
// framing rule: 4-byte little-endian length, at most MaxTCPFrameBody.
func c13TCPHostile(r *verifkit.Run) {
	n := r.N(3000, 30000)
	workers := 4
	r.Parallel(workers, "tcp-hostile", func(w *verifkit.Worker) {
		rnd := w.Rnd
		for i := 0; i < n/workers; i++ {
			var stream []byte
			var want []c13Metric
			wantErr := false
			for k, nk := 0, rnd.IntN(5); k < nk && !wantErr; k++ {
				switch rnd.IntN(6) {
				case 0: // a length word above the limit: the loop must stop with an error
					stream = binary.LittleEndian.AppendUint32(stream, uint32(MaxTCPFrameBody)+1+rnd.Uint32N(1<<31))
					wantErr = true
				case 1: // empty frame
					stream = binary.LittleEndian.AppendUint32(stream, 0)
				case 2: // garbage frame of a valid length
					g := make([]byte, rnd.IntN(40))
					for j := range g {
						g[j] = byte(rnd.Uint32())
					}
					if len(g) >= 4 && binary.LittleEndian.Uint32(g) == 0x56580239 {
						g[0] = 0
					}
					direct := &c13Recorder{keep: true}
					var db tlstatshouse.AddMetricsBatchBytes
					var ds []byte
					if c13ExpectFormat(g) == "msgpack" {
						if giant, _, _, _ := c13MsgpackGiantHeader(g, nil); giant {
							continue // the pre-allocation finding belongs to part 3
						}
					}
					_ = c13NewParser().p.parse(direct, nil, g, &db, &ds, "")
					stream = binary.LittleEndian.AppendUint32(stream, uint32(len(g)))
					stream = append(stream, g...)
					want = append(want, direct.metrics...)
				default:
					b := c13GenBatchN(rnd, 1+rnd.IntN(2))
					e := c13EncodeAll(rnd, &b)[0]
					if len(e.pkt) > 65535 {
						continue
					}
					direct := &c13Recorder{keep: true}
					var db tlstatshouse.AddMetricsBatchBytes
					var ds []byte
					_ = c13NewParser().p.parse(direct, nil, e.pkt, &db, &ds, "")
					stream = binary.LittleEndian.AppendUint32(stream, uint32(len(e.pkt)))
					stream = append(stream, e.pkt...)
					want = append(want, direct.metrics...)
				}
			}
			if !wantErr && rnd.IntN(3) == 0 { // a tail that never completes: header fragment or a frame cut short
				if rnd.IntN(2) == 0 {
					stream = append(stream, make([]byte, 1+rnd.IntN(3))...)
				} else {
					stream = binary.LittleEndian.AppendUint32(stream, uint32(10+rnd.IntN(1000)))
					stream = append(stream, 1, 2, 3)
				}
			}
			var cuts []int
			for left := len(stream); left > 0 && rnd.IntN(2) == 0; {
				c := 1 + rnd.IntN(1+len(stream)/2)
				cuts = append(cuts, c)
				left -= c
			}
			conn := &c13ChunkConn{data: append([]byte{}, stream...), cuts: cuts}
			rec := &c13Recorder{keep: true}
			var lerr error
			wit := func() any { return map[string]any{"stream_hex": c13Hex(stream), "cuts": cuts, "expect_framing_error": wantErr} }
			if r.Guard("C13/tcp/panic", wit, func() { lerr = (&TCP{}).receiveLoop(nil, rec, &serverConn{conn: conn}, "") }) {
				continue
			}
			switch {
			case wantErr && lerr == nil:
				r.Violation("C13/tcp/oversized-frame-accepted", "a length word above MaxTCPFrameBody did not end the connection with an error", wit())
			case !wantErr && lerr != nil:
				r.Violation("C13/tcp/loop-error", "receive loop failed on a stream without framing errors: "+lerr.Error(), wit())
			default:
				if field, detail := c13Diff(want, rec.metrics); field != "" {
					r.Violation("C13/tcp/"+field, "a stream with empty, garbage and cut frames delivered a different "+field+" than its frames parsed one by one: "+detail, wit())
				}
			}
			w.Count("tcp.hostile_streams", 1)
			w.Case(len(stream) > 4, hex.EncodeToString(stream)+fmt.Sprint(cuts))

			// ---- handshake
			var hs []byte
			wantHost, wantFail := "", false
			switch rnd.IntN(6) {
			case 0:
				hs = []byte{TCPMagicV1Default}
			case 1, 2:
				host := make([]byte, rnd.IntN(300))
				for j := range host {
					host[j] = byte(rnd.Uint32())
				}
				hs = append([]byte{TCPMagicV2Balancer}, binary.LittleEndian.AppendUint32(nil, uint32(len(host)))...)
				hs = append(hs, host...)
				wantHost = string(host)
				if rnd.IntN(3) == 0 && len(hs) > 1 { // cut short
					hs = hs[:1+rnd.IntN(len(hs)-1)]
					wantFail = true
				}
			case 3:
				hs = append([]byte{TCPMagicV2Balancer}, binary.LittleEndian.AppendUint32(nil, uint32(MaxTCPFrameBody)+1+rnd.Uint32N(1<<31))...)
				wantFail = true
			case 4:
				hs = []byte{byte(rnd.Uint32())}
				wantFail = hs[0] != TCPMagicV1Default && hs[0] != TCPMagicV2Balancer
				if !wantFail {
					continue
				}
			default:
				wantFail = true // empty
			}
			var gotHost string
			var herr error
			hwit := func() any { return map[string]any{"handshake_hex": c13Hex(hs)} }
			if r.Guard("C13/tcp/handshake-panic", hwit, func() {
				gotHost, herr = readTCPHandshake(&c13ChunkConn{data: append([]byte{}, hs...), cuts: []int{1, 2, 1}})
			}) {
				continue
			}
			if wantFail != (herr != nil) || (!wantFail && gotHost != wantHost) {
				r.Violation("C13/tcp/handshake", fmt.Sprintf("handshake: want failure=%v host=%q, got err=%v host=%q", wantFail, wantHost, herr, gotHost), hwit())
			}
			w.Count("tcp.handshakes", 1)
		}
	})
}

// ------------------------------------------------------------------ part 3: robustness

type c13Spawn struct {
	self, dir                 string
	rlimit                    uint64
	batchTimeout, soloTimeout time.Duration
}

// run decodes inputs[start:start+limit) of the corpus file in a child and returns how the
// child ended.
func (s *c13Spawn) run(tag string, corpus, outcomes, alog string, start, limit int, timeout time.Duration) (exit string, stderrTxt string) {
	ctx, cancel := context.WithTimeout(context.Background(), timeout)
	defer cancel()
	cmd := exec.CommandContext(ctx, s.self, "-test.run", "^TestVerifC13Child$", "-test.count", "1", "-test.timeout", "0")
	errPath := filepath.Join(s.dir, tag+".stderr")
	ef, _ := os.Create(errPath)
	cmd.Stdout, cmd.Stderr = ef, ef
	cmd.Env = append(os.Environ(),
		"VERIF_C13_IN="+corpus, "VERIF_C13_OUT="+outcomes, "VERIF_C13_LOG="+alog,
		fmt.Sprintf("VERIF_C13_START=%d", start), fmt.Sprintf("VERIF_C13_LIMIT=%d", limit),
		fmt.Sprintf("VERIF_C13_RLIMIT_AS=%d", s.rlimit), "GOTRACEBACK=single")
	cmd.WaitDelay = 10 * time.Second
	err := cmd.Run()
	ef.Close()
	b, _ := os.ReadFile(errPath)
	if len(b) > 1<<16 {
		b = b[:1<<16]
	}
	os.Remove(errPath)
	switch {
	case ctx.Err() != nil:
		return "timeout", string(b)
	case err == nil:
		return "ok", string(b)
	}
	var ee *exec.ExitError
	if errors.As(err, &ee) {
		return ee.String(), string(b)
	}
	return "start-failed: " + err.Error(), string(b)
}

func c13CrashClass(exit, stderrTxt string) string {
	for _, line := range strings.Split(stderrTxt, "\n") {
		switch {
		case strings.HasPrefix(line, "fatal error: "):
			msg := strings.TrimPrefix(line, "fatal error: ")
			if strings.Contains(msg, "out of memory") || strings.Contains(msg, "cannot allocate") {
				return "out-of-memory"
			}
			if strings.Contains(msg, "stack overflow") || strings.Contains(msg, "stack exceeds") {
				return "stack-overflow"
			}
			return "fatal-" + c13Normalize(msg)
		case strings.HasPrefix(line, "runtime: out of memory"), strings.HasPrefix(line, "runtime: cannot allocate"):
			return "out-of-memory"
		case strings.HasPrefix(line, "runtime: goroutine stack exceeds"):
			return "stack-overflow"
		case strings.HasPrefix(line, "panic: "):
			return "panic-" + c13Normalize(strings.TrimPrefix(line, "panic: "))
		}
	}
	return "died-" + c13Normalize(exit)
}

// address-space limit of a decoding child.  2 GiB rather than 4: a slice of 1.5–4 GB taken
// from a hostile header is otherwise really mapped (seconds of kernel time per input on a
// loaded machine) before the decoder notices that the packet is 20 bytes long.
const c13RlimitAS = 2 << 30

var c13OOMBlockRe =regexp.MustCompile(`runtime: out of memory: cannot allocate ([0-9]+)-byte block`)

type c13BatchResult struct {
	inputs   [][]byte
	classes  []string
	outcomes []byte // 2 bytes per input
}

func c13Robust(r *verifkit.Run) {
	self := os.Getenv("VERIF_SELF")
	if self == "" {
		r.Inconclusive("VERIF_SELF not set: cannot re-exec children for the robustness corpus")
		return
	}
	total := r.N(200000, 2000000)
	per := r.N(12500, 50000)
	nb := total / per
	dir := r.MkTmp("c13robust")
	defer os.RemoveAll(dir)
	sp := &c13Spawn{self: self, dir: dir, rlimit: c13RlimitAS, batchTimeout: time.Duration(r.N(4, 10)) * time.Minute, soloTimeout: 3 * time.Minute}
	var mu sync.Mutex
	seenAnomalyKeys := map[string]bool{}
	sem := make(chan struct{}, 8)
	var wg sync.WaitGroup
	for bi := 0; bi < nb; bi++ {
		wg.Add(1)
		sem <- struct{}{}
		go func(bi int) {
			defer wg.Done()
			defer func() { <-sem }()
			rnd := r.Rand(fmt.Sprintf("robust/%d", bi))
			res := c13BatchResult{}
			tg := time.Now()
			for i := 0; i < per; i++ {
				in, class := c13GenHostile(rnd, r.N(150, 60))
				res.inputs = append(res.inputs, in)
				res.classes = append(res.classes, class)
			}
			tag := fmt.Sprintf("b%d", bi)
			corpus, outp, alog := filepath.Join(dir, tag+".in"), filepath.Join(dir, tag+".out"), filepath.Join(dir, tag+".log")
			if err := c13WriteCorpus(corpus, res.inputs); err != nil {
				r.Inconclusive("cannot write corpus: " + err.Error())
				return
			}
			if err := os.WriteFile(outp, make([]byte, 2*per), 0o644); err != nil {
				r.Inconclusive("cannot write outcome file: " + err.Error())
				return
			}
			td := time.Now()
			c13DriveBatch(r, sp, tag, corpus, outp, alog, &res)
			tj := time.Now()
			c13JudgeBatch(r, &res, alog, &mu, seenAnomalyKeys)
			r.T.Logf("robust batch %d: generate %.1fs drive %.1fs judge %.1fs", bi, td.Sub(tg).Seconds(), tj.Sub(td).Seconds(), time.Since(tj).Seconds())
			os.Remove(corpus)
			os.Remove(outp)
			os.Remove(alog)
		}(bi)
	}
	wg.Wait()
}

// c13DriveBatch runs children until every input of the batch has an outcome.  An input
// during which a child died is decoded again alone in a fresh child; only a death that
// repeats there (or repeats with the inputs that preceded it) is a verdict on that input.
func c13DriveBatch(r *verifkit.Run, sp *c13Spawn, tag, corpus, outp, alog string, res *c13BatchResult) {
	n := len(res.inputs)
	final := func(out []byte, i int) bool { return len(out) == 2*n && out[2*i] != 0 && out[2*i] != c13InProgress }
	recycle := fmt.Sprintf("exit status %d", c13ExitRecycle)
	start := 0
	spawns, unattributed, addressSpaceRestarts := 0, 0, 0
	for start < n {
		spawns++
		exit, stderrTxt := sp.run(fmt.Sprintf("%s-%d", tag, spawns), corpus, outp, alog, start, 0, sp.batchTimeout)
		out, err := os.ReadFile(outp)
		if err != nil || len(out) != 2*n {
			r.Inconclusive("outcome file unreadable after child " + exit)
			return
		}
		i := start
		for i < n && final(out, i) {
			i++
		}
		if i == n {
			if exit != "ok" && exit != recycle {
				r.Inconclusive(fmt.Sprintf("robustness child ended with %q after finishing its inputs: %s", exit, firstLinesC13(stderrTxt, 6)))
			}
			break
		}
		if out[2*i] == 0 {
			if exit == recycle {
				r.Count("robust.child_recycled_after_big_allocation", 1)
				start = i
				continue
			}
			// ended between inputs: not attributable to an input
			unattributed++
			r.Count("robust.child_restarts_unattributed", 1)
			if exit == "ok" || unattributed > 20 {
				r.Inconclusive(fmt.Sprintf("robustness child ended (%q) without an input in progress: %s", exit, firstLinesC13(stderrTxt, 6)))
				return
			}
			start = i
			continue
		}
		// input i was being decoded when the child ended: decode it alone in a fresh child
		in := res.inputs[i]
		fmtName := c13ExpectFormat(in)
		r.Count("robust.child_deaths", 1)
		class := ""
		var exitS, stderrS string
		var outS []byte
		if m := c13OOMBlockRe.FindStringSubmatch(stderrTxt); m != nil && len(m[1]) >= 10 && exit != "timeout" {
			// the runtime names the allocation that failed: a single block of ≥ 1 GB requested
			// while decoding a packet of at most 64 KiB does not depend on what came before
			class = "out-of-memory"
		} else {
			exitS, stderrS = sp.run(fmt.Sprintf("%s-%d-solo", tag, spawns), corpus, outp, alog, i, 1, sp.soloTimeout)
			outS, _ = os.ReadFile(outp)
		}
		switch {
		case class != "":
		case final(outS, i):
			// survives alone
			if outS[2*i]&c13FlagAlloc != 0 {
				// the solo run shows the amplified allocation (judged from its outcome); whether
				// such an allocation kills the process depends on how much address space is left
				r.Count("robust.deaths_explained_by_big_allocation", 1)
				start = i + 1
				continue
			}
			if exit == "timeout" {
				r.Count("robust.timeouts_not_reproduced_alone", 1) // slow machine
				start = i + 1
				continue
			}
			from := max(0, i-300)
			exitC, stderrC := sp.run(fmt.Sprintf("%s-%d-ctx", tag, spawns), corpus, outp, alog, from, i-from+1, sp.batchTimeout)
			outC, _ := os.ReadFile(outp)
			if len(outC) == 2*n && outC[2*i] == c13InProgress {
				class = "after-earlier-packets-" + c13CrashClass(exitC, stderrC)
				exit, stderrTxt = exitC, stderrC
			} else if m := c13OOMBlockRe.FindStringSubmatch(stderrTxt); m != nil && len(m[1]) <= 8 && final(outC, i) && addressSpaceRestarts < 8 {
				// the runtime could not get a block of a few MB: the child had used up the address
				// space the harness grants it (RLIMIT_AS); the input is fine alone and in context
				addressSpaceRestarts++
				r.Count("robust.child_restarts_address_space_of_the_harness_limit", 1)
				start = i + 1
				continue
			} else {
				r.Count("robust.deaths_not_reproduced", 1)
				r.Inconclusive(fmt.Sprintf("a robustness child died (%s: %s) while decoding input %x… but the death did not repeat, neither alone nor after the 300 inputs before it",
					exit, firstLinesC13(stderrTxt, 2), in[:min(16, len(in))]))
				if !final(outC, i) { // the context run was recycled/stopped before reaching it
					if f, err := os.OpenFile(outp, os.O_RDWR, 0o644); err == nil {
						f.WriteAt([]byte{0, 0}, int64(2*i))
						f.Close()
					}
					start = i
					if spawns > 200+n/50 {
						return
					}
					continue
				}
				start = i + 1
				continue
			}
		case exitS == "timeout":
			class, exit, stderrTxt = "hang", exitS, stderrS
		default:
			class, exit, stderrTxt = c13CrashClass(exitS, stderrS), exitS, stderrS
		}
		giant, off, declared, remaining := false, 0, uint64(0), 0
		if fmtName == "msgpack" {
			giant, off, declared, remaining = c13MsgpackGiantHeader(in, nil)
		}
		wit := map[string]any{"input_hex": c13Hex(in), "input_len": len(in), "generator_class": res.classes[i], "format_by_first_bytes": fmtName,
			"child_exit": exit, "child_stderr": firstLinesC13(stderrTxt, 12)}
		if giant && (class == "out-of-memory" || class == "hang") {
			wit["header_offset"], wit["declared_elements"], wit["bytes_after_header"] = off, declared, remaining
			r.Violation("C13/robust/msgpack-collection-header-prealloc",
				"MessagePack decoder allocates the element count declared by an array/map header without comparing it with the bytes left; the process died ("+class+")", wit)
		} else {
			r.Violation("C13/robust/"+fmtName+"/"+class, "decoding a hostile "+fmtName+" input ended the process: "+class, wit)
		}
		if f, err := os.OpenFile(outp, os.O_RDWR, 0o644); err == nil {
			f.WriteAt([]byte{c13OutPanic | 0x80, 0}, int64(2*i))
			f.Close()
		}
		start = i + 1
	}
	out, err := os.ReadFile(outp)
	if err == nil && len(out) == 2*n {
		res.outcomes = out
	}
}

func c13JudgeBatch(r *verifkit.Run, res *c13BatchResult, alog string, mu *sync.Mutex, seen map[string]bool) {
	if res.outcomes == nil {
		return
	}
	anomalies := map[int][]c13Anomaly{}
	if b, err := os.ReadFile(alog); err == nil {
		for _, line := range strings.Split(string(b), "\n") {
			var a c13Anomaly
			if line != "" && json.Unmarshal([]byte(line), &a) == nil {
				anomalies[a.Index] = append(anomalies[a.Index], a)
			}
		}
	}
	counts := map[string]int64{}
	type cs struct {
		nontrivial bool
		h          uint64
	}
	cases := make([]cs, 0, len(res.inputs))
	for i, in := range res.inputs {
		o, slot := res.outcomes[2*i], int(res.outcomes[2*i+1])
		if o == 0 || o == c13InProgress {
			counts["robust.inputs_without_outcome"]++
			continue
		}
		fmtName := c13ExpectFormat(in)
		counts["robust.format."+fmtName]++
		counts["robust.class."+res.classes[i]]++
		if o&0x80 != 0 { // the child died on it: judged in c13DriveBatch
			counts["robust.outcome.process-died"]++
			cases = append(cases, cs{true, verifkit.Hash(string(in))})
			continue
		}
		switch o & c13OutMask {
		case c13OutMetrics:
			counts["robust.outcome.metrics"]++
		case c13OutNothing:
			counts["robust.outcome.nothing"]++
		case c13OutErr:
			counts["robust.outcome.parse-error"]++
			if o&c13FlagPartial != 0 {
				counts["robust.outcome.metrics-then-parse-error"]++
			}
		case c13OutPanic:
			counts["robust.outcome.panic"]++
		}
		if slot < len(c13SlotNames) {
			counts["robust.accounted."+c13SlotNames[slot]]++
		}
		wit := func(extra []c13Anomaly) map[string]any {
			return map[string]any{"input_hex": c13Hex(in), "input_len": len(in), "generator_class": res.classes[i], "format_by_first_bytes": fmtName, "observed": extra}
		}
		pick := func(kind string) (out []c13Anomaly) {
			for _, a := range anomalies[i] {
				if a.Kind == kind {
					out = append(out, a)
				}
			}
			return
		}
		if o&c13OutMask == c13OutPanic {
			msg := "?"
			if a := pick("panic"); len(a) > 0 {
				msg = a[0].Detail
			}
			r.Violation("C13/robust/"+fmtName+"/panic-"+c13Normalize(msg), "decoding a hostile "+fmtName+" input panicked: "+msg, wit(pick("panic")))
		}
		if o&c13FlagAlloc != 0 {
			giant := false
			var off, remaining int
			var declared uint64
			if fmtName == "msgpack" {
				giant, off, declared, remaining = c13MsgpackGiantHeader(in, nil)
			}
			w := wit(pick("alloc"))
			if giant {
				w["header_offset"], w["declared_elements"], w["bytes_after_header"] = off, declared, remaining
				r.Violation("C13/robust/msgpack-collection-header-prealloc",
					"MessagePack decoder allocates the element count declared by an array/map header without comparing it with the bytes left (allocation far beyond the packet size observed)", w)
			} else {
				r.Violation("C13/robust/"+fmtName+"/allocation-amplified", "decoding a small "+fmtName+" input allocated far more than its size can justify", w)
			}
		}
		if o&c13FlagErrText != 0 {
			d := "?"
			if a := pick("errtext"); len(a) > 0 {
				d = a[0].Detail
			}
			r.Violation("C13/robust/"+fmtName+"/parse-error-unprintable", "the parse error reported for a hostile "+fmtName+" input cannot be rendered: Error() panics ("+d+")", wit(pick("errtext")))
		}
		if o&c13FlagInvar != 0 {
			d := "?"
			if a := pick("invariant"); len(a) > 0 {
				d = a[0].Detail
			}
			r.Violation("C13/robust/"+fmtName+"/accounting-"+c13Normalize(d), "parse() outcome inconsistent: "+d, wit(pick("invariant")))
		}
		nontrivial := fmtName != "empty" && fmtName != "legacy"
		cases = append(cases, cs{nontrivial, verifkit.Hash(string(in))})
	}
	mu.Lock()
	defer mu.Unlock()
	for k, v := range counts {
		r.Count(k, v)
	}
	for _, c := range cases {
		r.CaseHash(c.nontrivial, c.h)
	}
	if r.WantSample() && len(res.inputs) > 3 {
		for i := 0; i < 2; i++ {
			r.Sample(map[string]any{"robust_input_hex": c13Hex(res.inputs[i]), "class": res.classes[i], "outcome": res.outcomes[2*i], "accounted": c13SlotNames[int(res.outcomes[2*i+1])%len(c13SlotNames)]})
		}
	}
}

// c13Replay decodes the input of a replay file in a child and reports what happened.
func c13Replay(r *verifkit.Run, path string) {
	b, err := os.ReadFile(path)
	if err != nil {
		r.Inconclusive("cannot read replay: " + err.Error())
		return
	}
	var rj struct {
		Witness map[string]any `json:"witness"`
	}
	_ = json.Unmarshal(b, &rj)
	hx, _ := rj.Witness["input_hex"].(string)
	if hx == "" {
		hx, _ = rj.Witness["packet_hex"].(string)
	}
	if i := strings.Index(hx, "..."); i >= 0 {
		hx = hx[:i]
	}
	in, err := hex.DecodeString(hx)
	if err != nil || hx == "" {
		r.Inconclusive("replay file has no input_hex/packet_hex")
		return
	}
	dir := r.MkTmp("c13replay")
	defer os.RemoveAll(dir)
	res := c13BatchResult{inputs: [][]byte{in}, classes: []string{"replay"}}
	corpus, outp, alog := filepath.Join(dir, "r.in"), filepath.Join(dir, "r.out"), filepath.Join(dir, "r.log")
	_ = c13WriteCorpus(corpus, res.inputs)
	_ = os.WriteFile(outp, make([]byte, 2), 0o644)
	sp := &c13Spawn{self: os.Getenv("VERIF_SELF"), dir: dir, rlimit: c13RlimitAS, batchTimeout: 4 * time.Minute, soloTimeout: 3 * time.Minute}
	c13DriveBatch(r, sp, "replay", corpus, outp, alog, &res)
	var mu sync.Mutex
	c13JudgeBatch(r, &res, alog, &mu, map[string]bool{})
	r.Case(true, hx)
	r.Case(true, hx+"#")
}
