//go:build verif

package semaphore

// C29 (semaphore half): weighted semaphore with SetSize / ForceAcquire.
//
// Workloads against the real Weighted, observed in-package under its own mutex (s.mu):
//   - stepped histories: one call (or 2-4 concurrent calls) per step; the next step is issued
//     only after the previous Acquire is visibly linked into s.waiters (or has returned) and
//     every waiter whose ready channel was closed has returned.  Arrival order is unambiguous,
//     FIFO is judged as "the set granted in one step is a prefix of the queue".
//   - free-running epochs under -race with bounds that hold for every interleaving.
//
// No verdict depends on the wall clock: bounded waits only turn into r.Inconclusive.

import (
	"container/list"
	"context"
	"fmt"
	"math/rand/v2"
	"runtime"
	"runtime/debug"
	"sort"
	"strings"
	"sync"
	"sync/atomic"
	"testing"
	"time"
	"unsafe"

	"github.com/anishathalye/porcupine"

	"github.com/VKCOM/statshouse/internal/zzverif/verifkit"
)

const (
	c29KeyOver         = "C29/semaphore/admit-over-size"
	c29KeyPrefix       = "C29/semaphore/fifo/granted-set-not-a-prefix-of-queue"
	c29KeyBarge        = "C29/semaphore/fifo/admitted-past-waiters"
	c29KeyOrder        = "C29/semaphore/fifo/queue-order-changed"
	c29KeyFrontFits    = "C29/semaphore/lost-wakeup/front-waiter-fits-but-waits"
	c29KeyNotSignalled = "C29/semaphore/lost-wakeup/dequeued-but-not-signalled"
	c29KeyIdleBlock    = "C29/semaphore/lost-wakeup/acquire-blocks-on-idle-semaphore"
	c29KeyConservation = "C29/semaphore/conservation/cur-differs-from-grants-minus-releases"
	c29KeyCancelLeak   = "C29/semaphore/cancel/cancelled-waiter-still-queued"
	c29KeyCancelState  = "C29/semaphore/cancel/changed-state"
	c29KeyTryState     = "C29/semaphore/tryacquire/failed-call-changed-state"
	c29KeyPorcupine    = "C29/semaphore/porcupine/history-not-linearizable"
	c29KeyDeadlock     = "C29/semaphore/lost-wakeup/all-goroutines-blocked-nothing-held"
	c29KeyResidue      = "C29/semaphore/conservation/residue-after-quiescence"

	c29WaitLimit = 120 * time.Second
)

// ---------------------------------------------------------------- observation

type c29QE struct {
	e *list.Element
	n int64
}

type c29State struct {
	cur, size int64
	q         []c29QE
}

func c29Snap(s *Weighted) c29State {
	s.mu.Lock()
	defer s.mu.Unlock()
	st := c29State{cur: s.cur, size: s.size}
	for e := s.waiters.Front(); e != nil; e = e.Next() {
		st.q = append(st.q, c29QE{e: e, n: e.Value.(waiter).n})
	}
	return st
}

func (s c29State) has(e *list.Element) bool {
	for _, x := range s.q {
		if x.e == e {
			return true
		}
	}
	return false
}

// c29Signalled reads the closed state of a waiter's ready channel (declared send-only in the
// package; the direction is a property of the type only).
func c29Signalled(e *list.Element) bool {
	w := e.Value.(waiter)
	ch := *(*chan struct{})(unsafe.Pointer(&w.ready))
	select {
	case <-ch:
		return true
	default:
		return false
	}
}

func c29WaitUntil(cond func() bool) bool {
	if cond() {
		return true
	}
	start := time.Now()
	for i := 0; ; i++ {
		if i < 200 {
			runtime.Gosched()
		} else if i < 2000 {
			time.Sleep(20 * time.Microsecond)
		} else {
			time.Sleep(time.Millisecond)
		}
		if cond() {
			return true
		}
		if i > 200 && time.Since(start) > c29WaitLimit {
			return false
		}
	}
}


// c29Guard turns a panic of the code under test into a violation instead of a crashed process.
func c29Guard(r *verifkit.Run, what string, f func()) (panicked bool) {
	defer func() {
		if p := recover(); p != nil {
			panicked = true
			r.Violation("C29/semaphore/panic", fmt.Sprintf("%s panicked: %v", what, p), map[string]any{"call": what, "stack": string(debug.Stack())})
		}
	}()
	f()
	return false
}

// ---------------------------------------------------------------- porcupine model (admission only, no queue)

type c29PIn struct {
	kind string // acq try rel set force obs
	n    int64
}
type c29POut struct {
	ok        bool
	cur, size int64
}
type c29PState struct{ cur, size int64 }

func c29Model(size0 int64) porcupine.Model {
	return porcupine.Model{
		Init: func() interface{} { return c29PState{size: size0} },
		Step: func(state, input, output interface{}) (bool, interface{}) {
			st := state.(c29PState)
			in := input.(c29PIn)
			out := output.(c29POut)
			switch in.kind {
			case "acq", "try":
				if !out.ok {
					return true, st // cancelled / refused: no effect (a refusal may be caused by waiters, which this model does not track)
				}
				if st.size-st.cur >= in.n {
					st.cur += in.n
					return true, st
				}
				return false, st
			case "rel":
				if st.cur < in.n {
					return false, st
				}
				st.cur -= in.n
				return true, st
			case "set":
				st.size = in.n
				return true, st
			case "force":
				st.cur += in.n
				return true, st
			case "obs":
				return out.cur == st.cur && out.size == st.size, st
			}
			return false, st
		},
		Equal: func(a, b interface{}) bool { return a.(c29PState) == b.(c29PState) },
	}
}

// ---------------------------------------------------------------- stepped histories

type c29Waiter struct {
	id      int
	n       int64
	cancel  context.CancelFunc
	done    chan error
	elem    *list.Element
	enqStep int
	fin     bool
	err     error
	call    int64
	ret     int64
	narrow  int64
}

type c29Hist struct {
	r     *verifkit.Run
	w     *verifkit.Worker
	s     *Weighted
	rnd   *rand.Rand
	idx   int
	size0 int64
	clock atomic.Int64

	opsMu sync.Mutex
	ops   []porcupine.Operation

	waiters  []*c29Waiter
	holdings int64 // granted + try + forced - released, as seen by the harness
	nextID   int
	step     int
	trace    []string
	shape    []string
	violated bool
	aborted  bool

	flagged     map[string]bool
	flaggedStep int

	nGrantQ, nCancel, nSet, nForce, nConc, nMulti, nPorcSkipped int
}

func (h *c29Hist) tick() int64 { return h.clock.Add(1) }

func (h *c29Hist) addOp(in c29PIn, out c29POut, call, ret int64, client int) {
	h.opsMu.Lock()
	h.ops = append(h.ops, porcupine.Operation{ClientId: client, Input: in, Call: call, Output: out, Return: ret})
	h.opsMu.Unlock()
}

func (h *c29Hist) logf(f string, a ...any) {
	h.trace = append(h.trace, fmt.Sprintf("%d: ", h.step)+fmt.Sprintf(f, a...))
}

func (h *c29Hist) viol(key, what string, extra map[string]any) {
	h.violated = true
	if h.flagged == nil || h.flaggedStep != h.step {
		h.flagged, h.flaggedStep = map[string]bool{}, h.step
	}
	if h.flagged[key] {
		return
	}
	h.flagged[key] = true
	t := h.trace
	if len(t) > 80 {
		t = t[len(t)-80:]
	}
	m := map[string]any{"history_index": h.idx, "worker": h.w.Index, "initial_size": h.size0, "trace": append([]string(nil), t...)}
	for k, v := range extra {
		m[k] = v
	}
	h.r.Violation(key, what, m)
}

func (h *c29Hist) inconclusive(why string) {
	h.aborted = true
	h.r.Inconclusive(fmt.Sprintf("C29 semaphore stepped history %d/%d: %s", h.w.Index, h.idx, why))
}

func (h *c29Hist) startAcquire(n int64) *c29Waiter {
	ctx, cancel := context.WithCancel(context.Background())
	w := &c29Waiter{id: h.nextID, n: n, cancel: cancel, done: make(chan error, 1), enqStep: -1}
	h.nextID++
	s := h.s
	go func() {
		w.call = h.tick()
		var err error
		if c29Guard(h.r, "Acquire", func() { err = s.Acquire(ctx, n) }) {
			err = fmt.Errorf("panic in Acquire")
		}
		w.ret = h.tick()
		w.done <- err
	}()
	h.waiters = append(h.waiters, w)
	return w
}

func (h *c29Hist) poll() (fin []*c29Waiter) {
	rest := h.waiters[:0]
	for _, w := range h.waiters {
		select {
		case err := <-w.done:
			w.fin, w.err = true, err
			if err == nil {
				h.addOp(c29PIn{kind: "acq", n: w.n}, c29POut{ok: true}, max(w.call, w.narrow), w.ret, 100+w.id)
			} else {
				h.nPorcSkipped++
			}
			fin = append(fin, w)
		default:
			rest = append(rest, w)
		}
	}
	h.waiters = rest
	return fin
}

func (h *c29Hist) settle(mustReturn map[*c29Waiter]bool) (fin []*c29Waiter, ok bool) {
	ok = c29WaitUntil(func() bool {
		fin = append(fin, h.poll()...)
		st := c29Snap(h.s)
		for _, w := range h.waiters {
			if mustReturn[w] {
				return false
			}
			if w.elem != nil && (c29Signalled(w.elem) || !st.has(w.elem)) {
				return false
			}
		}
		return true
	})
	return fin, ok
}

func (h *c29Hist) markQueued() {
	st := c29Snap(h.s)
	t := h.tick()
	for _, w := range h.waiters {
		if w.elem != nil && st.has(w.elem) && !c29Signalled(w.elem) {
			w.narrow = t
		}
	}
}

func (h *c29Hist) linkNew(w *c29Waiter, pre, st c29State) bool {
	for _, e := range st.q {
		if pre.has(e.e) || e.n != w.n {
			continue
		}
		known := false
		for _, o := range h.waiters {
			if o != w && o.elem == e.e {
				known = true
			}
		}
		if !known {
			w.elem = e.e
			return true
		}
	}
	return false
}

func (h *c29Hist) byElem(e *list.Element) *c29Waiter {
	for _, w := range h.waiters {
		if w.elem == e {
			return w
		}
	}
	return nil
}

func c29Ids(ws []*c29Waiter) string {
	var s []string
	for _, w := range ws {
		s = append(s, fmt.Sprintf("#%d(n=%d)", w.id, w.n))
	}
	sort.Strings(s)
	return "[" + strings.Join(s, " ") + "]"
}

func (h *c29Hist) qText(st c29State) string {
	var s []string
	for _, e := range st.q {
		id := -1
		if w := h.byElem(e.e); w != nil {
			id = w.id
		}
		s = append(s, fmt.Sprintf("#%d(n=%d)", id, e.n))
	}
	return "[" + strings.Join(s, " ") + "]"
}

type c29StepInfo struct {
	what      string
	pre       c29State
	dcur      int64             // change of cur by the calls themselves (releases, force, successful try), grants excluded
	cancelled map[*c29Waiter]bool // waiters cancelled in this step that returned an error
	newW      *c29Waiter        // Acquire issued in this step (nil if none)
	tryOK     bool
	sizes     []int64 // sizes that may have been in force during the step
	exact     bool    // single sequential call: exact rules
}

// judge applies the rules to a step after it has settled.
func (h *c29Hist) judge(si c29StepInfo, fin []*c29Waiter) {
	post := c29Snap(h.s)
	pre := si.pre
	var granted []*c29Waiter
	for _, w := range fin {
		if w.err == nil {
			granted = append(granted, w)
			h.holdings += w.n
		} else if !si.cancelled[w] {
			h.viol(c29KeyCancelState, fmt.Sprintf("%s: waiter #%d returned %v although it was not cancelled", si.what, w.id, w.err), nil)
		}
	}
	gset := map[*list.Element]bool{}
	var gsum int64
	newGranted := false
	for _, g := range granted {
		gsum += g.n
		if g == si.newW {
			newGranted = true
		}
		if g.elem != nil {
			gset[g.elem] = true
			if g.enqStep >= 0 && g.enqStep < h.step {
				h.nGrantQ++
			}
		}
	}
	// pre' = queue before the step without the waiters cancelled in it
	var preQ []c29QE
	for _, e := range pre.q {
		w := h.byElemAll(e.e, fin)
		if w != nil && si.cancelled[w] && w.err != nil {
			continue
		}
		preQ = append(preQ, e)
	}
	// every element that left the queue was granted (its goroutine returned nil)
	for _, e := range preQ {
		if !post.has(e.e) && !gset[e.e] {
			h.viol(c29KeyNotSignalled, fmt.Sprintf("%s: a waiter (n=%d) left the queue but its Acquire did not return nil", si.what, e.n), nil)
		}
	}
	// FIFO: granted ∩ pre' is a prefix of pre'
	k := 0
	for _, e := range preQ {
		if gset[e.e] {
			k++
		}
	}
	for i, e := range preQ {
		if i < k && !gset[e.e] {
			h.viol(c29KeyPrefix, fmt.Sprintf("%s: queue before the step %s, granted %s: not a prefix", si.what, h.qTextAll(preQ, fin), c29Ids(granted)),
				map[string]any{"queue_before": h.qTextAll(preQ, fin), "granted": c29Ids(granted)})
			break
		}
	}
	if k > 1 {
		h.nMulti++
	}
	// nobody overtakes the queue: a new Acquire / a TryAcquire is admitted only once every earlier waiter was
	if (newGranted || si.tryOK) && k < len(preQ) {
		h.viol(c29KeyBarge, fmt.Sprintf("%s: admitted although %d earlier waiter(s) %s still wait", si.what, len(preQ)-k, h.qTextAll(preQ[k:], fin)),
			map[string]any{"queue_before": h.qTextAll(preQ, fin), "granted": c29Ids(granted)})
	}
	// queue order: survivors keep their relative order, a new waiter goes to the back
	var want []*list.Element
	for _, e := range preQ {
		if !gset[e.e] {
			want = append(want, e.e)
		}
	}
	if si.newW != nil && !si.newW.fin && si.newW.elem != nil {
		want = append(want, si.newW.elem)
	}
	same := len(want) == len(post.q)
	for i := 0; same && i < len(want); i++ {
		same = want[i] == post.q[i].e
	}
	if !same {
		stillCancelled := false
		for w := range si.cancelled {
			if w.err != nil && w.elem != nil && post.has(w.elem) {
				stillCancelled = true
				h.viol(c29KeyCancelLeak, fmt.Sprintf("%s: waiter #%d returned %v but is still linked into the queue", si.what, w.id, w.err), nil)
			}
		}
		if !stillCancelled {
			h.viol(c29KeyOrder, fmt.Sprintf("%s: queue after the step %s differs from the expected order", si.what, h.qText(post)), map[string]any{"queue_before": h.qTextAll(pre.q, fin), "queue_after": h.qText(post)})
		}
	}
	// conservation
	if post.cur != pre.cur+si.dcur+gsum {
		h.viol(c29KeyConservation, fmt.Sprintf("%s: cur %d -> %d, calls changed it by %d, grants by %d", si.what, pre.cur, post.cur, si.dcur, gsum),
			map[string]any{"pre_cur": pre.cur, "post_cur": post.cur, "delta_calls": si.dcur, "delta_grants": gsum})
	}
	if post.cur != h.holdings {
		h.viol(c29KeyConservation, fmt.Sprintf("%s: cur %d but the harness holds %d", si.what, post.cur, h.holdings), nil)
	}
	// admission: after the last grant of the step only releases follow, so cur <= the largest size in force
	if len(granted) > 0 || si.tryOK {
		maxSize := post.size
		for _, z := range si.sizes {
			maxSize = max(maxSize, z)
		}
		if post.cur > maxSize {
			h.viol(c29KeyOver, fmt.Sprintf("%s: admitted %s, cur %d > size %d", si.what, c29Ids(granted), post.cur, maxSize),
				map[string]any{"cur": post.cur, "size": maxSize})
		}
	}
	// lost wakeup: the front waiter never fits while it waits (every call that frees room notifies before it returns)
	if len(post.q) > 0 && post.size-post.cur >= post.q[0].n {
		h.viol(c29KeyFrontFits, fmt.Sprintf("%s: front waiter needs %d, size %d cur %d, queue %s", si.what, post.q[0].n, post.size, post.cur, h.qText(post)),
			map[string]any{"size": post.size, "cur": post.cur, "front_n": post.q[0].n})
	}
	h.logf("%s | cur %d size %d queue %s => granted %s | cur %d size %d queue %s", si.what, pre.cur, pre.size, h.qTextAll(pre.q, fin), c29Ids(granted), post.cur, post.size, h.qText(post))
}

// byElemAll also looks at waiters that returned in this step.
func (h *c29Hist) byElemAll(e *list.Element, fin []*c29Waiter) *c29Waiter {
	if w := h.byElem(e); w != nil {
		return w
	}
	for _, w := range fin {
		if w.elem == e {
			return w
		}
	}
	return nil
}

func (h *c29Hist) qTextAll(q []c29QE, fin []*c29Waiter) string {
	var s []string
	for _, e := range q {
		id := -1
		if w := h.byElemAll(e.e, fin); w != nil {
			id = w.id
		}
		s = append(s, fmt.Sprintf("#%d(n=%d)", id, e.n))
	}
	return "[" + strings.Join(s, " ") + "]"
}

func (h *c29Hist) stepAcquire() {
	pre := c29Snap(h.s)
	if pre.size < 1 {
		return
	}
	n := int64(1 + h.rnd.IntN(int(min(pre.size, 4))))
	w := h.startAcquire(n)
	var fin []*c29Waiter
	if !c29WaitUntil(func() bool {
		fin = append(fin, h.poll()...)
		return w.fin || h.linkNew(w, pre, c29Snap(h.s))
	}) {
		h.inconclusive("Acquire neither returned nor became visible in the queue")
		return
	}
	more, ok := h.settle(nil)
	fin = append(fin, more...)
	if !ok {
		h.inconclusive("signalled waiters did not return")
		return
	}
	if !w.fin {
		w.enqStep = h.step
	}
	what := fmt.Sprintf("Acquire(%d)#%d", n, w.id)
	h.shape = append(h.shape, map[bool]string{true: "A+", false: "Aq"}[w.fin])
	if len(pre.q) == 0 && pre.size-pre.cur >= n && !(w.fin && w.err == nil) {
		h.viol(c29KeyIdleBlock, fmt.Sprintf("%s blocked with nobody waiting, size %d cur %d", what, pre.size, pre.cur), nil)
	}
	h.judge(c29StepInfo{what: what, pre: pre, newW: w, exact: true}, fin)
}

func (h *c29Hist) stepTry() {
	pre := c29Snap(h.s)
	n := int64(1 + h.rnd.IntN(3))
	call := h.tick()
	ok := h.s.TryAcquire(n)
	ret := h.tick()
	h.addOp(c29PIn{kind: "try", n: n}, c29POut{ok: ok}, call, ret, 0)
	fin, sok := h.settle(nil)
	if !sok {
		h.inconclusive("did not settle after TryAcquire")
		return
	}
	var d int64
	if ok {
		d = n
		h.holdings += n
	} else if len(pre.q) == 0 && pre.size-pre.cur >= n {
		h.r.NotJudged("tryacquire_refused_although_room_and_no_waiters", 1)
	}
	h.shape = append(h.shape, map[bool]string{true: "T+", false: "T-"}[ok])
	if !ok {
		post := c29Snap(h.s)
		if post.cur != pre.cur || len(post.q) != len(pre.q) {
			h.viol(c29KeyTryState, fmt.Sprintf("TryAcquire(%d) returned false but cur %d -> %d, waiters %d -> %d", n, pre.cur, post.cur, len(pre.q), len(post.q)), nil)
		}
	}
	h.judge(c29StepInfo{what: fmt.Sprintf("TryAcquire(%d)=%v", n, ok), pre: pre, dcur: d, tryOK: ok, exact: true}, fin)
}

func (h *c29Hist) stepRelease() {
	if h.holdings <= 0 {
		return
	}
	pre := c29Snap(h.s)
	n := int64(1 + h.rnd.IntN(int(h.holdings)))
	call := h.tick()
	c29Guard(h.r, "Release", func() { h.s.Release(n) })
	ret := h.tick()
	h.holdings -= n
	h.addOp(c29PIn{kind: "rel", n: n}, c29POut{}, call, ret, 0)
	h.atReturn(pre, fmt.Sprintf("Release(%d)", n))
	fin, ok := h.settle(nil)
	if !ok {
		h.inconclusive("granted waiters did not return after Release")
		return
	}
	h.shape = append(h.shape, fmt.Sprintf("R%d", len(fin)))
	h.judge(c29StepInfo{what: fmt.Sprintf("Release(%d)", n), pre: pre, dcur: -n, exact: true}, fin)
}

// atReturn: observation at the moment a synchronous call has returned (no waiting for goroutines).
func (h *c29Hist) atReturn(pre c29State, what string) {
	at := c29Snap(h.s)
	for _, e := range pre.q {
		if !at.has(e.e) && !c29Signalled(e.e) {
			h.viol(c29KeyNotSignalled, fmt.Sprintf("%s removed a waiter (n=%d) from the queue without closing its channel", what, e.n), nil)
		}
	}
	if len(at.q) > 0 && at.size-at.cur >= at.q[0].n {
		h.viol(c29KeyFrontFits, fmt.Sprintf("%s returned: front waiter needs %d, size %d cur %d", what, at.q[0].n, at.size, at.cur),
			map[string]any{"size": at.size, "cur": at.cur, "front_n": at.q[0].n, "at": "return-of-call"})
	}
}

func (h *c29Hist) stepCancel() {
	var cands []*c29Waiter
	for _, w := range h.waiters {
		if w.elem != nil {
			cands = append(cands, w)
		}
	}
	if len(cands) == 0 {
		return
	}
	pre := c29Snap(h.s)
	w := cands[h.rnd.IntN(len(cands))]
	if h.rnd.IntN(2) == 0 { // the front waiter is the interesting one
		for _, c := range cands {
			if c.elem == pre.q[0].e {
				w = c
			}
		}
	}
	front := w.elem == pre.q[0].e
	w.cancel()
	fin, ok := h.settle(map[*c29Waiter]bool{w: true})
	if !ok {
		h.inconclusive("cancelled waiter did not return")
		return
	}
	h.nCancel++
	h.shape = append(h.shape, map[bool]string{true: "Cf", false: "Cm"}[front])
	if w.err == nil {
		h.viol(c29KeyCancelState, fmt.Sprintf("cancelled waiter #%d (n=%d) returned nil although it had not been signalled", w.id, w.n), nil)
	}
	h.judge(c29StepInfo{what: fmt.Sprintf("cancel #%d(n=%d,front=%v) -> %v", w.id, w.n, front, w.err), pre: pre, cancelled: map[*c29Waiter]bool{w: true}, exact: true}, fin)
}

func (h *c29Hist) stepSetSize() {
	pre := c29Snap(h.s)
	n := int64(h.rnd.IntN(7))
	call := h.tick()
	c29Guard(h.r, "SetSize", func() { h.s.SetSize(n) })
	ret := h.tick()
	h.addOp(c29PIn{kind: "set", n: n}, c29POut{}, call, ret, 0)
	h.atReturn(pre, fmt.Sprintf("SetSize(%d)", n))
	fin, ok := h.settle(nil)
	if !ok {
		h.inconclusive("did not settle after SetSize")
		return
	}
	h.nSet++
	h.shape = append(h.shape, fmt.Sprintf("S%d", len(fin)))
	h.judge(c29StepInfo{what: fmt.Sprintf("SetSize(%d)", n), pre: pre, exact: true}, fin)
}

func (h *c29Hist) stepForce() {
	pre := c29Snap(h.s)
	n := int64(h.rnd.IntN(4))
	call := h.tick()
	h.s.ForceAcquire(n)
	ret := h.tick()
	h.holdings += n
	h.addOp(c29PIn{kind: "force", n: n}, c29POut{}, call, ret, 0)
	fin, ok := h.settle(nil)
	if !ok {
		h.inconclusive("did not settle after ForceAcquire")
		return
	}
	h.nForce++
	h.shape = append(h.shape, "F")
	h.judge(c29StepInfo{what: fmt.Sprintf("ForceAcquire(%d)", n), pre: pre, dcur: n, exact: true}, fin)
}

func (h *c29Hist) stepObserve() {
	call := h.tick()
	cur, size := h.s.Observe()
	ret := h.tick()
	h.addOp(c29PIn{kind: "obs"}, c29POut{cur: cur, size: size}, call, ret, 0)
	h.shape = append(h.shape, "O")
	if cur != h.holdings {
		h.viol(c29KeyConservation, fmt.Sprintf("Observe() cur=%d but the harness holds %d", cur, h.holdings), nil)
	}
}

// stepConcurrent: 2-4 calls at once out of {Release, Release, cancel, Acquire, TryAcquire, SetSize}.
func (h *c29Hist) stepConcurrent() {
	pre := c29Snap(h.s)
	var rel []int64
	left := h.holdings
	for i := 0; i < 2 && left > 0 && h.rnd.IntN(3) != 0; i++ {
		n := int64(1 + h.rnd.IntN(int(left)))
		rel = append(rel, n)
		left -= n
	}
	var cw *c29Waiter
	if len(pre.q) > 0 && h.rnd.IntN(2) == 0 {
		var cands []*c29Waiter
		for _, w := range h.waiters {
			if w.elem != nil {
				cands = append(cands, w)
			}
		}
		if len(cands) > 0 {
			cw = cands[h.rnd.IntN(len(cands))]
			if h.rnd.IntN(3) != 0 {
				for _, c := range cands {
					if c.elem == pre.q[0].e {
						cw = c
					}
				}
			}
		}
	}
	withAcq := h.rnd.IntN(2) == 0 && pre.size >= 1
	withTry := h.rnd.IntN(4) == 0
	setTo := int64(-1)
	if h.rnd.IntN(4) == 0 {
		setTo = int64(h.rnd.IntN(7))
	}
	acqN := int64(1)
	if withAcq {
		lim := pre.size
		if setTo >= 0 {
			lim = min(lim, setTo) // never doomed whichever size is in force
		}
		if lim < 1 {
			withAcq = false
		} else {
			acqN = int64(1 + h.rnd.IntN(int(min(lim, 4))))
		}
	}
	tryN := int64(1 + h.rnd.IntN(3))
	cnt := len(rel)
	for _, b := range []bool{cw != nil, withAcq, withTry, setTo >= 0} {
		if b {
			cnt++
		}
	}
	if cnt < 2 {
		return
	}
	start := make(chan struct{})
	var wg sync.WaitGroup
	for i, n := range rel {
		wg.Add(1)
		go func(i int, n int64) {
			defer wg.Done()
			<-start
			call := h.tick()
			c29Guard(h.r, "Release", func() { h.s.Release(n) })
			h.addOp(c29PIn{kind: "rel", n: n}, c29POut{}, call, h.tick(), 1+i)
		}(i, n)
	}
	if cw != nil {
		wg.Add(1)
		spin := h.rnd.IntN(3)
		go func() {
			defer wg.Done()
			<-start
			for i := 0; i < spin; i++ {
				runtime.Gosched()
			}
			cw.cancel()
		}()
	}
	tryOK := false
	if withTry {
		wg.Add(1)
		go func() {
			defer wg.Done()
			<-start
			call := h.tick()
			tryOK = h.s.TryAcquire(tryN)
			h.addOp(c29PIn{kind: "try", n: tryN}, c29POut{ok: tryOK}, call, h.tick(), 5)
		}()
	}
	if setTo >= 0 {
		wg.Add(1)
		go func() {
			defer wg.Done()
			<-start
			call := h.tick()
			c29Guard(h.r, "SetSize", func() { h.s.SetSize(setTo) })
			h.addOp(c29PIn{kind: "set", n: setTo}, c29POut{}, call, h.tick(), 6)
		}()
	}
	close(start)
	var aw *c29Waiter
	if withAcq {
		aw = h.startAcquire(acqN)
	}
	wg.Wait()
	var dcur int64
	for _, n := range rel {
		dcur -= n
		h.holdings -= n
	}
	if tryOK {
		dcur += tryN
		h.holdings += tryN
	}
	var fin []*c29Waiter
	if aw != nil {
		if !c29WaitUntil(func() bool {
			fin = append(fin, h.poll()...)
			return aw.fin || h.linkNew(aw, pre, c29Snap(h.s))
		}) {
			h.inconclusive("concurrent Acquire neither returned nor became visible")
			return
		}
	}
	must := map[*c29Waiter]bool{}
	cancelled := map[*c29Waiter]bool{}
	if cw != nil {
		must[cw] = true
		cancelled[cw] = true
	}
	more, ok := h.settle(must)
	fin = append(fin, more...)
	if !ok {
		h.inconclusive("concurrent step did not settle")
		return
	}
	if aw != nil && !aw.fin {
		aw.enqStep = h.step
	}
	h.nConc++
	if cw != nil {
		h.nCancel++
		if cw.err == nil {
			h.w.Count("cancel_lost_race_to_grant", 1)
		}
	}
	if setTo >= 0 {
		h.nSet++
	}
	desc := fmt.Sprintf("concurrent{Release%v", rel)
	if cw != nil {
		desc += fmt.Sprintf(", cancel #%d(n=%d)->%v", cw.id, cw.n, cw.err)
	}
	if aw != nil {
		desc += fmt.Sprintf(", Acquire(%d)#%d", aw.n, aw.id)
	}
	if withTry {
		desc += fmt.Sprintf(", TryAcquire(%d)=%v", tryN, tryOK)
	}
	sizes := []int64{pre.size}
	if setTo >= 0 {
		desc += fmt.Sprintf(", SetSize(%d)", setTo)
		sizes = append(sizes, setTo)
	}
	desc += "}"
	h.shape = append(h.shape, fmt.Sprintf("X%d%v%v%v%v:%d", len(rel), cw != nil, aw != nil, withTry, setTo >= 0, len(fin)))
	h.judge(c29StepInfo{what: desc, pre: pre, dcur: dcur, cancelled: cancelled, newW: aw, tryOK: tryOK, sizes: sizes}, fin)
}

func (h *c29Hist) finish() {
	for _, w := range h.waiters {
		w.cancel()
	}
	all := map[*c29Waiter]bool{}
	for _, w := range h.waiters {
		all[w] = true
	}
	h.step++
	fin, ok := h.settle(all)
	if !ok {
		h.inconclusive("final cancellation did not settle")
		return
	}
	for _, w := range fin {
		if w.err == nil {
			h.holdings += w.n
		}
	}
	st := c29Snap(h.s)
	if len(st.q) != 0 {
		h.viol(c29KeyCancelLeak, fmt.Sprintf("%d waiters are still queued after every waiter was cancelled", len(st.q)), nil)
		return
	}
	if h.holdings > 0 {
		call := h.tick()
		c29Guard(h.r, "Release", func() { h.s.Release(h.holdings) })
		h.addOp(c29PIn{kind: "rel", n: h.holdings}, c29POut{}, call, h.tick(), 0)
		h.holdings = 0
	}
	st = c29Snap(h.s)
	if st.cur != 0 || len(st.q) != 0 {
		h.viol(c29KeyResidue, fmt.Sprintf("after cancelling all waiters and releasing everything held: cur %d, queued %d", st.cur, len(st.q)), nil)
	}
}

func c29RunStepped(r *verifkit.Run, w *verifkit.Worker, idx int) {
	rnd := w.Rnd
	size0 := int64(1 + rnd.IntN(6))
	h := &c29Hist{r: r, w: w, s: NewWeighted(size0), rnd: rnd, idx: idx, size0: size0}
	steps := 25 + rnd.IntN(40)
	for h.step = 0; h.step < steps && !h.aborted; h.step++ {
		h.markQueued()
		switch p := rnd.IntN(100); {
		case p < 34:
			h.stepAcquire()
		case p < 40:
			h.stepTry()
		case p < 60:
			h.stepRelease()
		case p < 69:
			h.stepCancel()
		case p < 76:
			h.stepSetSize()
		case p < 81:
			h.stepForce()
		case p < 83:
			h.stepObserve()
		default:
			h.stepConcurrent()
		}
	}
	if h.aborted {
		for _, x := range h.waiters {
			x.cancel()
		}
		return
	}
	h.finish()
	if h.aborted {
		return
	}
	h.opsMu.Lock()
	ops := append([]porcupine.Operation(nil), h.ops...)
	h.opsMu.Unlock()
	res := porcupine.Ok
	if h.violated {
		w.Count("porcupine_skipped_history_already_violated", 1)
	} else {
		res = porcupine.CheckOperationsTimeout(c29Model(size0), ops, 30*time.Second)
	}
	switch res {
	case porcupine.Ok:
		if !h.violated {
			w.Count("porcupine_ok", 1)
		}
	case porcupine.Illegal:
		if h.violated {
			w.Count("porcupine_illegal_confirms_direct_oracle", 1)
		} else {
			sort.Slice(ops, func(i, j int) bool { return ops[i].Call < ops[j].Call })
			var txt []string
			for _, o := range ops {
				txt = append(txt, fmt.Sprintf("[%d,%d] %+v -> %+v", o.Call, o.Return, o.Input, o.Output))
			}
			h.viol(c29KeyPorcupine, "history is not linearizable w.r.t. the admission model (admit only if size - cur >= n; Observe == model)", map[string]any{"ops": txt})
		}
	default:
		r.Inconclusive(fmt.Sprintf("C29 semaphore: porcupine timed out on history %d/%d (%d ops)", w.Index, idx, len(ops)))
	}
	w.Count("stepped.steps", int64(steps))
	w.Count("stepped.grants_from_queue", int64(h.nGrantQ))
	w.Count("stepped.steps_granting_several_waiters", int64(h.nMulti))
	w.Count("stepped.cancels", int64(h.nCancel))
	w.Count("stepped.setsize", int64(h.nSet))
	w.Count("stepped.forceacquire", int64(h.nForce))
	w.Count("stepped.concurrent_steps", int64(h.nConc))
	w.Count("stepped.porcupine_ops", int64(len(ops)))
	w.Count("stepped.porcupine_cancelled_acquires_left_out", int64(h.nPorcSkipped))
	shape := strings.Join(h.shape, ",")
	r.Shape(shape)
	w.Case(h.nGrantQ > 0 && h.nCancel > 0 && h.nSet > 0, fmt.Sprintf("size%d;%s", size0, shape))
	if w.Index == 0 && idx < 2 {
		t := h.trace
		if len(t) > 12 {
			t = t[:12]
		}
		r.Sample(map[string]any{"kind": "stepped", "initial_size": size0, "first_steps": t})
	}
}

// ---------------------------------------------------------------- zero-weight edge (recorded, not judged)

// A waiter with n == 0 behind a front waiter that is cancelled while size <= cur is not
// woken by the cancellation although it fits (Acquire's cancel path notifies only if
// size > cur).  The statement does not speak about zero weights: recorded in the evidence.
func c29ZeroWeightEdge(r *verifkit.Run) {
	s := NewWeighted(2)
	s.ForceAcquire(2)
	h := &c29Hist{r: r, s: s}
	pre := c29Snap(s)
	a := h.startAcquire(2)
	if !c29WaitUntil(func() bool { h.poll(); return a.fin || h.linkNew(a, pre, c29Snap(s)) }) || a.fin {
		return
	}
	pre = c29Snap(s)
	b := h.startAcquire(0)
	if !c29WaitUntil(func() bool { h.poll(); return b.fin || h.linkNew(b, pre, c29Snap(s)) }) || b.fin {
		a.cancel()
		return
	}
	a.cancel()
	if _, ok := h.settle(map[*c29Waiter]bool{a: true}); !ok {
		b.cancel()
		return
	}
	st := c29Snap(s)
	if len(st.q) == 1 && st.size-st.cur >= st.q[0].n {
		r.NotJudged("zero_weight_waiter_not_woken_when_front_cancelled_at_full_semaphore", 1)
	} else {
		r.NotJudged("zero_weight_waiter_woken_when_front_cancelled", 1)
	}
	b.cancel()
	h.settle(map[*c29Waiter]bool{b: true})
}

// WaitEmpty is outside the quantifier of C29 (Acquire/TryAcquire/Release/SetSize/ForceAcquire);
// recorded, not judged: it acquires the size it read (without the mutex) at call time and
// releases the size in force when it is granted, so a SetSize in between makes it release a
// different amount than it acquired.
func c29WaitEmptyEdge(r *verifkit.Run) {
	s := NewWeighted(4)
	s.ForceAcquire(1)
	pre := c29Snap(s)
	done := make(chan string, 1)
	ctx, cancel := context.WithCancel(context.Background())
	defer cancel()
	go func() {
		defer func() {
			if p := recover(); p != nil {
				done <- fmt.Sprint("panic: ", p)
			}
		}()
		err := s.WaitEmpty(ctx)
		done <- fmt.Sprint("returned ", err)
	}()
	if !c29WaitUntil(func() bool { return len(c29Snap(s).q) == len(pre.q)+1 }) {
		return
	}
	s.SetSize(6) // 6-1 >= 4: the queued Acquire(4) is granted, then WaitEmpty calls Release(6) with cur == 5
	select {
	case res := <-done:
		st := c29Snap(s)
		if strings.HasPrefix(res, "panic") || st.cur != 1 {
			r.NotJudged("waitempty_with_setsize_in_between_releases_other_amount_than_acquired", 1)
		} else {
			r.NotJudged("waitempty_with_setsize_in_between_consistent", 1)
		}
	case <-time.After(c29WaitLimit):
	}
}

// ---------------------------------------------------------------- free-running epochs

func c29RunFree(r *verifkit.Run, w *verifkit.Worker, idx int) {
	rnd := w.Rnd
	kinds := []string{"const", "lower", "raise", "mixed"}
	kind := kinds[rnd.IntN(len(kinds))]
	const maxN = 3
	size0 := int64(maxN + rnd.IntN(5)) // n <= 3 <= every size of the epoch: no doomed Acquire
	if kind == "lower" {
		size0 = int64(maxN + 1 + rnd.IntN(5))
	}
	s := NewWeighted(size0)
	G := 6 + rnd.IntN(14)
	loops := 20 + rnd.IntN(60)
	var held, maxSize, lowTo atomic.Int64
	var grants, cancels, tries, finished, pendingCancels, waitedSeen atomic.Int64
	maxSize.Store(size0)
	type seedT struct{ a, b uint64 }
	seeds := make([]seedT, G)
	for i := range seeds {
		seeds[i] = seedT{rnd.Uint64(), rnd.Uint64()}
	}
	ctlSeed := seedT{rnd.Uint64(), rnd.Uint64()}
	witness := func(extra map[string]any) map[string]any {
		m := map[string]any{"epoch_index": idx, "worker": w.Index, "kind": kind, "initial_size": size0, "goroutines": G, "loops": loops}
		for k, v := range extra {
			m[k] = v
		}
		return m
	}
	var wg, ctlWg sync.WaitGroup
	stopCtl := make(chan struct{})
	ctlWg.Add(1)
	go func() {
		defer ctlWg.Done()
		cr := rand.New(rand.NewPCG(ctlSeed.a, ctlSeed.b))
		spin := func(n int) bool {
			for i := 0; i < n; i++ {
				select {
				case <-stopCtl:
					return false
				default:
				}
				runtime.Gosched()
			}
			return true
		}
		switch kind {
		case "lower":
			if !spin(50 + cr.IntN(2000)) {
				return
			}
			c := int64(maxN + cr.IntN(int(size0-maxN)))
			s.SetSize(c)
			lowTo.Store(c)
		case "raise":
			c := size0
			for k := 0; k < 3; k++ {
				if !spin(50 + cr.IntN(1000)) {
					return
				}
				c += int64(1 + cr.IntN(2))
				maxSize.Store(c)
				s.SetSize(c)
			}
		case "mixed":
			maxSize.Store(maxN + 6)
			var forced int64
			for {
				if !spin(20 + cr.IntN(300)) {
					break
				}
				switch cr.IntN(3) {
				case 0:
					s.SetSize(int64(maxN + cr.IntN(7)))
				case 1:
					k := int64(cr.IntN(4))
					s.ForceAcquire(k)
					forced += k
				case 2:
					if forced > 0 {
						k := int64(1 + cr.IntN(int(forced)))
						s.Release(k)
						forced -= k
					}
				}
			}
			if forced > 0 {
				s.Release(forced)
			}
		}
	}()
	var samples int64
	ctlWg.Add(1)
	go func() {
		defer ctlWg.Done()
		for {
			select {
			case <-stopCtl:
				return
			default:
			}
			st := c29Snap(s)
			samples++
			if len(st.q) > 0 {
				waitedSeen.Store(1)
				// holds in every state under the mutex (all weights >= 1)
				if st.size-st.cur >= st.q[0].n {
					r.Violation(c29KeyFrontFits, fmt.Sprintf("free-running (%s): snapshot under the mutex: front waiter needs %d, size %d, cur %d", kind, st.q[0].n, st.size, st.cur), witness(nil))
				}
			}
			if kind == "const" && st.cur > st.size {
				r.Violation(c29KeyOver, fmt.Sprintf("free-running (const): snapshot shows cur %d > size %d", st.cur, st.size), witness(nil))
			}
			for i := 0; i < 20; i++ {
				runtime.Gosched()
			}
		}
	}()
	for g := 0; g < G; g++ {
		wg.Add(1)
		go func(g int) {
			defer wg.Done()
			defer finished.Add(1)
			gr := rand.New(rand.NewPCG(seeds[g].a, seeds[g].b))
			for i := 0; i < loops; i++ {
				n := int64(1 + gr.IntN(maxN))
				after := lowTo.Load()
				var ok bool
				var cancel context.CancelFunc = func() {}
				if gr.IntN(6) == 0 {
					ok = s.TryAcquire(n)
					tries.Add(1)
				} else {
					var ctx context.Context
					ctx, cancel = context.WithCancel(context.Background())
					switch p := gr.IntN(10); {
					case p == 0:
						cancel()
					case p < 4:
						k := gr.IntN(60)
						pendingCancels.Add(1)
						go func() {
							for j := 0; j < k; j++ {
								runtime.Gosched()
							}
							cancel()
							pendingCancels.Add(-1)
						}()
					}
					var err error
					if c29Guard(r, "Acquire", func() { err = s.Acquire(ctx, n) }) {
						return
					}
					ok = err == nil
					if !ok {
						cancels.Add(1)
					}
				}
				if !ok {
					cancel()
					continue
				}
				hnow := held.Add(n)
				grants.Add(1)
				// held <= real cur at every instant (incremented after the grant, decremented before the release)
				switch {
				case kind == "lower" && after > 0 && hnow > after:
					r.Violation(c29KeyOver, fmt.Sprintf("free-running (lower): a call issued after SetSize(%d) had returned was admitted with %d held", after, hnow), witness(map[string]any{"held": hnow}))
				case hnow > maxSize.Load():
					r.Violation(c29KeyOver, fmt.Sprintf("free-running (%s): %d held, size never above %d", kind, hnow, maxSize.Load()), witness(map[string]any{"held": hnow}))
				}
				for k := gr.IntN(8); k > 0; k-- {
					runtime.Gosched()
				}
				held.Add(-n)
				if c29Guard(r, "Release", func() { s.Release(n) }) {
					return
				}
				cancel()
			}
		}(g)
	}
	doneCh := make(chan struct{})
	go func() { wg.Wait(); close(doneCh) }()
	start := time.Now()
	abandoned := false
wait:
	for {
		select {
		case <-doneCh:
			break wait
		case <-time.After(5 * time.Millisecond):
		}
		unfinished := int64(G) - finished.Load()
		if unfinished > 0 && pendingCancels.Load() == 0 && held.Load() == 0 && kind != "mixed" {
			st := c29Snap(s)
			if int64(len(st.q)) == unfinished && pendingCancels.Load() == 0 && int64(G)-finished.Load() == unfinished && held.Load() == 0 {
				st2 := c29Snap(s)
				if int64(len(st2.q)) == unfinished && st2.cur == st.cur {
					abandoned = true
					if st2.cur != 0 {
						r.Violation(c29KeyConservation, fmt.Sprintf("free-running (%s): all %d unfinished goroutines are queued and the harness holds nothing, yet cur is %d (size %d): admissions leaked", kind, unfinished, st2.cur, st2.size), witness(nil))
					} else {
						r.Violation(c29KeyDeadlock, fmt.Sprintf("free-running (%s): all %d unfinished goroutines are queued, cur is 0, size %d, no cancellation pending", kind, unfinished, st2.size), witness(nil))
					}
					break wait
				}
			}
		}
		if time.Since(start) > 150*time.Second {
			r.Inconclusive(fmt.Sprintf("C29 semaphore free-running epoch %d/%d (%s) did not finish in 150 s", w.Index, idx, kind))
			abandoned = true
			break wait
		}
	}
	close(stopCtl)
	ctlWg.Wait()
	if abandoned {
		return
	}
	st := c29Snap(s)
	if st.cur != 0 || len(st.q) != 0 {
		r.Violation(c29KeyResidue, fmt.Sprintf("free-running (%s) at quiescence: cur %d, queued %d after %d grants all released", kind, st.cur, len(st.q), grants.Load()), witness(nil))
	}
	w.Count("free.epochs."+kind, 1)
	w.Count("free.grants", grants.Load())
	w.Count("free.tryacquire_calls", tries.Load())
	w.Count("free.cancelled_acquires", cancels.Load())
	w.Count("free.snapshots", samples)
	w.Case(cancels.Load() > 0 && waitedSeen.Load() > 0, fmt.Sprintf("free;%s;size%d;g%d;l%d;%d", kind, size0, G, loops, seeds[0].a))
	if w.Index == 0 && idx == 0 {
		r.Sample(map[string]any{"kind": "free-running/" + kind, "initial_size": size0, "goroutines": G, "loops": loops, "grants": grants.Load(), "cancelled": cancels.Load()})
	}
}

func TestVerifC29(t *testing.T) {
	r := verifkit.Start(t, "C29", "semaphore")
	defer r.Finish()
	r.SetRule("stepped histories over the real Weighted (initial size 1-6, 25-64 steps drawn from Acquire(1..4, never above the size in force) / TryAcquire / Release / cancel (front preferred) / SetSize(0..6) / ForceAcquire(0..3) / Observe / a group of 2-4 concurrent calls; a step is issued only after the previous Acquire is linked into the waiter list or has returned and all signalled waiters returned) and free-running epochs (6-19 goroutines, weights 1-3, random cancellation, size kept / lowered once / raised / changed at random with ForceAcquire). Non-trivial stepped history = at least one grant to a queued waiter, one cancellation and one SetSize; non-trivial epoch = at least one cancelled Acquire and waiters seen by the sampler. Distinct = distinct sequence of step kinds and outcomes / distinct parameters and seed.")
	r.Assume("grants are observed when the waiter's goroutine returns; a step is judged only after every waiter whose ready channel was closed has returned (bounded wait, expiry => inconclusive)")
	r.NotJudged("acquire_larger_than_size_excluded_from_generator", 0)
	nStepped := r.N(2000, 50000)
	nFree := r.N(160, 2400)
	workers := 8
	c29ZeroWeightEdge(r)
	c29WaitEmptyEdge(r)
	r.Parallel(workers, "stepped", func(w *verifkit.Worker) {
		for i := 0; i < nStepped/workers; i++ {
			c29RunStepped(r, w, i)
		}
	})
	r.Parallel(4, "free", func(w *verifkit.Worker) {
		for i := 0; i < nFree/4; i++ {
			c29RunFree(r, w, i)
		}
	})
}
