//go:build verif

package fsbinlog

import (
	"fmt"
	"math/rand/v2"
	"os"
	"path/filepath"
	"runtime/debug"
	"sort"
	"time"
)

// c18Scratch makes a directory that shows the same log: chunks listed in private are real
// copies (they will be damaged), all others are symlinks.
func (c *c18Ctx) c18Scratch(lg *c18Log, st *c18Stream, private map[int]bool) string {
	d := c18MkTmp(c.r, fmt.Sprintf("c18-s%d-", lg.id))
	for i, f := range st.files {
		dst := filepath.Join(d, filepath.Base(f.Name))
		if private[i] {
			_ = os.WriteFile(dst, st.raw[f.Start:f.Start+f.Size], 0o644)
		} else {
			_ = os.Symlink(filepath.Join("..", f.Name), dst)
		}
	}
	return d
}

// events that must / may be delivered when the stream ends at global position g
func c18PrefixBounds(evs []c18Ev, g int64) (kmin, kmax int) {
	kmin = sort.Search(len(evs), func(i int) bool { return evs[i].pend() > g })
	kmax = sort.Search(len(evs), func(i int) bool { return evs[i].end() > g })
	return
}

func (c *c18Ctx) c18Truncations(lg *c18Log, st *c18Stream, rnd *rand.Rand) {
	r := c.r
	li := len(st.files) - 1
	last := st.files[li]
	first := li == 0
	hdr := int64(levRotateSize)
	if first {
		hdr = c18StartHdr
	}
	// cut list
	set := map[int64]bool{}
	add := func(x int64) {
		if x >= 0 && x <= last.Size {
			set[x] = true
		}
	}
	if r.Thorough() && last.Size <= 1500 {
		for x := int64(0); x <= last.Size; x++ {
			add(x)
		}
	} else {
		for x := int64(0); x <= 48; x++ {
			add(x)
		}
		var recs []c18Rec
		for _, rc := range st.recs {
			if rc.File == li {
				recs = append(recs, rc)
			}
		}
		nb := r.N(4, 30)
		for i := 0; i < nb && len(recs) > 0; i++ {
			rc := recs[rnd.IntN(len(recs))]
			if i == 0 {
				rc = recs[len(recs)-1]
			}
			for _, d := range []int64{-3, -1, 0, 1, 4, 7, 8, 9} {
				add(rc.Local + d)
			}
			add(rc.Local + rc.Size - 1)
			add(rc.Local + rc.Size - 2)
		}
		for i := 0; i < r.N(8, 150); i++ {
			add(rnd.Int64N(last.Size + 1))
		}
		add(last.Size)
	}
	cuts := make([]int64, 0, len(set))
	for x := range set {
		cuts = append(cuts, x)
	}
	sort.Slice(cuts, func(i, j int) bool { return cuts[i] > cuts[j] }) // descending: truncate in place
	d := c.c18Scratch(lg, st, map[int]bool{li: true})
	defer os.RemoveAll(d)
	lf := filepath.Join(d, filepath.Base(last.Name))
	var restartAt []int64
	for _, cut := range cuts {
		if err := os.Truncate(lf, cut); err != nil {
			r.Inconclusive("truncate: " + err.Error())
			return
		}
		g := last.Start + cut
		res := c18Replay(d, 0, nil)
		wit := map[string]any{"cut_local": cut, "cut_global": g, "last_chunk": filepath.Base(last.Name), "last_chunk_size": last.Size, "chunks": len(st.files)}
		c.w.Count("cut_offsets", 1)
		if cut < hdr {
			if res.Panic != "" {
				c.w.Case(true, fmt.Sprintf("cut/%d/%d", lg.id, cut))
				c.viol("C18/trunc/short-header-panic", fmt.Sprintf("a last chunk of %d bytes makes the reader panic: %s", cut, c18Lines(res.Panic, 1)),
					c.witness(lg, c18Merge(wit, map[string]any{"panic": res.Panic})))
				continue
			}
			if first {
				r.NotJudged("cut_in_start_header_of_first_chunk", 1)
				continue
			}
			// interrupted rotation: the new chunk exists but its ROTATE_FROM header is incomplete.
			// Everything in the earlier chunks is intact and must be replayed.
			kmin, _ := c18PrefixBounds(lg.appended, last.Start)
			c.w.Case(kmin > 0, fmt.Sprintf("cut/%d/%d", lg.id, cut))
			c.w.Count("cut.in_rotate_header", 1)
			switch {
			case res.Err != nil && c18ErrClass(res.Err) == "scan_failed":
				c.viol("C18/trunc/rotate-header", fmt.Sprintf("last chunk cut inside its 36-byte ROTATE_FROM header: the directory scan fails and nothing is replayed although %d events lie in intact earlier chunks (%s)", kmin, c18Trim(res.Err.Error(), d)),
					c.witness(lg, wit))
			case res.Err != nil:
				c.viol("C18/trunc/rotate-header-"+c18ErrClass(res.Err), "last chunk cut inside its ROTATE_FROM header: replay fails: "+c18Trim(res.Err.Error(), d), c.witness(lg, wit))
			case !c18SameEvs(res.Eng.evs, lg.appended[:kmin]):
				c.viol("C18/trunc/rotate-header-differs", "last chunk cut inside its ROTATE_FROM header: replay is not the content of the earlier chunks: "+c18Diff(res.Eng.evs, lg.appended[:kmin]), c.witness(lg, wit))
			}
			continue
		}
		kmin, kmax := c18PrefixBounds(lg.appended, g)
		c.w.Case(kmin > 0 && kmin < len(lg.appended), fmt.Sprintf("cut/%d/%d", lg.id, cut))
		c.w.Count("cut.judged", 1)
		switch {
		case res.Panic != "":
			c.viol("C18/trunc/panic", "replay of a truncated log panicked: "+res.Panic, c.witness(lg, wit))
		case res.Err != nil:
			c.viol("C18/trunc/error-"+c18ErrClass(res.Err), "replay of a log whose last chunk is cut behind its header failed instead of stopping at the last complete event: "+c18Trim(res.Err.Error(), d), c.witness(lg, wit))
		case len(res.Eng.evs) < kmin || len(res.Eng.evs) > kmax || !c18SameEvs(res.Eng.evs, lg.appended[:len(res.Eng.evs)]):
			c.viol("C18/trunc/not-last-complete-event", fmt.Sprintf("replay of a truncated log delivered %d events, complete events before the cut: %d..%d: %s", len(res.Eng.evs), kmin, kmax, c18Diff(res.Eng.evs, lg.appended[:min(kmax, len(lg.appended))])), c.witness(lg, wit))
		default:
			if res.Eng.partial > 0 {
				c.w.Count("cut.partial_event_offered_and_refused", 1)
			}
			if len(restartAt) < c.r.N(2, 6) && (rnd.IntN(8) == 0 || cut == last.Size) {
				restartAt = append(restartAt, cut)
			}
		}
	}
	for _, cut := range restartAt {
		c.c18RestartAfterCut(lg, st, cut, rnd)
	}
}

func c18Merge(a, b map[string]any) map[string]any {
	for k, v := range b {
		a[k] = v
	}
	return a
}

func c18Trim(s, dir string) string {
	out := ""
	for i := 0; i < len(s); {
		if len(s)-i >= len(dir) && s[i:i+len(dir)] == dir {
			out += "<dir>"
			i += len(dir)
			continue
		}
		out += s[i : i+1]
		i++
	}
	return out
}

// c18RestartAfterCut: a writer started on a truncated log either refuses (fail-safe, counted)
// or continues such that a later replay is prefix + what it appended.
func (c *c18Ctx) c18RestartAfterCut(lg *c18Log, st *c18Stream, cut int64, rnd *rand.Rand) {
	li := len(st.files) - 1
	last := st.files[li]
	d := c.c18Scratch(lg, st, map[int]bool{li: true})
	defer os.RemoveAll(d)
	if err := os.Truncate(filepath.Join(d, filepath.Base(last.Name)), cut); err != nil {
		return
	}
	g := last.Start + cut
	kmin, _ := c18PrefixBounds(lg.appended, g)
	bl, _ := NewFsBinlog(nil, c18Opt(d, lg.chunk, 0))
	e := c18NewEng(0)
	done := make(chan error, 1)
	go func() {
		defer func() {
			if p := recover(); p != nil {
				done <- fmt.Errorf("PANIC %v\n%s", p, c18Lines(string(debug.Stack()), 24))
			}
		}()
		done <- bl.Run(0, nil, nil, e)
	}()
	wit := map[string]any{"cut_local": cut, "cut_global": g, "last_chunk_size": last.Size}
	select {
	case err := <-done:
		cl := c18ErrClass(err)
		if cl == "torn_tail_refused" {
			c.w.Count("restart_refused_torn_tail", 1)
			return
		}
		if cl == "panic" {
			c.viol("C18/trunc/writer-restart-panic", "writer restart on a truncated log panicked: "+err.Error(), c.witness(lg, wit))
			return
		}
		c.w.Count("restart_refused_"+cl, 1)
		return
	case <-e.ready:
	}
	_, _, cur := e.snapshot()
	var added []c18Ev
	var lastOff int64 = cur
	for i := 0; i < 3; i++ {
		body := c18Body(rnd, fmt.Sprintf("L%d.R%d.%d:", lg.id, cut, i), rnd.IntN(200))
		nx, err := bl.AppendASAP(cur, c18Ser(body))
		if err != nil {
			c.viol("C18/trunc/append-after-restart", "append after a restart on a truncated log failed: "+err.Error(), c.witness(lg, wit))
			break
		}
		added = append(added, c18Ev{cur, body})
		cur, lastOff = nx, nx
	}
	dl := time.Now().Add(c18WaitCommit)
	for e.lastCommit() < lastOff && time.Now().Before(dl) {
		time.Sleep(200 * time.Microsecond)
	}
	bl.RequestShutdown()
	<-done
	res := c18Replay(d, 0, nil)
	want := append(append([]c18Ev(nil), lg.appended[:len(e.evs)]...), added...)
	c.w.Case(kmin > 0, fmt.Sprintf("restart/%d/%d", lg.id, cut))
	c.w.Count("restart_after_cut.continued", 1)
	if res.Err != nil || len(e.evs) < kmin || !c18SameEvs(res.Eng.evs, want) {
		msg := "nil"
		if res.Err != nil {
			msg = c18Trim(res.Err.Error(), d)
		}
		c.viol("C18/trunc/restart-then-replay", fmt.Sprintf("a writer restarted on a truncated log and appended; the later replay (err %s) is not prefix+new: %s", msg, c18Diff(res.Eng.evs, want)), c.witness(lg, wit))
	}
}

// c18ConstructedRotation builds the on-disk state of a kill between "new chunk created,
// ROTATE_FROM written and synced" and "ROTATE_TO appended to the old chunk" (DESIGN 7-p).
func (c *c18Ctx) c18ConstructedRotation(lg *c18Log, st *c18Stream) {
	if len(st.files) < 2 {
		return
	}
	li := len(st.files) - 1
	d := c.c18Scratch(lg, st, map[int]bool{li: true, li - 1: true})
	defer os.RemoveAll(d)
	prev, last := st.files[li-1], st.files[li]
	if err := os.Truncate(filepath.Join(d, filepath.Base(prev.Name)), prev.Size-levRotateSize); err != nil {
		return
	}
	if err := os.Truncate(filepath.Join(d, filepath.Base(last.Name)), levRotateSize); err != nil {
		return
	}
	g := prev.Start + prev.Size - levRotateSize
	kmin, _ := c18PrefixBounds(lg.appended, g)
	res := c18Replay(d, 0, nil)
	c.w.Case(kmin > 0, fmt.Sprintf("rotcut/%d", lg.id))
	c.w.Count("constructed_interrupted_rotation", 1)
	wit := map[string]any{"state": "old chunk without its ROTATE_TO, new chunk = 36-byte ROTATE_FROM", "old_chunk": filepath.Base(prev.Name), "new_chunk": filepath.Base(last.Name), "produced_by": "constructed files"}
	c.c18JudgeInterruptedRotation(lg.appended, kmin, res, d, c.witness(lg, wit))
}

// shared by the constructed state and by the real kills at the rotate hooks
func (c *c18Ctx) c18JudgeInterruptedRotation(appended []c18Ev, kmin int, res c18ReplayRes, dir string, wit map[string]any) bool {
	switch {
	case res.Panic != "":
		c.viol("C18/crash/rotate-panic", "replay of an interrupted rotation panicked: "+res.Panic, wit)
	case res.Err != nil && c18ErrClass(res.Err) == "skip_position":
		c.viol("C18/crash/rotate-before-rotate-to", fmt.Sprintf("state of a kill between 'new chunk synced' and 'ROTATE_TO written' cannot be replayed (%s); %d events of the old chunks are lost to the reader", c18Trim(res.Err.Error(), dir), kmin), wit)
	case res.Err != nil:
		c.viol("C18/crash/rotate-before-rotate-to-"+c18ErrClass(res.Err), "state of an interrupted rotation cannot be replayed: "+c18Trim(res.Err.Error(), dir), wit)
	case len(res.Eng.evs) < kmin || len(res.Eng.evs) > len(appended) || !c18SameEvs(res.Eng.evs, appended[:len(res.Eng.evs)]):
		c.viol("C18/crash/rotate-differs", "replay of an interrupted rotation is not the written prefix: "+c18Diff(res.Eng.evs, appended[:min(kmin, len(appended))]), wit)
	default:
		return true
	}
	return false
}

func (c *c18Ctx) c18Flips(lg *c18Log, st *c18Stream, rnd *rand.Rand) {
	r := c.r
	var cand []int
	for i, f := range st.files {
		if len(f.Crcs) > 0 {
			cand = append(cand, i)
		}
	}
	n := r.N(6, 40)
	if len(cand) > 0 {
		for k := 0; k < n; k++ {
			fi := cand[rnd.IntN(len(cand))]
			f := st.files[fi]
			lastCrc := f.Crcs[len(f.Crcs)-1]
			var p int64
			switch rnd.IntN(10) {
			case 0, 1:
				p = rnd.Int64N(min(lastCrc, 44))
			case 2, 3:
				// header bytes of a record before the last CRC record
				var recs []c18Rec
				for _, rc := range st.recs {
					if rc.File == fi && rc.Local < lastCrc {
						recs = append(recs, rc)
					}
				}
				rc := recs[rnd.IntN(len(recs))]
				p = rc.Local + rnd.Int64N(min(8, rc.Size))
			case 4:
				// inside a CRC record that is followed by another one
				if len(f.Crcs) > 1 {
					p = f.Crcs[rnd.IntN(len(f.Crcs)-1)] + rnd.Int64N(levCrcSize)
				} else {
					p = rnd.Int64N(lastCrc)
				}
			case 5:
				cr := f.Crcs[rnd.IntN(len(f.Crcs))]
				p = cr - 1 - rnd.Int64N(min(cr, 64))
			default:
				p = rnd.Int64N(lastCrc)
			}
			c.c18OneFlip(lg, st, fi, p, uint(rnd.IntN(8)), true)
		}
	}
	// not judged: bytes behind the last CRC record of a chunk that is followed by another chunk
	// (the reader restarts its running crc from the next chunk's header, so no later record
	// covers them); the outcome is counted for the record.
	if len(st.files) > 1 {
		fi := rnd.IntN(len(st.files) - 1)
		f := st.files[fi]
		lo := int64(0)
		if len(f.Crcs) > 0 {
			lo = f.Crcs[len(f.Crcs)-1] + levCrcSize
		}
		if f.Size-levRotateSize > lo {
			p := lo + rnd.Int64N(f.Size-levRotateSize-lo)
			c.c18OneFlip(lg, st, fi, p, uint(rnd.IntN(8)), false)
		}
	}
}

func (c *c18Ctx) c18OneFlip(lg *c18Log, st *c18Stream, fi int, p int64, bit uint, judged bool) {
	f := st.files[fi]
	d := c.c18Scratch(lg, st, map[int]bool{fi: true})
	defer os.RemoveAll(d)
	b := append([]byte(nil), st.raw[f.Start:f.Start+f.Size]...)
	b[p] ^= 1 << bit
	if err := os.WriteFile(filepath.Join(d, filepath.Base(f.Name)), b, 0o644); err != nil {
		return
	}
	res := c18Replay(d, 0, nil)
	cl := c18ErrClass(res.Err)
	if !judged {
		c.r.NotJudged("flip_behind_last_crc_record_of_chunk", 1)
		if res.Err == nil && c18SameEvs(res.Eng.evs, lg.appended) {
			c.w.Count("flip_unjudged.silent_same_events", 1)
		} else if res.Err == nil {
			c.w.Count("flip_unjudged.silent_different_events", 1)
		} else {
			c.w.Count("flip_unjudged.err_"+cl, 1)
		}
		return
	}
	// covering CRC record: the first one that starts behind p
	ci := sort.Search(len(f.Crcs), func(i int) bool { return f.Crcs[i] > p })
	cPos := f.Start + f.Crcs[ci]
	g := f.Start + p
	kmin, _ := c18PrefixBounds(lg.appended, g)
	c.w.Case(kmin > 0, fmt.Sprintf("flip/%d/%d/%d/%d", lg.id, fi, p, bit))
	c.w.Count("flips", 1)
	wit := map[string]any{"chunk": filepath.Base(f.Name), "flip_local": p, "flip_global": g, "bit": bit, "covering_crc_record_at": cPos}
	switch {
	case res.Panic != "":
		c.viol("C18/flip/panic", "replay of a log with one flipped bit panicked: "+res.Panic, c.witness(lg, wit))
	case res.Eng.skippedAt(cPos, levCrcSize):
		// the reader handed the covering record to Engine.Skip: its checksum comparison passed (or is gone)
		c.viol("C18/flip/undetected", fmt.Sprintf("a flipped bit at %d is covered by the CRC record at %d; the reader accepted that record (replay result: %s)", g, cPos, cl), c.witness(lg, wit))
	case res.Err == nil:
		// the replay stalled before the record (the damage made an event look incomplete): the
		// record was never reached, the statement demands nothing more
		c.w.Count("flip.ended_before_crc_record", 1)
	default:
		c.w.Count("flip.err_"+cl, 1)
	}
}
