//go:build verif

package fsbinlog

// C18 — fsbinlog replays exactly what was appended, across rotation and damage.
//
// Parts (all against real files, real writer/reader code):
//   A  in-process logs: random payload sequences, chunk sizes forcing 0..n rotations,
//      Append/AppendASAP, several writer sessions resuming from committed positions;
//      oracles: live commit callbacks, independent stream decoder, full replay, resume
//      from committed (offset, meta), truncation of the last chunk, bit flips before a
//      CRC record, the constructed interrupted-rotation state;
//   B  crash children: the test binary re-executes itself as a writer that is SIGKILLed at
//      the verifhook points (VERIF_CRASH) or at random instants; the parent judges the files;
//   C  the fsync clause on real syscalls: a child is run under strace, its Commit callback
//      emits a marker write, the trace must show the fsync covering every committed offset.
//
// split: zz_verif_c18_parse_test.go (independent decoder), zz_verif_c18_fault_test.go
// (truncation / flips / constructed rotation), zz_verif_c18_crash_test.go (children, strace).

import (
	"encoding/binary"
	"fmt"
	"hash/crc32"
	"math/rand/v2"
	"os"
	"path/filepath"
	"runtime/debug"
	"sort"
	"strconv"
	"strings"
	"sync"
	"testing"
	"time"

	"github.com/VKCOM/statshouse/internal/vkgo/binlog"
	"github.com/VKCOM/statshouse/internal/vkgo/binlog/fsbinlog/internal/gen/tlfsbinlog"
	"github.com/VKCOM/statshouse/internal/zzverif/verifkit"
)

const (
	c18Magic      = uint32(0x7e57c0de)
	c18Prefix     = "bl"
	c18StartHdr   = 44 // LevStart (24) + levTag (20) written by CreateEmptyFsBinlog
	c18WaitCommit = 120 * time.Second
)

type c18Ev struct {
	Off  int64
	Body string
}

func (e c18Ev) padded() int64 { return int64(AddPadding(8 + len(e.Body))) }
func (e c18Ev) end() int64    { return e.Off + 8 + int64(len(e.Body)) } // end without padding
func (e c18Ev) pend() int64   { return e.Off + e.padded() }

type c18Commit struct {
	Off  int64
	Meta []byte
}

type c18Span struct{ Off, Len int64 }

// c18Eng is the monitoring binlog.Engine: it records every callback.
type c18Eng struct {
	mu         sync.Mutex
	off        int64
	evs        []c18Ev
	skips      []c18Span
	commits    []c18Commit
	partial    int // Apply calls answered with ErrorNotEnoughData
	unknown    int // Apply calls answered with ErrorUnknownMagic
	ready      chan struct{}
	once       sync.Once
	isReady    bool
	readyAt    int // number of commits seen when the writer became ready
	afterReady int // Apply/Skip calls after the writer became ready (must stay 0)
	onCommit   func(off int64)
	onNotReady func() // ChangeRole(IsReady=false): the reader of a master-change open reached EOF
}

func c18NewEng(off int64) *c18Eng { return &c18Eng{off: off, ready: make(chan struct{})} }

func (e *c18Eng) Apply(p []byte) (int64, error) {
	e.mu.Lock()
	defer e.mu.Unlock()
	if e.isReady {
		e.afterReady++
	}
	if len(p) < 4 {
		e.partial++
		return e.off, binlog.ErrorNotEnoughData
	}
	if binary.LittleEndian.Uint32(p) != c18Magic {
		e.unknown++
		return e.off, binlog.ErrorUnknownMagic
	}
	if len(p) < 8 {
		e.partial++
		return e.off, binlog.ErrorNotEnoughData
	}
	n := int(binary.LittleEndian.Uint32(p[4:]))
	if n < 0 || len(p) < 8+n {
		e.partial++
		return e.off, binlog.ErrorNotEnoughData
	}
	e.evs = append(e.evs, c18Ev{e.off, string(p[8 : 8+n])})
	e.off += int64(AddPadding(8 + n))
	return e.off, nil
}

func (e *c18Eng) Skip(n int64) (int64, error) {
	e.mu.Lock()
	defer e.mu.Unlock()
	if e.isReady {
		e.afterReady++
	}
	e.skips = append(e.skips, c18Span{e.off, n})
	e.off += n
	return e.off, nil
}

func (e *c18Eng) Commit(off int64, meta []byte, safe int64) error {
	e.mu.Lock()
	e.commits = append(e.commits, c18Commit{off, append([]byte(nil), meta...)})
	f := e.onCommit
	e.mu.Unlock()
	if f != nil {
		f(off)
	}
	return nil
}

func (e *c18Eng) Revert(int64) (bool, error) { return false, nil }
func (e *c18Eng) ChangeRole(i binlog.ChangeRoleInfo) error {
	if !i.IsReady && e.onNotReady != nil {
		e.onNotReady()
	}
	if i.IsReady {
		e.mu.Lock()
		if !e.isReady {
			e.readyAt = len(e.commits)
		}
		e.isReady = true
		e.mu.Unlock()
		e.once.Do(func() { close(e.ready) })
	}
	return nil
}
func (e *c18Eng) StartReindex(binlog.ReindexOperator) {}
func (e *c18Eng) Split(int64, string) bool            { return false }
func (e *c18Eng) Shutdown()                           {}

func (e *c18Eng) lastCommit() int64 {
	e.mu.Lock()
	defer e.mu.Unlock()
	if len(e.commits) == 0 {
		return -1
	}
	return e.commits[len(e.commits)-1].Off
}

func (e *c18Eng) snapshot() (evs []c18Ev, commits []c18Commit, off int64) {
	e.mu.Lock()
	defer e.mu.Unlock()
	return append([]c18Ev(nil), e.evs...), append([]c18Commit(nil), e.commits...), e.off
}

func (e *c18Eng) skippedAt(off, n int64) bool {
	e.mu.Lock()
	defer e.mu.Unlock()
	for _, s := range e.skips {
		if s.Off == off && s.Len == n {
			return true
		}
	}
	return false
}

// c18SafeAppend calls Append/AppendASAP and turns a panic of the code under test into a value.
func c18SafeAppend(bl BinlogReadWrite, off int64, payload []byte, asap bool) (next int64, err error, pan string) {
	defer func() {
		if p := recover(); p != nil {
			pan = fmt.Sprintf("%v\n%s", p, c18Lines(string(debug.Stack()), 30))
		}
	}()
	if asap {
		next, err = bl.AppendASAP(off, payload)
	} else {
		next, err = bl.Append(off, payload)
	}
	return
}

func c18Ser(s string) []byte {
	out := make([]byte, 8, 8+len(s))
	binary.LittleEndian.PutUint32(out, c18Magic)
	binary.LittleEndian.PutUint32(out[4:], uint32(len(s)))
	return append(out, s...)
}

// c18Body makes the i-th payload of a log: a recognisable tag followed by pseudo-random filler.
func c18Body(rnd *rand.Rand, tag string, sz int) string {
	var sb strings.Builder
	sb.Grow(len(tag) + sz)
	sb.WriteString(tag)
	x := rnd.Uint64() | 1
	for sb.Len() < len(tag)+sz {
		x ^= x << 13
		x ^= x >> 7
		x ^= x << 17
		sb.WriteByte(byte(x >> 24))
	}
	return sb.String()[:len(tag)+sz]
}

func c18Opt(dir string, chunk uint32, delay time.Duration) Options {
	d := delay
	return Options{PrefixPath: filepath.Join(dir, c18Prefix), Magic: c18Magic, MaxChunkSize: chunk, WriteCallDelay: &d}
}

type c18ReplayRes struct {
	Eng   *c18Eng
	Err   error
	Panic string // non-empty when the reader panicked
}

// c18Replay runs a ReadAndExit reader from (off, meta) and returns what the engine saw.
func c18Replay(dir string, off int64, meta []byte) (res c18ReplayRes) {
	e := c18NewEng(off)
	res.Eng = e
	defer func() {
		if p := recover(); p != nil {
			res.Panic = fmt.Sprintf("%v\n%s", p, c18Lines(string(debug.Stack()), 24))
			res.Err = fmt.Errorf("PANIC %v", p)
		}
	}()
	zero := time.Duration(0)
	bl, _ := NewFsBinlog(nil, Options{PrefixPath: filepath.Join(dir, c18Prefix), Magic: c18Magic, ReadAndExit: true, WriteCallDelay: &zero})
	res.Err = bl.Run(off, meta, nil, e)
	return res
}

func c18Lines(s string, n int) string {
	l := strings.SplitN(s, "\n", n+1)
	if len(l) > n {
		l = l[:n]
	}
	return strings.Join(l, "\n")
}

func c18SameEvs(a, b []c18Ev) bool {
	if len(a) != len(b) {
		return false
	}
	for i := range a {
		if a[i] != b[i] {
			return false
		}
	}
	return true
}

// c18Diff describes the first difference of two event lists without dumping payloads.
func c18Diff(got, want []c18Ev) string {
	n := min(len(got), len(want))
	for i := 0; i < n; i++ {
		if got[i] != want[i] {
			return fmt.Sprintf("first difference at event %d: got off=%d len=%d %q…, want off=%d len=%d %q… (got %d events, want %d)",
				i, got[i].Off, len(got[i].Body), c18Head(got[i].Body), want[i].Off, len(want[i].Body), c18Head(want[i].Body), len(got), len(want))
		}
	}
	return fmt.Sprintf("got %d events, want %d (common prefix equal)", len(got), len(want))
}

func c18Head(s string) string {
	if i := strings.IndexByte(s, ':'); i >= 0 && i < 40 {
		return s[:i+1]
	}
	if len(s) > 16 {
		return s[:16]
	}
	return s
}

func c18ErrClass(err error) string {
	if err == nil {
		return "nil"
	}
	s := err.Error()
	switch {
	case strings.HasPrefix(s, "PANIC"):
		return "panic"
	case strings.Contains(s, "crc32 mismatch"):
		return "crc32_mismatch"
	case strings.Contains(s, "expected crc="):
		return "seek_crc_mismatch"
	case strings.Contains(s, "unknown magic"):
		return "unknown_magic"
	case strings.Contains(s, "failed to scan directory"):
		return "scan_failed"
	case strings.Contains(s, "Engine.Skip return new position"):
		return "skip_position"
	case strings.Contains(s, "not equal file size"):
		return "torn_tail_refused"
	case strings.Contains(s, "unexpected magic"):
		return "unexpected_magic"
	case strings.Contains(s, "cannot seek"):
		return "cannot_seek"
	}
	f := strings.Fields(s)
	if len(f) > 3 {
		f = f[:3]
	}
	return "other:" + strings.Join(f, "_")
}

// c18Files lists the chunk files of a log ordered by the position encoded in their header
// (falls back to name order for files whose header is unreadable).
func c18Files(dir string) []string {
	fs, _ := filepath.Glob(filepath.Join(dir, c18Prefix+".*.bin"))
	sort.Strings(fs)
	return fs
}

func c18CopyDir(src, dst string) error {
	if err := os.MkdirAll(dst, 0o755); err != nil {
		return err
	}
	ents, err := os.ReadDir(src)
	if err != nil {
		return err
	}
	for _, en := range ents {
		b, err := os.ReadFile(filepath.Join(src, en.Name()))
		if err != nil {
			return err
		}
		if err := os.WriteFile(filepath.Join(dst, en.Name()), b, 0o644); err != nil {
			return err
		}
	}
	return nil
}

func c18Chmod(dir string) {
	for _, f := range c18Files(dir) {
		_ = os.Chmod(f, 0o644)
	}
}

// ---------------------------------------------------------------------------------------------
// part A: one generated log

type c18Log struct {
	id       int
	dir      string
	chunk    uint32
	appended []c18Ev
	commits  []c18Commit // distinct committed (offset, meta) seen by the writer sessions
	sessions int
	asap     int
}

type c18Ctx struct {
	r *verifkit.Run
	w *verifkit.Worker
}

func (c *c18Ctx) viol(key, what string, wit map[string]any) { c.r.Violation(key, what, wit) }

// c18MkTmp: scratch directory under r.MkTmp, returned as a path relative to the working
// directory (which TestVerifC18 sets to the scratch root).  generateNextBinlogFilename splits the
// whole prefix path at '.', so a rotation panics when any directory on the path has a dot in
// its name (".build"); relative names avoid that environment artefact.
func c18MkTmp(r *verifkit.Run, pfx string) string {
	return filepath.Base(r.MkTmp(pfx))
}

// c18Session opens a writer on the log resuming at (off, meta), checks what the re-read
// delivered, appends n events and shuts down.  Returns false when the session could not run.
func (c *c18Ctx) c18Session(lg *c18Log, rnd *rand.Rand, s int, startOff int64, startMeta []byte, sizes []int, delay time.Duration) bool {
	n := len(sizes)
	r := c.r
	opt := c18Opt(lg.dir, lg.chunk, delay)
	variant := rnd.IntN(12) // 0: tiny HardMemLimit (back pressure), 1: master-change open, 2: last append left to the flush timer, 3: shutdown with unflushed data
	if variant == 0 {
		opt.HardMemLimit = 512 + rnd.IntN(8192)
		c.w.Count("sessions.back_pressure", 1)
	}
	var bl BinlogReadWrite
	e := c18NewEng(startOff)
	if variant == 1 {
		var pidCh chan struct{}
		bl, pidCh, _ = NewFsBinlogMasterChange(nil, opt)
		e.onNotReady = func() {
			select {
			case pidCh <- struct{}{}:
			default:
			}
		}
		c.w.Count("sessions.master_change_open", 1)
	} else {
		bl, _ = NewFsBinlog(nil, opt)
	}
	var rep *c18Replica
	if rnd.IntN(5) == 0 && len(lg.appended) > 0 {
		rep = c18StartReplica(lg.dir)
		c.w.Count("sessions.with_concurrent_replica", 1)
	}
	appendPanicked := false
	defer func() {
		if rep != nil && appendPanicked {
			// the state behind a panicking Append is undefined (the payload may or may not have
			// reached the buffer): only stop the replica
			rep.bl.RequestShutdown()
			<-rep.done
		} else if rep != nil {
			c.c18FinishReplica(lg, rep)
		}
	}()
	done := make(chan error, 1)
	go func() {
		defer func() {
			if p := recover(); p != nil {
				done <- fmt.Errorf("PANIC %v\n%s", p, c18Lines(string(debug.Stack()), 24))
			}
		}()
		done <- bl.Run(startOff, startMeta, nil, e)
	}()
	select {
	case <-e.ready:
	case err := <-done:
		c.viol("C18/writer/"+c18ErrClass(err), "a writer session on a cleanly shut down log did not start: "+err.Error(),
			map[string]any{"log": lg.id, "chunk": lg.chunk, "session": s, "start_off": startOff, "files": c18FileSizes(lg.dir)})
		return false
	}
	// the re-read must have delivered exactly the suffix behind startOff
	idx := sort.Search(len(lg.appended), func(i int) bool { return lg.appended[i].Off >= startOff })
	got, _, cur := e.snapshot()
	c.w.Case(idx < len(lg.appended), fmt.Sprintf("reopen/%d/%d/%d", lg.id, s, startOff))
	c.w.Count("reopen.sessions", 1)
	if !c18SameEvs(got, lg.appended[idx:]) {
		c.viol("C18/resume/writer-reopen-suffix", "a writer reopened at a committed position re-read something else than the appended suffix: "+c18Diff(got, lg.appended[idx:]),
			map[string]any{"log": lg.id, "chunk": lg.chunk, "session": s, "start_off": startOff, "files": c18FileSizes(lg.dir)})
	}
	var last int64 = cur
	sessStart := cur
	nx := map[int64]bool{cur: true}
	for i := 0; i < n; i++ {
		sz := sizes[i]
		body := c18Body(rnd, fmt.Sprintf("L%d.S%d.%d:", lg.id, s, i), sz)
		if rnd.IntN(12) == 0 {
			// hostile caller: wrong offset must be refused and leave no trace
			bad := cur + int64(4*(1+rnd.IntN(5)))
			if rnd.IntN(2) == 0 && cur >= 4 {
				bad = cur - 4
			}
			if _, err := bl.Append(bad, c18Ser("BAD"+body)); err == nil {
				c.viol("C18/append/wrong-offset-accepted", "Append with an offset different from the current end was accepted",
					map[string]any{"log": lg.id, "cur": cur, "given": bad})
			}
			c.w.Count("append.wrong_offset_refused", 1)
		}
		asap := rnd.IntN(4) == 0 || (i == n-1 && variant != 2 && variant != 3)
		var next int64
		var err error
		if asap {
			lg.asap++
		}
		var pan string
		next, err, pan = c18SafeAppend(bl, cur, c18Ser(body), asap)
		if pan != "" {
			// Append runs in the caller's goroutine: a panic here takes the engine process down
			key := "C18/append/panic"
			if strings.Contains(pan, "putLevToBuffer") && strings.Contains(pan, "slice bounds out of range") {
				key = "C18/rotate/first-chunk-hash-panic"
			}
			c.viol(key, fmt.Sprintf("Append panicked (writer session %d started at offset %d in the first chunk, MaxChunkSize %d, append at %d): %s", s, sessStart, lg.chunk, cur, c18Lines(pan, 1)),
				c.witness(lg, map[string]any{"session": s, "session_start_off": sessStart, "append_at": cur, "payload_len": len(body), "panic": pan}))
			appendPanicked = true
			bl.RequestShutdown()
			<-done
			return false
		}
		if err != nil {
			c.viol("C18/append/error", "Append failed on a healthy writer: "+err.Error(), map[string]any{"log": lg.id, "cur": cur})
			break
		}
		ev := c18Ev{cur, body}
		if extra := next - ev.pend(); extra < 0 || (extra != 0 && extra != levCrcSize && extra != 2*levRotateSize && extra != levCrcSize+2*levRotateSize) {
			c.viol("C18/append/offset-arith", fmt.Sprintf("Append returned next offset %d for an event at %d of padded size %d (service bytes %d: not 0, crc, rotate or both)", next, cur, ev.padded(), extra),
				map[string]any{"log": lg.id, "cur": cur, "next": next})
		}
		lg.appended = append(lg.appended, ev)
		cur = next
		last = next
		nx[next] = true
		c.w.Count("events.append", 1)
		if rnd.IntN(10) == 0 {
			time.Sleep(time.Duration(rnd.IntN(1500)) * time.Microsecond)
		}
	}
	dl := time.Now().Add(c18WaitCommit)
	var early error
	ended := false
	if variant == 3 {
		// stop request while appended data may still sit in the buffer: the loop has to write,
		// fsync and commit it before Run returns
		c.w.Count("sessions.shutdown_with_unflushed_data", 1)
		bl.RequestShutdown()
		early = <-done
		if early != nil || e.lastCommit() < last {
			c.viol("C18/writer/shutdown-loses-tail", fmt.Sprintf("shutdown right after Append: Run returned %v, last commit %d, last appended byte %d", early, e.lastCommit(), last),
				map[string]any{"log": lg.id, "chunk": lg.chunk, "session": s})
			return false
		}
		done <- nil
	}
	for e.lastCommit() < last && time.Now().Before(dl) && !ended {
		select {
		case early = <-done:
			ended = true
		default:
			time.Sleep(200 * time.Microsecond)
		}
	}
	if ended {
		c.viol("C18/writer/loop-ended-"+c18ErrClass(early), fmt.Sprintf("the writer loop ended by itself while appends were pending: %v", early),
			map[string]any{"log": lg.id, "chunk": lg.chunk, "session": s, "files": c18FileSizes(lg.dir)})
		return false
	}
	if e.lastCommit() < last {
		r.Inconclusive(fmt.Sprintf("log %d: no commit reached %d within %v (have %d)", lg.id, last, c18WaitCommit, e.lastCommit()))
		bl.RequestShutdown()
		<-done
		return false
	}
	bl.RequestShutdown()
	if err := <-done; err != nil {
		c.viol("C18/writer/run-error", "writer loop ended with an error after a clean shutdown request: "+err.Error(), map[string]any{"log": lg.id})
		return false
	}
	// live commit oracle: monotone, at positions the writer returned, never beyond the end
	_, commits, _ := e.snapshot()
	prev := int64(-1)
	seen := map[int64]bool{}
	for _, cm := range lg.commits {
		seen[cm.Off] = true
	}
	e.mu.Lock()
	readyAt := e.readyAt
	e.mu.Unlock()
	for ci, cm := range commits {
		c.w.Count("events.commit", 1)
		if cm.Off < prev {
			c.viol("C18/commit/not-monotone", fmt.Sprintf("commit offset %d after %d", cm.Off, prev), map[string]any{"log": lg.id, "session": s})
		}
		prev = cm.Off
		if cm.Off > last {
			c.viol("C18/commit/beyond-end", fmt.Sprintf("commit offset %d beyond the last appended byte %d", cm.Off, last), map[string]any{"log": lg.id, "session": s})
		}
		if ci < readyAt {
			c.w.Count("events.commit_while_reading", 1)
		} else if !nx[cm.Off] {
			c.viol("C18/commit/not-at-boundary", fmt.Sprintf("commit offset %d is not a position returned by Append (session started at %d)", cm.Off, sessStart),
				map[string]any{"log": lg.id, "session": s})
		}
		if !seen[cm.Off] {
			seen[cm.Off] = true
			lg.commits = append(lg.commits, cm)
		}
	}
	if ar := func() int { e.mu.Lock(); defer e.mu.Unlock(); return e.afterReady }(); ar != 0 {
		c.viol("C18/writer/apply-after-ready", fmt.Sprintf("%d Apply/Skip callbacks after the writer became ready", ar), map[string]any{"log": lg.id})
	}
	lg.sessions++
	return true
}

func c18FileSizes(dir string) []string {
	var out []string
	for _, f := range c18Files(dir) {
		st, err := os.Stat(f)
		if err == nil {
			out = append(out, fmt.Sprintf("%s:%d", filepath.Base(f), st.Size()))
		}
	}
	return out
}

func c18PlanSizes(rnd *rand.Rand, n int) []int {
	out := make([]int, n)
	for i := range out {
		sz := rnd.IntN(300)
		switch rnd.IntN(16) {
		case 0:
			sz = 60000 + rnd.IntN(90000)
		case 1:
			sz = 0
		case 2:
			sz = 3000 + rnd.IntN(9000)
		}
		out[i] = sz
	}
	return out
}

// c18PickChunk chooses MaxChunkSize such that the planned payload volume produces about
// 0..20 rotations (every chunk end costs the reader an fsync, so the count is bounded).
func c18PickChunk(rnd *rand.Rand, total int64) uint32 {
	rot := []int64{0, 0, 1, 1, 2, 3, 4, 6, 8, 12, 20}[rnd.IntN(11)]
	if rot == 0 {
		return 0 // default 1 GiB: no rotation
	}
	return uint32(max(200, min(total/(rot+1), 1<<30)))
}

// c18OneLog generates one log and runs every file-level oracle on it.
func (c *c18Ctx) c18OneLog(id int, rnd *rand.Rand) {
	r := c.r
	dir := c18MkTmp(r, fmt.Sprintf("c18-l%d-", id))
	defer os.RemoveAll(dir)
	sessions := 1 + rnd.IntN(3)
	plan := make([][]int, sessions)
	var total int64
	for s := range plan {
		plan[s] = c18PlanSizes(rnd, 3+rnd.IntN(50))
		for _, sz := range plan[s] {
			total += int64(AddPadding(8 + 12 + sz))
		}
	}
	lg := &c18Log{id: id, dir: dir, chunk: c18PickChunk(rnd, total)}
	delay := time.Duration(0)
	if rnd.IntN(4) == 0 {
		delay = time.Duration(100+rnd.IntN(900)) * time.Microsecond
	}
	if _, err := CreateEmptyFsBinlog(c18Opt(dir, lg.chunk, delay)); err != nil {
		r.Inconclusive("CreateEmptyFsBinlog: " + err.Error())
		return
	}
	startOff, startMeta := int64(0), []byte(nil)
	for s := 0; s < sessions; s++ {
		if !c.c18Session(lg, rnd, s, startOff, startMeta, plan[s], delay) {
			return
		}
		// next session resumes from a committed position: mostly the last one (with its
		// meta), sometimes an earlier one, sometimes from scratch
		switch k := rnd.IntN(6); {
		case k == 0:
			startOff, startMeta = 0, nil
		case k == 1 && len(lg.commits) > 1:
			cm := lg.commits[rnd.IntN(len(lg.commits))]
			startOff, startMeta = cm.Off, cm.Meta
		default:
			cm := lg.commits[len(lg.commits)-1]
			startOff, startMeta = cm.Off, cm.Meta
		}
	}
	c.w.Count("logs", 1)
	c18Chmod(dir)
	files := c18Files(dir)
	c.w.Count("files", int64(len(files)))
	if len(files) > 1 {
		c.w.Count("logs.rotated", 1)
	}

	// (1) independent decoder over the raw files
	st := c.c18CheckStream(lg)
	// (2) full replay through the real reader
	full := c18Replay(dir, 0, nil)
	c.w.Case(len(lg.appended) > 0, fmt.Sprintf("full/%d/%d/%d", id, lg.chunk, len(lg.appended)))
	if full.Panic != "" {
		c.viol("C18/replay/panic", "full replay panicked: "+full.Panic, c.witness(lg, nil))
		return
	}
	if full.Err != nil {
		c.viol("C18/replay/error-"+c18ErrClass(full.Err), "full replay of an intact log failed: "+full.Err.Error(), c.witness(lg, nil))
		return
	}
	if !c18SameEvs(full.Eng.evs, lg.appended) {
		c.viol("C18/replay/differs", "full replay differs from what was appended: "+c18Diff(full.Eng.evs, lg.appended), c.witness(lg, nil))
		return
	}
	c.w.Count("events.replayed", int64(len(full.Eng.evs)))
	c.c18CheckReaderCommits(lg, full.Eng, 0)
	if r.WantSample() {
		r.Sample(map[string]any{"log": id, "chunk": lg.chunk, "events": len(lg.appended), "files": c18FileSizes(dir), "sessions": lg.sessions, "commit_points": len(lg.commits)})
	}
	if st == nil {
		return
	}
	// (3) resume from committed positions
	c.c18Resumes(lg, st, rnd)
	// (4) truncation of the last chunk, (5) constructed interrupted rotation, (6) flips
	c.c18Truncations(lg, st, rnd)
	c.c18ConstructedRotation(lg, st)
	c.c18Flips(lg, st, rnd)
}

func (c *c18Ctx) witness(lg *c18Log, extra map[string]any) map[string]any {
	w := map[string]any{"log": lg.id, "chunk": lg.chunk, "events": len(lg.appended), "files": c18FileSizes(lg.dir), "sessions": lg.sessions,
		"how": "log generated by PRNG stream (seed, log id): see c18OneLog"}
	var sizes []int
	for _, e := range lg.appended {
		sizes = append(sizes, len(e.Body))
		if len(sizes) >= 200 {
			break
		}
	}
	w["payload_sizes"] = sizes
	for k, v := range extra {
		w[k] = v
	}
	return w
}

// the commits a *reader* emits (ReadAndExit replay) are monotone and never beyond what it read
func (c *c18Ctx) c18CheckReaderCommits(lg *c18Log, e *c18Eng, from int64) {
	prev := int64(-1)
	for _, cm := range e.commits {
		if cm.Off < prev {
			c.viol("C18/commit/reader-not-monotone", fmt.Sprintf("reader commit %d after %d", cm.Off, prev), c.witness(lg, nil))
		}
		prev = cm.Off
		if cm.Off > e.off {
			c.viol("C18/commit/reader-beyond-read", fmt.Sprintf("reader commit %d beyond the engine position %d", cm.Off, e.off), c.witness(lg, nil))
		}
		c.w.Count("events.reader_commit", 1)
	}
}

func (c *c18Ctx) c18Resumes(lg *c18Log, st *c18Stream, rnd *rand.Rand) {
	cms := lg.commits
	limit := c.r.N(10, 1<<30)
	if len(cms) > limit {
		// keep first, last and a random selection
		idx := rnd.Perm(len(cms))[:limit]
		sort.Ints(idx)
		sel := make([]c18Commit, 0, limit)
		for _, i := range idx {
			sel = append(sel, cms[i])
		}
		cms = sel
	}
	for _, cm := range cms {
		// the meta handed to Commit must describe the stream up to that offset
		var sm tlfsbinlog.SnapshotMeta
		if _, err := sm.ReadTL1Boxed(cm.Meta); err != nil {
			c.viol("C18/commit/meta-unreadable", "snapshot meta of a commit cannot be decoded: "+err.Error(), c.witness(lg, map[string]any{"commit": cm.Off}))
			continue
		}
		if sm.CommitPosition != cm.Off {
			c.viol("C18/commit/meta-position", fmt.Sprintf("snapshot meta says position %d for commit offset %d", sm.CommitPosition, cm.Off), c.witness(lg, nil))
		}
		if cm.Off <= int64(len(st.raw)) {
			if want := crc32.ChecksumIEEE(st.raw[:cm.Off]); want != sm.CommitCrc {
				c.viol("C18/commit/meta-crc", fmt.Sprintf("snapshot meta crc %08x at commit %d, crc32 of the stream up to there is %08x", sm.CommitCrc, cm.Off, want), c.witness(lg, nil))
			}
		}
		idx := sort.Search(len(lg.appended), func(i int) bool { return lg.appended[i].Off >= cm.Off })
		want := lg.appended[idx:]
		earlier := []byte(nil)
		for _, c0 := range lg.commits {
			if c0.Off < cm.Off && c0.Off > 0 {
				earlier = c0.Meta // replaced below when it lies in another chunk: the reader then ignores it
			}
		}
		for variant, meta := range [][]byte{cm.Meta, nil, earlier} {
			if variant == 1 && rnd.IntN(3) != 0 {
				continue // resume without meta: sampled
			}
			if variant == 2 && (meta == nil || rnd.IntN(3) != 0) {
				continue // resume at this offset with the snapshot meta of an earlier commit: sampled
			}
			res := c18Replay(lg.dir, cm.Off, meta)
			c.w.Case(cm.Off > c18StartHdr && len(want) > 0, fmt.Sprintf("resume/%d/%d/%d", lg.id, cm.Off, variant))
			c.w.Count("resume.points", 1)
			wit := map[string]any{"resume_off": cm.Off, "with_meta": variant == 0}
			switch {
			case res.Panic != "":
				c.viol("C18/resume/panic", "resume panicked: "+res.Panic, c.witness(lg, wit))
			case res.Err != nil:
				c.viol("C18/resume/error-"+c18ErrClass(res.Err), "resume from a committed position failed: "+res.Err.Error(), c.witness(lg, wit))
			case !c18SameEvs(res.Eng.evs, want):
				c.viol("C18/resume/suffix-differs", "resume from a committed position did not deliver exactly the remaining suffix: "+c18Diff(res.Eng.evs, want), c.witness(lg, wit))
			default:
				c.c18CheckReaderCommits(lg, res.Eng, cm.Off)
			}
		}
	}
}

func c18Workers(r *verifkit.Run) int {
	if r.Thorough() {
		return 14
	}
	return 12
}

func TestVerifC18(t *testing.T) {
	if os.Getenv("VERIF_C18_ROLE") != "" {
		t.Skip("child role set")
	}
	r := verifkit.Start(t, "C18", "fsbinlog")
	defer r.Finish()
	r.SetRule("case = one oracle evaluation on (generated log, fault): full replay, writer reopen, resume from a committed (offset, meta), cut of the last chunk at a byte, shutdown racing with 1-4 appenders, bit flip before a CRC record, constructed interrupted rotation, SIGKILL of a writer child at a verifhook point or random instant, strace'd commit marker. Logs: PRNG payload sizes 0..150 KB, chunk sizes 200 B..240 KB or none, 1-3 writer sessions, Append/AppendASAP. Non-trivial = at least one event lies before the fault / resume point and one behind or at it; distinct = distinct (log id, fault kind, position).")
	if err := os.Chdir(r.TmpDir); err != nil {
		t.Fatalf("chdir %s: %v", r.TmpDir, err)
	}
	r.Assume("process kill only (SIGKILL): bytes handed to write() survive; power loss is not simulated")
	r.Assume("commit<=fsync is decided on the strace of a child process; strace sees syscalls in completion order of one writer goroutine")
	nLogs := r.N(240, 1200)
	if v, err := strconv.Atoi(os.Getenv("VERIF_C18_LOGS")); err == nil {
		nLogs = v // calibration aid only
	}
	workers := c18Workers(r)
	base := r.SubSeed("logs")
	t0 := time.Now()
	r.Parallel(workers, "logs", func(w *verifkit.Worker) {
		c := &c18Ctx{r: r, w: w}
		for id := w.Index; id < nLogs; id += workers {
			c.c18OneLog(id, rand.New(rand.NewPCG(base, uint64(id))))
		}
	})
	c18Directed(r)
	c18ShutdownPart(r)
	t1 := time.Now()
	c18CrashPart(r)
	t2 := time.Now()
	c18StracePart(r)
	// informational only (never used in a verdict)
	r.SetCounter("info.wall_ms.logs", t1.Sub(t0).Milliseconds())
	r.SetCounter("info.wall_ms.crash", t2.Sub(t1).Milliseconds())
	r.SetCounter("info.wall_ms.strace", time.Since(t2).Milliseconds())
}

// c18Directed: scenarios the random plans reach only by luck.
//   - a writer restarted while the first chunk is within 16 KiB of MaxChunkSize and rotating soon after
//     (the md5 of the first chunk needs its last 16 KiB, which only the running writer buffers);
//   - the same in a later chunk (control);
//   - a log directory whose name contains a dot (not judged: path names are outside the statement).
func c18Directed(r *verifkit.Run) {
	r.Parallel(1, "directed", func(w *verifkit.Worker) {
		c := &c18Ctx{r: r, w: w}
		rnd := w.Rnd
		for v := 0; v < r.N(4, 24); v++ {
			dir := c18MkTmp(r, fmt.Sprintf("c18-d%d-", v))
			chunk := uint32(36000 + rnd.IntN(60000))
			lg := &c18Log{id: 1000000 + v, dir: dir, chunk: chunk}
			if _, err := CreateEmptyFsBinlog(c18Opt(dir, chunk, 0)); err != nil {
				os.RemoveAll(dir)
				continue
			}
			// session 0 fills the chunk up to a point 200..12000 bytes before MaxChunkSize
			// (v odd: first let it rotate once, so that the restart happens in a later chunk)
			gap := 200 + rnd.IntN(12000)
			target := int(chunk) - gap
			if v%2 == 1 {
				target += int(chunk) + 72
			}
			var sizes []int
			for tot := c18StartHdr; ; {
				sz := 100 + rnd.IntN(900)
				if tot+AddPadding(8+14+sz) > target {
					break
				}
				sizes = append(sizes, sz)
				tot += AddPadding(8 + 14 + sz)
			}
			ok := c.c18Session(lg, rnd, 0, 0, nil, sizes, 0)
			if ok {
				cm := lg.commits[len(lg.commits)-1]
				// session 1 appends small events until the chunk limit is crossed
				n := gap/300 + 8
				small := make([]int, n)
				for i := range small {
					small[i] = 100 + rnd.IntN(300)
				}
				w.Count("directed.restart_near_chunk_end", 1)
				ok = c.c18Session(lg, rnd, 1, cm.Off, cm.Meta, small, 0)
			}
			if ok {
				c18Chmod(dir)
				res := c18Replay(dir, 0, nil)
				w.Case(true, fmt.Sprintf("directed/%d/%d/%d", v, chunk, gap))
				if res.Err != nil || !c18SameEvs(res.Eng.evs, lg.appended) {
					c.viol("C18/replay/differs", fmt.Sprintf("directed restart-near-chunk-end log: replay err %v: %s", res.Err, c18Diff(res.Eng.evs, lg.appended)), c.witness(lg, nil))
				}
			}
			os.RemoveAll(dir)
		}
		// dot in the directory name: generateNextBinlogFilename splits the whole path at '.'
		d := c18MkTmp(r, "c18-dot.")
		lg := &c18Log{id: 2000000, dir: d, chunk: 400}
		if _, err := CreateEmptyFsBinlog(c18Opt(d, 400, 0)); err == nil {
			bl, _ := NewFsBinlog(nil, c18Opt(d, 400, 0))
			e := c18NewEng(0)
			done := make(chan string, 1)
			go func() {
				defer func() {
					if p := recover(); p != nil {
						done <- fmt.Sprint(p)
					}
				}()
				_ = bl.Run(0, nil, nil, e)
				done <- ""
			}()
			<-e.ready
			cur := e.off
			for i := 0; i < 6; i++ {
				nx, err, _ := c18SafeAppend(bl, cur, c18Ser(c18Body(rnd, "dot:", 200)), true)
				if err != nil {
					break
				}
				cur = nx
			}
			select {
			case msg := <-done:
				if strings.Contains(msg, "invalid previous file name") {
					r.NotJudged("rotation_panics_when_a_directory_name_contains_a_dot", 1)
				}
			case <-time.After(5 * time.Second):
				w.Count("directed.dot_dir_no_panic", 1)
				bl.RequestShutdown()
				<-done
			}
			_ = lg
		}
		os.RemoveAll(d)
	})
}

// ---------------------------------------------------------------------------------------------
// a reader in replica mode (endless, fsnotify) running next to a writer session

type c18Replica struct {
	bl   BinlogReadWrite
	eng  *c18Eng
	done chan error
}

func c18StartReplica(dir string) *c18Replica {
	zero := time.Duration(0)
	bl, _ := NewFsBinlog(nil, Options{PrefixPath: filepath.Join(dir, c18Prefix), Magic: c18Magic, ReplicaMode: true, WriteCallDelay: &zero})
	rp := &c18Replica{bl: bl, eng: c18NewEng(0), done: make(chan error, 1)}
	go func() {
		defer func() {
			if p := recover(); p != nil {
				rp.done <- fmt.Errorf("PANIC %v\n%s", p, c18Lines(string(debug.Stack()), 24))
			}
		}()
		rp.done <- bl.Run(0, nil, nil, rp.eng)
	}()
	return rp
}

// c18FinishReplica: after the writer session ended, the replica must arrive at exactly the
// appended list (it may have read chunks while they were being written and rotated).
func (c *c18Ctx) c18FinishReplica(lg *c18Log, rp *c18Replica) {
	var want int64
	if n := len(lg.appended); n > 0 {
		want = lg.appended[n-1].pend()
	}
	dl := time.Now().Add(c18WaitCommit)
	var err error
	ended := false
	for !ended && time.Now().Before(dl) {
		_, _, off := rp.eng.snapshot()
		if off >= want {
			break
		}
		select {
		case err = <-rp.done:
			ended = true
		default:
			time.Sleep(500 * time.Microsecond)
		}
	}
	if !ended {
		rp.bl.RequestShutdown()
		err = <-rp.done
	}
	evs, _, off := rp.eng.snapshot()
	c.w.Case(len(lg.appended) > 0, fmt.Sprintf("replica/%d/%d", lg.id, len(lg.appended)))
	wit := map[string]any{"log": lg.id, "chunk": lg.chunk, "files": c18FileSizes(lg.dir), "replica_offset": off, "run_error": fmt.Sprint(err)}
	switch {
	case err != nil:
		c.viol("C18/replica/error-"+c18ErrClass(err), "a replica-mode reader next to a live writer ended with an error: "+c18Trim(err.Error(), lg.dir), wit)
	case len(evs) > len(lg.appended) || !c18SameEvs(evs, lg.appended[:len(evs)]):
		c.viol("C18/replica/differs", "a replica-mode reader next to a live writer delivered something else than the appended events: "+c18Diff(evs, lg.appended[:min(len(evs), len(lg.appended))]), wit)
	case len(evs) < len(lg.appended):
		c.r.Inconclusive(fmt.Sprintf("log %d: replica reader saw %d of %d events before the harness stopped waiting", lg.id, len(evs), len(lg.appended)))
	default:
		c.w.Count("replica.caught_up", 1)
	}
}
