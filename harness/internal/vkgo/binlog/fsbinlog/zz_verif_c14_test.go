//go:build verif

package fsbinlog

// C14, unit "fsbinlog": the binlog schema's generated types are importable only from
// inside this directory.  Same oracle as unit "tlrt" (engine in internal/zzverif/tlrt).

import (
	"math"
	"math/rand/v2"
	"testing"

	"github.com/VKCOM/statshouse/internal/vkgo/binlog/fsbinlog/internal/gen/meta"
	"github.com/VKCOM/statshouse/internal/vkgo/binlog/fsbinlog/internal/gen/tlfsbinlog"
	"github.com/VKCOM/statshouse/internal/zzverif/tlrt"
	"github.com/VKCOM/statshouse/internal/zzverif/verifkit"
)

func c14I32(rnd *rand.Rand) int32 {
	switch rnd.IntN(4) {
	case 0:
		return []int32{0, 1, -1, math.MaxInt32, math.MinInt32, 127, 128, -129, 65536}[rnd.IntN(9)]
	case 1:
		return int32(rnd.Uint32())
	}
	return int32(rnd.IntN(1000))
}

func c14U32(rnd *rand.Rand) uint32 {
	switch rnd.IntN(4) {
	case 0:
		return []uint32{0, 1, math.MaxUint32, 1 << 31, 1<<31 - 1, 255, 256}[rnd.IntN(7)]
	case 1:
		return rnd.Uint32()
	}
	return rnd.Uint32() >> uint(rnd.IntN(32))
}

func c14I64(rnd *rand.Rand) int64 {
	switch rnd.IntN(4) {
	case 0:
		return []int64{0, 1, -1, math.MaxInt64, math.MinInt64, 1<<53 + 1, -(1<<53 + 1), 1 << 32}[rnd.IntN(8)]
	case 1:
		return int64(rnd.Uint64())
	}
	return int64(rnd.Uint64() >> uint(rnd.IntN(64)))
}

func TestVerifC14Fsbinlog(t *testing.T) {
	r := verifkit.Start(t, "C14", "fsbinlog")
	defer r.Finish()
	r.SetRule("the three types of the fsbinlog schema (levStart, levUpgradeToGms, snapshotMeta): every field drawn from boundary and random integers; same clauses as unit tlrt (bare/boxed TL1 with prefix, trailer, truncation, corrupted tag; JSON both ways). Non-trivial = non-empty body; distinct = distinct (type, encoding).")
	fill := func(rnd *rand.Rand, c tlrt.Codec) bool {
		switch v := c.(type) {
		case *tlfsbinlog.LevStart:
			*v = tlfsbinlog.LevStart{SchemaId: c14I32(rnd), ExtraBytes: c14I32(rnd), SplitMod: c14I32(rnd), SplitMin: c14I32(rnd), SplitMax: c14I32(rnd)}
		case *tlfsbinlog.LevUpgradeToGms:
			*v = tlfsbinlog.LevUpgradeToGms{FieldsMask: c14U32(rnd), PayloadOffset: c14I64(rnd), Crc: c14U32(rnd), Ts: c14U32(rnd)}
		case *tlfsbinlog.SnapshotMeta:
			*v = tlfsbinlog.SnapshotMeta{FieldsMask: c14U32(rnd), CommitPosition: c14I64(rnd), CommitCrc: c14U32(rnd), CommitTs: c14U32(rnd)}
		default:
			return false
		}
		return true
	}
	ctors := map[string]func() tlrt.Codec{
		"fsbinlog.levStart":        func() tlrt.Codec { return &tlfsbinlog.LevStart{} },
		"fsbinlog.levUpgradeToGms": func() tlrt.Codec { return &tlfsbinlog.LevUpgradeToGms{} },
		"fsbinlog.snapshotMeta":    func() tlrt.Codec { return &tlfsbinlog.SnapshotMeta{} },
	}
	var items []tlrt.Item
	for _, ti := range meta.GetAllTLItems() {
		ctor := ctors[ti.TLName()]
		if ctor == nil {
			r.Inconclusive("the fsbinlog schema has a type the harness does not know: " + ti.TLName())
			continue
		}
		if ctor().TLTag() != ti.TLTag() {
			r.Violation("C14/meta/tag-differs", "tag in the schema's item list differs from the type's TLTag()", ti.TLName())
		}
		items = append(items, tlrt.Item{Schema: "fsbinlog", Name: ti.TLName(), New: ctor, Fill: fill})
	}
	if len(items) != len(ctors) {
		r.Inconclusive("the fsbinlog schema's item list does not contain every type the harness knows")
	}
	tlrt.RunItems(r, items, r.N(3000, 300000))
}
