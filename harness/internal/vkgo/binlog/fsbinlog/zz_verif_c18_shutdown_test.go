//go:build verif

package fsbinlog

// Appends racing with RequestShutdown: 1-4 appender goroutines keep calling Append/AppendASAP
// while the shutdown is requested at a PRNG-chosen moment; the writer's final window (final
// buffer taken -> write -> fsync -> Engine.Commit -> cleanup) is widened with verifhook delays
// and a slow Engine.Commit.  Every Append that returned nil must be delivered by a later replay
// at the offset it was given.

import (
	"fmt"
	"math/rand/v2"
	"os"
	"runtime/debug"
	"sync"
	"sync/atomic"
	"time"

	"github.com/VKCOM/statshouse/internal/verifhook"
	"github.com/VKCOM/statshouse/internal/zzverif/verifkit"
)

type c18Attempt struct {
	Body      string
	Off, Next int64
	Err       string // "" = Append returned nil
	Panic     bool
	AfterStop bool // the call started after RequestShutdown had been issued
}

var c18ShutdownHooks = []string{"fsbinlog.loop.after_write", "fsbinlog.loop.after_fsync", "fsbinlog.loop.before_engine_commit"}

func c18ShutdownPart(r *verifkit.Run) {
	n := r.N(60, 600)
	workers := r.N(6, 10)
	base := r.SubSeed("shutdown")
	// process-wide schedule widening for this phase only
	for i, h := range c18ShutdownHooks {
		verifhook.SetDelay(h, time.Duration(1500+700*i)*time.Microsecond)
	}
	defer func() {
		for _, h := range c18ShutdownHooks {
			verifhook.SetDelay(h, 0)
		}
	}()
	r.Parallel(workers, "shutdown", func(w *verifkit.Worker) {
		c := &c18Ctx{r: r, w: w}
		for id := w.Index; id < n; id += workers {
			c.c18ShutdownCase(id, rand.New(rand.NewPCG(base, uint64(id))))
		}
	})
}

func (c *c18Ctx) c18ShutdownCase(id int, rnd *rand.Rand) {
	r := c.r
	dir := c18MkTmp(r, fmt.Sprintf("c18-h%d-", id))
	defer func() {
		c18Chmod(dir)
		os.RemoveAll(dir)
	}()
	chunk := uint32(0)
	if rnd.IntN(2) == 0 {
		chunk = uint32(400 + rnd.IntN(20000)) // below 32 KiB: the known first-chunk-hash panic cannot trigger
	}
	if _, err := CreateEmptyFsBinlog(c18Opt(dir, chunk, 0)); err != nil {
		r.Inconclusive("CreateEmptyFsBinlog: " + err.Error())
		return
	}
	delay := time.Duration(0)
	if rnd.IntN(3) == 0 {
		delay = time.Duration(100+rnd.IntN(900)) * time.Microsecond
	}
	bl, _ := NewFsBinlog(nil, c18Opt(dir, chunk, delay))
	e := c18NewEng(0)
	commitSleep := time.Duration(rnd.IntN(3000)) * time.Microsecond
	e.onCommit = func(int64) { time.Sleep(commitSleep) } // an engine whose Commit takes a while (e.g. a database COMMIT)
	done := make(chan error, 1)
	go func() {
		defer func() {
			if p := recover(); p != nil {
				done <- fmt.Errorf("PANIC %v\n%s", p, c18Lines(string(debug.Stack()), 24))
			}
		}()
		done <- bl.Run(0, nil, nil, e)
	}()
	select {
	case <-e.ready:
	case err := <-done:
		c.viol("C18/writer/"+c18ErrClass(err), "writer did not start on a fresh log: "+err.Error(), map[string]any{"case": id})
		return
	}
	appenders := 1 + rnd.IntN(4)
	stopAfter := int64(1 + rnd.IntN(60)) // RequestShutdown once that many appends succeeded ...
	stopLag := time.Duration(rnd.IntN(2500)) * time.Microsecond
	var (
		mu        sync.Mutex // the offset chain: like an engine, appenders take turns
		cur       = e.off
		attempts  []c18Attempt
		okCount   atomic.Int64
		stopped   atomic.Bool
		stopNow   = make(chan struct{}, 1)
		seq       int
		wg        sync.WaitGroup
		seeds     = make([]uint64, appenders)
		hardLimit = 20000 // appends per case, in case nothing ever refuses
	)
	for g := range seeds {
		seeds[g] = rnd.Uint64()
	}
	go func() {
		<-stopNow
		time.Sleep(stopLag)
		stopped.Store(true)
		bl.RequestShutdown()
	}()
	for g := 0; g < appenders; g++ {
		wg.Add(1)
		go func(g int) {
			defer wg.Done()
			rg := rand.New(rand.NewPCG(seeds[g], uint64(g)))
			for {
				sz := rg.IntN(200)
				if rg.IntN(30) == 0 {
					sz = 2000 + rg.IntN(6000)
				}
				asap := rg.IntN(3) == 0
				mu.Lock()
				if seq >= hardLimit {
					mu.Unlock()
					return
				}
				body := c18Body(rg, fmt.Sprintf("H%d.g%d.%d:", id, g, seq), sz)
				seq++
				at := c18Attempt{Body: body, Off: cur, AfterStop: stopped.Load()}
				next, err, pan := c18SafeAppend(bl, cur, c18Ser(body), asap)
				switch {
				case pan != "":
					at.Panic, at.Err = true, c18Lines(pan, 1)
				case err != nil:
					at.Err = err.Error()
				default:
					at.Next = next
					cur = next
				}
				attempts = append(attempts, at)
				mu.Unlock()
				if at.Err != "" {
					return // refused: this appender gives up (the writer is going away)
				}
				if okCount.Add(1) == stopAfter {
					select {
					case stopNow <- struct{}{}:
					default:
					}
				}
				if rg.IntN(8) == 0 {
					time.Sleep(time.Duration(rg.IntN(400)) * time.Microsecond)
				}
			}
		}(g)
	}
	var runErr error
	select {
	case runErr = <-done:
	case <-time.After(c18WaitCommit):
		r.Inconclusive(fmt.Sprintf("shutdown case %d: Run did not return within %v after RequestShutdown", id, c18WaitCommit))
		bl.RequestShutdown()
		runErr = <-done
	}
	wg.Wait()
	select { // in case the appenders were refused before stopAfter was reached
	case stopNow <- struct{}{}:
	default:
	}
	c18Chmod(dir)
	res := c18Replay(dir, 0, nil)
	okN, errN, okAfterStop := 0, 0, 0
	byBody := map[string]c18Attempt{}
	for _, a := range attempts {
		byBody[a.Body] = a
		if a.Err == "" {
			okN++
			if a.AfterStop {
				okAfterStop++
			}
		} else {
			errN++
		}
	}
	c.w.Case(okN > 0 && errN > 0, fmt.Sprintf("shutdown/%d/%d/%d", id, appenders, stopAfter))
	c.w.Count("shutdown.sessions", 1)
	c.w.Count("shutdown.appends_acknowledged", int64(okN))
	c.w.Count("shutdown.appends_acknowledged_after_shutdown_request", int64(okAfterStop))
	c.w.Count("shutdown.appends_refused", int64(errN))
	wit := map[string]any{"case": id, "chunk": chunk, "appenders": appenders, "shutdown_after_ok_appends": stopAfter, "shutdown_lag_us": stopLag.Microseconds(),
		"engine_commit_sleep_us": commitSleep.Microseconds(), "acknowledged": okN, "refused": errN, "replayed": len(res.Eng.evs), "run_error": fmt.Sprint(runErr), "files": c18FileSizes(dir),
		"how": "c18ShutdownCase: appenders loop on Append/AppendASAP, RequestShutdown from another goroutine; verifhook.SetDelay on the three fsbinlog.loop hooks"}
	if runErr != nil {
		c.viol("C18/writer/run-error", "writer loop ended with an error after a shutdown request: "+runErr.Error(), wit)
		return
	}
	if res.Panic != "" || res.Err != nil {
		c.viol("C18/replay/error-"+c18ErrClass(res.Err), "replay after a shutdown that raced with appends failed: "+fmt.Sprint(res.Err), wit)
		return
	}
	delivered := map[string]int64{}
	for _, ev := range res.Eng.evs {
		delivered[ev.Body] = ev.Off
		a, known := byBody[ev.Body]
		switch {
		case !known:
			c.viol("C18/shutdown/replayed-event-never-appended", fmt.Sprintf("replay delivers an event at %d that no Append call attempted (%q...)", ev.Off, c18Head(ev.Body)), wit)
			return
		case a.Off != ev.Off:
			c.viol("C18/shutdown/offset-differs", fmt.Sprintf("replay delivers %q... at %d, Append was called with offset %d", c18Head(ev.Body), ev.Off, a.Off), wit)
			return
		case a.Err != "":
			c.w.Count("shutdown.refused_append_delivered_anyway", 1) // allowed: outcome of a refused call is open
		}
	}
	lost := 0
	var first c18Attempt
	for _, a := range attempts {
		if a.Err != "" {
			continue
		}
		if off, ok := delivered[a.Body]; !ok || off != a.Off {
			if lost == 0 {
				first = a
			}
			lost++
		}
	}
	if lost > 0 {
		c.viol("C18/shutdown/acknowledged-append-not-in-log", fmt.Sprintf("%d Append calls returned (offset, nil) but the replay after shutdown does not deliver them; first: %q... appended at %d -> %d (call started after RequestShutdown: %v); acknowledged %d, replayed %d",
			lost, c18Head(first.Body), first.Off, first.Next, first.AfterStop, okN, len(res.Eng.evs)), wit)
	}
}
