//go:build verif

package fsbinlog

import (
	"bufio"
	"fmt"
	"math/rand/v2"
	"os"
	"os/exec"
	"path/filepath"
	"regexp"
	"runtime/debug"
	"sort"
	"strconv"
	"strings"
	"sync"
	"testing"
	"time"

	"github.com/VKCOM/statshouse/internal/verifhook"
	"github.com/VKCOM/statshouse/internal/zzverif/verifkit"
)

// ---------------------------------------------------------------------------------------------
// child: a writer process.  Payload i is a pure function of (seed, i), so the parent can
// rebuild what the child intended to append without trusting anything the child wrote.

func c18ChildBody(seed uint64, i int) string {
	rnd := rand.New(rand.NewPCG(seed, uint64(i)+1))
	sz := rnd.IntN(400)
	switch rnd.IntN(24) {
	case 0:
		sz = 66000 + rnd.IntN(20000)
	case 1:
		sz = 0
	}
	return c18Body(rnd, fmt.Sprintf("K%d:", i), sz)
}

func TestVerifC18Child(t *testing.T) {
	if os.Getenv("VERIF_C18_ROLE") != "writer" {
		t.Skip("not a child")
	}
	dir := os.Getenv("VERIF_C18_DIR")
	chunk, _ := strconv.ParseUint(os.Getenv("VERIF_C18_CHUNK"), 10, 32)
	seed, _ := strconv.ParseUint(os.Getenv("VERIF_C18_SEED"), 10, 64)
	n, _ := strconv.Atoi(os.Getenv("VERIF_C18_N"))
	delayUs, _ := strconv.Atoi(os.Getenv("VERIF_C18_DELAY_US"))
	var mu sync.Mutex
	say := func(f string, a ...any) {
		s := fmt.Sprintf(f, a...)
		mu.Lock()
		_, _ = os.Stdout.WriteString(s)
		mu.Unlock()
	}
	var marker *os.File
	if p := os.Getenv("VERIF_C18_MARKER"); p != "" {
		marker, _ = os.OpenFile(p, os.O_CREATE|os.O_WRONLY|os.O_APPEND, 0o644)
	}
	bl, _ := NewFsBinlog(nil, c18Opt(dir, uint32(chunk), time.Duration(delayUs)*time.Microsecond))
	e := c18NewEng(0)
	e.onCommit = func(off int64) {
		if marker != nil {
			_, _ = marker.WriteString(fmt.Sprintf("C %d\n", off))
		}
		say("commit %d\n", off)
	}
	done := make(chan error, 1)
	go func() {
		defer func() {
			if p := recover(); p != nil {
				done <- fmt.Errorf("PANIC %v\n%s", p, c18Lines(string(debug.Stack()), 24))
			}
		}()
		done <- bl.Run(0, nil, nil, e)
	}()
	select {
	case <-e.ready:
	case err := <-done:
		say("runerr %s\n", strings.ReplaceAll(fmt.Sprint(err), "\n", " | "))
		return
	}
	evs, _, cur := e.snapshot()
	say("ready %d %d\n", cur, len(evs))
	rnd := rand.New(rand.NewPCG(seed, 0))
	var last int64 = cur
	for i := len(evs); i < len(evs)+n; i++ {
		body := c18ChildBody(seed, i)
		asap := rnd.IntN(3) == 0 || i == len(evs)+n-1
		var nx int64
		var err error
		if asap {
			nx, err = bl.AppendASAP(cur, c18Ser(body))
		} else {
			nx, err = bl.Append(cur, c18Ser(body))
		}
		if err != nil {
			say("apperr %d %v\n", i, err)
			return
		}
		say("app %d %d %d\n", i, cur, nx)
		cur, last = nx, nx
		if rnd.IntN(6) == 0 {
			time.Sleep(time.Duration(rnd.IntN(800)) * time.Microsecond)
		}
	}
	dl := time.Now().Add(c18WaitCommit)
	var err error
	ended := false
	for e.lastCommit() < last && time.Now().Before(dl) && !ended {
		select {
		case err = <-done:
			ended = true
		default:
			time.Sleep(200 * time.Microsecond)
		}
	}
	if !ended {
		bl.RequestShutdown()
		err = <-done
	}
	if err != nil {
		err = fmt.Errorf("%s", strings.ReplaceAll(err.Error(), "\n", " | "))
	}
	cnt := verifhook.Counts()
	var hs []string
	for k, v := range cnt {
		hs = append(hs, fmt.Sprintf("%s=%d", k, v))
	}
	sort.Strings(hs)
	say("hooks %s\n", strings.Join(hs, ","))
	say("done %v\n", err)
}

// ---------------------------------------------------------------------------------------------
// parent

type c18ChildOut struct {
	ready      bool
	readyOff   int64
	readyN     int
	apps       []c18App
	commits    []int64
	done       bool
	doneErr    string
	runErr     string
	appErr     string
	hooks      map[string]int64
	killedByUs bool
	exit       string
}

type c18App struct {
	I       int
	Off, Nx int64
}

var c18Hooks = []string{
	"fsbinlog.loop.after_write", "fsbinlog.loop.after_fsync", "fsbinlog.loop.before_engine_commit",
	"fsbinlog.rotate.after_create_new", "fsbinlog.rotate.before_rotate_to", "fsbinlog.rotate.after_rotate_to",
}

// c18RunChild starts the writer child.  killAfterApps > 0: SIGKILL it from outside once that
// many "app" lines were read.  wrap: optional command prefix (strace ...).
func c18RunChild(dir string, chunk uint32, seed uint64, n, delayUs int, extraEnv []string, killAfterApps int, wrap []string) (*c18ChildOut, error) {
	self := os.Getenv("VERIF_SELF")
	if self == "" {
		self = os.Args[0]
	}
	args := append(append([]string(nil), wrap...), self, "-test.run", "^TestVerifC18Child$", "-test.v", "-test.timeout", "0")
	cmd := exec.Command(args[0], args[1:]...)
	cmd.Env = append(os.Environ(), "VERIF_C18_ROLE=writer", "VERIF_C18_DIR="+dir, fmt.Sprintf("VERIF_C18_CHUNK=%d", chunk),
		fmt.Sprintf("VERIF_C18_SEED=%d", seed), fmt.Sprintf("VERIF_C18_N=%d", n), fmt.Sprintf("VERIF_C18_DELAY_US=%d", delayUs))
	cmd.Env = append(cmd.Env, extraEnv...)
	cmd.Stderr = nil
	cmd.Dir, _ = os.Getwd()
	pipe, err := cmd.StdoutPipe()
	if err != nil {
		return nil, err
	}
	if err := cmd.Start(); err != nil {
		return nil, err
	}
	out := &c18ChildOut{hooks: map[string]int64{}}
	sc := bufio.NewScanner(pipe)
	sc.Buffer(make([]byte, 1<<20), 1<<20)
	for sc.Scan() {
		f := strings.Fields(sc.Text())
		if len(f) == 0 {
			continue
		}
		switch f[0] {
		case "ready":
			if len(f) == 3 {
				out.ready = true
				out.readyOff, _ = strconv.ParseInt(f[1], 10, 64)
				out.readyN, _ = strconv.Atoi(f[2])
			}
		case "app":
			if len(f) == 4 {
				i, _ := strconv.Atoi(f[1])
				o, _ := strconv.ParseInt(f[2], 10, 64)
				x, _ := strconv.ParseInt(f[3], 10, 64)
				out.apps = append(out.apps, c18App{i, o, x})
				if killAfterApps > 0 && len(out.apps) == killAfterApps && !out.killedByUs {
					out.killedByUs = true
					_ = cmd.Process.Kill()
				}
			}
		case "commit":
			if len(f) == 2 {
				o, _ := strconv.ParseInt(f[1], 10, 64)
				out.commits = append(out.commits, o)
			}
		case "runerr":
			out.runErr = strings.Join(f[1:], " ")
		case "apperr":
			out.appErr = strings.Join(f[1:], " ")
		case "hooks":
			if len(f) == 2 {
				for _, kv := range strings.Split(f[1], ",") {
					if i := strings.LastIndexByte(kv, '='); i > 0 {
						v, _ := strconv.ParseInt(kv[i+1:], 10, 64)
						out.hooks[kv[:i]] = v
					}
				}
			}
		case "done":
			out.done = true
			out.doneErr = strings.Join(f[1:], " ")
		}
	}
	werr := cmd.Wait()
	if werr != nil {
		out.exit = werr.Error()
	}
	return out, nil
}

func c18CrashPart(r *verifkit.Run) {
	nCases := r.N(24, 300)
	workers := r.N(6, 10)
	base := r.SubSeed("crash")
	r.Parallel(workers, "crash", func(w *verifkit.Worker) {
		c := &c18Ctx{r: r, w: w}
		for id := w.Index; id < nCases; id += workers {
			c.c18CrashCase(id, rand.New(rand.NewPCG(base, uint64(id))))
		}
	})
}

// one directory, up to 3 rounds of (child, kill, judge)
func (c *c18Ctx) c18CrashCase(id int, rnd *rand.Rand) {
	r := c.r
	dir := c18MkTmp(r, fmt.Sprintf("c18-k%d-", id))
	defer func() {
		c18Chmod(dir)
		os.RemoveAll(dir)
	}()
	chunk := uint32(300 + rnd.IntN(1500))
	if rnd.IntN(8) == 0 {
		chunk = uint32(20000 + rnd.IntN(100000))
	}
	seed := rnd.Uint64()
	if _, err := CreateEmptyFsBinlog(c18Opt(dir, chunk, 0)); err != nil {
		r.Inconclusive("CreateEmptyFsBinlog: " + err.Error())
		return
	}
	var known []c18Ev // events known to be in the log (verified by the previous round's replay)
	rounds := 1 + rnd.IntN(3)
	for round := 0; round < rounds; round++ {
		n := 15 + rnd.IntN(60)
		delayUs := 0
		if rnd.IntN(3) == 0 {
			delayUs = 100 + rnd.IntN(600)
		}
		var env []string
		killAfter := 0
		mode := ""
		// the rotate hooks are chosen more often: they are where the defects are
		switch k := rnd.IntN(10); {
		case k < 2:
			killAfter = 1 + rnd.IntN(n)
			mode = "random_instant"
		case k < 6:
			h := c18Hooks[3+rnd.IntN(3)]
			mode = h
			env = append(env, fmt.Sprintf("VERIF_CRASH=%s:%d", h, 1+rnd.IntN(3)))
		default:
			h := c18Hooks[rnd.IntN(3)]
			mode = h
			env = append(env, fmt.Sprintf("VERIF_CRASH=%s:%d", h, 1+rnd.IntN(6)))
		}
		if rnd.IntN(4) == 0 {
			// schedule widening: slow the writer goroutine down so that appends pile up
			env = append(env, fmt.Sprintf("VERIF_DELAY=fsbinlog.loop.after_write:%d", 200+rnd.IntN(2000)))
		}
		out, err := c18RunChild(dir, chunk, seed, n, delayUs, env, killAfter, nil)
		if err != nil {
			r.Inconclusive("cannot start child: " + err.Error())
			return
		}
		wit := map[string]any{"case": id, "round": round, "chunk": chunk, "child_seed": seed, "n": n, "kill": mode, "env": env, "kill_after_apps": killAfter,
			"apps_reported": len(out.apps), "commits_reported": len(out.commits), "exit": out.exit, "files": c18FileSizes(dir),
			"how": "child = TestVerifC18Child (payload i = c18ChildBody(child_seed, i)); VERIF_CRASH kills it inside the named hook"}
		if out.runErr != "" {
			cl := c18ErrClass(fmt.Errorf("%s", out.runErr))
			if cl == "torn_tail_refused" {
				c.w.Count("restart_refused_torn_tail", 1)
				return
			}
			c.viol("C18/crash/restart-"+cl, "a writer could not be restarted on a log whose previous replay was clean: "+c18Trim(out.runErr, dir), wit)
			return
		}
		if !out.ready {
			r.Inconclusive(fmt.Sprintf("crash case %d: child never became ready (exit %q)", id, out.exit))
			return
		}
		if out.readyN != len(known) {
			c.viol("C18/crash/restart-reread", fmt.Sprintf("restarted writer re-read %d events, the log holds %d", out.readyN, len(known)), wit)
			return
		}
		if out.appErr != "" {
			c.viol("C18/append/error", "Append failed in a child: "+out.appErr, wit)
			return
		}
		killed := !out.done
		if killed {
			c.w.Count("crash.kills", 1)
			c.w.Count("crash_points_hit."+mode, 1)
		} else {
			c.w.Count("crash.child_finished_before_kill_point", 1)
			if out.doneErr != "<nil>" {
				c.viol("C18/writer/run-error", "writer loop of a child ended with an error: "+out.doneErr, wit)
			}
		}
		// commits seen by the child: monotone
		prev := int64(-1)
		for _, o := range out.commits {
			if o < prev {
				c.viol("C18/commit/not-monotone", fmt.Sprintf("child: commit offset %d after %d", o, prev), wit)
			}
			prev = o
		}
		// what the child intended: known + its appends (+ possibly one unreported append)
		want := append([]c18Ev(nil), known...)
		cur := out.readyOff
		for _, a := range out.apps {
			if a.Off != cur || a.I != len(want) {
				c.viol("C18/crash/child-protocol", fmt.Sprintf("child reported append %d at %d, expected index %d at %d", a.I, a.Off, len(want), cur), wit)
				return
			}
			want = append(want, c18Ev{a.Off, c18ChildBody(seed, a.I)})
			cur = a.Nx
		}
		reported := len(want)
		if killed {
			want = append(want, c18Ev{cur, c18ChildBody(seed, len(want))}) // an append whose report was cut off by the kill
		}
		mustHave := len(known)
		if len(out.commits) > 0 {
			lc := out.commits[len(out.commits)-1]
			for mustHave < reported && want[mustHave].pend() <= lc {
				mustHave++
			}
		}
		c18Chmod(dir)
		res := c18Replay(dir, 0, nil)
		c.w.Case(mustHave > 0 && killed, fmt.Sprintf("kill/%d/%d/%s", id, round, mode))
		if r.WantSample() && killed {
			r.Sample(wit)
		}
		rotState := c18RotationState(dir)
		wit["rotation_state"] = rotState
		wit["files"] = c18FileSizes(dir)
		if rotState != "" {
			c.w.Count("crash.state."+rotState, 1)
			wit["produced_by"] = "real kill: " + mode
			ok := false
			switch {
			case res.Panic != "" && rotState == "new_chunk_1_3_bytes":
				c.viol("C18/trunc/short-header-panic", "a kill left a new chunk of 1-3 bytes; the reader panics: "+c18Lines(res.Panic, 1), wit)
			case rotState == "new_chunk_header_incomplete" && res.Err != nil && c18ErrClass(res.Err) == "scan_failed":
				c.viol("C18/crash/rotate-after-create-new", fmt.Sprintf("a kill between creating the new chunk and writing its ROTATE_FROM header leaves a log the reader refuses (%s); %d events are in the intact chunks", c18Trim(res.Err.Error(), dir), mustHave), wit)
			default:
				ok = c.c18JudgeInterruptedRotation(want, mustHave, res, dir, wit)
			}
			if !ok {
				return // the directory is unusable for further rounds
			}
		} else {
			switch {
			case res.Panic != "":
				c.viol("C18/crash/replay-panic", "replay after a kill panicked: "+res.Panic, wit)
				return
			case res.Err != nil:
				c.viol("C18/crash/replay-error-"+c18ErrClass(res.Err), "replay after a kill at "+mode+" failed: "+c18Trim(res.Err.Error(), dir), wit)
				return
			case len(res.Eng.evs) > len(want) || !c18SameEvs(res.Eng.evs, want[:len(res.Eng.evs)]):
				c.viol("C18/crash/replay-differs", "replay after a kill is not a prefix of what the child appended: "+c18Diff(res.Eng.evs, want[:min(len(want), len(res.Eng.evs))]), wit)
				return
			case len(res.Eng.evs) < mustHave:
				c.viol("C18/crash/committed-lost", fmt.Sprintf("replay after a kill holds %d events; %d were covered by a commit the child had reported", len(res.Eng.evs), mustHave), wit)
				return
			}
		}
		known = append([]c18Ev(nil), res.Eng.evs...)
		c.w.Count("crash.events_survived", int64(len(known)))
	}
}

// c18RotationState recognises the on-disk states of an interrupted rotation.
func c18RotationState(dir string) string {
	files := c18Files(dir)
	if len(files) < 2 {
		return ""
	}
	// the newest chunk is the one with the greatest header position; an incomplete header has none,
	// so look for any chunk shorter than a complete ROTATE_FROM
	for _, f := range files[1:] {
		st, err := os.Stat(f)
		if err != nil {
			continue
		}
		switch {
		case st.Size() >= 1 && st.Size() <= 3:
			return "new_chunk_1_3_bytes"
		case st.Size() < levRotateSize:
			return "new_chunk_header_incomplete"
		}
	}
	// complete 36-byte newest chunk while the previous one does not end with ROTATE_TO
	type fh struct {
		name string
		pos  int64
		size int64
	}
	var hs []fh
	for _, f := range files {
		var h FileHeader
		h.FileName = f
		b, err := os.ReadFile(f)
		if err != nil || len(b) < 4 {
			continue
		}
		if err := readBinlogHeader(&h, b[:min(len(b), 64)], 0); err != nil {
			continue
		}
		hs = append(hs, fh{f, h.Position, int64(len(b))})
	}
	sort.Slice(hs, func(i, j int) bool { return hs[i].pos < hs[j].pos })
	if len(hs) >= 2 {
		last, prev := hs[len(hs)-1], hs[len(hs)-2]
		b, _ := os.ReadFile(prev.name)
		if last.size == levRotateSize && last.pos != prev.pos+int64(len(b)) {
			return "rotate_to_missing"
		}
	}
	return ""
}

// ---------------------------------------------------------------------------------------------
// part C: "commit never exceeds the bytes written before the last fsync", on real syscalls

var (
	c18ReLine    = regexp.MustCompile(`^(\d+) +(\w+)\((.*)$`)
	c18ReResumed = regexp.MustCompile(`^(\d+) +<\.\.\. (\w+) resumed>(.*)$`)
	c18ReRet     = regexp.MustCompile(`\)\s+= (-?\d+|\?)`)
)

type c18Sys struct {
	name string
	args string
	ret  int64
	ok   bool
}

func c18ParseStrace(path string) ([]c18Sys, error) {
	f, err := os.Open(path)
	if err != nil {
		return nil, err
	}
	defer f.Close()
	pending := map[string]c18Sys{}
	var out []c18Sys
	sc := bufio.NewScanner(f)
	sc.Buffer(make([]byte, 1<<20), 1<<20)
	finish := func(s c18Sys, tail string) {
		m := c18ReRet.FindStringSubmatch(tail)
		if m == nil || m[1] == "?" {
			return
		}
		s.ret, _ = strconv.ParseInt(m[1], 10, 64)
		s.ok = true
		out = append(out, s)
	}
	for sc.Scan() {
		line := sc.Text()
		if m := c18ReResumed.FindStringSubmatch(line); m != nil {
			p, ok := pending[m[1]]
			if ok && p.name == m[2] {
				delete(pending, m[1])
				p.args += m[3]
				finish(p, m[3])
			}
			continue
		}
		m := c18ReLine.FindStringSubmatch(line)
		if m == nil {
			continue
		}
		s := c18Sys{name: m[2], args: m[3]}
		if strings.HasSuffix(line, "<unfinished ...>") {
			s.args = strings.TrimSpace(strings.TrimSuffix(s.args, "<unfinished ...>"))
			pending[m[1]] = s
			continue
		}
		finish(s, m[3])
	}
	return out, sc.Err()
}

var c18RePath = regexp.MustCompile(`^AT_FDCWD, "([^"]*)"`)

func c18StracePart(r *verifkit.Run) {
	if _, err := exec.LookPath("strace"); err != nil {
		r.Inconclusive("strace not found: the commit<=fsync clause was not decided")
		return
	}
	n := r.N(3, 16)
	base := r.SubSeed("strace")
	workers := r.N(3, 8)
	r.Parallel(workers, "strace", func(w *verifkit.Worker) {
		c := &c18Ctx{r: r, w: w}
		for id := w.Index; id < n; id += workers {
			c.c18StraceCase(id, rand.New(rand.NewPCG(base, uint64(id))))
		}
	})
}

func (c *c18Ctx) c18StraceCase(id int, rnd *rand.Rand) {
	r := c.r
	top := c18MkTmp(r, fmt.Sprintf("c18-t%d-", id))
	defer func() {
		c18Chmod(filepath.Join(top, "log"))
		os.RemoveAll(top)
	}()
	dir := filepath.Join(top, "log")
	_ = os.MkdirAll(dir, 0o755)
	chunk := uint32(400 + rnd.IntN(4000))
	seed := rnd.Uint64()
	if _, err := CreateEmptyFsBinlog(c18Opt(dir, chunk, 0)); err != nil {
		r.Inconclusive("CreateEmptyFsBinlog: " + err.Error())
		return
	}
	trace := filepath.Join(top, "trace")
	marker := filepath.Join(top, "c18-marker")
	wrap := []string{"strace", "-f", "--seccomp-bpf", "-e", "trace=openat,write,pwrite64,fsync,fdatasync,close", "-o", trace}
	nEv := 40 + rnd.IntN(80)
	delayUs := 0
	if rnd.IntN(2) == 0 {
		delayUs = 200 + rnd.IntN(800)
	}
	out, err := c18RunChild(dir, chunk, seed, nEv, delayUs, []string{"VERIF_C18_MARKER=" + marker}, 0, wrap)
	if err != nil || !out.done {
		msg := fmt.Sprint(err)
		if out != nil {
			msg = fmt.Sprintf("exit %q runerr %q ready %v apps %d", out.exit, out.runErr, out.ready, len(out.apps))
		}
		r.Inconclusive("strace'd child did not finish: " + msg)
		return
	}
	sys, err := c18ParseStrace(trace)
	if err != nil {
		r.Inconclusive("cannot read strace output: " + err.Error())
		return
	}
	c18Chmod(dir)
	st, perr := c18ParseDir(dir)
	if perr != nil {
		c.viol("C18/stream/undecodable", "log written by the strace'd child does not decode: "+perr.Error(), map[string]any{"case": id, "chunk": chunk, "child_seed": seed})
		return
	}
	start := map[string]int64{}
	final := map[string]int64{}
	for _, f := range st.files {
		start[f.Name] = f.Start
		final[f.Name] = f.Size
	}
	written := map[string]int64{filepath.Join(dir, c18Prefix+".000000.bin"): c18StartHdr}
	synced := map[string]int64{filepath.Join(dir, c18Prefix+".000000.bin"): c18StartHdr}
	fds := map[int64]string{}
	order := make([]string, 0, len(st.files))
	for _, f := range st.files {
		order = append(order, f.Name)
	}
	syncedGlobal := func() int64 {
		var g int64
		for _, name := range order {
			g = start[name] + synced[name]
			if synced[name] != final[name] {
				return g
			}
		}
		return g
	}
	markers, fsyncs, writes := 0, 0, 0
	wit := map[string]any{"case": id, "chunk": chunk, "child_seed": seed, "n": nEv, "how": "strace -f of TestVerifC18Child; marker write in Engine.Commit"}
	for _, s := range sys {
		switch s.name {
		case "openat":
			if m := c18RePath.FindStringSubmatch(s.args); m != nil && s.ret >= 0 {
				fds[s.ret] = m[1]
				if strings.Contains(s.args, "O_TRUNC") {
					written[m[1]], synced[m[1]] = 0, 0
				}
			}
		case "close":
			fd, _ := strconv.ParseInt(strings.TrimSuffix(strings.TrimSpace(strings.SplitN(s.args, ")", 2)[0]), ","), 10, 64)
			delete(fds, fd)
		case "write", "pwrite64":
			fdS := strings.SplitN(s.args, ",", 2)[0]
			fd, _ := strconv.ParseInt(strings.TrimSpace(fdS), 10, 64)
			p := fds[fd]
			switch {
			case p == marker:
				i := strings.Index(s.args, `"C `)
				j := strings.Index(s.args, `\n"`)
				if i < 0 || j < i {
					continue
				}
				off, _ := strconv.ParseInt(s.args[i+3:j], 10, 64)
				markers++
				sg := syncedGlobal()
				c.w.Case(off > c18StartHdr, fmt.Sprintf("fsync/%d/%d", id, off))
				if off > sg {
					c.viol("C18/commit/before-fsync", fmt.Sprintf("Engine.Commit(%d) was called while the fsync'ed prefix of the chunk files ends at %d (real syscalls)", off, sg), c18Merge(map[string]any{"commit": off, "synced_prefix": sg}, wit))
				}
			case strings.HasPrefix(filepath.Base(p), c18Prefix+".") && strings.HasSuffix(p, ".bin") && filepath.Dir(p) == dir:
				if s.ret > 0 {
					written[p] += s.ret
					writes++
				}
			}
		case "fsync", "fdatasync":
			fd, _ := strconv.ParseInt(strings.TrimSpace(strings.SplitN(s.args, ")", 2)[0]), 10, 64)
			if p, ok := fds[fd]; ok && s.ret == 0 && filepath.Dir(p) == dir {
				synced[p] = written[p]
				fsyncs++
			}
		}
	}
	c.w.Count("strace.children", 1)
	c.w.Count("strace.commit_markers", int64(markers))
	c.w.Count("strace.fsyncs", int64(fsyncs))
	c.w.Count("strace.binlog_writes", int64(writes))
	// the bookkeeping itself must agree with the files, otherwise the trace was not understood
	for name, sz := range final {
		if written[name] != sz {
			r.Inconclusive(fmt.Sprintf("strace bookkeeping: %s has %d bytes, the trace accounts for %d", filepath.Base(name), sz, written[name]))
			return
		}
	}
	if markers == 0 || markers != len(out.commits) {
		r.Inconclusive(fmt.Sprintf("strace case %d: %d commit markers in the trace, child reported %d commits", id, markers, len(out.commits)))
	}
}
