//go:build verif

package fsbinlog

// Independent decoder of the on-disk format, written from the record layouts (lev_definitions.go,
// schema.tl) and not from reader.go: it walks the raw bytes of every chunk, recomputes the
// cumulative crc32 itself and checks the links between chunks.

import (
	"encoding/binary"
	"fmt"
	"hash/crc32"
	"os"
	"sort"
)

type c18Rec struct {
	Kind  string // start tag crc rotate_to rotate_from event
	Pos   int64  // global position
	Size  int64  // size in the stream including padding
	File  int
	Local int64 // position inside the chunk file
}

type c18File struct {
	Name  string
	Start int64 // global position of byte 0
	Size  int64
	Crcs  []int64 // local positions of CRC records
}

type c18Stream struct {
	files  []c18File
	recs   []c18Rec
	evs    []c18Ev
	raw    []byte // concatenation of all chunks == the global stream
	bounds map[int64]bool
}

const (
	c18MagicStart = uint32(0x044c644b)
)

// c18ParseDir decodes all chunks of a cleanly written log.
func c18ParseDir(dir string) (*c18Stream, error) {
	names := c18Files(dir)
	type hf struct {
		name  string
		data  []byte
		start int64
	}
	var hs []hf
	for _, n := range names {
		b, err := os.ReadFile(n)
		if err != nil {
			return nil, err
		}
		if len(b) < 4 {
			return nil, fmt.Errorf("%s: %d bytes", n, len(b))
		}
		h := hf{name: n, data: b}
		switch binary.LittleEndian.Uint32(b) {
		case c18MagicStart:
			h.start = 0
		case magicLevRotateFrom:
			if len(b) < levRotateSize {
				return nil, fmt.Errorf("%s: short ROTATE_FROM header (%d bytes)", n, len(b))
			}
			h.start = int64(binary.LittleEndian.Uint64(b[8:]))
		default:
			return nil, fmt.Errorf("%s: unknown first record %08x", n, binary.LittleEndian.Uint32(b))
		}
		hs = append(hs, h)
	}
	sort.Slice(hs, func(i, j int) bool { return hs[i].start < hs[j].start })
	st := &c18Stream{bounds: map[int64]bool{}}
	var crc uint32
	var pos int64
	var prevTo []byte
	for fi, h := range hs {
		if h.start != pos {
			return nil, fmt.Errorf("%s starts at %d, previous chunk ended at %d", h.name, h.start, pos)
		}
		f := c18File{Name: h.name, Start: pos, Size: int64(len(h.data))}
		b := h.data
		local := int64(0)
		rotated := false
		for local < int64(len(b)) {
			if rotated {
				return nil, fmt.Errorf("%s: %d bytes behind ROTATE_TO", h.name, int64(len(b))-local)
			}
			rest := b[local:]
			if len(rest) < 4 {
				return nil, fmt.Errorf("%s: %d stray bytes at %d", h.name, len(rest), local)
			}
			typ := binary.LittleEndian.Uint32(rest)
			var size int64
			kind := ""
			switch typ {
			case c18MagicStart:
				kind, size = "start", 24
				if fi != 0 || local != 0 {
					return nil, fmt.Errorf("%s: LevStart at %d of chunk %d", h.name, local, fi)
				}
			case magicLevTag:
				kind, size = "tag", 20
			case magicLevCrc32:
				kind, size = "crc", levCrcSize
				if len(rest) < levCrcSize {
					return nil, fmt.Errorf("%s: short CRC record at %d", h.name, local)
				}
				if p := int64(binary.LittleEndian.Uint64(rest[8:])); p != pos {
					return nil, fmt.Errorf("%s: CRC record at %d says position %d", h.name, pos, p)
				}
				if c := binary.LittleEndian.Uint32(rest[16:]); c != crc {
					return nil, fmt.Errorf("%s: CRC record at %d holds %08x, crc32 of the stream before it is %08x", h.name, pos, c, crc)
				}
				f.Crcs = append(f.Crcs, local)
			case magicLevRotateTo:
				kind, size = "rotate_to", levRotateSize
				if len(rest) < levRotateSize {
					return nil, fmt.Errorf("%s: short ROTATE_TO at %d", h.name, local)
				}
				if np := int64(binary.LittleEndian.Uint64(rest[8:])); np != pos+levRotateSize {
					return nil, fmt.Errorf("%s: ROTATE_TO at %d says next position %d", h.name, pos, np)
				}
				if c := binary.LittleEndian.Uint32(rest[16:]); c != crc {
					return nil, fmt.Errorf("%s: ROTATE_TO at %d holds crc %08x, stream crc is %08x", h.name, pos, c, crc)
				}
				prevTo = append([]byte(nil), rest[:levRotateSize]...)
				rotated = true
			case magicLevRotateFrom:
				kind, size = "rotate_from", levRotateSize
				if fi == 0 || local != 0 {
					return nil, fmt.Errorf("%s: ROTATE_FROM at %d of chunk %d", h.name, local, fi)
				}
				if prevTo == nil {
					return nil, fmt.Errorf("%s: previous chunk has no ROTATE_TO", h.name)
				}
				if c := binary.LittleEndian.Uint32(rest[16:]); c != crc {
					return nil, fmt.Errorf("%s: ROTATE_FROM holds crc %08x, stream crc is %08x", h.name, c, crc)
				}
				// PrevLogHash == ROTATE_TO.CurLogHash, CurLogHash == ROTATE_TO.NextLogHash
				if string(rest[20:36]) != string(prevTo[20:36]) {
					return nil, fmt.Errorf("%s: ROTATE_FROM hashes do not continue the ROTATE_TO of the previous chunk", h.name)
				}
				prevTo = nil
			case c18Magic:
				kind = "event"
				if len(rest) < 8 {
					return nil, fmt.Errorf("%s: short event header at %d", h.name, local)
				}
				n := int64(binary.LittleEndian.Uint32(rest[4:]))
				size = int64(AddPadding(int(8 + n)))
				if int64(len(rest)) < size {
					return nil, fmt.Errorf("%s: event at %d (size %d) exceeds the chunk", h.name, local, size)
				}
				for _, z := range rest[8+n : size] {
					if z != 0 {
						return nil, fmt.Errorf("%s: non-zero padding behind the event at %d", h.name, local)
					}
				}
				st.evs = append(st.evs, c18Ev{pos, string(rest[8 : 8+n])})
			default:
				return nil, fmt.Errorf("%s: unknown record %08x at %d (global %d)", h.name, typ, local, pos)
			}
			if int64(len(rest)) < size {
				return nil, fmt.Errorf("%s: short %s record at %d", h.name, kind, local)
			}
			st.recs = append(st.recs, c18Rec{kind, pos, size, fi, local})
			st.bounds[pos] = true
			crc = crc32.Update(crc, crc32.IEEETable, rest[:size])
			pos += size
			local += size
		}
		if fi != len(hs)-1 && !rotated {
			return nil, fmt.Errorf("%s is not the last chunk and does not end with ROTATE_TO", h.name)
		}
		st.bounds[pos] = true
		st.files = append(st.files, f)
		st.raw = append(st.raw, b...)
	}
	return st, nil
}

// c18CheckStream: the raw files decode, independently of reader.go, to exactly the appended
// events at the offsets Append returned.
func (c *c18Ctx) c18CheckStream(lg *c18Log) *c18Stream {
	st, err := c18ParseDir(lg.dir)
	c.w.Case(len(lg.appended) > 0, fmt.Sprintf("stream/%d/%d", lg.id, len(lg.appended)))
	if err != nil {
		c.viol("C18/stream/undecodable", "the chunk files written by a clean session do not decode with an independent decoder: "+err.Error(), c.witness(lg, nil))
		return nil
	}
	if !c18SameEvs(st.evs, lg.appended) {
		c.viol("C18/stream/differs", "the raw chunk files do not hold the appended events at the returned offsets: "+c18Diff(st.evs, lg.appended), c.witness(lg, nil))
		return nil
	}
	for _, f := range st.files {
		c.w.Count("stream.crc_records", int64(len(f.Crcs)))
	}
	for _, cm := range lg.commits {
		if !st.bounds[cm.Off] {
			c.viol("C18/commit/not-at-record-boundary", fmt.Sprintf("commit offset %d is inside a record of the stream", cm.Off), c.witness(lg, nil))
		}
	}
	return st
}
