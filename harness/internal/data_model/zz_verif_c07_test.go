//go:build verif

package data_model

import (
	"fmt"
	"math"
	mrand "math/rand/v2"
	"sort"
	"strings"
	"testing"

	"pgregory.net/rand"

	"github.com/VKCOM/statshouse/internal/data_model/gen2/tlstatshouse"
	"github.com/VKCOM/statshouse/internal/format"
	"github.com/VKCOM/statshouse/internal/zzverif/verifkit"
)

// C07 — string-top rows conserve totals and keep the heaviest values.
//
// One history = a sequence of writes into one MultiItem through the calls the agent and the aggregator make
// (MapStringTop / MapStringTopBytes + Add*/Apply*/Merge, MergeWithTLMultiItem of another row's wire form) under a
// capacity that forces probabilistic eviction, then FinishStringTop(c').  The monitor re-adds Top ∪ Tail after
// every step and compares with running totals kept outside the row.

type c07Totals struct {
	count, sum float64
	min, max   float64
	valued     bool
}

func (t *c07Totals) add(count, sum float64, valued bool, mn, mx float64) {
	t.count += count
	if valued {
		t.sum += sum
		if !t.valued || mn < t.min {
			t.min = mn
		}
		if !t.valued || mx > t.max {
			t.max = mx
		}
		t.valued = true
	}
}

func c07Observe(item *MultiItem) c07Totals {
	var o c07Totals
	add := func(v *MultiValue) {
		o.add(v.Value.Count(), v.Value.ValueSum, v.Value.ValueSet, v.Value.ValueMin, v.Value.ValueMax)
	}
	add(&item.Tail)
	for _, v := range item.Top {
		add(v)
	}
	return o
}

func (t c07Totals) equal(o c07Totals) bool {
	if t.count != o.count || t.valued != o.valued {
		return false
	}
	return !t.valued || (t.sum == o.sum && t.min == o.min && t.max == o.max)
}

func (t c07Totals) String() string {
	if !t.valued {
		return fmt.Sprintf("count=%v (no values)", t.count)
	}
	return fmt.Sprintf("count=%v sum=%v min=%v max=%v", t.count, t.sum, t.min, t.max)
}

type c07Step struct {
	Op    string    `json:"op"`
	Tag   string    `json:"tag,omitempty"`
	Count float64   `json:"count,omitempty"`
	Vals  []float64 `json:"vals,omitempty"`
	Cap   int       `json:"cap"`
	Wire  []string  `json:"wire,omitempty"` // for tl-merge: "tag:count[:min:max:sum]"
}

func c07Tag(rnd *mrand.Rand, pool int) TagUnion {
	k := int(float64(pool) * math.Pow(rnd.Float64(), 3)) // Zipf-like
	switch rnd.IntN(12) {
	case 0:
		return TagUnion{} // no top value: goes to the tail
	case 1, 2:
		return TagUnion{I: int32(k + 1)}
	case 3:
		return TagUnion{I: int32(k + 1), S: "shadowed"} // I has priority over S
	default:
		return TagUnion{S: fmt.Sprintf("v%d", k)}
	}
}

func c07TagString(t TagUnion) string {
	if t.I != 0 {
		return fmt.Sprintf("#%d", t.I)
	}
	return t.S
}

// wire form of a row, built the way Shard.sampleBucket's keepF builds it
func c07ToWire(v *MultiItem, sf float64) []byte {
	item := v.Key.TLMultiItemFromKey(0)
	var scratch []byte
	scratch = v.Tail.MultiValueToTL(&format.MetricMetaValue{}, &item.Tail, sf, &item.FieldsMask, scratch)
	var top []tlstatshouse.TopElement
	keys := make([]TagUnion, 0, len(v.Top))
	for key := range v.Top {
		keys = append(keys, key)
	}
	sort.Slice(keys, func(i, j int) bool {
		if keys[i].I != keys[j].I {
			return keys[i].I < keys[j].I
		}
		return keys[i].S < keys[j].S
	})
	for _, key := range keys {
		el := tlstatshouse.TopElement{Stag: key.S}
		if key.I != 0 {
			el.SetTag(key.I)
		}
		scratch = v.Top[key].MultiValueToTL(&format.MetricMetaValue{}, &el.Value, sf, &el.FieldsMask, scratch)
		top = append(top, el)
	}
	if len(top) != 0 {
		item.SetTop(top)
	}
	return item.WriteTL1(nil)
}

// what one wire value contributes, by the wire format's own rules (absent fields take their defaults)
func c07WireContribution(v *tlstatshouse.MultiValueBytes, fm uint32) (count, sum float64, valued bool, mn, mx float64) {
	count = v.Counter
	if v.IsSetCounterEq1(fm) {
		count = 1
	}
	if count == 0 {
		return 0, 0, false, 0, 0
	}
	if !v.IsSetValueSet(fm) {
		return count, 0, false, 0, 0
	}
	mn, mx, sum = v.ValueMin, v.ValueMax, v.ValueSum
	if !v.IsSetValueMax(fm) {
		mx, sum = mn, mn*count
	}
	return count, sum, true, mn, mx
}

func TestVerifC07(t *testing.T) {
	r := verifkit.Start(t, "C07", "data_model")
	defer r.Finish()
	r.SetRule("histories of 1–5000 writes (counter, value, value array, unique, ItemValue merge through MapStringTop / MapStringTopBytes; merge of another row's wire form through MergeWithTLMultiItem) " +
		"with Zipf-like top values from pools of 1–400, int and string tags, capacities 1–50 (0 ⇒ default 100, changing mid-history in some), integer counts and values, then FinishStringTop(c'), c' in −1…capacity+3; " +
		"conservation is checked after every write; non-trivial = the history had ≥1 probabilistic eviction (sampleFactorLog2 > 0); distinct = distinct (capacity, pool, length, first 64 writes, c').")
	workers := 16
	n := r.N(6000, 100000)
	r.Parallel(workers, "histories", func(w *verifkit.Worker) {
		rnd := w.Rnd
		rng := rand.New(r.SubSeed(fmt.Sprintf("rng/%d", w.Index)))
		for it := 0; it < n/workers; it++ {
			capacity := 1 + rnd.IntN(20)
			switch rnd.IntN(10) {
			case 0:
				capacity = 1 + rnd.IntN(50)
			case 1:
				capacity = 0 // default capacity 100
			case 2:
				capacity = 1
			}
			varyCap := rnd.IntN(10) == 0
			pool := 1 + rnd.IntN(60)
			if capacity == 0 || rnd.IntN(8) == 0 {
				pool = 1 + rnd.IntN(400)
			}
			steps := 1 + rnd.IntN(800)
			switch rnd.IntN(12) {
			case 0:
				steps = 1 + rnd.IntN(5000)
			case 1, 2:
				steps = 1 + rnd.IntN(30)
			}
			var item MultiItem
			item.Key.Metric = 77
			var want c07Totals
			var hist []c07Step
			written := map[TagUnion]bool{}
			failed := false
			evictionSeenAt := -1
			maxTop := 0
			var sig strings.Builder
			fmt.Fprintf(&sig, "%d/%d/%d|", capacity, pool, steps)
			for st := 0; st < steps && !failed; st++ {
				cp := capacity
				if varyCap && rnd.IntN(20) == 0 {
					cp = 1 + rnd.IntN(30)
				}
				sfLogBefore := item.sampleFactorLog2
				tag := c07Tag(rnd, pool)
				cnt := float64(1 + rnd.IntN(5))
				if rnd.IntN(20) == 0 {
					cnt = float64(1 + rnd.IntN(200))
				}
				val := float64(rnd.IntN(1000) - 500)
				step := c07Step{Tag: c07TagString(tag), Count: cnt, Cap: cp}
				norm := tag
				norm.Normalize()
				op := rnd.IntN(16)
				switch {
				case op < 4:
					step.Op = "counter"
					item.MapStringTop(rng, cp, tag, cnt).AddCounterHost(rng, cnt, TagUnion{})
					want.add(cnt, 0, false, 0, 0)
				case op < 8:
					step.Op, step.Vals = "value", []float64{val}
					item.MapStringTop(rng, cp, tag, cnt).AddValueCounterHost(rng, val, cnt, TagUnion{I: 3})
					want.add(cnt, val*cnt, true, val, val)
				case op < 10:
					step.Op = "counter-bytes"
					buf := []byte(tag.S)
					item.MapStringTopBytes(rng, cp, TagUnionBytes{S: buf, I: tag.I}, cnt).AddCounterHost(rng, cnt, TagUnion{})
					for i := range buf { // the caller's buffer is reused by the next event
						buf[i] = '!'
					}
					want.add(cnt, 0, false, 0, 0)
				case op < 11:
					step.Op = "values"
					vals := []float64{val, val + float64(rnd.IntN(3)), float64(rnd.IntN(1000) - 500)}[:1+rnd.IntN(3)]
					step.Vals = vals
					c := float64(len(vals))
					step.Count = c
					item.MapStringTop(rng, cp, tag, c).ApplyValues(rng, nil, vals, c, c, TagUnion{}, AgentPercentileCompression, rnd.IntN(2) == 0)
					var s float64
					mn, mx := math.Inf(1), math.Inf(-1)
					for _, v := range vals {
						s += v
						mn, mx = math.Min(mn, v), math.Max(mx, v)
					}
					want.add(c, s, true, mn, mx)
				case op < 12:
					step.Op = "unique"
					hs := []int64{int64(val), int64(val) + int64(rnd.IntN(2))}
					step.Vals = []float64{float64(hs[0]), float64(hs[1])}
					step.Count = 2
					item.MapStringTop(rng, cp, tag, 2).ApplyUnique(rng, hs, 2, TagUnion{})
					want.add(2, float64(hs[0]+hs[1]), true, float64(min(hs[0], hs[1])), float64(max(hs[0], hs[1])))
				case op < 13:
					step.Op, step.Vals = "merge-item-value", []float64{val}
					iv := SimpleItemValue(val, cnt, TagUnion{I: 9})
					item.MapStringTop(rng, cp, tag, iv.Count()).Value.Merge(rng, &iv)
					want.add(cnt, val*cnt, true, val, val)
				default:
					// another row (an agent's) arrives in wire form, as in handleSendSourceBucket
					step.Op = "tl-merge"
					var src MultiItem
					src.Key.Metric = 77
					valuedSrc := rnd.IntN(2) == 0 // one kind per row: a counter-only + value mix is C02's finding, not ours
					for k := 1 + rnd.IntN(12); k > 0; k-- {
						tg := c07Tag(rnd, pool)
						c := float64(1 + rnd.IntN(4))
						mv := src.MapStringTop(rng, 0, tg, c)
						if valuedSrc {
							mv.AddValueCounterHost(rng, float64(rnd.IntN(1000)-500), c, TagUnion{})
						} else {
							mv.AddCounterHost(rng, c, TagUnion{})
						}
						tg.Normalize()
						written[tg] = true
					}
					sf := []float64{1, 1, 2, 4}[rnd.IntN(4)]
					raw := c07ToWire(&src, sf)
					var ib, ref tlstatshouse.MultiItemBytes
					_, err1 := ib.ReadTL1(raw)
					_, err2 := ref.ReadTL1(raw)
					if err1 != nil || err2 != nil {
						r.Inconclusive(fmt.Sprintf("harness: wire form did not decode: %v %v", err1, err2))
						failed = true
						break
					}
					for i := range ref.Top {
						c, s, valued, mn, mx := c07WireContribution(&ref.Top[i].Value, ref.Top[i].FieldsMask)
						want.add(c, s, valued, mn, mx)
						step.Wire = append(step.Wire, fmt.Sprintf("%s#%d:%v:%v:%v:%v", ref.Top[i].Stag, ref.Top[i].Tag, c, mn, mx, s))
					}
					c, s, valued, mn, mx := c07WireContribution(&ref.Tail, ref.FieldsMask)
					want.add(c, s, valued, mn, mx)
					step.Wire = append(step.Wire, fmt.Sprintf("tail:%v:%v:%v:%v", c, mn, mx, s))
					step.Tag, step.Count = "", 0
					if e := item.MergeWithTLMultiItem(rng, cp, &ib, TagUnion{I: 5}); e != 0 {
						r.Inconclusive(fmt.Sprintf("harness: MergeWithTLMultiItem rejected a generated row: ingestion error %d", e))
						failed = true
					}
					w.Count("steps.tl_merge", 1)
				}
				if step.Op != "tl-merge" {
					written[norm] = true
					w.Count("steps.map_"+step.Op, 1)
				}
				if len(hist) < 400 {
					hist = append(hist, step)
				}
				if st < 64 {
					fmt.Fprintf(&sig, "%s,%s,%v;", step.Op, step.Tag, step.Count)
				}
				if item.sampleFactorLog2 > 0 && evictionSeenAt < 0 {
					evictionSeenAt = st
				}
				maxTop = max(maxTop, len(item.Top))
				if got := c07Observe(&item); !got.equal(want) {
					cls := "count"
					if got.count == want.count {
						cls = "sum-min-max"
					}
					where := "plain-write"
					if item.sampleFactorLog2 != sfLogBefore {
						where = "write-with-eviction" // resample ran inside this write
					}
					r.Violation("C07/conservation/"+cls+"/"+where,
						fmt.Sprintf("after write %d (%s) Top ∪ Tail holds %v, written so far %v", st, step.Op, got, want),
						map[string]any{"capacity": capacity, "pool": pool, "step": st, "history(first 400 writes)": hist, "sample_factor_log2": item.sampleFactorLog2})
					failed = true
				}
			}
			if failed {
				w.Case(false, "")
				continue
			}
			// finalization
			fin := rnd.IntN(max(capacity, 1) + 4) - 1
			if rnd.IntN(6) == 0 {
				fin = rnd.IntN(3)
			}
			before := map[TagUnion]float64{}
			for k, v := range item.Top {
				before[k] = v.Value.Count()
				if !written[k] {
					r.Violation("C07/top-key/never-written", fmt.Sprintf("top holds value %q that no write carried", c07TagString(k)),
						map[string]any{"capacity": capacity, "pool": pool, "history(first 400 writes)": hist})
				}
			}
			item.FinishStringTop(rng, fin)
			witness := func() any {
				after := map[string]float64{}
				for k, v := range item.Top {
					after[c07TagString(k)] = v.Value.Count()
				}
				bf := map[string]float64{}
				for k, v := range before {
					bf[c07TagString(k)] = v
				}
				return map[string]any{"capacity": capacity, "pool": pool, "finish_capacity": fin, "top_before": bf, "top_after": after, "history(first 400 writes)": hist}
			}
			if got := c07Observe(&item); !got.equal(want) {
				r.Violation("C07/conservation/after-finish", fmt.Sprintf("after FinishStringTop(%d) Top ∪ Tail holds %v, written %v", fin, got, want), witness())
			}
			if fin >= 0 {
				if len(item.Top) > fin {
					r.Violation("C07/finish/more-than-capacity", fmt.Sprintf("%d top values remain after FinishStringTop(%d)", len(item.Top), fin), witness())
				}
			} else {
				w.R.NotJudged("finish_with_negative_capacity(at-most clause)", 1)
			}
			minKept := math.Inf(1)
			for k, v := range item.Top {
				minKept = math.Min(minKept, v.Value.Count())
				if c, ok := before[k]; !ok || c != v.Value.Count() {
					r.Violation("C07/finish/retained-value-changed", fmt.Sprintf("retained value %q has count %v, had %v before finalization", c07TagString(k), v.Value.Count(), c), witness())
				}
			}
			folded := 0
			for k, c := range before {
				if _, kept := item.Top[k]; !kept {
					folded++
					if c > minKept {
						r.Violation("C07/finish/folded-heavier-than-kept", fmt.Sprintf("value %q with count %v was folded into the tail while a value with count %v was kept", c07TagString(k), c, minKept), witness())
					}
				}
			}
			if folded > 0 {
				w.Count("histories.finish_folded_some", 1)
			}
			if len(item.Top) > 0 && folded > 0 {
				w.Count("histories.finish_kept_and_folded", 1)
			}
			if evictionSeenAt >= 0 {
				w.Count("histories.with_eviction", 1)
			}
			w.R.MaxCounter("max_top_len", int64(maxTop))
			w.R.MaxCounter("max_sample_factor_log2", int64(item.sampleFactorLog2))
			fmt.Fprintf(&sig, "|%d", fin)
			w.Case(evictionSeenAt >= 0, sig.String())
			if w.Index == 0 && it < 3 && len(hist) <= 30 {
				r.Sample(map[string]any{"capacity": capacity, "pool": pool, "writes": hist, "finish_capacity": fin, "totals": want.String(), "sample_factor_log2": item.sampleFactorLog2})
			}
		}
	})
}
