//go:build verif

package data_model

import (
	"fmt"
	"math"
	mrand "math/rand/v2"
	"sort"
	"strings"
	"sync"
	"testing"

	"pgregory.net/rand"

	"github.com/VKCOM/statshouse/internal/format"
	"github.com/VKCOM/statshouse/internal/zzverif/verifkit"
)

// C05 — sampling keeps the expected value of every row unchanged.
//
// Every configuration (bucket + options + budget) is run N times through the real sampler with the real
// selectRandom / roundSampleFactor and a seeded pgregory rand.  Per run the monitor checks the callback discipline
// and the deterministic clauses; across runs it tests, for every row, E[kept ? SF : 0] = 1.
//
// Statistical test (per row, two-sided).  The factor S_t handed to the row is observed in EVERY run (kept and
// discarded rows both carry it).  The property says a kept row carries the inverse of its keep probability, i.e.
// P(kept_t | S_t) = 1/S_t, so under the property X_t = S_t·[kept_t] are independent over runs, X_t ∈ {0, S_t},
// E[X_t | S_t] = 1, Var[X_t | S_t] = S_t − 1.  Conditionally on the observed S_1..S_N Bernstein's inequality gives
//     P(|Σ(X_t − 1)| ≥ ε) ≤ 2·exp(−ε² / (2(V + M·ε/3))),  V = Σ(S_t − 1),  M = max(1, max S_t − 1)
// hence ε(δ) = M·L/3 + sqrt((M·L/3)² + 2·V·L) with L = ln(2/δ).  Stage 1 flags a row at δ1 = 1e-7; a flagged
// configuration is re-sampled with 30·N runs and a fresh sub-seed and only a row that is again outside ε(δ2),
// δ2 = 1e-17, is a violation.  A row is reported only if it fails stage 2, so the false-alarm probability of one
// check run is ≤ (#row tests)·δ2 ≤ 4 000 configurations × 300 rows × 1e-17 = 1.2e-11 (< 1e-9), whatever δ1 is.

type c05Row struct {
	Metric  int32   `json:"metric"`
	Size    int     `json:"size"`
	Whale   float64 `json:"whale"`
	Fair    []int32 `json:"fair,omitempty"`
	item    *MultiItem
	fixed   uint32
	nosamp  bool
	topKey  int64 // top-level partition
	// one run
	seen int
	kept bool
	sf   float64
	// accumulated over runs
	sumX, sumV, maxS, minS float64
	keptN, certainDrops    int
}

type c05MetricSpec struct {
	ID       int32 `json:"id"`
	NS       int32 `json:"ns"`
	Group    int32 `json:"group"`
	W        int64 `json:"w"`
	NSW      int64 `json:"ns_w"`
	GroupW   int64 `json:"group_w"`
	Rows     int   `json:"rows"`
	Fair     int   `json:"fair_levels"`
	Fixed    int64 `json:"fixed_budget,omitempty"`
	NoSample bool  `json:"no_sample_agent,omitempty"`
	Known    bool  `json:"in_meta"`
}

type c05Case struct {
	Metrics []c05MetricSpec `json:"metrics"`
	Rows    []*c05Row       `json:"rows"`
	Budget  int64           `json:"budget"`
	Tiny    bool            `json:"tiny_shares"`
	Total   int64           `json:"total_size_without_fixed_budget_metrics"`
	Opt     struct {
		ModeAgent, KeepSingle, DisableNoSampleAgent, Budgets, Namespaces, Groups, Keys bool
	} `json:"options"`
	meta *c06MetaC05
}

type c06MetaC05 struct {
	metrics map[int32]*format.MetricMetaValue
	groups  map[int32]*format.MetricsGroup
	nss     map[int32]*format.NamespaceMeta
}

func (m *c06MetaC05) GetMetaMetric(id int32) *format.MetricMetaValue     { return m.metrics[id] }
func (m *c06MetaC05) GetMetaMetricByName(string) *format.MetricMetaValue { return nil }
func (m *c06MetaC05) GetGroup(id int32) *format.MetricsGroup             { return m.groups[id] }
func (m *c06MetaC05) GetNamespace(id int32) *format.NamespaceMeta        { return m.nss[id] }
func (m *c06MetaC05) GetNamespaceByName(string) *format.NamespaceMeta    { return nil }
func (m *c06MetaC05) GetGroupByName(string) *format.MetricsGroup         { return nil }

const c05IdxTag = format.MaxTags - 1 // the row index travels in the last tag of the key

func c05Gen(rnd *mrand.Rand) *c05Case {
	c := &c05Case{meta: &c06MetaC05{metrics: map[int32]*format.MetricMetaValue{}, groups: map[int32]*format.MetricsGroup{}, nss: map[int32]*format.NamespaceMeta{}}}
	o := &c.Opt
	o.ModeAgent, o.KeepSingle, o.DisableNoSampleAgent = rnd.IntN(2) == 0, rnd.IntN(3) == 0, rnd.IntN(4) == 0
	o.Budgets, o.Namespaces, o.Groups, o.Keys = rnd.IntN(3) == 0, rnd.IntN(3) != 0, rnd.IntN(3) != 0, rnd.IntN(3) != 0
	targetRows := 1 + rnd.IntN(40)
	switch rnd.IntN(6) {
	case 0:
		targetRows = 1 + rnd.IntN(300)
	case 1:
		targetRows = 1 + rnd.IntN(5)
	}
	// tiny shares: a budget of a few bytes over nested levels, so that roundSampleFactor gives many groups budget 0
	c.Tiny = rnd.IntN(4) == 0
	if c.Tiny {
		o.Namespaces, o.Groups = true, true
		o.Keys = rnd.IntN(2) == 0
		o.Budgets = rnd.IntN(6) == 0
		targetRows = 2 + rnd.IntN(30)
	}
	mid := int32(100)
	nns := 1 + rnd.IntN(3)
	for ns := 1; ns <= nns; ns++ {
		nsw := int64(1 + rnd.IntN(4))
		c.meta.nss[int32(ns)] = &format.NamespaceMeta{ID: int32(ns), EffectiveWeight: nsw}
		for g, ng := 0, 1+rnd.IntN(3); g < ng; g++ {
			gid := int32(ns*10 + g)
			gw := int64(1 + rnd.IntN(4))
			c.meta.groups[gid] = &format.MetricsGroup{ID: gid, NamespaceID: int32(ns), EffectiveWeight: gw}
			for m, nm := 0, 1+rnd.IntN(3); m < nm; m++ {
				mid++
				sp := c05MetricSpec{ID: mid, NS: int32(ns), Group: gid, W: int64(1 + rnd.IntN(4)), NSW: nsw, GroupW: gw, Known: true}
				if o.Keys && rnd.IntN(3) == 0 {
					sp.Fair = 1 + rnd.IntN(3)
				}
				sp.NoSample = rnd.IntN(8) == 0
				if rnd.IntN(14) == 0 {
					sp.Known, sp.NS, sp.Group, sp.W, sp.NSW, sp.GroupW, sp.Fair, sp.NoSample = false, format.BuiltinNamespaceIDMissing, format.BuiltinGroupIDMissing, 1, 1, 1, 0, false
				}
				c.Metrics = append(c.Metrics, sp)
			}
		}
	}
	// spread the rows over the metrics
	for i := 0; i < targetRows; i++ {
		c.Metrics[rnd.IntN(len(c.Metrics))].Rows++
	}
	sizeMax := 1 + rnd.IntN(200)
	if c.Tiny {
		sizeMax = 1 + rnd.IntN(12)
	}
	for mi := range c.Metrics {
		sp := &c.Metrics[mi]
		if sp.Rows == 0 {
			continue
		}
		var mm *format.MetricMetaValue
		if sp.Known {
			mm = &format.MetricMetaValue{MetricID: sp.ID, NamespaceID: sp.NS, GroupID: sp.Group, EffectiveWeight: sp.W, NoSampleAgent: sp.NoSample}
			for f := 0; f < sp.Fair; f++ {
				mm.FairKeyIndex = append(mm.FairKeyIndex, 1+f)
			}
			c.meta.metrics[sp.ID] = mm
		}
		attach := sp.Known && rnd.IntN(2) == 0
		var msize int64
		first := len(c.Rows)
		for r := 0; r < sp.Rows; r++ {
			row := &c05Row{Metric: sp.ID, Size: 1 + rnd.IntN(sizeMax), Whale: float64(rnd.IntN(6)), nosamp: sp.NoSample}
			if rnd.IntN(4) == 0 {
				row.Whale = rnd.Float64() * 1000
			}
			if rnd.IntN(200) == 0 {
				row.Size = 0 // Add discards such a row at once
			}
			it := &MultiItem{}
			it.Key.Metric = sp.ID
			if attach {
				it.MetricMeta = mm
			}
			for f := 0; f < sp.Fair; f++ {
				v := int32(rnd.IntN(3))
				it.Key.Tags[1+f] = v
				row.Fair = append(row.Fair, v)
			}
			if rnd.IntN(3) == 0 {
				it.Tail.HLL.Insert(uint64(r)) // not a "single value counter" for SampleKeepSingle
			}
			it.Key.Tags[c05IdxTag] = int32(len(c.Rows))
			row.item = it
			switch {
			case o.Namespaces:
				row.topKey = int64(sp.NS)
			case o.Groups:
				row.topKey = int64(sp.Group)
			default:
				row.topKey = int64(sp.ID)
			}
			c.Rows = append(c.Rows, row)
			msize += int64(row.Size)
		}
		if o.Budgets && rnd.IntN(3) == 0 && msize > 0 {
			sp.Fixed = 1 + rnd.Int64N(2*msize)
			for _, row := range c.Rows[first:] {
				row.fixed = uint32(sp.Fixed)
			}
		} else {
			c.Total += msize
		}
	}
	switch rnd.IntN(8) {
	case 0:
		c.Budget = c.Total + rnd.Int64N(c.Total+1) // everything fits
	case 1:
		c.Budget = 1 + c.Total/100 // 1 % fits
	case 2:
		c.Budget = 1 + c.Total/(2+rnd.Int64N(30))
	default:
		c.Budget = 1 + rnd.Int64N(c.Total+1)
	}
	if c.Tiny {
		c.Budget = 1 + rnd.Int64N(4)
	}
	return c
}

func (c *c05Case) topWeight(row *c05Row) int64 {
	var sp *c05MetricSpec
	for i := range c.Metrics {
		if c.Metrics[i].ID == row.Metric {
			sp = &c.Metrics[i]
		}
	}
	switch {
	case c.Opt.Namespaces:
		return sp.NSW
	case c.Opt.Groups:
		return sp.GroupW
	}
	return sp.W
}

func c05Eps(V, M, delta float64) float64 {
	L := math.Log(2 / delta)
	a := M * L / 3
	return a + math.Sqrt(a*a+2*V*L)
}

const (
	c05NoProbability = 1e30 // factors at or above this are sentinels, not inverse probabilities
	c05Delta1 = 1e-7
	c05Delta2 = 1e-17
)

type c05Sim struct {
	r   *verifkit.Run
	w   *verifkit.Worker
	c   *c05Case
	rng *rand.Rand
	// per-run deterministic expectations
	mustWhole []bool // row must be kept with factor 1 in every run
	whyWhole  []string
	behindBreak []bool // SampleBudgets: the row's top-level group is sorted at or behind a group that does not fit
	violated  map[string]bool
}

func (s *c05Sim) witness(extra map[string]any) any {
	out := map[string]any{"case": s.c}
	for k, v := range extra {
		out[k] = v
	}
	return out
}

func (s *c05Sim) reset() {
	for _, row := range s.c.Rows {
		row.sumX, row.sumV, row.maxS, row.minS, row.keptN, row.certainDrops = 0, 0, 0, math.Inf(1), 0, 0
	}
}

// runs the configuration n times, accumulating per-row statistics
func (s *c05Sim) runs(n int, judgeRuns bool) {
	c := s.c
	rows := c.Rows
	keepF := func(v *MultiItem, _ uint32, _ uint32) {
		row := rows[v.Key.Tags[c05IdxTag]]
		row.seen++
		row.kept, row.sf = true, v.SF
	}
	discardF := func(v *MultiItem, _ uint32) {
		row := rows[v.Key.Tags[c05IdxTag]]
		row.seen++
		row.kept, row.sf = false, v.SF
	}
	var buffers SamplerBuffers
	for t := 0; t < n; t++ {
		for _, row := range rows {
			row.seen = 0
		}
		sm := NewSampler(SamplerConfig{
			ModeAgent: c.Opt.ModeAgent, SampleKeepSingle: c.Opt.KeepSingle, DisableNoSampleAgent: c.Opt.DisableNoSampleAgent,
			SampleBudgets: c.Opt.Budgets, SampleNamespaces: c.Opt.Namespaces, SampleGroups: c.Opt.Groups, SampleKeys: c.Opt.Keys,
			Meta: c.meta, Rand: s.rng, KeepF: keepF, DiscardF: discardF, SamplerBuffers: buffers,
		})
		for _, row := range rows {
			p := SamplingMultiItemPair{Item: row.item, WhaleWeight: row.Whale, Size: row.Size, MetricID: row.Metric}
			if c.Opt.Budgets {
				p.Budget = row.fixed
			}
			sm.Add(p)
		}
		sm.Run(c.Budget)
		buffers = sm.SamplerBuffers
		for i, row := range rows {
			if judgeRuns {
				if row.seen != 1 {
					s.once("C05/callbacks/not-exactly-once", fmt.Sprintf("row %d got %d keep/discard callbacks in one run", i, row.seen), map[string]any{"row": i, "run": t})
				}
				if row.kept && row.sf < 1 {
					cls := "other"
					if s.behindBreak[i] {
						cls = "fixed-budget-break"
					}
					s.once("C05/kept-with-factor-below-one/"+cls, fmt.Sprintf("row %d kept with factor %v < 1", i, row.sf), map[string]any{"row": i, "run": t})
				}
				if s.mustWhole[i] && (!row.kept || row.sf != 1) {
					s.once("C05/unconditional-row-not-kept-with-factor-1/"+s.whyWhole[i], fmt.Sprintf("row %d (%s) kept=%v factor=%v", i, s.whyWhole[i], row.kept, row.sf), map[string]any{"row": i, "run": t})
				}
			}
			if row.seen != 1 {
				continue
			}
			S := row.sf
			if row.Size >= 1 && !row.kept && !(S < c05NoProbability) {
				// A factor like MaxFloat32 (or Inf/NaN) is not the inverse of a keep probability anybody can realise:
				// the row was dropped with certainty in this run.  It enters the expectation test as X = 0 without
				// variance (and is a per-run violation of its own).
				row.certainDrops++
				if judgeRuns {
					s.once("C05/discard-factor-is-not-a-keep-probability", fmt.Sprintf("row %d of size %d was discarded with factor %v: dropped with certainty although it was handed to the sampler with a size", i, row.Size, S), map[string]any{"row": i, "run": t})
				}
				continue
			}
			if row.kept {
				row.sumX += S
				row.keptN++
			}
			if S >= 1 {
				row.sumV += S - 1
			}
			row.maxS = math.Max(row.maxS, S)
			row.minS = math.Min(row.minS, S)
		}
	}
}

func (s *c05Sim) once(key, what string, extra map[string]any) {
	if s.violated[key] {
		s.w.Count("repeat."+key, 1)
		return
	}
	s.violated[key] = true
	s.r.Violation(key, what, s.witness(extra))
}

// rows outside ε(δ) after n runs
func (s *c05Sim) outliers(n int, delta float64) []int {
	var out []int
	for i, row := range s.c.Rows {
		if row.Size < 1 || row.minS < 1 {
			continue
		}
		M := math.Max(1, row.maxS-1)
		if math.Abs(row.sumX-float64(n)) > c05Eps(row.sumV, M, delta) {
			out = append(out, i)
		}
	}
	return out
}

func TestVerifC05(t *testing.T) {
	r := verifkit.Start(t, "C05", "data_model")
	defer r.Finish()
	r.SetRule("configurations: 1–300 rows of random sizes (1–200) and whale weights over 1–3 namespaces × 1–3 groups × 1–3 metrics with weights 1–4, 0–3 fair-key levels, optional fixed per-metric budgets, " +
		"NoSampleAgent metrics, metrics unknown to the metadata, every combination of ModeAgent/SampleKeepSingle/DisableNoSampleAgent/SampleBudgets/Namespaces/Groups/Keys, budgets from 'everything fits' to 1 % of the total; " +
		"each configuration is sampled N times with the real selectRandom/roundSampleFactor. One evaluation = one row tested over N runs (plus N per-run clause checks); " +
		"non-trivial = the row was kept in some runs and discarded in others; distinct = distinct (configuration, row).")
	r.Assume("a kept row's keep probability is the inverse of the factor observed for it in the same run (what the property states): the Bernstein bound is conditional on the observed factors")
	r.Assume("the pgregory.net/rand generator behaves like independent uniform draws")
	workers := 16
	nCfg := r.N(320, 960)
	N := r.N(4000, 12000)
	maxConfirmed := 2
	r.SetCounter("stat.delta_stage1_x1e9", int64(c05Delta1*1e9))
	r.SetCounter("stat.runs_per_configuration", int64(N))
	var minDetMu sync.Mutex
	minDet := math.Inf(1)
	defer func() {
		if !math.IsInf(minDet, 1) {
			r.SetCounter("tiny.smallest_detectable_bias_x1000", int64(minDet*1000))
		}
	}()
	r.Parallel(workers, "configs", func(w *verifkit.Worker) {
		rnd := w.Rnd
		confirmed := 0
		for it := 0; it < nCfg/workers; it++ {
			c := c05Gen(rnd)
			s := &c05Sim{r: r, w: w, c: c, rng: rand.New(r.SubSeed(fmt.Sprintf("cfg/%d/%d", w.Index, it))), violated: map[string]bool{}}
			// deterministic expectations, sound whatever the random choices are
			s.mustWhole = make([]bool, len(c.Rows))
			s.whyWhole = make([]string, len(c.Rows))
			s.behindBreak = make([]bool, len(c.Rows))
			fixedSize := map[int32]int64{}
			topSize, topW := map[int64]int64{}, map[int64]int64{}
			var W int64
			for _, row := range c.Rows {
				if row.Size < 1 {
					continue
				}
				if c.Opt.Budgets && row.fixed > 0 {
					fixedSize[row.Metric] += int64(row.Size)
					continue
				}
				if _, ok := topW[row.topKey]; !ok {
					topW[row.topKey] = c.topWeight(row)
					W += topW[row.topKey]
				}
				topSize[row.topKey] += int64(row.Size)
			}
			// smallest size/weight of a top-level group that does not fit (the sampler's first loop stops there)
			missN, missD := int64(math.MaxInt64), int64(1)
			less := func(an, ad, bn, bd int64) bool { return an*bd < bn*ad }
			{
				type nd struct{ s, w int64 }
				var nodes []nd
				for k := range topSize {
					nodes = append(nodes, nd{topSize[k], topW[k]})
				}
				sort.Slice(nodes, func(i, j int) bool { return less(nodes[i].s, nodes[i].w, nodes[j].s, nodes[j].w) })
				B, Wr := c.Budget, W
				for _, n := range nodes {
					if B*n.w < Wr*n.s {
						missN, missD = n.s, n.w
						break
					}
					B -= n.s
					Wr -= n.w
				}
				for m, sz := range fixedSize {
					var fx int64
					for _, sp := range c.Metrics {
						if sp.ID == m {
							fx = sp.Fixed
						}
					}
					if sz > fx && less(sz, 1, missN, missD) {
						missN, missD = sz, 1
					}
				}
			}
			behindMiss := func(sz, wt int64) bool { return missN != math.MaxInt64 && !less(sz, wt, missN, missD) }
			fixedFits := true
			for i, row := range c.Rows {
				if row.Size < 1 {
					continue
				}
				var sp *c05MetricSpec
				for mi := range c.Metrics {
					if c.Metrics[mi].ID == row.Metric {
						sp = &c.Metrics[mi]
					}
				}
				if c.Opt.Budgets {
					if row.fixed > 0 {
						s.behindBreak[i] = behindMiss(fixedSize[row.Metric], 1)
					} else {
						s.behindBreak[i] = behindMiss(topSize[row.topKey], topW[row.topKey])
					}
				}
				switch {
				case c.Opt.Budgets && row.fixed > 0:
					if fixedSize[row.Metric] <= sp.Fixed {
						s.mustWhole[i], s.whyWhole[i] = true, "fixed-budget-metric-within-budget"
						if behindMiss(fixedSize[row.Metric], 1) {
							s.whyWhole[i] = "fixed-budget-break" // sorted behind a group that does not fit
						}
					} else {
						fixedFits = false
					}
				case topSize[row.topKey]*W <= c.Budget*topW[row.topKey]:
					s.mustWhole[i], s.whyWhole[i] = true, "group-within-its-share"
					if c.Opt.Budgets && behindMiss(topSize[row.topKey], topW[row.topKey]) {
						s.whyWhole[i] = "fixed-budget-break" // sorted behind an over-budget fixed-budget metric
					}
				}
				if !s.mustWhole[i] && sp.NoSample && c.Opt.ModeAgent && !c.Opt.DisableNoSampleAgent {
					s.mustWhole[i], s.whyWhole[i] = true, "no-sample-agent"
				}
			}
			_ = fixedFits
			s.reset()
			s.runs(N, true)
			flagged := s.outliers(N, c05Delta1)
			w.Count("stat.row_tests", int64(len(c.Rows)))
			w.Count("runs.sampler_runs(first pass)", int64(N))
			w.Count("runs.row_observations(callbacks checked)", int64(N)*int64(len(c.Rows)))
			varied, unconditional := 0, 0
			for i, row := range c.Rows {
				nontrivial := row.keptN > 0 && row.keptN < N
				if nontrivial {
					varied++
				}
				if s.mustWhole[i] {
					unconditional++
				}
				w.CaseHash(nontrivial, verifkit.Hash(fmt.Sprintf("%d/%d/%d", w.Index, it, i)))
				if row.Size >= 1 {
					w.R.MaxCounter("stat.max_factor_seen_x1000", int64(math.Min(row.maxS, 1e12)*1000))
				}
			}
			if c.Tiny {
				w.Count("tiny.configs", 1)
				for _, row := range c.Rows {
					if row.Size < 1 || row.keptN == N || row.minS < 1 {
						continue
					}
					// bias this row's test can still confirm: the stage-2 bound on 30·N runs with the variance seen here
					det := c05Eps(30*row.sumV, math.Max(1, row.maxS-1), c05Delta2) / float64(30*N)
					w.Count("tiny.sampled_rows_judged", 1)
					switch {
					case det < 0.1:
						w.Count("tiny.rows_with_detectable_bias_below_0.1", 1)
					case det < 0.3:
						w.Count("tiny.rows_with_detectable_bias_0.1_to_0.3", 1)
					case det < 1:
						w.Count("tiny.rows_with_detectable_bias_0.3_to_1", 1)
					default:
						w.Count("tiny.rows_with_detectable_bias_above_1(no power for a total loss)", 1)
					}
					minDetMu.Lock()
					if det < minDet {
						minDet = det
					}
					minDetMu.Unlock()
					w.R.MaxCounter("tiny.max_factor_seen_x1000", int64(row.maxS*1000))
				}
			}
			w.Count("rows.kept_in_some_runs_only", int64(varied))
			w.Count("rows.unconditional(must be kept with factor 1)", int64(unconditional))
			if c.Total <= c.Budget {
				w.Count("configs.everything_fits", 1)
			}
			if len(flagged) > 0 {
				w.Count("stat.configs_flagged_stage1", 1)
				w.Count("stat.rows_flagged_stage1", int64(len(flagged)))
				if confirmed >= maxConfirmed {
					w.R.NotJudged("stat.flagged_configs_after_confirmed_violations(cap)", 1)
				} else {
					// confirmation: fresh sub-seed, 30·N runs, stricter δ
					stage1 := map[int]string{}
					for _, i := range flagged {
						row := c.Rows[i]
						stage1[i] = fmt.Sprintf("mean=%.5f kept=%d/%d maxS=%.4g eps=%.5f", row.sumX/float64(N), row.keptN, N, row.maxS, c05Eps(row.sumV, math.Max(1, row.maxS-1), c05Delta1)/float64(N))
					}
					s.rng = rand.New(r.SubSeed(fmt.Sprintf("confirm/%d/%d", w.Index, it)))
					s.reset()
					n2 := 30 * N
					s.runs(n2, false)
					w.Count("stat.confirmation_runs", int64(n2))
					again := map[int]bool{}
					for _, i := range s.outliers(n2, c05Delta2) {
						again[i] = true
					}
					hit := false
					for _, i := range flagged {
						if !again[i] {
							w.Count("stat.rows_flag_not_confirmed", 1)
							continue
						}
						hit = true
						row := c.Rows[i]
						mean := row.sumX / float64(n2)
						dir := "below-one"
						if mean > 1 {
							dir = "above-one"
						}
						kind := "always-sampled"
						if row.minS == 1 {
							kind = "sometimes-unconditional"
						}
						r.Violation("C05/expectation/"+dir+"/"+kind,
							fmt.Sprintf("row %d: mean of (kept ? factor : 0) is %.5f over %d runs, allowed 1 ± %.5f (δ=%.0e); first pass: %s", i, mean, n2,
								c05Eps(row.sumV, math.Max(1, row.maxS-1), c05Delta2)/float64(n2), c05Delta2, stage1[i]),
							s.witness(map[string]any{"row": i, "kept_runs": row.keptN, "runs": n2, "max_factor": row.maxS, "min_factor": row.minS}))
					}
					if hit {
						confirmed++
					}
				}
			}
			if w.Index == 0 && it < 2 && len(c.Rows) <= 12 {
				var sb strings.Builder
				for i, row := range c.Rows {
					fmt.Fprintf(&sb, "row%d: mean=%.4f kept=%d/%d maxS=%.4g; ", i, row.sumX/float64(N), row.keptN, N, row.maxS)
				}
				r.Sample(map[string]any{"case": c, "per_row": sb.String()})
			}
		}
	})
}
